// extract: reads the go-uefi source tree (library packages only: no cmd/, tests/, *_test.go)
// with go/parser and writes facts as a Lean file (GoUefi/Extracted.lean) and as JSON.
// Facts: Sprintf format strings by enclosing function, integer constants, EFIGUID and OID
// composite literals, the predefined Efivar table, integer offsets used in authenticode.Parse,
// the open-flag expression of the variable writers, every log.Fatal*/os.Exit/panic call site,
// static call edges between library functions, and the receiver fields written by methods.
// A fact whose syntactic pattern is not found is emitted as absent (`none` / missing entry), never guessed.
package main

import (
	"encoding/json"
	"fmt"
	"go/ast"
	"go/parser"
	"go/printer"
	"go/token"
	"os"
	"path/filepath"
	"sort"
	"strconv"
	"strings"
)

type Site struct {
	Pkg    string `json:"pkg"`
	File   string `json:"file"`
	Func   string `json:"func"`
	Callee string `json:"callee"`
	Guard  string `json:"guard"`
	Line   int    `json:"line"`
}

type Fmt struct {
	Pkg, Func, Format string
}

type GuidVar struct {
	Pkg, Name  string
	D1, D2, D3 uint64
	D4         []uint64
}

type OidVar struct {
	Pkg, Name string
	Arcs      []uint64
}

type EfivarDef struct {
	VarName, Name, Guid string
	Attrs               uint64
}

type Graph struct {
	Edges  [][2]int `json:"edges"`  // indices into Funcs; method calls through interfaces / unknown receivers are resolved by name to every library function or method of that name
	Unsafe []int    `json:"unsafe"` // functions from which a non-excused termination site is reachable
	Fatal  []int    `json:"fatal"`  // functions that contain a non-excused termination site
}

// excused termination sites: (function, callee, guard). Read from excused_sites.json next to the
// known findings; every entry is mirrored (and justified) in lean/GoUefi/Sites.lean, and Lean checks
// that each extracted site is either excused there or counted as fatal here.
type Excused struct {
	Func, Callee, Guard, Why string
}

var excused []Excused

type Facts struct {
	Graph     Graph               `json:"graph"`
	Formats   []Fmt               `json:"formats"`
	Consts    map[string]uint64   `json:"consts"`
	Guids     []GuidVar           `json:"guids"`
	Oids      []OidVar            `json:"oids"`
	Efivars   []EfivarDef         `json:"efivars"`
	Schemes   []string            `json:"schemes"` // keys of ValidEFISignatureSchemes (variable names)
	ParseOffs map[string]uint64   `json:"parse_offsets"`
	Flags     map[string][]string `json:"write_flags"` // func -> identifiers or-ed into the open flags
	Fatal     []Site              `json:"fatal_sites"`
	Edges     [][2]string         `json:"edges"`
	Funcs     []string            `json:"funcs"`
	Writes    map[string][]string `json:"writes"` // method -> receiver fields assigned / buffer-mutating calls on receiver fields
	ValueRecv []string            `json:"value_receivers"` // methods declared with a value (non-pointer) receiver
	EscapeRecv []string           `json:"receiver_address_escapes"` // methods that pass &recv (or a conversion of it) to a call
}

var fset = token.NewFileSet()

func src(n ast.Node) string {
	var sb strings.Builder
	printer.Fprint(&sb, fset, n)
	return sb.String()
}

func main() {
	root := "/repo"
	out := ""
	jsonOut := ""
	for i := 1; i < len(os.Args); i++ {
		switch os.Args[i] {
		case "-repo":
			root = os.Args[i+1]
			i++
		case "-lean":
			out = os.Args[i+1]
			i++
		case "-json":
			jsonOut = os.Args[i+1]
			i++
		case "-excused":
			if b, err := os.ReadFile(os.Args[i+1]); err == nil {
				var doc struct {
					Sites []Excused `json:"sites"`
				}
				if json.Unmarshal(b, &doc) == nil {
					excused = doc.Sites
				}
			}
			i++
		}
	}
	facts := &Facts{Consts: map[string]uint64{}, ParseOffs: map[string]uint64{}, Flags: map[string][]string{}, Writes: map[string][]string{}}
	pkgs := map[string][]*ast.File{} // rel dir -> files
	filepath.Walk(root, func(p string, info os.FileInfo, err error) error {
		if err != nil {
			return nil
		}
		rel, _ := filepath.Rel(root, p)
		if info.IsDir() {
			if rel == "cmd" || rel == "tests" || strings.HasPrefix(filepath.Base(p), ".") && rel != "." || rel == "asntest" {
				return filepath.SkipDir
			}
			return nil
		}
		if !strings.HasSuffix(p, ".go") || strings.HasSuffix(p, "_test.go") {
			return nil
		}
		f, err := parser.ParseFile(fset, p, nil, parser.ParseComments)
		if err != nil {
			fmt.Fprintf(os.Stderr, "extract: %v\n", err)
			return nil
		}
		dir := filepath.Dir(rel)
		pkgs[dir] = append(pkgs[dir], f)
		return nil
	})
	dirs := []string{}
	for d := range pkgs {
		dirs = append(dirs, d)
	}
	sort.Strings(dirs)

	// pass 1: integer constants (package level const/var with literal or simple constant expressions)
	for round := 0; round < 4; round++ {
		for _, d := range dirs {
			for _, f := range pkgs[d] {
				for _, decl := range f.Decls {
					gd, ok := decl.(*ast.GenDecl)
					if !ok || (gd.Tok != token.CONST && gd.Tok != token.VAR) {
						continue
					}
					for _, sp := range gd.Specs {
						vs := sp.(*ast.ValueSpec)
						for i, name := range vs.Names {
							if i >= len(vs.Values) {
								continue
							}
							if v, ok := evalInt(facts, d, vs.Values[i]); ok {
								facts.Consts[d+"."+name.Name] = v
							}
						}
					}
				}
			}
		}
	}
	// pass 2: everything else
	for _, d := range dirs {
		for _, f := range pkgs[d] {
			file := fset.Position(f.Pos()).Filename
			relfile, _ := filepath.Rel(root, file)
			for _, decl := range f.Decls {
				switch dd := decl.(type) {
				case *ast.GenDecl:
					if dd.Tok != token.VAR {
						continue
					}
					for _, sp := range dd.Specs {
						vs := sp.(*ast.ValueSpec)
						for i, name := range vs.Names {
							if i >= len(vs.Values) {
								continue
							}
							collectVar(facts, d, name.Name, vs.Values[i])
						}
					}
				case *ast.FuncDecl:
					fn := funcName(dd)
					facts.Funcs = append(facts.Funcs, d+"."+fn)
					if dd.Recv != nil && len(dd.Recv.List) > 0 {
						if _, ptr := dd.Recv.List[0].Type.(*ast.StarExpr); !ptr {
							facts.ValueRecv = append(facts.ValueRecv, d+"."+fn)
						}
					}
					if dd.Body == nil {
						continue
					}
					collectFunc(facts, d, relfile, fn, dd)
				}
			}
		}
	}
	sort.Slice(facts.Formats, func(i, j int) bool {
		a, b := facts.Formats[i], facts.Formats[j]
		return a.Pkg+a.Func+a.Format < b.Pkg+b.Func+b.Format
	})
	sort.Slice(facts.Fatal, func(i, j int) bool {
		a, b := facts.Fatal[i], facts.Fatal[j]
		if a.File != b.File {
			return a.File < b.File
		}
		return a.Line < b.Line
	})
	sort.Slice(facts.Edges, func(i, j int) bool {
		return facts.Edges[i][0]+" "+facts.Edges[i][1] < facts.Edges[j][0]+" "+facts.Edges[j][1]
	})
	facts.Edges = dedupEdges(facts.Edges)
	sort.Strings(facts.Funcs)
	sort.Slice(facts.Guids, func(i, j int) bool { return facts.Guids[i].Pkg+facts.Guids[i].Name < facts.Guids[j].Pkg+facts.Guids[j].Name })
	sort.Slice(facts.Oids, func(i, j int) bool { return facts.Oids[i].Pkg+facts.Oids[i].Name < facts.Oids[j].Pkg+facts.Oids[j].Name })

	resolveGraph(facts)
	if jsonOut != "" {
		b, _ := json.MarshalIndent(facts, "", " ")
		os.WriteFile(jsonOut, b, 0o644)
	}
	if out != "" {
		os.WriteFile(out, []byte(leanFile(facts)), 0o644)
	}
}

func isExcused(st Site) bool {
	for _, e := range excused {
		if e.Func == st.Pkg+"."+st.Func && e.Callee == st.Callee && e.Guard == st.Guard {
			return true
		}
	}
	return false
}

func resolveGraph(f *Facts) {
	idx := map[string]int{}
	byLast := map[string][]int{}
	for i, fn := range f.Funcs {
		idx[fn] = i
		last := fn[strings.LastIndex(fn, ".")+1:]
		byLast[last] = append(byLast[last], i)
	}
	seen := map[[2]int]bool{}
	add := func(u, v int) {
		if !seen[[2]int{u, v}] {
			seen[[2]int{u, v}] = true
			f.Graph.Edges = append(f.Graph.Edges, [2]int{u, v})
		}
	}
	for _, e := range f.Edges {
		u, ok := idx[e[0]]
		if !ok {
			continue
		}
		if strings.HasPrefix(e[1], "*.") {
			for _, v := range byLast[e[1][2:]] {
				add(u, v)
			}
		} else if v, ok := idx[e[1]]; ok {
			add(u, v)
		} else {
			// pkg.Name where Name may be a type conversion or a method expression: resolve by last component within the package
			pkg := e[1][:strings.LastIndex(e[1], ".")]
			for _, v := range byLast[e[1][strings.LastIndex(e[1], ".")+1:]] {
				if strings.HasPrefix(f.Funcs[v], pkg+".") {
					add(u, v)
				}
			}
		}
	}
	sort.Slice(f.Graph.Edges, func(i, j int) bool {
		a, b := f.Graph.Edges[i], f.Graph.Edges[j]
		return a[0] < b[0] || (a[0] == b[0] && a[1] < b[1])
	})
	fatal := map[int]bool{}
	for _, st := range f.Fatal {
		if isExcused(st) {
			continue
		}
		if i, ok := idx[st.Pkg+"."+st.Func]; ok {
			fatal[i] = true
		}
	}
	unsafe := map[int]bool{}
	for i := range fatal {
		unsafe[i] = true
	}
	for changed := true; changed; {
		changed = false
		for _, e := range f.Graph.Edges {
			if unsafe[e[1]] && !unsafe[e[0]] {
				unsafe[e[0]] = true
				changed = true
			}
		}
	}
	for i := range fatal {
		f.Graph.Fatal = append(f.Graph.Fatal, i)
	}
	for i := range unsafe {
		f.Graph.Unsafe = append(f.Graph.Unsafe, i)
	}
	sort.Ints(f.Graph.Fatal)
	sort.Ints(f.Graph.Unsafe)
}

func dedupEdges(e [][2]string) [][2]string {
	var out [][2]string
	for i, x := range e {
		if i == 0 || x != e[i-1] {
			out = append(out, x)
		}
	}
	return out
}

func funcName(fd *ast.FuncDecl) string {
	if fd.Recv != nil && len(fd.Recv.List) > 0 {
		t := fd.Recv.List[0].Type
		if s, ok := t.(*ast.StarExpr); ok {
			t = s.X
		}
		if id, ok := t.(*ast.Ident); ok {
			return id.Name + "." + fd.Name.Name
		}
	}
	return fd.Name.Name
}

// importAlias maps the selector prefix used in expressions to a library package directory.
var importDirs = map[string]string{
	"util": "efi/util", "attributes": "efi/attributes", "signature": "efi/signature", "efivar": "efivar",
	"pkcs7": "pkcs7", "device": "efi/device", "attr": "efi/attr", "fs": "efi/fs", "fswrapper": "efivarfs/fswrapper",
	"efivarfs": "efivarfs", "authenticode": "authenticode",
}

func evalInt(f *Facts, pkg string, e ast.Expr) (uint64, bool) {
	switch x := e.(type) {
	case *ast.BasicLit:
		if x.Kind == token.INT {
			v, err := strconv.ParseUint(x.Value, 0, 64)
			return v, err == nil
		}
	case *ast.ParenExpr:
		return evalInt(f, pkg, x.X)
	case *ast.Ident:
		v, ok := f.Consts[pkg+"."+x.Name]
		return v, ok
	case *ast.SelectorExpr:
		if id, ok := x.X.(*ast.Ident); ok {
			if d, ok := importDirs[id.Name]; ok {
				v, ok := f.Consts[d+"."+x.Sel.Name]
				return v, ok
			}
		}
	case *ast.CallExpr: // conversions like Attributes(0x1), uint32(x)
		if len(x.Args) == 1 {
			if id, ok := x.Fun.(*ast.Ident); ok && (strings.HasPrefix(id.Name, "uint") || strings.HasPrefix(id.Name, "int") || id.Name == "Attributes" || id.Name == "WINCertType") {
				return evalInt(f, pkg, x.Args[0])
			}
		}
	case *ast.BinaryExpr:
		a, ok1 := evalInt(f, pkg, x.X)
		b, ok2 := evalInt(f, pkg, x.Y)
		if !ok1 || !ok2 {
			return 0, false
		}
		switch x.Op {
		case token.ADD:
			return a + b, true
		case token.SUB:
			return a - b, true
		case token.MUL:
			return a * b, true
		case token.OR:
			return a | b, true
		case token.AND:
			return a & b, true
		case token.SHL:
			return a << b, true
		}
	}
	return 0, false
}

func collectVar(f *Facts, pkg, name string, v ast.Expr) {
	switch x := v.(type) {
	case *ast.CompositeLit:
		ts := src(x.Type)
		switch {
		case strings.HasSuffix(ts, "EFIGUID") && len(x.Elts) == 4:
			g := GuidVar{Pkg: pkg, Name: name}
			ok := true
			vals := []uint64{}
			for i := 0; i < 3; i++ {
				n, o := evalInt(f, pkg, x.Elts[i])
				ok = ok && o
				vals = append(vals, n)
			}
			if cl, o := x.Elts[3].(*ast.CompositeLit); o {
				for _, e := range cl.Elts {
					n, o2 := evalInt(f, pkg, e)
					ok = ok && o2
					g.D4 = append(g.D4, n)
				}
			} else {
				ok = false
			}
			if ok && len(g.D4) == 8 {
				g.D1, g.D2, g.D3 = vals[0], vals[1], vals[2]
				f.Guids = append(f.Guids, g)
			}
		case strings.HasSuffix(ts, "ObjectIdentifier"):
			o := OidVar{Pkg: pkg, Name: name}
			ok := true
			for _, e := range x.Elts {
				n, o2 := evalInt(f, pkg, e)
				ok = ok && o2
				o.Arcs = append(o.Arcs, n)
			}
			if ok {
				f.Oids = append(f.Oids, o)
			}
		case ts == "Efivar" && len(x.Elts) == 3:
			ev := EfivarDef{VarName: name}
			if bl, ok := x.Elts[0].(*ast.BasicLit); ok {
				ev.Name, _ = strconv.Unquote(bl.Value)
			}
			if ce, ok := x.Elts[1].(*ast.CallExpr); ok && len(ce.Args) == 1 {
				if bl, ok := ce.Args[0].(*ast.BasicLit); ok && strings.HasSuffix(src(ce.Fun), "StringToGUID") {
					ev.Guid, _ = strconv.Unquote(bl.Value)
				}
			}
			if a, ok := evalInt(f, pkg, x.Elts[2]); ok && ev.Guid != "" {
				ev.Attrs = a
				f.Efivars = append(f.Efivars, ev)
			}
		case strings.HasPrefix(ts, "map[util.EFIGUID]") && name == "ValidEFISignatureSchemes":
			for _, e := range x.Elts {
				if kv, ok := e.(*ast.KeyValueExpr); ok {
					f.Schemes = append(f.Schemes, src(kv.Key))
				}
			}
		}
	}
}

var fatalCallees = map[string]bool{"log.Fatal": true, "log.Fatalf": true, "log.Fatalln": true, "os.Exit": true, "panic": true,
	"log.Panic": true, "log.Panicf": true, "log.Panicln": true}

func collectFunc(f *Facts, pkg, file, fn string, fd *ast.FuncDecl) {
	recvName := ""
	if fd.Recv != nil && len(fd.Recv.List) > 0 && len(fd.Recv.List[0].Names) > 0 {
		recvName = fd.Recv.List[0].Names[0].Name
	}
	// one-level aliases of receiver fields: x := recv.f, x := &recv.f
	alias := map[string]string{}
	if recvName != "" {
		ast.Inspect(fd.Body, func(n ast.Node) bool {
			as, ok := n.(*ast.AssignStmt)
			if !ok || len(as.Lhs) != len(as.Rhs) {
				return true
			}
			for i, l := range as.Lhs {
				id, ok := l.(*ast.Ident)
				if !ok {
					continue
				}
				r := as.Rhs[i]
				if u, ok := r.(*ast.UnaryExpr); ok && u.Op == token.AND {
					r = u.X
				}
				if se, ok := r.(*ast.SelectorExpr); ok {
					if rid, ok := se.X.(*ast.Ident); ok && rid.Name == recvName {
						alias[id.Name] = se.Sel.Name
					}
				}
			}
			return true
		})
	}
	mutating := map[string]bool{"Next": true, "Read": true, "ReadByte": true, "ReadFrom": true, "Truncate": true, "Write": true, "WriteByte": true, "WriteTo": true,
		"Reset": true, "Seek": true, "ReadBytes": true, "ReadString": true, "UnreadByte": true, "Grow": true, "WriteString": true, "ReadRune": true}
	var stack []ast.Node
	ast.Inspect(fd.Body, func(n ast.Node) bool {
		if n == nil {
			stack = stack[:len(stack)-1]
			return true
		}
		stack = append(stack, n)
		switch x := n.(type) {
		case *ast.CallExpr:
			callee := src(x.Fun)
			if callee == "fmt.Sprintf" && len(x.Args) > 0 {
				if bl, ok := x.Args[0].(*ast.BasicLit); ok && bl.Kind == token.STRING {
					s, _ := strconv.Unquote(bl.Value)
					f.Formats = append(f.Formats, Fmt{pkg, fn, s})
				}
			}
			if fatalCallees[callee] || strings.HasSuffix(callee, ".BytesOrPanic") {
				guard := ""
				for i := len(stack) - 2; i >= 0; i-- {
					if is, ok := stack[i].(*ast.IfStmt); ok {
						guard = src(is.Cond)
						if is.Init != nil {
							guard = src(is.Init) + "; " + guard
						}
						break
					}
					if cc, ok := stack[i].(*ast.CaseClause); ok {
						parts := []string{}
						for _, e := range cc.List {
							parts = append(parts, src(e))
						}
						guard = "case " + strings.Join(parts, ", ")
						break
					}
				}
				f.Fatal = append(f.Fatal, Site{Pkg: pkg, File: file, Func: fn, Callee: callee, Guard: strings.Join(strings.Fields(guard), " "), Line: fset.Position(x.Pos()).Line})
			}
			// static call edges: f(), pkg.F(), recv.M() (method name only; resolved by name later)
			switch c := x.Fun.(type) {
			case *ast.Ident:
				f.Edges = append(f.Edges, [2]string{pkg + "." + fn, pkg + "." + c.Name})
			case *ast.SelectorExpr:
				if id, ok := c.X.(*ast.Ident); ok {
					if d, ok := importDirs[id.Name]; ok && id.Obj == nil {
						f.Edges = append(f.Edges, [2]string{pkg + "." + fn, d + "." + c.Sel.Name})
						break
					}
				}
				f.Edges = append(f.Edges, [2]string{pkg + "." + fn, "*." + c.Sel.Name})
			}
			// calls of mutating buffer methods through an alias of a receiver field, and escapes of &recv
			if recvName != "" {
				if se, ok := x.Fun.(*ast.SelectorExpr); ok {
					if id, ok := se.X.(*ast.Ident); ok {
						if fld, ok := alias[id.Name]; ok && mutating[se.Sel.Name] {
							f.Writes[pkg+"."+fn] = append(f.Writes[pkg+"."+fn], fld+"."+se.Sel.Name+"(via "+id.Name+")")
						}
					}
				}
				for _, arg := range x.Args {
					esc := false
					ast.Inspect(arg, func(m ast.Node) bool {
						if u, ok := m.(*ast.UnaryExpr); ok && u.Op == token.AND {
							if id, ok := u.X.(*ast.Ident); ok && id.Name == recvName {
								esc = true
							}
						}
						return true
					})
					if esc {
						f.EscapeRecv = append(f.EscapeRecv, pkg+"."+fn)
					}
				}
			}
			// buffer-consuming calls on receiver fields
			if recvName != "" {
				if se, ok := x.Fun.(*ast.SelectorExpr); ok {
					if inner, ok := se.X.(*ast.SelectorExpr); ok {
						if id, ok := inner.X.(*ast.Ident); ok && id.Name == recvName {
							switch se.Sel.Name {
							case "Next", "Read", "ReadByte", "ReadFrom", "Truncate", "Write", "WriteByte", "WriteTo", "Reset", "Seek", "ReadBytes", "ReadString", "UnreadByte", "Grow":
								f.Writes[pkg+"."+fn] = append(f.Writes[pkg+"."+fn], inner.Sel.Name+"."+se.Sel.Name)
							}
						}
					}
				}
			}
		case *ast.AssignStmt:
			if pkg == "authenticode" && fn == "Parse" && len(x.Lhs) == 1 && len(x.Rhs) == 1 {
				if id, ok := x.Lhs[0].(*ast.Ident); ok {
					if be, ok := x.Rhs[0].(*ast.BinaryExpr); ok && be.Op == token.ADD {
						if v, ok := evalInt(f, pkg, be.Y); ok {
							key := id.Name
							if _, dup := f.ParseOffs[key]; dup {
								key = key + "'" // second assignment (PE32+ branch)
							}
							f.ParseOffs[key] = v
						}
					}
				}
			}
			if len(x.Lhs) == 1 && len(x.Rhs) == 1 {
				if id, ok := x.Lhs[0].(*ast.Ident); ok && id.Name == "flags" {
					ids := []string{}
					ast.Inspect(x.Rhs[0], func(m ast.Node) bool {
						if se, ok := m.(*ast.SelectorExpr); ok {
							ids = append(ids, src(se))
							return false
						}
						return true
					})
					f.Flags[pkg+"."+fn] = append(f.Flags[pkg+"."+fn], ids...)
				}
			}
			if recvName != "" {
				for _, l := range x.Lhs {
					e := l
					if st, ok := e.(*ast.StarExpr); ok {
						e = st.X
					}
					for {
						if ix, ok := e.(*ast.IndexExpr); ok {
							e = ix.X
							continue
						}
						break
					}
					for {
						se, ok := e.(*ast.SelectorExpr)
						if !ok {
							break
						}
						if id, ok := se.X.(*ast.Ident); ok && id.Name == recvName {
							f.Writes[pkg+"."+fn] = append(f.Writes[pkg+"."+fn], se.Sel.Name)
							break
						}
						e = se.X
					}
					if id, ok := e.(*ast.Ident); ok && id.Name == recvName {
						f.Writes[pkg+"."+fn] = append(f.Writes[pkg+"."+fn], "*")
					}
				}
			}
		case *ast.IncDecStmt:
			if recvName != "" {
				if se, ok := x.X.(*ast.SelectorExpr); ok {
					if id, ok := se.X.(*ast.Ident); ok && id.Name == recvName {
						f.Writes[pkg+"."+fn] = append(f.Writes[pkg+"."+fn], se.Sel.Name)
					}
				}
			}
		}
		return true
	})
}

func leanStr(s string) string { return strconv.Quote(s) }

func leanFile(f *Facts) string {
	var sb strings.Builder
	w := func(format string, a ...interface{}) { fmt.Fprintf(&sb, format, a...) }
	w("/- GENERATED by tools/extract from the go-uefi working tree on every run. Do not edit. -/\n")
	w("namespace GoUefi.Extracted\n\n")
	w("/-- (package, function, format literal) of every fmt.Sprintf in the library -/\n")
	w("def formats : List (String × String × String) := [\n")
	for i, x := range f.Formats {
		sep := ","
		if i == len(f.Formats)-1 {
			sep = ""
		}
		w("  (%s, %s, %s)%s\n", leanStr(x.Pkg), leanStr(x.Func), leanStr(x.Format), sep)
	}
	w("]\n\n")
	keys := []string{}
	for k := range f.Consts {
		keys = append(keys, k)
	}
	sort.Strings(keys)
	w("def consts : List (String × Nat) := [\n")
	for i, k := range keys {
		sep := ","
		if i == len(keys)-1 {
			sep = ""
		}
		w("  (%s, %d)%s\n", leanStr(k), f.Consts[k], sep)
	}
	w("]\n\n")
	w("/-- package-level EFIGUID literals: (package, name, Data1, Data2, Data3, Data4) -/\n")
	w("def guids : List (String × String × Nat × Nat × Nat × List Nat) := [\n")
	for i, g := range f.Guids {
		sep := ","
		if i == len(f.Guids)-1 {
			sep = ""
		}
		d4 := []string{}
		for _, b := range g.D4 {
			d4 = append(d4, fmt.Sprint(b))
		}
		w("  (%s, %s, %d, %d, %d, [%s])%s\n", leanStr(g.Pkg), leanStr(g.Name), g.D1, g.D2, g.D3, strings.Join(d4, ", "), sep)
	}
	w("]\n\n")
	w("def oids : List (String × String × List Nat) := [\n")
	for i, o := range f.Oids {
		sep := ","
		if i == len(f.Oids)-1 {
			sep = ""
		}
		a := []string{}
		for _, b := range o.Arcs {
			a = append(a, fmt.Sprint(b))
		}
		w("  (%s, %s, [%s])%s\n", leanStr(o.Pkg), leanStr(o.Name), strings.Join(a, ", "), sep)
	}
	w("]\n\n")
	w("/-- predefined efivar.Efivar values: (Go variable, Name, GUID text, attribute mask) -/\n")
	w("def efivars : List (String × String × String × Nat) := [\n")
	for i, e := range f.Efivars {
		sep := ","
		if i == len(f.Efivars)-1 {
			sep = ""
		}
		w("  (%s, %s, %s, %d)%s\n", leanStr(e.VarName), leanStr(e.Name), leanStr(e.Guid), e.Attrs, sep)
	}
	w("]\n\n")
	w("def schemes : List String := [%s]\n\n", joinQ(f.Schemes))
	keys = keys[:0]
	for k := range f.ParseOffs {
		keys = append(keys, k)
	}
	sort.Strings(keys)
	w("/-- integer added on the right-hand side of assignments in authenticode.Parse -/\n")
	w("def parseOffsets : List (String × Nat) := [")
	for i, k := range keys {
		if i > 0 {
			w(", ")
		}
		w("(%s, %d)", leanStr(k), f.ParseOffs[k])
	}
	w("]\n\n")
	keys = keys[:0]
	for k := range f.Flags {
		keys = append(keys, k)
	}
	sort.Strings(keys)
	w("def writeFlags : List (String × List String) := [")
	for i, k := range keys {
		if i > 0 {
			w(", ")
		}
		w("(%s, [%s])", leanStr(k), joinQ(f.Flags[k]))
	}
	w("]\n\n")
	w("/-- every log.Fatal*/os.Exit/panic/BytesOrPanic call site: (file, function, callee, guard) -/\n")
	w("def fatalSites : List (String × String × String × String) := [\n")
	for i, s := range f.Fatal {
		sep := ","
		if i == len(f.Fatal)-1 {
			sep = ""
		}
		w("  (%s, %s, %s, %s)%s\n", leanStr(s.File), leanStr(s.Pkg+"."+s.Func), leanStr(s.Callee), leanStr(s.Guard), sep)
	}
	w("]\n\n")
	keys = keys[:0]
	for k := range f.Writes {
		keys = append(keys, k)
	}
	sort.Strings(keys)
	w("/-- receiver fields assigned, or buffer-mutating methods called on receiver fields, per method -/\n")
	w("def writes : List (String × List String) := [\n")
	for i, k := range keys {
		sep := ","
		if i == len(keys)-1 {
			sep = ""
		}
		w("  (%s, [%s])%s\n", leanStr(k), joinQ(f.Writes[k]), sep)
	}
	w("]\n\n")
	sort.Strings(f.ValueRecv)
	sort.Strings(f.EscapeRecv)
	w("/-- methods declared with a value (non-pointer) receiver -/\n")
	w("def valueReceivers : List String := [%s]\n\n", joinQ(f.ValueRecv))
	w("/-- methods that pass the address of their receiver to a call -/\n")
	w("def receiverAddressEscapes : List String := [%s]\n\n", joinQ(f.EscapeRecv))
	w("def funcs : List String := [%s]\n\n", joinQ(f.Funcs))
	w("/-- resolved static call edges (indices into `funcs`) -/\n")
	w("def edges : List (Nat × Nat) := [")
	for i, e := range f.Graph.Edges {
		if i > 0 {
			w(", ")
		}
		if i%12 == 0 {
			w("\n  ")
		}
		w("(%d, %d)", e[0], e[1])
	}
	w("]\n\n")
	w("/-- functions containing a termination site that is not excused (excused_sites.json) -/\n")
	w("def fatalFuncs : List Nat := %s\n\n", leanInts(f.Graph.Fatal))
	w("/-- candidate: functions from which a fatal function is reachable (checked, not trusted, by Lean) -/\n")
	w("def unsafeFuncs : List Nat := %s\n\n", leanInts(f.Graph.Unsafe))
	w("end GoUefi.Extracted\n")
	return sb.String()
}

func leanInts(xs []int) string {
	q := []string{}
	for _, x := range xs {
		q = append(q, fmt.Sprint(x))
	}
	return "[" + strings.Join(q, ", ") + "]"
}

func joinQ(xs []string) string {
	q := []string{}
	for _, x := range xs {
		q = append(q, leanStr(x))
	}
	return strings.Join(q, ", ")
}
