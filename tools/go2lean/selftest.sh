#!/bin/sh
# Self-test of the translator on testdata/sample (constructs of sessions 4, 5, 6, 7 and 8): translates the package, runs the
# translation in Lean (testdata/run.lean) and compares, line by line, with what the Go code prints
# (testdata/cmd/run); then checks that the functions that must be rejected are rejected.
#   usage: tools/go2lean/selftest.sh        (from anywhere; needs go, lake)
set -e
here=$(cd "$(dirname "$0")" && pwd)
verif=$(cd "$here/../.." && pwd)
export GOFLAGS=-mod=mod GOPROXY=off GOSUMDB=off GOTOOLCHAIN=local
tmp=$(mktemp -d)
trap 'rm -rf "$tmp" "$verif/lean/SelfTestTmp.lean"' EXIT
(cd "$here" && go build -o "$tmp/go2lean" .)
"$tmp/go2lean" -repo "$here/testdata" -targets "$here/testdata/targets.json" -lean "$tmp/Sample.lean" -json "$tmp/sample.json" 2>"$tmp/skipped.txt" || true
(cd "$here/testdata" && go run ./cmd/run) >"$tmp/go.out"
(grep -v '^end GoUefi.Gen' "$tmp/Sample.lean"; echo 'end GoUefi.Gen'; cat "$here/testdata/run.lean") >"$verif/lean/SelfTestTmp.lean"
(cd "$verif/lean" && lake env lean SelfTestTmp.lean) >"$tmp/lean.out"
diff "$tmp/go.out" "$tmp/lean.out" || { echo "selftest: the translation and the Go code print different lines"; exit 1; }
for f in ShortRead First Word TwoLens Stringer Verb Skips Outer.Promoted Outer.PtrBox Narrow Window Box.Peek Box.At Box.Drain MapRange MapArg mapLen FnValue FnParamValue; do
  grep -q "skipped sample.$f:" "$tmp/skipped.txt" || { echo "selftest: sample.$f should have been rejected"; exit 1; }
done
n=$(grep -c '^skipped' "$tmp/skipped.txt")
[ "$n" = 19 ] || { echo "selftest: $n functions rejected, expected 19"; cat "$tmp/skipped.txt"; exit 1; }
echo "selftest ok: $(wc -l <"$tmp/go.out") lines equal, 19 rejections as expected"
