// sect.go: the types and intrinsics that the signature-table half of authenticode.PECOFFBinary needs.
//
//   - named types of the standard library, by an explicit list (nothing else of the standard library is loaded, so
//     that the structures of the older targets keep their `Opaque` fields):
//     debug/pe.DataDirectory  the struct itself, loaded from the standard library's declaration (`pe.DataDirectory`)
//     crypto.Hash             `abbrev crypto.Hash := UInt64` (a `uint`)
//     io.SectionReader        the prelude's `SectionReader`: the bytes that reading the section from its start
//     delivers; the read position is not modelled, so only the operations below are translated
//     io.ReaderAt and library interfaces that embed it (authenticode.SizeReaderAt)
//     the prelude's `ReaderAtRef`: a reference that can only be handed to external functions
//   - io.NewSectionReader(bytes.NewReader(b), 0, int64(len(b)))   `⟨b⟩` (a section reader over all of b)
//     io.NewSectionReader(sr, 0, sr.Size()) with sr a *io.SectionReader: `sr` (a copy that starts at the beginning
//     again and has the same size: the same bytes); every other use of io.NewSectionReader is rejected
//   - io.MultiReader(r1, …, rn): the concatenation of what the parts deliver (readers that do not fail)
//   - a *io.SectionReader stored in an io.Reader slot (an argument of io.MultiReader, an io.Reader parameter of a
//     translated or external function): its bytes, `.content`
//   - buf.ReadFrom(r) on a *bytes.Buffer: everything r delivers is appended, (n, nil)
//   - Write / Read / Len / Bytes on a reader or buffer that is a FIELD (`p.certTable.Write(x)`): as on a variable,
//     the field is rebound (`{ p with certTable := p.certTable ++ x }`) and the method counts as writing through
//     its receiver
//   - a reader made for one call (`f(makeSectionReader(x))`, `r.Read(make([]byte, n))`): what the callee leaves of it
//     is dropped
package main

import (
	"fmt"
	"go/ast"
	"go/token"
	"go/types"
	"strings"
)

func namedIs(t types.Type, path, name string) bool {
	if p, ok := t.(*types.Pointer); ok {
		t = p.Elem()
	}
	n, ok := t.(*types.Named)
	return ok && n.Obj().Pkg() != nil && n.Obj().Pkg().Path() == path && n.Obj().Name() == name
}

func isSectionReader(t types.Type) bool { return t != nil && namedIs(t, "io", "SectionReader") }

// isReaderAtRef: io.ReaderAt, or an interface type of the library whose method set contains ReadAt
func isReaderAtRef(t types.Type) bool {
	if t == nil {
		return false
	}
	if namedIs(t, "io", "ReaderAt") {
		return true
	}
	n, ok := t.(*types.Named)
	if !ok || n.Obj().Pkg() == nil || !strings.HasPrefix(n.Obj().Pkg().Path(), modPath) {
		return false
	}
	it, ok := n.Underlying().(*types.Interface)
	if !ok {
		return false
	}
	for i := 0; i < it.NumMethods(); i++ {
		if it.Method(i).Name() == "ReadAt" {
			return true
		}
	}
	return false
}

// stdNamedType: the Lean type of a named type of the standard library that is on the list above (or of a library
// interface that embeds io.ReaderAt)
func stdNamedType(n ast.Node, tt *types.Named) (string, bool) {
	obj := tt.Obj()
	if obj.Pkg() == nil {
		return "", false
	}
	switch obj.Pkg().Path() + "." + obj.Name() {
	case "io.SectionReader":
		return "SectionReader", true
	case "debug/pe.DataDirectory":
		if st, ok := tt.Underlying().(*types.Struct); ok {
			ensureStruct(n, "pe.DataDirectory", st)
			return "pe.DataDirectory", true
		}
	case "crypto/x509/pkix.AlgorithmIdentifier":
		// the struct itself; `Algorithm asn1.ObjectIdentifier` is the list of its components (as an ObjectIdentifier is
		// everywhere outside struct fields), `Parameters asn1.RawValue` stays Opaque
		// — ONLY where a translated function reads it (`loadStdField`: authenticode.Authenticode.Algid); in every other
		// struct field the type stays Opaque, so that the existing structures do not change
		if st, ok := tt.Underlying().(*types.Struct); ok && (fieldDepth == 0 || stdFieldLoad > 0) {
			fieldOverride["pkix.AlgorithmIdentifier.Algorithm"] = "(List Int)"
			ensureStruct(n, "pkix.AlgorithmIdentifier", st)
			return "pkix.AlgorithmIdentifier", true
		}
	case "crypto.Hash":
		ensureAbbrev(n, "crypto.Hash", tt.Underlying())
		return "crypto.Hash", true
	case "hash.Hash":
		// the prelude's HashObj: the algorithm and the bytes written so far (fnarg.go); never inside a struct field
		if fieldDepth == 0 {
			return "HashObj", true
		}
	}
	if isReaderAtRef(tt) {
		return "ReaderAtRef", true
	}
	return "", false
}

// stdZero: zero values of the prelude's representations (a nil *io.SectionReader / io.ReaderAt: Go panics when it is
// used; not modelled)
func stdZero(ty types.Type) (string, bool) {
	switch {
	case isSectionReader(ty):
		return "(⟨[]⟩ : SectionReader)", true
	case isReaderAtRef(ty):
		return "(⟨0⟩ : ReaderAtRef)", true
	}
	return "", false
}

// readerLV: e is a variable or a path of field selections from one whose static type is a reader / writer type
// (`b`, `p.certTable`): it can be read with t.expr and rebound with t.assign
func (t *fnTrans) readerLV(e ast.Expr) (ast.Expr, bool) {
	inner := e
	for {
		switch x := inner.(type) {
		case *ast.ParenExpr:
			inner = x.X
			continue
		case *ast.UnaryExpr:
			if x.Op == token.AND {
				inner = x.X
				continue
			}
		case *ast.StarExpr:
			inner = x.X
			continue
		}
		break
	}
	var walk func(e ast.Expr) bool
	walk = func(e ast.Expr) bool {
		switch x := e.(type) {
		case *ast.Ident:
			_, isVar := t.pi.info.Uses[x].(*types.Var)
			return isVar
		case *ast.SelectorExpr:
			sel, ok := t.pi.info.Selections[x]
			return ok && sel.Kind() == types.FieldVal && walk(x.X)
		case *ast.ParenExpr:
			return walk(x.X)
		case *ast.StarExpr:
			return walk(x.X)
		}
		return false
	}
	if !walk(inner) {
		return nil, false
	}
	ty := typeOfIn(t.pi.info, inner)
	if ty == nil || !isReaderType(ty) {
		return nil, false
	}
	return inner, true
}

// isFieldPath: e is `x.f1.….fk` (k ≥ 1) over a variable
func isFieldPath(info *types.Info, e ast.Expr) bool {
	se, ok := e.(*ast.SelectorExpr)
	if !ok {
		return false
	}
	sel, ok := info.Selections[se]
	return ok && sel.Kind() == types.FieldVal
}

// asReader: the bytes that the reader-valued expression e delivers (an argument of io.MultiReader / ReadFrom, or a
// value stored in an io.Reader slot)
func (t *fnTrans) asReader(e ast.Expr) string {
	ty := t.typeOf(e)
	if isSectionReader(ty) {
		return "(" + t.expr(e) + ").content"
	}
	if isReaderType(ty) {
		return t.expr(e)
	}
	fail(e, "a value of type %s used as an io.Reader", ty)
	return ""
}

func (t *fnTrans) isConstZero(e ast.Expr) bool {
	k, ok := constInt(t.pi.info, e)
	return ok && k == 0
}

// newSectionReader: the two supported shapes of io.NewSectionReader (see the top of the file)
func (t *fnTrans) newSectionReader(c *ast.CallExpr) string {
	if len(c.Args) != 3 || !t.isConstZero(c.Args[1]) {
		fail(c, "io.NewSectionReader with an offset that is not the constant 0")
	}
	strip := func(e ast.Expr) ast.Expr {
		for {
			switch x := e.(type) {
			case *ast.ParenExpr:
				e = x.X
				continue
			case *ast.CallExpr:
				// int64(v)
				if tv, ok := t.pi.info.Types[x.Fun]; ok && tv.IsType() && len(x.Args) == 1 {
					if b, ok := tv.Type.Underlying().(*types.Basic); ok && b.Info()&types.IsInteger != 0 {
						e = x.Args[0]
						continue
					}
				}
			}
			return e
		}
	}
	size := strip(c.Args[2])
	if inner, ok := c.Args[0].(*ast.CallExpr); ok && qualName(inner, t.pi.info) == "bytes.NewReader" {
		// over all of a byte slice
		if lc, ok := size.(*ast.CallExpr); ok && qualName(lc, t.pi.info) == "builtin.len" && sameExpr(lc.Args[0], inner.Args[0]) {
			if _, isId := inner.Args[0].(*ast.Ident); isId {
				return fmt.Sprintf("(⟨%s⟩ : SectionReader)", t.expr(inner.Args[0]))
			}
		}
		fail(c, "io.NewSectionReader(bytes.NewReader(b), 0, n) with n other than len(b) of the same variable b")
	}
	if isSectionReader(t.typeOf(c.Args[0])) {
		// a copy of a section reader: io.NewSectionReader(sr, 0, sr.Size())
		if sc, ok := size.(*ast.CallExpr); ok && len(sc.Args) == 0 {
			if se, ok := sc.Fun.(*ast.SelectorExpr); ok && se.Sel.Name == "Size" && sameExpr(se.X, c.Args[0]) {
				if _, isId := c.Args[0].(*ast.Ident); isId {
					return t.expr(c.Args[0])
				}
			}
		}
		fail(c, "io.NewSectionReader(sr, 0, n) over a section reader with n other than sr.Size()")
	}
	fail(c, "io.NewSectionReader over %s (supported: bytes.NewReader(b) with len(b), a *io.SectionReader with its Size())", t.typeOf(c.Args[0]))
	return ""
}

// multiReader: io.MultiReader(r1, …, rn) — what the parts deliver, one after the other
func (t *fnTrans) multiReader(c *ast.CallExpr) string {
	if c.Ellipsis.IsValid() {
		fail(c, "io.MultiReader with a spread argument list")
	}
	if len(c.Args) == 0 {
		return "([] : List UInt8)"
	}
	var parts []string
	for _, a := range c.Args {
		if _, isLV := t.readerLV(a); isLV {
			fail(a, "io.MultiReader over a reader variable (it would be consumed through the result)")
		}
		parts = append(parts, t.asReader(a))
	}
	return "(" + strings.Join(parts, " ++ ") + ")"
}

// readFromCall: `buf.ReadFrom(r)` on a *bytes.Buffer
func (t *fnTrans) readFromCall(c *ast.CallExpr, se *ast.SelectorExpr) (string, []string, bool) {
	lv, ok := t.readerLV(se.X)
	if !ok || !namedIs(typeOfIn(t.pi.info, lv), "bytes", "Buffer") {
		return "", nil, false
	}
	src := c.Args[0]
	var b strings.Builder
	tmp := t.fresh("r")
	fmt.Fprintf(&b, "let %s := %s\n", tmp, t.asReader(src))
	b.WriteString(t.assign(c, lv, fmt.Sprintf("(%s ++ %s)", t.expr(lv), tmp)))
	if slv, isLV := t.readerLV(src); isLV {
		b.WriteString(t.assign(c, slv, "([] : List UInt8)")) // read to the end
	}
	return b.String(), []string{fmt.Sprintf("(lenI %s)", tmp), "(none : GoErr)"}, true
}

// droppedReaderArg: a reader argument that is not a variable or a field (a call that makes the reader for this one
// use): what the callee leaves of it cannot be observed
func (t *fnTrans) droppedReaderArg(e ast.Expr) bool {
	if isFreshReader(t.pi.info, e) {
		return true
	}
	if _, isCall := e.(*ast.CallExpr); !isCall && isSectionReader(typeOfIn(t.pi.info, e)) {
		// a section reader that is kept somewhere is handed to a function that reads from it: afterwards its position
		// has moved, which the representation (the bytes from the start) cannot express
		fail(e, "a *io.SectionReader that is a variable or a field is handed to a function that reads from it (its read position is not modelled)")
	}
	if _, isCall := e.(*ast.CallExpr); isCall {
		if tv, ok := t.pi.info.Types[e.(*ast.CallExpr).Fun]; ok && tv.IsType() {
			return false // a conversion: the variable behind it
		}
		return true
	}
	return false
}
