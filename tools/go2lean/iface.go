// iface.go: a concrete value stored in a slot of a library interface type, and method calls whose receiver is
// reached through embedded fields.
//
// A value of a (non-error) interface type of the library is a structure with one function field per method
// (ensureIface). When a function assigns a value of a CONCRETE named type to a variable of such a type
// (`t = payload(x)`), declares one with an initialiser, or hands one to a translated / opaque function whose
// parameter has the interface type, the structure is built from the TRANSLATED methods of the concrete type:
//
//   def <pkg>.<T>.as_<ipkg>_<I> (x : <pkg>.<T>) : <ipkg>.<I> :=
//     { M := fun _ a0 … => <pkg>.<T>.M x a0 …, … }
//
// The call-site index is ignored: a value whose methods do not write through their receiver behaves alike at
// every call site. Everything that would make this unfaithful is rejected: a pointer stored in the interface (the
// object may change behind it), a method that is not a translation target, is opaque, writes through its receiver,
// is promoted from an embedded field, or needs fuel / an Ext structure; an interface value stored in a slot of a
// different interface type.
package main

import (
	"fmt"
	"go/ast"
	"go/token"
	"go/types"
	"strings"
)

// libIface: ty is a named interface type of the library that is modelled as a structure of function fields
func libIface(ty types.Type) (*types.Named, *types.Interface, bool) {
	if ty == nil {
		return nil, nil, false
	}
	nt, ok := ty.(*types.Named)
	if !ok || isErrorType(ty) || isReaderType(ty) || nt.Obj().Pkg() == nil {
		return nil, nil, false
	}
	it, ok := nt.Underlying().(*types.Interface)
	if !ok || !strings.HasPrefix(nt.Obj().Pkg().Path(), modPath) {
		return nil, nil, false
	}
	return nt, it, true
}

func isInterface(ty types.Type) bool {
	if ty == nil {
		return false
	}
	_, ok := ty.Underlying().(*types.Interface)
	return ok
}

// typeOfIn: the static type of e (identifiers on the left of an assignment have no entry in info.Types)
func typeOfIn(info *types.Info, e ast.Expr) types.Type {
	if tv, ok := info.Types[e]; ok {
		return tv.Type
	}
	if id, ok := e.(*ast.Ident); ok {
		if o := info.Uses[id]; o != nil {
			return o.Type()
		}
		if o := info.Defs[id]; o != nil {
			return o.Type()
		}
	}
	return nil
}

// paramType: the type of the i-th parameter of the function that c calls (nil for conversions, builtins and
// the variadic tail)
func paramType(info *types.Info, c *ast.CallExpr, i int) types.Type {
	if tv, ok := info.Types[c.Fun]; ok && tv.IsType() {
		return nil
	}
	sig, ok := typeOfIn(info, c.Fun).(*types.Signature)
	if !ok {
		return nil
	}
	if sig.Variadic() && i >= sig.Params().Len()-1 {
		return nil
	}
	if i >= sig.Params().Len() {
		return nil
	}
	return sig.Params().At(i).Type()
}

// boxSlots calls visit(slotType, value) for every place of n where a value is stored in a slot with a declared
// type: `lhs = rhs`, `var x T = rhs`, and the arguments of calls
func boxSlots(info *types.Info, n ast.Node, visit func(slot types.Type, val ast.Expr)) {
	ast.Inspect(n, func(m ast.Node) bool {
		switch s := m.(type) {
		case *ast.AssignStmt:
			if s.Tok == token.ASSIGN && len(s.Lhs) == len(s.Rhs) {
				for i := range s.Lhs {
					if id, ok := s.Lhs[i].(*ast.Ident); ok && id.Name == "_" {
						continue
					}
					visit(typeOfIn(info, s.Lhs[i]), s.Rhs[i])
				}
			}
		case *ast.ValueSpec:
			if s.Type != nil && len(s.Values) == len(s.Names) {
				for i := range s.Names {
					visit(typeOfIn(info, s.Names[i]), s.Values[i])
				}
			}
		case *ast.CallExpr:
			for i, a := range s.Args {
				visit(paramType(info, s, i), a)
			}
		}
		return true
	})
}

// boxedMethods: the methods of concrete types that the body of a function stores in library-interface slots
func boxedMethods(info *types.Info, body ast.Node) []*types.Func {
	var out []*types.Func
	boxSlots(info, body, func(slot types.Type, val ast.Expr) {
		_, it, ok := libIface(slot)
		if !ok {
			return
		}
		ct := typeOfIn(info, val)
		if ct == nil || isInterface(ct) {
			return
		}
		if b, ok := ct.(*types.Basic); ok && b.Kind() == types.UntypedNil {
			return
		}
		for i := 0; i < it.NumMethods(); i++ {
			m := it.Method(i)
			obj, _, _ := types.LookupFieldOrMethod(ct, false, m.Pkg(), m.Name())
			if fo, ok := obj.(*types.Func); ok {
				out = append(out, fo)
			}
		}
	})
	return out
}

// coerce: the Lean expression for `val` stored in a slot of type `slot`
func (t *fnTrans) coerce(n ast.Node, slot types.Type, val ast.Expr) string {
	if slot != nil && isReaderType(slot) && !t.isNil(val) && isSectionReader(typeOfIn(t.pi.info, val)) {
		// a *io.SectionReader stored in an io.Reader slot: the bytes it delivers
		return t.asReader(val)
	}
	nt, it, ok := libIface(slot)
	if !ok || t.isNil(val) {
		return t.expr(val)
	}
	ct := t.typeOf(val)
	if isInterface(ct) {
		if !types.Identical(ct, slot) {
			fail(n, "a value of the interface type %s is stored in a slot of the interface type %s", ct, slot)
		}
		return t.expr(val)
	}
	return t.box(n, nt, it, ct, val)
}

// argExpr: the i-th argument of the call c to a translated or opaque function
func (t *fnTrans) argExpr(c *ast.CallExpr, i int) string {
	return t.coerce(c.Args[i], paramType(t.pi.info, c, i), c.Args[i])
}

// synthetic definitions (`T.as_I`), by Lean name
var boxDefs = map[string]*fnDecl{}

func (t *fnTrans) box(n ast.Node, nt *types.Named, it *types.Interface, ct types.Type, val ast.Expr) string {
	if _, isPtr := ct.(*types.Pointer); isPtr {
		fail(n, "a pointer (%s) is stored in a value of the interface type %s: the object may change behind the interface value", ct, nt)
	}
	if _, named := ct.(*types.Named); !named {
		fail(n, "a value of the unnamed type %s is stored in a value of the interface type %s", ct, nt)
	}
	ifaceLean := leanType(n, nt)
	concLean := leanType(n, ct)
	name := concLean + ".as_" + strings.ReplaceAll(ifaceLean, ".", "_")
	if _, ok := boxDefs[name]; !ok {
		var fields []string
		var deps []string
		for i := 0; i < it.NumMethods(); i++ {
			m := it.Method(i)
			sig := m.Type().(*types.Signature)
			mut, typed := func() (mut []int, ok bool) {
				defer func() {
					if r := recover(); r != nil {
						if _, isU := r.(unsupported); isU {
							ok = false
							return
						}
						panic(r)
					}
				}()
				_, mut = ifaceMethodType(n, sig)
				return mut, true
			}()
			if !typed {
				// the field is `Opaque` (ensureIface): the translated code cannot call this method
				fields = append(fields, fmt.Sprintf("%s := (⟨⟩ : Opaque)", lname(m.Name())))
				continue
			}
			obj, index, _ := types.LookupFieldOrMethod(ct, false, m.Pkg(), m.Name())
			fo, ok := obj.(*types.Func)
			if !ok {
				fail(n, "%s has no method %s", ct, m.Name())
			}
			if len(index) > 1 {
				fail(n, "method %s of %s is promoted from an embedded field", m.Name(), ct)
			}
			fd := byObj[fo.FullName()]
			switch {
			case fd == nil:
				fail(n, "method %s of %s (stored in a value of the interface type %s) is not a translation target", m.Name(), ct, nt)
			case fd.opaque:
				fail(n, "method %s of %s (stored in a value of the interface type %s) is opaque", m.Name(), ct, nt)
			case fd.mutating:
				fail(n, "method %s of %s writes through its receiver: the value stored in the interface has state", m.Name(), ct)
			case fd.usesFuel || fd.usesExt || fd.usesX != "":
				fail(n, "method %s of %s needs fuel or an Ext structure", m.Name(), ct)
			}
			var ps []string
			for k := 0; k < sig.Params().Len(); k++ {
				ps = append(ps, fmt.Sprintf("a%d", k))
			}
			callF := strings.Join(append([]string{fd.leanName, "x"}, ps...), " ")
			nres := sig.Results().Len()
			same := len(mut) == len(fd.mutParams)
			for k := range mut {
				if same && mut[k] != fd.mutParams[k] {
					same = false
				}
			}
			body := callF
			if !same {
				// the interface field returns every reader parameter; the method returns those it consumes
				total := len(fd.mutParams) + nres
				var parts []string
				for _, i := range mut {
					pos := -1
					for k, j := range fd.mutParams {
						if j == i {
							pos = k
						}
					}
					if pos < 0 {
						parts = append(parts, fmt.Sprintf("a%d", i))
					} else {
						parts = append(parts, tupleProj("r", pos, total))
					}
				}
				for k := 0; k < nres; k++ {
					parts = append(parts, tupleProj("r", len(fd.mutParams)+k, total))
				}
				res := parts[0]
				if len(parts) > 1 {
					res = "(" + strings.Join(parts, ", ") + ")"
				}
				if total == 0 {
					body = res
				} else {
					body = fmt.Sprintf("let r := %s; %s", callF, res)
				}
			}
			fields = append(fields, fmt.Sprintf("%s := fun %s => %s", lname(m.Name()), strings.Join(append([]string{"_"}, ps...), " "), body))
			deps = append(deps, fd.leanName)
		}
		out := fmt.Sprintf("/-- a value of the concrete type %s stored in a value of the interface type %s: the fields are the\n    translated methods of %s (which do not write through their receiver: every call site behaves alike) -/\ndef %s (x : %s) : %s :=\n  { %s }\n",
			concLean, ifaceLean, concLean, name, concLean, ifaceLean, strings.Join(fields, ",\n    "))
		sd := &fnDecl{leanName: name, out: out, deps: deps, synthetic: true}
		boxDefs[name] = sd
		targets = append(targets, sd)
	}
	t.deps[name] = true
	return fmt.Sprintf("(%s %s)", name, t.expr(val))
}

// checkRecvPath: a method call `x.M(…)` where M is promoted from an embedded field of x (the receiver is not x
// but x.E1.….Ek) is rejected — write the path out (`x.E.M(…)`), which is translated as a field selection.
func (t *fnTrans) checkRecvPath(c *ast.CallExpr) {
	se, ok := c.Fun.(*ast.SelectorExpr)
	if !ok {
		return
	}
	if sel, ok := t.pi.info.Selections[se]; ok && sel.Kind() == types.MethodVal && len(sel.Index()) > 1 {
		fail(c, "call of the method %s promoted from an embedded field (the receiver is reached through an implicit path)", se.Sel.Name)
	}
}
