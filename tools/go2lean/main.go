// go2lean: translates a fixed list of go-uefi functions (targets.json) from the working tree into
// Lean 4 definitions (GoUefi/Gen.lean), using go/parser + go/types. The supported Go subset is small and
// explicit; anything outside it makes the target untranslatable (it is then simply absent from the
// output together with a `skipped` entry, so the equivalence theorems that mention it stop compiling).
//
// Semantics of the translation (what is modelled, what is not):
//   - uintN arithmetic is Lean's UIntN (wrap-around as in Go); `int` is Lean's Int (no overflow: lengths).
//   - slices, arrays and strings are immutable Lean lists / strings; a pointer to a struct is the struct
//     value. Aliasing between variables is NOT modelled (checked dynamically by C10/C19).
//   - a method with a pointer receiver that writes through it returns the new receiver value first.
//   - `for .. range` loops become structurally recursive helper functions (`<fn>.loopK`) returning
//     `Loop.ret r` (a `return` inside the loop) or `Loop.done muts` (fell off the end / break).
//   - ranging over a slice of pointers whose elements are changed in the body threads the already
//     visited prefix (`pre`) so that the collection is rebuilt as `pre ++ cur :: rest`.
//   - errors are `Option String` (nil = none; a package-level error variable is its name).
//   - out-of-range slice expressions and nil dereferences (Go: panic) are NOT modelled: take/drop.
//   - external calls: encoding/pem.Decode is a field of the `Ext` parameter.
//   - opaque targets (targets.json "opaque": true) are fields of a generated structure `<pkg>.Ext` (only
//     functions of <pkg> itself) or `<pkg>.Externals` (functions of other packages too), where <pkg> is the
//     package of the *calling* translated function; a field is named after the function (`recv_func`),
//     prefixed with the callee's package when that is a different one (`pkcs7_SignPKCS7`).
//     An opaque function is a function of its arguments; a pointer to a cryptobyte.String / a reader that
//     it receives is returned as a new value in front of its results. A nullary opaque function
//     (util.NewEFITime: reads the clock) is a constant of the Ext value, so a translated function may
//     reach at most one call of it (checked: otherwise the function is rejected).
//   - a value of a (non-error) interface type of the library (efivar.Marshallable) received as a parameter
//     is a structure with one function field per method; every method takes the index of the syntactic
//     call site inside the calling function first (0, 1, … in source order), so two calls of the same
//     method on the same value are NOT assumed to behave the same way (the object may have state). A
//     buffer/reader handed to a method is returned as its new value: an arbitrary function of the old
//     content (nothing says that the method only appends). Such calls inside loops are rejected.
//     An interface value handed to an opaque function is handed as that structure (the function may call its fields
//     with any index: nothing ties what it sees to what the translated function saw).
//   - a value of a CONCRETE named type stored in a slot of such an interface type — `t = payload(x)`, `var m I = v`,
//     an argument of a translated / opaque function whose parameter has the interface type — becomes the structure
//     built from the TRANSLATED methods of the concrete type, `<pkg>.<T>.as_<ipkg>_<I> x` (iface.go; the methods
//     become targets by themselves). The call-site index is ignored there: rejected unless no method writes through
//     its receiver; also rejected: a pointer stored in the interface, a method that is opaque / promoted / needs
//     fuel or an Ext structure, an interface value stored in a slot of a different interface type.
//   - `switch x { case a, b: … }` is an if-chain over `x == a || x == b` (no fallthrough / break), on strings too.
//   - a method behind an embedded field is called by writing the path out (`f.EFIFS.WriteVar(…)`: a field selection);
//     a call of a promoted method through the implicit path (`f.SetFS(…)`) is rejected.
//   - an interface-typed *result* is represented by the concrete value that the function stores in it (all
//     `return`s must store the same concrete type; `nil` is its zero value — callers look at the error).
//   - a named type defined as bytes.Buffer (`type efibytes bytes.Buffer`) is a reader/writer like
//     bytes.Buffer; conversions between the two do nothing.
//   - Go strings are Lean `String`s; `[]byte(s)` is `strBytes s`, the UTF-8 encoding (Go strings that are
//     not valid UTF-8 are outside the model).
//   - crypto.Signer is an opaque handle (`CryptoSigner`), cryptobyte.String a byte list,
//     asn1.ObjectIdentifier a list of Int (only outside struct fields, where they stay `Opaque`).
//   - `for init; cond; post { body }` uses the fuel mechanism of `for cond {}`: init before the loop, cond at
//     the top of every turn, post at the end of every turn and before every `continue`. When the trip count is
//     evidently bounded (`for i := a; i < B; i++` / `i += c`, c > 0, with neither i nor a variable of B assigned
//     in the body) the fuel is `(B - i).toNat + 1`, computed where the loop starts; otherwise the function takes
//     a fuel argument.
//   - `a &^ b`: `a &&& ~~~b` on the unsigned types; `intAndNot a b` on `int` (exact for Go's 64-bit
//     two's-complement ints: computed in `BitVec 64`).
//   - `b.Read(buf)` on a *bytes.Buffer (or a type defined as bytes.Buffer) / *bytes.Reader — decided by the static
//     type of b — is `bufRead` / `rdrRead`: buf keeps its length, its first min(len(buf), available) bytes are
//     overwritten; the results are (n, err) with io.EOF exactly as the two types return it. `Read` on a plain
//     io.Reader is REJECTED (a short read is possible there, the translation would not be faithful).
//     `io.ReadFull(r, buf)` is `readFull` on every reader (a reader that does not fail delivers min(len(buf),
//     available) bytes through ReadFull however it chunks them).
//   - `xs[k]` and `binary.{Little,Big}Endian.UintN(xs)` panic in Go when xs is too short. They are translated
//     (`xs.getD k 0`, `decLE16 xs` …) ONLY when the index is evidently in range, and rejected otherwise (no silent
//     default): the length of xs is evident when xs is a slice/array literal, has an array type, is a constant
//     slice expression of such a value, or is a local variable ALL of whose assignments in the function give it
//     the same constant length (`make([]byte, 2)`, a literal; Read / ReadFull / binary.Read fill it in place and
//     keep the length). A variable index is evidently in range inside `for i := a; i < len(xs); i++` (a ≥ 0
//     constant, neither i nor xs assigned in the body).
//   - `fmt.Sprintf` with a constant format made of literal text, `%%` and the verbs %s %v (strings), %d %v
//     (integers), %x %X %0Nx %0NX (integers) is a concatenation over `fmtDec` / `fmtHex` / `fmtHexI`; an argument
//     whose type has a String/Error/Format/GoString method, any other verb or flag → rejected.
//   - (sect.go) named types of the standard library by an explicit list: debug/pe.DataDirectory (the struct itself),
//     crypto.Hash (UInt64, as Go's `uint`); *io.SectionReader is the prelude's `SectionReader` — the bytes that reading
//     the section from its start delivers, the read position is NOT modelled: only io.NewSectionReader(
//     bytes.NewReader(b), 0, len(b)) (`⟨b⟩`), io.NewSectionReader(sr, 0, sr.Size()) (`sr`) and handing one to something
//     that reads it to the end (io.MultiReader, an io.Reader parameter — when the section reader was made for that
//     call) are translated; io.ReaderAt and library interfaces embedding it are `ReaderAtRef`, a reference that can
//     only be handed to external functions. io.MultiReader is the concatenation of what its parts deliver,
//     buf.ReadFrom(r) appends everything r delivers. Write/Read/Next/ReadFrom on a buffer that is a FIELD rebinds
//     the field and counts as writing through the receiver (the method returns the new receiver). `uint32(i)` of an
//     int is UInt32.ofInt (mod 2^32).
//   - (fnarg.go) a LOCAL `map[K]V` is an association list (only the empty literal, `m[k]`, `v, ok := m[k]`, `m[k] = v`;
//     handed on, ranged over, `len`, `delete`: rejected — a map is a reference); a local `hash.Hash` made by `alg.New()` is
//     the algorithm and the bytes written (`io.Copy(h, r)`, `h.Write(b)`; `h.Sum(b)` through the Ext field
//     `crypto_Hash_Sum`); a local closure handed to an opaque function (a function-typed parameter) is a STATE MACHINE over
//     the captured variables it assigns: the external gets the state type, the step function and the state and returns the
//     state it leaves — an arbitrary function of these; that it only calls the step function is never an assumption of the
//     translation. A function-typed parameter of a TRANSLATED function is the same triple, a call of it applies the step
//     function to the current state; a function literal as the argument (top level of the body) is a closure named after
//     the parameter. A closure name / function-typed parameter used in any other way is rejected.
//   - a translated function that needs the Ext structures of two packages takes its own package's, which then has a field
//     holding the other package's structure (`pkcs7 : pkcs7.Ext` in `authenticode.Ext`; the callee is handed `X.pkcs7`).
package main

import (
	"encoding/json"
	"flag"
	"fmt"
	"go/ast"
	"go/build"
	"go/constant"
	"go/importer"
	"go/parser"
	"go/token"
	"go/types"
	"os"
	"sort"
	"strings"
)

type Target struct {
	Pkg  string `json:"pkg"`  // directory relative to the repository root
	Recv string `json:"recv"` // receiver type name, empty for a plain function
	Func string `json:"func"`
	// Opaque: not translated; a call becomes a field of the package's generated Ext structure
	Opaque bool `json:"opaque"`
}

type pkgInfo struct {
	dir   string
	pkg   *types.Package
	info  *types.Info
	files []*ast.File
	short string
}

var (
	fset    = token.NewFileSet()
	pkgs    = map[string]*pkgInfo{} // by dir
	byTypes = map[string]*pkgInfo{} // by import path
	modPath = "github.com/foxboron/go-uefi/"
	// importer used for every package, so that a package met through a type can be loaded on demand
	gImp types.Importer
	// >0 while the type of a struct field is computed: types that were outside the subset before the
	// SignEFIVariable extension stay `Opaque` there, so that the existing structures do not change
	fieldDepth int
)

type unsupported struct{ msg string }

func fail(n ast.Node, f string, a ...interface{}) {
	pos := ""
	if n != nil {
		p := fset.Position(n.Pos())
		pos = fmt.Sprintf("%s:%d: ", p.Filename, p.Line)
	}
	panic(unsupported{pos + fmt.Sprintf(f, a...)})
}

func loadPkg(repo, dir string, imp types.Importer) *pkgInfo {
	if p, ok := pkgs[dir]; ok {
		return p
	}
	ps, err := parser.ParseDir(fset, repo+"/"+dir, func(fi os.FileInfo) bool { return !strings.HasSuffix(fi.Name(), "_test.go") }, 0)
	if err != nil {
		fmt.Fprintln(os.Stderr, "parse", dir, err)
		os.Exit(2)
	}
	for _, p := range ps {
		var files []*ast.File
		var names []string
		for n := range p.Files {
			names = append(names, n)
		}
		sort.Strings(names)
		for _, n := range names {
			files = append(files, p.Files[n])
		}
		info := &types.Info{Types: map[ast.Expr]types.TypeAndValue{}, Defs: map[*ast.Ident]types.Object{}, Uses: map[*ast.Ident]types.Object{}, Selections: map[*ast.SelectorExpr]*types.Selection{}}
		conf := types.Config{Importer: imp, Error: func(err error) {}}
		tp, _ := conf.Check(modPath+dir, fset, files, info)
		pi := &pkgInfo{dir: dir, pkg: tp, info: info, files: files, short: p.Name}
		pkgs[dir] = pi
		byTypes[tp.Path()] = pi
		return pi
	}
	fmt.Fprintln(os.Stderr, "no package in", dir)
	os.Exit(2)
	return nil
}

// ---------------------------------------------------------------------------------------------
// global translation state

type fnKey struct{ pkg, recv, name string }

type fnDecl struct {
	key      fnKey
	pi       *pkgInfo
	decl     *ast.FuncDecl
	obj      *types.Func
	mutating bool // pointer receiver written through
	usesExt  bool
	usesExtLoop bool
	mutParams []int // indices of reader parameters the function consumes: returned (after the receiver) as new values
	fnParams  []int // opaque functions: indices of function-typed parameters (fnarg.go)
	usesFuel bool   // contains (transitively) an unbounded `for` loop: takes a fuel argument
	opaque   bool   // external: calls go through <pkg>.Ext
	usesX    string // package whose Ext structure the function takes ("" = none)
	xConflict string // set when the function would need two different Ext structures
	leanName string
	out      string // Lean source
	deps     []string
	err      string
	synthetic bool // a generated definition without a Go declaration (`T.as_I`, iface.go)
}

var (
	targets   []*fnDecl
	byObj     = map[string]*fnDecl{} // by types.Func.FullName
	structs   = map[string]string{} // lean name -> source
	structOrd []string
	globals   = map[string]string{} // lean name -> source (consts, vars)
	globalOrd []string
)

var leanKeywords = map[string]bool{"end": true, "at": true, "from": true, "fun": true, "open": true, "in": true, "then": true, "else": true, "if": true, "let": true, "have": true, "show": true, "do": true, "by": true, "with": true, "match": true, "def": true, "theorem": true, "where": true, "local": true, "instance": true, "class": true, "structure": true, "namespace": true, "section": true, "variable": true, "universe": true, "import": true, "export": true, "Type": true, "Prop": true, "Sort": true, "mut": true, "for": true, "return": true, "break": true, "continue": true, "deriving": true, "rest": true, "pre": true, "E": true}

func lname(s string) string {
	if leanKeywords[s] {
		return s + "'"
	}
	return s
}

func pkgShort(p *types.Package) string {
	if pi, ok := byTypes[p.Path()]; ok {
		return pi.short
	}
	return p.Name()
}

// leanType maps a Go type to a Lean type expression.
func leanType(n ast.Node, t types.Type) string {
	switch tt := t.(type) {
	case *types.Basic:
		switch tt.Kind() {
		case types.Uint8:
			return "UInt8"
		case types.Uint16:
			return "UInt16"
		case types.Uint32:
			return "UInt32"
		case types.Uint64, types.Uint:
			// (Go's `uint` is 64 bits wide on every platform the library targets)
			return "UInt64"
		case types.Int16:
			return "Int16"
		case types.Int32:
			return "Int32"
		case types.Int8:
			return "Int8"
		case types.Int, types.UntypedInt, types.Int64:
			return "Int"
		case types.Bool, types.UntypedBool:
			return "Bool"
		case types.String, types.UntypedString:
			return "String"
		}
	case *types.Slice:
		return "(List " + leanType(n, tt.Elem()) + ")"
	case *types.Array:
		return "(List " + leanType(n, tt.Elem()) + ")"
	case *types.Pointer:
		return leanType(n, tt.Elem())
	case *types.Map:
		// a local map: the association list (fnarg.go); in a struct field the type stays Opaque
		if fieldDepth == 0 {
			return "(List (" + leanType(n, tt.Key()) + " × " + leanType(n, tt.Elem()) + "))"
		}
	case *types.Named:
		obj := tt.Obj()
		if obj.Pkg() == nil && obj.Name() == "error" {
			return "GoErr"
		}
		if isReaderType(tt) {
			return "(List UInt8)"
		}
		if obj.Pkg() != nil && obj.Pkg().Path() == "encoding/pem" && obj.Name() == "Block" {
			return "PemBlock"
		}
		if obj.Pkg() != nil && obj.Pkg().Path() == "math/big" && obj.Name() == "Int" {
			return "Int"
		}
		if obj.Pkg() != nil && obj.Pkg().Path() == "crypto/x509" && obj.Name() == "Certificate" {
			return "X509Cert"
		}
		if obj.Pkg() != nil && fieldDepth == 0 {
			switch obj.Pkg().Path() + "." + obj.Name() {
			case "crypto.Signer":
				// an opaque handle: the translated code can only pass it on to external functions
				return "CryptoSigner"
			case "golang.org/x/crypto/cryptobyte.String":
				return "(List UInt8)"
			case "encoding/asn1.ObjectIdentifier":
				return "(List Int)"
			}
		}
		if lt, ok := stdNamedType(n, tt); ok {
			return lt
		}
		if _, ok := byTypes[obj.Pkg().Path()]; !ok {
			// a package of the library that is met through a type only (efivar): loaded on demand
			if path := obj.Pkg().Path(); strings.HasPrefix(path, modPath) && gImp != nil && repoRoot != "" {
				if st, err := os.Stat(repoRoot + "/" + strings.TrimPrefix(path, modPath)); err == nil && st.IsDir() {
					loadPkg(repoRoot, strings.TrimPrefix(path, modPath), gImp)
				}
			}
		}
		if _, ok := byTypes[obj.Pkg().Path()]; !ok {
			fail(n, "type %s from a package that is not translated", tt.String())
		}
		nm := pkgShort(obj.Pkg()) + "." + obj.Name()
		switch u := tt.Underlying().(type) {
		case *types.Struct:
			ensureStruct(n, nm, u)
			return nm
		case *types.Basic, *types.Slice:
			ensureAbbrev(n, nm, u)
			return nm
		case *types.Interface:
			if fieldDepth == 0 {
				ensureIface(n, nm, u)
				return nm
			}
		}
	}
	fail(n, "unsupported type %s", t.String())
	return ""
}

func ensureStruct(n ast.Node, nm string, s *types.Struct) {
	if _, ok := structs[nm]; ok {
		return
	}
	structs[nm] = "" // cycle guard
	var b strings.Builder
	fmt.Fprintf(&b, "structure %s where\n", nm)
	for i := 0; i < s.NumFields(); i++ {
		f := s.Field(i)
		if ft, ok := fieldOverride[nm+"."+f.Name()]; ok {
			fmt.Fprintf(&b, "  %s : %s\n", lname(f.Name()), ft)
			continue
		}
		if loadStdField[nm+"."+f.Name()] {
			stdFieldLoad++
		}
		fmt.Fprintf(&b, "  %s : %s\n", lname(f.Name()), fieldType(n, f.Type()))
		if loadStdField[nm+"."+f.Name()] {
			stdFieldLoad--
		}
	}
	b.WriteString("deriving DecidableEq, Repr\n")
	structs[nm] = b.String()
	structOrd = append(structOrd, nm)
}

// loadStdField: the struct fields whose standard-library struct type is loaded (sect.go: pkix.AlgorithmIdentifier) instead
// of staying Opaque as in every other field; stdFieldLoad > 0 while the type of such a field is computed
var loadStdField = map[string]bool{"authenticode.Authenticode.Algid": true}
var stdFieldLoad int

// fieldOverride: `<structure>.<field>` -> Lean type, for the fields of standard-library structs that are loaded with a
// representation that struct fields do not get otherwise (sect.go)
var fieldOverride = map[string]string{}

// fieldType: like leanType, but a field of a type outside the supported subset is kept as `Opaque`
// (a function that reads such a field is then untranslatable, one that ignores it is not)
func fieldType(n ast.Node, t types.Type) (lt string) {
	fieldDepth++
	defer func() {
		fieldDepth--
		if r := recover(); r != nil {
			if _, ok := r.(unsupported); ok {
				lt = "Opaque"
				return
			}
			panic(r)
		}
	}()
	return leanType(n, t)
}

// ---- interface values received as parameters ---------------------------------------------------

// ifaceMethodType: the Lean type of the field for one interface method:
//   Nat (call site) → parameters → (new values of the reader parameters × results)
// mut lists the indices of the parameters that are returned as new values.
func ifaceMethodType(n ast.Node, sig *types.Signature) (lt string, mut []int) {
	tys := []string{"Nat"}
	var rs []string
	for i := 0; i < sig.Params().Len(); i++ {
		pt := sig.Params().At(i).Type()
		if isReaderType(pt) {
			mut = append(mut, i)
			rs = append(rs, leanType(n, pt))
		} else if _, isPtr := pt.(*types.Pointer); isPtr {
			fail(n, "interface method with a pointer parameter that is not a reader/writer (%s)", pt)
		}
		tys = append(tys, leanType(n, pt))
	}
	if sig.Variadic() {
		fail(n, "variadic interface method")
	}
	for i := 0; i < sig.Results().Len(); i++ {
		rs = append(rs, leanType(n, sig.Results().At(i).Type()))
	}
	if len(rs) == 0 {
		fail(n, "interface method without results and without a reader/writer parameter: no effect on the translated state")
	}
	return strings.Join(append(tys, strings.Join(rs, " × ")), " → "), mut
}

func ensureIface(n ast.Node, nm string, it *types.Interface) {
	if _, ok := structs[nm]; ok {
		return
	}
	structs[nm] = ""
	var b strings.Builder
	fmt.Fprintf(&b, "/-- a value of the interface type %s as the translated code can use it: one function per method.\n    The first argument is the index of the syntactic call site in the calling function (two calls on the\n    same value need not behave alike); a buffer handed to a method comes back as its new content. -/\nstructure %s where\n", nm, nm)
	for i := 0; i < it.NumMethods(); i++ {
		m := it.Method(i)
		ty := func() (s string) {
			defer func() {
				if r := recover(); r != nil {
					if _, ok := r.(unsupported); ok {
						s = "Opaque"
						return
					}
					panic(r)
				}
			}()
			s, _ = ifaceMethodType(n, m.Type().(*types.Signature))
			return
		}()
		fmt.Fprintf(&b, "  %s : %s\n", lname(m.Name()), ty)
	}
	structs[nm] = b.String()
	structOrd = append(structOrd, nm)
}

// ifaceCall: is c a method call on a value of a (non-error) interface type? Returns the receiver expression,
// the method and the interface's Lean name.
func (t *fnTrans) ifaceCall(c *ast.CallExpr) (ast.Expr, *types.Func, bool) {
	se, ok := c.Fun.(*ast.SelectorExpr)
	if !ok {
		return nil, nil, false
	}
	sel, ok := t.pi.info.Selections[se]
	if !ok || sel.Kind() != types.MethodVal {
		return nil, nil, false
	}
	rt := sel.Recv()
	if isErrorType(rt) || isReaderType(rt) || isReaderAtRef(rt) || isHashObj(rt) {
		// (an io.ReaderAt reference has no methods in the translation: such a call is "not a translation target")
		return nil, nil, false
	}
	if _, isI := rt.Underlying().(*types.Interface); !isI {
		return nil, nil, false
	}
	if _, named := rt.(*types.Named); !named {
		return nil, nil, false
	}
	fo, ok := sel.Obj().(*types.Func)
	return se.X, fo, ok
}

// ifaceSites numbers the interface-method call sites of a function body in source order; a site inside a
// loop or a closure has no number (one index cannot stand for several executions): -1.
func ifaceSites(t *fnTrans, body *ast.BlockStmt) map[*ast.CallExpr]int {
	out := map[*ast.CallExpr]int{}
	k := 0
	var walk func(n ast.Node, inLoop bool)
	walk = func(n ast.Node, inLoop bool) {
		ast.Inspect(n, func(m ast.Node) bool {
			if m == nil || m == n {
				return true
			}
			switch x := m.(type) {
			case *ast.ForStmt, *ast.FuncLit, *ast.RangeStmt:
				// (an unrolled `range []interface{}{…}` too: every copy of the body would need its own index)
				walk(m, true)
				return false
			case *ast.CallExpr:
				if _, _, ok := t.ifaceCall(x); ok {
					if inLoop {
						out[x] = -1
					} else {
						out[x] = k
						k++
					}
				}
			}
			return true
		})
	}
	walk(body, false)
	return out
}

func ensureAbbrev(n ast.Node, nm string, u types.Type) {
	if _, ok := structs[nm]; ok {
		return
	}
	structs[nm] = ""
	structs[nm] = fmt.Sprintf("abbrev %s := %s\n", nm, leanType(n, u))
	structOrd = append(structOrd, nm)
}

func isErrorType(t types.Type) bool {
	n, ok := t.(*types.Named)
	return ok && n.Obj().Pkg() == nil && n.Obj().Name() == "error"
}

// ---------------------------------------------------------------------------------------------
// per-function translation

type fnTrans struct {
	fd      *fnDecl
	pi      *pkgInfo
	names   map[types.Object]string
	used    map[string]bool
	recvObj types.Object
	retType string // Lean type of the function result (including the receiver when mutating)
	resTys  []string
	loops   []string // helper definitions, in order
	nloop   int
	deps    map[string]bool
	tmp     int
	curRange *rangeInfo
	mutObjs []types.Object          // reader parameters (or, in a closure, captured variables) returned as new values
	alias   map[types.Object]ast.Expr // loop variable of an unrolled `range []interface{}{&a, &b}` -> the current element
	keyConst map[types.Object]int
	closures map[types.Object]*closureInfo
	parent  *fnTrans
	closureName string
	closureMode bool
	resGo   []types.Type
	// `x := []interface{}{a, b}` bound to a local variable that is only ranged over: the elements, evaluated
	// where the literal stands (bound to x_0, x_1, …), as synthetic identifiers
	ifaceLits map[types.Object][]ast.Expr
	sites     map[*ast.CallExpr]int // interface-method call sites -> index
	bounded   []*boundedFor         // the evidently bounded three-clause loops around the current statement
	// function literals written as an argument of a call that is a top-level statement of the function body, and the
	// name of the parameter they are handed to (fnarg.go)
	topLevelArg map[*ast.FuncLit]bool
	litName     map[*ast.FuncLit]string
}

type rangeInfo struct {
	key  types.Object
	coll ast.Expr
	elem string
}

func (t *fnTrans) name(o types.Object) string {
	if n, ok := t.names[o]; ok {
		return n
	}
	base := lname(o.Name())
	n := base
	// a local variable named like a package (`signature`) would capture the qualified names `signature.F`
	clash := func(n string) bool {
		if t.used[n] {
			return true
		}
		for _, pi := range pkgs {
			if pi.short == n {
				return true
			}
		}
		return false
	}
	for i := 1; clash(n); i++ {
		n = fmt.Sprintf("%s_%d", base, i)
	}
	t.used[n] = true
	t.names[o] = n
	return n
}

func (t *fnTrans) fresh(p string) string {
	t.tmp++
	return fmt.Sprintf("%s%d", p, t.tmp)
}

func (t *fnTrans) typeOf(e ast.Expr) types.Type {
	tv, ok := t.pi.info.Types[e]
	if !ok {
		if id, ok := e.(*ast.Ident); ok {
			if o := t.pi.info.Uses[id]; o != nil {
				return o.Type()
			}
			if o := t.pi.info.Defs[id]; o != nil {
				return o.Type()
			}
		}
		fail(e, "no type information")
	}
	return tv.Type
}

func under(t types.Type) types.Type {
	if p, ok := t.(*types.Pointer); ok {
		t = p.Elem()
	}
	return t.Underlying()
}

func intLit(v constant.Value, ty string) string {
	s := v.ExactString()
	if strings.HasPrefix(s, "-") {
		return fmt.Sprintf("(%s : %s)", s, ty)
	}
	return fmt.Sprintf("(%s : %s)", s, ty)
}

// context of statement translation
type ctx struct {
	// what happens when control falls off the end of the current statement list
	fall func() string
	// loop context (nil outside loops)
	loop *loopCtx
	// inside a loop helper function: `return` is `Loop.ret`
	helper bool
}

type loopCtx struct {
	cont  func() string // code for `continue` / end of body, evaluated with the current bindings
	brk   func() string
	depth int
}

// receiver attached to a pointer-element loop: reading the collection yields pre ++ cur :: rest
type attach struct {
	collObj types.Object
	elem    string
	active  bool
}

var curAttach *attach

func (t *fnTrans) recvExpr() string {
	if curAttach != nil && curAttach.active && curAttach.collObj == t.recvObj {
		return fmt.Sprintf("(pre ++ %s :: rest)", curAttach.elem)
	}
	return t.name(t.recvObj)
}

func (t *fnTrans) varRead(o types.Object) string {
	if curAttach != nil && curAttach.active && curAttach.collObj == o {
		return fmt.Sprintf("(pre ++ %s :: rest)", curAttach.elem)
	}
	return t.name(o)
}

func (t *fnTrans) ret(vals []string) string {
	var parts []string
	if t.fd.mutating && !t.closureMode {
		parts = append(parts, t.recvExpr())
	}
	for _, o := range t.mutObjs {
		parts = append(parts, t.varRead(o))
	}
	parts = append(parts, vals...)
	if len(parts) == 0 {
		return "()"
	}
	if len(parts) == 1 {
		return parts[0]
	}
	return "(" + strings.Join(parts, ", ") + ")"
}

func tupleProj(v string, i, n int) string {
	if n == 1 {
		return v
	}
	s := v
	for j := 0; j < i; j++ {
		s += ".2"
	}
	if i < n-1 {
		s += ".1"
	}
	return s
}

// ---- expressions

func (t *fnTrans) globalConst(e ast.Expr, o types.Object) string {
	if v, ok := o.(*types.Var); ok && isErrorType(v.Type()) {
		return fmt.Sprintf("(some %q : GoErr)", errName(v))
	}
	pi := byTypes[o.Pkg().Path()]
	if pi == nil {
		fail(e, "constant %s of an untranslated package", o.Name())
	}
	nm := pi.short + "." + o.Name()
	if v, ok := o.(*types.Var); ok && isErrorType(v.Type()) {
		return fmt.Sprintf("(some %q : GoErr)", o.Name())
	}
	if _, ok := globals[nm]; ok {
		return nm
	}
	switch oo := o.(type) {
	case *types.Const:
		ty := leanType(e, oo.Type())
		b := oo.Type().Underlying().(*types.Basic)
		var val string
		switch {
		case b.Info()&types.IsInteger != 0:
			val = oo.Val().ExactString()
		case b.Info()&types.IsString != 0:
			val = fmt.Sprintf("%q", constant.StringVal(oo.Val()))
		case b.Info()&types.IsBoolean != 0:
			val = fmt.Sprint(constant.BoolVal(oo.Val()))
		default:
			fail(e, "constant %s of unsupported kind", o.Name())
		}
		globals[nm] = fmt.Sprintf("def %s : %s := %s\n", nm, ty, val)
		globalOrd = append(globalOrd, nm)
		return nm
	case *types.Var:
		// package-level variable: find its initialiser
		for _, f := range pi.files {
			for _, d := range f.Decls {
				gd, ok := d.(*ast.GenDecl)
				if !ok || gd.Tok != token.VAR {
					continue
				}
				for _, sp := range gd.Specs {
					vs := sp.(*ast.ValueSpec)
					for i, id := range vs.Names {
						if id.Name != o.Name() || i >= len(vs.Values) {
							continue
						}
						if isErrorType(o.Type()) {
							globals[nm] = ""
							return fmt.Sprintf("(some %q : GoErr)", o.Name())
						}
						globals[nm] = "" // guard
						sub := &fnTrans{fd: &fnDecl{pi: pi}, pi: pi, names: map[types.Object]string{}, used: map[string]bool{}, deps: map[string]bool{}}
						val := sub.expr(vs.Values[i])
						globals[nm] = fmt.Sprintf("def %s : %s := %s\n", nm, leanType(e, o.Type()), val)
						globalOrd = append(globalOrd, nm)
						return nm
					}
				}
			}
		}
	}
	fail(e, "cannot translate package-level object %s", o.Name())
	return ""
}

func (t *fnTrans) errVarName(e ast.Expr) (string, bool) {
	var o types.Object
	switch x := e.(type) {
	case *ast.Ident:
		o = t.pi.info.Uses[x]
	case *ast.SelectorExpr:
		o = t.pi.info.Uses[x.Sel]
	}
	if v, ok := o.(*types.Var); ok && v.Parent() == v.Pkg().Scope() && isErrorType(v.Type()) {
		return errName(v), true
	}
	return "", false
}

func binop(op token.Token) (string, bool, bool) { // lean op, isComparison, isProp (needs decide)
	switch op {
	case token.ADD:
		return "+", false, false
	case token.SUB:
		return "-", false, false
	case token.MUL:
		return "*", false, false
	case token.QUO:
		return "/", false, false
	case token.REM:
		return "%", false, false
	case token.AND:
		return "&&&", false, false
	case token.OR:
		return "|||", false, false
	case token.XOR:
		return "^^^", false, false
	case token.SHL:
		return "<<<", false, false
	case token.SHR:
		return ">>>", false, false
	case token.LAND:
		return "&&", false, false
	case token.LOR:
		return "||", false, false
	case token.EQL:
		return "==", true, false
	case token.NEQ:
		return "!=", true, false
	case token.LSS:
		return "<", true, true
	case token.LEQ:
		return "≤", true, true
	case token.GTR:
		return ">", true, true
	case token.GEQ:
		return "≥", true, true
	}
	return "", false, false
}

func (t *fnTrans) isNil(e ast.Expr) bool {
	id, ok := e.(*ast.Ident)
	if !ok {
		return false
	}
	_, isnil := t.pi.info.Uses[id].(*types.Nil)
	return isnil
}

func (t *fnTrans) expr(e ast.Expr) string {
	if s, ok := condOverride[e]; ok {
		return "(" + s + ")"
	}
	// constants first (typed by go/types, including converted untyped constants)
	if tv, ok := t.pi.info.Types[e]; ok && tv.Value != nil {
		if b, ok := tv.Type.Underlying().(*types.Basic); ok {
			switch {
			case b.Info()&types.IsInteger != 0:
				// keep named constants readable
				typedConst := func(c *types.Const) bool {
					b, ok := c.Type().Underlying().(*types.Basic)
					return ok && b.Info()&types.IsUntyped == 0
				}
				if id, ok := e.(*ast.Ident); ok {
					if c, ok := t.pi.info.Uses[id].(*types.Const); ok && c.Parent() == c.Pkg().Scope() && typedConst(c) {
						return t.globalConst(e, c)
					}
				}
				if se, ok := e.(*ast.SelectorExpr); ok {
					if c, ok := t.pi.info.Uses[se.Sel].(*types.Const); ok && byTypes[c.Pkg().Path()] != nil && typedConst(c) {
						return t.globalConst(e, c)
					}
				}
				return intLit(tv.Value, leanType(e, tv.Type))
			case b.Info()&types.IsString != 0:
				return fmt.Sprintf("%q", constant.StringVal(tv.Value))
			case b.Info()&types.IsBoolean != 0:
				return fmt.Sprint(constant.BoolVal(tv.Value))
			}
		}
	}
	switch x := e.(type) {
	case *ast.ParenExpr:
		return t.expr(x.X)
	case *ast.Ident:
		o := t.pi.info.Uses[x]
		if _, ok := fnParamState[o]; ok {
			fail(e, "function-typed parameter %s used as a value (only calls of it are translated)", x.Name)
		}
		if k, ok := t.keyConst[o]; ok {
			return fmt.Sprintf("(%d : Int)", k)
		}
		if a, ok := t.alias[o]; ok {
			return t.expr(a)
		}
		if _, ok := t.ifaceLits[o]; ok {
			fail(e, "use of the []interface{} variable %s other than ranging over it", x.Name)
		}
		if _, isClosure := t.closures[o]; isClosure && o != nil {
			fail(e, "the closure %s is used as a value (translated: a call of it, or handing it to an external function)", x.Name)
		}
		switch oo := o.(type) {
		case *types.Var:
			if oo.Parent() == oo.Pkg().Scope() {
				return t.globalConst(e, oo)
			}
			if isRefLocal(oo) {
				fail(e, "the %s variable %s is used as a value (a reference in Go; translated: the operations listed in fnarg.go)", oo.Type(), x.Name)
			}
			return t.varRead(oo)
		case *types.Nil:
			fail(e, "bare nil")
		}
		fail(e, "identifier %s", x.Name)
	case *ast.StarExpr:
		return t.expr(x.X)
	case *ast.UnaryExpr:
		switch x.Op {
		case token.AND:
			return t.expr(x.X)
		case token.NOT:
			return "(!" + t.expr(x.X) + ")"
		case token.XOR:
			return "(~~~" + t.expr(x.X) + ")"
		case token.SUB:
			return "(-" + t.expr(x.X) + ")"
		}
	case *ast.BinaryExpr:
		if x.Op == token.AND_NOT {
			return t.andNot(e, t.typeOf(e), t.expr(x.X), t.expr(x.Y))
		}
		op, cmp, prop := binop(x.Op)
		if op == "" {
			fail(e, "operator %s", x.Op)
		}
		if cmp && (t.isNil(x.X) || t.isNil(x.Y)) {
			other := x.X
			if t.isNil(x.X) {
				other = x.Y
			}
			ot := t.typeOf(other)
			v := t.expr(other)
			neg := x.Op == token.NEQ
			switch {
			case isErrorType(ot):
				if neg {
					return "(" + v + ").isSome"
				}
				return "(" + v + ").isNone"
			case leanTypeIs(ot, "PemBlock"):
				if neg {
					return "(!(" + v + ").isNil)"
				}
				return "(" + v + ").isNil"
			}
			fail(e, "comparison of %s with nil", ot)
		}
		if (x.Op == token.SHL || x.Op == token.SHR) && t.pi.info.Types[x.Y].Value == nil {
			fail(e, "shift by a non-constant amount")
		}
		if x.Op == token.QUO || x.Op == token.REM {
			if v := t.pi.info.Types[x.Y].Value; v == nil || constant.Sign(v) == 0 {
				t.deps["__div"] = true // recorded: division by a non-constant (Go panics on 0, Lean yields 0)
			}
		}
		l, r := t.expr(x.X), t.expr(x.Y)
		if x.Op == token.SHL || x.Op == token.SHR {
			// shift count takes the type of the left operand in Lean
			v := t.pi.info.Types[x.Y].Value
			r = fmt.Sprintf("(%s : %s)", v.ExactString(), leanType(e, t.typeOf(x.X)))
		}
		if prop {
			return fmt.Sprintf("(decide (%s %s %s))", l, op, r)
		}
		if x.Op == token.ADD && isStringType(t.typeOf(e)) {
			op = "++" // string concatenation
		}
		return fmt.Sprintf("(%s %s %s)", l, op, r)
	case *ast.SelectorExpr:
		if sel, ok := t.pi.info.Selections[x]; ok && sel.Kind() == types.FieldVal {
			return t.expr(x.X) + "." + lname(x.Sel.Name)
		}
		// qualified identifier pkg.Name
		o := t.pi.info.Uses[x.Sel]
		switch oo := o.(type) {
		case *types.Var, *types.Const:
			return t.globalConst(e, oo)
		}
		fail(e, "selector %s", x.Sel.Name)
	case *ast.CompositeLit:
		ty := t.typeOf(e)
		if s, ok := t.emptyMap(e); ok {
			return s
		}
		switch u := ty.Underlying().(type) {
		case *types.Struct:
			lt := leanType(e, ty)
			vals := make([]string, u.NumFields())
			if len(x.Elts) > 0 {
				if _, keyed := x.Elts[0].(*ast.KeyValueExpr); keyed {
					for _, el := range x.Elts {
						kv := el.(*ast.KeyValueExpr)
						for i := 0; i < u.NumFields(); i++ {
							if u.Field(i).Name() == kv.Key.(*ast.Ident).Name {
								vals[i] = t.expr(kv.Value)
							}
						}
					}
				} else {
					for i, el := range x.Elts {
						vals[i] = t.expr(el)
					}
				}
			}
			for i := range vals {
				if vals[i] == "" {
					vals[i] = t.zero(e, u.Field(i).Type())
				}
			}
			return fmt.Sprintf("(⟨%s⟩ : %s)", strings.Join(vals, ", "), lt)
		case *types.Slice, *types.Array:
			var vals []string
			for _, el := range x.Elts {
				if _, kv := el.(*ast.KeyValueExpr); kv {
					fail(e, "keyed slice literal")
				}
				vals = append(vals, t.expr(el))
			}
			if arr, ok := u.(*types.Array); ok && int(arr.Len()) != len(vals) {
				for len(vals) < int(arr.Len()) {
					vals = append(vals, t.zero(e, arr.Elem()))
				}
			}
			return fmt.Sprintf("([%s] : %s)", strings.Join(vals, ", "), leanType(e, ty))
		}
		fail(e, "composite literal of type %s", ty)
	case *ast.SliceExpr:
		if x.Slice3 {
			fail(e, "3-index slice")
		}
		s := t.expr(x.X)
		if x.High != nil {
			s = fmt.Sprintf("(sliceTo %s %s)", s, t.expr(x.High))
		}
		if x.Low != nil {
			s = fmt.Sprintf("(sliceFrom %s %s)", s, t.expr(x.Low))
		}
		return s
	case *ast.CallExpr:
		return t.call(x)
	case *ast.IndexExpr:
		if r := t.curRange; r != nil && r.key != nil {
			if id, ok := x.Index.(*ast.Ident); ok && t.pi.info.Uses[id] == r.key && sameExpr(x.X, r.coll) {
				return r.elem
			}
		}
		return t.indexExpr(x)
	}
	fail(e, "unsupported expression %T", e)
	return ""
}

// andNot: Go's `a &^ b`
func (t *fnTrans) andNot(n ast.Node, ty types.Type, l, r string) string {
	if b, ok := ty.Underlying().(*types.Basic); ok {
		switch b.Kind() {
		case types.Uint8, types.Uint16, types.Uint32, types.Uint64:
			return fmt.Sprintf("(%s &&& ~~~%s)", l, r)
		case types.Int, types.Int64, types.UntypedInt:
			// exact for Go's 64-bit two's-complement ints (prelude: computed in BitVec 64)
			return fmt.Sprintf("(intAndNot %s %s)", l, r)
		}
	}
	fail(n, "operator &^ on %s", ty)
	return ""
}

func isStringType(t types.Type) bool {
	b, ok := t.Underlying().(*types.Basic)
	return ok && b.Info()&types.IsString != 0
}

func leanTypeIs(t types.Type, want string) bool {
	defer func() { recover() }()
	return leanType(nil, t) == want
}

func (t *fnTrans) zero(n ast.Node, ty types.Type) string {
	if isReaderType(ty) {
		return "[]"
	}
	if z, ok := stdZero(ty); ok {
		return z
	}
	switch u := ty.Underlying().(type) {
	case *types.Basic:
		switch {
		case u.Info()&types.IsInteger != 0:
			return fmt.Sprintf("(0 : %s)", leanType(n, ty))
		case u.Info()&types.IsBoolean != 0:
			return "false"
		case u.Info()&types.IsString != 0:
			return "\"\""
		}
	case *types.Slice:
		return "[]"
	case *types.Array:
		var z []string
		for i := int64(0); i < u.Len(); i++ {
			z = append(z, t.zero(n, u.Elem()))
		}
		return "[" + strings.Join(z, ", ") + "]"
	case *types.Struct:
		var z []string
		for i := 0; i < u.NumFields(); i++ {
			if fieldType(n, u.Field(i).Type()) == "Opaque" {
				z = append(z, "(⟨⟩ : Opaque)")
				continue
			}
			z = append(z, t.zero(n, u.Field(i).Type()))
		}
		return fmt.Sprintf("(⟨%s⟩ : %s)", strings.Join(z, ", "), leanType(n, ty))
	case *types.Interface:
		if isErrorType(ty) {
			return "(none : GoErr)"
		}
	}
	fail(n, "zero value of %s", ty)
	return ""
}

// callee resolves a call to a translated function
func (t *fnTrans) callee(c *ast.CallExpr) (*fnDecl, ast.Expr) {
	switch f := c.Fun.(type) {
	case *ast.Ident:
		if fo, ok := t.pi.info.Uses[f].(*types.Func); ok {
			return byObj[fo.FullName()], nil
		}
	case *ast.SelectorExpr:
		if sel, ok := t.pi.info.Selections[f]; ok && sel.Kind() == types.MethodVal {
			if fo, ok := sel.Obj().(*types.Func); ok {
				return byObj[fo.FullName()], f.X
			}
		}
		if fo, ok := t.pi.info.Uses[f.Sel].(*types.Func); ok {
			return byObj[fo.FullName()], nil
		}
	}
	return nil, nil
}

func qualName(c *ast.CallExpr, info *types.Info) string {
	if se, ok := c.Fun.(*ast.SelectorExpr); ok {
		if id, ok := se.X.(*ast.Ident); ok {
			if pn, ok := info.Uses[id].(*types.PkgName); ok {
				return pn.Imported().Path() + "." + se.Sel.Name
			}
		}
	}
	if id, ok := c.Fun.(*ast.Ident); ok {
		if _, ok := info.Uses[id].(*types.Builtin); ok {
			return "builtin." + id.Name
		}
	}
	return ""
}

// pure call expression (a call to a mutating method is handled at statement level)
func (t *fnTrans) call(c *ast.CallExpr) string {
	// conversion
	if tv, ok := t.pi.info.Types[c.Fun]; ok && tv.IsType() {
		to := tv.Type
		arg := c.Args[0]
		from := t.typeOf(arg)
		lt := leanType(c, to)
		if bt, ok := to.Underlying().(*types.Basic); ok && bt.Info()&types.IsInteger != 0 {
			fb, ok := from.Underlying().(*types.Basic)
			if !ok {
				fail(c, "conversion from %s", from)
			}
			// uintN(len(x))
			if ce, ok := arg.(*ast.CallExpr); ok && qualName(ce, t.pi.info) == "builtin.len" && bt.Kind() != types.Int {
				return fmt.Sprintf("(%s.ofNat (%s).length)", leanType(c, to.Underlying()), t.expr(ce.Args[0]))
			}
			a := t.expr(arg)
			fl := leanType(c, from.Underlying())
			tl := leanType(c, to.Underlying())
			switch {
			case fl == tl:
				return a
			case tl == "Int" && fl != "Int":
				return fmt.Sprintf("(%s.toNat : Int)", a)
			case fl == "Int":
				return fmt.Sprintf("(%s.ofInt %s)", tl, a)
			default:
				return fmt.Sprintf("(%s.ofNat %s.toNat)", tl, a)
			}
			_ = fb
		}
		if fb, ok := from.Underlying().(*types.Basic); ok && fb.Info()&types.IsString != 0 {
			if tb, ok := to.Underlying().(*types.Basic); ok && tb.Info()&types.IsString != 0 {
				// between string types (`Efistring(s)`, `string(es)`): the same Lean String
				return t.expr(arg)
			}
		}
		if fb, ok := from.Underlying().(*types.Basic); ok && fb.Info()&types.IsString != 0 {
			if sl, ok := to.Underlying().(*types.Slice); ok {
				if eb, ok := sl.Elem().Underlying().(*types.Basic); ok && eb.Kind() == types.Uint8 {
					// []byte(s): the bytes of the Go string = the UTF-8 encoding of the Lean string
					return fmt.Sprintf("(strBytes %s)", t.expr(arg))
				}
			}
			fail(c, "conversion of a string to %s", to)
		}
		if leanType(c, from) == lt {
			return t.expr(arg)
		}
		// []byte(namedSlice) and friends: same Lean representation
		if _, ok := to.Underlying().(*types.Slice); ok {
			return t.expr(arg)
		}
		fail(c, "conversion to %s", to)
	}
	switch qualName(c, t.pi.info) {
	case "builtin.len":
		return fmt.Sprintf("(lenI %s)", t.expr(c.Args[0]))
	case "builtin.append":
		if c.Ellipsis.IsValid() {
			return fmt.Sprintf("(%s ++ %s)", t.expr(c.Args[0]), t.expr(c.Args[1]))
		}
		var els []string
		for _, a := range c.Args[1:] {
			els = append(els, t.expr(a))
		}
		return fmt.Sprintf("(%s ++ [%s])", t.expr(c.Args[0]), strings.Join(els, ", "))
	case "bytes.Equal":
		return fmt.Sprintf("(%s == %s)", t.expr(c.Args[0]), t.expr(c.Args[1]))
	case "reflect.DeepEqual":
		return fmt.Sprintf("(%s == %s)", t.expr(c.Args[0]), t.expr(c.Args[1]))
	case "encoding/pem.Decode":
		t.fd.usesExt = true
		return fmt.Sprintf("(E.pemDecode %s)", t.expr(c.Args[0]))
	case "errors.New", "github.com/pkg/errors.New":
		// a fresh error value: its message is not part of what is modelled (rewording it changes nothing)
		return "(some \"errors.New\" : GoErr)"
	case "fmt.Errorf", "github.com/pkg/errors.Errorf":
		if bl, ok := c.Args[0].(*ast.BasicLit); ok && strings.Contains(bl.Value, "%w") {
			// wraps its error argument: errors.Is still matches what is wrapped
			for _, a := range c.Args[1:] {
				if isErrorType(t.typeOf(a)) {
					return fmt.Sprintf("(goWrap %s)", t.rhs(a))
				}
			}
		}
		return "(some \"fmt.Errorf\" : GoErr)"
	case "github.com/pkg/errors.Wrap", "github.com/pkg/errors.Wrapf":
		return fmt.Sprintf("(goWrap %s)", t.rhs(c.Args[0]))
	case "bytes.NewBuffer", "bytes.NewReader":
		return t.expr(c.Args[0])
	case "builtin.new":
		if isReaderType(t.typeOf(c.Args[0])) {
			return "([] : List UInt8)"
		}
	case "builtin.make":
		if s, ok := t.emptyMap(c); ok {
			return s
		}
		if len(c.Args) == 2 {
			if sl, ok := t.typeOf(c.Args[0]).Underlying().(*types.Slice); ok {
				return fmt.Sprintf("(List.replicate (%s).toNat %s)", t.expr(c.Args[1]), t.zero(c, sl.Elem()))
			}
		}
	case "errors.Is", "github.com/pkg/errors.Is":
		if nm, ok := t.errVarName(c.Args[1]); ok {
			return fmt.Sprintf("(errIs %s %q)", t.expr(c.Args[0]), nm)
		}
	case "fmt.Sprintf":
		return t.sprintf(c)
	case "io.NewSectionReader":
		return t.newSectionReader(c)
	case "io.MultiReader":
		return t.multiReader(c)
	}
	if s, ok := t.byteOrderCall(c); ok {
		return s
	}
	if se, ok := c.Fun.(*ast.SelectorExpr); ok && se.Sel.Name == "Bytes" && len(c.Args) == 0 {
		if _, isR := t.readerVar(se.X); isR && isReaderType(t.typeOf(se.X)) {
			return t.expr(se.X)
		}
	}
	if se, ok := c.Fun.(*ast.SelectorExpr); ok && se.Sel.Name == "Len" && len(c.Args) == 0 {
		if _, isR := t.readerVar(se.X); isR {
			return fmt.Sprintf("(lenI %s)", t.expr(se.X))
		}
	}
	if se, ok := c.Fun.(*ast.SelectorExpr); ok && len(c.Args) == 0 && (se.Sel.Name == "Bytes" || se.Sel.Name == "Len") {
		// the same on a buffer / reader that is a field (`p.certTable.Bytes()`)
		if lv, isLV := t.readerLV(se.X); isLV && isFieldPath(t.pi.info, lv) {
			if se.Sel.Name == "Len" {
				return fmt.Sprintf("(lenI %s)", t.expr(lv))
			}
			return t.expr(lv)
		}
	}
	if se, ok := c.Fun.(*ast.SelectorExpr); ok && se.Sel.Name == "Cmp" && len(c.Args) == 1 {
		if leanTypeIs(t.typeOf(se.X), "Int") && leanTypeIs(t.typeOf(c.Args[0]), "Int") {
			return fmt.Sprintf("(intCmp %s %s)", t.expr(se.X), t.expr(c.Args[0]))
		}
	}
	if s, ok := t.hashCall(c); ok {
		return s
	}
	if recv, fo, ok := t.ifaceCall(c); ok {
		// a method of an interface value, in expression position: no reader/writer argument
		_, mut := ifaceMethodType(c, fo.Type().(*types.Signature))
		if len(mut) > 0 {
			fail(c, "call of an interface method with a reader/writer argument inside an expression")
		}
		parts := []string{t.expr(recv) + "." + lname(fo.Name()), t.siteIndex(c)}
		for _, a := range c.Args {
			parts = append(parts, t.expr(a))
		}
		return "(" + strings.Join(parts, " ") + ")"
	}
	fd, recv := t.callee(c)
	if fd == nil {
		fail(c, "call of a function that is not a translation target")
	}
	t.checkRecvPath(c)
	if fd.opaque {
		if fd.effectful() {
			fail(c, "call of the opaque function %s, which changes an argument, inside an expression", fd.leanName)
		}
		t.useOpaque(c, fd)
		parts := []string{"X." + fd.extField(t.fd.pi.short)}
		if recv != nil {
			parts = append(parts, t.expr(recv))
		}
		for i := range c.Args {
			parts = append(parts, t.argExpr(c, i))
		}
		return "(" + strings.Join(parts, " ") + ")"
	}
	if fd.effectful() {
		fail(c, "call of the effectful function %s inside an expression", fd.leanName)
	}
	return t.callPure(fd, recv, c)
}

// extField: the name of the field for the opaque function fd in the Ext structure of package `home`
func (fd *fnDecl) extField(home string) string {
	f := strings.ReplaceAll(strings.TrimPrefix(fd.leanName, fd.pi.short+"."), ".", "_")
	if fd.pi.short != home {
		f = fd.pi.short + "_" + f
	}
	return f
}

// useOpaque: the function being translated calls the opaque function fd: it takes the Ext structure of its own
// package, which gets a field for fd
func (t *fnTrans) useOpaque(n ast.Node, fd *fnDecl) {
	home := t.fd.pi.short
	if t.fd.usesX != "" && t.fd.usesX != home {
		fail(n, "external functions of two Ext structures (%s, %s) in one function", t.fd.usesX, home)
	}
	t.fd.usesX = home
	addExtField(home, fd)
}

// siteIndex: the index of an interface-method call site
func (t *fnTrans) siteIndex(c *ast.CallExpr) string {
	root := t
	for root.parent != nil {
		root = root.parent
	}
	k, ok := root.sites[c]
	if !ok || k < 0 {
		fail(c, "interface-method call inside a loop or closure (one call-site index cannot stand for several executions)")
	}
	return fmt.Sprintf("%d", k)
}

// extStructName: `<pkg>.Ext` when the structure holds only functions of <pkg> itself (pkcs7.Ext: "the functions
// of pkcs7 that are not translated"); `<pkg>.Externals` when it holds functions of other packages too. (It
// cannot be called `signature.Ext`: inside `def signature.F …`, and in proof files that `open signature`, the
// bare name `Ext` — the prelude's structure with pem.Decode — would then resolve to it.)
func extStructName(home string) string {
	for _, fd := range extFields[home] {
		if fd.pi.short != home {
			return home + ".Externals"
		}
	}
	return home + ".Ext"
}

var extFields = map[string][]*fnDecl{} // Ext home package -> opaque functions that its translated functions call

func addExtField(home string, fd *fnDecl) {
	for _, o := range extFields[home] {
		if o == fd {
			return
		}
	}
	extFields[home] = append(extFields[home], fd)
}

func (t *fnTrans) callPure(fd *fnDecl, recv ast.Expr, c *ast.CallExpr) string {
	t.deps[fd.leanName] = true
	parts := []string{fd.leanName}
	if fd.usesFuel {
		parts = append(parts, "fuel")
	}
	if fd.usesExt {
		t.fd.usesExt = true
		parts = append(parts, "E")
	}
	if fd.usesX != "" {
		parts = append(parts, t.xArg(c, fd.usesX))
	}
	if recv != nil {
		parts = append(parts, t.expr(recv))
	}
	for i := range c.Args {
		parts = append(parts, t.argExpr(c, i))
	}
	return "(" + strings.Join(parts, " ") + ")"
}

// ---- statements

func assignedVars(info *types.Info, n ast.Node, into map[types.Object]bool) {
	ast.Inspect(n, func(m ast.Node) bool {
		switch s := m.(type) {
		case *ast.AssignStmt:
			if s.Tok == token.DEFINE {
				// variables (re)assigned with := but declared earlier count too
				for _, l := range s.Lhs {
					if id, ok := l.(*ast.Ident); ok && id.Name != "_" {
						if o := info.Uses[id]; o != nil {
							into[o] = true
						}
					}
				}
				return true
			}
			for _, l := range s.Lhs {
				if o := rootVar(info, l); o != nil {
					into[o] = true
				}
			}
		case *ast.IncDecStmt:
			if o := rootVar(info, s.X); o != nil {
				into[o] = true
			}
		case *ast.ExprStmt:
			markMutCall(info, s.X, into)
		}
		if c, ok := m.(*ast.CallExpr); ok {
			markMutCall(info, c, into)
		}
		return true
	})
}

func markMutCall(info *types.Info, e ast.Expr, into map[types.Object]bool) {
	c, ok := e.(*ast.CallExpr)
	if !ok {
		return
	}
	if id, ok := c.Fun.(*ast.Ident); ok {
		// a call of a function-typed parameter of the function being translated: the closure's state changes (fnarg.go)
		if sv, ok := fnParamState[info.Uses[id]]; ok {
			into[sv] = true
		}
	}
	// readers / writers consumed or appended to, and the destination of binary.Read
	switch qualName(c, info) {
	case "encoding/binary.Read":
		if o := rootVar(info, c.Args[0]); o != nil {
			into[o] = true
		}
		if o := rootVar(info, c.Args[2]); o != nil {
			into[o] = true
		}
	case "io.Copy":
		// into a hash.Hash (fnarg.go): the hash object changes, a source that is a variable is read to the end
		for _, a := range c.Args {
			if o := rootVar(info, a); o != nil {
				into[o] = true
			}
		}
	case "encoding/binary.Write", "io.LimitReader", "io.ReadFull":
		if o := rootVar(info, c.Args[0]); o != nil {
			into[o] = true
		}
		if qualName(c, info) == "io.ReadFull" && len(c.Args) == 2 {
			if o := rootVar(info, c.Args[1]); o != nil {
				into[o] = true // the buffer is filled in place
			}
		}
	}
	if se, ok := c.Fun.(*ast.SelectorExpr); ok {
		switch se.Sel.Name {
		case "Read", "Next", "ReadByte", "Write", "WriteByte", "ReadFrom":
			// (also on a reader / buffer that is a field: `p.certTable.Write(x)` writes through p)
			if o := rootVar(info, se.X); o != nil && (isReaderType(o.Type()) || (isHashObj(o.Type()) && se.Sel.Name == "Write") || (isFieldPath(info, se.X) && isReaderType(typeOfIn(info, se.X)))) {
				into[o] = true
				if se.Sel.Name == "Read" && len(c.Args) == 1 {
					if bo := rootVar(info, c.Args[0]); bo != nil {
						into[bo] = true // the buffer is filled in place
					}
				}
			}
		}
	}
	{
		tt := &fnTrans{pi: &pkgInfo{info: info}}
		if _, _, ok := tt.ifaceCall(c); ok {
			for _, a := range c.Args {
				if isReaderType(info.Types[a].Type) {
					if o := rootVar(info, a); o != nil {
						into[o] = true
					}
				}
			}
		}
		if fd, _ := tt.callee(c); fd != nil {
			for _, i := range fd.mutParams {
				if i < len(c.Args) {
					if o := rootVar(info, c.Args[i]); o != nil {
						into[o] = true
					}
				}
			}
		}
	}
	se, ok := c.Fun.(*ast.SelectorExpr)
	if !ok {
		return
	}
	sel, ok := info.Selections[se]
	if !ok || sel.Kind() != types.MethodVal {
		return
	}
	if fo, ok := sel.Obj().(*types.Func); ok {
		if fd := byObj[fo.FullName()]; fd != nil && fd.mutating {
			if o := rootVar(info, se.X); o != nil {
				into[o] = true
			}
		}
	}
}

func rootVar(info *types.Info, e ast.Expr) types.Object {
	for {
		switch x := e.(type) {
		case *ast.Ident:
			if o := info.Uses[x]; o != nil {
				return o
			}
			return info.Defs[x]
		case *ast.SelectorExpr:
			e = x.X
		case *ast.StarExpr:
			e = x.X
		case *ast.ParenExpr:
			e = x.X
		case *ast.IndexExpr:
			e = x.X
		case *ast.UnaryExpr:
			e = x.X
		case *ast.CallExpr:
			// a conversion T(x) / (*T)(&x): the variable behind it
			if tv, ok := info.Types[x.Fun]; ok && tv.IsType() && len(x.Args) == 1 {
				e = x.Args[0]
			} else {
				return nil
			}
		default:
			return nil
		}
	}
}

func hasControl(n ast.Node) bool {
	found := false
	ast.Inspect(n, func(m ast.Node) bool {
		switch m.(type) {
		case *ast.ReturnStmt, *ast.BranchStmt:
			found = true
		case *ast.FuncLit:
			return false
		}
		return !found
	})
	return found
}

func terminates(stmts []ast.Stmt) bool {
	if len(stmts) == 0 {
		return false
	}
	switch s := stmts[len(stmts)-1].(type) {
	case *ast.ReturnStmt, *ast.BranchStmt:
		return true
	case *ast.BlockStmt:
		return terminates(s.List)
	case *ast.IfStmt:
		if s.Else == nil {
			return false
		}
		var els []ast.Stmt
		switch e := s.Else.(type) {
		case *ast.BlockStmt:
			els = e.List
		default:
			els = []ast.Stmt{e}
		}
		return terminates(s.Body.List) && terminates(els)
	case *ast.SwitchStmt:
		hasDefault := false
		for _, c := range s.Body.List {
			cc := c.(*ast.CaseClause)
			if cc.List == nil {
				hasDefault = true
			}
			if !terminates(cc.Body) {
				return false
			}
		}
		return hasDefault
	}
	return false
}

func (t *fnTrans) block(stmts []ast.Stmt, c ctx) string {
	if len(stmts) == 0 {
		return c.fall()
	}
	s := stmts[0]
	rest := func() string { return t.block(stmts[1:], c) }
	switch x := s.(type) {
	case *ast.BlockStmt:
		return t.block(append(append([]ast.Stmt{}, x.List...), stmts[1:]...), c)
	case *ast.EmptyStmt:
		return rest()
	case *ast.DeclStmt:
		gd := x.Decl.(*ast.GenDecl)
		if gd.Tok != token.VAR {
			fail(s, "declaration")
		}
		var b strings.Builder
		for _, sp := range gd.Specs {
			vs := sp.(*ast.ValueSpec)
			for i, id := range vs.Names {
				o := t.pi.info.Defs[id]
				var v string
				if i < len(vs.Values) {
					v = t.coerce(vs.Values[i], o.Type(), vs.Values[i])
				} else {
					v = t.zero(s, o.Type())
				}
				fmt.Fprintf(&b, "let %s : %s := %s\n", t.name(o), leanType(s, o.Type()), v)
			}
		}
		return b.String() + rest()
	case *ast.ReturnStmt:
		if len(x.Results) == 1 {
			if ce, ok := x.Results[0].(*ast.CallExpr); ok {
				if pre, vals, ok := t.effectCall(ce); ok {
					// return f(args) where f changes its receiver / a reader argument
					return pre + t.wrapRet(t.ret(vals), c)
				}
			}
		}
		var vals []string
		for i, r := range x.Results {
			if t.isNil(r) {
				if i < len(t.resGo) && !isErrorType(t.resGo[i]) {
					// a nil pointer / slice result: the zero value (callers look at the error first)
					rt := t.resGo[i]
					if p, ok := rt.(*types.Pointer); ok {
						rt = p.Elem()
					}
					vals = append(vals, t.zero(r, rt))
					continue
				}
				vals = append(vals, "(none : GoErr)")
				continue
			}
			vals = append(vals, t.expr(r))
		}
		if len(vals) == 1 && len(t.resTys) > 1 {
			// return f() with a multi-valued f
			tmp := t.fresh("r")
			s := fmt.Sprintf("let %s := %s\n", tmp, vals[0])
			vals = nil
			for i := range t.resTys {
				vals = append(vals, tupleProj(tmp, i, len(t.resTys)))
			}
			return s + t.wrapRet(t.ret(vals), c)
		}
		return t.wrapRet(t.ret(vals), c)
	case *ast.BranchStmt:
		if x.Label != nil {
			fail(s, "labelled branch")
		}
		if c.loop == nil {
			fail(s, "%s outside a range loop", x.Tok)
		}
		switch x.Tok {
		case token.CONTINUE:
			return c.loop.cont()
		case token.BREAK:
			return c.loop.brk()
		}
		fail(s, "branch %s", x.Tok)
	case *ast.IncDecStmt:
		op := "+"
		if x.Tok == token.DEC {
			op = "-"
		}
		return t.assign(s, x.X, fmt.Sprintf("(%s %s 1)", t.expr(x.X), op)) + rest()
	case *ast.ExprStmt:
		ce, ok := x.X.(*ast.CallExpr)
		if !ok {
			fail(s, "expression statement")
		}
		pre, _, ok := t.effectCall(ce)
		if !ok {
			fail(s, "call statement without effect on the translated state")
		}
		return pre + rest()
	case *ast.AssignStmt:
		return t.assignStmt(x) + rest()
	case *ast.IfStmt:
		return t.ifStmt(x, stmts[1:], c)
	case *ast.SwitchStmt:
		return t.switchStmt(x, stmts[1:], c)
	case *ast.RangeStmt:
		return t.rangeStmt(x, stmts[1:], c)
	case *ast.ForStmt:
		return t.forStmt(x, stmts[1:], c)
	}
	fail(s, "unsupported statement %T", s)
	return ""
}

func (t *fnTrans) wrapRet(v string, c ctx) string {
	if c.helper {
		return "Loop.ret " + v + "\n"
	}
	return v + "\n"
}

// mutCall emits `let tmp := f recv args` and rebinds the receiver variable; returns (let-line, rebind-lines)
func (t *fnTrans) mutCall(fd *fnDecl, recv ast.Expr, args []ast.Expr, tmp string) (string, string) {
	t.deps[fd.leanName] = true
	parts := []string{fd.leanName}
	if fd.usesExt {
		t.fd.usesExt = true
		parts = append(parts, "E")
	}
	if fd.usesX != "" {
		parts = append(parts, t.xArg(recv, fd.usesX))
	}
	parts = append(parts, t.expr(recv))
	for _, a := range args {
		parts = append(parts, t.expr(a))
	}
	line := fmt.Sprintf("let %s := %s\n", tmp, strings.Join(parts, " "))
	nres := fd.obj.Type().(*types.Signature).Results().Len()
	newRecv := tupleProj(tmp, 0, nres+1)
	return line, t.assign(recv, recv, newRecv)
}

// assign emits the rebinding for `lhs = val` (val is Lean source)
func (t *fnTrans) assign(n ast.Node, lhs ast.Expr, val string) string {
	switch l := lhs.(type) {
	case *ast.ParenExpr:
		return t.assign(n, l.X, val)
	case *ast.StarExpr:
		return t.assign(n, l.X, val)
	case *ast.UnaryExpr:
		if l.Op == token.AND {
			return t.assign(n, l.X, val)
		}
	case *ast.CallExpr:
		// (*bytes.Buffer)(&x) where x has a type defined as bytes.Buffer: the same Lean value
		if tv, ok := t.pi.info.Types[l.Fun]; ok && tv.IsType() && len(l.Args) == 1 {
			if leanType(n, tv.Type) == leanType(n, t.typeOf(l.Args[0])) {
				return t.assign(n, l.Args[0], val)
			}
		}
	case *ast.Ident:
		if l.Name == "_" {
			return ""
		}
		o := t.pi.info.Uses[l]
		if o == nil {
			o = t.pi.info.Defs[l]
		}
		if _, ok := t.ifaceLits[o]; ok {
			fail(n, "assignment to the []interface{} variable %s", l.Name)
		}
		if v, ok := o.(*types.Var); ok && v.Pkg() != nil && v.Parent() == v.Pkg().Scope() {
			fail(n, "assignment to the package-level variable %s", l.Name)
		}
		if curAttach != nil && curAttach.active && curAttach.collObj == o {
			curAttach.active = false // the collection is rebound: no longer pre ++ cur :: rest
		}
		return fmt.Sprintf("let %s := %s\n", t.name(o), val)
	case *ast.IndexExpr:
		// m[k] = v on a local map (fnarg.go)
		if mo, m, ok := t.refVar(l.X); ok && isMapType(mo.Type()) {
			return t.assignObj(n, mo, fmt.Sprintf("(mapSet %s %s %s)", m, t.expr(l.Index), val))
		}
	case *ast.SelectorExpr:
		if sel, ok := t.pi.info.Selections[l]; ok && sel.Kind() == types.FieldVal {
			base := t.expr(l.X)
			return t.assign(n, l.X, fmt.Sprintf("{ %s with %s := %s }", base, lname(l.Sel.Name), val))
		}
	}
	fail(n, "unsupported assignment target")
	return ""
}

func (t *fnTrans) assignStmt(x *ast.AssignStmt) string {
	if x.Tok != token.ASSIGN && x.Tok != token.DEFINE {
		// compound assignment
		var op token.Token
		switch x.Tok {
		case token.ADD_ASSIGN:
			op = token.ADD
		case token.SUB_ASSIGN:
			op = token.SUB
		case token.MUL_ASSIGN:
			op = token.MUL
		case token.OR_ASSIGN:
			op = token.OR
		case token.AND_ASSIGN:
			op = token.AND
		case token.AND_NOT_ASSIGN:
			return t.assign(x, x.Lhs[0], t.andNot(x, t.typeOf(x.Lhs[0]), t.expr(x.Lhs[0]), t.expr(x.Rhs[0])))
		default:
			fail(x, "compound assignment %s", x.Tok)
		}
		lop, _, _ := binop(op)
		if op == token.ADD && isStringType(t.typeOf(x.Lhs[0])) {
			lop = "++"
		}
		return t.assign(x, x.Lhs[0], fmt.Sprintf("(%s %s %s)", t.expr(x.Lhs[0]), lop, t.expr(x.Rhs[0])))
	}
	if len(x.Rhs) == 1 && len(x.Lhs) >= 1 {
		// map lookup with ok
		if ix, ok := x.Rhs[0].(*ast.IndexExpr); ok {
			if _, ismap := t.typeOf(ix.X).Underlying().(*types.Map); ismap {
				m := t.mapExpr(ix.X)
				k := t.expr(ix.Index)
				var b strings.Builder
				if len(x.Lhs) == 2 {
					b.WriteString(t.assign(x, x.Lhs[0], fmt.Sprintf("((%s).lookup %s).getD %s", m, k, t.zero(x, t.typeOf(ix.X).Underlying().(*types.Map).Elem()))))
					b.WriteString(t.assign(x, x.Lhs[1], fmt.Sprintf("((%s).lookup %s).isSome", m, k)))
				} else {
					b.WriteString(t.assign(x, x.Lhs[0], fmt.Sprintf("((%s).lookup %s).getD %s", m, k, t.zero(x, t.typeOf(ix.X).Underlying().(*types.Map).Elem()))))
				}
				return b.String()
			}
		}
		if fl, ok := x.Rhs[0].(*ast.FuncLit); ok && x.Tok == token.DEFINE && len(x.Lhs) == 1 {
			t.defineClosure(x.Lhs[0].(*ast.Ident), fl)
			return ""
		}
		if cl, ok := x.Rhs[0].(*ast.CompositeLit); ok && x.Tok == token.DEFINE && len(x.Lhs) == 1 && isIfaceSliceLit(t, cl) {
			return t.defineIfaceLit(x.Lhs[0].(*ast.Ident), cl)
		}
		if ce, ok := x.Rhs[0].(*ast.CallExpr); ok {
			if pre, vals, ok := t.effectCall(ce); ok {
				var b strings.Builder
				b.WriteString(pre)
				if len(vals) != len(x.Lhs) {
					fail(x, "assignment shape of an effectful call")
				}
				for i, l := range x.Lhs {
					b.WriteString(t.assign(x, l, vals[i]))
				}
				return b.String()
			}
		}
		if len(x.Lhs) > 1 {
			tmp := t.fresh("r")
			var b strings.Builder
			fmt.Fprintf(&b, "let %s := %s\n", tmp, t.expr(x.Rhs[0]))
			for i, l := range x.Lhs {
				b.WriteString(t.assign(x, l, tupleProj(tmp, i, len(x.Lhs))))
			}
			return b.String()
		}
	}
	if len(x.Lhs) != len(x.Rhs) {
		fail(x, "assignment shape")
	}
	if len(x.Lhs) > 1 {
		// parallel assignment: evaluate all right-hand sides first
		var b strings.Builder
		var tmps []string
		for _, r := range x.Rhs {
			tmp := t.fresh("r")
			tmps = append(tmps, tmp)
			fmt.Fprintf(&b, "let %s := %s\n", tmp, t.rhsFor(x.Lhs[len(tmps)-1], r))
		}
		for i, l := range x.Lhs {
			b.WriteString(t.assign(x, l, tmps[i]))
		}
		return b.String()
	}
	return t.assign(x, x.Lhs[0], t.rhsFor(x.Lhs[0], x.Rhs[0]))
}

func (t *fnTrans) rhs(r ast.Expr) string {
	if t.isNil(r) {
		return "(none : GoErr)"
	}
	return t.expr(r)
}

// rhsFor: `nil` takes the zero value of the target's type; a concrete value assigned to a variable of a library
// interface type becomes the structure of its translated methods (iface.go)
func (t *fnTrans) rhsFor(lhs, r ast.Expr) string {
	if t.isNil(r) {
		if id, ok := lhs.(*ast.Ident); !ok || id.Name != "_" {
			if _, isSlice := t.typeOf(lhs).Underlying().(*types.Slice); isSlice {
				return "[]"
			}
		}
		return t.rhs(r)
	}
	if id, ok := lhs.(*ast.Ident); !ok || id.Name != "_" {
		if lt := typeOfIn(t.pi.info, lhs); lt != nil {
			return t.coerce(r, lt, r)
		}
	}
	return t.rhs(r)
}

func (t *fnTrans) mapExpr(e ast.Expr) string {
	if mo, m, ok := t.refVar(e); ok && isMapType(mo.Type()) {
		return m // a local map (fnarg.go)
	}
	var o types.Object
	switch x := e.(type) {
	case *ast.Ident:
		o = t.pi.info.Uses[x]
	case *ast.SelectorExpr:
		o = t.pi.info.Uses[x.Sel]
	}
	v, ok := o.(*types.Var)
	if !ok || v.Parent() != v.Pkg().Scope() {
		fail(e, "map that is neither a package-level nor a local variable")
	}
	pi := byTypes[v.Pkg().Path()]
	nm := pi.short + "." + v.Name()
	if _, ok := globals[nm]; ok {
		return nm
	}
	mt := v.Type().Underlying().(*types.Map)
	for _, f := range pi.files {
		for _, d := range f.Decls {
			gd, ok := d.(*ast.GenDecl)
			if !ok || gd.Tok != token.VAR {
				continue
			}
			for _, sp := range gd.Specs {
				vs := sp.(*ast.ValueSpec)
				for i, id := range vs.Names {
					if id.Name != o.Name() || i >= len(vs.Values) {
						continue
					}
					cl, ok := vs.Values[i].(*ast.CompositeLit)
					if !ok {
						fail(e, "map initialiser")
					}
					sub := &fnTrans{fd: &fnDecl{pi: pi}, pi: pi, names: map[types.Object]string{}, used: map[string]bool{}, deps: map[string]bool{}}
					var ents []string
					for _, el := range cl.Elts {
						kv := el.(*ast.KeyValueExpr)
						ents = append(ents, fmt.Sprintf("(%s, %s)", sub.expr(kv.Key), sub.expr(kv.Value)))
					}
					globals[nm] = fmt.Sprintf("def %s : List (%s × %s) := [\n  %s]\n", nm, leanType(e, mt.Key()), leanType(e, mt.Elem()), strings.Join(ents, ",\n  "))
					globalOrd = append(globalOrd, nm)
					return nm
				}
			}
		}
	}
	fail(e, "map initialiser not found")
	return ""
}

func indent(s string) string {
	lines := strings.Split(strings.TrimRight(s, "\n"), "\n")
	for i := range lines {
		lines[i] = "  " + lines[i]
	}
	return strings.Join(lines, "\n") + "\n"
}

// joinVars: variables declared outside `nodes` and assigned inside, in a stable order
func (t *fnTrans) joinVars(nodes []ast.Node, declaredInside map[types.Object]bool) []types.Object {
	set := map[types.Object]bool{}
	for _, n := range nodes {
		if n != nil {
			assignedVars(t.pi.info, n, set)
			t.closureTouches(n, set, nil)
		}
	}
	var out []types.Object
	for o := range set {
		if declaredInside[o] {
			continue
		}
		if _, ok := o.(*types.Var); !ok {
			continue
		}
		if _, known := t.names[o]; !known {
			continue // declared inside
		}
		out = append(out, o)
	}
	sort.Slice(out, func(i, j int) bool { return out[i].Pos() < out[j].Pos() })
	return out
}

func (t *fnTrans) ifStmt(x *ast.IfStmt, after []ast.Stmt, c ctx) string {
	var b strings.Builder
	if x.Init != nil {
		switch in := x.Init.(type) {
		case *ast.AssignStmt:
			b.WriteString(t.assignStmt(in))
		default:
			fail(x, "if-initialiser")
		}
	}
	var elseStmts []ast.Stmt
	if x.Else != nil {
		switch e := x.Else.(type) {
		case *ast.BlockStmt:
			elseStmts = e.List
		default:
			elseStmts = []ast.Stmt{e}
		}
	}
	cond := t.expr(x.Cond)
	simple := !hasControl(x.Body) && (x.Else == nil || !hasControl(x.Else))
	if simple {
		// join: the branches only assign
		vars := t.joinVars([]ast.Node{x.Body, x.Else}, nil)
		saveAttach := curAttach
		tuple := func(stmts []ast.Stmt) string {
			inner := ctx{fall: func() string {
				var vs []string
				for _, o := range vars {
					vs = append(vs, t.varRead(o))
				}
				if len(vs) == 1 {
					return vs[0] + "\n"
				}
				return "(" + strings.Join(vs, ", ") + ")\n"
			}, loop: nil}
			return t.block(stmts, inner)
		}
		if len(vars) == 0 {
			// no effect
			return b.String() + t.block(after, c)
		}
		var attachState bool
		if curAttach != nil {
			attachState = curAttach.active
		}
		th := tuple(x.Body.List)
		detached := curAttach != nil && attachState && !curAttach.active
		if curAttach != nil {
			curAttach.active = attachState
		}
		el := tuple(elseStmts)
		if curAttach != nil && attachState && !curAttach.active {
			detached = true
		}
		if curAttach != nil {
			curAttach.active = attachState && !detached
		}
		_ = saveAttach
		j := t.fresh("j")
		fmt.Fprintf(&b, "let %s := if %s then\n%selse\n%s", j, cond, indent(th), indent(el))
		for i, o := range vars {
			fmt.Fprintf(&b, "let %s := %s\n", t.name(o), tupleProj(j, i, len(vars)))
		}
		return b.String() + t.block(after, c)
	}
	// control flow inside: continuation-passing, the statements after the `if` are placed in every
	// branch that can fall through
	var attachState bool
	if curAttach != nil {
		attachState = curAttach.active
	}
	th := t.block(append(append([]ast.Stmt{}, x.Body.List...), after...), c)
	if curAttach != nil {
		curAttach.active = attachState
	}
	el := t.block(append(append([]ast.Stmt{}, elseStmts...), after...), c)
	if curAttach != nil {
		curAttach.active = attachState
	}
	fmt.Fprintf(&b, "if %s then\n%selse\n%s", cond, indent(th), indent(el))
	return b.String()
}

func (t *fnTrans) switchStmt(x *ast.SwitchStmt, after []ast.Stmt, c ctx) string {
	// rewritten as an if-chain
	var b strings.Builder
	if x.Init != nil {
		b.WriteString(t.assignStmt(x.Init.(*ast.AssignStmt)))
	}
	tag := ""
	if x.Tag != nil {
		tag = t.fresh("tag")
		fmt.Fprintf(&b, "let %s := %s\n", tag, t.expr(x.Tag))
	}
	ast.Inspect(x.Body, func(n ast.Node) bool {
		if br, ok := n.(*ast.BranchStmt); ok && (br.Tok == token.BREAK || br.Tok == token.FALLTHROUGH) {
			fail(br, "%s inside switch", br.Tok)
		}
		if _, ok := n.(*ast.RangeStmt); ok {
			return false
		}
		return true
	})
	var def *ast.CaseClause
	var chain ast.Stmt
	var clauses []*ast.CaseClause
	for _, cl := range x.Body.List {
		cc := cl.(*ast.CaseClause)
		if cc.List == nil {
			def = cc
		} else {
			clauses = append(clauses, cc)
		}
	}
	// build nested IfStmt AST with synthetic conditions translated through condOverride
	var build func(i int) ast.Stmt
	build = func(i int) ast.Stmt {
		if i == len(clauses) {
			if def != nil {
				return &ast.BlockStmt{List: def.Body}
			}
			return &ast.BlockStmt{}
		}
		cc := clauses[i]
		var conds []string
		for _, e := range cc.List {
			if tag != "" {
				conds = append(conds, fmt.Sprintf("(%s == %s)", tag, t.expr(e)))
			} else {
				conds = append(conds, t.expr(e))
			}
		}
		ce := &ast.Ident{Name: "__cond", NamePos: cc.Pos()}
		condOverride[ce] = strings.Join(conds, " || ")
		return &ast.IfStmt{If: cc.Pos(), Cond: ce, Body: &ast.BlockStmt{List: cc.Body}, Else: build(i + 1)}
	}
	chain = build(0)
	return b.String() + t.block(append([]ast.Stmt{chain}, after...), c)
}

var condOverride = map[ast.Expr]string{}

func init() {
	// expr() consults condOverride for synthetic identifiers
}

func (t *fnTrans) rangeStmt(x *ast.RangeStmt, after []ast.Stmt, c ctx) string {
	if isUnrollable(t, x) {
		return t.unrolledRange(x, after, c)
	}
	if c.helper {
		fail(x, "nested range loop")
	}
	if x.Tok != token.DEFINE {
		fail(x, "range with assignment")
	}
	collT := t.typeOf(x.X)
	var elemT types.Type
	switch u := under(collT).(type) {
	case *types.Slice:
		elemT = u.Elem()
	case *types.Array:
		elemT = u.Elem()
	default:
		fail(x, "range over %s", collT)
	}
	_, elemIsPtr := elemT.(*types.Pointer)
	t.nloop++
	loopName := fmt.Sprintf("%s.loop%d", t.fd.leanName, t.nloop)

	var keyObj, valObj types.Object
	if id, ok := x.Key.(*ast.Ident); ok && id.Name != "_" {
		keyObj = t.pi.info.Defs[id]
	}
	if x.Value != nil {
		if id, ok := x.Value.(*ast.Ident); ok && id.Name != "_" {
			valObj = t.pi.info.Defs[id]
		}
	}
	collObj := rootVar(t.pi.info, x.X)
	// does the body change elements through the pointer, or refer to the collection?
	needPre := false
	if elemIsPtr && valObj != nil {
		set := map[types.Object]bool{}
		assignedVars(t.pi.info, x.Body, set)
		if set[valObj] {
			needPre = true
		}
	}
	if collObj != nil && isSimpleColl(x.X) {
		ast.Inspect(x.Body, func(n ast.Node) bool {
			if id, ok := n.(*ast.Ident); ok && t.pi.info.Uses[id] == collObj {
				// x[i] with the loop index is the current element, not a use of the collection
				needPre = true
			}
			if ix, ok := n.(*ast.IndexExpr); ok && keyObj != nil {
				if id, ok := ix.Index.(*ast.Ident); ok && t.pi.info.Uses[id] == keyObj && sameExpr(ix.X, x.X) {
					return false
				}
			}
			return true
		})
	}
	if needPre && (collObj == nil || !isSimpleColl(x.X)) {
		fail(x, "element-mutating range over a collection that is not a plain variable")
	}

	// muts: outer variables assigned in the body (excluding the collection when threaded by pre)
	mutSet := map[types.Object]bool{}
	assignedVars(t.pi.info, x.Body, mutSet)
	closureUsed := map[types.Object]bool{}
	t.closureTouches(x.Body, mutSet, closureUsed)
	if !needPre && collObj != nil && mutSet[collObj] {
		fail(x, "the ranged collection is changed inside the loop")
	}
	var muts []types.Object
	for o := range mutSet {
		if o == keyObj || o == valObj {
			continue
		}
		if _, known := t.names[o]; !known {
			continue
		}
		if needPre && o == collObj {
			continue
		}
		muts = append(muts, o)
	}
	sort.Slice(muts, func(i, j int) bool { return muts[i].Pos() < muts[j].Pos() })
	// captured: every known variable read in the body (other than muts), in declaration order
	capSet := map[types.Object]bool{}
	for o := range closureUsed {
		if _, known := t.names[o]; known {
			capSet[o] = true
		}
	}
	ast.Inspect(x.Body, func(n ast.Node) bool {
		if id, ok := n.(*ast.Ident); ok {
			if o := t.pi.info.Uses[id]; o != nil {
				if _, known := t.names[o]; known {
					capSet[o] = true
				}
			}
		}
		return true
	})
	var caps []types.Object
	for o := range capSet {
		isMut := false
		for _, m := range muts {
			if m == o {
				isMut = true
			}
		}
		if isMut || (needPre && o == collObj) {
			continue
		}
		caps = append(caps, o)
	}
	sort.Slice(caps, func(i, j int) bool { return caps[i].Pos() < caps[j].Pos() })

	elemName := "cur"
	if valObj != nil {
		elemName = t.name(valObj)
	}
	idxName := ""
	if keyObj != nil {
		idxName = t.name(keyObj)
	}
	mutTy := "Unit"
	if needPre || len(muts) > 0 {
		var tys []string
		if needPre {
			tys = append(tys, leanType(x, collT))
		}
		for _, m := range muts {
			tys = append(tys, leanType(x, m.Type()))
		}
		mutTy = strings.Join(tys, " × ")
	}
	elemLT := leanType(x, elemT)

	// body
	mutVals := func() string {
		var vs []string
		for _, m := range muts {
			vs = append(vs, t.name(m))
		}
		return strings.Join(vs, " ")
	}
	capArgs := func() string {
		var vs []string
		if t.fd.usesExtLoop {
			vs = append(vs, "E")
		}
		if t.fd.usesX != "" {
			vs = append(vs, "X")
		}
		for _, o := range caps {
			vs = append(vs, t.name(o))
		}
		return strings.Join(vs, " ")
	}
	var savedAttach = curAttach
	savedRange := t.curRange
	t.curRange = &rangeInfo{key: keyObj, coll: x.X, elem: elemName}
	defer func() { t.curRange = savedRange }()
	if needPre {
		curAttach = &attach{collObj: collObj, elem: elemName, active: true}
	}
	recCall := func() string {
		if needPre && !curAttach.active {
			fail(x, "continue after the ranged collection was reassigned")
		}
		parts := []string{loopName}
		if s := capArgs(); s != "" {
			parts = append(parts, s)
		}
		if needPre {
			parts = append(parts, fmt.Sprintf("(pre ++ [%s])", elemName))
		}
		if idxName != "" {
			parts = append(parts, fmt.Sprintf("(%s + 1)", idxName))
		}
		parts = append(parts, "rest")
		if s := mutVals(); s != "" {
			parts = append(parts, s)
		}
		return strings.Join(parts, " ") + "\n"
	}
	doneVal := func(inBody bool) string {
		var vs []string
		if needPre {
			if inBody {
				vs = append(vs, t.varRead(collObj))
			} else {
				vs = append(vs, "pre")
			}
		}
		for _, m := range muts {
			vs = append(vs, t.name(m))
		}
		if len(vs) == 0 {
			return "Loop.done ()\n"
		}
		if len(vs) == 1 {
			return "Loop.done " + vs[0] + "\n"
		}
		return "Loop.done (" + strings.Join(vs, ", ") + ")\n"
	}
	t.fd.usesExtLoop = t.fd.usesExtLoop || bodyUsesExt(t, x.Body)
	lc := &loopCtx{cont: recCall, brk: func() string { return doneVal(true) }}
	body := t.block(x.Body.List, ctx{fall: recCall, loop: lc, helper: true})
	curAttach = savedAttach
	t.curRange = savedRange

	// helper definition
	var hb strings.Builder
	fmt.Fprintf(&hb, "def %s", loopName)
	if t.fd.usesExtLoop {
		hb.WriteString(" (E : Ext)")
	}
	if t.fd.usesX != "" {
		fmt.Fprintf(&hb, " (X : %s)", extStructName(t.fd.usesX))
	}
	for _, o := range caps {
		fmt.Fprintf(&hb, " (%s : %s)", t.name(o), leanType(x, o.Type()))
	}
	hb.WriteString(" :")
	if needPre {
		fmt.Fprintf(&hb, " (pre : List %s) →", elemLT)
	}
	if idxName != "" {
		hb.WriteString(" Int →")
	}
	fmt.Fprintf(&hb, " List %s →", elemLT)
	for _, m := range muts {
		fmt.Fprintf(&hb, " %s →", leanType(x, m.Type()))
	}
	fmt.Fprintf(&hb, " Loop (%s) (%s)\n", t.retType, mutTy)
	pat := func(list string) string {
		var ps []string
		if needPre {
			ps = append(ps, "pre")
		}
		if idxName != "" {
			if list == "[]" {
				ps = append(ps, "_")
			} else {
				ps = append(ps, idxName)
			}
		}
		ps = append(ps, list)
		for _, m := range muts {
			ps = append(ps, t.name(m))
		}
		return strings.Join(ps, ", ")
	}
	fmt.Fprintf(&hb, "  | %s => %s", pat("[]"), doneVal(false))
	fmt.Fprintf(&hb, "  | %s =>\n%s", pat(elemName+" :: rest"), indent(indent(body)))
	t.loops = append(t.loops, hb.String())

	// call site
	var b strings.Builder
	parts := []string{loopName}
	if s := capArgs(); s != "" {
		parts = append(parts, s)
	}
	if needPre {
		parts = append(parts, "[]")
	}
	if idxName != "" {
		parts = append(parts, "0")
	}
	parts = append(parts, t.expr(x.X))
	if s := mutVals(); s != "" {
		parts = append(parts, s)
	}
	m := t.fresh("m")
	fmt.Fprintf(&b, "match %s with\n| Loop.ret r => r\n| Loop.done %s =>\n", strings.Join(parts, " "), m)
	var binds strings.Builder
	n := len(muts)
	off := 0
	if needPre {
		n++
		off = 1
		binds.WriteString(t.assign(x, x.X, tupleProj(m, 0, n)))
	}
	for i, mo := range muts {
		fmt.Fprintf(&binds, "let %s := %s\n", t.name(mo), tupleProj(m, i+off, n))
	}
	restCode := binds.String() + t.block(after, c)
	b.WriteString(indent(restCode))
	return b.String()
}

func bodyUsesExt(t *fnTrans, n ast.Node) bool {
	uses := false
	ast.Inspect(n, func(m ast.Node) bool {
		if c, ok := m.(*ast.CallExpr); ok {
			if qualName(c, t.pi.info) == "encoding/pem.Decode" {
				uses = true
			}
			if fd, _ := t.callee(c); fd != nil && fd.usesExt {
				uses = true
			}
		}
		return true
	})
	return uses
}

func isSimpleColl(e ast.Expr) bool {
	switch x := e.(type) {
	case *ast.Ident:
		return true
	case *ast.StarExpr:
		return isSimpleColl(x.X)
	case *ast.ParenExpr:
		return isSimpleColl(x.X)
	}
	return false
}

func sameExpr(a, b ast.Expr) bool {
	return exprString(a) == exprString(b)
}

func exprString(e ast.Expr) string {
	switch x := e.(type) {
	case *ast.Ident:
		return x.Name
	case *ast.SelectorExpr:
		return exprString(x.X) + "." + x.Sel.Name
	case *ast.StarExpr:
		return "*" + exprString(x.X)
	case *ast.ParenExpr:
		return exprString(x.X)
	}
	return fmt.Sprintf("%T@%d", e, e.Pos())
}

// ---------------------------------------------------------------------------------------------

func computeMutating() {
	changed := true
	for changed {
		changed = false
		for _, fd := range targets {
			if fd.mutating || fd.decl.Recv == nil {
				continue
			}
			if _, ptr := fd.decl.Recv.List[0].Type.(*ast.StarExpr); !ptr {
				continue
			}
			if len(fd.decl.Recv.List[0].Names) == 0 {
				continue
			}
			recv := fd.pi.info.Defs[fd.decl.Recv.List[0].Names[0]]
			set := map[types.Object]bool{}
			assignedVars(fd.pi.info, fd.decl.Body, set)
			mut := set[recv]
			// a range loop over the receiver's pointer elements that changes them
			ast.Inspect(fd.decl.Body, func(n ast.Node) bool {
				rs, ok := n.(*ast.RangeStmt)
				if !ok {
					return true
				}
				if rootVar(fd.pi.info, rs.X) != recv || rs.Value == nil {
					return true
				}
				id, ok := rs.Value.(*ast.Ident)
				if !ok {
					return true
				}
				vo := fd.pi.info.Defs[id]
				if vo == nil {
					return true
				}
				if _, isPtr := vo.Type().(*types.Pointer); isPtr && set[vo] {
					mut = true
				}
				return true
			})
			if mut {
				fd.mutating = true
				changed = true
			}
		}
	}
}

func computeUsesExt() {
	changed := true
	for changed {
		changed = false
		for _, fd := range targets {
			if fd.usesExt {
				continue
			}
			uses := false
			ast.Inspect(fd.decl.Body, func(n ast.Node) bool {
				if c, ok := n.(*ast.CallExpr); ok {
					if qualName(c, fd.pi.info) == "encoding/pem.Decode" {
						uses = true
					}
					t := &fnTrans{fd: fd, pi: fd.pi}
					if cd, _ := t.callee(c); cd != nil && cd.usesExt {
						uses = true
					}
				}
				return true
			})
			if uses {
				fd.usesExt = true
				changed = true
			}
		}
	}
}

func computeUsesX() {
	// the Ext structure of a translated function is the one of its own package (it holds a field for every opaque
	// function that a translated function of that package calls, and the intrinsics of fnarg.go); a function that
	// needs nothing of its own package's and calls translated functions that all take ONE other structure takes that
	// one; a function that needs more than one takes its own package's, which gets a FIELD holding the other
	// package's structure (`pkcs7 : pkcs7.Ext` in `authenticode.Ext`; the callee is handed `X.pkcs7`)
	local := map[*fnDecl]bool{}
	for _, fd := range targets {
		if fd.opaque {
			continue
		}
		ast.Inspect(fd.decl.Body, func(n ast.Node) bool {
			if c, ok := n.(*ast.CallExpr); ok {
				t := &fnTrans{fd: fd, pi: fd.pi}
				if in := intrinsicCall(fd.pi.info, c); in != "" {
					// a standard-library function that is a field of the package's Ext structure (fnarg.go)
					addIntrinsic(fd.pi.short, in)
					local[fd] = true
				}
				if cd, _ := t.callee(c); cd != nil && cd.opaque {
					addExtField(fd.pi.short, cd)
					local[fd] = true
				}
			}
			return true
		})
		if local[fd] {
			fd.usesX = fd.pi.short
		}
	}
	changed := true
	for changed {
		changed = false
		for _, fd := range targets {
			if fd.opaque {
				continue
			}
			wants := map[string]bool{}
			if local[fd] {
				wants[fd.pi.short] = true
			}
			ast.Inspect(fd.decl.Body, func(n ast.Node) bool {
				if c, ok := n.(*ast.CallExpr); ok {
					t := &fnTrans{fd: fd, pi: fd.pi}
					if cd, _ := t.callee(c); cd != nil && !cd.opaque && cd.usesX != "" {
						wants[cd.usesX] = true
					}
				}
				return true
			})
			want := ""
			switch {
			case len(wants) == 1:
				for w := range wants {
					want = w
				}
			case len(wants) > 1:
				want = fd.pi.short
				for w := range wants {
					if w != want {
						addExtNested(want, w)
					}
				}
			}
			if want != fd.usesX {
				fd.usesX = want
				changed = true
			}
		}
	}
}

// extNested: Ext home package -> the packages whose Ext structure is a field of the home package's
var extNested = map[string][]string{}

func addExtNested(home, other string) {
	for _, o := range extNested[home] {
		if o == other {
			return
		}
	}
	extNested[home] = append(extNested[home], other)
	sort.Strings(extNested[home])
}

// xArg: the Ext argument for a translated callee that takes the Ext structure of package `want`
func (t *fnTrans) xArg(n ast.Node, want string) string {
	if t.fd.usesX == want {
		return "X"
	}
	if t.fd.usesX == t.fd.pi.short {
		for _, o := range extNested[t.fd.usesX] {
			if o == want {
				return "X." + want
			}
		}
	}
	fail(n, "%s takes the Ext structure of %q, its callee needs the one of %q", t.fd.leanName, t.fd.usesX, want)
	return ""
}

func translate(fd *fnDecl) {
	defer func() {
		if r := recover(); r != nil {
			if u, ok := r.(unsupported); ok {
				fd.err = u.msg
				fd.out = ""
				return
			}
			panic(r)
		}
	}()
	t := &fnTrans{fd: fd, pi: fd.pi, names: map[types.Object]string{}, used: map[string]bool{"E": true, "X": true, "fuel": true, "pre": true, "rest": true, "cur": true}, deps: map[string]bool{},
		alias: map[types.Object]ast.Expr{}, keyConst: map[types.Object]int{}, closures: map[types.Object]*closureInfo{},
		ifaceLits: map[types.Object][]ast.Expr{}}
	t.sites = ifaceSites(t, fd.decl.Body)
	t.topLevelArg, t.litName = map[*ast.FuncLit]bool{}, map[*ast.FuncLit]string{}
	for _, st := range fd.decl.Body.List {
		var ce *ast.CallExpr
		switch x := st.(type) {
		case *ast.ReturnStmt:
			if len(x.Results) == 1 {
				ce, _ = x.Results[0].(*ast.CallExpr)
			}
		case *ast.AssignStmt:
			if len(x.Rhs) == 1 {
				ce, _ = x.Rhs[0].(*ast.CallExpr)
			}
		case *ast.ExprStmt:
			ce, _ = x.X.(*ast.CallExpr)
		}
		if ce == nil {
			continue
		}
		csig, _ := fd.pi.info.Types[ce.Fun].Type.(*types.Signature)
		for i, a := range ce.Args {
			if fl, ok := a.(*ast.FuncLit); ok {
				t.topLevelArg[fl] = true
				t.litName[fl] = "fn"
				if csig != nil && i < csig.Params().Len() && csig.Params().At(i).Name() != "" {
					t.litName[fl] = csig.Params().At(i).Name()
				}
			}
		}
	}
	if fd.xConflict != "" {
		fail(fd.decl, "%s", fd.xConflict)
	}
	if n := ambientCalls(fd, map[*fnDecl]bool{}); n > 1 {
		fail(fd.decl, "more than one call of a nullary external function (a constant of the Ext value) can be reached")
	}
	sig := fd.obj.Type().(*types.Signature)
	var params []string
	if fd.usesFuel {
		params = append(params, "(fuel : Nat)")
	}
	if fd.usesExt {
		params = append(params, "(E : Ext)")
	}
	if fd.usesX != "" {
		params = append(params, fmt.Sprintf("(X : %s)", extStructName(fd.usesX)))
	}
	if fd.decl.Recv != nil {
		if len(fd.decl.Recv.List[0].Names) > 0 {
			ro := fd.pi.info.Defs[fd.decl.Recv.List[0].Names[0]]
			t.recvObj = ro
			params = append(params, fmt.Sprintf("(%s : %s)", t.name(ro), leanType(fd.decl, ro.Type())))
		} else {
			params = append(params, fmt.Sprintf("(_recv : %s)", leanType(fd.decl, sig.Recv().Type())))
		}
	}
	var stateObjs []types.Object
	var stateTys []string
	for i := 0; i < sig.Params().Len(); i++ {
		p := sig.Params().At(i)
		nm := "_"
		if p.Name() != "" && p.Name() != "_" {
			nm = t.name(p)
		}
		if fs, ok := p.Type().Underlying().(*types.Signature); ok {
			// a function-typed parameter: state type, step function, state (fnarg.go)
			if nm == "_" {
				fail(fd.decl, "unnamed function-typed parameter")
			}
			bs, sigma := fnParamType(fd.decl, fs, len(stateObjs))
			sv := types.NewVar(p.Pos(), fd.pi.pkg, p.Name()+"_s", types.Typ[types.Invalid])
			fnParamState[p] = sv
			fnParamSigma[sv] = sigma
			params = append(params, bs[0], fmt.Sprintf("(%s : %s)", nm, bs[1]), fmt.Sprintf("(%s : %s)", t.name(sv), bs[2]))
			stateObjs = append(stateObjs, sv)
			stateTys = append(stateTys, sigma)
			continue
		}
		params = append(params, fmt.Sprintf("(%s : %s)", nm, leanType(fd.decl, p.Type())))
	}
	var rtys []string
	if fd.mutating {
		rtys = append(rtys, leanType(fd.decl, t.recvObj.Type()))
	}
	for _, i := range fd.mutParams {
		p := sig.Params().At(i)
		t.mutObjs = append(t.mutObjs, p)
		rtys = append(rtys, leanType(fd.decl, p.Type()))
	}
	// then the states that the closures behind the function-typed parameters are left in
	t.mutObjs = append(t.mutObjs, stateObjs...)
	rtys = append(rtys, stateTys...)
	for i := 0; i < sig.Results().Len(); i++ {
		r := sig.Results().At(i)
		if r.Name() != "" {
			fail(fd.decl, "named results")
		}
		rty := r.Type()
		if _, isI := rty.Underlying().(*types.Interface); isI && !isErrorType(rty) && !isReaderType(rty) {
			// an interface-typed result: represented by the concrete value stored in it
			rty = t.concreteResult(i)
		}
		lt := leanType(fd.decl, rty)
		t.resTys = append(t.resTys, lt)
		t.resGo = append(t.resGo, rty)
		rtys = append(rtys, lt)
	}
	t.retType = "Unit"
	if len(rtys) > 0 {
		t.retType = strings.Join(rtys, " × ")
	}
	body := t.block(fd.decl.Body.List, ctx{fall: func() string {
		if len(t.resTys) > 0 {
			fail(fd.decl, "control reaches the end of a function with results")
		}
		return t.ret(nil) + "\n"
	}})
	var b strings.Builder
	for _, l := range t.loops {
		b.WriteString(l)
		b.WriteString("\n")
	}
	pos := fset.Position(fd.decl.Pos())
	fmt.Fprintf(&b, "/-- %s:%d -/\n", strings.TrimPrefix(pos.Filename, repoRoot+"/"), pos.Line)
	fmt.Fprintf(&b, "def %s %s : %s :=\n%s", fd.leanName, strings.Join(params, " "), t.retType, indent(body))
	fd.out = b.String()
	for d := range t.deps {
		fd.deps = append(fd.deps, d)
	}
	sort.Strings(fd.deps)
}

var repoRoot string

// concreteResult: the concrete type that every `return` of the function stores in its i-th (interface-typed)
// result; `nil` is allowed besides (it becomes the zero value of that type)
func (t *fnTrans) concreteResult(i int) types.Type {
	var found types.Type
	ast.Inspect(t.fd.decl.Body, func(n ast.Node) bool {
		switch x := n.(type) {
		case *ast.FuncLit:
			return false
		case *ast.ReturnStmt:
			if i >= len(x.Results) {
				fail(x, "return of a multi-valued call in a function with an interface-typed result")
			}
			r := x.Results[i]
			if t.isNil(r) {
				return true
			}
			rt := t.typeOf(r)
			if _, isI := rt.Underlying().(*types.Interface); isI {
				fail(r, "an interface value is passed on as a result")
			}
			if found != nil && !types.Identical(found, rt) {
				fail(r, "the interface-typed result holds values of different types (%s, %s)", found, rt)
			}
			found = rt
		}
		return true
	})
	if found == nil {
		fail(t.fd.decl, "interface-typed result that is always nil")
	}
	return found
}

// ambientCalls: how many calls of nullary opaque functions (values of the environment: the clock) fd can
// reach, syntactically; a call inside a loop or closure counts twice
func ambientCalls(fd *fnDecl, seen map[*fnDecl]bool) int {
	if fd.opaque || fd.decl == nil || seen[fd] {
		return 0
	}
	seen[fd] = true
	defer delete(seen, fd)
	total := 0
	var walk func(n ast.Node, w int)
	walk = func(n ast.Node, w int) {
		ast.Inspect(n, func(m ast.Node) bool {
			if m == nil || m == n {
				return true
			}
			switch x := m.(type) {
			case *ast.ForStmt, *ast.RangeStmt, *ast.FuncLit:
				walk(m, 2)
				return false
			case *ast.CallExpr:
				tt := &fnTrans{fd: fd, pi: fd.pi}
				if cd, _ := tt.callee(x); cd != nil {
					if cd.opaque {
						sg := cd.obj.Type().(*types.Signature)
						if sg.Recv() == nil && sg.Params().Len() == 0 {
							total += w
						}
					} else {
						total += w * ambientCalls(cd, seen)
					}
				}
			}
			return true
		})
	}
	walk(fd.decl.Body, 1)
	return total
}

// addHelperTargets: a function of a loaded package that a target calls and that is not listed itself (a helper
// that was extracted, an unexported method) becomes a target too, so that extracting or inlining a helper does
// not by itself make a function untranslatable. Repeats until nothing is added.
func addHelperTargets() {
	for changed := true; changed; {
		changed = false
		for _, fd := range append([]*fnDecl{}, targets...) {
			if fd.opaque || fd.decl == nil {
				continue
			}
			ast.Inspect(fd.decl.Body, func(n ast.Node) bool {
				c, ok := n.(*ast.CallExpr)
				if !ok {
					return true
				}
				var fo *types.Func
				switch f := c.Fun.(type) {
				case *ast.Ident:
					fo, _ = fd.pi.info.Uses[f].(*types.Func)
				case *ast.SelectorExpr:
					if sel, ok := fd.pi.info.Selections[f]; ok && sel.Kind() == types.MethodVal {
						fo, _ = sel.Obj().(*types.Func)
					} else {
						fo, _ = fd.pi.info.Uses[f.Sel].(*types.Func)
					}
				}
				if addFuncTarget(fo) {
					changed = true
				}
				return true
			})
			// the methods of a concrete type whose values the function stores in a library-interface slot (iface.go)
			for _, fo := range boxedMethods(fd.pi.info, fd.decl.Body) {
				if addFuncTarget(fo) {
					changed = true
				}
			}
		}
	}
}

// addFuncTarget: the function fo of a loaded package becomes a target (false: it is one already, or it has no
// declaration with a body in a loaded package)
func addFuncTarget(fo *types.Func) bool {
	if fo == nil || fo.Pkg() == nil || byObj[fo.FullName()] != nil {
		return false
	}
	pi := byTypes[fo.Pkg().Path()]
	if pi == nil {
		return false
	}
	added := false
	// find the declaration by name and receiver in that package
	for _, file := range pi.files {
		for _, d := range file.Decls {
			fdcl, ok := d.(*ast.FuncDecl)
			if !ok || fdcl.Body == nil || fdcl.Name.Name != fo.Name() {
				continue
			}
			obj, ok := pi.info.Defs[fdcl.Name].(*types.Func)
			if !ok || obj.FullName() != fo.FullName() {
				continue
			}
			rn := ""
			if fdcl.Recv != nil {
				switch rt := fdcl.Recv.List[0].Type.(type) {
				case *ast.StarExpr:
					if id, ok := rt.X.(*ast.Ident); ok {
						rn = id.Name
					}
				case *ast.Ident:
					rn = rt.Name
				}
			}
			nm := pi.short + "."
			if rn != "" {
				nm += rn + "."
			}
			nm += fdcl.Name.Name
			nfd := &fnDecl{key: fnKey{pi.dir, rn, fdcl.Name.Name}, pi: pi, decl: fdcl, obj: obj, leanName: nm}
			targets = append(targets, nfd)
			byObj[obj.FullName()] = nfd
			added = true
		}
	}
	return added
}

// extStructs: one `<pkg>.Ext` structure per package with opaque targets (functions that are not translated:
// cryptography, parsers); a field per function, typed from its Go signature
func extStructs() string {
	var pk []string
	for p := range extFields {
		pk = append(pk, p)
	}
	for p := range extIntrinsics {
		if _, ok := extFields[p]; !ok {
			pk = append(pk, p)
		}
	}
	for p := range extNested {
		_, ok1 := extFields[p]
		_, ok2 := extIntrinsics[p]
		if !ok1 && !ok2 {
			pk = append(pk, p)
		}
	}
	// packages in the order of their first opaque function in targets.json
	rank := func(fd *fnDecl) int {
		for i, o := range targets {
			if o == fd {
				return i
			}
		}
		return len(targets)
	}
	for _, p := range pk {
		fs := extFields[p]
		sort.SliceStable(fs, func(i, j int) bool { return rank(fs[i]) < rank(fs[j]) })
	}
	sort.Slice(pk, func(i, j int) bool {
		// two packages can share their first opaque function (util.ParseUtf16Var for efivar and device): break
		// the tie by name, or the order follows the map iteration and Gen.lean differs from run to run
		first := func(p string) int {
			if len(extFields[p]) == 0 {
				return len(targets) // only intrinsics of the standard library (fnarg.go)
			}
			return rank(extFields[p][0])
		}
		if ri, rj := first(pk[i]), first(pk[j]); ri != rj {
			return ri < rj
		}
		return pk[i] < pk[j]
	})
	// a structure that is a field of another one comes first
	for moved := true; moved; {
		moved = false
		pos := map[string]int{}
		for i, p := range pk {
			pos[p] = i
		}
	outer:
		for i, p := range pk {
			for _, q := range extNested[p] {
				if j, ok := pos[q]; ok && j > i {
					np := append([]string{}, pk[:i]...)
					np = append(np, q)
					for k := i; k < len(pk); k++ {
						if k != j {
							np = append(np, pk[k])
						}
					}
					pk = np
					moved = true
					break outer
				}
			}
		}
	}
	var b strings.Builder
	for _, p := range pk {
		if nm := extStructName(p); nm != p+".Ext" {
			fmt.Fprintf(&b, "/-- functions that the translated code of package %s calls and that are not translated (external\n    behaviour, a parameter of the translated code) -/\nstructure %s where\n", p, nm)
		} else {
			fmt.Fprintf(&b, "/-- functions of package %s that are not translated (external behaviour, a parameter of the translated code) -/\nstructure %s.Ext where\n", p, p)
		}
		for _, q := range extNested[p] {
			// the Ext structure of another package, for the translated functions of that package that are called
			fmt.Fprintf(&b, "  %s : %s\n", q, extStructName(q))
		}
		for _, fd := range extFields[p] {
			sig := fd.obj.Type().(*types.Signature)
			var tys []string
			if sig.Recv() != nil {
				tys = append(tys, leanType(fd.decl, sig.Recv().Type()))
			}
			var sigmas []string
			for i := 0; i < sig.Params().Len(); i++ {
				if fs, ok := sig.Params().At(i).Type().Underlying().(*types.Signature); ok {
					// a function-typed parameter: state type, step function, state (fnarg.go)
					bs, sigma := fnParamType(fd.decl, fs, len(sigmas))
					tys = append(tys, bs...)
					sigmas = append(sigmas, sigma)
					continue
				}
				tys = append(tys, leanType(fd.decl, sig.Params().At(i).Type()))
			}
			var rs []string
			// arguments that the function changes (a *cryptobyte.String, a reader) come back first
			for _, i := range fd.mutParams {
				rs = append(rs, leanType(fd.decl, sig.Params().At(i).Type()))
			}
			// then the states that the closures it was handed are left in
			rs = append(rs, sigmas...)
			for i := 0; i < sig.Results().Len(); i++ {
				rs = append(rs, leanType(fd.decl, sig.Results().At(i).Type()))
			}
			res := "Unit"
			if len(rs) > 0 {
				res = strings.Join(rs, " × ")
			}
			fmt.Fprintf(&b, "  %s : %s\n", fd.extField(p), strings.Join(append(tys, res), " → "))
		}
		for _, in := range extIntrinsics[p] {
			fmt.Fprintf(&b, "  %s : %s\n", in, intrinsicTypes[in])
		}
		b.WriteString("\n")
	}
	return b.String()
}

func main() {
	repo := flag.String("repo", "/repo", "repository root")
	tfile := flag.String("targets", "targets.json", "list of functions to translate")
	out := flag.String("lean", "Gen.lean", "output file")
	jout := flag.String("json", "", "summary (JSON)")
	flag.Parse()
	repoRoot = *repo
	var tl []Target
	data, err := os.ReadFile(*tfile)
	if err != nil {
		fmt.Fprintln(os.Stderr, err)
		os.Exit(2)
	}
	if err := json.Unmarshal(data, &tl); err != nil {
		fmt.Fprintln(os.Stderr, err)
		os.Exit(2)
	}
	os.Chdir(*repo)
	build.Default.Dir = *repo
	imp := importer.ForCompiler(fset, "source", nil)
	gImp = imp
	type miss struct{ Target, Reason string }
	var skipped []miss
	for _, tg := range tl {
		pi := loadPkg(*repo, tg.Pkg, imp)
		var found *ast.FuncDecl
		for _, f := range pi.files {
			for _, d := range f.Decls {
				fdcl, ok := d.(*ast.FuncDecl)
				if !ok || fdcl.Name.Name != tg.Func || fdcl.Body == nil {
					continue
				}
				rn := ""
				if fdcl.Recv != nil {
					switch rt := fdcl.Recv.List[0].Type.(type) {
					case *ast.StarExpr:
						rn = rt.X.(*ast.Ident).Name
					case *ast.Ident:
						rn = rt.Name
					}
				}
				if rn == tg.Recv {
					found = fdcl
				}
			}
		}
		nm := pi.short + "."
		if tg.Recv != "" {
			nm += tg.Recv + "."
		}
		nm += tg.Func
		if found == nil {
			skipped = append(skipped, miss{nm, "function not found in the source"})
			continue
		}
		obj := pi.info.Defs[found.Name].(*types.Func)
		fd := &fnDecl{key: fnKey{tg.Pkg, tg.Recv, tg.Func}, pi: pi, decl: found, obj: obj, leanName: nm, opaque: tg.Opaque}
		targets = append(targets, fd)
		byObj[obj.FullName()] = fd
	}
	addHelperTargets()
	computeMutating()
	computeMutParams()
	computeUsesFuel()
	computeUsesExt()
	computeUsesX()
	for _, fd := range targets {
		if fd.opaque {
			continue
		}
		translate(fd)
		if fd.err != "" {
			skipped = append(skipped, miss{fd.leanName, fd.err})
		}
	}
	// a function whose dependency failed is dropped too
	for changed := true; changed; {
		changed = false
		for _, fd := range targets {
			if fd.out == "" {
				continue
			}
			for _, d := range fd.deps {
				for _, o := range targets {
					if o.leanName == d && o.out == "" {
						fd.out = ""
						skipped = append(skipped, miss{fd.leanName, "depends on " + d})
						changed = true
					}
				}
			}
		}
	}
	// order: dependencies first
	var order []*fnDecl
	done := map[string]bool{}
	var visit func(fd *fnDecl)
	visit = func(fd *fnDecl) {
		if done[fd.leanName] || fd.out == "" {
			return
		}
		done[fd.leanName] = true
		for _, d := range fd.deps {
			for _, o := range targets {
				if o.leanName == d {
					visit(o)
				}
			}
		}
		order = append(order, fd)
	}
	for _, fd := range targets {
		visit(fd)
	}
	extSrc := extStructs() // before the structures are written: a type met only here is declared too
	var b strings.Builder
	b.WriteString("/- GENERATED by tools/go2lean from the go-uefi working tree on every run. Do not edit. -/\nimport GoUefi.GenPrelude\nset_option linter.unusedVariables false\nnamespace GoUefi.Gen\n\n")
	for _, n := range structOrd {
		b.WriteString(structs[n])
		b.WriteString("\n")
	}
	for _, n := range globalOrd {
		b.WriteString(globals[n])
		b.WriteString("\n")
	}
	b.WriteString(extSrc)
	for _, n := range decoderOrd {
		b.WriteString(decoders[n])
		b.WriteString("\n")
	}
	for _, fd := range order {
		b.WriteString(fd.out)
		b.WriteString("\n")
	}
	b.WriteString("/-- targets that could not be translated: (name, reason) -/\ndef skipped : List (String × String) := [")
	for i, s := range skipped {
		if i > 0 {
			b.WriteString(", ")
		}
		fmt.Fprintf(&b, "(%q, %q)", s.Target, s.Reason)
	}
	b.WriteString("]\n\nend GoUefi.Gen\n")
	if err := os.WriteFile(*out, []byte(b.String()), 0o644); err != nil {
		fmt.Fprintln(os.Stderr, err)
		os.Exit(2)
	}
	if *jout != "" {
		var names []string
		for _, fd := range order {
			names = append(names, fd.leanName)
		}
		j, _ := json.MarshalIndent(map[string]interface{}{"translated": names, "skipped": skipped}, "", " ")
		os.WriteFile(*jout, j, 0o644)
	}
	for _, s := range skipped {
		fmt.Fprintf(os.Stderr, "skipped %s: %s\n", s.Target, s.Reason)
	}
}
