// fnarg.go: what `authenticode.PECOFFBinary.Verify` needs since it hashes the image once per call (library commit
// "PECOFFBinary.Verify hashes the image once per call"): a local closure that memoises in a local map and is handed to
// an external function.
//
//   - A LOCAL `map[K]V` (K, V translatable; never a struct field, where the type stays `Opaque`): the association list
//     `List (K × V)` with at most one entry per key. Translated are ONLY: the empty literal `map[K]V{}` / `make(map[K]V)`
//     bound to a local variable, `m[k]` (`(m.lookup k).getD zero`), `v, ok := m[k]`, `m[k] = v` (the prelude's `mapSet`:
//     the entry for k is replaced). Every other use of the variable — handed to a function, assigned to another
//     variable, ranged over (Go's order is random), `len`, `delete` — is REJECTED ("used as a value"): a map is a
//     reference in Go, the list is a value, and only for a variable that nothing else can reach are the two the same.
//     A closure that assigns `m[k]` of a captured map returns the new list like every captured variable it assigns.
//   - `hash.Hash` made by `alg.New()` (alg a crypto.Hash) and bound to a local variable: the prelude's `HashObj`, the
//     algorithm and the bytes written so far. `io.Copy(h, r)` appends everything r delivers (a reader that does not fail;
//     `hash.Hash.Write` never returns an error: documented in package hash) and answers `(n, nil)`; `h.Write(b)` likewise;
//     `h.Sum(b)` is `b ++ X.crypto_Hash_Sum h.alg h.written`, where `crypto_Hash_Sum : UInt64 → List UInt8 → List UInt8` (crypto.Hash is UInt64)
//     is a field of the calling package's Ext structure (the digest function of the standard library: external, a function of
//     the algorithm and the bytes). NOT modelled: `alg.New()` panics for an algorithm that is not linked into the binary.
//     Every other use of the variable is rejected (a reference, as above).
//   - A FUNCTION-TYPED PARAMETER of an opaque function, `func(a1 … an) (r1 … rm)`. The argument must be the name of a local
//     closure. A closure may assign variables that it captures (the memo map), so it is not a function of its arguments:
//     it is a STATE MACHINE over the tuple σ of the captured variables that it assigns, and that is what the external is
//     handed: the type σ, the step function `σ → a1 → … → an → σ × r1 × … × rm` (the closure's helper definition applied to
//     its read-only captures) and the current state. The external returns the state it leaves in front of its results
//     (after the new values of its reader parameters). With no assigned captures σ is `Unit`. The external is an ARBITRARY
//     function of these (for every σ): nothing says that it reaches the state only through the step function — a theorem
//     that needs that has to assume it of the external (none does at present: `(*Authenticode).verifyDigest`, the one
//     function that is handed a closure, is translated, see below), it is never an assumption of the translation. What
//     the translation does assume: the callee calls the closure only while it runs (one that keeps the
//     closure and calls it later, or from another goroutine, changes the captured variables behind the translated code's
//     back: aliasing, not modelled). The field has the type `… → (σ : Type) → (σ → … → σ × …) → σ → σ × results`, so an Ext structure with
//     such a field lives in `Type 1`.
//   - A function-typed parameter of a TRANSLATED function (`verifyDigest(cert, imageDigest func(crypto.Hash) ([]byte, error))`):
//     the same three binders `(σk : Type) (f : σk → a1 → … → σk × r1 × …) (f_s : σk)`, the state comes back in front of the
//     results; a call `f(x)` is `f f_s x` and rebinds `f_s`. Here "reaches the state only by calling" is what Gen.lean shows.
//     Only calls of the parameter are translated (handed on, stored, compared: rejected; a call inside a loop or a closure:
//     rejected). The argument is the name of a local closure or — at the top level of the function body — a function
//     literal, which becomes a closure named after the parameter.
//   - `crypto.Hash.Size()` is the prelude's table `cryptoHashSize` (the panic for an unregistered identifier: not modelled),
//     `asn1.ObjectIdentifier.Equal` equality of the lists; pkix.AlgorithmIdentifier is loaded as a struct (sect.go) where a
//     translated function reads it (authenticode.Authenticode.Algid).
//   - A function that needs the Ext structures of two packages takes its own package's, which holds the other one as a
//     field (`pkcs7 : pkcs7.Ext` in `authenticode.Ext`; main.go computeUsesX).
//     A call of such an external counts as an assignment of the closure's assigned captures (loops thread them, the
//     branches of an `if` join them). A closure name anywhere else than in a call of it or as such an argument is rejected.
//   - A closure that calls an external function takes the Ext structure (`X`) after the fuel.
package main

import (
	"fmt"
	"go/ast"
	"go/types"
	"strings"
)

func isHashObj(t types.Type) bool { return t != nil && namedIs(t, "hash", "Hash") }

func isCryptoHash(t types.Type) bool { return t != nil && namedIs(t, "crypto", "Hash") }

func isMapType(t types.Type) bool {
	if t == nil {
		return false
	}
	_, ok := t.Underlying().(*types.Map)
	return ok
}

// isRefLocal: a local variable (or parameter) whose Go value is a reference that the translation represents by a value:
// a map or a hash.Hash. Such a variable may only be used through the operations listed at the top of this file.
func isRefLocal(o types.Object) bool {
	v, ok := o.(*types.Var)
	if !ok || v.Pkg() == nil || v.Parent() == v.Pkg().Scope() || v.IsField() {
		return false
	}
	return isMapType(v.Type()) || isHashObj(v.Type())
}

// refVar: e is the name of a local map / hash.Hash variable; returns the object and the Lean expression of its value
func (t *fnTrans) refVar(e ast.Expr) (types.Object, string, bool) {
	for {
		p, ok := e.(*ast.ParenExpr)
		if !ok {
			break
		}
		e = p.X
	}
	id, ok := e.(*ast.Ident)
	if !ok {
		return nil, "", false
	}
	o := t.pi.info.Uses[id]
	if o == nil || !isRefLocal(o) {
		return nil, "", false
	}
	return o, t.varRead(o), true
}

// emptyMap: `map[K]V{}` / `make(map[K]V)` / `make(map[K]V, n)`
func (t *fnTrans) emptyMap(e ast.Expr) (string, bool) {
	switch x := e.(type) {
	case *ast.CompositeLit:
		if mt, ok := t.typeOf(x).Underlying().(*types.Map); ok {
			if len(x.Elts) != 0 {
				fail(e, "map literal with entries (only the empty map is translated)")
			}
			return fmt.Sprintf("([] : %s)", leanType(e, mt)), true
		}
	case *ast.CallExpr:
		if qualName(x, t.pi.info) == "builtin.make" && len(x.Args) >= 1 {
			if mt, ok := t.typeOf(x.Args[0]).Underlying().(*types.Map); ok {
				return fmt.Sprintf("([] : %s)", leanType(e, mt)), true
			}
		}
	}
	return "", false
}

// mapLookup: `m[k]` on a local map
func (t *fnTrans) mapLookup(x *ast.IndexExpr) (string, bool) {
	mt, ok := t.typeOf(x.X).Underlying().(*types.Map)
	if !ok {
		return "", false
	}
	return fmt.Sprintf("(((%s).lookup %s).getD %s)", t.mapExpr(x.X), t.expr(x.Index), t.zero(x, mt.Elem())), true
}

// hashCall: the calls on a crypto.Hash / hash.Hash value that are expressions: `alg.New()`, `h.Sum(b)`
func (t *fnTrans) hashCall(c *ast.CallExpr) (string, bool) {
	se, ok := c.Fun.(*ast.SelectorExpr)
	if !ok {
		return "", false
	}
	sel, ok := t.pi.info.Selections[se]
	if !ok || sel.Kind() != types.MethodVal {
		return "", false
	}
	switch {
	case isCryptoHash(sel.Recv()) && se.Sel.Name == "Size" && len(c.Args) == 0:
		// the table of package crypto (prelude); the panic for an unregistered identifier is not modelled
		return fmt.Sprintf("(cryptoHashSize %s)", t.expr(se.X)), true
	case namedIs(sel.Recv(), "encoding/asn1", "ObjectIdentifier") && se.Sel.Name == "Equal" && len(c.Args) == 1:
		// same length and the same components: equality of the lists
		return fmt.Sprintf("(%s == %s)", t.expr(se.X), t.expr(c.Args[0])), true
	case isCryptoHash(sel.Recv()) && se.Sel.Name == "New" && len(c.Args) == 0:
		return fmt.Sprintf("(⟨%s, []⟩ : HashObj)", t.expr(se.X)), true
	case isHashObj(sel.Recv()) && se.Sel.Name == "Sum" && len(c.Args) == 1:
		_, h, ok := t.refVar(se.X)
		if !ok {
			fail(c, "Sum on a hash.Hash that is not a local variable")
		}
		t.useIntrinsic(c, "crypto_Hash_Sum")
		d := fmt.Sprintf("X.crypto_Hash_Sum %s.alg %s.written", h, h)
		if t.isNil(c.Args[0]) {
			return "(" + d + ")", true
		}
		return fmt.Sprintf("(%s ++ %s)", t.expr(c.Args[0]), d), true
	case isHashObj(sel.Recv()):
		if se.Sel.Name == "Write" {
			return "", false // a statement (effectCall)
		}
		fail(c, "method %s of a hash.Hash (translated: Write, Sum, io.Copy into it)", se.Sel.Name)
	}
	return "", false
}

// hashEffect: `io.Copy(h, r)` and `h.Write(b)` on a local hash.Hash variable
func (t *fnTrans) hashEffect(c *ast.CallExpr) (string, []string, bool) {
	if qualName(c, t.pi.info) == "io.Copy" && len(c.Args) == 2 {
		ho, h, ok := t.refVar(c.Args[0])
		if !ok || !isHashObj(ho.Type()) {
			fail(c, "io.Copy into something that is not a local hash.Hash variable")
		}
		src := c.Args[1]
		tmp := t.fresh("r")
		var b strings.Builder
		fmt.Fprintf(&b, "let %s := %s\n", tmp, t.asReader(src))
		b.WriteString(t.assignObj(c, ho, fmt.Sprintf("{ %s with written := %s.written ++ %s }", h, h, tmp)))
		if slv, isLV := t.readerLV(src); isLV {
			b.WriteString(t.assign(c, slv, "([] : List UInt8)")) // read to the end
		} else if _, isCall := src.(*ast.CallExpr); !isCall {
			fail(src, "io.Copy from a reader that is neither a variable nor made for this call")
		}
		return b.String(), []string{fmt.Sprintf("(lenI %s)", tmp), "(none : GoErr)"}, true
	}
	if se, ok := c.Fun.(*ast.SelectorExpr); ok && se.Sel.Name == "Write" && len(c.Args) == 1 {
		if ho, h, ok := t.refVar(se.X); ok && isHashObj(ho.Type()) {
			a := t.expr(c.Args[0])
			return t.assignObj(c, ho, fmt.Sprintf("{ %s with written := %s.written ++ %s }", h, h, a)), []string{fmt.Sprintf("(lenI %s)", a), "(none : GoErr)"}, true
		}
	}
	return "", nil, false
}

// ---- intrinsics of the standard library that are fields of the calling package's Ext structure ----------------

var extIntrinsics = map[string][]string{} // Ext home package -> intrinsic field names

var intrinsicTypes = map[string]string{
	"crypto_Hash_Sum": "UInt64 → (List UInt8) → (List UInt8)",
}

func addIntrinsic(home, name string) {
	for _, o := range extIntrinsics[home] {
		if o == name {
			return
		}
	}
	extIntrinsics[home] = append(extIntrinsics[home], name)
}

func (t *fnTrans) useIntrinsic(n ast.Node, name string) {
	home := t.fd.pi.short
	if t.fd.usesX != "" && t.fd.usesX != home {
		fail(n, "external functions of two Ext structures (%s, %s) in one function", t.fd.usesX, home)
	}
	t.fd.usesX = home
	addIntrinsic(home, name)
}

// intrinsicCall: does c need a field of the Ext structure although it is not a call of an opaque target?
func intrinsicCall(info *types.Info, c *ast.CallExpr) string {
	se, ok := c.Fun.(*ast.SelectorExpr)
	if !ok {
		return ""
	}
	if sel, ok := info.Selections[se]; ok && sel.Kind() == types.MethodVal && isHashObj(sel.Recv()) && se.Sel.Name == "Sum" {
		return "crypto_Hash_Sum"
	}
	return ""
}

// ---- function-typed parameters of opaque functions ----------------------------------------------------------

// fnParamIdx: the indices of the parameters of sig that have a function type
func fnParamIdx(sig *types.Signature) []int {
	var out []int
	for i := 0; i < sig.Params().Len(); i++ {
		if _, ok := sig.Params().At(i).Type().Underlying().(*types.Signature); ok {
			out = append(out, i)
		}
	}
	return out
}

// fnParamType: the three Lean binders for a function-typed parameter of an opaque function (state type, step
// function, state) and the name of the state type
func fnParamType(n ast.Node, sig *types.Signature, k int) (binders []string, sigma string) {
	if sig.Variadic() {
		fail(n, "variadic function-typed parameter")
	}
	sigma = fmt.Sprintf("σ%d", k)
	tys := []string{sigma}
	for i := 0; i < sig.Params().Len(); i++ {
		tys = append(tys, leanType(n, sig.Params().At(i).Type()))
	}
	rs := []string{sigma}
	for i := 0; i < sig.Results().Len(); i++ {
		rs = append(rs, leanType(n, sig.Results().At(i).Type()))
	}
	step := "(" + strings.Join(tys, " → ") + " → " + strings.Join(rs, " × ") + ")"
	return []string{fmt.Sprintf("(%s : Type)", sigma), step, sigma}, sigma
}

// closureArg: the argument `e` of an opaque function's function-typed parameter: the name of a local closure.
// Returns the three Lean arguments (state type, step function, state) and the closure.
func (t *fnTrans) closureArg(e ast.Expr) ([]string, *closureInfo) {
	if fl, isLit := e.(*ast.FuncLit); isLit {
		// a function literal written as the argument: a closure that is defined here and named after the parameter.
		// Only at the top level of the function body (the analyses that join the captured variables over the branches of
		// an `if` / thread them through a loop look for closure NAMES)
		if !t.topLevelArg[fl] {
			fail(e, "a function literal handed to a function inside a loop, a branch or a closure")
		}
		sid := &ast.Ident{Name: t.fresh(t.litName[fl]), NamePos: fl.Pos()}
		sv := types.NewVar(fl.Pos(), t.pi.pkg, sid.Name, t.typeOf(fl))
		t.pi.info.Defs[sid] = sv
		t.pi.info.Uses[sid] = sv
		t.defineClosure(sid, fl)
		e = sid
	}
	id, ok := e.(*ast.Ident)
	if !ok {
		fail(e, "a function value that is not the name of a local closure is handed to an external function")
	}
	ci, ok := t.closures[t.pi.info.Uses[id]]
	if !ok {
		fail(e, "a function value that is not the name of a local closure is handed to an external function")
	}
	head := []string{ci.leanName}
	if ci.usesFuel {
		head = append(head, "fuel")
	}
	if t.fd.usesExt {
		head = append(head, "E")
	}
	if ci.usesX {
		head = append(head, "X")
	}
	for _, v := range ci.caps {
		head = append(head, t.varRead(v))
	}
	sig := t.pi.info.Types[ci.lit].Type.(*types.Signature)
	var args []string
	for i := 0; i < sig.Params().Len(); i++ {
		args = append(args, fmt.Sprintf("a%d", i))
	}
	al := strings.Join(args, " ")
	if al != "" {
		al = " " + al
	}
	nres := sig.Results().Len()
	switch len(ci.muts) {
	case 0:
		if nres == 0 {
			return []string{"Unit", fmt.Sprintf("(fun (_ : Unit)%s => ())", al), "()"}, ci
		}
		return []string{"Unit", fmt.Sprintf("(fun (_ : Unit)%s => ((), %s%s))", al, strings.Join(head, " "), al), "()"}, ci
	case 1:
		// the helper takes the assigned capture right after the read-only ones and returns it first: it IS the step function
		return []string{leanType(e, ci.muts[0].Type()), "(" + strings.Join(head, " ") + ")", t.varRead(ci.muts[0])}, ci
	}
	var tys, projs, cur []string
	for k, v := range ci.muts {
		tys = append(tys, leanType(e, v.Type()))
		projs = append(projs, tupleProj("s", k, len(ci.muts)))
		cur = append(cur, t.varRead(v))
	}
	// the helper returns the assigned captures and the results as ONE right-nested tuple: the captures are regrouped
	// into the state
	n := len(ci.muts)
	var st []string
	for k := range ci.muts {
		st = append(st, tupleProj("r", k, n+nres))
	}
	out := "(" + strings.Join(st, ", ") + ")"
	if nres > 0 {
		out = "(" + out + ", r" + strings.Repeat(".2", n) + ")"
	}
	return []string{"(" + strings.Join(tys, " × ") + ")",
		fmt.Sprintf("(fun s%s => let r := %s %s%s; %s)", al, strings.Join(head, " "), strings.Join(projs, " "), al, out),
		"(" + strings.Join(cur, ", ") + ")"}, ci
}

// opaqueFnCall: a call of an opaque function that has function-typed parameters (and possibly reader parameters)
func (t *fnTrans) opaqueFnCall(c *ast.CallExpr, fd *fnDecl, recv ast.Expr) (string, []string, bool) {
	var parts []string
	if fd.opaque {
		t.useOpaque(c, fd)
		parts = []string{"X." + fd.extField(t.fd.pi.short)}
	} else {
		// a TRANSLATED function with function-typed parameters: the same convention (state type, step function, state;
		// the states come back after the new values of the reader parameters)
		if fd.mutating {
			fail(c, "call of %s: a method that writes through its receiver and has a function-typed parameter", fd.leanName)
		}
		t.deps[fd.leanName] = true
		parts = []string{fd.leanName}
		if fd.usesFuel {
			parts = append(parts, "fuel")
		}
		if fd.usesExt {
			t.fd.usesExt = true
			parts = append(parts, "E")
		}
		if fd.usesX != "" {
			parts = append(parts, t.xArg(c, fd.usesX))
		}
	}
	if recv != nil {
		parts = append(parts, t.expr(recv))
	}
	isFn := map[int]bool{}
	for _, i := range fd.fnParams {
		isFn[i] = true
	}
	var cis []*closureInfo
	for i := range c.Args {
		if isFn[i] {
			as, ci := t.closureArg(c.Args[i])
			parts = append(parts, as...)
			cis = append(cis, ci)
			continue
		}
		parts = append(parts, t.argExpr(c, i))
	}
	tmp := t.fresh("r")
	var b strings.Builder
	fmt.Fprintf(&b, "let %s := %s\n", tmp, strings.Join(parts, " "))
	nres := fd.obj.Type().(*types.Signature).Results().Len()
	total := nres + len(fd.mutParams) + len(fd.fnParams)
	for k, i := range fd.mutParams {
		if t.droppedReaderArg(c.Args[i]) {
			continue
		}
		b.WriteString(t.assign(c.Args[i], c.Args[i], tupleProj(tmp, k, total)))
	}
	for k, ci := range cis {
		st := tupleProj(tmp, len(fd.mutParams)+k, total)
		switch len(ci.muts) {
		case 0:
		case 1:
			b.WriteString(t.assignObj(c, ci.muts[0], st))
		default:
			for j, v := range ci.muts {
				b.WriteString(t.assignObj(c, v, tupleProj("("+st+")", j, len(ci.muts))))
			}
		}
	}
	var vals []string
	for i := 0; i < nres; i++ {
		vals = append(vals, tupleProj(tmp, len(fd.mutParams)+len(fd.fnParams)+i, total))
	}
	return b.String(), vals, true
}

// ---- function-typed parameters of TRANSLATED functions ------------------------------------------------------
//
// `func (a *Authenticode) verifyDigest(cert, imageDigest func(crypto.Hash) ([]byte, error))` is translated with the same
// three binders that an opaque function gets: `(σ0 : Type) (imageDigest : σ0 → crypto.Hash → σ0 × List UInt8 × GoErr)
// (imageDigest_s : σ0)`, and returns the state it leaves in front of its results. A CALL `imageDigest(alg)` is
// `let r := imageDigest imageDigest_s alg`, rebinds `imageDigest_s := r.1` and has the results `r.2…`: the function can
// reach the state ONLY BY CALLING the parameter — here that is a property of the translated code, visible in Gen.lean,
// not a hypothesis. The parameter used in any other way (handed on, stored, compared with nil) is rejected; so is a call of
// it inside a loop (the state has no Lean type that the loop helper could name other than σk: not needed so far).

// fnParamState: the parameter object of a function-typed parameter of the function being translated -> the synthetic
// variable that holds the state of the closure behind it
var fnParamState = map[types.Object]*types.Var{}

// fnParamSigma: state variable -> the name of its type (σk)
var fnParamSigma = map[types.Object]string{}

func (t *fnTrans) fnParamCall(c *ast.CallExpr) (string, []string, bool) {
	id, ok := c.Fun.(*ast.Ident)
	if !ok {
		return "", nil, false
	}
	po := t.pi.info.Uses[id]
	sv, ok := fnParamState[po]
	if !ok {
		return "", nil, false
	}
	if t.closureMode {
		fail(c, "call of a function-typed parameter inside a closure")
	}
	sig := po.Type().Underlying().(*types.Signature)
	parts := []string{t.name(po), t.varRead(sv)}
	for _, a := range c.Args {
		parts = append(parts, t.expr(a))
	}
	tmp := t.fresh("r")
	var b strings.Builder
	fmt.Fprintf(&b, "let %s := %s\n", tmp, strings.Join(parts, " "))
	total := 1 + sig.Results().Len()
	b.WriteString(t.assignObj(c, sv, tupleProj(tmp, 0, total)))
	var vals []string
	for i := 0; i < sig.Results().Len(); i++ {
		vals = append(vals, tupleProj(tmp, 1+i, total))
	}
	return b.String(), vals, true
}

// closureTouches: the captured variables that the closures named in n — called there, or handed to an external
// function there — assign (into) and use (used, may be nil)
func (t *fnTrans) closureTouches(n ast.Node, into, used map[types.Object]bool) {
	if n == nil {
		return
	}
	mark := func(ci *closureInfo) {
		for _, v := range ci.muts {
			into[v] = true
			if used != nil {
				used[v] = true
			}
		}
		if used != nil {
			for _, v := range ci.caps {
				used[v] = true
			}
		}
	}
	ast.Inspect(n, func(m ast.Node) bool {
		ce, ok := m.(*ast.CallExpr)
		if !ok {
			return true
		}
		if id, ok := ce.Fun.(*ast.Ident); ok {
			if ci, ok := t.closures[t.pi.info.Uses[id]]; ok {
				mark(ci)
			}
		}
		for _, a := range ce.Args {
			if id, ok := a.(*ast.Ident); ok {
				if ci, ok := t.closures[t.pi.info.Uses[id]]; ok {
					mark(ci)
				}
			}
		}
		return true
	})
}

// bodyUsesX: does the closure body n call something that needs the package's Ext structure?
func bodyUsesX(t *fnTrans, n ast.Node) bool {
	uses := false
	ast.Inspect(n, func(m ast.Node) bool {
		if c, ok := m.(*ast.CallExpr); ok {
			if fd, _ := t.callee(c); fd != nil && (fd.opaque || fd.usesX != "") {
				uses = true
			}
			if intrinsicCall(t.pi.info, c) != "" {
				uses = true
			}
		}
		return true
	})
	return uses
}
