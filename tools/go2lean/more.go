// more.go: three-clause `for` loops (bounded trip counts), index expressions with evident bounds,
// binary.ByteOrder.UintN, Read / io.ReadFull into a buffer, fmt.Sprintf with a constant format.
package main

import (
	"fmt"
	"go/ast"
	"go/constant"
	"go/token"
	"go/types"
	"strings"
	"unicode/utf8"
)

// ---- evidently bounded three-clause loops --------------------------------------------------------

// boundedFor describes `for i := a; i < B; i++` (or `<=`, `i += c` with a constant c > 0) whose trip count is
// bounded by B - a: i is an int, neither i nor any variable of B is assigned in the body, B contains no call
// other than len(·).
type boundedFor struct {
	idx     types.Object
	bound   ast.Expr
	incl    bool         // `<=`
	lenOf   types.Object // B is exactly len(xs) for the plain variable xs, the condition is `<` and a ≥ 0 is a constant
	initVal ast.Expr
}

func constInt(info *types.Info, e ast.Expr) (int64, bool) {
	tv, ok := info.Types[e]
	if !ok || tv.Value == nil || tv.Value.Kind() != constant.Int {
		return 0, false
	}
	return constant.Int64Val(tv.Value)
}

func isBoundedFor(info *types.Info, x *ast.ForStmt) *boundedFor {
	if x.Init == nil || x.Cond == nil || x.Post == nil {
		return nil
	}
	as, ok := x.Init.(*ast.AssignStmt)
	if !ok || as.Tok != token.DEFINE || len(as.Lhs) != 1 || len(as.Rhs) != 1 {
		return nil
	}
	id, ok := as.Lhs[0].(*ast.Ident)
	if !ok {
		return nil
	}
	idx := info.Defs[id]
	if idx == nil {
		return nil
	}
	if b, ok := idx.Type().Underlying().(*types.Basic); !ok || b.Kind() != types.Int {
		return nil
	}
	cond, ok := x.Cond.(*ast.BinaryExpr)
	if !ok || (cond.Op != token.LSS && cond.Op != token.LEQ) {
		return nil
	}
	if ci, ok := cond.X.(*ast.Ident); !ok || info.Uses[ci] != idx {
		return nil
	}
	switch p := x.Post.(type) {
	case *ast.IncDecStmt:
		if pi, ok := p.X.(*ast.Ident); !ok || info.Uses[pi] != idx || p.Tok != token.INC {
			return nil
		}
	case *ast.AssignStmt:
		if p.Tok != token.ADD_ASSIGN || len(p.Lhs) != 1 {
			return nil
		}
		if pi, ok := p.Lhs[0].(*ast.Ident); !ok || info.Uses[pi] != idx {
			return nil
		}
		if c, ok := constInt(info, p.Rhs[0]); !ok || c <= 0 {
			return nil
		}
	default:
		return nil
	}
	assigned := map[types.Object]bool{}
	assignedVars(info, x.Body, assigned)
	if assigned[idx] {
		return nil
	}
	// a call of a local closure may assign anything the closure captured: not evidently bounded
	callsClosure := false
	ast.Inspect(x.Body, func(m ast.Node) bool {
		if ce, ok := m.(*ast.CallExpr); ok {
			if fi, ok := ce.Fun.(*ast.Ident); ok {
				if _, isVar := info.Uses[fi].(*types.Var); isVar {
					callsClosure = true
				}
			}
		}
		return !callsClosure
	})
	if callsClosure {
		return nil
	}
	// the bound: identifiers, field selections, constants, len(·), + and -; nothing in it is assigned in the body
	okBound := true
	var lenOf types.Object
	var walk func(e ast.Expr)
	walk = func(e ast.Expr) {
		if _, isConst := constInt(info, e); isConst {
			return
		}
		switch b := e.(type) {
		case *ast.Ident:
			o := info.Uses[b]
			if _, isVar := o.(*types.Var); !isVar || assigned[o] {
				okBound = false
			}
		case *ast.SelectorExpr:
			if sel, ok := info.Selections[b]; !ok || sel.Kind() != types.FieldVal {
				okBound = false
				return
			}
			if o := rootVar(info, b); o == nil || assigned[o] {
				okBound = false
			}
		case *ast.ParenExpr:
			walk(b.X)
		case *ast.StarExpr:
			walk(b.X)
		case *ast.BinaryExpr:
			if b.Op != token.ADD && b.Op != token.SUB {
				okBound = false
				return
			}
			walk(b.X)
			walk(b.Y)
		case *ast.CallExpr:
			if qualName(b, info) != "builtin.len" {
				okBound = false
				return
			}
			if isReaderType(info.Types[b.Args[0]].Type) {
				okBound = false
				return
			}
			walk(b.Args[0])
		default:
			okBound = false
		}
	}
	walk(cond.Y)
	if !okBound {
		return nil
	}
	if tb, ok := info.Types[cond.Y].Type.Underlying().(*types.Basic); !ok || (tb.Kind() != types.Int && tb.Kind() != types.UntypedInt) {
		return nil
	}
	if ce, ok := cond.Y.(*ast.CallExpr); ok && cond.Op == token.LSS && qualName(ce, info) == "builtin.len" {
		if ai, ok := ce.Args[0].(*ast.Ident); ok {
			if a, ok := constInt(info, as.Rhs[0]); ok && a >= 0 {
				lenOf = info.Uses[ai]
			}
		}
	}
	return &boundedFor{idx: idx, bound: cond.Y, incl: cond.Op == token.LEQ, lenOf: lenOf, initVal: as.Rhs[0]}
}

// ---- evident lengths --------------------------------------------------------------------------------

// evidentLen: the length of the slice/array value of e when it is evident from the source (see the header of
// main.go); the translation of an index expression relies on it instead of a silent default.
func (t *fnTrans) evidentLen(e ast.Expr) (int64, bool) {
	switch x := e.(type) {
	case *ast.ParenExpr:
		return t.evidentLen(x.X)
	case *ast.StarExpr:
		return t.evidentLen(x.X)
	case *ast.UnaryExpr:
		if x.Op == token.AND {
			return t.evidentLen(x.X)
		}
	case *ast.CompositeLit:
		return litLen(t.pi.info, x)
	case *ast.SliceExpr:
		if x.Slice3 {
			return 0, false
		}
		n, ok := t.evidentLen(x.X)
		if !ok {
			return 0, false
		}
		lo, hi := int64(0), n
		if x.Low != nil {
			if lo, ok = constInt(t.pi.info, x.Low); !ok {
				return 0, false
			}
		}
		if x.High != nil {
			if hi, ok = constInt(t.pi.info, x.High); !ok {
				return 0, false
			}
		}
		if 0 <= lo && lo <= hi && hi <= n {
			return hi - lo, true
		}
		return 0, false
	}
	if tv, ok := t.pi.info.Types[e]; ok {
		ty := tv.Type
		if p, ok := ty.(*types.Pointer); ok {
			ty = p.Elem()
		}
		if a, ok := ty.Underlying().(*types.Array); ok {
			return a.Len(), true
		}
	}
	if id, ok := e.(*ast.Ident); ok {
		if a, ok := t.alias[t.pi.info.Uses[id]]; ok {
			return t.evidentLen(a)
		}
		if v, ok := t.pi.info.Uses[id].(*types.Var); ok {
			return t.varLen(v)
		}
	}
	return 0, false
}

func litLen(info *types.Info, x *ast.CompositeLit) (int64, bool) {
	tv, ok := info.Types[x]
	if !ok {
		return 0, false
	}
	switch u := tv.Type.Underlying().(type) {
	case *types.Array:
		return u.Len(), true
	case *types.Slice:
		for _, el := range x.Elts {
			if _, kv := el.(*ast.KeyValueExpr); kv {
				return 0, false
			}
		}
		return int64(len(x.Elts)), true
	}
	return 0, false
}

// rhsLen: the evident length of a right-hand side that does not mention variables' lengths
func rhsLen(info *types.Info, e ast.Expr) (int64, bool) {
	switch x := e.(type) {
	case *ast.ParenExpr:
		return rhsLen(info, x.X)
	case *ast.CompositeLit:
		return litLen(info, x)
	case *ast.CallExpr:
		if qualName(x, info) == "builtin.make" && len(x.Args) >= 2 {
			if _, ok := info.Types[x.Args[0]].Type.Underlying().(*types.Slice); ok {
				if n, ok := constInt(info, x.Args[1]); ok && n >= 0 {
					return n, true
				}
			}
		}
	}
	return 0, false
}

// varLen: a local slice variable has the evident length n when EVERY statement of the function that can give it
// a value gives it one of length n (flow-insensitive, so loops and branches need no care): `v := make([]T, n)`,
// `v = []T{…}`. Read / io.ReadFull / binary.Read with v as the destination fill it in place. Any other
// assignment, a range clause that defines v, `var v []T` (nil) next to another length, taking part in a
// multi-valued assignment, or being a parameter makes the length not evident.
func (t *fnTrans) varLen(v *types.Var) (int64, bool) {
	if t.fd == nil || t.fd.decl == nil || t.fd.decl.Body == nil {
		return 0, false
	}
	if _, isSlice := v.Type().Underlying().(*types.Slice); !isSlice {
		return 0, false
	}
	info := t.pi.info
	found := false
	bad := false
	defined := false // a defining occurrence (`:=` / `var`) was seen: v is not a parameter or a named result
	var n int64
	see := func(m int64, ok bool) {
		if !ok || (found && m != n) {
			bad = true
			return
		}
		found, n = true, m
	}
	isV := func(e ast.Expr) bool {
		id, ok := e.(*ast.Ident)
		if !ok {
			return false
		}
		return info.Defs[id] == v || info.Uses[id] == v
	}
	ast.Inspect(t.fd.decl.Body, func(m ast.Node) bool {
		switch s := m.(type) {
		case *ast.AssignStmt:
			for i, l := range s.Lhs {
				if !isV(l) {
					continue
				}
				if (s.Tok != token.DEFINE && s.Tok != token.ASSIGN) || len(s.Lhs) != len(s.Rhs) {
					bad = true
					continue
				}
				if id, ok := l.(*ast.Ident); ok && info.Defs[id] == v {
					defined = true
				}
				see(rhsLen(info, s.Rhs[i]))
			}
		case *ast.ValueSpec:
			for i, id := range s.Names {
				if info.Defs[id] != v {
					continue
				}
				defined = true
				if i < len(s.Values) && len(s.Values) == len(s.Names) {
					see(rhsLen(info, s.Values[i]))
				} else if len(s.Values) == 0 {
					see(0, true) // nil slice
				} else {
					bad = true
				}
			}
		case *ast.RangeStmt:
			if (s.Key != nil && isV(s.Key)) || (s.Value != nil && isV(s.Value)) {
				bad = true
			}
		case *ast.UnaryExpr:
			// &v handed to something else than the in-place fillers: the slice header may be replaced
			if s.Op == token.AND && isV(s.X) {
				bad = true
			}
		}
		return true
	})
	if bad || !found || !defined {
		return 0, false
	}
	return n, true
}

func (t *fnTrans) indexExpr(x *ast.IndexExpr) string {
	if s, ok := t.mapLookup(x); ok {
		return s
	}
	xt := t.typeOf(x.X)
	var elem types.Type
	switch u := under(xt).(type) {
	case *types.Slice:
		elem = u.Elem()
	case *types.Array:
		elem = u.Elem()
	default:
		fail(x, "index expression on %s", xt)
	}
	if k, ok := constInt(t.pi.info, x.Index); ok {
		n, evident := t.evidentLen(x.X)
		if !evident {
			fail(x, "index expression: the length of the indexed value is not evident (Go panics when the index is out of range; no silent default)")
		}
		if k < 0 || k >= n {
			fail(x, "index %d out of the evident range [0,%d)", k, n)
		}
		return fmt.Sprintf("(List.getD %s %d %s)", t.expr(x.X), k, t.zero(x, elem))
	}
	if id, ok := x.Index.(*ast.Ident); ok {
		io := t.pi.info.Uses[id]
		if ci, ok := x.X.(*ast.Ident); ok {
			for _, bf := range t.bounded {
				if bf.idx == io && bf.lenOf != nil && bf.lenOf == t.pi.info.Uses[ci] {
					return fmt.Sprintf("(List.getD %s (%s).toNat %s)", t.expr(x.X), t.expr(x.Index), t.zero(x, elem))
				}
			}
		}
	}
	fail(x, "index expression whose index is not evidently in range (Go panics when it is not; no silent default)")
	return ""
}

// ---- binary.ByteOrder.UintN -------------------------------------------------------------------------

// byteOrderCall: binary.LittleEndian.Uint16(x) and friends on a byte slice of evident length ≥ the size
func (t *fnTrans) byteOrderCall(c *ast.CallExpr) (string, bool) {
	se, ok := c.Fun.(*ast.SelectorExpr)
	if !ok || len(c.Args) != 1 {
		return "", false
	}
	inner, ok := se.X.(*ast.SelectorExpr)
	if !ok {
		return "", false
	}
	pid, ok := inner.X.(*ast.Ident)
	if !ok {
		return "", false
	}
	pn, ok := t.pi.info.Uses[pid].(*types.PkgName)
	if !ok || pn.Imported().Path() != "encoding/binary" {
		return "", false
	}
	order := ""
	switch inner.Sel.Name {
	case "LittleEndian":
		order = "LE"
	case "BigEndian":
		order = "BE"
	default:
		return "", false
	}
	size := 0
	switch se.Sel.Name {
	case "Uint16":
		size = 2
	case "Uint32":
		size = 4
	case "Uint64":
		size = 8
	default:
		fail(c, "binary.%s.%s", inner.Sel.Name, se.Sel.Name)
	}
	n, evident := t.evidentLen(c.Args[0])
	if !evident || n < int64(size) {
		fail(c, "binary.%s.%s on a slice whose length is not evidently ≥ %d (Go panics on a shorter one; no silent default)", inner.Sel.Name, se.Sel.Name, size)
	}
	return fmt.Sprintf("(dec%s%d %s)", order, size*8, t.expr(c.Args[0])), true
}

// ---- Read / io.ReadFull -----------------------------------------------------------------------------

// readKind: which prelude function models `x.Read(buf)` for the static type of x
func readKind(n ast.Node, ty types.Type) string {
	if p, ok := ty.(*types.Pointer); ok {
		ty = p.Elem()
	}
	nt, ok := ty.(*types.Named)
	if !ok || nt.Obj().Pkg() == nil {
		fail(n, "Read on %s", ty)
	}
	switch nt.Obj().Pkg().Path() + "." + nt.Obj().Name() {
	case "bytes.Buffer":
		return "bufRead"
	case "bytes.Reader":
		return "rdrRead"
	case "io.Reader":
		fail(n, "Read on a plain io.Reader: a short read is possible, so the translation (which delivers everything that is there) would not be faithful; use io.ReadFull or a *bytes.Buffer / *bytes.Reader")
	}
	if isReaderType(nt) {
		if _, isStruct := nt.Underlying().(*types.Struct); isStruct {
			// a type defined as bytes.Buffer has no methods of its own; reached only through a conversion
			return "bufRead"
		}
	}
	fail(n, "Read on %s", ty)
	return ""
}

// fillCall: `x.Read(buf)` / `io.ReadFull(r, buf)`: buf is overwritten in place, the reader advances
func (t *fnTrans) fillCall(c *ast.CallExpr, fn string, rd, buf ast.Expr) (string, []string, bool) {
	ro, ok := t.readerVar(rd)
	if !ok {
		fail(c, "%s from something that is not a reader variable", fn)
	}
	bt, ok := t.typeOf(buf).Underlying().(*types.Slice)
	if !ok {
		fail(c, "%s into something that is not a byte slice", fn)
	}
	if eb, ok := bt.Elem().Underlying().(*types.Basic); !ok || eb.Kind() != types.Uint8 {
		fail(c, "%s into a slice of %s", fn, bt.Elem())
	}
	if _, isSlice := buf.(*ast.SliceExpr); isSlice {
		fail(c, "%s into a slice expression (the part of the underlying array that is overwritten is not tracked)", fn)
	}
	r := t.fresh("r")
	var b strings.Builder
	fmt.Fprintf(&b, "let %s := %s %s %s\n", r, fn, t.expr(buf), t.varRead(ro))
	if bc, isCall := buf.(*ast.CallExpr); isCall && qualName(bc, t.pi.info) == "builtin.make" {
		// `r.Read(make([]byte, n))`: the bytes are read and thrown away
	} else {
		b.WriteString(t.assign(c, buf, r+".1"))
	}
	b.WriteString(t.assignObj(c, ro, r+".2.1"))
	return b.String(), []string{r + ".2.2.1", r + ".2.2.2"}, true
}

// ---- fmt.Sprintf ------------------------------------------------------------------------------------

func hasFmtMethod(ty types.Type) bool {
	for _, tt := range []types.Type{ty, types.NewPointer(ty)} {
		ms := types.NewMethodSet(tt)
		for _, name := range []string{"String", "Error", "Format", "GoString"} {
			for i := 0; i < ms.Len(); i++ {
				if ms.At(i).Obj().Name() == name {
					return true
				}
			}
		}
	}
	return false
}

func (t *fnTrans) sprintf(c *ast.CallExpr) string {
	tv, ok := t.pi.info.Types[c.Args[0]]
	if !ok || tv.Value == nil || tv.Value.Kind() != constant.String {
		fail(c, "fmt.Sprintf with a format that is not a constant")
	}
	if c.Ellipsis.IsValid() {
		fail(c, "fmt.Sprintf with a spread argument list")
	}
	format := constant.StringVal(tv.Value)
	args := c.Args[1:]
	var parts []string
	var lit []byte
	flush := func() {
		if len(lit) > 0 {
			parts = append(parts, leanStrLit(c, string(lit)))
			lit = nil
		}
	}
	ai := 0
	for i := 0; i < len(format); i++ {
		ch := format[i]
		if ch != '%' {
			lit = append(lit, ch)
			continue
		}
		i++
		if i >= len(format) {
			fail(c, "fmt.Sprintf: format ends in %%")
		}
		if format[i] == '%' {
			lit = append(lit, '%')
			continue
		}
		zero := false
		width := 0
		hasWidth := false
		if format[i] == '0' {
			zero = true
			i++
		}
		for i < len(format) && format[i] >= '0' && format[i] <= '9' {
			width = width*10 + int(format[i]-'0')
			hasWidth = true
			i++
		}
		if i >= len(format) {
			fail(c, "fmt.Sprintf: truncated verb")
		}
		verb := format[i]
		if ai >= len(args) {
			fail(c, "fmt.Sprintf: more verbs than arguments")
		}
		arg := args[ai]
		ai++
		aty := t.typeOf(arg)
		if hasFmtMethod(aty) {
			fail(c, "fmt.Sprintf: argument of type %s has a String/Error/Format method", aty)
		}
		ab, isBasic := aty.Underlying().(*types.Basic)
		if !isBasic {
			fail(c, "fmt.Sprintf: argument of type %s", aty)
		}
		isInt := ab.Info()&types.IsInteger != 0
		isUnsigned := ab.Info()&types.IsUnsigned != 0
		isStr := ab.Info()&types.IsString != 0
		if (zero || hasWidth) && verb != 'x' && verb != 'X' {
			fail(c, "fmt.Sprintf: width/flag with %%%c", verb)
		}
		if hasWidth && !zero {
			fail(c, "fmt.Sprintf: space-padded width")
		}
		a := t.expr(arg)
		// the value as a Nat (unsigned types) or an Int
		asNat := func() string {
			return fmt.Sprintf("(%s).toNat", a)
		}
		asInt := func() string {
			switch ab.Kind() {
			case types.Int, types.Int64, types.UntypedInt:
				return a
			case types.Int8, types.Int16, types.Int32:
				return fmt.Sprintf("(%s).toInt", a)
			}
			return fmt.Sprintf("((%s).toNat : Int)", a)
		}
		flush()
		switch {
		case (verb == 's' || verb == 'v') && isStr:
			parts = append(parts, a)
		case (verb == 'd' || verb == 'v') && isInt:
			parts = append(parts, fmt.Sprintf("fmtDec %s", asInt()))
		case (verb == 'x' || verb == 'X') && isInt:
			up := "false"
			if verb == 'X' {
				up = "true"
			}
			if isUnsigned {
				parts = append(parts, fmt.Sprintf("fmtHex %s %d %s", up, width, asNat()))
			} else {
				parts = append(parts, fmt.Sprintf("fmtHexI %s %d %s", up, width, asInt()))
			}
		default:
			fail(c, "fmt.Sprintf: verb %%%c on %s", verb, aty)
		}
	}
	flush()
	if ai != len(args) {
		fail(c, "fmt.Sprintf: more arguments than verbs")
	}
	if len(parts) == 0 {
		return "\"\""
	}
	if len(parts) == 1 {
		if strings.HasPrefix(parts[0], "fmt") {
			return "(" + parts[0] + ")"
		}
		return parts[0]
	}
	return "(" + strings.Join(parts, " ++ ") + ")"
}

// leanStrLit: a Lean string literal for the (valid UTF-8) Go string s
func leanStrLit(n ast.Node, s string) string {
	if !utf8.ValidString(s) {
		fail(n, "string literal that is not valid UTF-8")
	}
	var b strings.Builder
	b.WriteByte('"')
	for _, r := range s {
		switch {
		case r == '"' || r == '\\':
			b.WriteByte('\\')
			b.WriteRune(r)
		case r == '\n':
			b.WriteString("\\n")
		case r == '\t':
			b.WriteString("\\t")
		case r < 0x20 || r == 0x7f:
			fmt.Fprintf(&b, "\\x%02x", r)
		default:
			b.WriteRune(r)
		}
	}
	b.WriteByte('"')
	return b.String()
}
