// readers.go: the part of the translator that models effects on readers (io.Reader, *bytes.Buffer,
// *bytes.Reader as the list of bytes still to be read), unbounded `for` loops (fuel), closures and
// `range []interface{}{&a, &b}` loops (unrolled).
//
// A reader that a function consumes is returned by the translated function as its new value, right after
// the receiver (if that is written through) and before the Go results. The reader intrinsics:
//   binary.Read(r, order, &x)            x of fixed size (integers, byte arrays, structs of those) or a byte slice
//   io.ReadAll(io.LimitReader(r, n))     up to n bytes, never an error
//   r.Len()                              bytes left
// A read delivers what a bytes.Reader delivers (everything that is there); readers that deliver less, or
// fail, are exercised dynamically by the harness, not by this model.
package main

import (
	"fmt"
	"go/ast"
	"go/token"
	"go/types"
	"sort"
	"strings"
)

func isReaderType(t types.Type) bool {
	if p, ok := t.(*types.Pointer); ok {
		t = p.Elem()
	}
	n, ok := t.(*types.Named)
	if !ok || n.Obj().Pkg() == nil {
		return false
	}
	switch n.Obj().Pkg().Path() + "." + n.Obj().Name() {
	case "io.Reader", "io.Writer", "bytes.Buffer", "bytes.Reader":
		return true
	}
	// a type defined as bytes.Buffer (`type efibytes bytes.Buffer`): the same representation
	if _, isStruct := n.Underlying().(*types.Struct); isStruct {
		for _, imp := range n.Obj().Pkg().Imports() {
			if imp.Path() == "bytes" {
				if bo := imp.Scope().Lookup("Buffer"); bo != nil && types.Identical(n.Underlying(), bo.Type().Underlying()) {
					return true
				}
			}
		}
	}
	return false
}

// isCursorPtr: *cryptobyte.String — a parser cursor that the callee advances
func isCursorPtr(t types.Type) bool {
	p, ok := t.(*types.Pointer)
	if !ok {
		return false
	}
	n, ok := p.Elem().(*types.Named)
	return ok && n.Obj().Pkg() != nil && n.Obj().Pkg().Path() == "golang.org/x/crypto/cryptobyte" && n.Obj().Name() == "String"
}

func errName(v *types.Var) string {
	if v.Pkg() != nil {
		if _, ok := byTypes[v.Pkg().Path()]; !ok {
			return v.Pkg().Name() + "." + v.Name()
		}
	}
	return v.Name()
}

func (fd *fnDecl) effectful() bool { return fd.mutating || len(fd.mutParams) > 0 || len(fd.fnParams) > 0 }

type closureInfo struct {
	lit      *ast.FuncLit
	leanName string
	caps     []types.Object // captured, read only
	muts     []types.Object // captured and assigned / consumed
	resTys   []string
	emitted  bool
	usesFuel bool
	usesX    bool // the body calls an external function: the helper takes the Ext structure (fnarg.go)
}

// ---- analysis -------------------------------------------------------------------------------

// readerUse: does `n` consume the reader variable o (directly through an intrinsic, or by passing it to a
// function that consumes that parameter)?
func consumesReader(info *types.Info, n ast.Node, o types.Object) bool {
	found := false
	ast.Inspect(n, func(m ast.Node) bool {
		c, ok := m.(*ast.CallExpr)
		if !ok || found {
			return !found
		}
		switch qualName(c, info) {
		case "encoding/binary.Read", "encoding/binary.Write", "io.LimitReader", "io.ReadFull", "io.ReadAll":
			if len(c.Args) > 0 && rootVar(info, c.Args[0]) == o {
				found = true
			}
		case "io.Copy":
			// the source is read to the end (fnarg.go: into a hash.Hash)
			if len(c.Args) == 2 && rootVar(info, c.Args[1]) == o {
				found = true
			}
		}
		if se, ok := c.Fun.(*ast.SelectorExpr); ok {
			if rootVar(info, se.X) == o {
				switch se.Sel.Name {
				case "Read", "Next", "ReadByte", "Write", "WriteByte":
					found = true
				case "ReadFrom":
					if isReaderType(typeOfIn(info, se.X)) {
						found = true
					}
				}
			}
		}
		t := &fnTrans{pi: &pkgInfo{info: info}}
		if fd, _ := t.callee(c); fd != nil {
			for _, i := range fd.mutParams {
				if i < len(c.Args) && rootVar(info, c.Args[i]) == o {
					found = true
				}
			}
		}
		return !found
	})
	return found
}

func computeMutParams() {
	for changed := true; changed; {
		changed = false
		for _, fd := range targets {
			if fd.fnParams == nil {
				// a function-typed parameter (of an opaque or of a translated function): the closure's state comes
				// back (fnarg.go)
				fd.fnParams = fnParamIdx(fd.obj.Type().(*types.Signature))
				if len(fd.fnParams) > 0 {
					changed = true
				}
			}
			if fd.opaque {
				// an external function may do anything with a reader / parser cursor that it is handed: every
				// such parameter comes back as a new value
				if fd.mutParams == nil {
					sig := fd.obj.Type().(*types.Signature)
					for i := 0; i < sig.Params().Len(); i++ {
						if pt := sig.Params().At(i).Type(); isReaderType(pt) || isCursorPtr(pt) {
							fd.mutParams = append(fd.mutParams, i)
							changed = true
						}
					}
				}
				continue
			}
			sig := fd.obj.Type().(*types.Signature)
			for i := 0; i < sig.Params().Len(); i++ {
				p := sig.Params().At(i)
				if !isReaderType(p.Type()) {
					continue
				}
				has := false
				for _, j := range fd.mutParams {
					if j == i {
						has = true
					}
				}
				if has {
					continue
				}
				// the parameter object as the body sees it
				var po types.Object
				k := 0
				for _, f := range fd.decl.Type.Params.List {
					for _, nm := range f.Names {
						if k == i {
							po = fd.pi.info.Defs[nm]
						}
						k++
					}
				}
				if po != nil && consumesReader(fd.pi.info, fd.decl.Body, po) {
					fd.mutParams = append(fd.mutParams, i)
					sort.Ints(fd.mutParams)
					changed = true
				}
			}
		}
	}
}

// hasUnboundedLoop: a `for` loop whose trip count is not evidently bounded (it takes its fuel from the function's
// fuel argument)
func hasUnboundedLoop(info *types.Info, n ast.Node) bool {
	found := false
	ast.Inspect(n, func(m ast.Node) bool {
		if f, ok := m.(*ast.ForStmt); ok && isBoundedFor(info, f) == nil {
			found = true
		}
		return !found
	})
	return found
}

func computeUsesFuel() {
	for changed := true; changed; {
		changed = false
		for _, fd := range targets {
			if fd.opaque || fd.usesFuel {
				continue
			}
			uses := hasUnboundedLoop(fd.pi.info, fd.decl.Body)
			ast.Inspect(fd.decl.Body, func(n ast.Node) bool {
				if c, ok := n.(*ast.CallExpr); ok {
					t := &fnTrans{fd: fd, pi: fd.pi}
					if cd, _ := t.callee(c); cd != nil && cd.usesFuel {
						uses = true
					}
				}
				return true
			})
			if uses {
				fd.usesFuel = true
				changed = true
			}
		}
	}
}

// ---- decoders for binary.Read ----------------------------------------------------------------

var decoders = map[string]string{}
var decoderOrd []string

// fixedSize: the encoded size of a fixed-size type (0 = not fixed)
func fixedSize(t types.Type) int {
	switch u := t.Underlying().(type) {
	case *types.Basic:
		switch u.Kind() {
		case types.Uint8, types.Int8, types.Bool:
			return 1
		case types.Uint16, types.Int16:
			return 2
		case types.Uint32, types.Int32:
			return 4
		case types.Uint64, types.Int64:
			return 8
		}
	case *types.Array:
		return int(u.Len()) * fixedSize(u.Elem())
	case *types.Struct:
		n := 0
		for i := 0; i < u.NumFields(); i++ {
			s := fixedSize(u.Field(i).Type())
			if s == 0 {
				return 0
			}
			n += s
		}
		return n
	}
	return 0
}

// decoderFor returns the name of a Lean function `List UInt8 -> T` that decodes exactly fixedSize(T) bytes
func decoderFor(n ast.Node, t types.Type, order string) string {
	switch u := t.Underlying().(type) {
	case *types.Basic:
		switch u.Kind() {
		case types.Uint8:
			return "decU8"
		case types.Uint16:
			return "dec" + order + "16"
		case types.Uint32:
			return "dec" + order + "32"
		case types.Uint64:
			return "dec" + order + "64"
		case types.Int16:
			return "dec" + order + "i16"
		}
	case *types.Array:
		if b, ok := u.Elem().Underlying().(*types.Basic); ok && b.Kind() == types.Uint8 {
			return "decBytes"
		}
	case *types.Struct:
		lt := leanType(n, t)
		nm := "dec" + order + "_" + strings.ReplaceAll(lt, ".", "_")
		if _, ok := decoders[nm]; ok {
			return nm
		}
		decoders[nm] = ""
		var fields []string
		off := 0
		for i := 0; i < u.NumFields(); i++ {
			f := u.Field(i)
			sz := fixedSize(f.Type())
			fields = append(fields, fmt.Sprintf("%s ((b.drop %d).take %d)", decoderFor(n, f.Type(), order), off, sz))
			off += sz
		}
		decoders[nm] = fmt.Sprintf("/-- binary.Read(%s) of a %s: %d bytes -/\ndef %s (b : List UInt8) : %s :=\n  ⟨%s⟩\n", order, lt, off, nm, lt, strings.Join(fields, ",\n   "))
		decoderOrd = append(decoderOrd, nm)
		return nm
	}
	fail(n, "binary.Read into %s", t)
	return ""
}

// encoderFor returns the name of a Lean function `T -> List UInt8` (what binary.Write emits)
func encoderFor(n ast.Node, t types.Type, order string) string {
	switch u := t.Underlying().(type) {
	case *types.Basic:
		switch u.Kind() {
		case types.Uint8:
			return "encU8"
		case types.Uint16:
			return "enc" + order + "16"
		case types.Uint32:
			return "enc" + order + "32"
		case types.Uint64:
			return "enc" + order + "64"
		case types.Int16:
			return "enc" + order + "i16"
		}
	case *types.Array:
		if b, ok := u.Elem().Underlying().(*types.Basic); ok && b.Kind() == types.Uint8 {
			return "decBytes"
		}
	case *types.Slice:
		if b, ok := u.Elem().Underlying().(*types.Basic); ok && b.Kind() == types.Uint8 {
			return "decBytes"
		}
	case *types.Struct:
		lt := leanType(n, t)
		nm := "enc" + order + "_" + strings.ReplaceAll(lt, ".", "_")
		if _, ok := decoders[nm]; ok {
			return nm
		}
		decoders[nm] = ""
		var fields []string
		for i := 0; i < u.NumFields(); i++ {
			f := u.Field(i)
			if fixedSize(f.Type()) == 0 {
				fail(n, "binary.Write of a struct with a field of no fixed size")
			}
			fields = append(fields, fmt.Sprintf("%s v.%s", encoderFor(n, f.Type(), order), lname(f.Name())))
		}
		decoders[nm] = fmt.Sprintf("/-- binary.Write(%s) of a %s -/\ndef %s (v : %s) : List UInt8 :=\n  %s\n", order, lt, nm, lt, strings.Join(fields, " ++\n  "))
		decoderOrd = append(decoderOrd, nm)
		return nm
	}
	fail(n, "binary.Write of %s", t)
	return ""
}

// ---- effectful calls -------------------------------------------------------------------------

func (t *fnTrans) readerVar(e ast.Expr) (types.Object, bool) {
	o := rootVar(t.pi.info, e)
	if o == nil {
		return nil, false
	}
	return o, isReaderType(o.Type()) || leanTypeIs(o.Type(), "(List UInt8)")
}

func (t *fnTrans) resolveAlias(e ast.Expr) ast.Expr {
	if id, ok := e.(*ast.Ident); ok {
		if a, ok := t.alias[t.pi.info.Uses[id]]; ok {
			return a
		}
	}
	return e
}

// effectCall: a call that changes something besides producing its results — a method writing through its
// receiver, a function consuming a reader argument, a reader intrinsic, a closure. Returns the let-lines
// (including the rebinding of what changed) and the Lean expressions of the Go results.
func (t *fnTrans) effectCall(c *ast.CallExpr) (string, []string, bool) {
	info := t.pi.info
	switch qualName(c, info) {
	case "encoding/binary.Read":
		ro, ok := t.readerVar(c.Args[0])
		prefix := ""
		if !ok {
			// a reader made on the spot (bytes.NewReader(x)): bound to a temporary whose rest is dropped
			if ce, isCall := c.Args[0].(*ast.CallExpr); isCall {
				switch qualName(ce, info) {
				case "bytes.NewReader", "bytes.NewBuffer":
					tmpName := t.fresh("rd")
					prefix = fmt.Sprintf("let %s := %s\n", tmpName, t.expr(ce.Args[0]))
					ro = types.NewVar(ce.Pos(), t.pi.pkg, tmpName, types.NewSlice(types.Typ[types.Uint8]))
					t.names[ro] = tmpName
					t.used[tmpName] = true
					ok = true
				}
			}
		}
		if !ok {
			fail(c, "binary.Read from something that is not a reader variable")
		}
		order := "LE"
		if se, ok := c.Args[1].(*ast.SelectorExpr); ok && se.Sel.Name == "BigEndian" {
			order = "BE"
		}
		dst := t.resolveAlias(c.Args[2])
		var lv ast.Expr
		if u, ok := dst.(*ast.UnaryExpr); ok && u.Op == token.AND {
			lv = u.X
		} else {
			lv = dst // a slice: filled in place
		}
		lt := t.typeOf(lv)
		if p, ok := lt.(*types.Pointer); ok {
			lt = p.Elem()
		}
		r := t.fresh("r")
		var b strings.Builder
		rn := t.varRead(ro)
		if sl, ok := lt.Underlying().(*types.Slice); ok {
			if eb, ok := sl.Elem().Underlying().(*types.Basic); !ok || eb.Kind() != types.Uint8 {
				fail(c, "binary.Read into a slice of %s", sl.Elem())
			}
			fmt.Fprintf(&b, "let %s := readBytes (%s).length %s\n", r, t.expr(lv), rn)
			b.WriteString(t.assignObj(c, ro, r+".2.1"))
			b.WriteString(t.assign(c, lv, fmt.Sprintf("(if (%s.2.2).isNone then %s.1 else %s)", r, r, t.expr(lv))))
			return prefix + b.String(), []string{r + ".2.2"}, true
		}
		sz := fixedSize(lt)
		if sz == 0 {
			fail(c, "binary.Read into a value of no fixed size (%s)", lt)
		}
		dec := decoderFor(c, lt, order)
		fmt.Fprintf(&b, "let %s := readBytes %d %s\n", r, sz, rn)
		b.WriteString(t.assignObj(c, ro, r+".2.1"))
		b.WriteString(t.assign(c, lv, fmt.Sprintf("(if (%s.2.2).isNone then %s %s.1 else %s)", r, dec, r, t.expr(lv))))
		return prefix + b.String(), []string{r + ".2.2"}, true
	case "encoding/binary.Write":
		// into an in-memory writer: the bytes are appended, the error is nil
		wo, ok := t.readerVar(c.Args[0])
		if !ok {
			fail(c, "binary.Write to something that is not a writer variable")
		}
		order := "LE"
		if se, ok := c.Args[1].(*ast.SelectorExpr); ok && se.Sel.Name == "BigEndian" {
			order = "BE"
		}
		v := t.resolveAlias(c.Args[2])
		if u, ok := v.(*ast.UnaryExpr); ok && u.Op == token.AND {
			v = u.X
		}
		vt := t.typeOf(v)
		if p, ok := vt.(*types.Pointer); ok {
			vt = p.Elem()
		}
		enc := encoderFor(c, vt, order)
		return t.assignObj(c, wo, fmt.Sprintf("(%s ++ %s %s)", t.varRead(wo), enc, t.expr(v))), []string{"(none : GoErr)"}, true
	case "io.ReadAll":
		// io.ReadAll(io.LimitReader(r, n))
		if lc, ok := c.Args[0].(*ast.CallExpr); ok && qualName(lc, info) == "io.LimitReader" {
			ro, ok := t.readerVar(lc.Args[0])
			if !ok {
				fail(c, "io.LimitReader over something that is not a reader variable")
			}
			r := t.fresh("r")
			var b strings.Builder
			fmt.Fprintf(&b, "let %s := readUpTo (%s).toNat %s\n", r, t.expr(lc.Args[1]), t.varRead(ro))
			b.WriteString(t.assignObj(c, ro, r+".2"))
			return b.String(), []string{r + ".1", "(none : GoErr)"}, true
		}
		fail(c, "io.ReadAll of anything but io.LimitReader(reader, n)")
	}
	if qualName(c, info) == "io.ReadFull" && len(c.Args) == 2 {
		return t.fillCall(c, "readFull", c.Args[0], c.Args[1])
	}
	if pre, vals, ok := t.hashEffect(c); ok {
		return pre, vals, true
	}
	if se, ok := c.Fun.(*ast.SelectorExpr); ok && se.Sel.Name == "Read" && len(c.Args) == 1 {
		if _, isR := t.readerVar(se.X); isR && isReaderType(t.typeOf(se.X)) {
			return t.fillCall(c, readKind(c, t.typeOf(se.X)), se.X, c.Args[0])
		}
	}
	if se, ok := c.Fun.(*ast.SelectorExpr); ok && se.Sel.Name == "Write" && len(c.Args) == 1 {
		if wo, isW := t.readerVar(se.X); isW {
			a := t.expr(c.Args[0])
			return t.assignObj(c, wo, fmt.Sprintf("(%s ++ %s)", t.varRead(wo), a)), []string{fmt.Sprintf("(lenI %s)", a), "(none : GoErr)"}, true
		}
		if lv, isLV := t.readerLV(se.X); isLV && isFieldPath(info, lv) {
			// a buffer that is a field: the field is rebound
			a := t.expr(c.Args[0])
			return t.assign(c, lv, fmt.Sprintf("(%s ++ %s)", t.expr(lv), a)), []string{fmt.Sprintf("(lenI %s)", a), "(none : GoErr)"}, true
		}
	}
	if se, ok := c.Fun.(*ast.SelectorExpr); ok && se.Sel.Name == "ReadFrom" && len(c.Args) == 1 {
		if pre, vals, ok := t.readFromCall(c, se); ok {
			return pre, vals, true
		}
	}
	// log.Fatal*: the process ends. Translated as "nothing further happens" (the statement list ends with the
	// function's zero result); reachability of these sites is C13/C14's static certificate.
	switch qualName(c, info) {
	case "log.Fatal", "log.Fatalf", "log.Fatalln":
		return "", nil, true
	}
	// closure call
	if id, ok := c.Fun.(*ast.Ident); ok {
		if ci, ok := t.closures[info.Uses[id]]; ok {
			return t.closureCall(ci, c)
		}
	}
	if recv, fo, ok := t.ifaceCall(c); ok {
		// a method of an interface value that is handed a buffer/reader: the buffer comes back as a new value
		sig := fo.Type().(*types.Signature)
		_, mut := ifaceMethodType(c, sig)
		if len(mut) == 0 {
			return "", nil, false
		}
		parts := []string{t.expr(recv) + "." + lname(fo.Name()), t.siteIndex(c)}
		for _, a := range c.Args {
			parts = append(parts, t.expr(a))
		}
		tmp := t.fresh("r")
		var b strings.Builder
		fmt.Fprintf(&b, "let %s := %s\n", tmp, strings.Join(parts, " "))
		nres := sig.Results().Len()
		total := nres + len(mut)
		for k, i := range mut {
			b.WriteString(t.assign(c.Args[i], c.Args[i], tupleProj(tmp, k, total)))
		}
		var vals []string
		for i := 0; i < nres; i++ {
			vals = append(vals, tupleProj(tmp, len(mut)+i, total))
		}
		return b.String(), vals, true
	}
	if pre, vals, ok := t.fnParamCall(c); ok {
		return pre, vals, true
	}
	fd, recv := t.callee(c)
	if fd == nil || !fd.effectful() {
		return "", nil, false
	}
	t.checkRecvPath(c)
	if len(fd.fnParams) > 0 {
		return t.opaqueFnCall(c, fd, recv)
	}
	if fd.opaque {
		// an external function that changes an argument (ParseContentInfo advances its *cryptobyte.String)
		t.useOpaque(c, fd)
		parts := []string{"X." + fd.extField(t.fd.pi.short)}
		if recv != nil {
			parts = append(parts, t.expr(recv))
		}
		for i := range c.Args {
			parts = append(parts, t.argExpr(c, i))
		}
		tmp := t.fresh("r")
		var b strings.Builder
		fmt.Fprintf(&b, "let %s := %s\n", tmp, strings.Join(parts, " "))
		nres := fd.obj.Type().(*types.Signature).Results().Len()
		total := nres + len(fd.mutParams)
		for k, i := range fd.mutParams {
			if t.droppedReaderArg(c.Args[i]) {
				continue // bytes.NewBuffer(x) / a reader made for this one call: what is left of it is dropped
			}
			b.WriteString(t.assign(c.Args[i], c.Args[i], tupleProj(tmp, k, total)))
		}
		var vals []string
		for i := 0; i < nres; i++ {
			vals = append(vals, tupleProj(tmp, len(fd.mutParams)+i, total))
		}
		return b.String(), vals, true
	}
	t.deps[fd.leanName] = true
	parts := []string{fd.leanName}
	if fd.usesFuel {
		parts = append(parts, "fuel")
	}
	if fd.usesExt {
		t.fd.usesExt = true
		parts = append(parts, "E")
	}
	if fd.usesX != "" {
		parts = append(parts, t.xArg(c, fd.usesX))
	}
	if recv != nil {
		parts = append(parts, t.expr(recv))
	}
	for i := range c.Args {
		parts = append(parts, t.argExpr(c, i))
	}
	tmp := t.fresh("r")
	var b strings.Builder
	fmt.Fprintf(&b, "let %s := %s\n", tmp, strings.Join(parts, " "))
	nres := fd.obj.Type().(*types.Signature).Results().Len()
	total := nres + len(fd.mutParams)
	k := 0
	if fd.mutating {
		total++
		b.WriteString(t.assign(recv, recv, tupleProj(tmp, 0, total)))
		k = 1
	}
	for _, i := range fd.mutParams {
		if !t.droppedReaderArg(c.Args[i]) {
			b.WriteString(t.assign(c.Args[i], c.Args[i], tupleProj(tmp, k, total)))
		}
		k++
	}
	var vals []string
	for i := 0; i < nres; i++ {
		vals = append(vals, tupleProj(tmp, k+i, total))
	}
	return b.String(), vals, true
}

// isFreshReader: bytes.NewBuffer(x) / bytes.NewReader(x) written as an argument
func isFreshReader(info *types.Info, e ast.Expr) bool {
	ce, ok := e.(*ast.CallExpr)
	if !ok {
		return false
	}
	switch qualName(ce, info) {
	case "bytes.NewBuffer", "bytes.NewReader":
		return true
	}
	return false
}

// assignObj rebinds a local variable given as an object
func (t *fnTrans) assignObj(n ast.Node, o types.Object, val string) string {
	if curAttach != nil && curAttach.active && curAttach.collObj == o {
		curAttach.active = false
	}
	return fmt.Sprintf("let %s := %s\n", t.name(o), val)
}

// ---- closures --------------------------------------------------------------------------------

func (t *fnTrans) defineClosure(id *ast.Ident, fl *ast.FuncLit) {
	o := t.pi.info.Defs[id]
	ci := &closureInfo{lit: fl, leanName: t.fd.leanName + "." + id.Name}
	// captured variables: known outer variables referenced in the body
	seen := map[types.Object]bool{}
	assigned := map[types.Object]bool{}
	assignedVars(t.pi.info, fl.Body, assigned)
	ast.Inspect(fl.Body, func(n ast.Node) bool {
		if x, ok := n.(*ast.Ident); ok {
			if v, ok := t.pi.info.Uses[x].(*types.Var); ok {
				if _, known := t.names[v]; known && !seen[v] {
					seen[v] = true
					if assigned[v] || (isReaderType(v.Type()) && consumesReader(t.pi.info, fl.Body, v)) {
						ci.muts = append(ci.muts, v)
					} else {
						ci.caps = append(ci.caps, v)
					}
				}
			}
		}
		return true
	})
	sort.Slice(ci.caps, func(i, j int) bool { return ci.caps[i].Pos() < ci.caps[j].Pos() })
	sort.Slice(ci.muts, func(i, j int) bool { return ci.muts[i].Pos() < ci.muts[j].Pos() })
	ci.usesFuel = hasUnboundedLoop(t.pi.info, fl.Body)
	if ci.usesFuel && !t.fd.usesFuel {
		fail(fl, "closure with an unbounded loop in a function without fuel")
	}
	t.closures[o] = ci
	// translate the body now, as a helper definition
	sub := &fnTrans{fd: t.fd, pi: t.pi, names: t.names, used: t.used, deps: t.deps, alias: t.alias, keyConst: t.keyConst,
		closures: t.closures, parent: t, nloop: 0, ifaceLits: t.ifaceLits}
	sub.closureName = ci.leanName
	sig := t.pi.info.Types[fl].Type.(*types.Signature)
	var params []string
	if ci.usesFuel {
		params = append(params, "(fuel : Nat)")
	}
	if t.fd.usesExt {
		params = append(params, "(E : Ext)")
	}
	if ci.usesX = bodyUsesX(t, fl.Body); ci.usesX {
		params = append(params, fmt.Sprintf("(X : %s)", extStructName(t.fd.usesX)))
	}
	for _, v := range ci.caps {
		params = append(params, fmt.Sprintf("(%s : %s)", t.name(v), leanType(fl, v.Type())))
	}
	for _, v := range ci.muts {
		params = append(params, fmt.Sprintf("(%s : %s)", t.name(v), leanType(fl, v.Type())))
	}
	for i := 0; i < sig.Params().Len(); i++ {
		p := sig.Params().At(i)
		params = append(params, fmt.Sprintf("(%s : %s)", sub.name(p), leanType(fl, p.Type())))
	}
	var rtys []string
	for _, v := range ci.muts {
		rtys = append(rtys, leanType(fl, v.Type()))
		sub.mutObjs = append(sub.mutObjs, v)
	}
	for i := 0; i < sig.Results().Len(); i++ {
		lt := leanType(fl, sig.Results().At(i).Type())
		sub.resGo = append(sub.resGo, sig.Results().At(i).Type())
		sub.resTys = append(sub.resTys, lt)
		ci.resTys = append(ci.resTys, lt)
		rtys = append(rtys, lt)
	}
	sub.retType = strings.Join(rtys, " × ")
	sub.closureMode = true
	body := sub.block(fl.Body.List, ctx{fall: func() string {
		if len(sub.resTys) > 0 {
			fail(fl, "control reaches the end of a closure with results")
		}
		return sub.ret(nil) + "\n"
	}})
	var b strings.Builder
	for _, l := range sub.loops {
		b.WriteString(l)
		b.WriteString("\n")
	}
	fmt.Fprintf(&b, "/-- closure `%s` of %s -/\ndef %s %s : %s :=\n%s", id.Name, t.fd.leanName, ci.leanName, strings.Join(params, " "), sub.retType, indent(body))
	t.loops = append(t.loops, b.String())
	ci.emitted = true
}

func (t *fnTrans) closureCall(ci *closureInfo, c *ast.CallExpr) (string, []string, bool) {
	parts := []string{ci.leanName}
	if ci.usesFuel {
		parts = append(parts, "fuel")
	}
	if t.fd.usesExt {
		parts = append(parts, "E")
	}
	if ci.usesX {
		parts = append(parts, "X")
	}
	for _, v := range ci.caps {
		parts = append(parts, t.varRead(v))
	}
	for _, v := range ci.muts {
		parts = append(parts, t.varRead(v))
	}
	for _, a := range c.Args {
		parts = append(parts, t.expr(a))
	}
	tmp := t.fresh("r")
	var b strings.Builder
	fmt.Fprintf(&b, "let %s := %s\n", tmp, strings.Join(parts, " "))
	total := len(ci.muts) + len(ci.resTys)
	for k, v := range ci.muts {
		b.WriteString(t.assignObj(c, v, tupleProj(tmp, k, total)))
	}
	var vals []string
	for i := range ci.resTys {
		vals = append(vals, tupleProj(tmp, len(ci.muts)+i, total))
	}
	return b.String(), vals, true
}

// ---- range over a literal list of pointers: unrolled ------------------------------------------

func isUnrollable(t *fnTrans, x *ast.RangeStmt) bool {
	if id, ok := x.X.(*ast.Ident); ok && t.ifaceLits != nil {
		if _, ok := t.ifaceLits[t.pi.info.Uses[id]]; ok {
			return true
		}
	}
	cl, ok := x.X.(*ast.CompositeLit)
	if !ok {
		return false
	}
	return isIfaceSliceLit(t, cl)
}

func isIfaceSliceLit(t *fnTrans, cl *ast.CompositeLit) bool {
	sl, ok := t.typeOf(cl).Underlying().(*types.Slice)
	if !ok {
		return false
	}
	_, isIface := sl.Elem().Underlying().(*types.Interface)
	return isIface
}

// defineIfaceLit: `x := []interface{}{a, b, …}` (values, no pointers) bound to a local variable. The elements are
// evaluated where the literal stands and bound to x_0, x_1, …; the variable itself has no Lean counterpart, it
// may only be ranged over (the loop is unrolled over x_0, x_1, …).
func (t *fnTrans) defineIfaceLit(id *ast.Ident, cl *ast.CompositeLit) string {
	o := t.pi.info.Defs[id]
	if o == nil {
		fail(id, "redefinition of an []interface{} variable")
	}
	var b strings.Builder
	var elems []ast.Expr
	for k, el := range cl.Elts {
		if _, kv := el.(*ast.KeyValueExpr); kv {
			fail(el, "keyed []interface{} literal")
		}
		et := t.typeOf(el)
		if _, isPtr := et.(*types.Pointer); isPtr {
			fail(el, "pointer in an []interface{} literal that is bound to a variable")
		}
		if _, isI := et.Underlying().(*types.Interface); isI {
			fail(el, "interface value in an []interface{} literal")
		}
		v := types.NewVar(el.Pos(), t.pi.pkg, fmt.Sprintf("%s_%d", id.Name, k), et)
		nm := t.name(v)
		sid := &ast.Ident{Name: nm, NamePos: el.Pos()}
		t.pi.info.Uses[sid] = v
		fmt.Fprintf(&b, "let %s : %s := %s\n", nm, leanType(el, et), t.expr(el))
		elems = append(elems, sid)
	}
	t.ifaceLits[o] = elems
	return b.String()
}

func (t *fnTrans) unrolledRange(x *ast.RangeStmt, after []ast.Stmt, c ctx) string {
	var elts []ast.Expr
	if id, ok := x.X.(*ast.Ident); ok {
		elts = t.ifaceLits[t.pi.info.Uses[id]]
	} else {
		elts = x.X.(*ast.CompositeLit).Elts
	}
	var keyObj, valObj types.Object
	if id, ok := x.Key.(*ast.Ident); ok && id.Name != "_" {
		keyObj = t.pi.info.Defs[id]
	}
	if x.Value != nil {
		if id, ok := x.Value.(*ast.Ident); ok && id.Name != "_" {
			valObj = t.pi.info.Defs[id]
		}
	}
	afterCode := func() string { return t.block(after, c) }
	var iter func(k int) string
	iter = func(k int) string {
		if k == len(elts) {
			return afterCode()
		}
		if keyObj != nil {
			t.keyConst[keyObj] = k
		}
		if valObj != nil {
			t.alias[valObj] = elts[k]
		}
		next := func() string { return iter(k + 1) }
		lc := &loopCtx{cont: next, brk: afterCode}
		code := t.block(x.Body.List, ctx{fall: next, loop: lc, helper: c.helper})
		return code
	}
	out := iter(0)
	if keyObj != nil {
		delete(t.keyConst, keyObj)
	}
	if valObj != nil {
		delete(t.alias, valObj)
	}
	return out
}

// ---- `for { … }` and `for cond { … }`: a helper with fuel ---------------------------------------

func (t *fnTrans) forStmt(x *ast.ForStmt, after []ast.Stmt, c ctx) string {
	if c.helper {
		fail(x, "nested loop")
	}
	bf := isBoundedFor(t.pi.info, x)
	if bf == nil && !t.fd.usesFuel {
		fail(x, "unbounded loop in a function without fuel")
	}
	// three-clause loop: the init statement runs once, before the loop (its variable is threaded through the
	// helper like any other variable the body assigns); the post statement runs at the end of every turn and
	// before every `continue`
	initCode := ""
	if x.Init != nil {
		as, ok := x.Init.(*ast.AssignStmt)
		if !ok {
			fail(x, "for-loop init statement that is not an assignment")
		}
		initCode = t.assignStmt(as)
	}
	if x.Post != nil {
		switch x.Post.(type) {
		case *ast.AssignStmt, *ast.IncDecStmt:
		default:
			fail(x, "for-loop post statement that is not an assignment")
		}
	}
	// the name of the fuel variable inside the helper: a bounded loop keeps the function's `fuel` (handed to
	// callees) apart from its own counter
	fuelVar := "fuel"
	fuelArg := "fuel"
	if bf != nil {
		fuelVar = "bfuel"
		slack := 1
		if bf.incl {
			slack = 2
		}
		fuelArg = fmt.Sprintf("((%s - %s).toNat + %d)", t.expr(bf.bound), t.name(bf.idx), slack)
		t.bounded = append(t.bounded, bf)
		defer func() { t.bounded = t.bounded[:len(t.bounded)-1] }()
	}
	t.nloop++
	base := t.fd.leanName
	if t.closureName != "" {
		base = t.closureName
	}
	loopName := fmt.Sprintf("%s.loop%d", base, t.nloop)
	// muts: outer variables assigned or consumed in the body; caps: the other known variables it reads
	mutSet := map[types.Object]bool{}
	assignedVars(t.pi.info, x.Body, mutSet)
	if x.Post != nil {
		assignedVars(t.pi.info, x.Post, mutSet)
	}
	used := map[types.Object]bool{}
	ast.Inspect(x, func(n ast.Node) bool {
		if id, ok := n.(*ast.Ident); ok {
			if o := t.pi.info.Uses[id]; o != nil {
				if _, known := t.names[o]; known {
					used[o] = true
				}
			}
		}
		return true
	})
	// closure calls inside the body (and closures handed to an external function there) touch the closure's captured
	// variables too
	t.closureTouches(x.Body, mutSet, used)
	var muts, caps []types.Object
	for o := range used {
		if mutSet[o] || (isReaderType(o.Type()) && consumesReader(t.pi.info, x.Body, o)) {
			muts = append(muts, o)
		} else {
			caps = append(caps, o)
		}
	}
	sort.Slice(muts, func(i, j int) bool { return muts[i].Pos() < muts[j].Pos() })
	sort.Slice(caps, func(i, j int) bool { return caps[i].Pos() < caps[j].Pos() })
	names := func(os []types.Object) string {
		var vs []string
		for _, o := range os {
			vs = append(vs, t.name(o))
		}
		return strings.Join(vs, " ")
	}
	head := func() []string {
		parts := []string{loopName}
		if t.fd.usesExt {
			parts = append(parts, "E")
		}
		if s := names(caps); s != "" {
			parts = append(parts, s)
		}
		return parts
	}
	recCall0 := func() string {
		parts := append(head(), fuelVar)
		if s := names(muts); s != "" {
			parts = append(parts, s)
		}
		return strings.Join(parts, " ") + "\n"
	}
	recCall := recCall0
	if x.Post != nil {
		recCall = func() string {
			return t.block([]ast.Stmt{x.Post}, ctx{fall: recCall0, helper: true})
		}
	}
	doneVal := func() string {
		var vs []string
		for _, m := range muts {
			vs = append(vs, t.name(m))
		}
		switch len(vs) {
		case 0:
			return "Loop.done ()\n"
		case 1:
			return "Loop.done " + vs[0] + "\n"
		}
		return "Loop.done (" + strings.Join(vs, ", ") + ")\n"
	}
	lc := &loopCtx{cont: recCall, brk: doneVal}
	body := t.block(x.Body.List, ctx{fall: recCall, loop: lc, helper: true})
	if x.Cond != nil {
		body = fmt.Sprintf("if %s then\n%selse\n%s", t.expr(x.Cond), indent(body), indent(doneVal()))
	}
	mutTy := "Unit"
	if len(muts) > 0 {
		var tys []string
		for _, m := range muts {
			tys = append(tys, leanType(x, m.Type()))
		}
		mutTy = strings.Join(tys, " × ")
	}
	var hb strings.Builder
	fmt.Fprintf(&hb, "def %s", loopName)
	if t.fd.usesExt {
		hb.WriteString(" (E : Ext)")
	}
	for _, o := range caps {
		fmt.Fprintf(&hb, " (%s : %s)", t.name(o), leanType(x, o.Type()))
	}
	hb.WriteString(" : Nat →")
	for _, m := range muts {
		fmt.Fprintf(&hb, " %s →", leanType(x, m.Type()))
	}
	fmt.Fprintf(&hb, " Loop (%s) (%s)\n", t.retType, mutTy)
	var mp []string
	for _, m := range muts {
		mp = append(mp, t.name(m))
	}
	pat := func(f string) string { return strings.Join(append([]string{f}, mp...), ", ") }
	// out of fuel: never reached when the caller supplies enough (a theorem per loop); the value returned is
	// the function's zero result with an error that no Go code produces
	fmt.Fprintf(&hb, "  | %s => Loop.ret %s\n", pat("0"), t.fuelResult(x))
	fmt.Fprintf(&hb, "  | %s =>\n%s", pat(fuelVar+" + 1"), indent(indent(body)))
	t.loops = append(t.loops, hb.String())

	var b strings.Builder
	b.WriteString(initCode)
	parts := append(head(), fuelArg)
	if s := names(muts); s != "" {
		parts = append(parts, s)
	}
	m := t.fresh("m")
	fmt.Fprintf(&b, "match %s with\n| Loop.ret r => %s\n| Loop.done %s =>\n", strings.Join(parts, " "), t.retFromLoop(c), m)
	if x.Cond == nil && !hasBreak(x.Body) {
		// `for { … }` without break never completes normally: this branch is unreachable
		b.WriteString(indent(t.wrapRet(t.fuelResult(x), c)))
		return b.String()
	}
	var binds strings.Builder
	for i, mo := range muts {
		fmt.Fprintf(&binds, "let %s := %s\n", t.name(mo), tupleProj(m, i, len(muts)))
	}
	b.WriteString(indent(binds.String() + t.block(after, c)))
	return b.String()
}

func hasBreak(n ast.Node) bool {
	found := false
	ast.Inspect(n, func(m ast.Node) bool {
		switch s := m.(type) {
		case *ast.BranchStmt:
			if s.Tok == token.BREAK {
				found = true
			}
		case *ast.ForStmt, *ast.RangeStmt, *ast.SwitchStmt, *ast.FuncLit:
			return false
		}
		return !found
	})
	return found
}

// retFromLoop: a `return` inside a loop helper, seen from the code that called the helper
func (t *fnTrans) retFromLoop(c ctx) string {
	if c.helper {
		return "Loop.ret r"
	}
	return "r"
}

// fuelResult: what a loop helper returns when it runs out of fuel
func (t *fnTrans) fuelResult(n ast.Node) string {
	var parts []string
	if t.fd.mutating && !t.closureMode {
		parts = append(parts, t.recvExpr())
	}
	for _, o := range t.mutObjs {
		parts = append(parts, t.name(o))
	}
	for _, ty := range t.resTys {
		switch {
		case ty == "GoErr":
			parts = append(parts, "(some \"go2lean:out-of-fuel\" : GoErr)")
		case ty == "Bool":
			parts = append(parts, "false")
		case ty == "String":
			parts = append(parts, "\"\"")
		case strings.HasPrefix(ty, "(List") || strings.HasSuffix(ty, "Database"):
			parts = append(parts, "[]")
		case ty == "Int" || strings.HasPrefix(ty, "UInt"):
			parts = append(parts, "0")
		default:
			parts = append(parts, "default")
		}
	}
	if len(parts) == 1 {
		return parts[0]
	}
	return "(" + strings.Join(parts, ", ") + ")"
}
