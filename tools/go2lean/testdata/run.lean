open GoUefi.Gen
def e (x : GoErr) : String := match x with | none => "nil" | some "io.EOF" => "EOF" | some "io.ErrUnexpectedEOF" => "unexpected EOF" | some s => s
def sp {α} [ToString α] (xs : List α) : String := "[" ++ " ".intercalate (xs.map toString) ++ "]"
#eval IO.println s!"{sample.SumEven [1,2,3,4,10,7]} {sample.SumEven []}"
#eval IO.println s!"{sample.CountSteps 0} {sample.CountSteps 1} {sample.CountSteps 7} {sample.CountSteps 8} {sample.CountSteps (-3)}"
#eval IO.println s!"{sample.Collatz 1000 27} {sample.Collatz 1000 1} {sample.Collatz 1000 0}"
#eval IO.println s!"{(sample.Masks 0xdeadbeef 0x0ff00ff0 0xa7).1} {(sample.Masks 0xdeadbeef 0x0ff00ff0 0xa7).2}"
#eval IO.println s!"{sample.AlignDown 1000003 8} {sample.AlignDown (-5) 4} {sample.AlignDown 7 1} {sample.AlignDown 4611686018427387903 4096}"
#eval let r := sample.Chunks 100 [1,2,3,4,5,6,7,8]; IO.println s!"{sp r.2.1} {sp r.2.2.1} {e r.2.2.2}"
#eval let r := sample.Chunks 100 []; IO.println s!"{sp r.2.1} {sp r.2.2.1} {e r.2.2.2}"
#eval let r := sample.ReadEmpty [] []; IO.println s!"{r.2.2.1} {e r.2.2.2.1} {r.2.2.2.2.1} {e r.2.2.2.2.2}"
#eval let r := sample.ReadEmpty [1] [1]; IO.println s!"{r.2.2.1} {e r.2.2.2.1} {r.2.2.2.2.1} {e r.2.2.2.2.2}"
#eval for inp in [[1,2,3,4,5],[1,2,3,4],[1,2],[]] do
  let r := sample.Full inp; IO.println s!"{r.2.1} {r.2.2.1} {e r.2.2.2}"
#eval let r := sample.Orders [1,2,3,4,5,6,7,0xf8]; IO.println s!"{r.1} {r.2.1} {r.2.2.1} {r.2.2.2.1} {r.2.2.2.2}"
#eval IO.println (sample.Format "Boot" (-42) 0xbeef 0x1234567890 7)
#eval IO.println (sample.Format "é\"x" 255 10 0 255)
/- session 5: `Sink.Take` is an external function (what the Go method computes from what it is handed); `raw` values
   behave alike at every call site, a `once` value delivers its content at the first call that is executed: site 0 of
   `Store` for the names "a" "b" "c", the call inside `Take` otherwise -/
/- session 7: `Ask` is an external function that is handed a closure — the state type, the step function and the
   state — and returns the state it leaves: it folds the step function over the algorithms, as the Go function calls the
   closure.  The digest external answers a digest of the algorithm's length (SHA-1 3: 20, SHA-256 5: 32, SHA-512 7: 64)
   whose bytes are the number of bytes written: the Go side prints lengths only. -/
def askExt (algs : List UInt64) (σ : Type) (step : σ → UInt64 → σ × List UInt8 × GoErr) (s : σ) : σ × Int × GoErr :=
  algs.foldl (fun acc a =>
    if acc.2.2.isSome then acc else
      let r := step acc.1 a
      if r.2.2.isSome then (r.1, acc.2.1, r.2.2) else (r.1, acc.2.1 * 31 + r.2.1.length, none)) (s, 0, none)
def X : sample.Ext :=
  { Sink_Take := fun s name m => s.Base + 1000 * name.length + 10 * ((m.Put 1 []).length + 1) + (m.Raw 1).length,
    Ask := askExt,
    crypto_Hash_Sum := fun alg w => List.replicate (if alg == 3 then 20 else if alg == 5 then 32 else 64) (UInt8.ofNat w.length) }
def raw (p : List UInt8) : sample.Marsh := ⟨fun _ b => b ++ p, fun _ => p⟩
def once (name : String) (p : List UInt8) : sample.Marsh :=
  ⟨fun k b => if k == 0 || !(name == "a" || name == "b" || name == "c") then b ++ p else b, fun _ => [1]⟩
def o : sample.Outer := ⟨⟨5⟩, ""⟩
#eval for name in ["a", "c", "q", "zz", ""] do
  IO.println s!"{sample.Outer.Store X o name (raw [1,2,3])} {sample.Outer.Store X o name (raw [1,2])} {sample.Outer.Store X o name (once name [9,9,9,9])} {sample.Outer.Store X o name (once name [9])}"
#eval IO.println s!"{sample.Outer.StoreBlob X o "b" [1,2,3,4]} {sample.Outer.StoreBlob X o "x" []}"
/- session 6: a buffer field written through (`Add` returns the new receiver), `uint32` of an `int`, `binary.Write` of
   `pe.DataDirectory`, section readers over bytes / copied, `io.MultiReader`, `ReadFrom`, `Read(make(…))` -/
#eval for n in [(7 : Int), -1, 4294967296 + 5] do
  let b : sample.Box := ⟨⟨0, 0⟩, n, [], ⟨[1, 2]⟩, ⟨0⟩⟩
  IO.println s!"{sp (sample.Box.All b)} {sample.Box.Skip b 1}"
  let r := sample.Box.Add b [9, 8, 7]
  let b := r.1
  IO.println s!"{e r.2} {b.Dir.VirtualAddress} {b.Dir.Size} {sp (sample.Box.All b)} {sample.Box.Skip b 1} {sample.Box.Skip b 0} {sample.Box.Skip b 5}"
  let r := sample.Box.Add b [6]
  let b := r.1
  IO.println s!"{e r.2} {b.Dir.VirtualAddress} {b.Dir.Size} {sp (sample.Box.All b)} {sample.Box.DrainCopy b} {sample.Box.DrainCopy b}"
/- session 7: a local map and a counter captured and assigned by a closure that is handed to an external function inside
   a loop and called directly; a closure without state -/
#eval for rounds in [[], [[(5 : UInt64)]], [[5, 5, 3], [], [3, 7, 5]]] do
  let r := sample.Memo X [1, 2, 3] rounds; IO.println s!"{r.1} {r.2.1} {e r.2.2}"
#eval let r := sample.Plain X [4, 5] [3, 5]; IO.println s!"{r.1} {e r.2}"
/- session 8: a function-typed parameter of a translated function (state type, step function, state), handed the
   memoising closure several times; a function literal as the argument -/
#eval let r := sample.Checks X [1, 2, 3]; IO.println s!"{r.1} {r.2}"
#eval for want in [(32 : Int), 20] do
  let r := sample.Lit X [1, 2] want; IO.println s!"{r.1} {r.2.isSome}"
