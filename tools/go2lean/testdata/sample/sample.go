// Package sample exercises the constructs added to go2lean in session 4 (three-clause loops, &^, Read into a
// buffer, ByteOrder.UintN, evident index bounds, fmt.Sprintf). tools/go2lean/selftest.sh translates it, runs the
// translation in Lean and compares with what the Go code prints.
package sample

import (
	"bytes"
	"crypto"
	"debug/pe"
	"encoding/binary"
	"fmt"
	"io"
)

// bounded three-clause loop with an index that is evidently in range, and `continue` (post must run)
func SumEven(xs []byte) int {
	s := 0
	for i := 0; i < len(xs); i++ {
		if xs[i]%2 == 1 {
			continue
		}
		s += int(xs[i])
	}
	return s
}

// step 2, `<=`
func CountSteps(n int) int {
	c := 0
	for i := 1; i <= n; i += 2 {
		c++
	}
	return c
}

// unbounded three-clause loop (the condition is not of the bounded shape): fuel argument
func Collatz(n uint32) int {
	steps := 0
	for k := n; k != 1 && k != 0; steps++ {
		if k%2 == 0 {
			k = k / 2
		} else {
			k = 3*k + 1
		}
	}
	return steps
}

func Masks(a, b uint32, c uint8) (uint32, uint8) {
	x := a &^ b
	c &^= 0x0f
	return x, c
}

func AlignDown(n int, k int) int {
	return n &^ (k - 1)
}

// Read with its results used; bytes.Buffer
func Chunks(b *bytes.Buffer) ([]int, []byte, error) {
	var ns []int
	var last []byte
	buf := make([]byte, 3)
	for {
		n, err := b.Read(buf)
		if err != nil {
			return ns, last, err
		}
		ns = append(ns, n)
		last = append(last, buf[0], buf[2])
	}
}

// bytes.Reader: EOF also for an empty destination
func ReadEmpty(r *bytes.Reader, b *bytes.Buffer) (int, error, int, error) {
	var none []byte
	n1, e1 := r.Read(none)
	n2, e2 := b.Read(none)
	return n1, e1, n2, e2
}

func Full(r io.Reader) (uint32, int, error) {
	hdr := make([]byte, 4)
	n, err := io.ReadFull(r, hdr)
	return binary.LittleEndian.Uint32(hdr), n, err
}

func Orders(a [8]byte) (uint16, uint32, uint64, uint16, uint64) {
	return binary.BigEndian.Uint16(a[2:4]), binary.LittleEndian.Uint32(a[4:]), binary.BigEndian.Uint64(a[:]),
		binary.LittleEndian.Uint16([]byte{a[7], a[0]}), binary.LittleEndian.Uint64(a[:])
}

func Format(name string, n int, u uint16, w uint64, b byte) string {
	return fmt.Sprintf("%s-%d:%x/%X %04x|%08X 100%% %v %v %02x", name, n, u, u, u, w, name, n, b) + fmt.Sprintf("%x,%04x,%X", n, n, -n)
}

// ---- interface values: a concrete value stored in an interface variable, an opaque method behind an embedded field

type Marsh interface {
	Put(b *bytes.Buffer)
	Raw() []byte
}

type blob []byte

func (p blob) Put(b *bytes.Buffer) { b.Write(p) }
func (p blob) Raw() []byte         { return p }

// Put does not touch the buffer it is handed: the interface field hands it back unchanged
type quiet struct{ N byte }

func (q quiet) Put(b *bytes.Buffer) {}
func (q quiet) Raw() []byte         { return []byte{q.N, q.N} }

type Sink struct{ Base int }

// opaque for the translator (targets.json): what it is handed is what the test observes
func (s *Sink) Take(name string, m Marsh) int {
	var b bytes.Buffer
	m.Put(&b)
	b.WriteByte(0xff)
	return s.Base + 1000*len(name) + 10*b.Len() + len(m.Raw())
}

type Outer struct {
	*Sink
	tag string
}

// switch on a string with several constants per case; the interface parameter m reassigned to values of two
// concrete types; `o.Sink.Take`: a method behind an embedded pointer field, as an external function
func (o *Outer) Store(name string, m Marsh) int {
	switch name {
	case "a", "b", "c":
		var b bytes.Buffer
		m.Put(&b)
		if b.Len() > 2 {
			m = blob(append([]byte{}, b.Bytes()...))
		}
	case "q":
		m = quiet{N: 7}
	}
	return o.Sink.Take(name, m)
}

// a concrete value handed to a function whose parameter has the interface type, and a declaration with initialiser
func (o *Outer) StoreBlob(name string, p []byte) int {
	var m Marsh = blob(p)
	return o.Store(name, m) + o.Sink.Take(name, quiet{N: 1})
}

// ---- session 6: a buffer that is a FIELD, section readers, io.MultiReader, ReadFrom, a struct of debug/pe -------

type Box struct {
	Dir  pe.DataDirectory
	n    int
	buf  *bytes.Buffer
	head *io.SectionReader
	src  io.ReaderAt
}

func NewBox(head []byte, n int) *Box {
	return &Box{n: n, buf: bytes.NewBuffer(nil), head: fromBytes(head), src: bytes.NewReader(head)}
}

func fromBytes(b []byte) *io.SectionReader {
	return io.NewSectionReader(bytes.NewReader(b), 0, int64(len(b)))
}

func again(sr *io.SectionReader) *io.SectionReader { return io.NewSectionReader(sr, 0, sr.Size()) }

// writes through a buffer field (so it returns a new receiver), uint32 of an int (wraps), binary.Write of a struct
// of the standard library, a section reader over the bytes written
func (b *Box) Add(x []byte) error {
	b.buf.Write(x)
	if b.Dir.VirtualAddress != 0 {
		b.Dir.Size += uint32(len(x))
	} else {
		b.Dir.VirtualAddress = uint32(b.n)
		b.Dir.Size = uint32(len(x))
	}
	var w bytes.Buffer
	if err := binary.Write(&w, binary.LittleEndian, &b.Dir); err != nil {
		return err
	}
	b.head = fromBytes(w.Bytes())
	return nil
}

// only reads the receiver: no new receiver is returned
func (b *Box) All() []byte {
	var out bytes.Buffer
	out.ReadFrom(io.MultiReader(again(b.head), bytes.NewReader(b.buf.Bytes())))
	return out.Bytes()
}

// a reader over the field's bytes, k bytes read into a buffer made for the call
func (b *Box) Skip(k int) int {
	r := bytes.NewReader(b.buf.Bytes())
	r.Read(make([]byte, k))
	return r.Len()
}

// ---- session 7 (fnarg.go): a local map, a hash.Hash, a memoising closure handed to an external function ---------

// opaque for the translator (targets.json): asks the digest function it is handed for every algorithm of the list,
// in order, and folds the lengths of the answers
func Ask(algs []crypto.Hash, digest func(alg crypto.Hash) ([]byte, error)) (int, error) {
	sum := 0
	for _, a := range algs {
		d, err := digest(a)
		if err != nil {
			return sum, err
		}
		sum = sum*31 + len(d)
	}
	return sum, nil
}

// the closure hashes data at most once per algorithm (a local map) and counts how often it hashes (a second captured
// variable that it assigns): handed to the external once per round — inside a loop, which threads both — and called
// directly at the end
func Memo(data []byte, rounds [][]crypto.Hash) (int, int, error) {
	seen := map[crypto.Hash][]byte{}
	calls := 0
	digest := func(alg crypto.Hash) ([]byte, error) {
		if d, ok := seen[alg]; ok {
			return d, nil
		}
		calls++
		h := alg.New()
		if _, err := io.Copy(h, bytes.NewReader(data)); err != nil {
			return nil, err
		}
		h.Write([]byte{1})
		seen[alg] = h.Sum(nil)
		return seen[alg], nil
	}
	total := 0
	for _, r := range rounds {
		n, err := Ask(r, digest)
		if err != nil {
			return total, calls, err
		}
		total += n
	}
	d, _ := digest(crypto.SHA512)
	return total + len(d), calls, nil
}

// a closure without assigned captures handed to the external: the state is Unit
func Plain(data []byte, algs []crypto.Hash) (int, error) {
	digest := func(alg crypto.Hash) ([]byte, error) {
		h := alg.New()
		h.Write(data)
		return h.Sum([]byte{9}), nil
	}
	return Ask(algs, digest)
}

// ---- session 8 (fnarg.go): a function-typed parameter of a TRANSLATED function, a function literal as the argument ----

// translated: `digest` is the triple state type / step function / state, the state it leaves comes back in front of the
// results; the closure is not called when the size is wrong (crypto.Hash.Size: the prelude's table)
func Check(alg crypto.Hash, want int, digest func(alg crypto.Hash) ([]byte, error)) (bool, error) {
	if alg.Size() != want {
		return false, fmt.Errorf("size")
	}
	d, err := digest(alg)
	if err != nil {
		return false, err
	}
	return len(d) == want, nil
}

// the memoising closure handed to the translated Check several times: `calls` counts how often it hashed
func Checks(data []byte) (int, int) {
	seen := map[crypto.Hash][]byte{}
	calls := 0
	digest := func(alg crypto.Hash) ([]byte, error) {
		if d, ok := seen[alg]; ok {
			return d, nil
		}
		calls++
		h := alg.New()
		h.Write(data)
		seen[alg] = h.Sum(nil)
		return seen[alg], nil
	}
	n := 0
	ok, err := Check(crypto.SHA256, 32, digest)
	if ok && err == nil {
		n += 1
	}
	ok, err = Check(crypto.SHA256, 31, digest)
	if !ok && err != nil {
		n += 10
	}
	ok, err = Check(crypto.SHA256, 32, digest)
	if ok && err == nil {
		n += 100
	}
	ok, err = Check(crypto.SHA1, 20, digest)
	if ok && err == nil {
		n += 1000
	}
	return n, calls
}

// a function literal written as the argument
func Lit(data []byte, want int) (bool, error) {
	return Check(crypto.SHA256, want, func(alg crypto.Hash) ([]byte, error) {
		h := alg.New()
		h.Write(data)
		return h.Sum(nil), nil
	})
}

// ---- must be REJECTED ---------------------------------------------------------------------------

// ranging over a map: Go's order is random
func MapRange(k crypto.Hash) int {
	m := map[crypto.Hash][]byte{}
	m[k] = []byte{1}
	n := 0
	for _, v := range m {
		n += len(v)
	}
	return n
}

func mapLen(m map[crypto.Hash][]byte) int { return len(m) }

// a local map handed on: a reference in Go, a value in the translation
func MapArg(k crypto.Hash) int {
	m := map[crypto.Hash][]byte{}
	m[k] = []byte{1}
	return mapLen(m)
}

// a closure used as a value (bound to a second name)
func FnValue(data []byte) (int, error) {
	digest := func(alg crypto.Hash) ([]byte, error) { return data, nil }
	other := digest
	return Ask(nil, other)
}

// a function-typed parameter used as a value (bound to a second name)
func FnParamValue(digest func(alg crypto.Hash) ([]byte, error)) (int, error) {
	g := digest
	return Ask(nil, g)
}

// a section reader that does not start at offset 0
func Window(b []byte) *io.SectionReader {
	return io.NewSectionReader(bytes.NewReader(b), 1, int64(len(b)))
}

// Read on a section reader: its position is not part of the model
func (b *Box) Peek() int {
	buf := make([]byte, 2)
	n, _ := b.head.Read(buf)
	return n
}

// a section reader that is kept in a field is handed to a function that reads from it: its position would move
func (b *Box) Drain() uint32 {
	v, _, _ := Full(b.head)
	return v
}

// ... while one made for the call may be (what is left of it cannot be observed): translated
func (b *Box) DrainCopy() uint32 {
	v, _, _ := Full(again(b.head))
	return v
}

// a method of an io.ReaderAt reference
func (b *Box) At() int {
	buf := make([]byte, 1)
	n, _ := b.src.ReadAt(buf, 0)
	return n
}

// a plain io.Reader may deliver less than is there
func ShortRead(r io.Reader) int {
	buf := make([]byte, 2)
	n, _ := r.Read(buf)
	return n
}

// the length of xs is not evident
func First(xs []byte) byte {
	return xs[0]
}

// the length of the argument is not evident
func Word(xs []byte) uint16 {
	return binary.LittleEndian.Uint16(xs)
}

// buf has two different lengths
func TwoLens(big bool) byte {
	buf := make([]byte, 2)
	if big {
		buf = make([]byte, 1)
	}
	return buf[1]
}

type Named int

func (n Named) String() string { return "named" }

// %d on a type with a String method is fine for fmt, but %v would call it: all such arguments are rejected
func Stringer(n Named) string {
	return fmt.Sprintf("%v", n)
}

func Verb(f int) string {
	return fmt.Sprintf("%5d", f)
}

// the index is changed in the body: not a bounded loop, and xs[i] not evidently in range
func Skips(xs []byte) int {
	s := 0
	for i := 0; i < len(xs); i++ {
		s += int(xs[i])
		i++
	}
	return s
}

// the receiver of Take is reached through an implicit path (o.Sink)
func (o *Outer) Promoted(name string, m Marsh) int {
	return o.Take(name, m)
}

type counter struct{ n int }

func (c *counter) Put(b *bytes.Buffer) { c.n++; b.Write([]byte{byte(c.n)}) }
func (c *counter) Raw() []byte         { return nil }

// a pointer stored in the interface value: the object has state
func (o *Outer) PtrBox(name string) int {
	var m Marsh = &counter{}
	return o.Sink.Take(name, m)
}

type Small interface{ Raw() []byte }

// an interface value stored in a slot of a different interface type
func Narrow(m Marsh) int {
	var s Small = m
	return len(s.Raw())
}
