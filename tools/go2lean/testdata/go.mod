module github.com/foxboron/go-uefi

go 1.21
