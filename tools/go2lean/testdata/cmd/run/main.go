package main

import (
	"bytes"
	"crypto"
	_ "crypto/sha1"
	_ "crypto/sha256"
	_ "crypto/sha512"
	"fmt"

	"github.com/foxboron/go-uefi/sample"
)

func e(err error) string {
	if err == nil {
		return "nil"
	}
	return err.Error()
}

type raw []byte

func (r raw) Put(b *bytes.Buffer) { b.Write(r) }
func (r raw) Raw() []byte         { return r }

// a value that is drained by its first Put
type once struct{ left []byte }

func (o *once) Put(b *bytes.Buffer) { b.Write(o.left); o.left = nil }
func (o *once) Raw() []byte         { return []byte{1} }

func main() {
	fmt.Println(sample.SumEven([]byte{1, 2, 3, 4, 10, 7}), sample.SumEven(nil))
	fmt.Println(sample.CountSteps(0), sample.CountSteps(1), sample.CountSteps(7), sample.CountSteps(8), sample.CountSteps(-3))
	fmt.Println(sample.Collatz(27), sample.Collatz(1), sample.Collatz(0))
	fmt.Println(sample.Masks(0xdeadbeef, 0x0ff00ff0, 0xa7))
	fmt.Println(sample.AlignDown(1000003, 8), sample.AlignDown(-5, 4), sample.AlignDown(7, 1), sample.AlignDown(4611686018427387903, 4096))
	ns, last, err := sample.Chunks(bytes.NewBuffer([]byte{1, 2, 3, 4, 5, 6, 7, 8}))
	fmt.Println(ns, last, e(err))
	ns, last, err = sample.Chunks(bytes.NewBuffer(nil))
	fmt.Println(ns, last, e(err))
	n1, e1, n2, e2 := sample.ReadEmpty(bytes.NewReader(nil), bytes.NewBuffer(nil))
	fmt.Println(n1, e(e1), n2, e(e2))
	n1, e1, n2, e2 = sample.ReadEmpty(bytes.NewReader([]byte{1}), bytes.NewBuffer([]byte{1}))
	fmt.Println(n1, e(e1), n2, e(e2))
	for _, in := range [][]byte{{1, 2, 3, 4, 5}, {1, 2, 3, 4}, {1, 2}, {}} {
		v, n, err := sample.Full(bytes.NewReader(in))
		fmt.Println(v, n, e(err))
	}
	fmt.Println(sample.Orders([8]byte{1, 2, 3, 4, 5, 6, 7, 0xf8}))
	fmt.Println(sample.Format("Boot", -42, 0xbeef, 0x1234567890, 7))
	fmt.Println(sample.Format("é\"x", 255, 10, 0, 255))
	o := &sample.Outer{Sink: &sample.Sink{Base: 5}}
	for _, name := range []string{"a", "c", "q", "zz", ""} {
		fmt.Println(o.Store(name, raw{1, 2, 3}), o.Store(name, raw{1, 2}), o.Store(name, &once{left: []byte{9, 9, 9, 9}}), o.Store(name, &once{left: []byte{9}}))
	}
	fmt.Println(o.StoreBlob("b", []byte{1, 2, 3, 4}), o.StoreBlob("x", nil))
	for _, n := range []int{7, -1, 4294967296 + 5} {
		b := sample.NewBox([]byte{1, 2}, n)
		fmt.Println(b.All(), b.Skip(1))
		e1 := b.Add([]byte{9, 8, 7})
		fmt.Println(e(e1), b.Dir.VirtualAddress, b.Dir.Size, b.All(), b.Skip(1), b.Skip(0), b.Skip(5))
		e1 = b.Add([]byte{6})
		fmt.Println(e(e1), b.Dir.VirtualAddress, b.Dir.Size, b.All(), b.DrainCopy(), b.DrainCopy())
	}
	// session 7: the memoising closure handed to an external function (rounds of algorithms; SHA-1, SHA-256, SHA-512)
	for _, rounds := range [][][]crypto.Hash{
		{},
		{{crypto.SHA256}},
		{{crypto.SHA256, crypto.SHA256, crypto.SHA1}, {}, {crypto.SHA1, crypto.SHA512, crypto.SHA256}},
	} {
		total, calls, err := sample.Memo([]byte{1, 2, 3}, rounds)
		fmt.Println(total, calls, e(err))
	}
	n, err := sample.Plain([]byte{4, 5}, []crypto.Hash{crypto.SHA1, crypto.SHA256})
	fmt.Println(n, e(err))
	// session 8: a function-typed parameter of a translated function
	c1, c2 := sample.Checks([]byte{1, 2, 3})
	fmt.Println(c1, c2)
	for _, want := range []int{32, 20} {
		ok, err := sample.Lit([]byte{1, 2}, want)
		fmt.Println(ok, err != nil)
	}
}
