module verif/go2lean

go 1.21.0
