#!/bin/sh
# tools/seedall.sh [tier] : re-confirm every kept seeded change and run the checks that are recorded as
# catching it (meta.json "caught_by", default: its own property). /repo is patched and restored per change.
# Prints one line per change; exit 1 if any change is no longer caught.
tier=${1:-quick}
bad=0
V=$(cd $(dirname $0)/.. && pwd)
# SEED_FILTER (optional): an extended regular expression the seed id must match, e.g. '^C0[1-6]-' (to split a run)
for d in $V/seeded/*/; do
  id=$(basename $d)
  if [ -n "$SEED_FILTER" ] && ! echo "$id" | grep -Eq "$SEED_FILTER"; then continue; fi
  if python3 -c "import json,sys;sys.exit(0 if json.load(open('$d/meta.json')).get('neutralised') else 1)"; then
    echo "$id neutralised (kept for the record; see meta.json)"; continue
  fi
  checks=$(python3 -c "import json;m=json.load(open('$d/meta.json'));print(','.join(m.get('caught_by') or [m['property']]))")
  out=$(python3 $V/tools/seedtest.py $d --checks $checks --tier $tier 2>&1 | python3 -c "
import sys,json
t=sys.stdin.read()
try:
  j=json.loads(t[t.index('{'):])
  ok=all(j['confirmed'].get(k) for k in ('demo_passes_without_change','patch_applies','builds','existing_tests_pass','demo_fails_with_change'))
  print('confirmed' if ok else 'NOT-CONFIRMED '+json.dumps(j['confirmed'])[:300], 'caught_by='+','.join(j['caught_by']))
except Exception as e:
  print('ERR', t[-400:].replace('\n',' '))
")
  echo "$id $out"
  case "$out" in *"caught_by="?*) ;; *) bad=1;; esac
  case "$out" in confirmed*) ;; *) bad=1;; esac
done
exit $bad
