#!/bin/sh
# tools/keepseed.sh <dir under /tmp/seed/out> : copy a confirmed seeded change into /verif/seeded/<id>/
set -e
d="$1"; id=$(basename "$d")
mkdir -p /verif/seeded/$id
cp "$d/patch.diff" "$d/demo_test.go" "$d/meta.json" /verif/seeded/$id/
echo kept $id
