#!/usr/bin/env python3
"""tools/seedtable.py <first> <last>: markdown table of the seeded changes numbered first..last (per property)
from seeded/<id>/meta.json (summary, caught_by as of the last tools/seedall.sh run) and tools/seed_history.json."""
import json, os, sys, glob, re
V = os.path.dirname(os.path.dirname(os.path.abspath(__file__)))
lo, hi = int(sys.argv[1]), int(sys.argv[2])
hist = json.load(open(os.path.join(V, "tools", "seed_history.json")))
rows = []
for d in glob.glob(os.path.join(V, "seeded", "C*-*")):
    sid = os.path.basename(d)
    p, n = sid.split("-")
    if not (lo <= int(n) <= hi):
        continue
    m = json.load(open(os.path.join(d, "meta.json")))
    h = hist.get(sid, {})
    s = " ".join(m.get("summary", "").split())
    if len(s) > 230:
        s = s[:229] + "…"
    now = ", ".join(m.get("caught_by") or [])
    if m.get("neutralised"):
        now = "neutralised (see meta.json)"
    rows.append((p, int(n), f"| {sid} | {s.replace('|', '/')} | {h.get('first_run', '?')} | {now or 'NOT REPORTED'} | {h.get('strengthened', '')} |"))
print("| seed | change | first run | now reported by | what was strengthened |")
print("|------|--------|-----------|-----------------|-----------------------|")
for _, _, r in sorted(rows):
    print(r)
