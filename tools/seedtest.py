#!/usr/bin/env python3
"""Confirm a seeded property-breaking change and run the checks against it.

  tools/seedtest.py <dir with patch.diff, demo_test.go, meta.json> [--checks C01,C13] [--tier quick]

1. In a scratch worktree of /repo's HEAD (under /tmp, removed afterwards): the patch applies, the
   library builds, the pinned test packages pass, the demonstration FAILS with the patch and PASSES
   without it.
2. The patch is applied to /repo itself, the named checks (default: the property's own) are run,
   and /repo is restored (git checkout -- .) whatever happens.
Results are merged into <dir>/meta.json under "confirmed" and "checks".
"""
import json, os, shutil, subprocess, sys, tempfile

REPO = os.environ.get("VERIF_REPO", "/repo")
VERIF = os.path.dirname(os.path.dirname(os.path.abspath(__file__)))
ENV = dict(os.environ, GOFLAGS="-mod=mod", GOPROXY="off", GOSUMDB="off", GOTOOLCHAIN="local")
PKGS = ["./authenticode/", "./efi/device/", "./efi/signature/", "./efi/util/", "./efivarfs/", "./pkcs7/"]


def sh(cmd, cwd=None, timeout=1800):
    p = subprocess.run(cmd, cwd=cwd, env=ENV, stdout=subprocess.PIPE, stderr=subprocess.STDOUT, text=True, timeout=timeout)
    return p.returncode, p.stdout


def main():
    d = os.path.abspath(sys.argv[1])
    meta = json.load(open(os.path.join(d, "meta.json")))
    checks = [meta["property"]]
    tier = "quick"
    for i, a in enumerate(sys.argv):
        if a == "--checks":
            checks = sys.argv[i + 1].split(",")
        if a == "--tier":
            tier = sys.argv[i + 1]
    patch = os.path.join(d, "patch.diff")
    demo = os.path.join(d, "demo_test.go")
    wt = tempfile.mkdtemp(prefix="seedverify-")
    os.rmdir(wt)
    conf = {}
    try:
        rc, out = sh(["git", "-C", REPO, "worktree", "add", "-q", "--detach", wt, "HEAD"])
        assert rc == 0, out
        demo_dst = os.path.join(wt, meta["demo_path"])
        shutil.copy(demo, demo_dst)
        rc, out = sh(["sh", "-c", meta["demo_cmd"]], cwd=wt)
        conf["demo_passes_without_change"] = rc == 0
        if rc != 0:
            conf["demo_without_change_output"] = out[-1500:]
        rc, out = sh(["git", "apply", patch], cwd=wt)
        conf["patch_applies"] = rc == 0
        if rc != 0:
            conf["apply_output"] = out[-800:]
        else:
            rc, out = sh(["go", "build", "./..."], cwd=wt)
            conf["builds"] = rc == 0
            os.remove(demo_dst)
            rc, out = sh(["go", "test", "-vet=off", "-count=1"] + PKGS, cwd=wt)
            conf["existing_tests_pass"] = rc == 0
            if rc != 0:
                conf["tests_output"] = out[-1500:]
            shutil.copy(demo, demo_dst)
            rc, out = sh(["sh", "-c", meta["demo_cmd"]], cwd=wt)
            conf["demo_fails_with_change"] = rc != 0
    finally:
        sh(["git", "-C", REPO, "worktree", "remove", "--force", wt])
        shutil.rmtree(wt, ignore_errors=True)
    meta["confirmed"] = conf
    ok = all(conf.get(k) for k in ("demo_passes_without_change", "patch_applies", "builds", "existing_tests_pass", "demo_fails_with_change"))
    results = {}
    if ok:
        rc, out = sh(["git", "-C", REPO, "status", "--porcelain"])
        assert out.strip() == "", "/repo is not clean: " + out
        try:
            rc, out = sh(["git", "-C", REPO, "apply", patch])
            assert rc == 0, out
            for c in checks:
                rc, out = sh([os.path.join(VERIF, "check"), c, tier], cwd=VERIF, timeout=3600)
                lines = [l for l in out.split("\n") if l.startswith("VIOLATION") or l.startswith("KNOWN-FINDING") or " seed=" in l]
                results[c] = {"tier": tier, "exit": rc, "lines": [l[:300] for l in lines][-4:]}
        finally:
            sh(["git", "-C", REPO, "checkout", "--", "."])
            sh(["git", "-C", REPO, "clean", "-fdq"])
    meta.setdefault("checks", {}).update(results)
    meta["caught_by"] = sorted(c for c, r in meta["checks"].items() if r["exit"] == 1 and any(l.startswith("VIOLATION") for l in r["lines"]))
    json.dump(meta, open(os.path.join(d, "meta.json"), "w"), indent=1)
    print(json.dumps({"dir": d, "confirmed": conf, "checks": results, "caught_by": meta["caught_by"]}, indent=1))


if __name__ == "__main__":
    main()
