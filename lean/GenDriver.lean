import GoUefi.Driver.Gen
/-
  Line protocol driver over the TRANSLATED code (see GoUefi/Driver/Gen.lean): `<id> <op> <args…>` in,
  `<id> <result>` out.
-/
open GoUefi.Drv

partial def genLoop (h : IO.FS.Stream) (out : IO.FS.Stream) : IO Unit := do
  let line ← h.getLine
  if line.isEmpty then return ()
  let l := (line.dropRightWhile (fun c => c == '\n' || c == '\r'))
  match l.splitOn " " with
  | id :: op :: args =>
    out.putStrLn (id ++ " " ++ (match handleGen op args with | some r => r | none => "bad-op"))
  | _ => out.putStrLn "? bad-line"
  out.flush
  genLoop h out

def main : IO Unit := do
  genLoop (← IO.getStdin) (← IO.getStdout)
