/-
  Base definitions shared by every model: byte strings, little/big-endian codecs,
  slices, Go reader semantics (`binary.Read` EOF split), outcomes.
  Core Lean only (the driver executable links this file).
-/

abbrev Bytes := List UInt8

namespace GoUefi

/-- bytes [i, j) -/
def slice (b : Bytes) (i j : Nat) : Bytes := (b.take j).drop i

def zeros (k : Nat) : Bytes := List.replicate k 0

/-- number of zero bytes needed to reach the next multiple of 8 -/
def pad8 (n : Nat) : Nat := (8 - n % 8) % 8

def byteAt (b : Bytes) (o : Nat) : Nat := (b[o]?.getD 0).toNat
def le16At (b : Bytes) (o : Nat) : Nat := byteAt b o + 256 * byteAt b (o+1)
def le32At (b : Bytes) (o : Nat) : Nat :=
  byteAt b o + 256 * byteAt b (o+1) + 65536 * byteAt b (o+2) + 16777216 * byteAt b (o+3)

def le16 (n : Nat) : Bytes := [(n % 256).toUInt8, (n / 256 % 256).toUInt8]
def le32 (n : Nat) : Bytes :=
  [(n % 256).toUInt8, (n / 256 % 256).toUInt8, (n / 65536 % 256).toUInt8, (n / 16777216 % 256).toUInt8]
def le64 (n : Nat) : Bytes := le32 (n % 4294967296) ++ le32 (n / 4294967296 % 4294967296)
def be16 (n : Nat) : Bytes := [(n / 256 % 256).toUInt8, (n % 256).toUInt8]
def be32 (n : Nat) : Bytes :=
  [(n / 16777216 % 256).toUInt8, (n / 65536 % 256).toUInt8, (n / 256 % 256).toUInt8, (n % 256).toUInt8]

def rd16 : Bytes → Nat
  | [a, b] => a.toNat + 256 * b.toNat
  | _ => 0
def rd32 : Bytes → Nat
  | [a, b, c, d] => a.toNat + 256 * b.toNat + 65536 * c.toNat + 16777216 * d.toNat
  | _ => 0
def rdBe16 : Bytes → Nat
  | [a, b] => 256 * a.toNat + b.toNat
  | _ => 0
def rdBe32 : Bytes → Nat
  | [a, b, c, d] => 16777216 * a.toNat + 65536 * b.toNat + 256 * c.toNat + d.toNat
  | _ => 0
def rd64 (b : Bytes) : Nat := rd32 (b.take 4) + 4294967296 * rd32 (b.drop 4)

/-- Go `io.Reader` / `encoding/binary.Read` error classes that the code distinguishes. -/
inductive RErr | eof | unexpectedEof | other
deriving DecidableEq, Repr

/-- `binary.Read` of `n` bytes (via `io.ReadFull`) from a reader that still holds `bs`:
    `n = 0` succeeds; nothing left gives `io.EOF`; a short read gives `io.ErrUnexpectedEOF`. -/
def readN (n : Nat) (bs : Bytes) : Except RErr (Bytes × Bytes) :=
  if n = 0 then .ok ([], bs)
  else if bs = [] then .error .eof
  else if bs.length < n then .error .unexpectedEof
  else .ok (bs.take n, bs.drop n)

/-- How a Go call can end. `exit` = log.Fatal*/os.Exit. -/
inductive Outcome (α : Type) where
  | ok (a : α)
  | err
  | panic
  | exit
deriving Repr, DecidableEq

def Outcome.cls {α} : Outcome α → String
  | .ok _ => "ok" | .err => "err" | .panic => "panic" | .exit => "exit"

def Outcome.returns {α} : Outcome α → Bool
  | .ok _ => true | .err => true | _ => false

/-! ### hex helpers (driver side) -/

def hexDigitVal (c : Char) : Nat :=
  if '0' ≤ c ∧ c ≤ '9' then c.toNat - 48
  else if 'a' ≤ c ∧ c ≤ 'f' then c.toNat - 87
  else if 'A' ≤ c ∧ c ≤ 'F' then c.toNat - 55 else 0

def unhexChars : List Char → Bytes
  | a :: b :: r => (16 * hexDigitVal a + hexDigitVal b).toUInt8 :: unhexChars r
  | _ => []

/-- "-" denotes the empty byte string on the wire -/
def unhex (s : String) : Bytes := if s == "-" then [] else unhexChars s.toList

def hexNibble (n : Nat) : Char := Nat.digitChar n   -- lower case for 10..15

def hex (bs : Bytes) : String :=
  if bs.isEmpty then "-" else
  String.ofList (bs.flatMap fun b => [hexNibble (b.toNat / 16), hexNibble (b.toNat % 16)])

end GoUefi
