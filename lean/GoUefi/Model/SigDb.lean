import GoUefi.Base
import GoUefi.Model.Guid
/-
  Impl model of efi/signature/signature_list.go and signature_database.go as they stand after the
  fix: commits recorded in known_findings.json (F6, F7, F8, F9a-d, F27, F37).
  Types and owners are kept as the 16 wire bytes.
-/
namespace GoUefi.Impl

structure SData where
  owner : Bytes
  data : Bytes
deriving DecidableEq, Repr

/-- Go's `SignatureList`: the size fields are stored, not derived -/
structure SList where
  type : Bytes
  listSize : Nat
  hdrSize : Nat
  size : Nat
  hdr : Bytes
  sigs : List SData
deriving DecidableEq, Repr

abbrev Db := List SList

/-! ### wire GUIDs of the signature schemes (checked against the extracted table) -/
def guidX509 : Bytes := guidWire ⟨0xa5c059a1, 0x94e4, 0x4aa7, [0x87, 0xb5, 0xab, 0x15, 0x5c, 0x2b, 0xf0, 0x72]⟩
def guidSha256 : Bytes := guidWire ⟨0xc1c41626, 0x504c, 0x4092, [0xac, 0xa9, 0x41, 0xf9, 0x36, 0x93, 0x43, 0x28]⟩
def guidExternal : Bytes := guidWire ⟨0x452e8ced, 0xdfff, 0x4b8c, [0xae, 0x01, 0x51, 0x18, 0x86, 0x2e, 0x68, 0x2c]⟩

/-- keys of `ValidEFISignatureSchemes` in wire form -/
def schemes : List Bytes := [
  guidSha256,
  guidWire ⟨0x3c5766e8, 0x269c, 0x4e34, [0xaa, 0x14, 0xed, 0x77, 0x6e, 0x85, 0xb3, 0xb6]⟩,
  guidWire ⟨0xe2b36190, 0x879b, 0x4a3d, [0xad, 0x8d, 0xf2, 0xe7, 0xbb, 0xa3, 0x27, 0x84]⟩,
  guidWire ⟨0x826ca512, 0xcf10, 0x4ac9, [0xb1, 0x87, 0xbe, 0x01, 0x49, 0x66, 0x31, 0xbd]⟩,
  guidWire ⟨0x67f8444f, 0x8743, 0x48f1, [0xa3, 0x28, 0x1e, 0xaa, 0xb8, 0x73, 0x60, 0x80]⟩,
  guidX509,
  guidWire ⟨0xb6e5233, 0xa65c, 0x44c9, [0x94, 0x07, 0xd9, 0xab, 0x83, 0xbf, 0xc8, 0xbd]⟩,
  guidWire ⟨0xff3e5307, 0x9fd0, 0x48c9, [0x85, 0xf1, 0x8a, 0xd5, 0x6c, 0x70, 0x1e, 0x01]⟩,
  guidWire ⟨0x93e0fae, 0xa6c4, 0x4f50, [0x9f, 0x1b, 0xd4, 0x1e, 0x2b, 0x89, 0xc1, 0x9a]⟩,
  guidWire ⟨0x3bd2a492, 0x96c0, 0x4079, [0xb4, 0x20, 0xfc, 0xf9, 0x8e, 0xf1, 0x03, 0xed]⟩,
  guidExternal]

/-! ### encoders (`WriteSignatureData`, `WriteSignatureList`, `WriteSignatureDatabase`) -/
def encSData (s : SData) : Bytes := s.owner ++ s.data
def encList (l : SList) : Bytes :=
  l.type ++ le32 l.listSize ++ le32 l.hdrSize ++ le32 l.size ++ l.hdr ++ (l.sigs.map encSData).flatten
def encDb (db : Db) : Bytes := (db.map encList).flatten

/-! ### decoder -/

/-- `ReadSignatureData`: 16 bytes of owner, then `size − 16` bytes; an `io.EOF` from here is
    turned into `io.ErrUnexpectedEOF` by the caller (the list promised more data) -/
def readSig (size : Nat) (bs : Bytes) : Except RErr (SData × Bytes) :=
  match readN 16 bs with
  | .error _ => .error .unexpectedEof
  | .ok (owner, r1) =>
    match readN (size - 16) r1 with
    | .error _ => .error .unexpectedEof
    | .ok (data, r2) => .ok (⟨owner, data⟩, r2)

/-- the `parseList` loop: `k` turns (`totalSize` reaches 0 after exactly `k = totalSize / Size`
    subtractions because the header check guarantees divisibility) -/
def readSigs (size : Nat) : Nat → Bytes → Except RErr (List SData × Bytes)
  | 0, bs => .ok ([], bs)
  | k+1, bs =>
    match readSig size bs with
    | .error e => .error e
    | .ok (s, r) =>
      match readSigs size k r with
      | .error e => .error e
      | .ok (ss, r') => .ok (s :: ss, r')

/-- the per-type switch of `ReadSignatureList` -/
def handled (ty : Bytes) (hdrSize size : Nat) : Bool :=
  if ty = guidX509 then hdrSize = 0
  else if ty = guidSha256 then hdrSize = 0 && size = 48
  else if ty = guidExternal then hdrSize = 0 && size = 17
  else false

inductive LRes where
  | cleanEof
  | bad
  | ok (l : SList) (rest : Bytes)
deriving Repr

/-- the four header reads of `ReadSignatureList` -/
def readHeader (bs : Bytes) : Except RErr ((Bytes × Nat × Nat × Nat) × Bytes) :=
  match readN 16 bs with
  | .error e => .error e                 -- io.EOF here is the clean end of the database
  | .ok (ty, r1) =>
    match readN 4 r1 with
    | .error _ => .error .unexpectedEof
    | .ok (ls, r2) =>
      match readN 4 r2 with
      | .error _ => .error .unexpectedEof
      | .ok (hs, r3) =>
        match readN 4 r3 with
        | .error _ => .error .unexpectedEof
        | .ok (sz, r4) => .ok ((ty, rd32 ls, rd32 hs, rd32 sz), r4)

/-- `ReadSignatureList` -/
def readList (bs : Bytes) : LRes :=
  match readHeader bs with
  | .error .eof => .cleanEof
  | .error _ => .bad
  | .ok ((ty, listSize, hdrSize, size), r4) =>
    if size < 16 ∨ listSize < 28 + hdrSize ∨ (listSize - 28 - hdrSize) % size ≠ 0 then .bad else
    if !handled ty hdrSize size then .bad else
    match readSigs size ((listSize - 28) / size) r4 with
    | .error _ => .bad
    | .ok (ss, rest) => .ok ⟨ty, listSize, hdrSize, size, [], ss⟩ rest

/-- `ReadSignatureDatabase`: lists until a clean end of input -/
def readDbAux : Nat → Bytes → Option Db
  | 0, _ => none
  | fuel+1, bs =>
    match readList bs with
    | .cleanEof => some []
    | .bad => none
    | .ok l rest =>
      match readDbAux fuel rest with
      | none => none
      | some ls => some (l :: ls)

def readDb (bs : Bytes) : Option Db := readDbAux (bs.length + 1) bs

end GoUefi.Impl

/-! ### database operations (C09) -/
namespace GoUefi.Impl

/-- `encoding/pem` is external: an opaque partial function (the driver instantiates it with the
    table of PEM blocks the harness hands over). -/
structure Env where
  pemDecode : Bytes → Option Bytes

/-- X.509 data supplied as PEM is stored as DER -/
def Env.norm (E : Env) (t d : Bytes) : Bytes :=
  if t = guidX509 then (E.pemDecode d).getD d else d

def newList (t : Bytes) : SList := ⟨t, 28, 0, 0, [], []⟩

/-- `SignatureList.Exists` -/
def SList.has (l : SList) (o d : Bytes) : Bool := l.sigs.contains ⟨o, d⟩

/-- `SigDataExists` / `BytesExists` (type honoured since the F9c repair) -/
def Db.has (db : Db) (t o d : Bytes) : Bool := db.any fun l => l.type == t && l.has o d

/-- `Exists`: every entry of the list is somewhere in the database under the list's type -/
def Db.hasAll (db : Db) (t : Bytes) (sigs : List SData) : Bool :=
  sigs.all fun s => db.has t s.owner s.data

inductive AErr | noScheme | exists | notSha256 | notExternal | sizeMismatch
deriving DecidableEq, Repr

/-- list-level `AppendBytes` (F27 repair: PEM is decoded before the duplicate check, so that the DER
    form is what is compared and stored; F37 repair: an externally-managed entry is one byte, the only
    size `ReadSignatureList` accepts for that type) -/
def SList.appendBytes (E : Env) (l : SList) (o d : Bytes) : Except AErr SList :=
  let d' := E.norm l.type d
  if l.has o d' then .error .exists else
  if l.type = guidSha256 ∧ d'.length ≠ 32 then .error .notSha256 else
  if l.type = guidExternal ∧ d'.length ≠ 1 then .error .notExternal else
  if l.sigs ≠ [] ∧ d'.length + 16 ≠ l.size then .error .sizeMismatch else
  .ok { l with sigs := l.sigs ++ [⟨o, d'⟩], size := d'.length + 16, listSize := l.listSize + (d'.length + 16) }

/-- the list loop of `SignatureDatabase.Append`: first list of equal type and size, else a new
    list at the end; an error from the list leaves the database unchanged -/
def appendInto (E : Env) (t o d : Bytes) : Db → Except AErr Db
  | [] => match (newList t).appendBytes E o d with
          | .ok l => .ok [l]
          | .error e => .error e
  | l :: ls =>
    if l.type = t ∧ l.size = d.length + 16 then
      match l.appendBytes E o d with
      | .ok l' => .ok (l' :: ls)
      | .error e => .error e
    else match appendInto E t o d ls with
      | .ok ls' => .ok (l :: ls')
      | .error e => .error e

/-- `SignatureDatabase.Append` -/
def Db.append (E : Env) (db : Db) (t o d : Bytes) : Except AErr Db :=
  if !schemes.contains t then .error .noScheme else
  if db.has t o (E.norm t d) then .error .exists else
  appendInto E t o (E.norm t d) db

inductive RmErr | notFoundData | notFoundList
deriving DecidableEq, Repr

/-- `SignatureDatabase.Remove`: first list of equal type and size that holds the entry; an
    emptied list is dropped.  `sawList` = some list of that type and size was visited. -/
def removeFrom (t o d : Bytes) : Db → Bool → Except RmErr Db
  | [], sawList => .error (if sawList then .notFoundData else .notFoundList)
  | l :: ls, sawList =>
    if l.type = t ∧ l.size = d.length + 16 then
      if l.has o d then
        if l.sigs.length = 1 then .ok ls
        else .ok ({ l with sigs := l.sigs.erase ⟨o, d⟩, listSize := l.listSize - l.size } :: ls)
      else match removeFrom t o d ls true with
        | .ok ls' => .ok (l :: ls')
        | .error e => .error e
    else match removeFrom t o d ls sawList with
      | .ok ls' => .ok (l :: ls')
      | .error e => .error e

def Db.remove (db : Db) (t o d : Bytes) : Except RmErr Db := removeFrom t o d db false

/-- `AppendList` -/
def Db.appendList (db : Db) (l : SList) : Db := db ++ [l]

/-- abstract view: the ordered collection of (type, owner, data) entries -/
def abs (db : Db) : List (Bytes × Bytes × Bytes) :=
  db.flatMap fun l => l.sigs.map fun s => (l.type, s.owner, s.data)

end GoUefi.Impl
