import GoUefi.Model.Pe
import GoUefi.Model.Pkcs7
/-
  Model of authenticode/authenticode.go and of PECOFFBinary.Sign / Verify.
-/
namespace GoUefi.Impl
open GoUefi.Der

def oidSpcIndirectData : List Nat := [1, 3, 6, 1, 4, 1, 311, 2, 1, 4]
def oidSpcPEImageData : List Nat := [1, 3, 6, 1, 4, 1, 311, 2, 1, 15]
def oidIndividualCodeSigning : List Nat := [1, 3, 6, 1, 4, 1, 311, 2, 1, 21]

/-- "<<<Obsolete>>>" as big-endian UTF-16 -/
def obsolete : Bytes := [0x00, 0x3c, 0x00, 0x3c, 0x00, 0x3c, 0x00, 0x4f, 0x00, 0x62, 0x00, 0x73, 0x00, 0x6f, 0x00, 0x6c,
  0x00, 0x65, 0x00, 0x74, 0x00, 0x65, 0x00, 0x3e, 0x00, 0x3e, 0x00, 0x3e]

/-- `CreateSpcIndirectDataContent` (the two elements that `SignPKCS7` wraps in a SEQUENCE) -/
def spcIndirectData (digest : Bytes) : Bytes :=
  addASN1 tSEQ (oidOr oidSpcPEImageData ++
    addASN1 tSEQ (addASN1 tBIT [0] ++ addASN1 0xa0 (addASN1 0xa2 (addASN1 0x80 obsolete)))) ++
  addASN1 tSEQ (addASN1 tSEQ (oidOr oidSha256 ++ addNULL) ++ addOctets digest)

/-- Go `Authenticode` -/
structure Auth where
  pkcs : P7
  alg : List Nat
  digest : Bytes
deriving DecidableEq, Repr

/-- `ParseAuthenticode` -/
def parseAuthenticode (certsOk : Bytes → Bool) (b : Bytes) : Option Auth :=
  match parseP7 certsOk b with
  | none => none
  | some p =>
    if p.oid != oidSpcIndirectData then none else
    match read tSEQ p.content with
    | none => none
    | some (der, _) =>
      match read tSEQ der with
      | none => none
      | some (spc, der1) =>
        match readOID spc with
        | none => none
        | some (dtype, spc1) =>
          if dtype != oidSpcPEImageData && dtype != oidIndividualCodeSigning then none else
          match read tSEQ spc1 with
          | none => none
          | some _ =>
            match read tSEQ der1 with
            | none => none
            | some (di, _) =>
              match parseAlg di with
              | none => none
              | some (alg, di1) =>
                match read tOCT di1 with
                | none => none
                | some (digest, _) => some ⟨p, alg, digest⟩

/-- `Authenticode.Verify(cert, img)` where `stream` is the image's hash input -/
def Auth.verify (C : Crypto) (a : Auth) (c : Cert) (stream : Bytes) : Outcome Bool :=
  if a.alg != oidSha256 then .err else
  if a.digest.length != 32 then .err else
  if C.sha256 stream != a.digest then .err else
  a.pkcs.verify C c

/-- the loop of `PECOFFBinary.Verify`: an error from parsing or verifying any signature ends it.
The hashed stream is an argument and `a.verify` digests it for every entry: as a value that is what the Go
code computes whether it hashes the image once per entry (until F38) or once per call on first need (since) -
the model says nothing about cost; the time is the business of the C13 worker (class `many-signatures`). -/
def verifySigs (C : Crypto) (certsOk : Bytes → Bool) (c : Cert) (stream : Bytes) : List WinCert → Outcome Bool
  | [] => .err                                  -- ErrNoValidSignatures
  | w :: ws =>
    match parseAuthenticode certsOk w.cert with
    | none => .err
    | some a =>
      match a.verify C c stream with
      | .ok true => .ok true
      | .ok false => verifySigs C certsOk c stream ws
      | .err => .err
      | .panic => .panic
      | .exit => .exit

/-- `PECOFFBinary.Verify` -/
def Parsed.verify (C : Crypto) (certsOk : Bytes → Bool) (p : Parsed) (c : Cert) : Outcome Bool :=
  match p.signatures with
  | .ok [] => .err                              -- ErrNoSignatures
  | .ok ws => verifySigs C certsOk c (hashStream p) ws
  | .err => .err
  | .panic => .panic
  | .exit => .exit

end GoUefi.Impl
