import GoUefi.Base
/-
  DER layer mirroring golang.org/x/crypto/cryptobyte as used by pkcs7/ and authenticode/:
  builder (AddASN1 with minimal lengths, INTEGER, OID, …) and reader (single-byte tags only,
  DER-minimal lengths of at most 4 bytes, minimal INTEGERs, base-128 OID arcs below 2^31).
-/
namespace GoUefi.Der

def beBytes : Nat → Nat → Bytes
  | 0, _ => []
  | k+1, n => ((n / 256^k) % 256).toUInt8 :: beBytes k n

def beVal : Bytes → Nat
  | [] => 0
  | b :: bs => b.toNat * 256^bs.length + beVal bs

def nbytes (n : Nat) : Nat :=
  if n < 256 then 1 else if n < 65536 then 2 else if n < 16777216 then 3 else 4

def encLen (n : Nat) : Bytes :=
  if n < 128 then [n.toUInt8] else (0x80 + nbytes n).toUInt8 :: beBytes (nbytes n) n

/-- `Builder.AddASN1(tag, body)` (bodies below 2^32 bytes; longer ones make the Go builder fail) -/
def addASN1 (tag : UInt8) (body : Bytes) : Bytes := tag :: encLen body.length ++ body

def tSEQ : UInt8 := 0x30
def tSET : UInt8 := 0x31
def tCtx0 : UInt8 := 0xa0
def tOID : UInt8 := 0x06
def tINT : UInt8 := 0x02
def tOCT : UInt8 := 0x04
def tNULL : UInt8 := 0x05
def tUTC : UInt8 := 0x17
def tBIT : UInt8 := 0x03

/-- minimal big-endian bytes of `n` (at least one byte); `fuel` ≥ number of bytes -/
def natBytesAux : Nat → Nat → Bytes → Bytes
  | 0, _, acc => acc
  | f+1, n, acc => if n = 0 then acc else natBytesAux f (n / 256) ((n % 256).toUInt8 :: acc)

def natBytes (n : Nat) : Bytes := if n = 0 then [0] else natBytesAux (n + 1) n []

/-- non-negative INTEGER (`AddASN1BigInt` / `AddASN1Int64` for n ≥ 0) -/
def addUInt (n : Nat) : Bytes :=
  let b := natBytes n
  addASN1 tINT (if (b.headD 0).toNat ≥ 128 then 0 :: b else b)

def base128Aux : Nat → Nat → Bytes → Bytes
  | 0, _, acc => acc
  | f+1, n, acc => if n = 0 then acc else base128Aux f (n / 128) ((128 + n % 128).toUInt8 :: acc)

def base128 (n : Nat) : Bytes := base128Aux (n + 1) (n / 128) [(n % 128).toUInt8]

/-- cryptobyte `isValidOID` -/
def validOID : List Nat → Bool
  | a :: b :: _ => a ≤ 2 && (a ≤ 1 → b < 40)
  | _ => false

/-- `AddASN1ObjectIdentifier`; `none` = the builder records an error (BytesOrPanic panics) -/
def addOID (o : List Nat) : Option Bytes :=
  if !validOID o then none else
  match o with
  | a :: b :: rest => some (addASN1 tOID (base128 (40 * a + b) ++ (rest.map base128).flatten))
  | _ => none

def addNULL : Bytes := addASN1 tNULL []
def addOctets (b : Bytes) : Bytes := addASN1 tOCT b

/-! ### reader -/

/-- header: given the bytes after the tag → (body length, bytes after the header) -/
def readLen : Bytes → Option (Nat × Bytes)
  | [] => none
  | lenByte :: tl =>
    if lenByte.toNat < 128 then some (lenByte.toNat, tl)
    else
      let lenLen := lenByte.toNat - 128
      if lenLen == 0 || lenLen > 4 || tl.length < lenLen then none else
      let len32 := beVal (tl.take lenLen)
      if len32 < 128 then none else
      if len32 / 256^(lenLen-1) == 0 then none else
      some (len32, tl.drop lenLen)

/-- `ReadAnyASN1`: (tag, body, rest) -/
def readAny : Bytes → Option (UInt8 × Bytes × Bytes)
  | [] => none
  | tag :: s =>
    if s.isEmpty then none else
    if tag.toNat % 32 == 31 then none else
    match readLen s with
    | none => none
    | some (n, tl) => if tl.length < n then none else some (tag, tl.take n, tl.drop n)

/-- `ReadASN1(&out, tag)` -/
def read (t : UInt8) (s : Bytes) : Option (Bytes × Bytes) :=
  match readAny s with
  | some (tag, body, rest) => if tag == t then some (body, rest) else none
  | none => none

/-- `ReadASN1Element`: the element including its header -/
def readElement (t : UInt8) (s : Bytes) : Option (Bytes × Bytes) :=
  match read t s with
  | some (_, rest) => some (s.take (s.length - rest.length), rest)
  | none => none

def peek (t : UInt8) (s : Bytes) : Bool := match s with | b :: _ => b == t | [] => false

/-- `ReadOptionalASN1`: (body if present, rest) or failure -/
def readOptional (t : UInt8) (s : Bytes) : Option (Option Bytes × Bytes) :=
  if peek t s then (read t s).map fun (b, r) => (some b, r) else some (none, s)

/-- `checkASN1Integer` -/
def checkInt (b : Bytes) : Bool :=
  match b with
  | [] => false
  | [_] => true
  | b0 :: b1 :: _ => !((b0 == 0 && b1.toNat < 128) || (b0 == 0xff && b1.toNat ≥ 128))

def signedVal (b : Bytes) : Int :=
  if (b.headD 0).toNat ≥ 128 then (beVal b : Int) - (256 : Int)^b.length else beVal b

/-- `ReadASN1Integer(&int64)` -/
def readInt64 (s : Bytes) : Option (Int × Bytes) :=
  match read tINT s with
  | some (b, rest) => if !checkInt b || b.length > 8 then none else some (signedVal b, rest)
  | none => none

/-- `ReadASN1Integer(&big.Int)` -/
def readBigInt (s : Bytes) : Option (Int × Bytes) :=
  match read tINT s with
  | some (b, rest) => if !checkInt b then none else some (signedVal b, rest)
  | none => none

/-- `readBase128Int` -/
def readBase128Aux (i ret : Nat) : Bytes → Option (Nat × Bytes)
  | [] => none
  | b :: tl =>
    if i == 5 then none else
    if ret ≥ 2^24 then none else
    if i == 0 && b == 0x80 then none else
    let ret := ret * 128 + b.toNat % 128
    if b.toNat < 128 then some (ret, tl) else readBase128Aux (i+1) ret tl

def readBase128 (s : Bytes) : Option (Nat × Bytes) := readBase128Aux 0 0 s

def oidRest : Nat → Bytes → List Nat → Option (List Nat)
  | 0, s, acc => if s.isEmpty then some acc.reverse else none
  | f+1, s, acc =>
    if s.isEmpty then some acc.reverse else
    match readBase128 s with
    | some (v, tl) => oidRest f tl (v :: acc)
    | none => none

/-- `ReadASN1ObjectIdentifier` -/
def readOID (s : Bytes) : Option (List Nat × Bytes) :=
  match read tOID s with
  | some (b, rest) =>
    if b.isEmpty then none else
    match readBase128 b with
    | none => none
    | some (v, tl) =>
      let first := if v < 80 then [v / 40, v % 40] else [2, v - 80]
      match oidRest tl.length tl [] with
      | some r => some (first ++ r, rest)
      | none => none
  | none => none

/-! ### UTCTime (`ReadASN1UTCTime`): accepted texts and their second-precision re-serialisation -/

def digit (b : UInt8) : Option Nat := if 48 ≤ b.toNat ∧ b.toNat ≤ 57 then some (b.toNat - 48) else none
def two (a b : UInt8) : Option Nat :=
  match digit a, digit b with
  | some x, some y => some (10 * x + y)
  | _, _ => none

def daysIn (y m : Nat) : Nat :=
  if m == 2 then (if y % 4 == 0 && (y % 100 != 0 || y % 400 == 0) then 29 else 28)
  else if m == 4 || m == 6 || m == 9 || m == 11 then 30 else 31

def timeCore (yy mo dd hh mi ss : Nat) : Bool :=
  let y := if yy ≥ 69 then 1900 + yy else 2000 + yy
  1 ≤ mo && mo ≤ 12 && 1 ≤ dd && dd ≤ daysIn y mo && hh < 24 && mi < 60 && ss < 60

def zoneOk (z : Bytes) : Bool :=
  match z with
  | [0x5a] => true
  | [s, a, b, c, d] => (s == 0x2b || s == 0x2d) &&
      (match two a b, two c d with
       | some h, some m => h ≤ 24 && m < 60 && !(h == 0 && m == 0)   -- time.Parse allows hour 24
       | _, _ => false)
  | _ => false

/-- returns the text `Attributes.Marshal` would write for the parsed time -/
def parseUTC (t : Bytes) : Option Bytes :=
  match t with
  | y1 :: y2 :: m1 :: m2 :: d1 :: d2 :: h1 :: h2 :: n1 :: n2 :: rest =>
    match two y1 y2, two m1 m2, two d1 d2, two h1 h2, two n1 n2 with
    | some yy, some mo, some dd, some hh, some mi =>
      (match rest with
       | s1 :: s2 :: z =>
         match two s1 s2 with
         | some ss => if timeCore yy mo dd hh mi ss && zoneOk z then some t else none
         | none => if timeCore yy mo dd hh mi 0 && zoneOk rest then some (t.take 10 ++ [0x30, 0x30] ++ rest) else none
       | z => if timeCore yy mo dd hh mi 0 && zoneOk z then some (t.take 10 ++ [0x30, 0x30] ++ z) else none)
    | _, _, _, _, _ => none
  | _ => none

end GoUefi.Der
