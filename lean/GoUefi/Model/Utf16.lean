import GoUefi.Base
/-
  Model of efi/util/util.go (C17): MarshalUtf16Var / ParseUtf16Var / ReadNullString and
  efivar.Efistring.Unmarshal.  Strings are `List Char` (a Lean `Char` is exactly a Unicode
  scalar value, i.e. what valid UTF-8 Go strings range over).
-/
namespace GoUefi

/-- UTF-16 code units of one scalar value -/
def encChar (c : Char) : List Nat :=
  if c.toNat < 0x10000 then [c.toNat]
  else [0xD800 + (c.toNat - 0x10000) / 1024, 0xDC00 + (c.toNat - 0x10000) % 1024]

def utf16enc (s : List Char) : List Nat := s.flatMap encChar

/-- x/text UTF-16 decoder (`utf16Decoder.Transform`): a surrogate followed by a unit in
    DC00..DFFF consumes both (a valid pair combines, anything else is U+FFFD); any other
    surrogate is U+FFFD and consumes one unit. -/
def utf16dec : List Nat → List Char
  | [] => []
  | [u] => (if 0xD800 ≤ u ∧ u < 0xE000 then Char.ofNat 0xFFFD else Char.ofNat u) :: []
  | u :: v :: rest =>
    if 0xD800 ≤ u ∧ u < 0xE000 then
      if 0xDC00 ≤ v ∧ v < 0xE000 then
        (if u < 0xDC00 then Char.ofNat (0x10000 + (u - 0xD800) * 1024 + (v - 0xDC00))
         else Char.ofNat 0xFFFD) :: utf16dec rest
      else Char.ofNat 0xFFFD :: utf16dec (v :: rest)
    else Char.ofNat u :: utf16dec (v :: rest)

def unitsToBytes (us : List Nat) : Bytes := us.flatMap le16

/-- little-endian code units of a byte string; `odd` = a trailing single byte is left over -/
def bytesToUnits : Bytes → List Nat × Bool
  | a :: b :: r => let (us, o) := bytesToUnits r; ((a.toNat + 256 * b.toNat) :: us, o)
  | [_] => ([], true)
  | [] => ([], false)

/-- `MarshalUtf16Var s`: UTF-16LE of `s`, then of "\x00" -/
def marshalUtf16 (s : List Char) : Bytes := unitsToBytes (utf16enc s) ++ [0, 0]

/-- the UTF-8 text produced by the x/text decoder from a byte string (a trailing odd byte
    decodes to U+FFFD) -/
def decodeUtf16Bytes (bs : Bytes) : List Char :=
  let (us, odd) := bytesToUnits bs
  utf16dec us ++ (if odd then [Char.ofNat 0xFFFD] else [])

/-- `strings.Trim(s, "\x00")` on the decoded text -/
def trimNul (s : List Char) : List Char :=
  ((s.dropWhile (· == '\x00')).reverse.dropWhile (· == '\x00')).reverse

/-- `ParseUtf16Var` (after the F12a repair: empty input is an error, not an index panic) -/
def parseUtf16 (bs : Bytes) : Outcome (List Char) :=
  let s := decodeUtf16Bytes bs
  match s.getLast? with
  | none => .err
  | some c => if c ≠ '\x00' then .err else .ok (trimNul s)

/-- `ReadNullString`: two bytes at a time up to and including the first aligned 00 00.
    (A final single byte is returned as it is — F32: it used to be padded with the zero of the 2-byte block, which turned a lone trailing zero byte into a terminator.) -/
def readNullString : Bytes → Bytes × Bytes
  | a :: b :: r => if a == 0 && b == 0 then ([0, 0], r) else
      let (x, rest) := readNullString r; (a :: b :: x, rest)
  | [a] => ([a], [])
  | [] => ([], [])

/-- `Efistring.Unmarshal` -/
def efistringUnmarshal (bs : Bytes) : Outcome (List Char) := parseUtf16 (readNullString bs).1

end GoUefi
