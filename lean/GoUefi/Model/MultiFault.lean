import GoUefi.Model.Pe
/-
  The streamed digest of `PECOFFBinary.Hash` against a caller-supplied `io.ReaderAt` that may fail
  (C15, reader part; C01 for conforming readers that report `io.EOF` together with a full read):

      io.Copy(h, io.NewSectionReader(multi, 0, multi.Size()))

  `multi.ReadAt` (multireader.go, after the F21 repair) reads part by part; every part is an
  `io.SectionReader` over the caller's reader, so one part read is exactly one `ReadAt` call on the
  caller's reader.  The environment answers the k-th such call.
-/
namespace GoUefi.Impl

/-- error classes that matter to `io.Copy` -/
inductive RdErr where
  | none          -- nil
  | eof           -- io.EOF
  | unexpected    -- io.ErrUnexpectedEOF
  | other         -- any other error
deriving DecidableEq, Repr

/-- the caller's reader answering one `ReadAt(p, off)`: how many of the requested bytes it delivers
    (clipped to the request by the model) and the error it reports -/
structure PartAns where
  n : Nat
  err : RdErr
deriving DecidableEq, Repr

/-- `env k want`: the answer to the k-th read, which asked for `want` bytes -/
abbrev RdEnv := Nat → Nat → PartAns

/-- The `io.ReaderAt` contract: fewer bytes than requested only together with an error.
    (Against a reader that breaks it, `multi.ReadAt` used to restart the part at offset 0 or spin;
    since the F25 repair it reports an error, which is what the model always answered: `.other`.) -/
def RdEnv.Contract (env : RdEnv) : Prop := ∀ k want, (env k want).err = .none → want ≤ (env k want).n

/-- A reader that delivers everything, possibly reporting `io.EOF` along with a read -/
def RdEnv.Delivers (env : RdEnv) : Prop :=
  ∀ k want, want ≤ (env k want).n ∧ ((env k want).err = .none ∨ (env k want).err = .eof)

/-- `multi.ReadAt(p, off)`, `len p = len`, reads numbered from `k`: bytes placed in `p`, the error
    returned, and the number of the next read.

    F21 repair: the bytes of a read are counted even when it reports an error; `io.EOF` with a full
    read is no error; `io.EOF` with a short read becomes `io.ErrUnexpectedEOF`. -/
def multiReadAtE (env : RdEnv) : List Bytes → Nat → Nat → Nat → Bytes × RdErr × Nat
  | [], _, len, k => ([], if len = 0 then .none else .unexpected, k)
  | p :: ps, off, len, k =>
    if len = 0 then ([], .none, k)
    else if p.length ≤ off then multiReadAtE env ps (off - p.length) len k
    else
      let want := min len (p.length - off)
      let a := env k want
      let n := min a.n want
      let got := (p.drop off).take n
      let e : RdErr := match a.err with
        | .eof => if n = want then .none else .unexpected
        | e => e
      if e ≠ .none then (got, e, k + 1)
      else if n < want then (got, .other, k + 1)          -- outside the io.ReaderAt contract
      else if want = len then (got, .none, k + 1)
      else
        let (more, e', k') := multiReadAtE env ps 0 (len - want) (k + 1)
        (got ++ more, e', k')

/-- `io.Copy(dst, io.NewSectionReader(m, 0, total))` with a buffer of `chunk` bytes, reads numbered
    from `k`: what was written to `dst` and the error `io.Copy` returns (`.none` = nil). -/
def copyAllE (env : RdEnv) (ps : List Bytes) (chunk : Nat) : Nat → Nat → Nat → Bytes × RdErr
  | 0, _, _ => ([], .other)
  | fuel+1, off, k =>
    let total := (ps.map List.length).sum
    if off ≥ total then ([], .none) else      -- SectionReader.Read reports io.EOF: io.Copy returns nil
    let want := min chunk (total - off)
    match multiReadAtE env ps off want k with
    | (got, .none, k') =>
      if got.isEmpty then ([], .other) else   -- (0, nil) for a non-empty request: not reachable under Contract
      let (rest, e) := copyAllE env ps chunk fuel (off + got.length) k'
      (got ++ rest, e)
    | (got, .eof, _) => (got, .none)          -- io.Copy takes io.EOF for the end of the stream
    | (got, e, _) => (got, e)

/-- `Hash`: the bytes digested, or `none` when `io.Copy` failed (Hash returns nil) -/
def hashInputE (env : RdEnv) (parts : List Bytes) (chunk : Nat) : Option Bytes :=
  let ps := multiParts parts
  match copyAllE env ps chunk (ps.flatten.length + 1) 0 0 with
  | (out, .none) => some out
  | _ => none

/-! ### the code before the F21 repair, kept to show (kernel-checked) that it breaks the statements -/

/-- `multi.ReadAt` before F21: a part's error is returned as it is, without the bytes of that read -/
def multiReadAtOld (env : RdEnv) : List Bytes → Nat → Nat → Nat → Bytes × RdErr × Nat
  | [], _, len, k => ([], if len = 0 then .none else .unexpected, k)
  | p :: ps, off, len, k =>
    if len = 0 then ([], .none, k)
    else if p.length ≤ off then multiReadAtOld env ps (off - p.length) len k
    else
      let want := min len (p.length - off)
      let a := env k want
      let n := min a.n want
      let got := (p.drop off).take n
      if a.err ≠ .none then ([], a.err, k + 1)
      else if n < want then (got, .other, k + 1)
      else if want = len then (got, .none, k + 1)
      else
        let (more, e', k') := multiReadAtOld env ps 0 (len - want) (k + 1)
        (got ++ more, e', k')          -- `return n, err0`: n counts the earlier parts only

def copyAllOld (env : RdEnv) (ps : List Bytes) (chunk : Nat) : Nat → Nat → Nat → Bytes × RdErr
  | 0, _, _ => ([], .other)
  | fuel+1, off, k =>
    let total := (ps.map List.length).sum
    if off ≥ total then ([], .none) else
    let want := min chunk (total - off)
    match multiReadAtOld env ps off want k with
    | (got, .none, k') =>
      if got.isEmpty then ([], .other) else
      let (rest, e) := copyAllOld env ps chunk fuel (off + got.length) k'
      (got ++ rest, e)
    | (got, .eof, _) => (got, .none)
    | (got, e, _) => (got, e)

/-! ### environments used by the driver and the examples -/

/-- the healthy reader -/
def envOk : RdEnv := fun _ want => ⟨want, .none⟩

/-- healthy, but `io.EOF` is reported together with the `j`-th read -/
def envEofWith (j : Nat) : RdEnv := fun k want => if k = j then ⟨want, .eof⟩ else ⟨want, .none⟩

/-- the `j`-th read fails: `kind` 0 = error without data, 1 = one byte short with
    io.ErrUnexpectedEOF, 2 = one byte short with io.EOF, 3 = nothing with io.EOF,
    4 = one byte short with a nil error, 5 = nothing with a nil error (4 and 5 break the
    io.ReaderAt contract; since the F25 repair `multi.ReadAt` reports them as errors) -/
def envFault (j kind : Nat) : RdEnv := fun k want =>
  if k ≠ j then ⟨want, .none⟩ else
  match kind with
  | 0 => ⟨0, .other⟩
  | 1 => if want ≤ 1 then ⟨0, .other⟩ else ⟨want - 1, .unexpected⟩
  | 2 => if want ≤ 1 then ⟨0, .other⟩ else ⟨want - 1, .eof⟩
  | 3 => ⟨0, .eof⟩
  | 4 => ⟨want - 1, .none⟩
  | _ => ⟨0, .none⟩

end GoUefi.Impl
