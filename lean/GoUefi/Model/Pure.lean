import GoUefi.Model.Authenticode
import GoUefi.Model.SigDb
/-
  Model for C19: object states keep what Go keeps (the certificate table as a `bytes.Buffer`
  with a read offset; the signed-update wrapper as a `bytes.Buffer` *value*), and every read-only
  method is a state transformer `St → St × Result` written with the buffer methods the Go method
  actually calls.  Which methods those are is a regenerated fact (`Extracted.writes`,
  `Extracted.valueReceivers`): see Properties/C19x.lean.
-/
namespace GoUefi.Impl

/-- Go `bytes.Buffer`: contents and read offset -/
structure Buffer where
  buf : Bytes
  off : Nat
deriving DecidableEq, Repr

/-- `Buffer.Bytes()` / `Len()`: the unread part, no state change -/
def Buffer.bytes (b : Buffer) : Bytes := b.buf.drop b.off
/-- `Buffer.Next(n)` / `Read`: consumes -/
def Buffer.next (b : Buffer) (n : Nat) : Buffer × Bytes := ({ b with off := b.off + min n (b.buf.length - b.off) }, (b.buf.drop b.off).take n)
/-- draining the buffer (`io.Copy(dst, &buf)`, `WriteTo`): consumes everything -/
def Buffer.drain (b : Buffer) : Buffer × Bytes := ({ b with off := b.buf.length }, b.buf.drop b.off)

/-- a parsed image as Go keeps it: immutable readers (modelled by the bytes they deliver) and the
    certificate table buffer -/
structure ImgSt where
  parsed : Parsed
  table : Buffer
deriving DecidableEq, Repr

def ImgSt.view (s : ImgSt) : Parsed := { s.parsed with certTable := s.table.bytes }

/-- the read-only methods of `PECOFFBinary`: fresh section readers over stateless `ReadAt`, and
    `certTable.Bytes()` (non-consuming) -/
def ImgSt.hash (C : Crypto) (s : ImgSt) : ImgSt × Bytes := (s, C.sha256 (hashStream s.view))
def ImgSt.bytesOut (s : ImgSt) : ImgSt × Bytes := (s, s.view.bytes)
def ImgSt.signatures (s : ImgSt) : ImgSt × Outcome (List WinCert) := (s, s.view.signatures)
def ImgSt.verify (C : Crypto) (certsOk : Bytes → Bool) (c : Cert) (s : ImgSt) : ImgSt × Outcome Bool :=
  (s, s.view.verify C certsOk c)

/-- what `Signatures()` would be if it walked the table with `Next` instead of `Bytes()` (the
    realistic regression): it consumes the table -/
def ImgSt.signaturesConsuming (s : ImgSt) : ImgSt × Outcome (List WinCert) :=
  let (t', all) := s.table.drain
  ({ s with table := t' }, signaturesAux all.length all)

/-- the signed-update wrapper `efibytes` is a `bytes.Buffer` VALUE: `Marshal` has a value receiver,
    so Go copies the struct (contents shared, read offset copied) and drains the copy -/
def updMarshal (s : Buffer) : Buffer × Bytes :=
  let copy := s
  let (_, out) := copy.drain
  (s, out)

/-- with a pointer receiver the shared buffer itself would be drained -/
def updMarshalPtr (s : Buffer) : Buffer × Bytes := s.drain

/-- database read-only methods: iterate without mutation -/
def dbBytes (db : Db) : Db × Bytes := (db, encDb db)
def dbHas (t o d : Bytes) (db : Db) : Db × Bool := (db, db.has t o d)
def dbHasAll (t : Bytes) (sigs : List SData) (db : Db) : Db × Bool := (db, db.hasAll t sigs)

/-! ### schedules: threads whose atomic steps read the shared object and update only thread-local state -/

/-- one invocation: its local start value and its atomic steps; a step can read the shared state
    `S` but — by its type — cannot change it -/
structure Invocation (S L : Type) where
  init : L
  steps : List (S → L → L)

/-- sequential execution of the first `k` steps -/
def Invocation.runPrefix {S L} (i : Invocation S L) (s : S) (k : Nat) : L :=
  (i.steps.take k).foldl (fun l f => f s l) i.init

def Invocation.result {S L} (i : Invocation S L) (s : S) : L := i.runPrefix s i.steps.length

/-- thread pool state: per thread, how many steps it has executed and its local value -/
structure Thread (S L : Type) where
  inv : Invocation S L
  pc : Nat
  loc : L

def Thread.step {S L} (s : S) (t : Thread S L) : Thread S L :=
  match t.inv.steps[t.pc]? with
  | some f => { t with pc := t.pc + 1, loc := f s t.loc }
  | none => t

/-- run a schedule (a list of thread indices; an index out of range or a finished thread is a no-op) -/
def runSchedule {S L} (s : S) : List (Thread S L) → List Nat → List (Thread S L)
  | ts, [] => ts
  | ts, i :: sched => runSchedule s (ts.modify i (Thread.step s)) sched

def startThreads {S L} (is : List (Invocation S L)) : List (Thread S L) := is.map fun i => ⟨i, 0, i.init⟩

end GoUefi.Impl
