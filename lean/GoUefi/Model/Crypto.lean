import GoUefi.Base
/-
  Cryptography is abstract in every theorem: a structure argument (no axioms).
  `GoUefi/Crypto/Exec.lean` instantiates it with executable SHA-256 and RSA PKCS#1 v1.5 for the driver.
-/
namespace GoUefi

structure PubKey where
  n : Nat
  e : Nat
deriving DecidableEq, Repr

structure Crypto where
  sha256 : Bytes → Bytes
  /-- RSA PKCS#1 v1.5 verification with SHA-256 over the *message* (Go: `CheckSignature(SHA256WithRSA, msg, sig)`) -/
  rsaVerify : PubKey → Bytes → Bytes → Bool

/-- what a verifier needs from an X.509 certificate -/
structure Cert where
  rawIssuer : Bytes
  serial : Int
  pub : PubKey
deriving DecidableEq, Repr

end GoUefi
