import GoUefi.Model.Pkcs7
import GoUefi.Model.Guid
import GoUefi.Model.AuthDesc
/-
  Model of signature.SignEFIVariable (C06) after the fix: commit F14 (the timestamp is UTC).
-/
namespace GoUefi.Impl
open GoUefi.Der

/-- civil time as `time.Now().UTC()` reports it -/
structure Civil where
  year : Nat
  month : Nat
  day : Nat
  hour : Nat
  minute : Nat
  second : Nat
deriving DecidableEq, Repr

/-- `util.EFITime` as `binary.Write(LittleEndian)` emits it: Year(2) Month Day Hour Minute Second
    Pad1 Nanosecond(4) TimeZone(2) Daylight Pad2 — everything after Second is zero -/
def efiTime (t : Civil) : Bytes :=
  le16 t.year ++ [t.month.toUInt8, t.day.toUInt8, t.hour.toUInt8, t.minute.toUInt8, t.second.toUInt8, 0] ++
    le32 0 ++ le16 0 ++ [0, 0]

def guidPkcs7 : Bytes := guidWire ⟨0x4aafd29d, 0x68df, 0x49ee, [0x8a, 0xa9, 0x34, 0x7d, 0x37, 0x56, 0x65, 0xa7]⟩

/-- the buffer that is signed: name bytes each followed by 0x00 (UTF-16LE for ASCII, no
    terminator) ‖ vendor GUID ‖ attributes ‖ EFI_TIME ‖ payload -/
def signedBuffer (name : Bytes) (guid : Bytes) (attrs : Nat) (time : Bytes) (payload : Bytes) : Bytes :=
  (name.flatMap fun b => [b, 0]) ++ guid ++ le32 attrs ++ time ++ payload

/-- the bare SignedData: the element inside the outer ContentInfo's [0] -/
def unwrapContentInfo (der : Bytes) : Option Bytes :=
  match parseContentInfo der with
  | some (_, content, _) => some content
  | none => none

/-- `SignEFIVariable` ‖ payload, parametric in the certificate fields, the UTCTime text of the
    signing-time attribute, the digest of the signed buffer and the RSA signature -/
def varSign (name guid : Bytes) (attrs : Nat) (t : Civil) (payload certRaw issuerRaw : Bytes) (serial : Nat)
    (timeText md sig : Bytes) : Option Bytes :=
  match signPKCS7 oidData (signedBuffer name guid attrs (efiTime t) payload) certRaw issuerRaw serial timeText md sig with
  | none => none
  | some der =>
    match unwrapContentInfo der with
    | none => none
    | some sd =>
      some (efiTime t ++ writeWinCert ⟨(24 + sd.length) % 2^32, winCertRevision, winCertTypeEfiGuid, []⟩ ++ guidPkcs7 ++ sd ++ payload)

end GoUefi.Impl
