import GoUefi.Model.SigDb
import GoUefi.Model.AuthDesc
/-
  Model of the in-memory variable store offered for tests (efivarfs/testfs, C12) after the fix:
  commit F11 (a write replaces the variable, as on efivarfs, instead of overwriting a prefix of the
  old file).  A variable's file holds the 4-byte attribute mask followed by the value; the model
  keeps the value (the attribute prefix is C11's business).
-/
namespace GoUefi.Impl

abbrev Store := List (String × Bytes)

def Store.get (s : Store) (v : String) : Option Bytes := (s.find? (·.1 == v)).map (·.2)
def Store.put (s : Store) (v : String) (b : Bytes) : Store := (v, b) :: s.filter (·.1 != v)

def isSecureBootVar (v : String) : Bool := v == "PK" || v == "KEK" || v == "db" || v == "dbx"

/-- what `TestFS.WriteVar` stores for the marshalled bytes `b` of the value: for PK/KEK/db/dbx it
    probes for an authentication descriptor and, when one parses, stores the bytes that follow it
    as they are (F23 repair: it used to decode them as a signature database, drop the error and
    store the re-encoding, i.e. the empty database for list types the decoder does not handle) -/
def storedValue (v : String) (b : Bytes) : Bytes :=
  if isSecureBootVar v then
    match readAuth b with
    | .ok (_, rest) => rest
    | _ => b
  else b

/-- plain `WriteVar` -/
def Store.writeVar (s : Store) (v : String) (b : Bytes) : Store := s.put v (storedValue v b)

/-- `WriteSignedUpdate` of `payload` with descriptor `desc` (the bytes C06 describes) -/
def Store.writeSigned (s : Store) (v : String) (desc payload : Bytes) : Store := s.put v (storedValue v (desc ++ payload))

/-- typed read: secure-boot variables decode as signature databases, others are raw -/
def Store.read (s : Store) (v : String) : Outcome Bytes :=
  match s.get v with
  | none => .err
  | some b =>
    if isSecureBootVar v then
      match readDb b with
      | some db => .ok (encDb db)
      | none => .err
    else .ok b

end GoUefi.Impl
