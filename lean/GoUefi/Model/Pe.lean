import GoUefi.Base
import GoUefi.Spec.Pe
import GoUefi.Model.AuthDesc
/-
  Impl model of authenticode/checksum.go and multireader.go after the fix: commits (F17 empty
  parts are skipped by the multi-reader; F5 a certificate-table size larger than the data after the
  last section is an error, not a `Truncate` panic; F16 `Bytes()` does not pre-size its buffer; F18 an
  image whose headers and sections exceed the file size is rejected).

  `debug/pe.NewFile` is external: the model receives what it returned (`PeFacts`).
-/
namespace GoUefi.Impl

/-- what `debug/pe` told `Parse` (plus e_lfanew, which `Parse` reads itself from the DOS header) -/
structure PeFacts where
  lfanew : Nat
  kind : Nat                  -- 32, 64, or 0 when the optional header is of neither type
  soh : Nat                   -- SizeOfHeaders
  ddVA : Nat                  -- DataDirectory[4].VirtualAddress
  ddSize : Nat                -- DataDirectory[4].Size
  secs : List (Nat × Nat)     -- (Offset, Size) of f.Sections in header order
deriving DecidableEq, Repr

/-- the facts `debug/pe` returns for an image whose headers are well-formed -/
def factsOf (b : Bytes) : PeFacts :=
  let l := Spec.PE.layout b
  { lfanew := l.L, kind := if l.plus then 64 else 32, soh := l.soh,
    ddVA := Spec.PE.certAddr b, ddSize := Spec.PE.certSize b, secs := l.secs }

/-- one range handed to the multi-reader: its declared size and the bytes the underlying
    `io.SectionReader` can actually deliver (shorter when the range leaves the file) -/
structure Part where
  size : Nat
  data : Bytes
deriving DecidableEq, Repr

def Part.full (p : Part) : Bool := p.data.length == p.size

/-- `makeSectionReader(r, off, n)` = `io.NewSectionReader(r, off, n-off)` for `off ≤ n` -/
def rangePart (img : Bytes) (off n : Nat) : Part := ⟨n - off, slice img off n⟩

/-- Go `PECOFFBinary` -/
structure Parsed where
  ddVA : Nat
  ddSize : Nat
  parts : List Part           -- hashContent, in order
  length : Nat                -- file size rounded up to 8
  padding : Nat
  first : Bytes               -- firstSection: [0, dd)
  optDataDir : Bytes          -- the 8-byte directory entry to emit
  last : Bytes                -- lastSection: [dd+8, SUM + binaryRest)
  certTable : Bytes
  regular : Bool              -- every header-declared range has non-negative length (regions R0/R1)
deriving DecidableEq, Repr

def ddOffset (f : PeFacts) : Nat :=
  let offset := f.lfanew + 24
  if f.kind = 32 then offset + 128 else if f.kind = 64 then offset + 144 else 0

/-- `slices.SortFunc(sections, by Offset)` then the non-empty ones: on distinct offsets this is the
    order of `Spec.PE.sortSecs` -/
def hashedSecs (f : PeFacts) : List (Nat × Nat) := Spec.PE.sortSecs (f.secs.filter (·.2 ≠ 0))

/-- `authenticode.Parse` -/
def parse (img : Bytes) (f : PeFacts) : Outcome Parsed :=
  if img.length < 96 then .err else        -- r.ReadAt(dosheader[0:96], 0)
  let offset := f.lfanew + 24
  let ck := offset + 64
  let dd := ddOffset f
  let secs := hashedSecs f
  let sum := f.soh + (secs.map (·.2)).sum
  let restLen := img.length - sum           -- io.Copy of everything from SUM on
  if restLen < f.ddSize then .err else      -- binaryRest < 0 (repaired: was a Truncate panic)
  if img.length < sum then .err else        -- headers and sections exceed the file size (F18 repair)
  -- the certificate table has to be the 8-aligned tail of the file (F22 repair)
  if f.ddSize ≠ 0 ∧ (f.ddVA % 8 ≠ 0 ∨ f.ddVA + f.ddSize ≠ img.length) then .err else
  let binaryRest := restLen - f.ddSize
  let fileSize := sum + restLen
  let pad := pad8 fileSize
  let regular := decide (ck + 4 ≤ dd ∧ dd + 8 ≤ f.soh ∧ dd + 8 ≤ sum + binaryRest)
  .ok { ddVA := f.ddVA, ddSize := f.ddSize,
        parts := [rangePart img 0 ck, rangePart img (ck + 4) dd, rangePart img (dd + 8) f.soh] ++
                 (secs.map fun s => (⟨s.2, slice img s.1 (s.1 + s.2)⟩ : Part)) ++
                 [⟨binaryRest + pad, slice img sum (sum + binaryRest) ++ zeros pad⟩],
        length := fileSize + pad, padding := pad,
        first := slice img 0 dd, optDataDir := slice img dd (dd + 8),
        last := slice img (dd + 8) (sum + binaryRest),
        certTable := slice img f.ddVA (f.ddVA + f.ddSize), regular := regular }

/-! ### the positional multi-reader (`multireader.go`) -/

/-- `newMultiReaderAt`: parts of size 0 are skipped (F17 repair) -/
def multiParts (ps : List Bytes) : List Bytes := ps.filter (· ≠ [])

/-- `multi.ReadAt(p, off)` with `len p = len` on parts that deliver all their bytes: skip the parts
    that end at or before `off` (`sort.Search` for the first part with `part.off + size > off`),
    then read part by part.  Returns the bytes read and whether `io.ErrUnexpectedEOF` is reported. -/
def multiReadAt : List Bytes → Nat → Nat → Bytes × Bool
  | [], _, len => ([], len != 0)
  | p :: ps, off, len =>
    if len = 0 then ([], false)
    else if p.length ≤ off then multiReadAt ps (off - p.length) len     -- part contributes nothing
    else
      let got := (p.drop off).take len
      if got.length = len then (got, false)
      else
        let (more, e) := multiReadAt ps 0 (len - got.length)
        (got ++ more, e)

/-- `io.Copy(dst, io.NewSectionReader(m, 0, m.Size()))` with a buffer of `chunk` bytes -/
def copyAll (ps : List Bytes) (chunk : Nat) : Nat → Nat → Bytes
  | 0, _ => []
  | fuel+1, off =>
    let total := (ps.map List.length).sum
    if off ≥ total then [] else
    let want := min chunk (total - off)
    let (got, _) := multiReadAt ps off want
    if got.isEmpty then [] else got ++ copyAll ps chunk fuel (off + got.length)

/-- the byte stream that `Hash` digests (exact when every part is full) -/
def hashStream (p : Parsed) : Bytes := ((multiParts (p.parts.map (·.data))).flatten)

/-- `PECOFFBinary.Bytes()`: first ‖ directory entry ‖ last ‖ padding ‖ certificate table -/
def Parsed.bytes (p : Parsed) : Bytes := p.first ++ p.optDataDir ++ p.last ++ zeros p.padding ++ p.certTable

/-- `Signatures()`: walk the certificate table while more than 8 bytes remain -/
def signaturesAux : Nat → Bytes → Outcome (List WinCert)
  | 0, _ => .ok []
  | fuel+1, t =>
    if t.length ≤ 8 then .ok [] else
    match readWinCert t with
    | .ok (w, rest) =>
      match signaturesAux fuel (rest.drop (pad8 w.length)) with
      | .ok ws => .ok (w :: ws)
      | .err => .err
      | .panic => .panic
      | .exit => .exit
    | .err => .err
    | .panic => .panic
    | .exit => .exit

def Parsed.signatures (p : Parsed) : Outcome (List WinCert) := signaturesAux p.certTable.length p.certTable

/-- `AppendSignature` (uint32 arithmetic on the directory entry) -/
def Parsed.appendSignature (p : Parsed) (sig : Bytes) : Parsed :=
  let len := (8 + sig.length) % 2^32
  let entry := writeWinCert ⟨len, 0x0200, winCertTypePkcs, sig⟩
  let (va, sz) := if p.ddVA ≠ 0 ∧ p.ddSize ≠ 0 then (p.ddVA, (p.ddSize + len) % 2^32) else (p.length % 2^32, len)
  let padn := pad8 len
  let sz := (sz + padn) % 2^32
  { p with ddVA := va, ddSize := sz, certTable := p.certTable ++ entry ++ zeros padn,
           optDataDir := le32 va ++ le32 sz }

end GoUefi.Impl
