import GoUefi.Base
import GoUefi.Model.Guid
/-
  Model of the variable I/O path (C11, C12, C15): efivarfs.EFIFS.WriteVar / GetVar over
  fswrapper.FSWrapper and the legacy twin efi/attributes.WriteEfivarsWithGuid, as programs over the
  caller-supplied filesystem (free-monad values), so that the sequence of calls is a value and
  every fault pattern can be quantified over.
-/
namespace GoUefi.Impl

/-- calls the library issues on the `afero.Fs` / `afero.File` it was given -/
inductive Call where
  | openFile (path : String) (flags : Nat) (perm : Nat)
  | write (buf : Bytes)
  | close
  | open (path : String)
  | stat
  | read (n : Nat)
deriving DecidableEq, Repr

/-- what the environment answers -/
inductive Res where
  | ok                      -- open / close succeeded
  | wrote (n : Nat)         -- Write returned n, nil
  | size (n : Nat)          -- Stat: file size
  | data (b : Bytes)        -- Read: the bytes delivered (io.ReadFull semantics are applied by the caller)
  | fail                    -- the call returned an error
deriving DecidableEq, Repr

inductive Prog (α : Type) where
  | ret : α → Prog α
  | call : Call → (Res → Prog α) → Prog α

/-- run a program against an environment that answers the k-th call; returns the result and the trace -/
def Prog.run {α} : Prog α → (Nat → Call → Res) → Nat → α × List (Call × Res)
  | .ret a, _, _ => (a, [])
  | .call c k, env, i =>
    let r := env i c
    let (a, tr) := (k r).run env (i + 1)
    (a, (c, r) :: tr)

def O_WRONLY : Nat := 1
def O_CREATE : Nat := 0x40
def O_APPEND : Nat := 0x400
def attrAppendWrite : Nat := 0x40

/-- `path.Join(dir, fmt.Sprintf("%s-%s", name, guid.Format()))` for a clean `dir` and a name without '/' -/
def varPath (dir : String) (name : List Char) (g : Guid) : String :=
  dir ++ "/" ++ String.ofList name ++ "-" ++ String.ofList g.format

def writeFlags (attrs : Nat) : Nat :=
  O_WRONLY + O_CREATE + (if attrs / attrAppendWrite % 2 = 1 then O_APPEND else 0)

/-- `WriteEfivarsWithGuid` (both implementations): one OpenFile, one Write of attrs‖value, deferred
    Close whose error is reported when nothing else failed -/
def writeVar (dir : String) (name : List Char) (g : Guid) (attrs : Nat) (value : Bytes) : Prog (Outcome Unit) :=
  .call (.openFile (varPath dir name g) (writeFlags attrs) 0o644) fun r =>
    match r with
    | .fail => .ret .err
    | _ =>
      let buf := le32 attrs ++ value
      .call (.write buf) fun w =>
        .call .close fun cl =>
          match w with
          | .wrote n => if n = buf.length then (if cl = .fail then .ret .err else .ret (.ok ())) else .ret .err
          | _ => .ret .err

/-- `Attributes.Equal`: every required bit is present in the stored mask -/
def attrsSubset (required stored : Nat) : Bool := (List.range 32).all fun i => required / 2^i % 2 = 0 || stored / 2^i % 2 = 1

/-- `GetVarWithAttributes`: Open, Stat, 4 bytes of attributes, the remainder, the subset test, then
    the decoder `dec` -/
def getVar {α} (dir : String) (name : List Char) (g : Guid) (required : Nat) (dec : Bytes → Outcome α) :
    Prog (Outcome (Nat × α)) :=
  .call (.open (varPath dir name g)) fun r =>
    match r with
    | .fail => .ret .err
    | _ =>
      .call .stat fun st =>
        match st with
        | .size sz =>
          .call (.read 4) fun a =>
            match a with
            | .data ab =>
              if ab.length ≠ 4 then .call .close fun _ => .ret .err else
              .call (.read (sz - 4)) fun v =>
                .call .close fun cl =>
                  match v with
                  | .data vb =>
                    if vb.length ≠ sz - 4 then .ret .err else
                    if cl = .fail then .ret .err else
                    if !attrsSubset required (rd32 ab) then .ret .err else
                    match dec vb with
                    | .ok x => .ret (.ok (rd32 ab, x))
                    | .err => .ret .err
                    | .panic => .ret .panic
                    | .exit => .ret .exit
                  | _ => .ret .err
            | _ => .call .close fun _ => .ret .err
        | _ => .call .close fun _ => .ret .err

/-- the environment of a healthy in-memory file holding `file` (none = absent) -/
def fileEnv (file : Option Bytes) : Nat → Call → Res
  | _, .open _ => if file.isSome then .ok else .fail
  | _, .stat => .size (file.getD []).length
  | 2, .read n => .data ((file.getD []).take n)
  | _, .read n => .data (((file.getD []).drop 4).take n)
  | _, .openFile _ _ _ => .ok
  | _, .write b => .wrote b.length
  | _, .close => .ok

end GoUefi.Impl
