import GoUefi.Base
import GoUefi.Model.Guid
import GoUefi.Model.Utf16
/-
  Model of efivarfs.bootorder / GetBootEntry naming and of efi/device (C18), after the fix:
  commits (F15 upper-case boot numbers; F15b/c, F12c hard-drive text form; F12 device-path reader
  returns an error instead of calling log.Fatal; F35 a trailing single byte of BootOrder is not an entry).
-/
namespace GoUefi

/-- upper-case hex digit -/
def hexDigitU (n : Nat) : Char := if n < 10 then Char.ofNat (48 + n) else Char.ofNat (55 + n)

/-- what `%04X` prints for a value < 65536 -/
def hex4U (n : Nat) : List Char :=
  [hexDigitU (n / 4096 % 16), hexDigitU (n / 256 % 16), hexDigitU (n / 16 % 16), hexDigitU (n % 16)]

namespace Spec
/-- firmware's name of a boot option: "Boot" followed by four upper-case hex digits (UEFI §3.3) -/
def fwBootName (n : Nat) : List Char := "Boot".toList ++ hex4U n

/-- the complete little-endian 16-bit entries of a BootOrder value (UEFI §3.3: an array of UINT16), in
    order; a trailing single byte of an odd-length value is not an entry -/
def entriesLE : Bytes → List Nat
  | a :: b :: r => (a.toNat + 256 * b.toNat) :: entriesLE r
  | [_] => []
  | [] => []
end Spec

namespace Impl
/-- `bootorder.Unmarshal` (`for i := 0; b.Len() >= 2; i += 2`): the complete 2-byte little-endian
    chunks, each formatted with "Boot%04X".  A trailing single byte of an odd-length value is no
    16-bit entry: it is not decoded and adds no name (F35 repair: the loop ran while `b.Len() != 0`
    and read the last byte, next to a zero filler, as the low byte of a made-up last entry). -/
def bootOrder : Bytes → List (List Char)
  | a :: b :: r => ("Boot".toList ++ hex4U (a.toNat + 256 * b.toNat)) :: bootOrder r
  | [_] => []
  | [] => []

/-- device path nodes as the Go structs keep them (header = type, subtype, 2 length bytes) -/
inductive Node where
  | pci (hdr : Bytes) (fn dev : Nat)
  | acpi (hdr : Bytes) (hid uid : Bytes)
  | hd (hdr : Bytes) (part : Nat) (start size : Bytes) (sig : Bytes) (fmt sigType : Nat)
  | file (hdr : Bytes) (path : List Char)
  | fwfile (hdr : Bytes) (name : Bytes)
  | usb (hdr : Bytes) (port iface : Nat)
  | vendor (hdr : Bytes) (guid : Bytes)    -- vendor messaging node (F26 repair: it was dropped as nil)
  | generic (hdr : Bytes)                  -- a subtype that is not decoded: the bare header (F26 repair: was a nil entry)
deriving DecidableEq, Repr

structure LoadOption where
  attrs : Nat
  pathLen : Nat
  desc : List Char
  nodes : List Node
deriving DecidableEq, Repr

/-- one turn of the `ParseDevicePath` loop: `none` = stop (end node or unknown type),
    `some (node, rest)` = continue -/
def parseNode (bs : Bytes) : Outcome (Option (Node × Bytes)) :=
  match readN 4 bs with
  | .error _ => .err
  | .ok (h, r) =>
    let ty := byteAt h 0
    let sub := byteAt h 1
    if ty = 1 then
      if sub = 1 then
        match readN 2 r with
        | .error _ => .err           -- parseHardwareDevicePath: error (the exported wrapper would log.Fatal)
        | .ok (x, r') => .ok (some (.pci h (byteAt x 0) (byteAt x 1), r'))
      else .ok (some (.generic h, r))
    else if ty = 2 then
      if sub = 1 then
        match readN 8 r with
        | .error _ => .err
        | .ok (x, r') => .ok (some (.acpi h (x.take 4) (x.drop 4), r'))
      else if sub = 2 then .err      -- expanded ACPI node: "not implemented" error
      else .ok (some (.generic h, r))
    else if ty = 4 then
      if sub = 1 then
        match readN 38 r with
        | .error _ => .err
        | .ok (x, r') =>
          .ok (some (.hd h (rd32 (x.take 4)) ((x.drop 4).take 8) ((x.drop 12).take 8) ((x.drop 20).take 16)
                    (byteAt x 36) (byteAt x 37), r'))
      else if sub = 4 then
        let (s, r') := readNullString r
        match parseUtf16 s with
        | .ok p => .ok (some (.file h p, r'))
        | .err => .err
        | .panic => .panic
        | .exit => .exit
      else if sub = 6 then
        match readN 16 r with
        | .error _ => .err
        | .ok (x, r') => .ok (some (.fwfile h x, r'))
      else .ok (some (.generic h, r))
    else if ty = 3 then
      if sub = 5 then
        match readN 2 r with
        | .error _ => .err
        | .ok (x, r') => .ok (some (.usb h (byteAt x 0) (byteAt x 1), r'))
      else if sub = 10 then
        match readN 16 r with
        | .error _ => .err
        | .ok (g, r') => .ok (some (.vendor h g, r'))
      else .ok (some (.generic h, r))
    else .ok none

/-- the `ParseDevicePath` loop (every turn consumes at least the 4 header bytes) -/
def parseDevicePath : Nat → Bytes → Outcome (List Node)
  | 0, _ => .err
  | fuel+1, bs =>
    match parseNode bs with
    | .ok none => .ok []
    | .ok (some (n, r)) =>
      match parseDevicePath fuel r with
      | .ok ns => .ok (n :: ns)
      | .err => .err
      | .panic => .panic
      | .exit => .exit
    | .err => .err
    | .panic => .panic
    | .exit => .exit

/-- `EFILoadOption.Unmarshal` -/
def loadOptionUnmarshal (bs : Bytes) : Outcome LoadOption :=
  match readN 4 bs with
  | .error _ => .err
  | .ok (a, r1) =>
    match readN 2 r1 with
    | .error _ => .err
    | .ok (l, r2) =>
      let (s, r3) := readNullString r2
      match parseUtf16 s with
      | .ok d =>
        match parseDevicePath (r3.length + 1) r3 with
        | .ok ns => .ok ⟨rd32 a, rd16 l, d, ns⟩
        | .err => .err
        | .panic => .panic
        | .exit => .exit
      | .err => .err
      | .panic => .panic
      | .exit => .exit

/-- `HardDriveMediaDevicePath.Format` (UEFI device-path text form, as EDK2 prints it) -/
def natHex (n : Nat) : List Char := (Nat.toDigits 16 n)

def pad8Hex (n : Nat) : List Char :=
  let d := natHex n
  List.replicate (8 - d.length) '0' ++ d

def hdText (part : Nat) (start size sig : Bytes) (sigType : Nat) : List Char :=
  let tail := ",0x".toList ++ natHex (rd64 start) ++ ",0x".toList ++ natHex (rd64 size) ++ [')']
  let head := "HD(".toList ++ (Nat.toDigits 10 part) ++ [',']
  if sigType = 1 then head ++ "MBR,0x".toList ++ pad8Hex (rd32 (sig.take 4)) ++ tail
  else if sigType = 2 then head ++ "GPT,".toList ++ (guidOfWire sig).format ++ tail
  else head ++ (Nat.toDigits 10 sigType) ++ ",0".toList ++ tail

def fileText (p : List Char) : List Char := "File(".toList ++ p ++ [')']

end Impl

namespace Spec
/-- independent encoder of a load option (UEFI §3.1.3 and §10.3): the inverse direction of the
    decoder, used to state the round trip -/
def encNode : Impl.Node → Bytes
  | .pci h fn dev => h ++ [fn.toUInt8, dev.toUInt8]
  | .acpi h hid uid => h ++ hid ++ uid
  | .hd h part start size sig fmt st => h ++ le32 part ++ start ++ size ++ sig ++ [fmt.toUInt8, st.toUInt8]
  | .file h p => h ++ marshalUtf16 p
  | .fwfile h name => h ++ name
  | .usb h port iface => h ++ [port.toUInt8, iface.toUInt8]
  | .vendor _ _ => []
  | .generic _ => []

def endNode : Bytes := [0x7f, 0xff, 0x04, 0x00]

def encodeLoadOption (lo : Impl.LoadOption) : Bytes :=
  le32 lo.attrs ++ le16 lo.pathLen ++ marshalUtf16 lo.desc ++ (lo.nodes.map encNode).flatten ++ endNode
end Spec

end GoUefi
