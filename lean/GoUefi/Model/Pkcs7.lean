import GoUefi.Model.Der
import GoUefi.Model.Crypto
/-
  Model of pkcs7/pkcs7.go after the fix: commits (F1 messageDigest is compared with the
  encapsulated content; F2 the signature is verified over the attributes as transmitted; F3 a
  signer without signed attributes is an error; F13 a signer error is returned).
-/
namespace GoUefi.Impl
open GoUefi.Der

def oidSignedData : List Nat := [1, 2, 840, 113549, 1, 7, 2]
def oidData : List Nat := [1, 2, 840, 113549, 1, 7, 1]
def oidSha256 : List Nat := [2, 16, 840, 1, 101, 3, 4, 2, 1]
def oidRsa : List Nat := [1, 2, 840, 113549, 1, 1, 1]
def oidContentType : List Nat := [1, 2, 840, 113549, 1, 9, 3]
def oidMessageDigest : List Nat := [1, 2, 840, 113549, 1, 9, 4]
def oidSigningTime : List Nat := [1, 2, 840, 113549, 1, 9, 5]

/-- Go `Attributes` (time kept as the UTCTime text `Marshal` writes; `raw` = the attributes as
    transmitted, re-tagged SET, absent for constructed values) -/
structure Attrs where
  contentType : Option (List Nat) := none
  md : Bytes := []
  time : Option Bytes := none
  other : List (List Nat × Bytes) := []
  raw : Option Bytes := none
deriving DecidableEq, Repr

structure Signer where
  version : Int
  issuer : Bytes
  serial : Int
  attrs : Option Attrs
  sig : Bytes
deriving DecidableEq, Repr

/-- Go `PKCS7` -/
structure P7 where
  oid : List Nat
  content : Bytes          -- body of the [0] EXPLICIT content, empty when absent
  certs : Option Bytes     -- raw certificates field
  signers : List Signer
deriving DecidableEq, Repr

def oidOr (o : List Nat) : Bytes := (addOID o).getD []

/-- one attribute: SEQUENCE { type, SET { value } } -/
def attrSeq (ty : List Nat) (value : Bytes) : Bytes := addASN1 tSEQ (oidOr ty ++ addASN1 tSET value)

/-- `bytes.Compare a b < 0` -/
def bytesLt : Bytes → Bytes → Bool
  | [], [] => false
  | [], _ :: _ => true
  | _ :: _, [] => false
  | x :: xs, y :: ys => if x < y then true else if y < x then false else bytesLt xs ys

/-- insert `e` in front of the first element that is not smaller (keeps equal elements in order) -/
def insertEnc (e : Bytes) : List Bytes → List Bytes
  | [] => [e]
  | x :: xs => if bytesLt x e then x :: insertEnc e xs else e :: x :: xs

/-- `sort.SliceStable(elems, bytes.Compare < 0)`: the stable sort of the encodings (F19: DER orders
    the elements of a SET OF by their encodings) -/
def sortEnc (l : List Bytes) : List Bytes := l.foldr insertEnc []

/-- body of `Attributes.Marshal`'s SET; `none` = `BytesOrPanic` panics (invalid OID) -/
def attrsBody (a : Attrs) : Option Bytes :=
  -- F30 repair: attributes without a content type (parsed ones may lack it) are encoded without that
  -- attribute instead of making the builder panic on an absent object identifier
  let ctElem : Option (List Bytes) :=
    match a.contentType with
    | none => some []
    | some ct => if validOID ct then some [attrSeq oidContentType (oidOr ct)] else none
  match ctElem with
  | none => none
  | some ce =>
    if !(a.other.all fun x => validOID x.1) then none else
    some (sortEnc (ce ++
      (match a.time with | some t => [attrSeq oidSigningTime (addASN1 tUTC t)] | none => []) ++
      [attrSeq oidMessageDigest (addOctets a.md)] ++
      (a.other.map fun x => attrSeq x.1 x.2))).flatten

/-- `Attributes.Marshal` -/
def Attrs.marshal (a : Attrs) : Outcome Bytes :=
  match attrsBody a with
  | some b => .ok (addASN1 tSET b)
  | none => .panic

def algSha256 : Bytes := addASN1 tSEQ (oidOr oidSha256 ++ addNULL)

/-- `SignPKCS7`, parametric in the signing time text, the digest of the content and the RSA
    signature (`none` = invalid content-type OID: the Go builder panics in `Marshal`) -/
def signPKCS7 (oid : List Nat) (content certRaw issuerRaw : Bytes) (serial : Nat) (time md sig : Bytes) : Option Bytes :=
  match attrsBody { contentType := some oid, md := md, time := some time } with
  | none => none
  | some ab =>
    let eci := oidOr oid ++ (if content.length > 0 && oid != oidData then addASN1 tCtx0 (addASN1 tSEQ content) else [])
    let signer := addASN1 tSEQ (
        addUInt 1 ++ addASN1 tSEQ (issuerRaw ++ addUInt serial) ++ algSha256 ++
        addASN1 tCtx0 ab ++
        addASN1 tSEQ (oidOr oidRsa ++ addNULL) ++ addOctets sig)
    let sd := addASN1 tSEQ (addUInt 1 ++ addASN1 tSET algSha256 ++ addASN1 tSEQ eci ++ addASN1 tCtx0 certRaw ++ addASN1 tSET signer)
    some (addASN1 tSEQ (oidOr oidSignedData ++ addASN1 tCtx0 sd))

/-! ### parser -/

/-- `ParseAlgorithmIdentifier`: returns the rest after the SEQUENCE -/
def parseAlg (s : Bytes) : Option (List Nat × Bytes) :=
  match read tSEQ s with
  | none => none
  | some (b, rest) =>
    match readOID b with
    | none => none
    | some (o, r) =>
      if r.isEmpty then some (o, rest) else
      match read tNULL r with
      | some _ => some (o, rest)
      | none => none

/-- one turn of the attribute loop -/
def parseAttr (s : Bytes) (a : Attrs) : Option (Attrs × Bytes) :=
  match read tSEQ s with
  | none => none
  | some (el, rest) =>
    match readOID el with
    | none => none
    | some (oid, r1) =>
      match read tSET r1 with
      | none => none
      | some (set, _) =>
        if oid == oidMessageDigest then
          match read tOCT set with
          | some (d, _) => some ({ a with md := d }, rest)
          | none => none
        else if oid == oidContentType then
          match readOID set with
          | some (o, _) => some ({ a with contentType := some o }, rest)
          | none => none
        else if oid == oidSigningTime then
          match read tUTC set with
          | some (t, _) =>
            match parseUTC t with
            | some c => some ({ a with time := some c }, rest)
            | none => none
          | none => none
        else some ({ a with other := a.other ++ [(oid, set)] }, rest)

def attrLoop : Nat → Bytes → Attrs → Option Attrs
  | 0, s, a => if s.isEmpty then some a else none
  | f+1, s, a =>
    if s.isEmpty then some a else
    match parseAttr s a with
    | some (a', rest) => attrLoop f rest a'
    | none => none

/-- `parseAttributes` -/
def parseAttrs (s : Bytes) : Option (Option Attrs × Bytes) :=
  match readOptional tCtx0 s with
  | none => none
  | some (none, rest) => some (none, rest)
  | some (some b, rest) =>
    match attrLoop b.length b { raw := some (addASN1 tSET b) } with
    | some a => some (some a, rest)
    | none => none

/-- `parseSignerInfos` (one SignerInfo) -/
def parseSigner (s : Bytes) : Option (Signer × Bytes) :=
  match read tSEQ s with
  | none => none
  | some (si, rest) =>
    match readInt64 si with
    | none => none
    | some (ver, r1) =>
      match read tSEQ r1 with
      | none => none
      | some (ias, r2) =>
        match readElement tSEQ ias with
        | none => none
        | some (issuer, i1) =>
          match readBigInt i1 with
          | none => none
          | some (serial, _) =>
            match parseAlg r2 with
            | none => none
            | some (_, r3) =>
              match parseAttrs r3 with
              | none => none
              | some (attrs, r4) =>
                match parseAlg r4 with
                | none => none
                | some (_, r5) =>
                  match read tOCT r5 with
                  | none => none
                  | some (sig, _) => some (⟨ver, issuer, serial, attrs, sig⟩, rest)

def signerLoop : Nat → Bytes → Option (List Signer)
  | 0, s => if s.isEmpty then some [] else none
  | f+1, s =>
    if s.isEmpty then some [] else
    match parseSigner s with
    | none => none
    | some (x, rest) =>
      match signerLoop f rest with
      | some xs => some (x :: xs)
      | none => none

/-- `ParseContentInfo`: (oid, content body or empty, rest) -/
def parseContentInfo (s : Bytes) : Option (List Nat × Bytes × Bytes) :=
  match read tSEQ s with
  | none => none
  | some (b, rest) =>
    match readOID b with
    | none => none
    | some (oid, r1) =>
      match readOptional tCtx0 r1 with
      | none => none
      | some (c, r2) => if r2.isEmpty then some (oid, c.getD [], rest) else none   -- no other fields

/-- the part of `ParsePKCS7` before the certificates: returns (SignedData body after the
    inner ContentInfo, oid, content) -/
def parseHead (b : Bytes) : Option (List Nat × Bytes × Bytes) :=
  match read tSEQ b with
  | none => none
  | some (chk, _) =>
    let inner? : Option Bytes :=
      if peek tOID chk then (parseContentInfo b).map fun x => x.2.1 else some b
    match inner? with
    | none => none
    | some inner =>
      match read tSEQ inner with
      | none => none
      | some (sd, _) =>
        match readInt64 sd with
        | none => none
        | some (_, r1) =>
          match read tSET r1 with
          | none => none
          | some (dig, r2) =>
            match parseAlg dig with
            | none => none
            | some _ =>
              match parseContentInfo r2 with
              | none => none
              | some (oid, content, r3) => some (oid, content, r3)

/-- `ParsePKCS7`; `certsOk` is the verdict of the opaque `x509.ParseCertificates` on the raw
    certificates field -/
def parseP7 (certsOk : Bytes → Bool) (b : Bytes) : Option P7 :=
  match parseHead b with
  | none => none
  | some (oid, content, r3) =>
    match readOptional tCtx0 r3 with
    | none => none
    | some (certs, r4) =>
      if !certsOk (certs.getD []) then none else
      match read tSET r4 with
      | none => none
      | some (sis, _) =>
        match signerLoop sis.length sis with
        | none => none
        | some signers => some ⟨oid, content, certs, signers⟩

/-- the raw certificates field, for the harness to hand to `x509.ParseCertificates` -/
def certsField (b : Bytes) : Option Bytes :=
  match parseHead b with
  | none => none
  | some (_, _, r3) =>
    match readOptional tCtx0 r3 with
    | none => none
    | some (certs, _) => some (certs.getD [])

/-! ### verification -/

def Signer.isCertificate (s : Signer) (c : Cert) : Bool := s.issuer == c.rawIssuer && s.serial == c.serial

/-- `signerinfo.verify` -/
def Signer.verify (C : Crypto) (s : Signer) (c : Cert) (content : Bytes) : Outcome Bool :=
  match s.attrs with
  | none => .err
  | some a =>
    let mdOk : Bool :=
      if content.length > 0 then
        match readAny content with
        | some (_, val, _) => C.sha256 val == a.md
        | none => false
      else true
    if !mdOk then .err else
    match (match a.raw with | some r => Outcome.ok r | none => a.marshal) with
    | .ok sigdata => if C.rsaVerify c.pub sigdata s.sig then .ok true else .err
    | .err => .err
    | .panic => .panic
    | .exit => .exit

/-- `PKCS7.Verify`: the first signer naming the certificate decides -/
def verifySigners (C : Crypto) (c : Cert) (content : Bytes) : List Signer → Outcome Bool
  | [] => .ok false
  | s :: ss => if s.isCertificate c then s.verify C c content else verifySigners C c content ss

def P7.verify (C : Crypto) (p : P7) (c : Cert) : Outcome Bool := verifySigners C c p.content p.signers

end GoUefi.Impl
