import GoUefi.Base
/-
  Model of efi/util/guid.go (C17): EFIGUID text / big-endian byte / wire forms.
-/
namespace GoUefi

structure Guid where
  d1 : Nat        -- uint32
  d2 : Nat        -- uint16
  d3 : Nat        -- uint16
  d4 : Bytes      -- [8]uint8
deriving DecidableEq, Repr

def Guid.WF (g : Guid) : Prop := g.d1 < 2^32 ∧ g.d2 < 2^16 ∧ g.d3 < 2^16 ∧ g.d4.length = 8

instance (g : Guid) : Decidable g.WF := by unfold Guid.WF; exact inferInstance

def Guid.zero : Guid := ⟨0, 0, 0, zeros 8⟩

/-- lower-case hex digit of a value < 16 -/
def hexDigit (n : Nat) : Char := Nat.digitChar n

/-- what `%x` prints for a byte slice: two lower-case digits per byte -/
def hexBytes (bs : Bytes) : List Char :=
  bs.flatMap fun b => [hexDigit (b.toNat / 16), hexDigit (b.toNat % 16)]

/-- `EFIGUID.Format`: "%08x-%04x-%04x-%04x-%12x" of Data1, Data2, Data3, Data4[:2], Data4[2:].
    For in-range fields the zero-padded integer directives print exactly the big-endian bytes. -/
def Guid.format (g : Guid) : List Char :=
  hexBytes (be32 g.d1) ++ '-' :: hexBytes (be16 g.d2) ++ '-' :: hexBytes (be16 g.d3) ++
    '-' :: hexBytes (g.d4.take 2) ++ '-' :: hexBytes (g.d4.drop 2)

/-- Go `encoding/hex` reverse table: either case -/
def hexVal (c : Char) : Option Nat :=
  if '0' ≤ c ∧ c ≤ '9' then some (c.toNat - 48)
  else if 'a' ≤ c ∧ c ≤ 'f' then some (c.toNat - 87)
  else if 'A' ≤ c ∧ c ≤ 'F' then some (c.toNat - 55) else none

/-- `hex.DecodeString` with the error ignored: the prefix decoded before the first bad pair -/
def decodeHex : List Char → Bytes
  | a :: b :: r =>
    match hexVal a, hexVal b with
    | some x, some y => (16 * x + y).toUInt8 :: decodeHex r
    | _, _ => []
  | _ => []

/-- `BytesToGUID`: `binary.Read(BigEndian)` into the struct; a short input leaves it zero. -/
def bytesToGuid (bs : Bytes) : Guid :=
  if bs.length < 16 then Guid.zero else
  ⟨rdBe32 (bs.take 4), rdBe16 ((bs.drop 4).take 2), rdBe16 ((bs.drop 6).take 2), (bs.drop 8).take 8⟩

/-- `StringToGUID`: strip "-", hex-decode (either case, error ignored), `BytesToGUID`. -/
def stringToGuid (s : List Char) : Guid := bytesToGuid (decodeHex (s.filter (· ≠ '-')))

/-- `GUIDToBytes` / `WriteGUID`: big-endian fields -/
def guidToBytes (g : Guid) : Bytes := be32 g.d1 ++ be16 g.d2 ++ be16 g.d3 ++ g.d4

/-- what `binary.Write(LittleEndian, EFIGUID)` emits: the EFI wire layout -/
def guidWire (g : Guid) : Bytes := le32 g.d1 ++ le16 g.d2 ++ le16 g.d3 ++ g.d4

/-- `binary.Read(LittleEndian, &EFIGUID)` of exactly 16 bytes -/
def guidOfWire (bs : Bytes) : Guid :=
  ⟨rd32 (bs.take 4), rd16 ((bs.drop 4).take 2), rd16 ((bs.drop 6).take 2), (bs.drop 8).take 8⟩

/-- `CmpEFIGUID`: field-wise -/
def cmpGuid (a b : Guid) : Bool := a.d1 == b.d1 && a.d2 == b.d2 && a.d3 == b.d3 && a.d4 == b.d4

def upperChar (c : Char) : Char := if 'a' ≤ c ∧ c ≤ 'z' then Char.ofNat (c.toNat - 32) else c

end GoUefi
