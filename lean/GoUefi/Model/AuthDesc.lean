import GoUefi.Base
/-
  Model of efi/signature/varsign.go (C10): WIN_CERTIFICATE, WIN_CERTIFICATE_UEFI_GUID and
  EFI_VARIABLE_AUTHENTICATION_2 readers / writers, as they stand after the fix: commits
  (F10: the body is not kept in the embedded header; F12: short or ill-typed input is an error,
  not log.Fatal; F6: dwLength < 8 is an error and nothing is allocated from the declared length).
-/
namespace GoUefi.Impl

/-- Go `WINCertificate` -/
structure WinCert where
  length : Nat
  rev : Nat
  ctype : Nat
  cert : Bytes
deriving DecidableEq, Repr

def winCertRevision : Nat := 0x0200
def winCertTypeEfiGuid : Nat := 0x0EF1
def winCertTypePkcs : Nat := 0x0002

/-- `ReadWinCertificate` -/
def readWinCert (bs : Bytes) : Outcome (WinCert × Bytes) :=
  match readN 4 bs with
  | .error _ => .err
  | .ok (l, r1) =>
    match readN 2 r1 with
    | .error _ => .err
    | .ok (rv, r2) =>
      match readN 2 r2 with
      | .error _ => .err
      | .ok (ct, r3) =>
        if rd16 rv ≠ winCertRevision then .err else
        if rd32 l < 8 then .err else
        if r3.length < rd32 l - 8 then .err else
        .ok (⟨rd32 l, rd16 rv, rd16 ct, r3.take (rd32 l - 8)⟩, r3.drop (rd32 l - 8))

/-- `WriteWinCertificate` -/
def writeWinCert (w : WinCert) : Bytes := le32 w.length ++ le16 w.rev ++ le16 w.ctype ++ w.cert

/-- Go `WinCertificateUEFIGUID`: the header no longer keeps the body -/
structure WinCertGuid where
  hdr : WinCert
  certType : Bytes
  data : Bytes
deriving DecidableEq, Repr

/-- `ReadWinCertificateUEFIGUID` -/
def readWinCertGuid (bs : Bytes) : Outcome (WinCertGuid × Bytes) :=
  match readWinCert bs with
  | .ok (h, rest) =>
    if h.cert.length < 16 then .err else
    .ok (⟨{ h with cert := [] }, h.cert.take 16, h.cert.drop 16⟩, rest)
  | .err => .err
  | .panic => .panic
  | .exit => .exit

def writeWinCertGuid (w : WinCertGuid) : Bytes := writeWinCert w.hdr ++ w.certType ++ w.data

/-- Go `EFIVariableAuthentication2`; the 16 bytes of EFI_TIME are kept as they are on the wire -/
structure AuthDesc where
  time : Bytes
  auth : WinCertGuid
deriving DecidableEq, Repr

/-- `ReadEFIVariableAuthencation2` -/
def readAuth (bs : Bytes) : Outcome (AuthDesc × Bytes) :=
  match readN 16 bs with
  | .error _ => .err
  | .ok (t, r1) =>
    match readWinCertGuid r1 with
    | .ok (a, rest) => if a.hdr.ctype ≠ winCertTypeEfiGuid then .err else .ok (⟨t, a⟩, rest)
    | .err => .err
    | .panic => .panic
    | .exit => .exit

/-- `WriteEFIVariableAuthencation2` / `Marshal` -/
def writeAuth (d : AuthDesc) : Bytes := d.time ++ writeWinCertGuid d.auth

end GoUefi.Impl

namespace GoUefi.Spec
/-- UEFI 2.8 §8.2.2: EFI_VARIABLE_AUTHENTICATION_2 = EFI_TIME (16) ‖ WIN_CERTIFICATE_UEFI_GUID, where
    the latter is dwLength (4) wRevision (2) wCertificateType (2) CertType GUID (16) CertData
    (dwLength − 24); the descriptor occupies 16 + dwLength bytes. -/
structure Auth where
  time : Bytes
  dwLength : Nat
  rev : Nat
  ctype : Nat
  guid : Bytes
  data : Bytes
deriving DecidableEq, Repr

def encAuth (a : Auth) : Bytes := a.time ++ le32 a.dwLength ++ le16 a.rev ++ le16 a.ctype ++ a.guid ++ a.data

def Auth.WF (a : Auth) : Prop :=
  a.time.length = 16 ∧ a.guid.length = 16 ∧ a.dwLength = 24 + a.data.length ∧ a.dwLength < 2^32 ∧
  a.rev < 2^16 ∧ a.ctype < 2^16

/-- decode by declared length: returns the descriptor and the untouched payload -/
def decodeAuth (bs : Bytes) : Option (Auth × Bytes) :=
  if bs.length < 40 then none else
  let dw := rd32 ((bs.drop 16).take 4)
  if dw < 24 then none else
  if bs.length < 16 + dw then none else
  some (⟨bs.take 16, dw, rd16 ((bs.drop 20).take 2), rd16 ((bs.drop 22).take 2), (bs.drop 24).take 16,
         (bs.drop 40).take (dw - 24)⟩, bs.drop (16 + dw))

end GoUefi.Spec
