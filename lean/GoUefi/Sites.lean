import GoUefi.Extracted
/-
  Static certificate for "no decoder entry point reaches a process-termination call site"
  (C13/C14, quantifier `programs`).  The extractor emits, from the current source: every
  log.Fatal*/os.Exit/panic/BytesOrPanic call site with its enclosing function and guard, the resolved
  static call edges (calls through interfaces or unknown receivers are resolved by method *name* to
  every library function of that name — an over-approximation), the set `fatalFuncs` of functions
  holding a site that is not excused, and a candidate set `unsafeFuncs`.  Nothing of that is trusted
  beyond the syntactic facts: Lean re-checks that every site is accounted for, that the complement of
  `unsafeFuncs` is closed under the edges, and proves reachability soundness once and for all.
-/
namespace GoUefi.Sites

/-- reflexive-transitive reachability along call edges -/
inductive Path (es : List (Nat × Nat)) : Nat → Nat → Prop where
  | refl (a : Nat) : Path es a a
  | step {a b c : Nat} : (a, b) ∈ es → Path es b c → Path es a c

/-- every edge into an unsafe function starts in an unsafe function -/
def closedB (es : List (Nat × Nat)) (unsafeFns : List Nat) : Bool :=
  es.all fun e => !unsafeFns.contains e.2 || unsafeFns.contains e.1

theorem path_unsafe {es : List (Nat × Nat)} {us : List Nat} (hc : closedB es us = true)
    {a b : Nat} (h : Path es a b) (hb : b ∈ us) : a ∈ us := by
  induction h with
  | refl => exact hb
  | step he _ ih =>
    have hb' := ih hb
    have := (List.all_eq_true.mp hc) _ he
    simp only [Bool.or_eq_true, Bool.not_eq_true'] at this
    rcases this with h1 | h1
    · have : List.contains us _ = true := List.contains_iff_mem.mpr hb'
      rw [h1] at this; exact Bool.noConfusion this
    · exact List.contains_iff_mem.mp h1

/-- the certificate: a function outside the (closed) unsafe set reaches no fatal function -/
theorem safe_of_certificate {es : List (Nat × Nat)} {us fatal : List Nat}
    (hc : closedB es us = true) (hf : ∀ f ∈ fatal, f ∈ us) {e f : Nat} (he : e ∉ us) (hff : f ∈ fatal) :
    ¬ Path es e f :=
  fun hp => he (path_unsafe hc hp (hf f hff))

/-- excused sites (function, callee, guard): mirror of /verif/excused_sites.json with the reasons there -/
def excused : List (String × String × String) := [
  ("efi/signature.WriteSignatureData", "log.Fatalf", "err != nil"),
  ("efi/signature.WriteSignatureList", "log.Fatalf", "err != nil"),
  ("efi/signature.WriteWinCertificate", "log.Fatal", "err := binary.Write(b, binary.LittleEndian, d); err != nil"),
  ("efi/signature.WriteWinCertificateUEFIGUID", "log.Fatal", "err := binary.Write(b, binary.LittleEndian, w.CertType); err != nil"),
  ("efi/signature.WriteWinCertificateUEFIGUID", "log.Fatal", "err := binary.Write(b, binary.LittleEndian, w.CertData); err != nil"),
  ("efi/signature.WriteEFIVariableAuthencation2", "log.Fatal", "err := binary.Write(b, binary.LittleEndian, e.Time); err != nil"),
  ("efi/signature.SignEFIVariable", "log.Fatal", "err := binary.Write(&buf, binary.LittleEndian, d); err != nil"),
  ("pkcs7.Attributes.Marshal", "b.BytesOrPanic", ""),
  ("pkcs7.Attributes.Marshal", "e.BytesOrPanic", ""),
  -- known findings (exported node parsers without an error result):
  ("efi/device.ParseACPIDevicePath", "log.Fatal", "err != nil"),
  ("efi/device.ParseHardwareDevicePath", "log.Fatal", "err != nil"),
  ("efi/device.ParseMessagingDevicePath", "log.Fatal", "err != nil")]

def funcIdx (name : String) : Option Nat :=
  let i := Extracted.funcs.findIdx (· == name)
  if i < Extracted.funcs.length then some i else none

/-- every extracted termination site is excused above or its function is counted as fatal -/
def sitesAccounted : Bool :=
  Extracted.fatalSites.all fun s =>
    excused.contains (s.2.1, s.2.2.1, s.2.2.2) ||
    (match funcIdx s.2.1 with
     | some i => Extracted.fatalFuncs.contains i
     | none => false)

/-- every entry point exists in the current source and lies outside the unsafe set -/
def entriesSafe (entries : List String) : Bool :=
  entries.all fun e =>
    match funcIdx e with
    | some i => !Extracted.unsafeFuncs.contains i
    | none => false

def certificateOk (entries : List String) : Bool :=
  sitesAccounted && closedB Extracted.edges Extracted.unsafeFuncs &&
  Extracted.fatalFuncs.all (Extracted.unsafeFuncs.contains ·) && entriesSafe entries

end GoUefi.Sites
