import GoUefi.Lemmas.AuthDesc
import GoUefi.Lemmas.SigDb
import GoUefi.Lemmas.Boot
import GoUefi.Lemmas.Utf16Term
import GoUefi.Lemmas.PeSign
/-!
  Helper lemmas for C13 / C14: totality (no `.panic`, no `.exit`), fuel sufficiency and size bounds
  of the decoder models.
-/
namespace GoUefi

/-- "the call returned": a value or an error -/
def Outcome.Returns {α} (o : Outcome α) : Prop := o ≠ .panic ∧ o ≠ .exit

theorem Outcome.returns_ok {α} (a : α) : (Outcome.ok a).Returns := ⟨by simp, by simp⟩
theorem Outcome.returns_err {α} : (Outcome.err : Outcome α).Returns := ⟨by simp, by simp⟩

namespace Impl

/-! ### outcome totality -/

theorem readWinCert_returns (bs : Bytes) : (readWinCert bs).Returns := by
  unfold readWinCert
  repeat' split
  all_goals first | exact Outcome.returns_err | exact Outcome.returns_ok _

theorem readWinCertGuid_returns (bs : Bytes) : (readWinCertGuid bs).Returns := by
  have h := readWinCert_returns bs
  unfold readWinCertGuid
  split
  · split
    · exact Outcome.returns_err
    · exact Outcome.returns_ok _
  · exact Outcome.returns_err
  · rename_i hp; exact absurd hp h.1
  · rename_i hp; exact absurd hp h.2

theorem readAuth_returns (bs : Bytes) : (readAuth bs).Returns := by
  unfold readAuth
  split
  · exact Outcome.returns_err
  · rename_i t r1 _
    have h := readWinCertGuid_returns r1
    split
    · split
      · exact Outcome.returns_err
      · exact Outcome.returns_ok _
    · exact Outcome.returns_err
    · rename_i hp; exact absurd hp h.1
    · rename_i hp; exact absurd hp h.2

end Impl

theorem parseUtf16_returns (bs : Bytes) : (parseUtf16 bs).Returns := by
  unfold parseUtf16
  simp only
  split
  · exact Outcome.returns_err
  · split
    · exact Outcome.returns_err
    · exact Outcome.returns_ok _

theorem efistringUnmarshal_returns (bs : Bytes) : (efistringUnmarshal bs).Returns :=
  parseUtf16_returns _

/-! ### device paths and load options -/

theorem readN_rest_len {n bs x rest} (h : readN n bs = .ok (x, rest)) : rest.length + n = bs.length := by
  obtain ⟨rfl, rfl⟩ := readN_ok h; simp; omega

theorem readNullString_len (bs : Bytes) :
    (readNullString bs).2.length ≤ bs.length ∧ (readNullString bs).1.length ≤ bs.length + 1 := by
  induction bs using readNullString.induct with
  | case1 a b r h => simp [readNullString, h]; omega
  | case2 a b r h x rest hr ih =>
    simp only [readNullString, h, hr] at *
    simp
    omega
  | case3 a => simp [readNullString]
  | case4 => simp [readNullString]

namespace Impl
theorem parseNode_returns (bs : Bytes) : (parseNode bs).Returns := by
  unfold parseNode
  split
  · exact Outcome.returns_err
  · simp only
    repeat' split
    all_goals first
      | exact Outcome.returns_err
      | exact Outcome.returns_ok _
      | (rename_i hp; exact absurd hp (parseUtf16_returns _).1)
      | (rename_i hp; exact absurd hp (parseUtf16_returns _).2)

theorem parseNode_consumes {bs : Bytes} {n : Node} {r : Bytes}
    (h : parseNode bs = .ok (some (n, r))) : r.length + 4 ≤ bs.length := by
  unfold parseNode at h
  split at h
  · simp at h
  · rename_i hd r0 h4
    have l4 := readN_rest_len h4
    clear h4
    simp only at h
    repeat' split at h
    all_goals try (simp at h; done)
    all_goals simp only [Outcome.ok.injEq, Option.some.injEq, Prod.mk.injEq] at h
    all_goals obtain ⟨_, rfl⟩ := h
    all_goals try omega
    all_goals try (have := readN_rest_len ‹readN _ _ = Except.ok _›; omega)
    all_goals (have := (readNullString_len r0).1; omega)

theorem parseNode_none {bs : Bytes} (h : parseNode bs = .ok none) : 4 ≤ bs.length := by
  unfold parseNode at h
  split at h
  · simp at h
  · rename_i hd r0 h4
    have l4 := readN_rest_len h4
    omega

theorem parseDevicePath_returns (fuel : Nat) (bs : Bytes) : (parseDevicePath fuel bs).Returns := by
  induction fuel generalizing bs with
  | zero => exact Outcome.returns_err
  | succ fuel ih =>
    have hn := parseNode_returns bs
    unfold parseDevicePath
    split
    · exact Outcome.returns_ok _
    · rename_i n r _
      have hr := ih r
      split
      · exact Outcome.returns_ok _
      · exact Outcome.returns_err
      · rename_i hp; exact absurd hp hr.1
      · rename_i hp; exact absurd hp hr.2
    · exact Outcome.returns_err
    · rename_i hp; exact absurd hp hn.1
    · rename_i hp; exact absurd hp hn.2

/-- enough fuel: one unit per 4 input bytes (plus one) -/
theorem parseDevicePath_fuel_irrel : ∀ (f1 f2 : Nat) (bs : Bytes),
    bs.length / 4 + 1 ≤ f1 → bs.length / 4 + 1 ≤ f2 → parseDevicePath f1 bs = parseDevicePath f2 bs := by
  intro f1
  induction f1 with
  | zero => intro f2 bs h; omega
  | succ f1 ih =>
    intro f2 bs h1 h2
    cases f2 with
    | zero => omega
    | succ f2 =>
      unfold parseDevicePath
      cases hn : parseNode bs with
      | ok v =>
        cases v with
        | none => rfl
        | some nr =>
          obtain ⟨n, r⟩ := nr
          have := parseNode_consumes hn
          simp only
          rw [ih f2 r (by omega) (by omega)]
      | err => rfl
      | panic => rfl
      | exit => rfl

/-- a successful walk saw `ns.length + 1` headers of 4 bytes each -/
theorem parseDevicePath_count : ∀ (fuel : Nat) (bs : Bytes) (ns : List Node),
    parseDevicePath fuel bs = .ok ns → 4 * (ns.length + 1) ≤ bs.length := by
  intro fuel
  induction fuel with
  | zero => intro bs ns h; simp [parseDevicePath] at h
  | succ fuel ih =>
    intro bs ns h
    unfold parseDevicePath at h
    split at h
    · rename_i hn
      have := parseNode_none hn
      simp at h; subst h; simpa using this
    · rename_i n r hn
      have := parseNode_consumes hn
      split at h
      · rename_i ns0 h0
        have := ih r ns0 h0
        simp at h; subst h
        simp; omega
      all_goals simp at h
    all_goals simp at h

theorem loadOptionUnmarshal_returns (bs : Bytes) : (loadOptionUnmarshal bs).Returns := by
  unfold loadOptionUnmarshal
  split
  · exact Outcome.returns_err
  · split
    · exact Outcome.returns_err
    · rename_i l r2 _
      simp only
      have hu := parseUtf16_returns (readNullString r2).1
      split
      · have hd := parseDevicePath_returns ((readNullString r2).2.length + 1) (readNullString r2).2
        split
        · exact Outcome.returns_ok _
        · exact Outcome.returns_err
        · rename_i hp; exact absurd hp hd.1
        · rename_i hp; exact absurd hp hd.2
      · exact Outcome.returns_err
      · rename_i hp; exact absurd hp hu.1
      · rename_i hp; exact absurd hp hu.2
end Impl

/-! ### UTF-16 sizes -/

/-- the decoder emits at most one character per code unit -/
theorem utf16dec_length_le (us : List Nat) : (utf16dec us).length ≤ us.length := by
  induction us using utf16dec.induct with
  | case1 => simp [utf16dec]
  | case2 u => simp [utf16dec]
  | case3 u v rest h1 h2 ih => simp only [utf16dec, h1, h2]; simp; omega
  | case4 u v rest h1 h2 ih => simp only [utf16dec, h1, h2]; simp at ih ⊢; omega
  | case5 u v rest h1 ih => simp only [utf16dec, h1]; simp at ih ⊢; omega

theorem bytesToUnits_length (bs : Bytes) :
    2 * (bytesToUnits bs).1.length + (if (bytesToUnits bs).2 then 1 else 0) = bs.length := by
  induction bs using bytesToUnits.induct with
  | case1 a b r us o hr ih => simp only [bytesToUnits, hr] at *; simp; omega
  | case2 a => simp [bytesToUnits]
  | case3 => simp [bytesToUnits]

theorem decodeUtf16Bytes_length_le (bs : Bytes) : (decodeUtf16Bytes bs).length ≤ (bs.length + 1) / 2 := by
  have h1 := bytesToUnits_length bs
  have h2 := utf16dec_length_le (bytesToUnits bs).1
  unfold decodeUtf16Bytes
  simp only [List.length_append]
  split <;> simp_all <;> omega

theorem dropWhile_length_le {α} (p : α → Bool) (l : List α) : (l.dropWhile p).length ≤ l.length := by
  induction l with
  | nil => simp
  | cons a l ih => simp only [List.dropWhile]; split <;> simp <;> omega

theorem trimNul_length_le (s : List Char) : (trimNul s).length ≤ s.length := by
  unfold trimNul
  rw [List.length_reverse]
  have h1 := dropWhile_length_le (· == '\x00') (s.dropWhile (· == '\x00')).reverse
  have h2 := dropWhile_length_le (· == '\x00') s
  rw [List.length_reverse] at h1
  omega

theorem parseUtf16_length {bs : Bytes} {s : List Char} (h : parseUtf16 bs = .ok s) :
    s.length ≤ (bs.length + 1) / 2 := by
  unfold parseUtf16 at h
  simp only at h
  split at h
  · simp at h
  · split at h
    · simp at h
    · simp at h; subst h
      have := trimNul_length_le (decodeUtf16Bytes bs)
      have := decodeUtf16Bytes_length_le bs
      omega


/-! ### load options, boot order, text forms -/
theorem readNullString_sum (bs : Bytes) :
    (readNullString bs).1.length + (readNullString bs).2.length ≤ bs.length + 1 := by
  induction bs using readNullString.induct with
  | case1 a b r h => simp [readNullString, h]; omega
  | case2 a b r h x rest hr ih =>
    simp only [readNullString, h, hr] at *
    simp
    omega
  | case3 a => simp [readNullString]
  | case4 => simp [readNullString]

namespace Impl

theorem loadOptionUnmarshal_size {bs : Bytes} {lo : LoadOption} (h : loadOptionUnmarshal bs = .ok lo) :
    2 * lo.desc.length + 4 * (lo.nodes.length + 1) + 4 ≤ bs.length := by
  unfold loadOptionUnmarshal at h
  split at h
  · simp at h
  · rename_i a r1 h1
    have l1 := readN_rest_len h1
    split at h
    · simp at h
    · rename_i l r2 h2
      have l2 := readN_rest_len h2
      simp only at h
      split at h
      · rename_i d hd
        split at h
        · rename_i ns hns
          simp at h; subst h
          have c1 := parseUtf16_length hd
          have c2 := parseDevicePath_count _ _ _ hns
          have c3 := readNullString_sum r2
          simp only
          omega
        all_goals simp at h
      all_goals simp at h

theorem bootOrder_length (bs : Bytes) : (bootOrder bs).length = bs.length / 2 := by
  induction bs using bootOrder.induct with
  | case1 a b r ih => simp only [bootOrder, List.length_cons, ih]; omega
  | case2 a => simp [bootOrder]
  | case3 => simp [bootOrder]

theorem bootOrder_names (bs : Bytes) : ∀ n ∈ bootOrder bs, n.length = 8 := by
  induction bs using bootOrder.induct with
  | case1 a b r ih =>
    intro n hn
    simp only [bootOrder, List.mem_cons] at hn
    rcases hn with rfl | hn
    · rfl
    · exact ih n hn
  | case2 a => intro n hn; simp [bootOrder] at hn
  | case3 => intro n hn; simp [bootOrder] at hn

theorem hdText_length_pos (part : Nat) (start size sig : Bytes) (st : Nat) :
    0 < (hdText part start size sig st).length := by
  unfold hdText
  simp only
  split
  · simp
  · split <;> simp

end Impl

/-- `EFILoadOption.Unmarshal` with `extra` additional units of fuel for its device-path loop -/
def Impl.loadOptionUnmarshalFuel (extra : Nat) (bs : Bytes) : Outcome Impl.LoadOption :=
  match readN 4 bs with
  | .error _ => .err
  | .ok (a, r1) =>
    match readN 2 r1 with
    | .error _ => .err
    | .ok (l, r2) =>
      let (s, r3) := readNullString r2
      match parseUtf16 s with
      | .ok d =>
        match Impl.parseDevicePath (r3.length + 1 + extra) r3 with
        | .ok ns => .ok ⟨rd32 a, rd16 l, d, ns⟩
        | .err => .err
        | .panic => .panic
        | .exit => .exit
      | .err => .err
      | .panic => .panic
      | .exit => .exit

theorem Impl.loadOptionUnmarshalFuel_eq (extra : Nat) (bs : Bytes) :
    Impl.loadOptionUnmarshalFuel extra bs = Impl.loadOptionUnmarshal bs := by
  unfold Impl.loadOptionUnmarshalFuel Impl.loadOptionUnmarshal
  cases readN 4 bs with
  | error e => rfl
  | ok v =>
    obtain ⟨a, r1⟩ := v
    simp only
    cases readN 2 r1 with
    | error e => rfl
    | ok v =>
      obtain ⟨l, r2⟩ := v
      simp only
      rw [Impl.parseDevicePath_fuel_irrel ((readNullString r2).2.length + 1 + extra)
        ((readNullString r2).2.length + 1) _ (by omega) (by omega)]
      rfl

/-! ### signature databases and authentication descriptors -/
namespace Impl

/-- enough fuel: one unit per 28 input bytes (plus one) -/
theorem readDbAux_fuel_irrel : ∀ (f1 f2 : Nat) (bs : Bytes),
    bs.length / 28 + 1 ≤ f1 → bs.length / 28 + 1 ≤ f2 → readDbAux f1 bs = readDbAux f2 bs := by
  intro f1
  induction f1 with
  | zero => intro f2 bs h; omega
  | succ f1 ih =>
    intro f2 bs h1 h2
    cases f2 with
    | zero => omega
    | succ f2 =>
      unfold readDbAux
      cases hl : readList bs with
      | cleanEof => rfl
      | bad => rfl
      | ok l rest =>
        obtain ⟨e, w⟩ := readList_ok hl
        have hge := encList_length_ge l w.1.1
        have hlen : bs.length = (encList l).length + rest.length := by rw [e, List.length_append]
        simp only
        rw [ih f2 rest (by omega) (by omega)]

theorem readSigs_steps {size k : Nat} {bs : Bytes} {ss : List SData} {rest : Bytes}
    (h : readSigs size k bs = .ok (ss, rest)) (hs : 16 ≤ size) :
    k * size + rest.length = bs.length ∧ ss.length = k := by
  obtain ⟨e, l, w⟩ := readSigs_ok hs h
  have := flatten_enc_length ss w
  rw [e, List.length_append, this, l]
  exact ⟨rfl, rfl⟩

theorem length_le_flatten {α} {x : List α} {L : List (List α)} (h : x ∈ L) :
    x.length ≤ L.flatten.length := by
  induction L with
  | nil => cases h
  | cons y ys ih =>
    rcases List.mem_cons.mp h with rfl | h
    · simp only [List.flatten_cons, List.length_append]; omega
    · have := ih h; simp only [List.flatten_cons, List.length_append]; omega

theorem readDb_data_le {bs : Bytes} {db : Db} (h : readDb bs = some db) :
    ∀ l ∈ db, ∀ s ∈ l.sigs, s.data.length ≤ bs.length := by
  obtain ⟨e, _⟩ := readDb_ok h
  intro l hl s hs
  have h1 : (encList l).length ≤ (encDb db).length :=
    length_le_flatten (List.mem_map_of_mem hl)
  have h2 : (encSData s).length ≤ ((l.sigs.map encSData).flatten).length :=
    length_le_flatten (List.mem_map_of_mem hs)
  have h3 : ((l.sigs.map encSData).flatten).length ≤ (encList l).length := by
    simp only [encList, List.length_append]; omega
  have h4 : s.data.length ≤ (encSData s).length := by simp [encSData]
  rw [e]; omega

theorem readWinCert_size {bs : Bytes} {w : WinCert} {rest : Bytes} (h : readWinCert bs = .ok (w, rest)) :
    8 + w.cert.length + rest.length = bs.length ∧ w.length = 8 + w.cert.length := by
  obtain ⟨l, rv, ct, r3, rfl, hl, hrv, hct, _, h8, hb, rfl, rfl⟩ := readWinCert_ok h
  simp [hl, hrv, hct]; omega

theorem readAuth_size {bs : Bytes} {d : AuthDesc} {rest : Bytes} (h : readAuth bs = .ok (d, rest)) :
    16 + 8 + 16 + d.auth.data.length + rest.length = bs.length ∧ d.time.length = 16 ∧
    d.auth.certType.length = 16 := by
  obtain ⟨t, l, rv, ct, r3, rfl, ht, hl, hrv, hct, _, _, h24, hb, rfl, rfl⟩ := readAuth_shape h
  simp [ht, hl, hrv, hct]; omega

end Impl

/-! ### PE images and certificate tables -/
namespace Impl
open GoUefi.Der

theorem parse_returns (img : Bytes) (f : PeFacts) : (parse img f).Returns := by
  unfold parse
  split
  · exact Outcome.returns_err
  · simp only
    split
    · exact Outcome.returns_err
    · split
      · exact Outcome.returns_err
      · split
        · exact Outcome.returns_err
        · exact Outcome.returns_ok _

theorem signaturesAux_returns (fuel : Nat) (t : Bytes) : (signaturesAux fuel t).Returns := by
  induction fuel generalizing t with
  | zero => exact Outcome.returns_ok _
  | succ fuel ih =>
    unfold signaturesAux
    split
    · exact Outcome.returns_ok _
    · have hw := readWinCert_returns t
      split
      · rename_i w rest _
        have hr := ih (rest.drop (pad8 w.length))
        split
        · exact Outcome.returns_ok _
        · exact Outcome.returns_err
        · rename_i hp; exact absurd hp hr.1
        · rename_i hp; exact absurd hp hr.2
      · exact Outcome.returns_err
      · rename_i hp; exact absurd hp hw.1
      · rename_i hp; exact absurd hp hw.2

/-- one turn of the `Signatures()` loop consumes at least the 8 header bytes -/
theorem signaturesAux_next_len {t : Bytes} {w : WinCert} {rest : Bytes}
    (h : readWinCert t = .ok (w, rest)) :
    8 + w.cert.length + (rest.drop (pad8 w.length)).length ≤ t.length := by
  have := (readWinCert_size h).1
  rw [List.length_drop]; omega

theorem signaturesAux_fuel_irrel : ∀ (f1 f2 : Nat) (t : Bytes),
    t.length / 8 ≤ f1 → t.length / 8 ≤ f2 → signaturesAux f1 t = signaturesAux f2 t := by
  intro f1
  induction f1 with
  | zero =>
    intro f2 t h1 _
    rw [PeSign.signaturesAux_short 0 (by omega), PeSign.signaturesAux_short f2 (by omega)]
  | succ f1 ih =>
    intro f2 t h1 h2
    cases f2 with
    | zero => rw [PeSign.signaturesAux_short _ (by omega), PeSign.signaturesAux_short 0 (by omega)]
    | succ f2 =>
      unfold signaturesAux
      split
      · rfl
      · cases hw : readWinCert t with
        | ok v =>
          obtain ⟨w, rest⟩ := v
          have := signaturesAux_next_len hw
          simp only
          rw [ih f2 _ (by omega) (by omega)]
        | err => rfl
        | panic => rfl
        | exit => rfl

theorem signaturesAux_size : ∀ (fuel : Nat) (t : Bytes) (ws : List WinCert),
    signaturesAux fuel t = .ok ws → (ws.map fun w => 8 + w.cert.length).sum ≤ t.length := by
  intro fuel
  induction fuel with
  | zero => intro t ws h; simp [signaturesAux] at h; subst h; simp
  | succ fuel ih =>
    intro t ws h
    by_cases h8 : t.length ≤ 8
    · rw [PeSign.signaturesAux_short _ h8] at h
      simp at h; subst h; simp
    · obtain ⟨w, rest, ws0, hr, h0, rfl⟩ := PeSign.signaturesAux_succ_inv h (by omega)
      have := signaturesAux_next_len hr
      have := ih _ _ h0
      simp only [List.map_cons, List.sum_cons]
      omega


/-! ### verification never panics or exits on parsed values -/

theorem P7.verify_parsed_returns {C : Crypto} {ok : Bytes → Bool} {b : Bytes} {p : P7} (c : Cert)
    (h : parseP7 ok b = some p) : (p.verify C c).Returns := by
  refine verifySigners_parsed_total ?_
  intro s hs a ha hr
  obtain ⟨body, hraw, _⟩ := parseP7_attrs h hs ha
  rw [hraw] at hr
  cases hr

theorem P7.verify_ne_exit (C : Crypto) (p : P7) (c : Cert) : p.verify C c ≠ .exit := by
  unfold P7.verify
  rw [verifySigners_eq_find]
  cases p.signers.find? (fun s => s.isCertificate c) with
  | none => simp
  | some s => exact Signer.verify_ne_exit C s c p.content

theorem Auth.verify_ne_exit (C : Crypto) (a : Auth) (c : Cert) (stream : Bytes) :
    a.verify C c stream ≠ .exit := by
  unfold Auth.verify
  split
  · simp
  · split
    · simp
    · split
      · simp
      · exact P7.verify_ne_exit C a.pkcs c

theorem Auth.verify_parsed_returns {C : Crypto} {ok : Bytes → Bool} {b : Bytes} {a : Auth} (c : Cert)
    (stream : Bytes) (h : parseAuthenticode ok b = some a) : (a.verify C c stream).Returns := by
  have hp := (PeSign.parseAuthenticode_inv h).1
  unfold Auth.verify
  split
  · exact Outcome.returns_err
  · split
    · exact Outcome.returns_err
    · split
      · exact Outcome.returns_err
      · exact P7.verify_parsed_returns c hp

theorem verifySigs_returns (C : Crypto) (ok : Bytes → Bool) (c : Cert) (stream : Bytes)
    (ws : List WinCert) : (verifySigs C ok c stream ws).Returns := by
  induction ws with
  | nil => exact Outcome.returns_err
  | cons w ws ih =>
    unfold verifySigs
    split
    · exact Outcome.returns_err
    · rename_i a ha
      have hv := Auth.verify_parsed_returns (C := C) c stream ha
      split
      · exact Outcome.returns_ok _
      · exact ih
      · exact Outcome.returns_err
      · rename_i hp; exact absurd hp hv.1
      · rename_i hp; exact absurd hp hv.2

theorem Parsed.signatures_returns (p : Parsed) : p.signatures.Returns := signaturesAux_returns _ _

theorem Parsed.verify_returns (C : Crypto) (ok : Bytes → Bool) (p : Parsed) (c : Cert) :
    (p.verify C ok c).Returns := by
  have hs := p.signatures_returns
  unfold Parsed.verify
  split
  · exact Outcome.returns_err
  · exact verifySigs_returns _ _ _ _ _
  · exact Outcome.returns_err
  · rename_i hp; exact absurd hp hs.1
  · rename_i hp; exact absurd hp hs.2

/-! fuel of the DER loops -/

theorem read_rest_lt {t : UInt8} {s body rest : Bytes} (h : read t s = some (body, rest)) :
    rest.length + 2 ≤ s.length := by
  obtain ⟨e, _, _⟩ := read_inv h
  rw [e]
  simp only [addASN1, List.length_append, List.length_cons]
  have : 1 ≤ (encLen body.length).length := by
    unfold encLen; split <;> simp
  omega

theorem parseSigner_rest {s : Bytes} {x : Signer} {rest : Bytes}
    (h : parseSigner s = some (x, rest)) : rest.length + 2 ≤ s.length := by
  obtain ⟨si, _, _, _, _, _, _, _, _, _, _, _, h1, _⟩ := parseSigner_inv h
  exact read_rest_lt h1

theorem parseAttr_rest {s : Bytes} {a a' : Attrs} {rest : Bytes}
    (h : parseAttr s a = some (a', rest)) : rest.length + 2 ≤ s.length := by
  obtain ⟨el, _, _, _, _, h1, _⟩ := parseAttr_inv h
  exact read_rest_lt h1

theorem signerLoop_small (f : Nat) {s : Bytes} (h : s.length ≤ 1) :
    signerLoop f s = if s.isEmpty then some [] else none := by
  cases f with
  | zero => rfl
  | succ f =>
    unfold signerLoop
    split
    · rfl
    · cases hp : parseSigner s with
      | none => rfl
      | some v => obtain ⟨x, rest⟩ := v; have := parseSigner_rest hp; omega

theorem signerLoop_fuel_irrel : ∀ (f1 f2 : Nat) (s : Bytes),
    s.length / 2 ≤ f1 → s.length / 2 ≤ f2 → signerLoop f1 s = signerLoop f2 s := by
  intro f1
  induction f1 with
  | zero =>
    intro f2 s h1 _
    rw [signerLoop_small 0 (by omega), signerLoop_small f2 (by omega)]
  | succ f1 ih =>
    intro f2 s h1 h2
    cases f2 with
    | zero => rw [signerLoop_small _ (by omega), signerLoop_small 0 (by omega)]
    | succ f2 =>
      unfold signerLoop
      split
      · rfl
      · cases hp : parseSigner s with
        | none => rfl
        | some v =>
          obtain ⟨x, rest⟩ := v
          have := parseSigner_rest hp
          simp only
          rw [ih f2 rest (by omega) (by omega)]

theorem attrLoop_small (f : Nat) {s : Bytes} (a : Attrs) (h : s.length ≤ 1) :
    attrLoop f s a = if s.isEmpty then some a else none := by
  cases f with
  | zero => rfl
  | succ f =>
    unfold attrLoop
    split
    · rfl
    · cases hp : parseAttr s a with
      | none => rfl
      | some v => obtain ⟨x, rest⟩ := v; have := parseAttr_rest hp; omega

theorem attrLoop_fuel_irrel : ∀ (f1 f2 : Nat) (s : Bytes) (a : Attrs),
    s.length / 2 ≤ f1 → s.length / 2 ≤ f2 → attrLoop f1 s a = attrLoop f2 s a := by
  intro f1
  induction f1 with
  | zero =>
    intro f2 s a h1 _
    rw [attrLoop_small 0 a (by omega), attrLoop_small f2 a (by omega)]
  | succ f1 ih =>
    intro f2 s a h1 h2
    cases f2 with
    | zero => rw [attrLoop_small _ a (by omega), attrLoop_small 0 a (by omega)]
    | succ f2 =>
      unfold attrLoop
      split
      · rfl
      · cases hp : parseAttr s a with
        | none => rfl
        | some v =>
          obtain ⟨a', rest⟩ := v
          have := parseAttr_rest hp
          simp only
          rw [ih f2 rest a' (by omega) (by omega)]


/-! ### sizes of what `Parse` returns -/

theorem parse_ok {img : Bytes} {f : PeFacts} {p : Parsed} (h : parse img f = .ok p) :
    let dd := ddOffset f
    let ck := f.lfanew + 24 + 64
    let secs := hashedSecs f
    let sum := f.soh + (secs.map (·.2)).sum
    96 ≤ img.length ∧ f.ddSize ≤ img.length - sum ∧ sum ≤ img.length ∧
    p.first = slice img 0 dd ∧ p.optDataDir = slice img dd (dd + 8) ∧
    p.last = slice img (dd + 8) (sum + (img.length - sum - f.ddSize)) ∧
    p.certTable = slice img f.ddVA (f.ddVA + f.ddSize) ∧
    p.padding = pad8 (sum + (img.length - sum)) ∧
    p.parts = [rangePart img 0 ck, rangePart img (ck + 4) dd, rangePart img (dd + 8) f.soh] ++
                 (secs.map fun s => (⟨s.2, slice img s.1 (s.1 + s.2)⟩ : Part)) ++
                 [⟨img.length - sum - f.ddSize + pad8 (sum + (img.length - sum)),
                   slice img sum (sum + (img.length - sum - f.ddSize)) ++ zeros (pad8 (sum + (img.length - sum)))⟩] := by
  unfold parse at h
  split at h
  · simp at h
  · rename_i h96
    simp only at h
    split at h
    · simp at h
    · rename_i hdd
      split at h
      · simp at h
      · rename_i hsum
        split at h
        · simp at h
        · simp only [Outcome.ok.injEq] at h
          subst h
          refine ⟨?_, ?_, ?_, rfl, rfl, rfl, rfl, rfl, rfl⟩ <;> omega

theorem secs_data_length (img : Bytes) (secs : List (Nat × Nat)) :
    ((secs.map fun s => slice img s.1 (s.1 + s.2)).flatten).length ≤ (secs.map (·.2)).sum := by
  induction secs with
  | nil => simp
  | cons s ss ih =>
    simp only [List.map_cons, List.flatten_cons, List.length_append, List.sum_cons, slice_length]
    omega

theorem parse_size {img : Bytes} {f : PeFacts} {p : Parsed} (h : parse img f = .ok p) :
    p.first.length ≤ img.length ∧ p.last.length ≤ img.length ∧ p.optDataDir.length ≤ 8 ∧
    p.certTable.length ≤ img.length ∧ p.padding < 8 ∧ p.bytes.length ≤ 3 * img.length + 16 := by
  obtain ⟨_, _, _, h1, h2, h3, h4, h5, _⟩ := parse_ok h
  have hp : p.padding < 8 := by rw [h5]; exact PeSign.pad8_lt _
  have a1 : p.first.length ≤ img.length := by rw [h1, slice_length]; omega
  have a2 : p.last.length ≤ img.length := by rw [h3, slice_length]; omega
  have a3 : p.optDataDir.length ≤ 8 := by rw [h2, slice_length]; omega
  have a4 : p.certTable.length ≤ img.length := by rw [h4, slice_length]; omega
  refine ⟨a1, a2, a3, a4, hp, ?_⟩
  simp only [Parsed.bytes, List.length_append, zeros_length]
  omega

theorem hashStream_size {img : Bytes} {f : PeFacts} {p : Parsed} (h : parse img f = .ok p) :
    (hashStream p).length ≤ 2 * img.length + 7 := by
  obtain ⟨_, hdd, hsum, _, _, _, _, _, hparts⟩ := parse_ok h
  have hsec := secs_data_length img (hashedSecs f)
  have hpad := PeSign.pad8_lt (f.soh + ((hashedSecs f).map (·.2)).sum + (img.length - (f.soh + ((hashedSecs f).map (·.2)).sum)))
  rw [hashStream_eq, hparts]
  simp only [List.map_append, List.map_cons, List.map_nil, List.map_map, List.flatten_append,
    List.flatten_cons, List.flatten_nil, List.length_append, rangePart, slice_length, zeros_length,
    List.append_nil]
  have e : (List.map ((fun x : Part => x.data) ∘ fun s : Nat × Nat => (⟨s.2, slice img s.1 (s.1 + s.2)⟩ : Part)) (hashedSecs f))
      = (hashedSecs f).map fun s => slice img s.1 (s.1 + s.2) := rfl
  rw [e]
  omega


end Impl

/-! ### GUID text and byte forms -/

theorem decodeHex_length_le (s : List Char) : 2 * (decodeHex s).length ≤ s.length := by
  induction s using decodeHex.induct with
  | case1 a b r x y hx hy ih => simp only [decodeHex, hx, hy, List.length_cons]; omega
  | case2 a b r h => 
    unfold decodeHex
    split
    · rename_i x y hx hy; exact absurd hy (h x y hx)
    · simp
  | case3 s h => 
    unfold decodeHex
    split
    · rename_i a b r; exact absurd rfl (h a b r)
    · simp

theorem bytesToGuid_wf_all (bs : Bytes) : (bytesToGuid bs).WF := by
  by_cases h : 16 ≤ bs.length
  · exact bytesToGuid_wf bs h
  · unfold bytesToGuid
    rw [if_pos (by omega)]
    decide

theorem stringToGuid_wf (s : List Char) : (stringToGuid s).WF := bytesToGuid_wf_all _

end GoUefi
