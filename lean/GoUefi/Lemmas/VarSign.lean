import GoUefi.Model.VarSign
import GoUefi.Model.Utf16
import GoUefi.Lemmas.Pkcs7Sign
import GoUefi.Lemmas.AuthDesc
/-!
  Helper lemmas for C06: `signature.SignEFIVariable` (`GoUefi/Model/VarSign.lean`) writes
  EFI_TIME ‖ WIN_CERTIFICATE_UEFI_GUID header ‖ the *bare* SignedData ‖ payload, and the bare
  SignedData is a detached signature over the signed buffer.
-/
namespace GoUefi.Impl
open GoUefi GoUefi.Der

/-! ### little-endian words and the timestamp -/

theorem le32_mod (n : Nat) : le32 (n % 2^32) = le32 n := by
  have h1 : n % 2^32 % 256 = n % 256 := by omega
  have h2 : n % 2^32 / 256 % 256 = n / 256 % 256 := by omega
  have h3 : n % 2^32 / 65536 % 256 = n / 65536 % 256 := by omega
  have h4 : n % 2^32 / 16777216 % 256 = n / 16777216 % 256 := by omega
  unfold le32
  rw [h1, h2, h3, h4]

/-- the sixteen bytes of EFI_TIME, one by one -/
theorem efiTime_eq (t : Civil) :
    efiTime t = le16 t.year ++ [t.month.toUInt8, t.day.toUInt8, t.hour.toUInt8, t.minute.toUInt8,
      t.second.toUInt8, 0, 0, 0, 0, 0, 0, 0, 0, 0] := rfl

@[simp] theorem efiTime_length (t : Civil) : (efiTime t).length = 16 := rfl

/-- with every field in range the bytes carry the field values themselves -/
theorem efiTime_toNat (t : Civil) (hy : t.year < 2^16) (hmo : t.month < 256) (hd : t.day < 256)
    (hh : t.hour < 256) (hmi : t.minute < 256) (hs : t.second < 256) :
    (efiTime t).map UInt8.toNat =
      [t.year % 256, t.year / 256, t.month, t.day, t.hour, t.minute, t.second,
       0, 0, 0, 0, 0, 0, 0, 0, 0] := by
  have e : t.year / 256 % 256 = t.year / 256 := by omega
  rw [efiTime_eq]
  simp only [le16, List.cons_append, List.nil_append, List.map_cons, List.map_nil]
  rw [toUInt8_toNat_of_lt _ (Nat.mod_lt _ (by decide)), e,
    toUInt8_toNat_of_lt (t.year / 256) (by omega), toUInt8_toNat_of_lt _ hmo,
    toUInt8_toNat_of_lt _ hd, toUInt8_toNat_of_lt _ hh, toUInt8_toNat_of_lt _ hmi,
    toUInt8_toNat_of_lt _ hs]
  rfl

theorem guidPkcs7_eq : guidPkcs7 =
    [0x9d, 0xd2, 0xaf, 0x4a, 0xdf, 0x68, 0xee, 0x49, 0x8a, 0xa9, 0x34, 0x7d, 0x37, 0x56, 0x65, 0xa7] := by
  decide

/-! ### the name as UTF-16LE -/

theorem ascii_unit : ∀ k, k < 128 → unitsToBytes (encChar (Char.ofNat k)) = [k.toUInt8, 0] := by
  decide

theorem unitsToBytes_append (a b : List Nat) : unitsToBytes (a ++ b) = unitsToBytes a ++ unitsToBytes b := by
  simp [unitsToBytes]

theorem name_utf16 (name : Bytes) (h : ∀ b ∈ name, b.toNat < 128) :
    name.flatMap (fun b => [b, 0]) =
      unitsToBytes (utf16enc (name.map fun b => Char.ofNat b.toNat)) := by
  induction name with
  | nil => rfl
  | cons b bs ih =>
    have hb : b.toNat < 128 := h b (by simp)
    have ih' := ih (fun c hc => h c (by simp [hc]))
    simp only [utf16enc, List.map_cons, List.flatMap_cons] at ih' ⊢
    rw [unitsToBytes_append, ascii_unit _ hb, toNat_toUInt8, ih']

theorem name_flat_length (name : Bytes) : (name.flatMap fun b => [b, (0 : UInt8)]).length = 2 * name.length := by
  induction name with
  | nil => rfl
  | cons b bs ih => simp only [List.flatMap_cons, List.length_append, List.length_cons, List.length_nil, ih]; omega

/-! ### the bare SignedData inside what `SignPKCS7` writes -/

/-- certificates and signerInfos of the SignedData `SignPKCS7` writes -/
def SignInputs.tail (x : SignInputs) : Bytes :=
  addASN1 tCtx0 x.certRaw ++ addASN1 tSET (addASN1 tSEQ (signerBody x.issuerRaw x.serial x.attrs x.sig))

/-- the SignedData SEQUENCE itself: the element inside the outer ContentInfo's `[0]` -/
def SignInputs.bare (x : SignInputs) : Bytes := addASN1 tSEQ (sdBody x.oid x.content x.tail)

theorem blob_eq_bare (x : SignInputs) :
    x.blob = addASN1 tSEQ (oidOr oidSignedData ++ addASN1 tCtx0 x.bare) := rfl

theorem bare_length_le (x : SignInputs) (certsOk : Bytes → Bool) (h : x.WF certsOk) :
    x.bare.length ≤ 9 * 2^24 + 306 := by
  have hsb := signerBody_length_le x certsOk h
  have h1 : (addUInt 1).length = 3 := by decide
  have h2 : (addASN1 tSET algSha256).length = 17 := by decide
  have hs1 := addASN1_length_le tSEQ (signerBody x.issuerRaw x.serial x.attrs x.sig)
  have hs2 := addASN1_length_le tSET (addASN1 tSEQ (signerBody x.issuerRaw x.serial x.attrs x.sig))
  have hc := addASN1_length_le tCtx0 x.certRaw
  have he : (eciBody x.oid x.content).length ≤ 2 * 2^24 + 12 := by
    unfold eciBody
    have e1 := addASN1_length_le tCtx0 (addASN1 tSEQ x.content)
    have e2 := addASN1_length_le tSEQ x.content
    have e3 := h.oidLen
    have e4 := h.contentLen
    split <;> simp only [List.length_append, List.length_nil] <;> omega
  have he' := addASN1_length_le tSEQ (eciBody x.oid x.content)
  have hcl := h.certLen
  have hsd1 := addASN1_length_le tSEQ (sdBody x.oid x.content x.tail)
  unfold SignInputs.bare
  unfold SignInputs.tail sdBody at hsd1 ⊢
  simp only [List.length_append] at hsd1 ⊢
  omega

/-- the RFC-style walk over the bare SignedData: there is no outer ContentInfo (the first element
    of the body is the version INTEGER, not an OID), the rest is as in `parseSignedData_blob` -/
theorem parseSignedData_bare (oid : List Nat) (content certRaw ibody : Bytes)
    (serial : Nat) (ab sig : Bytes) (hok : oidArcsOk oid = true)
    (hlen : (addASN1 tSEQ (sdBody oid content (addASN1 tCtx0 certRaw ++
      addASN1 tSET (addASN1 tSEQ (signerBody (addASN1 tSEQ ibody) serial ab sig))))).length < 2^32) :
    Spec.parseSignedData (addASN1 tSEQ (sdBody oid content (addASN1 tCtx0 certRaw ++
      addASN1 tSET (addASN1 tSEQ (signerBody (addASN1 tSEQ ibody) serial ab sig))))) =
      some (if attached oid content then some content else none,
        [(⟨addASN1 tSEQ ibody, serial, some (addASN1 tCtx0 ab), ab, sig⟩ : Spec.SpecSigner)]) := by
  have hsd1 := addASN1_body_lt hlen
  have h1 : certRaw.length < 2^32 := by
    have hh := hsd1; unfold sdBody at hh; der_len hh
  have h2 : (addASN1 tSEQ (signerBody (addASN1 tSEQ ibody) serial ab sig)).length < 2^32 := by
    have hh := hsd1; unfold sdBody at hh; der_len hh
  have h3 := addASN1_body_lt h2
  have he : (eciBody oid content).length < 2^32 := by
    have hh := hsd1; unfold sdBody at hh; der_len hh
  have hps := parseSpecSigner_signer ibody serial ab sig [] h3
  rw [List.append_nil] at hps
  have hloop := specSigners_one (f := (addASN1 tSEQ (signerBody (addASN1 tSEQ ibody) serial ab sig)).length)
    (by have := addASN1_length_ge tSEQ (signerBody (addASN1 tSEQ ibody) serial ab sig); omega)
    (by simpa using addASN1_append_isEmpty tSEQ (signerBody (addASN1 tSEQ ibody) serial ab sig) []) hps
  have hpeek : peek tOID (sdBody oid content (addASN1 tCtx0 certRaw ++
      addASN1 tSET (addASN1 tSEQ (signerBody (addASN1 tSEQ ibody) serial ab sig)))) = false := by
    unfold sdBody
    simp only [List.append_assoc, addUInt_eq, peek_addASN1]
    decide
  simp only [Spec.parseSignedData, Option.bind_eq_bind, Option.bind_some, Option.pure_def,
    read_addASN1_nil tSEQ _ (by decide) hsd1, hpeek, Bool.false_eq_true, if_false]
  have hA : (algSha256).length < 2^32 := by decide
  have hoid : (oidOr oid).length < 2^32 := by
    have hh := he; unfold eciBody at hh; der_len hh
  simp only [sdBody, List.append_assoc, readBigInt_addUInt 1 _ (by decide), Option.bind_some,
    read_addASN1 tSET algSha256 _ (by decide) hA,
    read_addASN1 tSEQ (eciBody oid content) _ (by decide) he,
    peek_addASN1, skipAny_addASN1 tCtx0 certRaw _ (by decide) h1, beq_self_eq_true, if_true]
  unfold eciBody at he ⊢
  cases h : attached oid content with
  | true =>
    simp only [h, if_true] at he ⊢
    have hc1 : (addASN1 tSEQ content).length < 2^32 := by der_len he
    have hc2 := addASN1_body_lt hc1
    simp only [readOID_oidOr oid _ hok hoid, Option.bind_some, addASN1_isEmpty,
      Bool.false_eq_true, if_false, read_addASN1_nil tCtx0 _ (by decide) hc1, List.isEmpty_nil,
      Bool.not_true, readAny_addASN1_nil tSEQ content (by decide) hc2, peek_addASN1_nil,
      show (tSET == (161 : UInt8)) = false from by decide, read_addASN1_nil tSET _ (by decide) h2, hloop]
  | false =>
    simp only [h, Bool.false_eq_true, if_false, List.append_nil] at he ⊢
    simp only [readOID_oidOr_nil oid hok hoid, Option.bind_some, List.isEmpty_nil, if_true,
      Bool.false_eq_true, if_false, peek_addASN1_nil,
      show (tSET == (161 : UInt8)) = false from by decide, read_addASN1_nil tSET _ (by decide) h2, hloop]

/-- the verdict of the specification on the bare SignedData when nothing is encapsulated and the
    caller supplies the content `v`: the signer names the certificate, the signature is valid over
    SET OF the signed attributes, and the messageDigest attribute is the digest of `v` -/
theorem cmsVerify_bare (C : Crypto) (c : Cert) (x : SignInputs) (certsOk : Bytes → Bool)
    (h : x.WF certsOk) (hatt : attached x.oid x.content = false) (v : Bytes) :
    Spec.cmsVerify C x.bare c (some v) =
      ((x.issuerRaw == c.rawIssuer && (x.serial : Int) == c.serial) &&
        (C.rsaVerify c.pub (addASN1 tSET x.attrs) x.sig && x.md == C.sha256 v)) := by
  have hlen : x.bare.length < 2^32 := by have := bare_length_le x certsOk h; omega
  obtain ⟨ibody, hib⟩ := h.issuerSeq
  have hal : (signedAttrsBody x.oid x.time x.md).length < 2^32 := by
    have := signedAttrsBody_length_le x certsOk h
    unfold SignInputs.attrs at this; omega
  have hfind := findMD_signed x.oid x.time x.md hal
  unfold SignInputs.bare SignInputs.tail at hlen ⊢
  unfold SignInputs.attrs at hlen ⊢
  rw [hib] at hlen ⊢
  simp only [Spec.cmsVerify, parseSignedData_bare x.oid x.content x.certRaw ibody x.serial _ x.sig
    h.oidOk hlen, hatt, Bool.false_eq_true, if_false, List.any_cons, List.any_nil, Bool.or_false,
    Spec.signerAccepts, addASN1_retag, hfind]

/-! ### `SignEFIVariable` -/

/-- arguments of `varSign` -/
structure VarSignInputs where
  name : Bytes
  guid : Bytes
  attrs : Nat
  t : Civil
  payload : Bytes
  certRaw : Bytes
  issuerRaw : Bytes
  serial : Nat
  timeText : Bytes
  md : Bytes
  sig : Bytes

/-- the buffer that is signed -/
def VarSignInputs.buf (x : VarSignInputs) : Bytes :=
  signedBuffer x.name x.guid x.attrs (efiTime x.t) x.payload

/-- the arguments of the inner `SignPKCS7` call: content type id-data over the signed buffer -/
def VarSignInputs.sign (x : VarSignInputs) : SignInputs :=
  ⟨oidData, x.buf, x.certRaw, x.issuerRaw, x.serial, x.timeText, x.md, x.sig⟩

/-- the model's output for these inputs -/
def VarSignInputs.run (x : VarSignInputs) : Option Bytes :=
  varSign x.name x.guid x.attrs x.t x.payload x.certRaw x.issuerRaw x.serial x.timeText x.md x.sig

/-- Hypotheses of C06: exactly those of `SignInputs.WF` for the inner `SignPKCS7` call with
    `oid = oidData` (whose two OID conditions hold by evaluation) and `content = buf`; no condition
    on the opaque `x509.ParseCertificates` is needed, nothing is parsed back by the library. -/
structure VarSignInputs.WF (x : VarSignInputs) : Prop where
  bufLen : x.buf.length < 2^24
  certLen : x.certRaw.length < 2^24
  issuerLen : x.issuerRaw.length < 2^24
  /-- the serial number has fewer than 2^24 bytes -/
  serialLen : (natBytes x.serial).length < 2^24
  mdLen : x.md.length < 2^24
  sigLen : x.sig.length < 2^24
  /-- the issuer is one SEQUENCE element (an X.501 Name) -/
  issuerSeq : ∃ body, x.issuerRaw = addASN1 tSEQ body
  /-- the UTCTime text re-serialises to itself (it carries seconds) -/
  timeOk : parseUTC x.timeText = some x.timeText

/-- the domain of the model: what the Go types `EFIGUID`, `uint32` and `EFITime` can hold -/
structure VarSignInputs.InRange (x : VarSignInputs) : Prop where
  guidLen : x.guid.length = 16
  attrsLt : x.attrs < 2^32
  year : x.t.year < 2^16
  month : x.t.month < 256
  day : x.t.day < 256
  hour : x.t.hour < 256
  minute : x.t.minute < 256
  second : x.t.second < 256

theorem VarSignInputs.WF.toSign {x : VarSignInputs} (h : x.WF) : x.sign.WF (fun _ => true) :=
  ⟨show oidArcsOk oidData = true by decide, show (oidOr oidData).length < 2^24 by decide, h.bufLen, h.certLen, h.issuerLen, h.serialLen, h.mdLen, h.sigLen,
    h.issuerSeq, h.timeOk, rfl⟩

/-- the bare SignedData of these inputs -/
def VarSignInputs.sd (x : VarSignInputs) : Bytes := x.sign.bare

theorem VarSignInputs.sd_seq (x : VarSignInputs) : ∃ body, x.sd = addASN1 tSEQ body := ⟨_, rfl⟩

theorem VarSignInputs.sd_length (x : VarSignInputs) (h : x.WF) : 24 + x.sd.length < 2^32 := by
  have := bare_length_le x.sign _ h.toSign
  unfold VarSignInputs.sd; omega

theorem VarSignInputs.signPKCS7_eq (x : VarSignInputs) :
    signPKCS7 oidData x.buf x.certRaw x.issuerRaw x.serial x.timeText x.md x.sig =
      some (addASN1 tSEQ (oidOr oidSignedData ++ addASN1 tCtx0 x.sd)) := by
  have := signPKCS7_blob x.sign (show validOID oidData = true by decide)
  rw [blob_eq_bare] at this
  exact this

theorem VarSignInputs.outer_length (x : VarSignInputs) (h : x.WF) :
    (oidOr oidSignedData ++ addASN1 tCtx0 x.sd).length < 2^32 := by
  have := blob_length_lt x.sign _ h.toSign
  rw [blob_eq_bare] at this
  exact addASN1_body_lt this

/-- the `sd` in the shape `signPKCS7 … = some (SEQUENCE { oid, [0] sd })` is determined -/
theorem VarSignInputs.sd_unique (x : VarSignInputs) (h : x.WF) (sd : Bytes)
    (hs : signPKCS7 oidData x.buf x.certRaw x.issuerRaw x.serial x.timeText x.md x.sig =
      some (addASN1 tSEQ (oidOr oidSignedData ++ addASN1 tCtx0 sd))) : sd = x.sd := by
  rw [x.signPKCS7_eq, Option.some.injEq] at hs
  have hl := x.outer_length h
  have h1 := parseContentInfo_present_nil oidSignedData x.sd (by decide) hl
  have hl' : (oidOr oidSignedData ++ addASN1 tCtx0 sd).length < 2^32 := by
    have hb := blob_length_lt x.sign _ h.toSign
    rw [blob_eq_bare] at hb
    change (addASN1 tSEQ (oidOr oidSignedData ++ addASN1 tCtx0 x.sd)).length < 2^32 at hb
    rw [hs] at hb
    exact addASN1_body_lt hb
  have h2 := parseContentInfo_present_nil oidSignedData sd (by decide) hl'
  rw [← hs, h1] at h2
  simp only [Option.some.injEq, Prod.mk.injEq] at h2
  exact h2.2.1.symm

/-- `SignEFIVariable` ‖ payload, in closed form -/
theorem VarSignInputs.run_eq (x : VarSignInputs) (h : x.WF) :
    x.run = some (efiTime x.t ++ le32 (24 + x.sd.length) ++ le16 0x0200 ++ le16 0x0EF1 ++
      guidPkcs7 ++ x.sd ++ x.payload) := by
  have hu : unwrapContentInfo (addASN1 tSEQ (oidOr oidSignedData ++ addASN1 tCtx0 x.sd)) = some x.sd := by
    unfold unwrapContentInfo
    rw [parseContentInfo_present_nil oidSignedData x.sd (by decide) (x.outer_length h)]
  have hs := x.signPKCS7_eq
  unfold VarSignInputs.buf at hs
  unfold VarSignInputs.run varSign
  rw [hs]
  simp only [hu, writeWinCert, le32_mod, List.append_nil, winCertRevision, winCertTypeEfiGuid,
    List.append_assoc]

/-- the output as the specified encoding of a descriptor followed by the payload -/
theorem VarSignInputs.out_eq_encAuth (x : VarSignInputs) :
    efiTime x.t ++ le32 (24 + x.sd.length) ++ le16 0x0200 ++ le16 0x0EF1 ++ guidPkcs7 ++ x.sd ++ x.payload =
      Spec.encAuth ⟨efiTime x.t, 24 + x.sd.length, 0x0200, 0x0EF1, guidPkcs7, x.sd⟩ ++ x.payload := by
  simp only [Spec.encAuth]

theorem VarSignInputs.attached_false (x : VarSignInputs) : attached x.sign.oid x.sign.content = false := by
  simp [attached, VarSignInputs.sign]

/-- toy inputs for the non-vacuity examples of C06: variable "db", the image-security-database
    GUID d719b2cb-3d3a-4596-a3bc-dad00e67656f, attributes 0x27, 2026-09-29 20:30:00 UTC, a 76-byte
    payload, the toy certificate fields of `SignInputs.sample` -/
def VarSignInputs.sample : VarSignInputs :=
  { name := [0x64, 0x62],
    guid := [0xcb, 0xb2, 0x19, 0xd7, 0x3a, 0x3d, 0x96, 0x45, 0xa3, 0xbc, 0xda, 0xd0, 0x0e, 0x67, 0x65, 0x6f],
    attrs := 0x27, t := ⟨2026, 9, 29, 20, 30, 0⟩, payload := List.replicate 76 0x5a,
    certRaw := [0x30, 0], issuerRaw := [0x30, 0], serial := 0x1234,
    timeText := [0x32, 0x36, 0x30, 0x39, 0x32, 0x39, 0x32, 0x30, 0x33, 0x30, 0x30, 0x30, 0x5a],
    md := [9, 9], sig := [7] }

end GoUefi.Impl
