import GoUefi.Model.MultiFault
import GoUefi.Lemmas.Pe
/-!
# Helper lemmas for the positional multi-reader over a reader that may fail

Model: `GoUefi/Model/MultiFault.lean` (`multiReadAtE`, `copyAllE`, `hashInputE`).  The property
theorems are in `GoUefi/Properties/C01r.lean` and `GoUefi/Properties/C15r.lean`.

The proofs follow those of the fault-free `multiReadAt_eq` / `copyAll_eq` (`Lemmas/Pe.lean`); the
one extra ingredient is the case analysis of a single part read (`multiReadAtE_good`,
`multiReadAtE_bad`).
-/
namespace GoUefi.Impl

/-! ### one part read -/

/-- the error `multi.ReadAt` makes of the answer to one part read (F21 repair) -/
def partErr (err : RdErr) (n want : Nat) : RdErr :=
  match err with
  | .eof => if n = want then .none else .unexpected
  | e => e

theorem partErr_ne_eof (err : RdErr) (n want : Nat) : partErr err n want ≠ .eof := by
  cases err <;> simp only [partErr] <;> (try split) <;> simp

/-- `partErr` is `.none` exactly for `nil`, and for `io.EOF` together with a full read -/
theorem partErr_eq_none_iff (err : RdErr) (n want : Nat) :
    partErr err n want = .none ↔ err = .none ∨ (err = .eof ∧ n = want) := by
  cases err <;> simp only [partErr] <;> (try split) <;> simp_all

/-- one unfolding step of `multiReadAtE` on a part that is hit by the request -/
theorem multiReadAtE_cons (env : RdEnv) (p : Bytes) (ps : List Bytes) (off len k : Nat)
    (hl : len ≠ 0) (hpo : ¬ p.length ≤ off) :
    multiReadAtE env (p :: ps) off len k =
      (if partErr (env k (min len (p.length - off))).err
            (min (env k (min len (p.length - off))).n (min len (p.length - off)))
            (min len (p.length - off)) ≠ .none then
        ((p.drop off).take (min (env k (min len (p.length - off))).n (min len (p.length - off))),
         partErr (env k (min len (p.length - off))).err
            (min (env k (min len (p.length - off))).n (min len (p.length - off)))
            (min len (p.length - off)), k + 1)
      else if min (env k (min len (p.length - off))).n (min len (p.length - off)) <
            min len (p.length - off) then
        ((p.drop off).take (min (env k (min len (p.length - off))).n (min len (p.length - off))),
         .other, k + 1)
      else if min len (p.length - off) = len then
        ((p.drop off).take (min (env k (min len (p.length - off))).n (min len (p.length - off))),
         .none, k + 1)
      else
        ((p.drop off).take (min (env k (min len (p.length - off))).n (min len (p.length - off))) ++
           (multiReadAtE env ps 0 (len - min len (p.length - off)) (k + 1)).1,
         (multiReadAtE env ps 0 (len - min len (p.length - off)) (k + 1)).2.1,
         (multiReadAtE env ps 0 (len - min len (p.length - off)) (k + 1)).2.2)) := by
  rw [multiReadAtE, if_neg hl, if_neg hpo]
  rfl

/-- a part read that reports an error, or comes back short, ends `multi.ReadAt` with an error:
    if `multi.ReadAt` reports none, the part read delivered everything it was asked for and
    reported `nil` or `io.EOF` -/
theorem multiReadAtE_none_good (env : RdEnv) (p : Bytes) (ps : List Bytes) (off len k : Nat)
    (hl : len ≠ 0) (hpo : ¬ p.length ≤ off)
    (h : (multiReadAtE env (p :: ps) off len k).2.1 = .none) :
    min len (p.length - off) ≤ (env k (min len (p.length - off))).n ∧
    ((env k (min len (p.length - off))).err = .none ∨
     (env k (min len (p.length - off))).err = .eof) := by
  rw [multiReadAtE_cons env p ps off len k hl hpo] at h
  by_cases h1 : partErr (env k (min len (p.length - off))).err
      (min (env k (min len (p.length - off))).n (min len (p.length - off)))
      (min len (p.length - off)) ≠ .none
  · rw [if_pos h1] at h
    exact absurd h h1
  · rw [if_neg h1] at h
    by_cases h2 : min (env k (min len (p.length - off))).n (min len (p.length - off)) <
        min len (p.length - off)
    · rw [if_pos h2] at h
      cases h
    · refine ⟨by omega, ?_⟩
      have h3 := (partErr_eq_none_iff _ _ _).1 (Classical.not_not.1 h1)
      rcases h3 with h3 | ⟨h3, _⟩
      · exact Or.inl h3
      · exact Or.inr h3

/-- a part read that delivers everything asked for and reports `nil` or `io.EOF`, when the request
    ends inside the part -/
theorem multiReadAtE_good_fits (env : RdEnv) (p : Bytes) (ps : List Bytes) (off len k : Nat)
    (hl : len ≠ 0) (hpo : ¬ p.length ≤ off)
    (hn : min len (p.length - off) ≤ (env k (min len (p.length - off))).n)
    (he : (env k (min len (p.length - off))).err = .none ∨
          (env k (min len (p.length - off))).err = .eof)
    (hfit : len ≤ p.length - off) :
    multiReadAtE env (p :: ps) off len k = ((p.drop off).take len, .none, k + 1) := by
  rw [multiReadAtE_cons env p ps off len k hl hpo, Nat.min_eq_right hn]
  have hpe : partErr (env k (min len (p.length - off))).err (min len (p.length - off))
      (min len (p.length - off)) = .none :=
    (partErr_eq_none_iff _ _ _).2 (he.elim Or.inl (fun h => Or.inr ⟨h, rfl⟩))
  rw [hpe, if_neg (fun h => h rfl), if_neg (Nat.lt_irrefl _), if_pos (Nat.min_eq_left hfit),
      Nat.min_eq_left hfit]

/-- … and when the request goes on into the following parts -/
theorem multiReadAtE_good_spans (env : RdEnv) (p : Bytes) (ps : List Bytes) (off len k : Nat)
    (hpo : ¬ p.length ≤ off)
    (hn : min len (p.length - off) ≤ (env k (min len (p.length - off))).n)
    (he : (env k (min len (p.length - off))).err = .none ∨
          (env k (min len (p.length - off))).err = .eof)
    (hspan : p.length - off < len) :
    multiReadAtE env (p :: ps) off len k =
      (p.drop off ++ (multiReadAtE env ps 0 (len - (p.length - off)) (k + 1)).1,
       (multiReadAtE env ps 0 (len - (p.length - off)) (k + 1)).2.1,
       (multiReadAtE env ps 0 (len - (p.length - off)) (k + 1)).2.2) := by
  rw [multiReadAtE_cons env p ps off len k (by omega) hpo, Nat.min_eq_right hn]
  have hpe : partErr (env k (min len (p.length - off))).err (min len (p.length - off))
      (min len (p.length - off)) = .none :=
    (partErr_eq_none_iff _ _ _).2 (he.elim Or.inl (fun h => Or.inr ⟨h, rfl⟩))
  have hw : min len (p.length - off) = p.length - off := Nat.min_eq_right (by omega)
  rw [hpe, if_neg (fun h => h rfl), if_neg (Nat.lt_irrefl _), hw, if_neg (by omega),
      List.take_of_length_le (by rw [List.length_drop]; omega)]

/-! ### `multi.ReadAt` -/

/-- the repaired reader never passes `io.EOF` on -/
theorem multiReadAtE_ne_eof (env : RdEnv) (ps : List Bytes) : ∀ (off len k : Nat),
    (multiReadAtE env ps off len k).2.1 ≠ .eof := by
  induction ps with
  | nil =>
    intro off len k
    unfold multiReadAtE
    by_cases hl : len = 0
    · simp [hl]
    · simp [hl]
  | cons p ps ih =>
    intro off len k
    by_cases hl : len = 0
    · rw [multiReadAtE, if_pos hl]; simp
    · by_cases hpo : p.length ≤ off
      · rw [multiReadAtE, if_neg hl, if_pos hpo]; exact ih _ _ _
      · rw [multiReadAtE_cons env p ps off len k hl hpo]
        split
        · exact partErr_ne_eof _ _ _
        · split
          · simp
          · split
            · simp
            · exact ih _ _ _

/-- Whatever the reader does: a read that reports no error delivered exactly the requested bytes
    of the concatenation.  (The model turns a short count with `nil`, which is outside the
    `io.ReaderAt` contract, into an error; so no contract hypothesis is needed here.) -/
theorem multiReadAtE_ok' (env : RdEnv) (ps : List Bytes) : ∀ (off len k : Nat),
    off + len ≤ ps.flatten.length → (multiReadAtE env ps off len k).2.1 = .none →
    (multiReadAtE env ps off len k).1 = (ps.flatten.drop off).take len := by
  induction ps with
  | nil =>
    intro off len k h _
    have : len = 0 := by simp at h; omega
    subst this
    simp [multiReadAtE]
  | cons p ps ih =>
    intro off len k h he
    simp only [List.flatten_cons, List.length_append] at h
    simp only [List.flatten_cons]
    by_cases hl : len = 0
    · rw [multiReadAtE, if_pos hl]; simp [hl]
    · by_cases hpo : p.length ≤ off
      · rw [multiReadAtE, if_neg hl, if_pos hpo] at he ⊢
        rw [ih _ _ _ (by omega) he, List.drop_append, List.drop_of_length_le hpo, List.nil_append]
      · obtain ⟨hn, hee⟩ := multiReadAtE_none_good env p ps off len k hl hpo he
        have hdrop : (p ++ ps.flatten).drop off = p.drop off ++ ps.flatten :=
          List.drop_append_of_le_length (by omega)
        by_cases hfit : len ≤ p.length - off
        · rw [multiReadAtE_good_fits env p ps off len k hl hpo hn hee hfit, hdrop,
              List.take_append_of_le_length (by rw [List.length_drop]; exact hfit)]
        · have hspan : p.length - off < len := by omega
          rw [multiReadAtE_good_spans env p ps off len k hpo hn hee hspan] at he ⊢
          simp only [] at he ⊢
          rw [ih 0 _ _ (by omega) he, hdrop, List.take_append, List.length_drop,
              List.take_of_length_le (l := p.drop off) (i := len)
                (by rw [List.length_drop]; omega), List.drop_zero]

/-- the same under the `io.ReaderAt` contract (the form used by the property theorems) -/
theorem multiReadAtE_ok (env : RdEnv) (_hc : env.Contract) (ps : List Bytes) (off len k : Nat)
    (h : off + len ≤ ps.flatten.length) (he : (multiReadAtE env ps off len k).2.1 = .none) :
    (multiReadAtE env ps off len k).1 = (ps.flatten.drop off).take len :=
  multiReadAtE_ok' env ps off len k h he

/-- Through a reader that delivers the requested bytes — whether or not it reports `io.EOF`
    together with a read — the positional reader returns exactly the requested window of the
    concatenation, with no error. -/
theorem multiReadAtE_delivers (env : RdEnv) (hd : env.Delivers) (ps : List Bytes) :
    ∀ (off len k : Nat), off + len ≤ ps.flatten.length →
    ∃ k', multiReadAtE env ps off len k = ((ps.flatten.drop off).take len, .none, k') := by
  induction ps with
  | nil =>
    intro off len k h
    have : len = 0 := by simp at h; omega
    subst this
    exact ⟨k, by simp [multiReadAtE]⟩
  | cons p ps ih =>
    intro off len k h
    simp only [List.flatten_cons, List.length_append] at h
    simp only [List.flatten_cons]
    by_cases hl : len = 0
    · exact ⟨k, by rw [multiReadAtE, if_pos hl]; simp [hl]⟩
    · by_cases hpo : p.length ≤ off
      · obtain ⟨k', hk'⟩ := ih (off - p.length) len k (by omega)
        refine ⟨k', ?_⟩
        rw [multiReadAtE, if_neg hl, if_pos hpo, hk', List.drop_append,
            List.drop_of_length_le hpo, List.nil_append]
      · obtain ⟨hn, hee⟩ := hd k (min len (p.length - off))
        have hdrop : (p ++ ps.flatten).drop off = p.drop off ++ ps.flatten :=
          List.drop_append_of_le_length (by omega)
        by_cases hfit : len ≤ p.length - off
        · refine ⟨k + 1, ?_⟩
          rw [multiReadAtE_good_fits env p ps off len k hl hpo hn hee hfit, hdrop,
              List.take_append_of_le_length (by rw [List.length_drop]; exact hfit)]
        · have hspan : p.length - off < len := by omega
          obtain ⟨k', hk'⟩ := ih 0 (len - (p.length - off)) (k + 1) (by omega)
          refine ⟨k', ?_⟩
          rw [multiReadAtE_good_spans env p ps off len k hpo hn hee hspan, hk']
          simp only []
          rw [hdrop, List.take_append, List.length_drop,
              List.take_of_length_le (l := p.drop off) (i := len)
                (by rw [List.length_drop]; omega), List.drop_zero]

/-! ### `io.Copy` over the section reader -/

/-- the section reader is exhausted: `io.Copy` returns nil -/
theorem copyAllE_done (env : RdEnv) (ps : List Bytes) (chunk fuel off k : Nat)
    (ho : ps.flatten.length ≤ off) : copyAllE env ps chunk (fuel + 1) off k = ([], .none) := by
  rw [copyAllE, sum_length_eq_flatten]
  exact if_pos ho

/-- a read without error: `io.Copy` writes the bytes and goes on -/
theorem copyAllE_step (env : RdEnv) (ps : List Bytes) (chunk fuel off k : Nat)
    (ho : off < ps.flatten.length) (got : Bytes) (k' : Nat)
    (hm : multiReadAtE env ps off (min chunk (ps.flatten.length - off)) k = (got, .none, k'))
    (hg : got ≠ []) :
    copyAllE env ps chunk (fuel + 1) off k =
      (got ++ (copyAllE env ps chunk fuel (off + got.length) k').1,
       (copyAllE env ps chunk fuel (off + got.length) k').2) := by
  rw [copyAllE, sum_length_eq_flatten, if_neg (by omega)]
  simp only [hm]
  rw [if_neg (by simpa using hg)]

/-- a read with an error: `io.Copy` returns it (the repaired reader never reports `io.EOF`) -/
theorem copyAllE_err (env : RdEnv) (ps : List Bytes) (chunk fuel off k : Nat)
    (ho : off < ps.flatten.length)
    (hm : (multiReadAtE env ps off (min chunk (ps.flatten.length - off)) k).2.1 ≠ .none) :
    (copyAllE env ps chunk (fuel + 1) off k).2 ≠ .none := by
  rw [copyAllE, sum_length_eq_flatten, if_neg (by omega)]
  have hne := multiReadAtE_ne_eof env ps off (min chunk (ps.flatten.length - off)) k
  simp only []
  revert hm hne
  generalize multiReadAtE env ps off (min chunk (ps.flatten.length - off)) k = r
  obtain ⟨got, e, k'⟩ := r
  intro hm hne
  cases e
  · exact absurd rfl hm
  · exact absurd rfl hne
  · simp
  · simp

/-- Whatever the reader does: if `io.Copy` returns nil, everything from `off` on was written,
    unaltered. -/
theorem copyAllE_ok' (env : RdEnv) (ps : List Bytes) (chunk : Nat) (hc : 0 < chunk) :
    ∀ (fuel off k : Nat), ps.flatten.length < fuel + off →
      (copyAllE env ps chunk fuel off k).2 = .none →
      (copyAllE env ps chunk fuel off k).1 = ps.flatten.drop off := by
  intro fuel
  induction fuel with
  | zero =>
    intro off k _ he
    rw [copyAllE] at he
    cases he
  | succ fuel ih =>
    intro off k h he
    by_cases ho : ps.flatten.length ≤ off
    · rw [copyAllE_done env ps chunk fuel off k ho, List.drop_of_length_le ho]
    · have ho' : off < ps.flatten.length := by omega
      have hw : off + min chunk (ps.flatten.length - off) ≤ ps.flatten.length := by omega
      by_cases hm : (multiReadAtE env ps off (min chunk (ps.flatten.length - off)) k).2.1 = .none
      · have hdata := multiReadAtE_ok' env ps off _ k hw hm
        have hlen : (multiReadAtE env ps off (min chunk (ps.flatten.length - off)) k).1.length =
            min chunk (ps.flatten.length - off) := by
          rw [hdata, List.length_take, List.length_drop]; omega
        have hg : (multiReadAtE env ps off (min chunk (ps.flatten.length - off)) k).1 ≠ [] := by
          intro e
          rw [e] at hlen
          simp only [List.length_nil] at hlen
          omega
        have hstep := copyAllE_step env ps chunk fuel off k ho' _
          (multiReadAtE env ps off (min chunk (ps.flatten.length - off)) k).2.2
          (by rw [← hm]) hg
        rw [hstep] at he ⊢
        simp only [] at he ⊢
        rw [ih _ _ (by omega) he, hlen, hdata, ← List.drop_drop, List.take_append_drop]
      · exact absurd he (copyAllE_err env ps chunk fuel off k ho' hm)

/-- the same under the `io.ReaderAt` contract (the form used by the property theorems) -/
theorem copyAllE_ok (env : RdEnv) (_hcon : env.Contract) (ps : List Bytes) (chunk : Nat)
    (hc : 0 < chunk) (fuel off k : Nat) (hf : ps.flatten.length - off + 1 ≤ fuel)
    (he : (copyAllE env ps chunk fuel off k).2 = .none) :
    (copyAllE env ps chunk fuel off k).1 = ps.flatten.drop off :=
  copyAllE_ok' env ps chunk hc fuel off k (by omega) he

/-- Through a reader that delivers the requested bytes, `io.Copy` with any positive buffer size
    writes everything from `off` on and returns nil. -/
theorem copyAllE_delivers' (env : RdEnv) (hd : env.Delivers) (ps : List Bytes) (chunk : Nat)
    (hc : 0 < chunk) : ∀ (fuel off k : Nat), ps.flatten.length - off < fuel →
      copyAllE env ps chunk fuel off k = (ps.flatten.drop off, .none) := by
  intro fuel
  induction fuel with
  | zero =>
    intro off k h
    omega
  | succ fuel ih =>
    intro off k h
    by_cases ho : ps.flatten.length ≤ off
    · rw [copyAllE_done env ps chunk fuel off k ho, List.drop_of_length_le ho]
    · have ho' : off < ps.flatten.length := by omega
      have hw : off + min chunk (ps.flatten.length - off) ≤ ps.flatten.length := by omega
      obtain ⟨k', hk'⟩ := multiReadAtE_delivers env hd ps off _ k hw
      have hlen : ((ps.flatten.drop off).take (min chunk (ps.flatten.length - off))).length =
          min chunk (ps.flatten.length - off) := by
        rw [List.length_take, List.length_drop]; omega
      have hg : (ps.flatten.drop off).take (min chunk (ps.flatten.length - off)) ≠ [] := by
        intro e
        rw [e] at hlen
        simp only [List.length_nil] at hlen
        omega
      rw [copyAllE_step env ps chunk fuel off k ho' _ k' hk' hg, hlen, ih _ _ (by omega)]
      simp only []
      rw [← List.drop_drop, List.take_append_drop]

theorem copyAllE_delivers (env : RdEnv) (hd : env.Delivers) (ps : List Bytes) (chunk : Nat)
    (hc : 0 < chunk) (fuel off k : Nat) (hf : ps.flatten.length - off + 1 ≤ fuel) :
    copyAllE env ps chunk fuel off k = (ps.flatten.drop off, .none) :=
  copyAllE_delivers' env hd ps chunk hc fuel off k (by omega)

/-- the first part read of a copy comes back short (whatever error, or none, it reports):
    `io.Copy` fails -/
theorem copyAllE_first_short (env : RdEnv) (p : Bytes) (rest : List Bytes) (hp : p ≠ [])
    (chunk : Nat) (hc : 0 < chunk) (fuel k : Nat)
    (hs : ∀ want, 0 < want → (env k want).n < want) :
    (copyAllE env (p :: rest) chunk (fuel + 1) 0 k).2 ≠ .none := by
  have hpl : 0 < p.length := List.length_pos_iff.2 hp
  have ho : 0 < (p :: rest).flatten.length := by
    simp only [List.flatten_cons, List.length_append]; omega
  apply copyAllE_err env (p :: rest) chunk fuel 0 k ho
  intro hm
  have hl : min chunk ((p :: rest).flatten.length - 0) ≠ 0 := by omega
  obtain ⟨hn, _⟩ := multiReadAtE_none_good env p rest 0 _ k hl (by omega) hm
  have := hs (min (min chunk ((p :: rest).flatten.length - 0)) (p.length - 0)) (by omega)
  omega

/-! ### `Hash` -/

theorem hashInputE_eq_some_iff (env : RdEnv) (parts : List Bytes) (chunk : Nat) (out : Bytes) :
    hashInputE env parts chunk = some out ↔
      copyAllE env (multiParts parts) chunk ((multiParts parts).flatten.length + 1) 0 0 =
        (out, .none) := by
  unfold hashInputE
  simp only []
  generalize copyAllE env (multiParts parts) chunk ((multiParts parts).flatten.length + 1) 0 0 = r
  obtain ⟨o, e⟩ := r
  cases e <;> simp

theorem hashInputE_eq_none_iff (env : RdEnv) (parts : List Bytes) (chunk : Nat) :
    hashInputE env parts chunk = none ↔
      (copyAllE env (multiParts parts) chunk ((multiParts parts).flatten.length + 1) 0 0).2 ≠
        .none := by
  unfold hashInputE
  simp only []
  generalize copyAllE env (multiParts parts) chunk ((multiParts parts).flatten.length + 1) 0 0 = r
  obtain ⟨o, e⟩ := r
  cases e <;> simp

/-- `Hash` returns a digest or it does not -/
theorem hashInputE_none_or_some (env : RdEnv) (parts : List Bytes) (chunk : Nat) :
    hashInputE env parts chunk = none ∨ ∃ out, hashInputE env parts chunk = some out := by
  cases hashInputE env parts chunk with
  | none => exact Or.inl rfl
  | some o => exact Or.inr ⟨o, rfl⟩

theorem mem_multiParts_ne_nil (parts : List Bytes) : ∀ p ∈ multiParts parts, p ≠ [] := by
  intro p hp
  unfold multiParts at hp
  simpa using (List.mem_filter.1 hp).2

/-! ### the environments -/

theorem envOk_delivers : envOk.Delivers := fun _ _ => ⟨Nat.le_refl _, Or.inl rfl⟩

theorem envEofWith_delivers (j : Nat) : (envEofWith j).Delivers := by
  intro k want
  unfold envEofWith
  by_cases h : k = j
  · rw [if_pos h]; exact ⟨Nat.le_refl _, Or.inr rfl⟩
  · rw [if_neg h]; exact ⟨Nat.le_refl _, Or.inl rfl⟩

/-- a reader that delivers is within the contract -/
theorem RdEnv.Delivers.contract {env : RdEnv} (hd : env.Delivers) : env.Contract :=
  fun k want _ => (hd k want).1

theorem envFault_contract (j kind : Nat) (hk : kind ≤ 3) : (envFault j kind).Contract := by
  intro k want
  unfold envFault
  by_cases h : k ≠ j
  · rw [if_pos h]; intro _; exact Nat.le_refl _
  · rw [if_neg h]
    match kind, hk with
    | 0, _ => intro he; cases he
    | 1, _ => by_cases hw : want ≤ 1 <;> simp [hw]
    | 2, _ => by_cases hw : want ≤ 1 <;> simp [hw]
    | 3, _ => intro he; cases he

/-- the faulty read of `envFault` is short, whatever it is asked for -/
theorem envFault_short (j kind want : Nat) (hw : 0 < want) : (envFault j kind j want).n < want := by
  unfold envFault
  rw [if_neg (fun h => h rfl)]
  match kind with
  | 0 => exact hw
  | 1 => by_cases h1 : want ≤ 1 <;> simp [h1] <;> omega
  | 2 => by_cases h1 : want ≤ 1 <;> simp [h1] <;> omega
  | 3 => exact hw
  | 4 => show want - 1 < want; omega
  | _ + 5 => exact hw

end GoUefi.Impl
