import GoUefi.Properties.C09g
/-!
# Lemmas about the translated signature-database decoder and encoder (support for `C08g.lean`)

`readBytes` against `readN`, the fixed-size codecs against `rd32`/`le32`/`guidWire`, then one lemma per
translated function: `ReadSignatureData` (`RSD_*`), the `parseList` loop (`parseLoop_*`),
`ReadSignatureList` (`RSL_*`; `RSLtail` is the part after the four header reads, `mTail` the
corresponding part of `Impl.readList`), the `ReadSignatureDatabase` loop (`dbLoop_*`), and the writers
(`WSD_eq`, `WSL_eq`, `WSDB_eq`).  `*_spec` lemmas relate to the Impl model, `*_fuel` lemmas state
that any two sufficient amounts of fuel give the same result.
-/
namespace GoUefi.Gen
open GoUefi GoUefi.C09

theorem goWrap_eof : goWrap (some "io.EOF") = some "%w:io.EOF" := by simp [goWrap]
theorem goWrap_ueof : goWrap (some "io.ErrUnexpectedEOF") = some "%w:io.ErrUnexpectedEOF" := by simp [goWrap]
theorem errIs_weof : errIs (some "%w:io.EOF") "io.EOF" = true := by decide
theorem errIs_wueof : errIs (some "%w:io.ErrUnexpectedEOF") "io.EOF" = false := by decide

theorem readBytes_eq (n : Nat) (f : List UInt8) :
    readBytes n f = match readN n f with
      | .ok (a, r) => (a, r, none)
      | .error .eof => ([], [], some "io.EOF")
      | .error _ => ([], [], some "io.ErrUnexpectedEOF") := by
  unfold readBytes readN
  by_cases h0 : n = 0
  · simp [h0]
  · by_cases h1 : f = []
    · simp [h0, h1]
    · by_cases h2 : f.length < n
      · simp [h0, h1, h2]
      · simp [h0, h1, h2]

theorem readBytes_len {n : Nat} (x rest : List UInt8) (h : x.length = n) :
    readBytes n (x ++ rest) = (x, rest, none) := by
  rw [readBytes_eq, readN_len x rest h]

theorem readBytes_nil {n : Nat} (h : n ≠ 0) : readBytes n [] = ([], [], some "io.EOF") := by
  simp [readBytes, h]

theorem readBytes_short {n : Nat} {f : List UInt8} (h1 : f ≠ []) (h2 : f.length < n) :
    readBytes n f = ([], [], some "io.ErrUnexpectedEOF") := by
  have : n ≠ 0 := by omega
  simp [readBytes, h1, h2, this]

theorem decLE32_eq (b : List UInt8) (h : b.length = 4) : decLE32 b = UInt32.ofNat (rd32 b) := by
  match b, h with
  | [a, b, c, d], _ => rfl

theorem decLE32_toNat (b : List UInt8) (h : b.length = 4) : (decLE32 b).toNat = rd32 b := by
  rw [decLE32_eq b h, UInt32.toNat_ofNat']
  exact Nat.mod_eq_of_lt (rd32_lt b)

theorem decLE16_toNat (b : List UInt8) (h : b.length = 2) : (decLE16 b).toNat = rd16 b := by
  match b, h with
  | [a, b], _ =>
    show (UInt16.ofNat (rd16 [a, b])).toNat = _
    rw [UInt16.toNat_ofNat']
    exact Nat.mod_eq_of_lt (rd16_lt _)

theorem encLE32_eq (v : UInt32) : encLE32 v = le32 v.toNat := rfl
theorem encLE16_eq (v : UInt16) : encLE16 v = le16 v.toNat := rfl

theorem encGuid_eq (g : util.EFIGUID) : encLE_util_EFIGUID g = gw g := by
  simp [encLE_util_EFIGUID, gw, guidWire, encLE32_eq, encLE16_eq, decBytes]

theorem guidWire_guidOfWire (b : Bytes) (h : b.length = 16) : guidWire (guidOfWire b) = b := by
  match b, h with
  | [b0, b1, b2, b3, b4, b5, b6, b7, b8, b9, b10, b11, b12, b13, b14, b15], _ =>
    simp only [guidWire, guidOfWire, List.take, List.drop]
    rw [le32_rd32 _ rfl, le16_rd16 _ rfl, le16_rd16 _ rfl]
    rfl

theorem decGuid_ok (b : List UInt8) (h : b.length = 16) :
    GuidOK (decLE_util_EFIGUID b) ∧ gw (decLE_util_EFIGUID b) = b := by
  constructor
  · simp [GuidOK, decLE_util_EFIGUID, decBytes, h]
  · have e : (⟨(decLE_util_EFIGUID b).Data1.toNat, (decLE_util_EFIGUID b).Data2.toNat,
        (decLE_util_EFIGUID b).Data3.toNat, (decLE_util_EFIGUID b).Data4⟩ : Guid) = guidOfWire b := by
      simp only [decLE_util_EFIGUID, guidOfWire, decBytes, List.drop_zero]
      rw [decLE32_toNat _ (by simp; omega), decLE16_toNat _ (by simp; omega), decLE16_toNat _ (by simp; omega)]
    rw [gw, e, guidWire_guidOfWire b h]


def zeroGuid : util.EFIGUID := ⟨0, 0, 0, [0, 0, 0, 0, 0, 0, 0, 0]⟩
def zeroSD : signature.SignatureData := ⟨zeroGuid, []⟩
def zeroL : signature.SignatureList := ⟨zeroGuid, 0, 0, 0, [], []⟩

theorem RSD_nil (size : UInt32) :
    signature.ReadSignatureData [] size = ([], zeroSD, some "%w:io.EOF") := by
  simp [signature.ReadSignatureData, readBytes_nil, goWrap_eof, zeroSD, zeroGuid]

theorem RSD_short {f : List UInt8} (size : UInt32) (h1 : f ≠ []) (h2 : f.length < 16) :
    signature.ReadSignatureData f size = ([], zeroSD, some "%w:io.ErrUnexpectedEOF") := by
  simp [signature.ReadSignatureData, readBytes_short h1 h2, goWrap_ueof, zeroSD, zeroGuid]

theorem RSD_long (o r : List UInt8) (size : UInt32) (ho : o.length = 16) (hs : 16 ≤ size.toNat) :
    signature.ReadSignatureData (o ++ r) size =
      if r.length < size.toNat - 16 then ([], zeroSD, some "%w:io.ErrUnexpectedEOF")
      else (r.drop (size.toNat - 16), ⟨decLE_util_EFIGUID o, r.take (size.toNat - 16)⟩, none) := by
  have h16 : ¬ size < util.SizeofEFIGUID := by
    rw [UInt32.lt_iff_toNat_lt]; simp [util.SizeofEFIGUID]; omega
  have hsub : (size - util.SizeofEFIGUID).toNat = size.toNat - 16 := by
    rw [UInt32.toNat_sub_of_le]; · rfl
    · rw [UInt32.le_iff_toNat_le]; simpa [util.SizeofEFIGUID] using hs
  simp only [signature.ReadSignatureData, readBytes_len o r ho, readUpTo, hsub]
  simp only [Option.isNone_none, Option.isSome_none, if_true, Bool.false_eq_true, if_false, h16, decide_false,
    Int.toNat_natCast, Bool.true_and]
  by_cases h : r.length < size.toNat - 16
  · have hc : (Int.ofNat (List.take (size.toNat - 16) r).length != ((size.toNat - 16 : Nat) : Int)) = true := by
      simp only [List.length_take, bne_iff_ne, ne_eq, Int.ofNat_eq_natCast, Int.natCast_inj]; omega
    have hd : List.drop (size.toNat - 16) r = [] := List.drop_eq_nil_of_le (by omega)
    simp only [hc, if_true, Option.isSome_some, goWrap_ueof, h, hd, zeroSD, zeroGuid]
  · have hc : (Int.ofNat (List.take (size.toNat - 16) r).length != ((size.toNat - 16 : Nat) : Int)) = false := by
      simp only [List.length_take, bne_eq_false_iff_eq, Int.ofNat_eq_natCast, Int.natCast_inj]; omega
    simp only [hc, Bool.false_eq_true, if_false, Option.isSome_none, h]


theorem RSD_spec (f : List UInt8) (size : UInt32) (hs : 16 ≤ size.toNat) :
    match Impl.readSig size.toNat f with
    | .ok (s, rest) => ∃ sd, signature.ReadSignatureData f size = (rest, sd, none) ∧ absSD sd = s ∧
        GuidOK sd.Owner ∧ rest.length + 16 ≤ f.length
    | .error _ => ∃ e, signature.ReadSignatureData f size = ([], zeroSD, some e) ∧
        (e = "%w:io.EOF" ∨ e = "%w:io.ErrUnexpectedEOF") := by
  by_cases h0 : f = []
  · subst h0
    simp [Impl.readSig, readN, RSD_nil]
  by_cases h1 : f.length < 16
  · have : readN 16 f = .error .unexpectedEof := by simp [readN, h0, h1]
    simp [Impl.readSig, this, RSD_short size h0 h1]
  have hf : f = f.take 16 ++ f.drop 16 := (List.take_append_drop 16 f).symm
  have ho : (f.take 16).length = 16 := by simp; omega
  generalize f.take 16 = o at hf ho
  generalize f.drop 16 = r at hf
  subst hf
  rw [RSD_long o r size ho hs]
  simp only [Impl.readSig, readN_len o r ho]
  by_cases h : r.length < size.toNat - 16
  · have : ∃ e, readN (size.toNat - 16) r = .error e := by
      have hz : ¬ size.toNat - 16 = 0 := by omega
      unfold readN
      by_cases hr : r = []
      · exact ⟨.eof, by simp [hr, hz]⟩
      · exact ⟨.unexpectedEof, by simp [hr, h, hz]⟩
    obtain ⟨e, he⟩ := this
    simp [he, h]
  · have : readN (size.toNat - 16) r = .ok (r.take (size.toNat - 16), r.drop (size.toNat - 16)) := by
      unfold readN
      by_cases hz : size.toNat - 16 = 0
      · simp [hz]
      · have hr : r ≠ [] := by intro hr; subst hr; simp at h; omega
        simp [hz, hr, h]
    simp only [this, h, if_false]
    refine ⟨_, rfl, ?_, (decGuid_ok o ho).1, ?_⟩
    · simp [absSD, (decGuid_ok o ho).2]
    · simp; omega


theorem RSD_consumes (f : List UInt8) (size : UInt32) (hs : 16 ≤ size.toNat)
    (h : (signature.ReadSignatureData f size).2.2.isSome = false) :
    (signature.ReadSignatureData f size).1.length + 16 ≤ f.length := by
  have := RSD_spec f size hs
  split at this
  · obtain ⟨sd, e, _, _, hl⟩ := this
    rw [e]; exact hl
  · obtain ⟨e, he, _⟩ := this
    rw [he] at h; simp at h

theorem parseLoop_succ (s : signature.SignatureList) (size : UInt32) (n : Nat) (f : List UInt8) (t : UInt32)
    (d : List signature.SignatureData) :
    signature.ReadSignatureList.parseList.loop1 s size (n + 1) f t d =
      if t = 0 then Loop.ret (f, t, d, none)
      else if errIs (signature.ReadSignatureData f size).2.2 "io.EOF" = true then
        Loop.ret ((signature.ReadSignatureData f size).1, t, [], some "%w:io.ErrUnexpectedEOF")
      else if (signature.ReadSignatureData f size).2.2.isSome = true then
        Loop.ret ((signature.ReadSignatureData f size).1, t, [], (signature.ReadSignatureData f size).2.2)
      else signature.ReadSignatureList.parseList.loop1 s size n (signature.ReadSignatureData f size).1
        (t - s.Size) (d ++ [(signature.ReadSignatureData f size).2.1]) := by
  rw [signature.ReadSignatureList.parseList.loop1]
  simp only [beq_iff_eq, goWrap_ueof]

theorem parseLoop_fuel (s : signature.SignatureList) (size : UInt32) (hs : 16 ≤ size.toNat) :
    ∀ (n m : Nat) (f : List UInt8) (t : UInt32) (d : List signature.SignatureData),
      f.length + 1 ≤ n → f.length + 1 ≤ m →
      signature.ReadSignatureList.parseList.loop1 s size n f t d =
        signature.ReadSignatureList.parseList.loop1 s size m f t d := by
  intro n
  induction n with
  | zero => intro m f t d h; omega
  | succ n ih =>
    intro m f t d hn hm
    cases m with
    | zero => omega
    | succ m =>
      rw [parseLoop_succ, parseLoop_succ]
      by_cases h0 : t = 0
      · simp [h0]
      · rw [if_neg h0, if_neg h0]
        by_cases h1 : errIs (signature.ReadSignatureData f size).2.2 "io.EOF" = true
        · rw [if_pos h1, if_pos h1]
        · rw [if_neg h1, if_neg h1]
          by_cases h2 : (signature.ReadSignatureData f size).2.2.isSome = true
          · rw [if_pos h2, if_pos h2]
          · rw [if_neg h2, if_neg h2]
            have := RSD_consumes f size hs (by simpa using h2)
            exact ih m _ _ _ (by omega) (by omega)

theorem parseLoop_spec (s : signature.SignatureList) (size : UInt32) (hsz : s.Size = size)
    (hs : 16 ≤ size.toNat) :
    ∀ (k n : Nat) (f : List UInt8) (t : UInt32) (d : List signature.SignatureData),
      t.toNat = k * size.toNat → f.length + 1 ≤ n →
      match Impl.readSigs size.toNat k f with
      | .ok (ss, rest) => ∃ gs, signature.ReadSignatureList.parseList.loop1 s size n f t d =
            Loop.ret (rest, 0, d ++ gs, none) ∧ gs.map absSD = ss ∧ (∀ x ∈ gs, GuidOK x.Owner)
      | .error _ => ∃ t', signature.ReadSignatureList.parseList.loop1 s size n f t d =
            Loop.ret ([], t', [], some "%w:io.ErrUnexpectedEOF") := by
  intro k
  induction k with
  | zero =>
    intro n f t d ht hn
    have h0 : t = 0 := by apply UInt32.toNat_inj.mp; simpa using ht
    cases n with
    | zero => omega
    | succ n =>
      rw [parseLoop_succ, if_pos h0]
      simp only [Impl.readSigs]
      exact ⟨[], by simp [h0], rfl, by simp⟩
  | succ k ih =>
    intro n f t d ht hn
    cases n with
    | zero => omega
    | succ n =>
      have h0 : t ≠ 0 := by
        intro h; rw [h] at ht; simp at ht
        have : 0 < (k + 1) * size.toNat := Nat.mul_pos (by omega) (by omega)
        omega
      rw [parseLoop_succ, if_neg h0]
      simp only [Impl.readSigs]
      have hsp := RSD_spec f size hs
      split at hsp
      · rename_i sd rest hrs
        obtain ⟨g, hg, ha, hok, hl⟩ := hsp
        rw [hrs]
        simp only [hg, errIs_none, Bool.false_eq_true, if_false, Option.isSome_none]
        have hle : s.Size ≤ t := by
          rw [UInt32.le_iff_toNat_le, hsz, ht, Nat.add_mul]; omega
        have ht' : (t - s.Size).toNat = k * size.toNat := by
          rw [UInt32.toNat_sub_of_le _ _ hle, hsz, ht, Nat.add_mul]; omega
        have := ih n rest (t - s.Size) (d ++ [g]) ht' (by omega)
        split at this
        · rename_i ss rest' hrs'
          obtain ⟨gs, hgs, hm, hoks⟩ := this
          simp only [hrs']
          refine ⟨g :: gs, by rw [hgs]; simp, by simp [ha, hm], ?_⟩
          intro x hx
          rcases List.mem_cons.mp hx with rfl | hx
          · exact hok
          · exact hoks x hx
        · rename_i e hrs'
          obtain ⟨t', ht'⟩ := this
          simp only [hrs']
          exact ⟨t', ht'⟩
      · rename_i e hrs
        obtain ⟨e', he', hor⟩ := hsp
        rw [hrs]
        simp only [he']
        rcases hor with rfl | rfl
        · simp only [errIs_weof, if_true]; exact ⟨t, rfl⟩
        · simp only [errIs_wueof, Bool.false_eq_true, if_false, Option.isSome_some, if_true]; exact ⟨t, rfl⟩


theorem RSL_nil (fuel : Nat) : signature.ReadSignatureList fuel [] = ([], zeroL, some "io.EOF") := by
  simp [signature.ReadSignatureList, readBytes_nil, zeroL, zeroGuid]

/-- the part of `ReadSignatureList` after the four header fields -/
def RSLtail (fuel : Nat) (s : signature.SignatureList) (f : List UInt8) :
    List UInt8 × signature.SignatureList × GoErr :=
  if s.Size < 16 then
    (f, zeroL, some "fmt.Errorf")
  else if (decide (UInt64.ofNat s.ListSize.toNat < (28 : UInt64) + UInt64.ofNat s.HeaderSize.toNat) ||
      (((s.ListSize - 28) - s.HeaderSize) % s.Size != 0)) = true then
    (f, zeroL, some "fmt.Errorf")
  else
    let r := signature.ReadSignatureList.parseList fuel s f (s.ListSize - 28) [] s.Size
    let fin : List UInt8 × signature.SignatureList × GoErr :=
      if r.2.2.2.isSome = true then (r.1, zeroL, r.2.2.2) else (r.1, { s with Signatures := r.2.2.1 }, none)
    let sig := (signature.ValidEFISignatureSchemes.lookup s.SignatureType).getD ""
    if sig = "X509" then
      if s.HeaderSize != 0 then (f, zeroL, some "fmt.Errorf")
      else fin
    else if sig = "SHA256" then
      if s.HeaderSize != 0 then (f, zeroL, some "fmt.Errorf")
      else if s.Size != 48 then (f, zeroL, some "fmt.Errorf")
      else fin
    else if sig = "EXTERNAL MANAGEMENT" then
      if s.HeaderSize != 0 then (f, zeroL, some "fmt.Errorf")
      else if s.Size != 17 then (f, zeroL, some "fmt.Errorf")
      else fin
    else (f, zeroL, some "fmt.Errorf")

theorem RSL_hdr (fuel : Nat) (ty a b c r4 : List UInt8) (hty : ty.length = 16) (ha : a.length = 4)
    (hb : b.length = 4) (hc : c.length = 4) :
    signature.ReadSignatureList fuel (ty ++ (a ++ (b ++ (c ++ r4)))) =
      RSLtail fuel ⟨decLE_util_EFIGUID ty, decLE32 a, decLE32 b, decLE32 c, [], []⟩ r4 := by
  unfold signature.ReadSignatureList RSLtail
  have hne : ((none : GoErr) == some "io.EOF") = false := rfl
  simp only [readBytes_len ty _ hty, readBytes_len a _ ha, readBytes_len b _ hb, readBytes_len c _ hc,
    hne, Bool.false_and, Bool.false_eq_true, if_false, Option.isSome_none, Option.isNone_none, if_true,
    util.SizeofEFIGUID, signature.SizeofSignatureList, zeroL, zeroGuid, beq_iff_eq, decide_eq_true_eq]

theorem readBytes_fail {n : Nat} {r : List UInt8} (hn : n ≠ 0) (h : r.length < n) :
    readBytes n r = ([], [], some "io.EOF") ∨ readBytes n r = ([], [], some "io.ErrUnexpectedEOF") := by
  by_cases hr : r = []
  · left; subst hr; exact readBytes_nil hn
  · right; exact readBytes_short hr h

theorem split_take (f : List UInt8) (n : Nat) (h : n ≤ f.length) :
    ∃ x r, f = x ++ r ∧ x.length = n ∧ r.length = f.length - n :=
  ⟨f.take n, f.drop n, (List.take_append_drop n f).symm, by simp; omega, by simp⟩

theorem RSL_short (fuel : Nat) {f : List UInt8} (h0 : f ≠ []) (h : f.length < 28) :
    signature.ReadSignatureList fuel f = ([], zeroL, some "%w:io.ErrUnexpectedEOF") := by
  have hne : ((none : GoErr) == some "io.EOF") = false := rfl
  by_cases h1 : f.length < 16
  · simp [signature.ReadSignatureList, readBytes_short h0 h1, goWrap_ueof, zeroL, zeroGuid]
  obtain ⟨ty, r1, rfl, hty, hr1⟩ := split_take f 16 (by omega)
  by_cases h2 : r1.length < 4
  · rcases readBytes_fail (n := 4) (by omega) h2 with e | e <;>
      simp [signature.ReadSignatureList, readBytes_len ty _ hty, e, goWrap_ueof, zeroL, zeroGuid]
  obtain ⟨a, r2, rfl, ha, hr2⟩ := split_take r1 4 (by omega)
  by_cases h3 : r2.length < 4
  · rcases readBytes_fail (n := 4) (by omega) h3 with e | e <;>
      simp [signature.ReadSignatureList, readBytes_len ty _ hty, readBytes_len a _ ha, e, goWrap_ueof, zeroL, zeroGuid]
  obtain ⟨b, r3, rfl, hb, hr3⟩ := split_take r2 4 (by omega)
  have h4 : r3.length < 4 := by simp at h hr1 hr2 hr3; omega
  rcases readBytes_fail (n := 4) (by omega) h4 with e | e <;>
    simp [signature.ReadSignatureList, readBytes_len ty _ hty, readBytes_len a _ ha, readBytes_len b _ hb, e,
      goWrap_ueof, zeroL, zeroGuid]


theorem lookup_mem {α β : Type} [BEq α] [LawfulBEq α] {a : α} {b : β} :
    ∀ {l : List (α × β)}, l.lookup a = some b → (a, b) ∈ l
  | [], h => by simp at h
  | (k, v) :: es, h => by
    rw [List.lookup_cons] at h
    by_cases hk : (a == k) = true
    · rw [hk] at h
      simp only [Option.some.injEq] at h
      have := eq_of_beq hk
      subst this h
      exact List.mem_cons_self
    · have hk' : (a == k) = false := by simpa using hk
      rw [hk'] at h
      exact List.mem_cons_of_mem _ (lookup_mem h)

theorem gw_external : gw signature.CERT_EXTERNAL_MANAGEMENT_GUID = Impl.guidExternal := by decide +kernel

theorem tag_x509 (g : util.EFIGUID) :
    (signature.ValidEFISignatureSchemes.lookup g).getD "" = "X509" ↔ g = signature.CERT_X509_GUID := by
  constructor
  · intro h
    cases hl : signature.ValidEFISignatureSchemes.lookup g with
    | none => rw [hl] at h; exact absurd h (by decide)
    | some w =>
      rw [hl] at h
      simp only [Option.getD_some] at h
      subst h
      have hm := lookup_mem hl
      simp only [signature.ValidEFISignatureSchemes, List.mem_cons, List.not_mem_nil, or_false,
        Prod.mk.injEq] at hm
      rcases hm with ⟨_, hv⟩ | ⟨_, hv⟩ | ⟨_, hv⟩ | ⟨_, hv⟩ | ⟨_, hv⟩ | ⟨hg, _⟩ | ⟨_, hv⟩ | ⟨_, hv⟩ |
        ⟨_, hv⟩ | ⟨_, hv⟩ | ⟨_, hv⟩
      all_goals first | exact hg | exact absurd hv (by decide)
  · rintro rfl; decide +kernel


theorem tag_sha256 (g : util.EFIGUID) :
    (signature.ValidEFISignatureSchemes.lookup g).getD "" = "SHA256" ↔ g = signature.CERT_SHA256_GUID := by
  constructor
  · intro h
    cases hl : signature.ValidEFISignatureSchemes.lookup g with
    | none => rw [hl] at h; exact absurd h (by decide)
    | some w =>
      rw [hl] at h
      simp only [Option.getD_some] at h
      subst h
      have hm := lookup_mem hl
      simp only [signature.ValidEFISignatureSchemes, List.mem_cons, List.not_mem_nil, or_false,
        Prod.mk.injEq] at hm
      rcases hm with ⟨hg, hv⟩ | ⟨hg, hv⟩ | ⟨hg, hv⟩ | ⟨hg, hv⟩ | ⟨hg, hv⟩ | ⟨hg, hv⟩ | ⟨hg, hv⟩ | ⟨hg, hv⟩ |
        ⟨hg, hv⟩ | ⟨hg, hv⟩ | ⟨hg, hv⟩
      all_goals first | exact absurd hv (by decide) | exact hg
  · rintro rfl; decide +kernel

theorem tag_external (g : util.EFIGUID) :
    (signature.ValidEFISignatureSchemes.lookup g).getD "" = "EXTERNAL MANAGEMENT" ↔
      g = signature.CERT_EXTERNAL_MANAGEMENT_GUID := by
  constructor
  · intro h
    cases hl : signature.ValidEFISignatureSchemes.lookup g with
    | none => rw [hl] at h; exact absurd h (by decide)
    | some w =>
      rw [hl] at h
      simp only [Option.getD_some] at h
      subst h
      have hm := lookup_mem hl
      simp only [signature.ValidEFISignatureSchemes, List.mem_cons, List.not_mem_nil, or_false,
        Prod.mk.injEq] at hm
      rcases hm with ⟨hg, hv⟩ | ⟨hg, hv⟩ | ⟨hg, hv⟩ | ⟨hg, hv⟩ | ⟨hg, hv⟩ | ⟨hg, hv⟩ | ⟨hg, hv⟩ | ⟨hg, hv⟩ |
        ⟨hg, hv⟩ | ⟨hg, hv⟩ | ⟨hg, hv⟩
      all_goals first | exact absurd hv (by decide) | exact hg
  · rintro rfl; decide +kernel

theorem gw_eq_x509 {g : util.EFIGUID} (h : GuidOK g) : gw g = Impl.guidX509 ↔ g = signature.CERT_X509_GUID := by
  rw [← C09g_schemes.2.1]; exact C09g_gw_inj h rfl
theorem gw_eq_sha256 {g : util.EFIGUID} (h : GuidOK g) : gw g = Impl.guidSha256 ↔ g = signature.CERT_SHA256_GUID := by
  rw [← C09g_schemes.2.2.1]; exact C09g_gw_inj h rfl
theorem gw_eq_external {g : util.EFIGUID} (h : GuidOK g) :
    gw g = Impl.guidExternal ↔ g = signature.CERT_EXTERNAL_MANAGEMENT_GUID := by
  rw [← gw_external]; exact C09g_gw_inj h rfl

theorem u32_ne_zero (x : UInt32) : (x != 0) = true ↔ x.toNat ≠ 0 := by
  rw [bne_iff_ne, ne_eq, ← UInt32.toNat_inj]; rfl
theorem u32_ne_48 (x : UInt32) : (x != 48) = true ↔ x.toNat ≠ 48 := by
  rw [bne_iff_ne, ne_eq, ← UInt32.toNat_inj]; rfl
theorem u32_ne_17 (x : UInt32) : (x != 17) = true ↔ x.toNat ≠ 17 := by
  rw [bne_iff_ne, ne_eq, ← UInt32.toNat_inj]; rfl

/-- the per-type switch, against `Impl.handled` -/
theorem RSLtail_dispatch (fuel : Nat) (s : signature.SignatureList) (f : List UInt8)
    (hok : GuidOK s.SignatureType) (h1 : ¬ s.Size < 16)
    (h2 : (decide (UInt64.ofNat s.ListSize.toNat < (28 : UInt64) + UInt64.ofNat s.HeaderSize.toNat) ||
      (((s.ListSize - 28) - s.HeaderSize) % s.Size != 0)) = false) :
    (Impl.handled (gw s.SignatureType) s.HeaderSize.toNat s.Size.toNat = true →
      RSLtail fuel s f =
        let r := signature.ReadSignatureList.parseList fuel s f (s.ListSize - 28) [] s.Size
        if r.2.2.2.isSome = true then (r.1, zeroL, r.2.2.2) else (r.1, { s with Signatures := r.2.2.1 }, none)) ∧
    (Impl.handled (gw s.SignatureType) s.HeaderSize.toNat s.Size.toNat = false →
      ∃ e, RSLtail fuel s f = (f, zeroL, some e) ∧ errIs (some e) "io.EOF" = false) := by
  unfold RSLtail Impl.handled
  rw [if_neg h1, h2]
  simp only [Bool.false_eq_true, if_false, tag_x509, tag_sha256, tag_external, gw_eq_x509 hok,
    gw_eq_sha256 hok, gw_eq_external hok]
  by_cases hx : s.SignatureType = signature.CERT_X509_GUID
  · simp only [hx, if_true]
    by_cases hh : s.HeaderSize.toNat = 0
    · have : (s.HeaderSize != 0) = false := by
        rw [← Bool.not_eq_true, u32_ne_zero]; simpa using hh
      simp [hh, this]
    · have : (s.HeaderSize != 0) = true := (u32_ne_zero _).mpr hh
      simp only [this, if_true, hh, decide_false, Bool.false_eq_true, false_imp_iff, true_and, true_imp_iff]
      exact ⟨_, rfl, by decide⟩
  · simp only [hx, if_false]
    by_cases hs : s.SignatureType = signature.CERT_SHA256_GUID
    · simp only [hs, if_true]
      by_cases hh : s.HeaderSize.toNat = 0
      · have hz : (s.HeaderSize != 0) = false := by
          rw [← Bool.not_eq_true, u32_ne_zero]; simpa using hh
        by_cases h48 : s.Size.toNat = 48
        · have hq : (s.Size != 48) = false := by
            rw [← Bool.not_eq_true, u32_ne_48]; simpa using h48
          simp [hh, h48, hz, hq]
        · have hq : (s.Size != 48) = true := (u32_ne_48 _).mpr h48
          simp only [hz, hq, if_true, hh, h48, decide_false, decide_true, Bool.and_false, Bool.false_eq_true,
            false_imp_iff, true_and, true_imp_iff, if_false]
          exact ⟨_, rfl, by decide⟩
      · have : (s.HeaderSize != 0) = true := (u32_ne_zero _).mpr hh
        simp only [this, if_true, hh, decide_false, Bool.false_and, Bool.false_eq_true, false_imp_iff, true_and, true_imp_iff]
        exact ⟨_, rfl, by decide⟩
    · simp only [hs, if_false]
      by_cases he : s.SignatureType = signature.CERT_EXTERNAL_MANAGEMENT_GUID
      · simp only [he, if_true]
        by_cases hh : s.HeaderSize.toNat = 0
        · have hz : (s.HeaderSize != 0) = false := by
            rw [← Bool.not_eq_true, u32_ne_zero]; simpa using hh
          by_cases h17 : s.Size.toNat = 17
          · have hq : (s.Size != 17) = false := by
              rw [← Bool.not_eq_true, u32_ne_17]; simpa using h17
            simp [hh, h17, hz, hq]
          · have hq : (s.Size != 17) = true := (u32_ne_17 _).mpr h17
            simp only [hz, hq, if_true, hh, h17, decide_false, decide_true, Bool.and_false, Bool.false_eq_true,
              false_imp_iff, true_and, true_imp_iff, if_false]
            exact ⟨_, rfl, by decide⟩
        · have : (s.HeaderSize != 0) = true := (u32_ne_zero _).mpr hh
          simp only [this, if_true, hh, decide_false, Bool.false_and, Bool.false_eq_true, false_imp_iff, true_and, true_imp_iff]
          exact ⟨_, rfl, by decide⟩
      · simp only [he, if_false, Bool.false_eq_true, false_imp_iff, true_and, true_imp_iff]
        exact ⟨_, rfl, by decide⟩


theorem hdr_check (L H S : UInt32) :
    (decide (UInt64.ofNat L.toNat < (28 : UInt64) + UInt64.ofNat H.toNat) || (((L - 28) - H) % S != 0)) = true ↔
      (L.toNat < 28 + H.toNat ∨ (L.toNat - 28 - H.toNat) % S.toNat ≠ 0) := by
  have hL := L.toNat_lt
  have hH := H.toNat_lt
  have h64a : (UInt64.ofNat L.toNat).toNat = L.toNat := by
    rw [UInt64.toNat_ofNat']; exact Nat.mod_eq_of_lt (by omega)
  have h64b : ((28 : UInt64) + UInt64.ofNat H.toNat).toNat = 28 + H.toNat := by
    rw [UInt64.toNat_add, UInt64.toNat_ofNat', Nat.mod_eq_of_lt (a := H.toNat) (by omega)]
    show (28 + H.toNat) % 2 ^ 64 = _
    exact Nat.mod_eq_of_lt (by omega)
  rw [Bool.or_eq_true, decide_eq_true_eq, UInt64.lt_iff_toNat_lt, h64a, h64b, u32_ne_zero]
  by_cases hlt : L.toNat < 28 + H.toNat
  · simp [hlt]
  · have h28 : (28 : UInt32) ≤ L := by rw [UInt32.le_iff_toNat_le]; show 28 ≤ L.toNat; omega
    have e1 : (L - 28).toNat = L.toNat - 28 := by rw [UInt32.toNat_sub_of_le _ _ h28]; rfl
    have hH' : H ≤ L - 28 := by rw [UInt32.le_iff_toNat_le, e1]; omega
    rw [UInt32.toNat_mod, UInt32.toNat_sub_of_le _ _ hH', e1]

theorem parseList_eq (fuel : Nat) (s : signature.SignatureList) (f : List UInt8) (t : UInt32)
    (d : List signature.SignatureData) (size : UInt32) :
    signature.ReadSignatureList.parseList fuel s f t d size =
      match signature.ReadSignatureList.parseList.loop1 s size fuel f t d with
      | Loop.ret r => r
      | Loop.done _ => (f, t, [], some "go2lean:out-of-fuel") := rfl

/-- the model's `readList` after the header -/
def mTail (ty : Bytes) (L H S : Nat) (r4 : Bytes) : Impl.LRes :=
  if S < 16 ∨ L < 28 + H ∨ (L - 28 - H) % S ≠ 0 then .bad else
  if !Impl.handled ty H S then .bad else
  match Impl.readSigs S ((L - 28) / S) r4 with
  | .error _ => .bad
  | .ok (ss, rest) => .ok ⟨ty, L, H, S, [], ss⟩ rest

theorem RSLtail_spec (fuel : Nat) (s : signature.SignatureList) (r4 : List UInt8)
    (hok : GuidOK s.SignatureType) (hh : s.SignatureHeader = []) (hf : r4.length + 1 ≤ fuel) :
    match mTail (gw s.SignatureType) s.ListSize.toNat s.HeaderSize.toNat s.Size.toNat r4 with
    | .cleanEof => False
    | .bad => ∃ f' e, RSLtail fuel s r4 = (f', zeroL, some e) ∧ errIs (some e) "io.EOF" = false
    | .ok l rest => ∃ gl, RSLtail fuel s r4 = (rest, gl, none) ∧ absL gl = l ∧ ListOK gl := by
  unfold mTail
  by_cases c1 : s.Size.toNat < 16
  · rw [if_pos (Or.inl c1)]
    have : s.Size < 16 := by rw [UInt32.lt_iff_toNat_lt]; exact c1
    exact ⟨_, _, by rw [RSLtail, if_pos this], by decide⟩
  have c1' : ¬ s.Size < 16 := by rw [UInt32.lt_iff_toNat_lt]; exact c1
  by_cases c2 : s.ListSize.toNat < 28 + s.HeaderSize.toNat ∨
      (s.ListSize.toNat - 28 - s.HeaderSize.toNat) % s.Size.toNat ≠ 0
  · rw [if_pos (Or.inr c2)]
    have := (hdr_check s.ListSize s.HeaderSize s.Size).mpr c2
    exact ⟨_, _, by rw [RSLtail, if_neg c1', if_pos this], by decide⟩
  have c2' : (decide (UInt64.ofNat s.ListSize.toNat < (28 : UInt64) + UInt64.ofNat s.HeaderSize.toNat) ||
      (((s.ListSize - 28) - s.HeaderSize) % s.Size != 0)) = false := by
    rw [← Bool.not_eq_true, hdr_check]; exact c2
  rw [if_neg (by rintro (h | h); exact c1 h; exact c2 h)]
  obtain ⟨d1, d2⟩ := RSLtail_dispatch fuel s r4 hok c1' c2'
  cases hhd : Impl.handled (gw s.SignatureType) s.HeaderSize.toNat s.Size.toNat with
  | false =>
    obtain ⟨e, he, hne⟩ := d2 hhd
    simp only [Bool.not_false, if_true]
    exact ⟨_, _, he, hne⟩
  | true =>
    simp only [Bool.not_true, Bool.false_eq_true, if_false]
    rw [d1 hhd]
    have hH : s.HeaderSize.toNat = 0 := Impl.handled_hdr hhd
    simp only [not_or, Nat.not_lt, Decidable.not_not, hH] at c2
    obtain ⟨c2a, c2b⟩ := c2
    have h28 : (28 : UInt32) ≤ s.ListSize := by
      rw [UInt32.le_iff_toNat_le]; show 28 ≤ s.ListSize.toNat; omega
    have e1 : (s.ListSize - 28).toNat = s.ListSize.toNat - 28 := by
      rw [UInt32.toNat_sub_of_le _ _ h28]; rfl
    have hmul : (s.ListSize - 28).toNat = (s.ListSize.toNat - 28) / s.Size.toNat * s.Size.toNat := by
      rw [e1, Nat.div_mul_cancel (Nat.dvd_of_mod_eq_zero (by simpa using c2b))]
    have hsp := parseLoop_spec s s.Size rfl (by omega) _ fuel r4 (s.ListSize - 28) [] hmul hf
    split at hsp
    · rename_i ss rest hrs
      obtain ⟨gs, hgs, hm, hoks⟩ := hsp
      simp only [hrs, parseList_eq, hgs, Option.isSome_none, Bool.false_eq_true, if_false, List.nil_append]
      refine ⟨_, rfl, ?_, hok, hoks⟩
      simp [absL, hh, hm]
    · rename_i e hrs
      obtain ⟨t', ht'⟩ := hsp
      simp only [hrs, parseList_eq, ht', Option.isSome_some, if_true]
      exact ⟨_, _, rfl, by decide⟩


theorem Impl_readList_short {f : Bytes} (h0 : f ≠ []) (h : f.length < 28) : Impl.readList f = .bad := by
  cases hr : Impl.readList f with
  | cleanEof => exact absurd (Impl.readList_cleanEof hr) h0
  | bad => rfl
  | ok l rest =>
    obtain ⟨e, w⟩ := Impl.readList_ok hr
    have := Impl.encList_length_ge l w.1.1
    rw [e, List.length_append] at h; omega

theorem Impl_readList_hdr (ty a b c r4 : Bytes) (hty : ty.length = 16) (ha : a.length = 4)
    (hb : b.length = 4) (hc : c.length = 4) :
    Impl.readList (ty ++ (a ++ (b ++ (c ++ r4)))) = mTail ty (rd32 a) (rd32 b) (rd32 c) r4 := by
  unfold Impl.readList mTail
  rw [Impl.readHeader_enc ty a b c r4 hty ha hb hc]
  rfl

theorem split_hdr (f : List UInt8) (h : 28 ≤ f.length) :
    ∃ ty a b c r4, f = ty ++ (a ++ (b ++ (c ++ r4))) ∧ ty.length = 16 ∧ a.length = 4 ∧ b.length = 4 ∧
      c.length = 4 ∧ r4.length + 28 = f.length := by
  obtain ⟨ty, r1, rfl, hty, hr1⟩ := split_take f 16 (by omega)
  obtain ⟨a, r2, rfl, ha, hr2⟩ := split_take r1 4 (by omega)
  obtain ⟨b, r3, rfl, hb, hr3⟩ := split_take r2 4 (by simp at h hr1 hr2; omega)
  obtain ⟨c, r4, rfl, hc, hr4⟩ := split_take r3 4 (by simp at h hr1 hr2 hr3; omega)
  refine ⟨ty, a, b, c, r4, rfl, hty, ha, hb, hc, ?_⟩
  simp; omega

theorem RSL_spec (fuel : Nat) (f : List UInt8) (hf : f.length ≤ fuel + 27) :
    match Impl.readList f with
    | .cleanEof => signature.ReadSignatureList fuel f = ([], zeroL, some "io.EOF")
    | .bad => ∃ f' e, signature.ReadSignatureList fuel f = (f', zeroL, some e) ∧ errIs (some e) "io.EOF" = false
    | .ok l rest => ∃ gl, signature.ReadSignatureList fuel f = (rest, gl, none) ∧ absL gl = l ∧ ListOK gl ∧
        rest.length + 28 ≤ f.length := by
  by_cases h0 : f = []
  · subst h0; rw [Impl.readList_nil]; exact RSL_nil fuel
  by_cases h1 : f.length < 28
  · rw [Impl_readList_short h0 h1]
    exact ⟨_, _, RSL_short fuel h0 h1, by decide⟩
  obtain ⟨ty, a, b, c, r4, rfl, hty, ha, hb, hc, hl⟩ := split_hdr f (by omega)
  rw [Impl_readList_hdr ty a b c r4 hty ha hb hc, RSL_hdr fuel ty a b c r4 hty ha hb hc]
  have hg := decGuid_ok ty hty
  have hsp := RSLtail_spec fuel ⟨decLE_util_EFIGUID ty, decLE32 a, decLE32 b, decLE32 c, [], []⟩ r4
    hg.1 rfl (by omega)
  simp only [hg.2, decLE32_toNat a ha, decLE32_toNat b hb, decLE32_toNat c hc] at hsp
  cases hm : mTail ty (rd32 a) (rd32 b) (rd32 c) r4 with
  | cleanEof => rw [hm] at hsp; exact hsp.elim
  | bad => rw [hm] at hsp; exact hsp
  | ok l rest =>
    rw [hm] at hsp
    obtain ⟨gl, e1, e2, e3⟩ := hsp
    refine ⟨gl, e1, e2, e3, ?_⟩
    have hr : Impl.readList (ty ++ (a ++ (b ++ (c ++ r4)))) = .ok l rest := by
      rw [Impl_readList_hdr ty a b c r4 hty ha hb hc, hm]
    obtain ⟨e, w⟩ := Impl.readList_ok hr
    have := Impl.encList_length_ge l w.1.1
    rw [e, List.length_append]; omega

theorem RSL_consumes (fuel : Nat) (f : List UInt8) (hf : f.length ≤ fuel + 27)
    (h : (signature.ReadSignatureList fuel f).2.2.isSome = false) :
    (signature.ReadSignatureList fuel f).1.length + 28 ≤ f.length := by
  have := RSL_spec fuel f hf
  split at this
  · rw [this] at h; simp at h
  · obtain ⟨f', e, he, _⟩ := this
    rw [he] at h; simp at h
  · obtain ⟨gl, e, _, _, hl⟩ := this
    rw [e]; exact hl

theorem RSLtail_fuel (n m : Nat) (s : signature.SignatureList) (f : List UInt8)
    (hn : f.length + 1 ≤ n) (hm : f.length + 1 ≤ m) : RSLtail n s f = RSLtail m s f := by
  by_cases c1 : s.Size < 16
  · simp only [RSLtail, c1, if_true]
  · have hs : 16 ≤ s.Size.toNat := by
      rw [UInt32.lt_iff_toNat_lt] at c1; exact Nat.le_of_not_lt c1
    have := parseLoop_fuel s s.Size hs n m f (s.ListSize - 28) [] hn hm
    have hp : signature.ReadSignatureList.parseList n s f (s.ListSize - 28) [] s.Size =
        signature.ReadSignatureList.parseList m s f (s.ListSize - 28) [] s.Size := by
      rw [parseList_eq, parseList_eq, this]
    unfold RSLtail
    rw [hp]

theorem RSL_fuel (n m : Nat) (f : List UInt8) (hn : f.length ≤ n + 27) (hm : f.length ≤ m + 27) :
    signature.ReadSignatureList n f = signature.ReadSignatureList m f := by
  by_cases h0 : f = []
  · subst h0; rw [RSL_nil, RSL_nil]
  by_cases h1 : f.length < 28
  · rw [RSL_short n h0 h1, RSL_short m h0 h1]
  obtain ⟨ty, a, b, c, r4, rfl, hty, ha, hb, hc, hl⟩ := split_hdr f (by omega)
  rw [RSL_hdr n ty a b c r4 hty ha hb hc, RSL_hdr m ty a b c r4 hty ha hb hc]
  exact RSLtail_fuel n m _ r4 (by omega) (by omega)


theorem dbLoop_succ (n : Nat) (f : List UInt8) (acc : List signature.SignatureList) :
    signature.ReadSignatureDatabase.loop1 (n + 1) f acc =
      if errIs (signature.ReadSignatureList n f).2.2 "io.EOF" = true then
        Loop.done ((signature.ReadSignatureList n f).1, acc)
      else if (signature.ReadSignatureList n f).2.2.isSome = true then
        Loop.ret ((signature.ReadSignatureList n f).1, acc, goWrap (signature.ReadSignatureList n f).2.2)
      else signature.ReadSignatureDatabase.loop1 n (signature.ReadSignatureList n f).1
        (acc ++ [(signature.ReadSignatureList n f).2.1]) := by
  rw [signature.ReadSignatureDatabase.loop1]

theorem errIs_eof : errIs (some "io.EOF") "io.EOF" = true := by decide

theorem goWrap_some (e : String) : ∃ e', goWrap (some e) = some e' := ⟨_, rfl⟩

theorem dbLoop_spec : ∀ (n : Nat) (f : List UInt8) (acc : List signature.SignatureList), f.length + 1 ≤ n →
    match Impl.readDbAux n f with
    | some db => ∃ gdb, signature.ReadSignatureDatabase.loop1 n f acc = Loop.done ([], acc ++ gdb) ∧
        absDb gdb = db ∧ DbOK gdb
    | none => ∃ f' g e, signature.ReadSignatureDatabase.loop1 n f acc = Loop.ret (f', g, some e) := by
  intro n
  induction n with
  | zero => intro f acc h; omega
  | succ n ih =>
    intro f acc hf
    rw [dbLoop_succ]
    simp only [Impl.readDbAux]
    have hsp := RSL_spec n f (by omega)
    cases hr : Impl.readList f with
    | cleanEof =>
      rw [hr] at hsp
      simp only [hsp, errIs_eof, if_true]
      exact ⟨[], by simp, rfl, by intro l hl; simp at hl⟩
    | bad =>
      rw [hr] at hsp
      obtain ⟨f', e, he, hne⟩ := hsp
      simp only [he, hne, Bool.false_eq_true, if_false, Option.isSome_some, if_true]
      obtain ⟨e', he'⟩ := goWrap_some e
      exact ⟨_, _, e', by rw [he']⟩
    | ok l rest =>
      rw [hr] at hsp
      obtain ⟨gl, he, hal, hok, hlen⟩ := hsp
      simp only [he, errIs_none, Bool.false_eq_true, if_false, Option.isSome_none]
      have := ih rest (acc ++ [gl]) (by omega)
      cases hd : Impl.readDbAux n rest with
      | none =>
        rw [hd] at this
        obtain ⟨f', g, e, h'⟩ := this
        exact ⟨f', g, e, h'⟩
      | some db =>
        rw [hd] at this
        obtain ⟨gdb, h', ha, hk⟩ := this
        refine ⟨gl :: gdb, by rw [h']; simp, by simp [absDb, hal] at ha ⊢; exact ha, ?_⟩
        intro x hx
        rcases List.mem_cons.mp hx with rfl | hx
        · exact hok
        · exact hk x hx


theorem dbLoop_fuel : ∀ (n m : Nat) (f : List UInt8) (acc : List signature.SignatureList),
    f.length + 1 ≤ n → f.length + 1 ≤ m →
    signature.ReadSignatureDatabase.loop1 n f acc = signature.ReadSignatureDatabase.loop1 m f acc := by
  intro n
  induction n with
  | zero => intro m f acc h; omega
  | succ n ih =>
    intro m f acc hn hm
    cases m with
    | zero => omega
    | succ m =>
      rw [dbLoop_succ, dbLoop_succ, RSL_fuel n m f (by omega) (by omega)]
      by_cases h1 : errIs (signature.ReadSignatureList m f).2.2 "io.EOF" = true
      · rw [if_pos h1, if_pos h1]
      · rw [if_neg h1, if_neg h1]
        by_cases h2 : (signature.ReadSignatureList m f).2.2.isSome = true
        · rw [if_pos h2, if_pos h2]
        · rw [if_neg h2, if_neg h2]
          have := RSL_consumes m f (by omega) (by simpa using h2)
          exact ih m _ _ (by omega) (by omega)

theorem Impl_readDbAux_fuel : ∀ (n m : Nat) (f : Bytes), f.length + 1 ≤ n → f.length + 1 ≤ m →
    Impl.readDbAux n f = Impl.readDbAux m f := by
  intro n
  induction n with
  | zero => intro m f h; omega
  | succ n ih =>
    intro m f hn hm
    cases m with
    | zero => omega
    | succ m =>
      simp only [Impl.readDbAux]
      cases hr : Impl.readList f with
      | cleanEof => rfl
      | bad => rfl
      | ok l rest =>
        obtain ⟨e, w⟩ := Impl.readList_ok hr
        have := Impl.encList_length_ge l w.1.1
        have hl : rest.length + 28 ≤ f.length := by rw [e, List.length_append]; omega
        simp only [ih m rest (by omega) (by omega)]

theorem RSDB_eq (fuel : Nat) (f : List UInt8) :
    signature.ReadSignatureDatabase fuel f =
      match signature.ReadSignatureDatabase.loop1 fuel f [] with
      | Loop.ret r => r
      | Loop.done m => (m.1, m.2, none) := rfl

/-! ### encoders -/

theorem WSD_eq (b : List UInt8) (s : signature.SignatureData) :
    signature.WriteSignatureData b s = b ++ Impl.encSData (absSD s) := by
  simp [signature.WriteSignatureData, encGuid_eq, decBytes, Impl.encSData, absSD]

theorem WSL_loop (sigs : List signature.SignatureData) (b : List UInt8) :
    signature.WriteSignatureList.loop1 sigs b = Loop.done (b ++ ((sigs.map absSD).map Impl.encSData).flatten) := by
  induction sigs generalizing b with
  | nil => simp [signature.WriteSignatureList.loop1]
  | cons s rest ih => simp [signature.WriteSignatureList.loop1, WSD_eq, ih]

theorem WSL_eq (b : List UInt8) (l : signature.SignatureList) :
    signature.WriteSignatureList b l = b ++ Impl.encList (absL l) := by
  simp [signature.WriteSignatureList, WSL_loop, encGuid_eq, encLE32_eq, decBytes, Impl.encList, absL]

theorem WSDB_loop (db : List signature.SignatureList) (b : List UInt8) :
    signature.WriteSignatureDatabase.loop1 db b = Loop.done (b ++ Impl.encDb (absDb db)) := by
  induction db generalizing b with
  | nil => simp [signature.WriteSignatureDatabase.loop1, Impl.encDb, absDb]
  | cons l rest ih =>
    simp [signature.WriteSignatureDatabase.loop1, WSL_eq, ih, absDb, Impl.encDb]

theorem WSDB_eq (b : List UInt8) (db : signature.SignatureDatabase) :
    signature.WriteSignatureDatabase b db = b ++ Impl.encDb (absDb db) := by
  simp [signature.WriteSignatureDatabase, WSDB_loop]

end GoUefi.Gen
