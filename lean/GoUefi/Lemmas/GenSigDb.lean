import GoUefi.Gen
/-!
  Helper lemmas about the machine-translated Go functions of `GoUefi/Gen.lean` (no abstraction
  involved): every `for … range` helper is characterised by a closed form over lists.
-/
namespace GoUefi.Gen
open signature

/-! ### generic list / machine integer facts -/

theorem take_idxOf_append_drop {α : Type} [BEq α] [LawfulBEq α] (xs : List α) (a : α) :
    xs.take (xs.idxOf a) ++ xs.drop (xs.idxOf a + 1) = xs.erase a := by
  rw [← List.eraseIdx_eq_take_drop_succ, List.erase_eq_eraseIdx_of_idxOf rfl]

theorem take_length_append_drop {α : Type} (pre : List α) (x : α) (rest : List α) :
    (pre ++ x :: rest).take pre.length ++ (pre ++ x :: rest).drop (pre.length + 1) = pre ++ rest := by
  rw [List.take_left' rfl]
  have : pre ++ x :: rest = (pre ++ [x]) ++ rest := by simp
  rw [this, List.drop_left' (by simp)]

theorem int_toNat_add_natCast (a b : Nat) : ((a : Int) + (b : Int)).toNat = a + b := by omega

theorem UInt32.ofNat_add_toNat {n k : Nat} (h : n + k < 2^32) :
    (UInt32.ofNat n + UInt32.ofNat k).toNat = n + k := by
  rw [UInt32.toNat_add, UInt32.toNat_ofNat_of_lt' (by simp [UInt32.size]; omega),
    UInt32.toNat_ofNat_of_lt' (by simp [UInt32.size]; omega), Nat.mod_eq_of_lt h]

/-! ### GUID comparison -/

theorem util.CmpEFIGUID_iff (a b : util.EFIGUID) : util.CmpEFIGUID a b = true ↔ a = b := by
  cases a; cases b
  simp [util.CmpEFIGUID, and_assoc]

theorem util.CmpEFIGUID_eq (a b : util.EFIGUID) : util.CmpEFIGUID a b = decide (a = b) := by
  rw [Bool.eq_iff_iff, util.CmpEFIGUID_iff]; simp

/-! ### `SignatureList.Exists` -/

theorem signature.SignatureData.eq_iff (x s : SignatureData) :
    x = s ↔ x.Owner = s.Owner ∧ x.Data = s.Data := by
  cases x; cases s; simp

theorem signature.SignatureList.Exists.loop1_cons (s x : SignatureData) (idx : Int) (rest : List SignatureData) :
    SignatureList.Exists.loop1 s idx (x :: rest) =
      if x = s then Loop.ret (true, idx) else SignatureList.Exists.loop1 s (idx + 1) rest := by
  rw [SignatureList.Exists.loop1]
  by_cases ho : x.Owner = s.Owner
  · by_cases hd : x.Data = s.Data
    · have : x = s := (SignatureData.eq_iff x s).mpr ⟨ho, hd⟩
      simp [util.CmpEFIGUID_eq, this]
    · have : ¬ x = s := fun h => hd ((SignatureData.eq_iff x s).mp h).2
      simp [util.CmpEFIGUID_eq, ho, hd, this]
  · have : ¬ x = s := fun h => ho ((SignatureData.eq_iff x s).mp h).1
    simp [util.CmpEFIGUID_eq, ho, this]

theorem signature.SignatureList.Exists.loop1_eq (s : SignatureData) (idx : Int) (sigs : List SignatureData) :
    SignatureList.Exists.loop1 s idx sigs =
      if s ∈ sigs then Loop.ret (true, idx + (sigs.idxOf s : Nat)) else Loop.done () := by
  induction sigs generalizing idx with
  | nil => simp [SignatureList.Exists.loop1]
  | cons x rest ih =>
    rw [SignatureList.Exists.loop1_cons]
    by_cases hx : x = s
    · subst hx
      simp
    · have hx' : ¬ s = x := fun h => hx h.symm
      have hidx : (x :: rest).idxOf s = rest.idxOf s + 1 := by
        rw [List.idxOf_cons]
        have : (x == s) = false := by simpa using hx
        rw [this]; rfl
      rw [if_neg hx, ih, hidx]
      by_cases hm : s ∈ rest
      · have hm' : s ∈ x :: rest := List.mem_cons_of_mem _ hm
        rw [if_pos hm, if_pos hm']
        congr 2
        omega
      · have hm' : ¬ s ∈ x :: rest := by simp [hx', hm]
        rw [if_neg hm, if_neg hm']

theorem signature.SignatureList.Exists_eq (sl : SignatureList) (s : SignatureData) :
    sl.Exists s = if s ∈ sl.Signatures then (true, ((sl.Signatures.idxOf s : Nat) : Int)) else (false, 0) := by
  unfold SignatureList.Exists
  rw [SignatureList.Exists.loop1_eq]
  by_cases hm : s ∈ sl.Signatures
  · simp [hm]
  · simp [hm]

theorem signature.SignatureList.Exists_fst (sl : SignatureList) (s : SignatureData) :
    (sl.Exists s).1 = decide (s ∈ sl.Signatures) := by
  rw [SignatureList.Exists_eq]; split <;> simp [*]


theorem lenI_ne_zero {α : Type} (xs : List α) : (lenI xs != (0 : Int)) = decide (xs ≠ []) := by
  cases xs <;> simp [lenI] <;> omega

/-! ### `SignatureList.RemoveBytes` -/

theorem signature.SignatureList.RemoveBytes_eq (sl : SignatureList) (o : util.EFIGUID) (d : List UInt8) :
    sl.RemoveBytes o d =
      if (⟨o, d⟩ : SignatureData) ∈ sl.Signatures then
        if sl.Signatures.length = 1 then (NewSignatureList sl.SignatureType, none)
        else ({ sl with Signatures := sl.Signatures.erase ⟨o, d⟩, ListSize := sl.ListSize - sl.Size }, none)
      else (sl, some "ErrNotFoundSigData") := by
  unfold SignatureList.RemoveBytes
  simp only [SignatureList.Exists_eq]
  by_cases hm : (⟨o, d⟩ : SignatureData) ∈ sl.Signatures
  · simp only [hm, if_true, Bool.not_true, Bool.false_eq_true, if_false]
    by_cases h1 : sl.Signatures.length = 1
    · simp [h1, lenI]
    · have h1' : ¬ ((sl.Signatures.length : Int) = 1) := by omega
      simp only [lenI, beq_iff_eq, h1', if_false, h1, sliceTo_eq, sliceFrom_eq, Int.toNat_natCast]
      rw [show ((1 : Int)) = ((1 : Nat) : Int) from rfl, int_toNat_add_natCast,
        take_idxOf_append_drop]
  · simp [hm]

/-! ### `SignatureDatabase.SigDataExists`, `Exists`, `BytesExists` -/

theorem signature.SignatureDatabase.SigDataExists.loop1_eq (t : util.EFIGUID) (s : SignatureData)
    (sd : List SignatureList) :
    SignatureDatabase.SigDataExists.loop1 t s sd =
      if sd.any (fun l => decide (l.SignatureType = t) && decide (s ∈ l.Signatures))
      then Loop.ret true else Loop.done () := by
  induction sd with
  | nil => simp [SignatureDatabase.SigDataExists.loop1]
  | cons l rest ih =>
    rw [SignatureDatabase.SigDataExists.loop1, ih]
    by_cases ht : l.SignatureType = t
    · by_cases hm : s ∈ l.Signatures
      · simp [util.CmpEFIGUID_eq, SignatureList.Exists_fst, ht, hm]
      · simp [util.CmpEFIGUID_eq, SignatureList.Exists_fst, ht, hm]
    · simp [util.CmpEFIGUID_eq, ht]

theorem signature.SignatureDatabase.SigDataExists_eq (sd : SignatureDatabase) (t : util.EFIGUID)
    (s : SignatureData) :
    sd.SigDataExists t s =
      List.any sd (fun l => decide (l.SignatureType = t) && decide (s ∈ l.Signatures)) := by
  unfold SignatureDatabase.SigDataExists
  rw [SignatureDatabase.SigDataExists.loop1_eq]
  cases h : List.any sd (fun l => decide (l.SignatureType = t) && decide (s ∈ l.Signatures)) <;> simp

theorem signature.SignatureDatabase.Exists.loop1_eq (sd : SignatureDatabase) (sl : SignatureList) (i : Int)
    (sigs : List SignatureData) :
    SignatureDatabase.Exists.loop1 sd sl i sigs =
      if sigs.all (fun s => sd.SigDataExists sl.SignatureType s) then Loop.done () else Loop.ret false := by
  induction sigs generalizing i with
  | nil => simp [SignatureDatabase.Exists.loop1]
  | cons x rest ih =>
    rw [SignatureDatabase.Exists.loop1, ih]
    cases h : sd.SigDataExists sl.SignatureType x <;> simp [h]

theorem signature.SignatureDatabase.Exists_eq (sd : SignatureDatabase) (t : util.EFIGUID) (sl : SignatureList) :
    sd.Exists t sl = sl.Signatures.all (fun s => sd.SigDataExists sl.SignatureType s) := by
  unfold SignatureDatabase.Exists
  rw [SignatureDatabase.Exists.loop1_eq]
  cases h : sl.Signatures.all (fun s => sd.SigDataExists sl.SignatureType s) <;> simp

/-! ### `SignatureDatabase.RemoveList`, `removeslice` -/

theorem signature.SignatureDatabase.removeslice_length (pre : List SignatureList) (x : SignatureList)
    (rest : List SignatureList) :
    SignatureDatabase.removeslice (pre ++ x :: rest) (pre.length : Int) = pre ++ rest := by
  unfold SignatureDatabase.removeslice
  by_cases h1 : (pre ++ x :: rest).length = 1
  · have hp : pre = [] := by
      cases pre with
      | nil => rfl
      | cons a as => exfalso; simp only [List.length_append, List.length_cons] at h1; omega
    have hr : rest = [] := by
      cases rest with
      | nil => rfl
      | cons a as => exfalso; simp only [List.length_append, List.length_cons] at h1; omega
    simp [hp, hr, lenI]
  · have h1' : ¬ (((pre ++ x :: rest).length : Int) = 1) := by omega
    simp only [lenI, beq_iff_eq, h1', if_false, sliceTo_eq, sliceFrom_eq, Int.toNat_natCast]
    rw [show ((1 : Int)) = ((1 : Nat) : Int) from rfl, int_toNat_add_natCast,
      take_length_append_drop]

theorem signature.SignatureDatabase.RemoveList.loop1_eq (sl : SignatureList) (pre ls : List SignatureList) :
    SignatureDatabase.RemoveList.loop1 sl pre (pre.length : Int) ls =
      if sl ∈ ls then Loop.ret (pre ++ ls.erase sl, none) else Loop.done (pre ++ ls) := by
  induction ls generalizing pre with
  | nil => simp [SignatureDatabase.RemoveList.loop1]
  | cons x rest ih =>
    rw [SignatureDatabase.RemoveList.loop1]
    by_cases hx : sl = x
    · subst hx
      simp [SignatureDatabase.removeslice_length]
    · have hx' : ¬ x = sl := fun h => hx h.symm
      have hb : (sl == x) = false := by simpa using hx
      have hl : ((pre.length : Int) + 1) = ((pre ++ [x]).length : Int) := by simp
      rw [hb, hl, ih]
      simp [hx, hx']

theorem signature.SignatureDatabase.RemoveList_eq (sd : SignatureDatabase) (sl : SignatureList) :
    sd.RemoveList sl = if sl ∈ sd then (sd.erase sl, none) else (sd, some "ErrNotFoundSigList") := by
  unfold SignatureDatabase.RemoveList
  have := SignatureDatabase.RemoveList.loop1_eq sl [] sd
  simp only [List.length_nil, Int.natCast_zero, List.nil_append] at this
  rw [this]
  by_cases h : sl ∈ sd <;> simp [h]


/-! ### `SignatureList.AppendBytes` -/

/-- the PEM normalisation both `Append` and `AppendBytes` perform on X.509 data -/
def normData (E : Ext) (t : util.EFIGUID) (d : List UInt8) : List UInt8 :=
  if t = CERT_X509_GUID then (if (E.pemDecode d).1.isNil then d else (E.pemDecode d).1.Bytes) else d

theorem CERT_SHA256_ne_X509 : CERT_SHA256_GUID ≠ CERT_X509_GUID := by decide

theorem normData_eq (E : Ext) (t : util.EFIGUID) (d : List UInt8) :
    (if (t == CERT_X509_GUID) = true then
        (if (!(E.pemDecode d).1.isNil) = true then (E.pemDecode d).1.Bytes else d) else d) =
      normData E t d := by
  unfold normData
  by_cases hx : t = CERT_X509_GUID
  · by_cases hn : (E.pemDecode d).1.isNil = true <;> simp [hx, hn]
  · simp [hx]

theorem CERT_EXTERNAL_ne_SHA256 : CERT_EXTERNAL_MANAGEMENT_GUID ≠ CERT_SHA256_GUID := by decide

/-- closed form of the translated `AppendBytes` (F27 repair: the data is PEM-normalised first, and
    it is the normalised data that is looked up and stored; F37 repair: the `switch` on the list's
    type has a second case, externally-managed data is one byte) -/
theorem signature.SignatureList.AppendBytes_eq (E : Ext) (sl : SignatureList) (o : util.EFIGUID)
    (d : List UInt8) :
    sl.AppendBytes E o d =
      if (⟨o, normData E sl.SignatureType d⟩ : SignatureData) ∈ sl.Signatures then
        (sl, some "ErrSigDataExists") else
      if sl.SignatureType = CERT_SHA256_GUID ∧ (normData E sl.SignatureType d).length ≠ 32 then
        (sl, some "errors.New") else
      if sl.SignatureType = CERT_EXTERNAL_MANAGEMENT_GUID ∧
          (normData E sl.SignatureType d).length ≠ 1 then
        (sl, some "errors.New") else
      if sl.Signatures ≠ [] ∧
          UInt32.ofNat (normData E sl.SignatureType d).length + 16 ≠ sl.Size then
        (sl, some "ErrSigDataSize") else
      (⟨sl.SignatureType, sl.ListSize + (UInt32.ofNat (normData E sl.SignatureType d).length + 16),
        sl.HeaderSize, UInt32.ofNat (normData E sl.SignatureType d).length + 16,
        sl.SignatureHeader, sl.Signatures ++ [⟨o, normData E sl.SignatureType d⟩]⟩, none) := by
  unfold SignatureList.AppendBytes
  simp only [normData_eq, SignatureList.Exists_fst, lenI_ne_zero, util.SizeofEFIGUID]
  generalize normData E sl.SignatureType d = d'
  by_cases hm : (⟨o, d'⟩ : SignatureData) ∈ sl.Signatures
  · simp [hm]
  · simp only [hm, decide_false, Bool.false_eq_true, if_false]
    by_cases hs : sl.SignatureType = CERT_SHA256_GUID
    · have hne : ¬ (CERT_SHA256_GUID = CERT_EXTERNAL_MANAGEMENT_GUID) := fun h => CERT_EXTERNAL_ne_SHA256 h.symm
      simp only [hs, beq_self_eq_true, if_true, true_and, hne, false_and, if_false]
      by_cases hl : d'.length = 32
      · simp [hl, lenI]
      · have : ¬ ((d'.length : Int) = 32) := by omega
        simp [hl, lenI, this]
    · have hb' : (sl.SignatureType == CERT_SHA256_GUID) = false := by simpa using hs
      simp only [hs, hb', Bool.false_eq_true, if_false, false_and]
      by_cases he : sl.SignatureType = CERT_EXTERNAL_MANAGEMENT_GUID
      · simp only [he, beq_self_eq_true, if_true, true_and]
        by_cases hl : d'.length = 1
        · simp [hl, lenI]
        · have : ¬ ((d'.length : Int) = 1) := by omega
          simp [hl, lenI, this]
      · have hb'' : (sl.SignatureType == CERT_EXTERNAL_MANAGEMENT_GUID) = false := by simpa using he
        simp [he, hb'']

theorem signature.SignatureList.AppendBytes_err (E : Ext) (sl : SignatureList) (o : util.EFIGUID)
    (d : List UInt8) (h : (sl.AppendBytes E o d).2.isSome) : (sl.AppendBytes E o d).1 = sl := by
  rw [SignatureList.AppendBytes_eq] at h ⊢
  split
  · rfl
  · split
    · rfl
    · split
      · rfl
      · split
        · rfl
        · rename_i h1 h2 h3 h4
          rw [if_neg h1, if_neg h2, if_neg h3, if_neg h4] at h
          simp at h


/-! ### the list loops of `SignatureDatabase.Append` and `Remove` -/

theorem signature.SignatureList.AppendSignature_eq (E : Ext) (sl : SignatureList) (s : SignatureData) :
    sl.AppendSignature E s = sl.AppendBytes E s.Owner s.Data := rfl

theorem signature.SignatureDatabase.Append.loop1_cons (E : Ext) (t o : util.EFIGUID) (d : List UInt8)
    (pre : List SignatureList) (l : SignatureList) (rest : List SignatureList) :
    SignatureDatabase.Append.loop1 E t o d pre (l :: rest) =
      if l.SignatureType = t ∧ UInt32.ofNat d.length + 16 = l.Size then
        Loop.ret (pre ++ (l.AppendBytes E o d).1 :: rest, (l.AppendBytes E o d).2)
      else SignatureDatabase.Append.loop1 E t o d (pre ++ [l]) rest := by
  rw [SignatureDatabase.Append.loop1]
  simp only [util.CmpEFIGUID_eq, util.SizeofEFIGUID, SignatureList.AppendSignature_eq]
  by_cases ht : l.SignatureType = t
  · by_cases hs : UInt32.ofNat d.length + 16 = l.Size
    · simp only [ht, hs, decide_true, Bool.not_true, Bool.false_eq_true, if_false, bne_self_eq_false,
        and_self, if_true]
      by_cases h : (l.AppendBytes E o d).2.isSome = true
      · simp only [h, if_true]
      · have : (l.AppendBytes E o d).2 = none := by simpa using h
        simp [this]
    · simp [ht, hs]
  · simp [ht]

theorem signature.SignatureDatabase.RemoveList_new (pre rest : List SignatureList) (x : SignatureList)
    (h : x ∉ pre) : SignatureDatabase.RemoveList (pre ++ x :: rest) x = (pre ++ rest, none) := by
  rw [SignatureDatabase.RemoveList_eq, if_pos (by simp), List.erase_append_right _ h]
  simp

theorem errIs_none (s : String) : errIs none s = false := by simp [errIs]
theorem errIs_notFoundSigData : errIs (some "ErrNotFoundSigData") "ErrNotFoundSigData" = true := by decide

theorem signature.SignatureDatabase.Remove.loop1_cons (t o : util.EFIGUID) (d : List UInt8)
    (pre : List SignatureList) (l : SignatureList) (rest : List SignatureList) (b : Bool) :
    SignatureDatabase.Remove.loop1 t o d pre (l :: rest) b =
      if l.SignatureType = t ∧ UInt32.ofNat d.length + 16 = l.Size then
        if (⟨o, d⟩ : SignatureData) ∈ l.Signatures then
          if l.Signatures.length = 1 then
            Loop.ret (SignatureDatabase.RemoveList (pre ++ NewSignatureList l.SignatureType :: rest)
              (NewSignatureList l.SignatureType))
          else
            Loop.ret (pre ++ { l with Signatures := l.Signatures.erase ⟨o, d⟩,
                                      ListSize := l.ListSize - l.Size } :: rest, none)
        else SignatureDatabase.Remove.loop1 t o d (pre ++ [l]) rest true
      else SignatureDatabase.Remove.loop1 t o d (pre ++ [l]) rest b := by
  rw [SignatureDatabase.Remove.loop1]
  simp only [util.CmpEFIGUID_eq, util.SizeofEFIGUID, SignatureList.RemoveBytes_eq]
  by_cases ht : l.SignatureType = t
  · by_cases hs : UInt32.ofNat d.length + 16 = l.Size
    · simp only [ht, hs, decide_true, Bool.not_true, Bool.false_eq_true, if_false, bne_self_eq_false,
        and_self, if_true]
      by_cases hm : (⟨o, d⟩ : SignatureData) ∈ l.Signatures
      · simp only [hm, if_true]
        by_cases h1 : l.Signatures.length = 1
        · simp [h1, NewSignatureList, lenI, errIs_none]
        · have hpos := List.length_pos_of_mem hm
          have hne : (lenI (l.Signatures.erase ⟨o, d⟩) == (0 : Int)) = false := by
            have : (l.Signatures.erase ⟨o, d⟩).length ≠ 0 := by
              rw [List.length_erase_of_mem hm]; omega
            rw [beq_eq_false_iff_ne, lenI]; omega
          simp only [h1, if_false, hne]
          simp [errIs_none]
      · simp [hm, errIs_notFoundSigData]
    · simp [ht, hs]
  · simp [ht]


/-! ### `SignatureDatabase.Append` -/

theorem signature.SignatureDatabase.Append_eq (E : Ext) (sd : SignatureDatabase) (t o : util.EFIGUID)
    (d : List UInt8) :
    sd.Append E t o d =
      if (ValidEFISignatureSchemes.lookup t).isSome = false then
        (sd, some "ErrNoSuchSignatureScheme")
      else if sd.SigDataExists t ⟨o, normData E t d⟩ = true then (sd, some "ErrSigDataExists")
      else match SignatureDatabase.Append.loop1 E t o (normData E t d) [] sd with
        | Loop.ret r => r
        | Loop.done m =>
          if ((NewSignatureList t).AppendBytes E o (normData E t d)).2.isSome = true then
            (m, ((NewSignatureList t).AppendBytes E o (normData E t d)).2)
          else (m ++ [((NewSignatureList t).AppendBytes E o (normData E t d)).1], none) := by
  unfold SignatureDatabase.Append
  have hn : (if util.CmpEFIGUID t CERT_X509_GUID = true then
      (if (!(E.pemDecode d).1.isNil) = true then (E.pemDecode d).1.Bytes else d) else d)
      = normData E t d := by
    unfold normData
    rw [util.CmpEFIGUID_eq]
    by_cases hx : t = CERT_X509_GUID
    · cases h : (E.pemDecode d).1.isNil <;> simp [hx]
    · simp [hx]
  simp only [hn, SignatureDatabase.BytesExists]
  cases h1 : (ValidEFISignatureSchemes.lookup t).isSome
  · simp
  · simp only [Bool.not_true, Bool.false_eq_true, if_false, Bool.true_eq_false]
    by_cases h2 : sd.SigDataExists t ⟨o, normData E t d⟩ = true
    · rw [if_pos h2, if_pos h2]
    · rw [if_neg h2, if_neg h2]
      cases SignatureDatabase.Append.loop1 E t o (normData E t d) [] sd <;> rfl

theorem signature.SignatureDatabase.Append.loop1_spec (E : Ext) (t o : util.EFIGUID) (d : List UInt8)
    (pre ls : List SignatureList) :
    match SignatureDatabase.Append.loop1 E t o d pre ls with
    | Loop.ret r => r.2.isSome = true → r.1 = pre ++ ls
    | Loop.done m => m = pre ++ ls := by
  induction ls generalizing pre with
  | nil => simp [SignatureDatabase.Append.loop1]
  | cons l rest ih =>
    rw [SignatureDatabase.Append.loop1_cons]
    by_cases hc : l.SignatureType = t ∧ UInt32.ofNat d.length + 16 = l.Size
    · rw [if_pos hc]
      intro h
      show pre ++ (l.AppendBytes E o d).1 :: rest = pre ++ l :: rest
      rw [SignatureList.AppendBytes_err E l o d h]
    · rw [if_neg hc]
      have := ih (pre ++ [l])
      simpa using this

/-- an `Append` that reports an error returns the database it was given -/
theorem signature.SignatureDatabase.Append_err (E : Ext) (sd : SignatureDatabase) (t o : util.EFIGUID)
    (d : List UInt8) (h : (sd.Append E t o d).2.isSome = true) : (sd.Append E t o d).1 = sd := by
  rw [SignatureDatabase.Append_eq] at h ⊢
  split
  · rfl
  · split
    · rfl
    · rename_i h1 h2
      rw [if_neg h1, if_neg h2] at h
      have hspec := SignatureDatabase.Append.loop1_spec E t o (normData E t d) [] sd
      revert h hspec
      cases SignatureDatabase.Append.loop1 E t o (normData E t d) [] sd with
      | ret r => intro h hspec; simpa using hspec h
      | done m =>
        intro h hspec
        simp only [List.nil_append] at hspec
        subst hspec
        by_cases h3 : ((NewSignatureList t).AppendBytes E o (normData E t d)).2.isSome = true
        · simp only [h3, if_true]
        · simp [h3] at h

end GoUefi.Gen
