import GoUefi.Model.Guid
import GoUefi.Lemmas.Bytes
namespace GoUefi

/-- lower-case hexadecimal digit characters -/
def isLowerHex (c : Char) : Bool := ('0' ≤ c ∧ c ≤ '9') ∨ ('a' ≤ c ∧ c ≤ 'f')

theorem hexDigit_facts : ∀ k : Fin 16,
    hexVal (hexDigit k.val) = some k.val ∧ hexVal (upperChar (hexDigit k.val)) = some k.val ∧
    isLowerHex (hexDigit k.val) = true ∧ hexDigit k.val ≠ '-' ∧ upperChar (hexDigit k.val) ≠ '-' := by
  decide

theorem hexDigit_spec (k : Nat) (h : k < 16) :
    hexVal (hexDigit k) = some k ∧ hexVal (upperChar (hexDigit k)) = some k ∧
    isLowerHex (hexDigit k) = true ∧ hexDigit k ≠ '-' ∧ upperChar (hexDigit k) ≠ '-' :=
  hexDigit_facts ⟨k, h⟩

theorem byte_recombine (b : UInt8) : (16 * (b.toNat / 16) + b.toNat % 16).toUInt8 = b := by
  have : 16 * (b.toNat / 16) + b.toNat % 16 = b.toNat := by omega
  rw [this]; exact toNat_toUInt8 b

@[simp] theorem hexBytes_length (bs : Bytes) : (hexBytes bs).length = 2 * bs.length := by
  induction bs with
  | nil => rfl
  | cons b bs ih => simp [hexBytes] at *; omega

theorem hexBytes_cons (b : UInt8) (bs : Bytes) :
    hexBytes (b :: bs) = hexDigit (b.toNat / 16) :: hexDigit (b.toNat % 16) :: hexBytes bs := by
  simp [hexBytes]

theorem hexBytes_append (a b : Bytes) : hexBytes (a ++ b) = hexBytes a ++ hexBytes b := by
  simp [hexBytes]

theorem decodeHex_hexBytes (bs : Bytes) (rest : List Char) :
    decodeHex (hexBytes bs ++ rest) = bs ++ decodeHex rest := by
  induction bs with
  | nil => simp [hexBytes]
  | cons b bs ih =>
    have h1 := (hexDigit_spec (b.toNat / 16) (by have := b.toNat_lt; omega)).1
    have h2 := (hexDigit_spec (b.toNat % 16) (by omega)).1
    rw [hexBytes_cons]
    simp only [List.cons_append, decodeHex, h1, h2, ih, byte_recombine]

theorem decodeHex_upper_hexBytes (bs : Bytes) (rest : List Char) :
    decodeHex ((hexBytes bs).map upperChar ++ rest) = bs ++ decodeHex rest := by
  induction bs with
  | nil => simp [hexBytes]
  | cons b bs ih =>
    have h1 := (hexDigit_spec (b.toNat / 16) (by have := b.toNat_lt; omega)).2.1
    have h2 := (hexDigit_spec (b.toNat % 16) (by omega)).2.1
    rw [hexBytes_cons]
    simp only [List.map_cons, List.cons_append, decodeHex, h1, h2, ih, byte_recombine]

theorem hexBytes_forall (P : Char → Prop) (hP : ∀ k, k < 16 → P (hexDigit k)) (bs : Bytes) :
    ∀ c ∈ hexBytes bs, P c := by
  induction bs with
  | nil => simp [hexBytes]
  | cons b bs ih =>
    rw [hexBytes_cons]
    intro c hc
    simp only [List.mem_cons] at hc
    rcases hc with rfl | rfl | hc
    · exact hP _ (by have := b.toNat_lt; omega)
    · exact hP _ (by omega)
    · exact ih c hc

theorem filter_dash_hexBytes (bs : Bytes) : (hexBytes bs).filter (· ≠ '-') = hexBytes bs := by
  rw [List.filter_eq_self]
  intro c hc
  have := hexBytes_forall (fun c => c ≠ '-') (fun k hk => (hexDigit_spec k hk).2.2.2.1) bs c hc
  simpa using this

theorem filter_dash_upper_hexBytes (bs : Bytes) :
    ((hexBytes bs).map upperChar).filter (· ≠ '-') = (hexBytes bs).map upperChar := by
  rw [List.filter_eq_self]
  intro c hc
  rw [List.mem_map] at hc
  obtain ⟨d, hd, rfl⟩ := hc
  have := hexBytes_forall (fun c => upperChar c ≠ '-') (fun k hk => (hexDigit_spec k hk).2.2.2.2) bs d hd
  simpa using this

theorem hexBytes_all_lower (bs : Bytes) : ∀ c ∈ hexBytes bs, isLowerHex c = true :=
  hexBytes_forall (fun c => isLowerHex c = true) (fun k hk => (hexDigit_spec k hk).2.2.1) bs

/-- the text with the dashes removed is the hex of the big-endian byte form -/
theorem filter_format (g : Guid) :
    g.format.filter (· ≠ '-') = hexBytes (be32 g.d1 ++ be16 g.d2 ++ be16 g.d3 ++ g.d4.take 2 ++ g.d4.drop 2) := by
  simp only [Guid.format, List.filter_append, List.filter_cons, filter_dash_hexBytes, hexBytes_append]
  simp

theorem filter_format_upper (g : Guid) :
    (g.format.map upperChar).filter (· ≠ '-') =
      (hexBytes (be32 g.d1 ++ be16 g.d2 ++ be16 g.d3 ++ g.d4.take 2 ++ g.d4.drop 2)).map upperChar := by
  have hd : upperChar '-' = '-' := by decide
  simp only [Guid.format, List.map_append, List.map_cons, List.filter_append, List.filter_cons,
    filter_dash_upper_hexBytes, hexBytes_append, hd]
  simp

theorem split4 (a b c d : Bytes) (ha : a.length = 4) (hb : b.length = 2) (hc : c.length = 2) :
    (a ++ b ++ c ++ d).take 4 = a ∧ ((a ++ b ++ c ++ d).drop 4).take 2 = b ∧
    ((a ++ b ++ c ++ d).drop 6).take 2 = c ∧ (a ++ b ++ c ++ d).drop 8 = d := by
  refine ⟨?_, ?_, ?_, ?_⟩
  · rw [List.append_assoc, List.append_assoc]; exact List.take_left' ha
  · rw [List.append_assoc, List.append_assoc, List.drop_left' ha]; exact List.take_left' hb
  · have : (a ++ b).length = 6 := by simp [ha, hb]
    rw [List.append_assoc, List.drop_left' this]; exact List.take_left' hc
  · have : (a ++ b ++ c).length = 8 := by simp [ha, hb, hc]
    exact List.drop_left' this

theorem bytesToGuid_guidToBytes (g : Guid) (h : g.WF) : bytesToGuid (guidToBytes g) = g := by
  obtain ⟨h1, h2, h3, h4⟩ := h
  have hl : (guidToBytes g).length = 16 := by simp [guidToBytes, h4]
  unfold bytesToGuid
  rw [if_neg (by omega)]
  obtain ⟨e1, e2, e3, e4⟩ := split4 (be32 g.d1) (be16 g.d2) (be16 g.d3) g.d4 rfl rfl rfl
  unfold guidToBytes
  rw [e1, e2, e3, e4, rdBe32_be32 _ h1, rdBe16_be16 _ h2, rdBe16_be16 _ h3, List.take_of_length_le (by omega)]

theorem guidToBytes_bytesToGuid (bs : Bytes) (h : bs.length = 16) : guidToBytes (bytesToGuid bs) = bs := by
  unfold bytesToGuid
  rw [if_neg (by omega)]
  simp only [guidToBytes]
  rw [be32_rdBe32 _ (by simp; omega), be16_rdBe16 _ (by simp; omega), be16_rdBe16 _ (by simp; omega)]
  rw [List.take_of_length_le (l := bs.drop 8) (by simp; omega)]
  have : bs.drop 6 = (bs.drop 6).take 2 ++ bs.drop 8 := by
    have := (List.take_append_drop 2 (bs.drop 6)).symm
    simpa [List.drop_drop] using this
  have h2 : bs.drop 4 = (bs.drop 4).take 2 ++ bs.drop 6 := by
    have := (List.take_append_drop 2 (bs.drop 4)).symm
    simpa [List.drop_drop] using this
  rw [List.append_assoc, List.append_assoc, ← this, ← h2, List.take_append_drop]

theorem guidOfWire_guidWire (g : Guid) (h : g.WF) : guidOfWire (guidWire g) = g := by
  obtain ⟨h1, h2, h3, h4⟩ := h
  obtain ⟨e1, e2, e3, e4⟩ := split4 (le32 g.d1) (le16 g.d2) (le16 g.d3) g.d4 rfl rfl rfl
  unfold guidOfWire guidWire
  rw [e1, e2, e3, e4, rd32_le32 _ h1, rd16_le16 _ h2, rd16_le16 _ h3, List.take_of_length_le (by omega)]

theorem bytesToGuid_wf (bs : Bytes) (h : 16 ≤ bs.length) : (bytesToGuid bs).WF := by
  unfold bytesToGuid
  rw [if_neg (by omega)]
  refine ⟨?_, ?_, ?_, ?_⟩
  · exact rdBe32_lt _
  · exact rdBe16_lt _
  · exact rdBe16_lt _
  · simp; omega

end GoUefi
