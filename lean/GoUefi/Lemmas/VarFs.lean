import GoUefi.Model.VarFs
import GoUefi.Model.Pe
import GoUefi.Lemmas.Bytes
/-
  Helper definitions and lemmas for the variable I/O properties C11 / C15: the complete case
  analysis of `writeVar` / `getVar` under an arbitrary environment, trace predicates, the
  fault predicate, the bitwise reading of `attrsSubset`, and the two "signer first" wrappers.
-/
namespace GoUefi.Impl

/-! ## `Prog.run` -/

theorem Prog.run_ret {α} (a : α) (env : Nat → Call → Res) (i : Nat) :
    (Prog.ret a).run env i = (a, []) := rfl

theorem Prog.run_call {α} (c : Call) (k : Res → Prog α) (env : Nat → Call → Res) (i : Nat) :
    (Prog.call c k).run env i =
      (((k (env i c)).run env (i + 1)).1, (c, env i c) :: ((k (env i c)).run env (i + 1)).2) := rfl

/-! ## environments and trace predicates -/

/-- a healthy filesystem as far as the write path is concerned: every `openFile` succeeds, every
    `write` is complete, `close` succeeds -/
def OkEnv (env : Nat → Call → Res) : Prop :=
  (∀ i p f m, env i (.openFile p f m) = .ok) ∧ (∀ i buf, env i (.write buf) = .wrote buf.length) ∧
  (∀ i, env i .close = .ok)

def Call.isWrite : Call → Bool
  | .write _ => true
  | _ => false

def Call.isOpenFile : Call → Bool
  | .openFile _ _ _ => true
  | _ => false

/-- the calls `writeVar` may issue: `openFile` on the given path, `write`, `close` -/
def Call.writeVarMay (path : String) : Call → Bool
  | .openFile p _ _ => p == path
  | .write _ => true
  | .close => true
  | _ => false

/-- number of `write` calls / `openFile` calls in a trace -/
def writeCount (tr : List (Call × Res)) : Nat := (tr.filter fun e => e.1.isWrite).length
def openFileCount (tr : List (Call × Res)) : Nat := (tr.filter fun e => e.1.isOpenFile).length

/-- a trace entry where the dependency misbehaved: an error return, a short (or long) write, a
    read that did not deliver exactly the bytes asked for, a `stat` without a size -/
def isFault (e : Call × Res) : Bool :=
  e.2 == .fail ||
  match e.1 with
  | .write buf => e.2 != .wrote buf.length
  | .read n => (match e.2 with | .data d => d.length != n | _ => true)
  | .stat => (match e.2 with | .size _ => false | _ => true)
  | _ => false

/-! ## `writeVar` under an arbitrary environment -/

/-- what `writeVar` returns once the file is open, from the answers to `write` and `close` -/
def writeVarFinish (buflen : Nat) (w cl : Res) : Outcome Unit :=
  match w with
  | .wrote n => if n = buflen then (if cl = .fail then .err else .ok ()) else .err
  | _ => .err

theorem writeVar_run_fail (dir : String) (name : List Char) (g : Guid) (attrs : Nat) (value : Bytes)
    (env : Nat → Call → Res)
    (h : env 0 (.openFile (varPath dir name g) (writeFlags attrs) 0o644) = .fail) :
    (writeVar dir name g attrs value).run env 0 =
      (.err, [(.openFile (varPath dir name g) (writeFlags attrs) 0o644, .fail)]) := by
  simp only [writeVar, Prog.run_call, h, Prog.run_ret]

theorem writeVar_run_open (dir : String) (name : List Char) (g : Guid) (attrs : Nat) (value : Bytes)
    (env : Nat → Call → Res)
    (h : env 0 (.openFile (varPath dir name g) (writeFlags attrs) 0o644) ≠ .fail) :
    (writeVar dir name g attrs value).run env 0 =
      (writeVarFinish (4 + value.length) (env 1 (.write (le32 attrs ++ value))) (env 2 .close),
       [(.openFile (varPath dir name g) (writeFlags attrs) 0o644,
           env 0 (.openFile (varPath dir name g) (writeFlags attrs) 0o644)),
        (.write (le32 attrs ++ value), env 1 (.write (le32 attrs ++ value))),
        (.close, env 2 .close)]) := by
  have hlen : (le32 attrs ++ value).length = 4 + value.length := by simp
  simp only [writeVar, Prog.run_call]
  cases h0 : env 0 (.openFile (varPath dir name g) (writeFlags attrs) 0o644) with
  | fail => exact absurd h0 h
  | ok | wrote _ | size _ | data _ =>
    simp only [hlen, writeVarFinish]
    cases env 1 (.write (le32 attrs ++ value)) with
    | wrote n =>
      by_cases hn : n = 4 + value.length
      · by_cases hc : env 2 .close = .fail <;> simp [hn, hc, Prog.run_ret]
      · simp [hn, Prog.run_ret]
    | ok | size _ | data _ | fail => simp [Prog.run_ret]

/-- the two possible shapes of a `writeVar` run -/
theorem writeVar_run_cases (dir : String) (name : List Char) (g : Guid) (attrs : Nat) (value : Bytes)
    (env : Nat → Call → Res) :
    (writeVar dir name g attrs value).run env 0 =
      (.err, [(.openFile (varPath dir name g) (writeFlags attrs) 0o644, .fail)]) ∨
    ∃ r0 w cl, r0 ≠ .fail ∧
      r0 = env 0 (.openFile (varPath dir name g) (writeFlags attrs) 0o644) ∧
      w = env 1 (.write (le32 attrs ++ value)) ∧ cl = env 2 .close ∧
      (writeVar dir name g attrs value).run env 0 =
        (writeVarFinish (4 + value.length) w cl,
         [(.openFile (varPath dir name g) (writeFlags attrs) 0o644, r0),
          (.write (le32 attrs ++ value), w), (.close, cl)]) := by
  by_cases h : env 0 (.openFile (varPath dir name g) (writeFlags attrs) 0o644) = .fail
  · exact .inl (writeVar_run_fail dir name g attrs value env h)
  · exact .inr ⟨_, _, _, h, rfl, rfl, rfl, writeVar_run_open dir name g attrs value env h⟩

theorem writeVarFinish_ok {n : Nat} {w cl : Res} (h : writeVarFinish n w cl = .ok ()) :
    w = .wrote n ∧ cl ≠ .fail := by
  unfold writeVarFinish at h
  split at h
  · split at h
    · split at h
      · nomatch h
      · rename_i hn hc; exact ⟨by rw [hn], hc⟩
    · nomatch h
  · nomatch h

theorem writeVarFinish_ne_ok {n : Nat} {w cl : Res} (h : w ≠ .wrote n ∨ cl = .fail) :
    writeVarFinish n w cl = .err := by
  cases hr : writeVarFinish n w cl with
  | err => rfl
  | ok u =>
    obtain ⟨h1, h2⟩ := writeVarFinish_ok (n := n) (w := w) (cl := cl) hr
    rcases h with h | h
    · exact absurd h1 h
    · exact absurd h h2
  | panic => unfold writeVarFinish at hr; split at hr <;> (try split at hr) <;> (try split at hr) <;> nomatch hr
  | exit => unfold writeVarFinish at hr; split at hr <;> (try split at hr) <;> (try split at hr) <;> nomatch hr

/-! ## `getVar` under an arbitrary environment -/

/-- what `getVar` returns once both reads were issued, from the answers to the second read and
    to `close` -/
def getVarFinish {α} (required : Nat) (dec : Bytes → Outcome α) (sz : Nat) (ab : Bytes) (v cl : Res) :
    Outcome (Nat × α) :=
  match v with
  | .data vb =>
    if vb.length ≠ sz - 4 then .err else
    if cl = .fail then .err else
    if !attrsSubset required (rd32 ab) then .err else
    match dec vb with
    | .ok x => .ok (rd32 ab, x)
    | .err => .err
    | .panic => .panic
    | .exit => .exit
  | _ => .err

/-- the four possible shapes of a `getVar` run -/
theorem getVar_run_cases {α} (dir : String) (name : List Char) (g : Guid) (required : Nat)
    (dec : Bytes → Outcome α) (env : Nat → Call → Res) :
    (getVar dir name g required dec).run env 0 = (.err, [(.open (varPath dir name g), .fail)]) ∨
    (∃ r0 st c, r0 ≠ .fail ∧ (∀ n, st ≠ .size n) ∧
      (getVar dir name g required dec).run env 0 =
        (.err, [(.open (varPath dir name g), r0), (.stat, st), (.close, c)])) ∨
    (∃ r0 sz a c, r0 ≠ .fail ∧ (∀ d, a = .data d → d.length ≠ 4) ∧
      (getVar dir name g required dec).run env 0 =
        (.err, [(.open (varPath dir name g), r0), (.stat, .size sz), (.read 4, a), (.close, c)])) ∨
    (∃ r0 sz ab v cl, r0 ≠ .fail ∧ ab.length = 4 ∧
      r0 = env 0 (.open (varPath dir name g)) ∧ .size sz = env 1 .stat ∧ .data ab = env 2 (.read 4) ∧
      v = env 3 (.read (sz - 4)) ∧ cl = env 4 .close ∧
      (getVar dir name g required dec).run env 0 =
        (getVarFinish required dec sz ab v cl,
         [(.open (varPath dir name g), r0), (.stat, .size sz), (.read 4, .data ab),
          (.read (sz - 4), v), (.close, cl)])) := by
  simp only [getVar, Prog.run_call, Nat.reduceAdd]
  cases h0 : env 0 (.open (varPath dir name g)) with
  | fail => left; simp only [Prog.run_ret]
  | ok | wrote _ | size _ | data _ =>
    right
    simp only [Prog.run_call, Nat.reduceAdd]
    cases h1 : env 1 .stat with
    | ok | wrote _ | data _ | fail =>
      left
      simp only [Prog.run_call, Prog.run_ret, Nat.reduceAdd]
      refine ⟨_, _, _, ?_, ?_, rfl⟩ <;> simp
    | size sz =>
      right
      simp only [Prog.run_call, Nat.reduceAdd]
      cases h2 : env 2 (.read 4) with
      | ok | wrote _ | size _ | fail =>
        left
        simp only [Prog.run_call, Prog.run_ret, Nat.reduceAdd]
        refine ⟨_, sz, _, _, ?_, ?_, rfl⟩ <;> simp
      | data ab =>
        by_cases hab : ab.length = 4
        · right
          refine ⟨_, sz, ab, env 3 (.read (sz - 4)), env 4 .close, ?_, hab, rfl, rfl, rfl, rfl, rfl, ?_⟩
          · simp
          simp only [hab, ne_eq, not_true_eq_false, if_false, Prog.run_call, getVarFinish, Nat.reduceAdd]
          cases env 3 (.read (sz - 4)) with
          | ok | wrote _ | size _ | fail => simp only [Prog.run_ret]
          | data vb =>
            simp only []
            split
            · simp only [Prog.run_ret]
            · split
              · simp only [Prog.run_ret]
              · split
                · simp only [Prog.run_ret]
                · cases dec vb <;> simp only [Prog.run_ret]
        · left
          simp only [ne_eq, hab, not_false_eq_true, if_true, Prog.run_call, Prog.run_ret, Nat.reduceAdd]
          refine ⟨_, sz, .data ab, _, ?_, ?_, rfl⟩
          · simp
          · intro d hd; cases hd; exact hab

theorem getVarFinish_ok {α} {required : Nat} {dec : Bytes → Outcome α} {sz : Nat} {ab : Bytes}
    {v cl : Res} {a : Nat} {x : α} (h : getVarFinish required dec sz ab v cl = .ok (a, x)) :
    ∃ vb, v = .data vb ∧ vb.length = sz - 4 ∧ cl ≠ .fail ∧ attrsSubset required (rd32 ab) = true ∧
      a = rd32 ab ∧ dec vb = .ok x := by
  unfold getVarFinish at h
  split at h
  · rename_i vb
    split at h
    · nomatch h
    · split at h
      · nomatch h
      · split at h
        · nomatch h
        · rename_i h1 h2 h3
          split at h
          · rename_i y hy
            simp only [Outcome.ok.injEq, Prod.mk.injEq] at h
            refine ⟨vb, rfl, by simpa using h1, h2, by simpa using h3, h.1.symm, by rw [hy, h.2]⟩
          · nomatch h
          · nomatch h
          · nomatch h
  · nomatch h

/-- a misbehaving second read or `close` makes `getVar` fail -/
theorem getVarFinish_fault {α} {required : Nat} {dec : Bytes → Outcome α} {sz : Nat} {ab : Bytes}
    {v cl : Res} (h : (∀ vb, v = .data vb → vb.length ≠ sz - 4) ∨ cl = .fail) :
    getVarFinish required dec sz ab v cl = .err := by
  unfold getVarFinish
  split
  · rename_i vb
    rcases h with h | h
    · rw [if_pos (h vb rfl)]
    · split
      · rfl
      · first | rfl | rw [if_pos h]
  · rfl

/-! ## `attrsSubset` is Go's `(a & b) == a` on 32-bit masks -/

theorem attrsSubset_bits (r s : Nat) :
    attrsSubset r s = true ↔ ∀ i, i < 32 → r.testBit i = true → s.testBit i = true := by
  unfold attrsSubset
  simp only [List.all_eq_true, List.mem_range, Bool.or_eq_true, decide_eq_true_eq,
    Nat.testBit_eq_decide_div_mod_eq]
  constructor
  · intro h i hi hr
    rcases h i hi with h | h
    · omega
    · exact h
  · intro h i hi
    by_cases hr : r / 2 ^ i % 2 = 1
    · exact .inr (h i hi hr)
    · left; omega

theorem attrsSubset_iff (r s : Nat) (hr : r < 2^32) : attrsSubset r s = true ↔ r &&& s = r := by
  rw [attrsSubset_bits]
  constructor
  · intro h
    apply Nat.eq_of_testBit_eq
    intro i
    rw [Nat.testBit_and]
    by_cases hi : i < 32
    · cases hb : r.testBit i with
      | false => rfl
      | true => rw [h i hi hb]; rfl
    · have : r.testBit i = false := by
        apply Nat.testBit_lt_two_pow
        exact Nat.lt_of_lt_of_le hr (Nat.pow_le_pow_right (by decide) (by omega))
      rw [this]; rfl
  · intro h i _ hb
    have := congrArg (fun x => Nat.testBit x i) h
    simp only [Nat.testBit_and, hb, Bool.true_and] at this
    exact this

theorem attrsSubset_refl (a : Nat) : attrsSubset a a = true :=
  (attrsSubset_bits a a).2 fun _ _ h => h

/-! ## the write flags -/

theorem writeFlags_cases (attrs : Nat) :
    (attrs / 0x40 % 2 = 1 ∧ writeFlags attrs = 0x441) ∨ (attrs / 0x40 % 2 ≠ 1 ∧ writeFlags attrs = 0x41) := by
  unfold writeFlags O_WRONLY O_CREATE O_APPEND attrAppendWrite
  by_cases h : attrs / 0x40 % 2 = 1
  · left; rw [if_pos h]; exact ⟨h, rfl⟩
  · right; rw [if_neg h]; exact ⟨h, rfl⟩

/-! ## `fileEnv` reads -/

theorem take4_le32_append (a : Nat) (x : Bytes) : (le32 a ++ x).take 4 = le32 a := by
  simp [le32]

theorem drop4_le32_append (a : Nat) (x : Bytes) : (le32 a ++ x).drop 4 = x := by
  simp [le32]

/-! ## signer first, write second (C15) -/

/-- `WriteSignedUpdate` / `SignEFIVariable` control flow: the signer runs first, and only its
    success (`some b`, the signed bytes) leads to the write program `k b` -/
def signedUpdate (sig : Option Bytes) (k : Bytes → Prog (Outcome Unit)) : Prog (Outcome Unit) :=
  match sig with
  | none => .ret .err
  | some b => k b

/-- `PECOFFBinary.Sign` control flow: `AppendSignature` is reached only when signing succeeded -/
def signImage (sig : Option Bytes) (p : Parsed) : Outcome Unit × Parsed :=
  match sig with
  | none => (Outcome.err, p)
  | some s => (.ok (), p.appendSignature s)

end GoUefi.Impl
