import GoUefi.Gen
import GoUefi.Model.Pkcs7
/-!
  Lemmas about the translated `pkcs7` functions of `GoUefi/Gen.lean` (`signerinfo.isCertificate`,
  the loop helpers of `PKCS7.Verify` and `PKCS7.HasCertificate`), used by `Properties/C04g.lean`.
-/
namespace GoUefi.GenPkcs7
open GoUefi GoUefi.Gen

/-- the error `Verify` returns for a signer error `e`: `fmt.Errorf("…: %w", err)`, which wraps it -/
def wrapStr (e : String) : String := if e.startsWith "%w:" then e else "%w:" ++ e
def wrapErr (e : String) : GoErr := some (wrapStr e)

theorem isCertificate_iff (s : pkcs7.signerinfo) (c : X509Cert) :
    s.isCertificate c = true ↔
      c.RawIssuer = s.IssuerAndSerialnumber.RawIssuer ∧ c.SerialNumber = s.IssuerAndSerialnumber.SerialNumber := by
  unfold pkcs7.signerinfo.isCertificate
  by_cases h1 : c.RawIssuer = s.IssuerAndSerialnumber.RawIssuer
  · by_cases h2 : c.SerialNumber = s.IssuerAndSerialnumber.SerialNumber
    · simp [h1, h2]
    · simp [h1, h2]
  · simp [h1]

/-! ### the `Verify` loop, one turn at a time -/

theorem loop_nil (X : pkcs7.Ext) (p : pkcs7.PKCS7) (c : X509Cert) :
    pkcs7.PKCS7.Verify.loop1 X p c [] = Loop.done () := by
  unfold pkcs7.PKCS7.Verify.loop1; rfl

theorem loop_skip (X : pkcs7.Ext) (p : pkcs7.PKCS7) (c : X509Cert) (s : pkcs7.signerinfo)
    (r : List pkcs7.signerinfo) (h : s.isCertificate c = false) :
    pkcs7.PKCS7.Verify.loop1 X p c (s :: r) = pkcs7.PKCS7.Verify.loop1 X p c r := by
  rw [pkcs7.PKCS7.Verify.loop1]
  simp [h]

theorem loop_err (X : pkcs7.Ext) (p : pkcs7.PKCS7) (c : X509Cert) (s : pkcs7.signerinfo)
    (r : List pkcs7.signerinfo) (h : s.isCertificate c = true) (b : Bool) (e : String)
    (hv : X.signerinfo_verify s c p.ContentInfo = (b, some e)) :
    pkcs7.PKCS7.Verify.loop1 X p c (s :: r) = Loop.ret (false, wrapErr e) := by
  rw [pkcs7.PKCS7.Verify.loop1]
  simp [h, hv, wrapErr, wrapStr, goWrap]

theorem loop_false (X : pkcs7.Ext) (p : pkcs7.PKCS7) (c : X509Cert) (s : pkcs7.signerinfo)
    (r : List pkcs7.signerinfo) (h : s.isCertificate c = true)
    (hv : X.signerinfo_verify s c p.ContentInfo = (false, none)) :
    pkcs7.PKCS7.Verify.loop1 X p c (s :: r) = pkcs7.PKCS7.Verify.loop1 X p c r := by
  rw [pkcs7.PKCS7.Verify.loop1]
  simp [h, hv]

theorem loop_true (X : pkcs7.Ext) (p : pkcs7.PKCS7) (c : X509Cert) (s : pkcs7.signerinfo)
    (r : List pkcs7.signerinfo) (h : s.isCertificate c = true)
    (hv : X.signerinfo_verify s c p.ContentInfo = (true, none)) :
    pkcs7.PKCS7.Verify.loop1 X p c (s :: r) = Loop.ret (true, none) := by
  rw [pkcs7.PKCS7.Verify.loop1]
  simp [h, hv]

/-- every pair is one of the three shapes the loop distinguishes -/
theorem pair_cases (v : Bool × GoErr) :
    v = (true, none) ∨ v = (false, none) ∨ ∃ b e, v = (b, some e) := by
  obtain ⟨b, e⟩ := v
  cases e with
  | some e => exact .inr (.inr ⟨b, e, rfl⟩)
  | none => cases b with
    | true => exact .inl rfl
    | false => exact .inr (.inl rfl)

/-- the loop ends in one of three ways -/
theorem loop_shape (X : pkcs7.Ext) (p : pkcs7.PKCS7) (c : X509Cert) (l : List pkcs7.signerinfo) :
    pkcs7.PKCS7.Verify.loop1 X p c l = Loop.done () ∨
    pkcs7.PKCS7.Verify.loop1 X p c l = Loop.ret (true, none) ∨
    ∃ e, pkcs7.PKCS7.Verify.loop1 X p c l = Loop.ret (false, some e) := by
  induction l with
  | nil => exact .inl (loop_nil X p c)
  | cons s r ih =>
    cases h : s.isCertificate c with
    | false => rw [loop_skip X p c s r h]; exact ih
    | true =>
      rcases pair_cases (X.signerinfo_verify s c p.ContentInfo) with hv | hv | ⟨b, e, hv⟩
      · rw [loop_true X p c s r h hv]; exact .inr (.inl rfl)
      · rw [loop_false X p c s r h hv]; exact ih
      · rw [loop_err X p c s r h b e hv]; exact .inr (.inr ⟨_, rfl⟩)

/-- the result of `Verify`, from the loop's -/
def finish : Loop (Bool × GoErr) Unit → Bool × GoErr
  | Loop.ret r => r
  | Loop.done _ => (false, none)

theorem verify_eq (X : pkcs7.Ext) (p : pkcs7.PKCS7) (c : X509Cert) :
    p.Verify X c = finish (pkcs7.PKCS7.Verify.loop1 X p c p.SignerInfo) := by
  unfold pkcs7.PKCS7.Verify finish
  cases pkcs7.PKCS7.Verify.loop1 X p c p.SignerInfo <;> rfl

/-- the loop answers `(true, nil)` exactly when the first entry that names the certificate and does
    not answer `(false, nil)` answers `(true, nil)` -/
theorem loop_true_iff (X : pkcs7.Ext) (p : pkcs7.PKCS7) (c : X509Cert) (l : List pkcs7.signerinfo) :
    pkcs7.PKCS7.Verify.loop1 X p c l = Loop.ret (true, none) ↔
      ∃ pre s post, l = pre ++ s :: post ∧ s.isCertificate c = true ∧
        X.signerinfo_verify s c p.ContentInfo = (true, none) ∧
        ∀ s' ∈ pre, s'.isCertificate c = true → X.signerinfo_verify s' c p.ContentInfo = (false, none) := by
  induction l with
  | nil =>
    rw [loop_nil]
    constructor
    · intro h; cases h
    · rintro ⟨pre, s, post, h, _⟩
      cases pre <;> cases h
  | cons a r ih =>
    -- a decomposition of `a :: r` either starts at `a` or is a decomposition of `r` behind `a`
    have split : (∃ pre s post, a :: r = pre ++ s :: post ∧ s.isCertificate c = true ∧
          X.signerinfo_verify s c p.ContentInfo = (true, none) ∧
          ∀ s' ∈ pre, s'.isCertificate c = true → X.signerinfo_verify s' c p.ContentInfo = (false, none)) ↔
        ((a.isCertificate c = true ∧ X.signerinfo_verify a c p.ContentInfo = (true, none)) ∨
         ((a.isCertificate c = true → X.signerinfo_verify a c p.ContentInfo = (false, none)) ∧
          ∃ pre s post, r = pre ++ s :: post ∧ s.isCertificate c = true ∧
            X.signerinfo_verify s c p.ContentInfo = (true, none) ∧
            ∀ s' ∈ pre, s'.isCertificate c = true → X.signerinfo_verify s' c p.ContentInfo = (false, none))) := by
      constructor
      · rintro ⟨pre, s, post, h, hs, hv, hpre⟩
        cases pre with
        | nil =>
          rw [List.nil_append] at h
          injection h with h1 h2
          subst h1
          exact .inl ⟨hs, hv⟩
        | cons b pre' =>
          rw [List.cons_append] at h
          injection h with h1 h2
          subst h1
          refine .inr ⟨hpre a (List.mem_cons_self ..), pre', s, post, h2, hs, hv, ?_⟩
          intro s' hs'
          exact hpre s' (List.mem_cons_of_mem _ hs')
      · rintro (⟨hs, hv⟩ | ⟨ha, pre, s, post, h, hs, hv, hpre⟩)
        · exact ⟨[], a, r, rfl, hs, hv, fun _ h => nomatch h⟩
        · refine ⟨a :: pre, s, post, by rw [h]; rfl, hs, hv, ?_⟩
          intro s' hs'
          rcases List.mem_cons.mp hs' with rfl | hm
          · exact ha
          · exact hpre s' hm
    rw [split]
    cases h : a.isCertificate c with
    | false =>
      rw [loop_skip X p c a r h, ih]
      constructor
      · intro hx; exact .inr ⟨fun hf => (nomatch hf), hx⟩
      · rintro (⟨hf, _⟩ | ⟨_, hx⟩)
        · cases hf
        · exact hx
    | true =>
      rcases pair_cases (X.signerinfo_verify a c p.ContentInfo) with hv | hv | ⟨b, e, hv⟩
      · rw [loop_true X p c a r h hv]
        constructor
        · intro _; exact .inl ⟨rfl, hv⟩
        · intro _; rfl
      · rw [loop_false X p c a r h hv, ih]
        constructor
        · intro hx; exact .inr ⟨fun _ => hv, hx⟩
        · rintro (⟨_, hf⟩ | ⟨_, hx⟩)
          · rw [hv] at hf; cases hf
          · exact hx
      · rw [loop_err X p c a r h b e hv]
        constructor
        · intro hx; cases hx
        · rintro (⟨_, hf⟩ | ⟨hf, _⟩)
          · rw [hv] at hf; cases hf
          · have := hf rfl; rw [hv] at this; cases this

/-- the loop depends on the external check only through the entries that name the certificate -/
theorem loop_congr (X X' : pkcs7.Ext) (p : pkcs7.PKCS7) (c : X509Cert) (l : List pkcs7.signerinfo)
    (h : ∀ s ∈ l, s.isCertificate c = true →
      X.signerinfo_verify s c p.ContentInfo = X'.signerinfo_verify s c p.ContentInfo) :
    pkcs7.PKCS7.Verify.loop1 X p c l = pkcs7.PKCS7.Verify.loop1 X' p c l := by
  induction l with
  | nil => rw [loop_nil, loop_nil]
  | cons a r ih =>
    have ih' := ih (fun s hs => h s (List.mem_cons_of_mem _ hs))
    cases hc : a.isCertificate c with
    | false => rw [loop_skip X p c a r hc, loop_skip X' p c a r hc, ih']
    | true =>
      have ha := h a (List.mem_cons_self ..) hc
      rcases pair_cases (X.signerinfo_verify a c p.ContentInfo) with hv | hv | ⟨b, e, hv⟩
      · rw [loop_true X p c a r hc hv, loop_true X' p c a r hc (ha ▸ hv)]
      · rw [loop_false X p c a r hc hv, loop_false X' p c a r hc (ha ▸ hv), ih']
      · rw [loop_err X p c a r hc b e hv, loop_err X' p c a r hc b e (ha ▸ hv)]

/-! ### `HasCertificate` -/

theorem has_loop_iff (c : X509Cert) (l : List pkcs7.signerinfo) :
    (match pkcs7.PKCS7.HasCertificate.loop1 c l with
      | Loop.ret r => r
      | Loop.done _ => false) = true ↔ ∃ s ∈ l, s.isCertificate c = true := by
  induction l with
  | nil =>
    rw [pkcs7.PKCS7.HasCertificate.loop1]
    constructor
    · intro h; cases h
    · rintro ⟨s, hs, _⟩; cases hs
  | cons a r ih =>
    rw [pkcs7.PKCS7.HasCertificate.loop1]
    cases h : a.isCertificate c with
    | true =>
      rw [if_pos rfl]
      exact ⟨fun _ => ⟨a, List.mem_cons_self .., h⟩, fun _ => rfl⟩
    | false =>
      rw [if_neg Bool.false_ne_true, ih]
      constructor
      · rintro ⟨s, hs, hc⟩; exact ⟨s, List.mem_cons_of_mem _ hs, hc⟩
      · rintro ⟨s, hs, hc⟩
        rcases List.mem_cons.mp hs with rfl | hm
        · rw [h] at hc; cases hc
        · exact ⟨s, hm, hc⟩

/-! ### the model side -/

theorem verify_tail_ne_ok_false (b : Bool) (x : Outcome Bytes) (f : Bytes → Bool) :
    (if (!b) = true then Outcome.err else
      match x with
      | .ok d => if f d = true then Outcome.ok true else .err
      | .err => .err | .panic => .panic | .exit => .exit) ≠ Outcome.ok false := by
  cases b
  · intro h; cases h
  · cases x with
    | ok d => cases hf : f d <;> simp [hf]
    | _ => intro h; cases h

/-- the model's `signerinfo.verify` has no "not verified, no error" answer -/
theorem signer_verify_ne_ok_false (C : Crypto) (s : Impl.Signer) (c : Cert) (content : Bytes) :
    s.verify C c content ≠ .ok false := by
  unfold Impl.Signer.verify
  cases s.attrs with
  | none => intro h; cases h
  | some a => exact verify_tail_ne_ok_false _ _ _

end GoUefi.GenPkcs7
