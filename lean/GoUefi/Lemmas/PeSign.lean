import GoUefi.Lemmas.Pe
import GoUefi.Lemmas.AuthDesc
import GoUefi.Lemmas.Pkcs7Verify
import GoUefi.Model.Authenticode
import GoUefi.Spec.Authenticode
/-!
  Helper lemmas for the properties C03 (signing yields a well-formed signed image) and C02 (image
  verification succeeds only for a signature over these bytes).
  Everything lives in `GoUefi.PeSign` so that it cannot clash with other files.
-/
namespace GoUefi
namespace PeSign
open GoUefi.PeAux GoUefi.Spec.PE GoUefi.Impl

/-! ### generic byte-string facts -/

theorem pad8_lt (k : Nat) : pad8 k < 8 := by unfold pad8; omega
theorem add_pad8_mod (k : Nat) : (k + pad8 k) % 8 = 0 := by unfold pad8; omega

theorem slice_prefix (a r : Bytes) {j : Nat} (hj : j = a.length) : slice (a ++ r) 0 j = a := by
  subst hj
  simp [slice]

theorem slice_mid (a m r : Bytes) {i j : Nat} (hi : i = a.length) (hj : j = a.length + m.length) :
    slice (a ++ (m ++ r)) i j = m := by
  subst hi; subst hj
  unfold slice
  rw [← List.append_assoc, List.take_left' (by simp), List.drop_left' rfl]

theorem slice_suffix (a r : Bytes) {i j : Nat} (hi : i = a.length) (hj : a.length + r.length ≤ j) :
    slice (a ++ r) i j = r := by
  subst hi
  unfold slice
  rw [List.take_of_length_le (by simp; omega), List.drop_left' rfl]

theorem slice_split (x : Bytes) {i k j : Nat} (hik : i ≤ k) (hkj : k ≤ j) (hk : k ≤ x.length) :
    slice x i j = slice x i k ++ slice x k j := by
  unfold slice
  have e : x.take j = x.take k ++ (x.take j).drop k := by
    have := List.take_append_drop k (x.take j)
    rw [List.take_take, Nat.min_eq_left hkj] at this
    exact this.symm
  conv => lhs; rw [e]
  rw [List.drop_append_of_le_length (by simp; omega)]

theorem getElem?_prefix (a r : Bytes) {p : Nat} (hp : p < a.length) : (a ++ r)[p]? = a[p]? :=
  List.getElem?_append_left hp

theorem slice0_getElem? (b : Bytes) {j p : Nat} (hp : p < j) : (slice b 0 j)[p]? = b[p]? := by
  have := slice_getElem? b 0 j p (by omega)
  simpa using this

theorem getElem?_mid (a x r : Bytes) (k : Nat) (hk : k < x.length) :
    (a ++ (x ++ r))[a.length + k]? = x[k]? := by
  rw [List.getElem?_append_right (by omega), Nat.add_sub_cancel_left, List.getElem?_append_left hk]

theorem le32At_le32(a r : Bytes) (v : Nat) (hv : v < 2^32) {o : Nat} (ho : o = a.length) :
    le32At (a ++ (le32 v ++ r)) o = v := by
  subst ho
  have h := rd32_le32 v hv
  simp only [le32, rd32] at h
  have e0 := getElem?_mid a (le32 v) r 0 (by simp)
  have e1 := getElem?_mid a (le32 v) r 1 (by simp)
  have e2 := getElem?_mid a (le32 v) r 2 (by simp)
  have e3 := getElem?_mid a (le32 v) r 3 (by simp)
  rw [Nat.add_zero] at e0
  simp only [le32At, byteAt, e0, e1, e2, e3]
  simp only [le32, List.getElem?_cons_zero, List.getElem?_cons_succ, Option.getD_some]
  exact h

/-! ### what `Parse` returns on a well-formed image, field by field -/

theorem parse_fields {b : Bytes} (h : WF b) {p : Parsed} (hp : parse b (factsOf b) = .ok p) :
    p.ddVA = certAddr b ∧ p.ddSize = certSize b ∧ p.length = b.length + pad8 b.length ∧
    p.padding = pad8 b.length ∧ p.first = slice b 0 (layout b).dd ∧
    p.optDataDir = slice b (layout b).dd ((layout b).dd + 8) ∧
    p.last = slice b ((layout b).dd + 8) (b.length - certSize b) ∧
    p.certTable = slice b (certAddr b) (certAddr b + certSize b) := by
  have h1 := h.dd_soh; have h2 := h.soh_len; have h3 := (layout b).ck_dd
  have h4 := h.sum_le; have h5 := h.c_le; have h6 := h.len_ge; have h7 := (layout b).soh_le_sum
  unfold parse at hp
  simp only [ddOffset_factsOf, hashedSecs_factsOf] at hp
  have e1 : (factsOf b).soh = (layout b).soh := rfl
  have e2 : (factsOf b).ddSize = certSize b := rfl
  have e4 : (layout b).soh + ((layout b).hashed.map (·.2)).sum = (layout b).sum := rfl
  have e8 : (factsOf b).ddVA = certAddr b := rfl
  rw [e1, e2, e4, e8] at hp
  have hal := h.aligned
  rw [if_neg (by omega), if_neg (by omega), if_neg (by omega), if_neg (by omega)] at hp
  have e5 : (layout b).sum + (b.length - (layout b).sum) = b.length := by omega
  have e6 : (layout b).sum + (b.length - (layout b).sum - certSize b) = b.length - certSize b := by omega
  rw [e5, e6] at hp
  cases hp
  exact ⟨rfl, rfl, rfl, rfl, rfl, rfl, rfl, rfl⟩

/-! ### `AppendSignature` on what `Parse` returned -/

/-- the bytes `AppendSignature` adds to the certificate table -/
def sigEntry (sig : Bytes) : Bytes :=
  writeWinCert ⟨8 + sig.length, 0x0200, 2, sig⟩ ++ zeros (pad8 (8 + sig.length))

/-- the new directory entry -/
def newVA (b : Bytes) : Nat := if certSize b ≠ 0 then certAddr b else b.length + pad8 b.length
def newSize (b sig : Bytes) : Nat :=
  if certSize b ≠ 0 then certSize b + (sigEntry sig).length else (sigEntry sig).length

theorem sigEntry_length (sig : Bytes) :
    (sigEntry sig).length = 8 + sig.length + pad8 (8 + sig.length) := by
  simp [sigEntry, writeWinCert]; omega

theorem WF.certAddr_eq {b : Bytes} (h : WF b) (hc : certSize b ≠ 0) :
    certAddr b + certSize b = b.length ∧ b.length % 8 = 0 ∧ certSize b % 8 = 0 ∧ 152 ≤ certAddr b := by
  rcases h.aligned with h0 | ⟨h8, hc8, he⟩
  · exact absurd h0 hc
  · have := h.dd_soh; have := h.soh_n; have := (layout b).dd_ge
    exact ⟨he, h8, hc8, by omega⟩

theorem appendSignature_eq {b : Bytes} (h : WF b) {p : Parsed}
    (hp : parse b (factsOf b) = .ok p) (sig : Bytes) (h32 : 8 + sig.length < 2^32)
    (hfit : b.length + 8 + sig.length + 16 < 2^32) :
    p.appendSignature sig =
      { p with ddVA := newVA b, ddSize := newSize b sig,
               certTable := p.certTable ++ writeWinCert ⟨8 + sig.length, 0x0200, 2, sig⟩ ++
                 zeros (pad8 (8 + sig.length)),
               optDataDir := le32 (newVA b) ++ le32 (newSize b sig) } := by
  obtain ⟨f1, f2, f3, f4, f5, f6, f7, f8⟩ := parse_fields h hp
  have hl := sigEntry_length sig
  have hpad := pad8_lt (8 + sig.length)
  have hpadn := pad8_lt b.length
  have hcl := h.c_le
  unfold Parsed.appendSignature
  simp only [Nat.mod_eq_of_lt h32, winCertTypePkcs]
  by_cases hc : certSize b = 0
  · have hcond : ¬ (p.ddVA ≠ 0 ∧ p.ddSize ≠ 0) := by rw [f2, hc]; simp
    rw [if_neg hcond]
    simp only [newVA, newSize, hc, ne_eq, not_true_eq_false, if_false, hl, f3]
    rw [Nat.mod_eq_of_lt (by omega), Nat.mod_eq_of_lt (by omega)]
  · obtain ⟨ha, _, _, hva⟩ := WF.certAddr_eq h hc
    have hcond : p.ddVA ≠ 0 ∧ p.ddSize ≠ 0 := by rw [f1, f2]; exact ⟨by omega, hc⟩
    rw [if_pos hcond]
    simp only [newVA, newSize, hc, ne_eq, not_false_eq_true, if_true, hl, f1, f2]
    rw [Nat.mod_eq_of_lt (by omega), Nat.mod_eq_of_lt (by omega)]
    have : certSize b + (8 + sig.length) + pad8 (8 + sig.length) =
        certSize b + (8 + sig.length + pad8 (8 + sig.length)) := by omega
    rw [this]

theorem table_length {b : Bytes} (h : WF b) :
    (slice b (certAddr b) (certAddr b + certSize b)).length = certSize b := by
  by_cases hc : certSize b = 0
  · simp [hc]; omega
  · obtain ⟨ha, _, _, _⟩ := WF.certAddr_eq h hc
    simp; omega

theorem newVA_eq {b : Bytes} (h : WF b) :
    newVA b = b.length - certSize b + pad8 b.length := by
  unfold newVA
  by_cases hc : certSize b = 0
  · simp [hc]
  · obtain ⟨ha, h8, _, _⟩ := WF.certAddr_eq h hc
    rw [if_pos hc, pad8_eq_zero h8]; omega

theorem newSize_eq (b sig : Bytes) : newSize b sig = certSize b + (sigEntry sig).length := by
  unfold newSize
  by_cases hc : certSize b = 0
  · simp [hc]
  · rw [if_pos hc]

/-- `Bytes()` after `AppendSignature`, as a concatenation -/
theorem bytes_appendSignature {b : Bytes} (h : WF b) {p : Parsed}
    (hp : parse b (factsOf b) = .ok p) (sig : Bytes) (h32 : 8 + sig.length < 2^32)
    (hfit : b.length + 8 + sig.length + 16 < 2^32) :
    (p.appendSignature sig).bytes =
      slice b 0 (layout b).dd ++ (le32 (newVA b) ++ (le32 (newSize b sig) ++
        (slice b ((layout b).dd + 8) (b.length - certSize b) ++ (zeros (pad8 b.length) ++
          (slice b (certAddr b) (certAddr b + certSize b) ++ sigEntry sig))))) := by
  obtain ⟨f1, f2, f3, f4, f5, f6, f7, f8⟩ := parse_fields h hp
  rw [appendSignature_eq h hp sig h32 hfit]
  simp only [Parsed.bytes, f4, f5, f7, f8, sigEntry, List.append_assoc]

/-- everything the later proofs use about the signed file `o` made from `b` and `sig` -/
structure Signed (b sig o : Bytes) : Prop where
  len : o.length = b.length + pad8 b.length + (sigEntry sig).length
  pre : slice o 0 (layout b).dd = slice b 0 (layout b).dd
  mid : slice o ((layout b).dd + 8) (b.length - certSize b) =
          slice b ((layout b).dd + 8) (b.length - certSize b)
  padz : slice o (b.length - certSize b) (b.length - certSize b + pad8 b.length) = zeros (pad8 b.length)
  tab : slice o (newVA b) o.length = slice b (certAddr b) (certAddr b + certSize b) ++ sigEntry sig
  va : le32At o (layout b).dd = newVA b
  sz : le32At o ((layout b).dd + 4) = newSize b sig

theorem anatomy (A L Z T E : Bytes) (va sz : Nat) (hva : va < 2^32) (hsz : sz < 2^32) :
    let o := A ++ (le32 va ++ (le32 sz ++ (L ++ (Z ++ (T ++ E)))))
    o.length = A.length + 8 + L.length + Z.length + T.length + E.length ∧
    slice o 0 A.length = A ∧
    slice o (A.length + 8) (A.length + 8 + L.length) = L ∧
    slice o (A.length + 8 + L.length) (A.length + 8 + L.length + Z.length) = Z ∧
    slice o (A.length + 8 + L.length + Z.length) o.length = T ++ E ∧
    le32At o A.length = va ∧ le32At o (A.length + 4) = sz := by
  intro o
  refine ⟨?_, ?_, ?_, ?_, ?_, ?_, ?_⟩
  · simp [o]; omega
  · exact slice_prefix _ _ rfl
  · have : o = (A ++ (le32 va ++ le32 sz)) ++ (L ++ (Z ++ (T ++ E))) := by
      simp only [o, List.append_assoc]
    rw [this]
    exact slice_mid _ _ _ (by simp) (by simp)
  · have : o = (A ++ (le32 va ++ (le32 sz ++ L))) ++ (Z ++ (T ++ E)) := by
      simp only [o, List.append_assoc]
    rw [this]
    exact slice_mid _ _ _ (by simp; omega) (by simp; omega)
  · have : o = (A ++ (le32 va ++ (le32 sz ++ (L ++ Z)))) ++ (T ++ E) := by
      simp only [o, List.append_assoc]
    rw [this]
    exact slice_suffix _ _ (by simp; omega) (by simp; omega)
  · exact le32At_le32 _ _ _ hva rfl
  · have : o = (A ++ le32 va) ++ (le32 sz ++ (L ++ (Z ++ (T ++ E)))) := by
      simp only [o, List.append_assoc]
    rw [this]
    exact le32At_le32 _ _ _ hsz (by simp)

theorem signed_of_append {b : Bytes} (h : WF b) {p : Parsed}
    (hp : parse b (factsOf b) = .ok p) (sig : Bytes) (h32 : 8 + sig.length < 2^32)
    (hfit : b.length + 8 + sig.length + 16 < 2^32) :
    Signed b sig (p.appendSignature sig).bytes := by
  have ho := bytes_appendSignature h hp sig h32 hfit
  have h1 := h.dd_soh; have h2 := h.soh_n; have h5 := h.c_le
  have hT := table_length h
  have hva := newVA_eq h
  have hsz := newSize_eq b sig
  have hE := sigEntry_length sig
  have hpe := pad8_lt (8 + sig.length)
  have hpn := pad8_lt b.length
  have lA : (slice b 0 (layout b).dd).length = (layout b).dd := by
    simp only [slice_length]; omega
  have lL : (slice b ((layout b).dd + 8) (b.length - certSize b)).length =
      b.length - certSize b - ((layout b).dd + 8) := by
    simp only [slice_length]; omega
  obtain ⟨a1, a2, a3, a4, a5, a6, a7⟩ := anatomy (slice b 0 (layout b).dd)
    (slice b ((layout b).dd + 8) (b.length - certSize b)) (zeros (pad8 b.length))
    (slice b (certAddr b) (certAddr b + certSize b)) (sigEntry sig) (newVA b) (newSize b sig)
    (by omega) (by omega)
  rw [← ho] at a1 a2 a3 a4 a5 a6 a7
  rw [lA] at a1 a2 a3 a4 a5 a6 a7
  rw [lL] at a1 a3 a4 a5
  rw [zeros_length] at a1 a4 a5
  rw [hT] at a1
  have i1 : (layout b).dd + 8 + (b.length - certSize b - ((layout b).dd + 8)) =
      b.length - certSize b := by omega
  rw [i1] at a3 a4 a5
  refine ⟨?_, a2, a3, a4, ?_, a6, a7⟩
  · rw [a1]; omega
  · rw [hva]; exact a5

/-! ### the signed file is well-formed and has the same layout -/

/-- the header fields are read from positions below SizeOfHeaders and outside the Certificate Table
    directory entry -/
theorem layout_eq_of_agree {a b : Bytes} (d1 : (layout a).dd + 8 ≤ (layout a).secTab)
    (d2 : (layout a).secTab + 40 * (layout a).nsec ≤ (layout a).soh)
    (hag : ∀ p, p < (layout a).soh → ¬((layout a).dd ≤ p ∧ p < (layout a).dd + 8) →
      a[p]? = b[p]?) : layout a = layout b := by
  have ddA := (layout a).dd_ge
  have ddA' := (layout a).dd_le
  have ddE : (layout a).dd = (layout a).L + 24 + (if (layout a).plus then 144 else 128) := rfl
  have tabA : (layout a).secTab = (layout a).L + 24 + (layout a).optSize := rfl
  have hL : (layout a).L = (layout b).L := by
    show le32At a 0x3c = le32At b 0x3c
    exact le32At_agree fun p _ _ => hag p (by omega) (by omega)
  have hplus : (layout a).plus = (layout b).plus := by
    show (le16At a ((layout a).L + 24) == 0x20b) = (le16At b ((layout b).L + 24) == 0x20b)
    rw [← hL, le16At_agree fun p _ _ => hag p (by omega) (by omega)]
  have hopt : (layout a).optSize = (layout b).optSize := by
    show le16At a ((layout a).L + 20) = le16At b ((layout b).L + 20)
    rw [← hL]; exact le16At_agree fun p _ _ => hag p (by omega) (by omega)
  have hnsec : (layout a).nsec = (layout b).nsec := by
    show le16At a ((layout a).L + 6) = le16At b ((layout b).L + 6)
    rw [← hL]; exact le16At_agree fun p _ _ => hag p (by omega) (by omega)
  have hsoh : (layout a).soh = (layout b).soh := by
    show le32At a ((layout a).L + 24 + 60) = le32At b ((layout b).L + 24 + 60)
    rw [← hL]; exact le32At_agree fun p _ _ => hag p (by omega) (by omega)
  have hnd : (layout a).ndirs = (layout b).ndirs := by
    show le32At a ((layout a).L + 24 + (if (layout a).plus then 108 else 92)) =
         le32At b ((layout b).L + 24 + (if (layout b).plus then 108 else 92))
    rw [← hL, ← hplus]
    split
    · rename_i hp; rw [if_pos hp] at ddE
      exact le32At_agree fun p _ _ => hag p (by omega) (by omega)
    · rename_i hp; rw [if_neg hp] at ddE
      exact le32At_agree fun p _ _ => hag p (by omega) (by omega)
  have hsecs : (layout a).secs = (layout b).secs := by
    show (List.range (layout a).nsec).map (secEntry a ((layout a).L + 24 + (layout a).optSize)) =
         (List.range (layout b).nsec).map (secEntry b ((layout b).L + 24 + (layout b).optSize))
    rw [← hnsec, ← hL, ← hopt]
    apply List.map_congr_left
    intro i hi
    have hi' : i < (layout a).nsec := List.mem_range.mp hi
    simp only [secEntry]
    rw [le32At_agree fun p _ _ => hag p (by omega) (by omega),
        le32At_agree fun p _ _ => hag p (by omega) (by omega)]
  exact Layout.ext' _ _ hL hplus hnsec hopt hsoh hnd hsecs

namespace Signed
variable {b sig o : Bytes}

/-- the signed file keeps every byte below the certificate table, the directory entry excepted -/
theorem agree (sg : Signed b sig o) (q : Nat) (hq : q < b.length - certSize b)
    (hd : ¬((layout b).dd ≤ q ∧ q < (layout b).dd + 8)) : b[q]? = o[q]? := by
  by_cases h1 : q < (layout b).dd
  · exact (agree_of_slice_eq sg.pre (Nat.zero_le _) h1).symm
  · exact (agree_of_slice_eq sg.mid (by omega) hq).symm

theorem layout_eq (sg : Signed b sig o) (h : WF b) : layout o = layout b := by
  have := h.soh_n
  exact (layout_eq_of_agree h.dirs_fit h.tab_soh fun p hp hd => sg.agree p (by omega) hd).symm

theorem certAddr_eq (sg : Signed b sig o) (h : WF b) : certAddr o = newVA b := by
  unfold certAddr; rw [sg.layout_eq h]; exact sg.va

theorem certSize_eq (sg : Signed b sig o) (h : WF b) : certSize o = newSize b sig := by
  unfold certSize; rw [sg.layout_eq h]; exact sg.sz

/-- numeric facts about the new directory entry -/
theorem nums (sg : Signed b sig o) (h : WF b) :
    newVA b % 8 = 0 ∧ newSize b sig % 8 = 0 ∧ newVA b + newSize b sig = o.length ∧
    o.length % 8 = 0 ∧ o.length - newSize b sig = b.length - certSize b + pad8 b.length ∧
    newSize b sig ≠ 0 := by
  have hva := newVA_eq h
  have hsz := newSize_eq b sig
  have hE := sigEntry_length sig
  have hE8 := add_pad8_mod (8 + sig.length)
  have hn8 := add_pad8_mod b.length
  have hlen := sg.len
  have hcl := h.c_le
  have hc8 : certSize b % 8 = 0 ∧ (b.length - certSize b + pad8 b.length) % 8 = 0 := by
    by_cases hc : certSize b = 0
    · rw [hc]; exact ⟨rfl, by simpa using hn8⟩
    · obtain ⟨_, h8, hc8, _⟩ := WF.certAddr_eq h hc
      rw [pad8_eq_zero h8]; omega
  omega

theorem wf (sg : Signed b sig o) (h : WF b) : WF o := by
  have hl := sg.layout_eq h
  have hca := sg.certAddr_eq h
  have hcs := sg.certSize_eq h
  obtain ⟨n1, n2, n3, n4, n5, n6⟩ := sg.nums h
  have g1 := h.dd_soh; have g2 := h.soh_n; have g3 := (layout b).dd_ge
  have ag : ∀ q, q < (layout b).dd → b[q]? = o[q]? := fun q hq => sg.agree q (by omega) (by omega)
  refine ⟨⟨?_, ?_⟩, ?_, ?_, ?_, ?_, ?_, ?_, ?_, ?_, ?_, ?_, ?_⟩
  · rw [← h.mz.1]; exact (byteAt_congr (ag 0 (by omega))).symm
  · rw [← h.mz.2]; exact (byteAt_congr (ag 1 (by omega))).symm
  · rw [hl, ← h.pesig]; exact (le32At_agree fun q _ _ => ag q (by omega)).symm
  · rw [hl]
    have : le16At o ((layout b).L + 24) = le16At b ((layout b).L + 24) :=
      (le16At_agree fun q _ _ => ag q (by omega)).symm
    rw [this]; exact h.magic
  · rw [hl]; exact h.ndirs
  · rw [hl]; exact h.dirs_fit
  · rw [hl]; exact h.tab_soh
  · rw [hl, hcs, n5]; omega
  · rw [hcs]; omega
  · rw [hl, hcs, n5]; intro s hs; have := h.secs_in s hs; omega
  · rw [hl, hcs, n5]; have := h.sum_le; omega
  · rw [hl]; exact h.disjoint
  · rw [hcs, hca]; exact Or.inr ⟨n4, n2, n3⟩

end Signed

namespace Signed
variable {b sig o : Bytes}

/-- signing does not change the hash input -/
theorem digest (sg : Signed b sig o) (h : WF b) : authInputPadded o = authInputPadded b := by
  have wo := sg.wf h
  obtain ⟨n1, n2, n3, n4, n5, n6⟩ := sg.nums h
  have g1 := h.dd_soh; have g2 := h.soh_n; have g3 := (layout b).ck_dd
  have g4 := (layout b).soh_le_sum; have g5 := h.sum_le
  have hlen := sg.len
  rw [wo.authInputPadded_eq, h.authInputPadded_eq, sg.layout_eq h, sg.certSize_eq h, n5,
      pad8_eq_zero n4]
  have r1 : slice o 0 (layout b).ck = slice b 0 (layout b).ck :=
    slice_congr fun p _ _ => (sg.agree p (by omega) (by omega)).symm
  have r2 : slice o ((layout b).ck + 4) (layout b).dd = slice b ((layout b).ck + 4) (layout b).dd :=
    slice_congr fun p _ _ => (sg.agree p (by omega) (by omega)).symm
  have r3 : slice o ((layout b).dd + 8) (layout b).soh = slice b ((layout b).dd + 8) (layout b).soh :=
    slice_congr fun p _ _ => (sg.agree p (by omega) (by omega)).symm
  have r4 : ((layout b).hashed.map fun s => slice o s.1 (s.1 + s.2)) =
      ((layout b).hashed.map fun s => slice b s.1 (s.1 + s.2)) := by
    apply List.map_congr_left
    intro s hs
    have := h.secs_in s hs
    exact slice_congr fun p _ _ => (sg.agree p (by omega) (by omega)).symm
  have r5 : slice o (layout b).sum (b.length - certSize b) =
      slice b (layout b).sum (b.length - certSize b) :=
    slice_congr fun p _ _ => (sg.agree p (by omega) (by omega)).symm
  have r6 : slice o (layout b).sum (b.length - certSize b + pad8 b.length) =
      slice b (layout b).sum (b.length - certSize b) ++ zeros (pad8 b.length) := by
    rw [slice_split o g5 (Nat.le_add_right _ _) (by omega), r5, sg.padz]
  rw [r1, r2, r3, r4, r6]
  simp [zeros]

/-- the signed file is 8-aligned, so it is its own padded image -/
theorem padded_eq (sg : Signed b sig o) (h : WF b) : padded o = o := by
  obtain ⟨_, _, _, n4, _, _⟩ := sg.nums h
  unfold padded; rw [pad8_eq_zero n4]; simp [zeros]

end Signed

/-! ### the strict certificate-table walker of the specification -/

theorem walkTable_nil (f : Nat) : walkTable f [] = some [] := by
  cases f <;> simp [walkTable]

/-- the first entry the walker reads from `t` -/
def headEntry (t : Bytes) : CertEntry :=
  ⟨rd32 (t.take 4), rd16 ((t.drop 4).take 2), rd16 ((t.drop 6).take 2), (t.take (rd32 (t.take 4))).drop 8⟩

/-- bytes the first entry occupies -/
def headSpan (t : Bytes) : Nat := rd32 (t.take 4) + pad8 (rd32 (t.take 4))

theorem walkTable_succ_inv {f : Nat} {t : Bytes} {es : List CertEntry}
    (h : walkTable (f+1) t = some es) (hne : t ≠ []) :
    8 ≤ t.length ∧ 8 ≤ rd32 (t.take 4) ∧ headSpan t ≤ t.length ∧
    ∃ es0, walkTable f (t.drop (headSpan t)) = some es0 ∧ es = headEntry t :: es0 := by
  unfold walkTable at h
  have he : t.isEmpty = false := by simpa using hne
  rw [he] at h
  simp only [Bool.false_eq_true, if_false] at h
  split at h
  · cases h
  · rename_i h8
    split at h
    · cases h
    · rename_i hc
      split at h
      · cases h
      · rename_i es0 h0
        cases h
        exact ⟨by omega, by omega, by unfold headSpan; omega, es0, h0, rfl⟩

theorem walkTable_succ_intro {f : Nat} {t : Bytes} {es0 : List CertEntry}
    (h8 : 8 ≤ t.length) (hl : 8 ≤ rd32 (t.take 4)) (hfit : headSpan t ≤ t.length)
    (h0 : walkTable f (t.drop (headSpan t)) = some es0) :
    walkTable (f+1) t = some (headEntry t :: es0) := by
  unfold walkTable
  have he : t.isEmpty = false := by
    cases t with
    | nil => simp at h8
    | cons _ _ => rfl
  rw [he]
  simp only [Bool.false_eq_true, if_false]
  unfold headSpan at hfit h0
  rw [if_neg (by omega), if_neg (by omega), h0]
  rfl

theorem walkTable_mono : ∀ (f : Nat) (t : Bytes) (es : List CertEntry),
    walkTable f t = some es → ∀ f', f ≤ f' → walkTable f' t = some es := by
  intro f
  induction f with
  | zero =>
    intro t es h f' _
    unfold walkTable at h
    split at h
    · rename_i he
      have : t = [] := by simpa using he
      subst this
      cases h
      exact walkTable_nil f'
    · cases h
  | succ f ih =>
    intro t es h f' hf
    obtain ⟨f'', rfl⟩ : ∃ k, f' = k + 1 := ⟨f' - 1, by omega⟩
    by_cases hne : t = []
    · subst hne
      rw [walkTable_nil] at h ⊢
      exact h
    · obtain ⟨h8, hl, hfit, es0, h0, rfl⟩ := walkTable_succ_inv h hne
      exact walkTable_succ_intro h8 hl hfit (ih _ _ h0 f'' (by omega))

/-- each entry occupies at least 8 bytes -/
theorem walkTable_length : ∀ (f : Nat) (t : Bytes) (es : List CertEntry),
    walkTable f t = some es → 8 * es.length ≤ t.length := by
  intro f
  induction f with
  | zero =>
    intro t es h
    unfold walkTable at h
    split at h
    · cases h; simp
    · cases h
  | succ f ih =>
    intro t es h
    by_cases hne : t = []
    · subst hne
      rw [walkTable_nil] at h
      cases h; simp
    · obtain ⟨h8, hl, hfit, es0, h0, rfl⟩ := walkTable_succ_inv h hne
      have := ih _ _ h0
      simp only [List.length_drop, List.length_cons] at this ⊢
      unfold headSpan at *
      omega

theorem headEntry_append (t e : Bytes) (h8 : 8 ≤ t.length) (hfit : rd32 (t.take 4) ≤ t.length) :
    headEntry (t ++ e) = headEntry t ∧ headSpan (t ++ e) = headSpan t := by
  have e4 : (t ++ e).take 4 = t.take 4 := List.take_append_of_le_length (by omega)
  have d4 : ((t ++ e).drop 4).take 2 = (t.drop 4).take 2 := by
    rw [List.drop_append_of_le_length (by omega), List.take_append_of_le_length (by simp; omega)]
  have d6 : ((t ++ e).drop 6).take 2 = (t.drop 6).take 2 := by
    rw [List.drop_append_of_le_length (by omega), List.take_append_of_le_length (by simp; omega)]
  unfold headEntry headSpan
  rw [e4, d4, d6, List.take_append_of_le_length hfit]
  exact ⟨rfl, rfl⟩

/-- walking a table followed by more entries -/
theorem walkTable_append : ∀ (f : Nat) (t : Bytes) (es : List CertEntry),
    walkTable f t = some es → ∀ (f2 : Nat) (e : Bytes) (es2 : List CertEntry),
    walkTable f2 e = some es2 → walkTable (f + f2) (t ++ e) = some (es ++ es2) := by
  intro f
  induction f with
  | zero =>
    intro t es h f2 e es2 h2
    unfold walkTable at h
    split at h
    · rename_i he
      have : t = [] := by simpa using he
      subst this
      cases h
      simpa using h2
    · cases h
  | succ f ih =>
    intro t es h f2 e es2 h2
    by_cases hne : t = []
    · subst hne
      rw [walkTable_nil] at h
      cases h
      simp only [List.nil_append]
      exact walkTable_mono _ _ _ h2 _ (by omega)
    · obtain ⟨h8, hl, hfit, es0, h0, rfl⟩ := walkTable_succ_inv h hne
      have hfit' : rd32 (t.take 4) ≤ t.length := by unfold headSpan at hfit; omega
      obtain ⟨e1, e2⟩ := headEntry_append t e h8 hfit'
      have := ih _ _ h0 f2 e es2 h2
      rw [show f + 1 + f2 = (f + f2) + 1 by omega]
      have key := walkTable_succ_intro (f := f + f2) (t := t ++ e) (es0 := es0 ++ es2)
        (by simp; omega) (by rw [List.take_append_of_le_length (by omega)]; exact hl)
        (by rw [e2]; simp; omega)
        (by rw [e2, List.drop_append_of_le_length hfit]; exact this)
      rw [key, e1]
      rfl

/-- the entry `AppendSignature` writes, read back by the strict walker -/
theorem walkTable_sigEntry (sig : Bytes) (h32 : 8 + sig.length < 2^32) (f : Nat) :
    walkTable (f + 1) (sigEntry sig) = some [⟨8 + sig.length, 0x0200, 2, sig⟩] := by
  have hE := sigEntry_length sig
  have e0 : sigEntry sig = le32 (8 + sig.length) ++ (le16 0x0200 ++ (le16 2 ++ (sig ++
      zeros (pad8 (8 + sig.length))))) := by
    simp only [sigEntry, writeWinCert, List.append_assoc]
  have t4 : (sigEntry sig).take 4 = le32 (8 + sig.length) := by
    rw [e0]; exact List.take_left' rfl
  have hlen : rd32 ((sigEntry sig).take 4) = 8 + sig.length := by
    rw [t4]; exact rd32_le32 _ h32
  have hspan : headSpan (sigEntry sig) = (sigEntry sig).length := by
    unfold headSpan; rw [hlen, hE]
  have hhead : headEntry (sigEntry sig) = ⟨8 + sig.length, 0x0200, 2, sig⟩ := by
    unfold headEntry
    rw [hlen]
    have d4 : ((sigEntry sig).drop 4).take 2 = le16 0x0200 := by
      rw [e0, List.drop_left' (l₁ := le32 (8 + sig.length)) (i := 4) rfl]; exact List.take_left' rfl
    have d6 : ((sigEntry sig).drop 6).take 2 = le16 2 := by
      rw [e0, ← List.append_assoc, List.drop_left' (l₁ := le32 (8 + sig.length) ++ le16 0x0200) (i := 6) rfl]
      exact List.take_left' rfl
    have body : ((sigEntry sig).take (8 + sig.length)).drop 8 = sig := by
      have : sigEntry sig = (le32 (8 + sig.length) ++ (le16 0x0200 ++ le16 2)) ++ sig ++
          zeros (pad8 (8 + sig.length)) := by
        simp only [sigEntry, writeWinCert, List.append_assoc]
      rw [this, List.take_left' (by simp; omega),
        List.drop_left' (l₁ := le32 (8 + sig.length) ++ (le16 0x0200 ++ le16 2)) (i := 8) rfl]
    rw [d4, d6, body]
    rfl
  have key := walkTable_succ_intro (f := f) (t := sigEntry sig) (es0 := [])
    (by omega) (by omega) (by omega)
    (by rw [hspan, List.drop_length]; exact walkTable_nil f)
  rw [key, hhead]

/-- a strict walk of the image's certificate table, with the table size as fuel -/
theorem certEntries_walk {b : Bytes} (h : WF b) {es : List CertEntry}
    (he : certEntries b = some es) :
    walkTable (certSize b) (slice b (certAddr b) (certAddr b + certSize b)) = some es := by
  have hT := table_length h
  unfold certEntries at he
  simp only [] at he
  split at he
  · rename_i hc
    cases he
    rw [hc] at hT ⊢
    rw [List.eq_nil_of_length_eq_zero hT]
    rfl
  · split at he
    · cases he
    · exact he

theorem certEntries_unsigned {b : Bytes} (hc : certSize b = 0) : certEntries b = some [] := by
  unfold certEntries
  simp [hc]

theorem Signed.entries {b sig o : Bytes} (sg : Signed b sig o) (h : WF b)
    (h32 : 8 + sig.length < 2^32) {es : List CertEntry} (he : certEntries b = some es) :
    certEntries o = some (es ++ [⟨8 + sig.length, 0x0200, 2, sig⟩]) := by
  obtain ⟨n1, n2, n3, n4, n5, n6⟩ := sg.nums h
  have hw := certEntries_walk h he
  have hE := sigEntry_length sig
  have hsz := newSize_eq b sig
  unfold certEntries
  simp only []
  rw [sg.certSize_eq h, sg.certAddr_eq h, if_neg n6, if_neg (by omega), n3, sg.tab]
  have := walkTable_append _ _ _ hw 1 (sigEntry sig) _ (walkTable_sigEntry sig h32 0)
  exact walkTable_mono _ _ _ this _ (by omega)

/-! ### serialise, parse again, sign again -/

theorem slice_all (x : Bytes) : slice x 0 x.length = x := by simp [slice]

/-- `Bytes()` of what `Parse` returned on a well-formed *signed* image is the image -/
theorem bytes_of_parse {x : Bytes} (h : WF x) (hc : certSize x ≠ 0) {q : Parsed}
    (hq : parse x (factsOf x) = .ok q) : q.bytes = x := by
  obtain ⟨_, _, _, f4, f5, f6, f7, f8⟩ := parse_fields h hq
  obtain ⟨ha, h8, _, _⟩ := WF.certAddr_eq h hc
  have h1 := h.dd_soh; have h2 := h.soh_n
  have e : certAddr x = x.length - certSize x := by omega
  unfold Parsed.bytes
  rw [f4, f5, f6, f7, f8, pad8_eq_zero h8, ha, e]
  have s1 := slice_split x (i := 0) (k := (layout x).dd) (j := x.length) (by omega) (by omega) (by omega)
  have s2 := slice_split x (i := (layout x).dd) (k := (layout x).dd + 8) (j := x.length)
    (by omega) (by omega) (by omega)
  have s3 := slice_split x (i := (layout x).dd + 8) (k := x.length - certSize x) (j := x.length)
    (by omega) (by omega) (by omega)
  have s0 := slice_all x
  rw [s1, s2, s3] at s0
  simp only [zeros, List.replicate_zero, List.append_nil, List.append_assoc]
  exact s0

/-- parsing the serialised signed image: same hash stream, the extended table, the new entry -/
theorem reparse {b : Bytes} (h : WF b) {p : Parsed} (hp : parse b (factsOf b) = .ok p)
    (sig : Bytes) (h32 : 8 + sig.length < 2^32) (hfit : b.length + 8 + sig.length + 16 < 2^32) :
    ∃ p', parse (p.appendSignature sig).bytes (factsOf (p.appendSignature sig).bytes) = .ok p' ∧
      p'.bytes = (p.appendSignature sig).bytes ∧ hashStream p' = hashStream p ∧
      p'.certTable = (p.appendSignature sig).certTable ∧
      p'.ddVA = newVA b ∧ p'.ddSize = newSize b sig ∧ p'.first = p.first ∧
      p'.last ++ zeros p'.padding = p.last ++ zeros p.padding := by
  have sg := signed_of_append h hp sig h32 hfit
  have hap := appendSignature_eq h hp sig h32 hfit
  have hct : (p.appendSignature sig).certTable =
      p.certTable ++ writeWinCert ⟨8 + sig.length, 0x0200, 2, sig⟩ ++ zeros (pad8 (8 + sig.length)) := by
    rw [hap]
  generalize (p.appendSignature sig).certTable = ct at hct
  generalize (p.appendSignature sig).bytes = o at sg
  have wo := sg.wf h
  obtain ⟨n1, n2, n3, n4, n5, n6⟩ := sg.nums h
  obtain ⟨p', hp', _, _, hs⟩ := impl_eq_spec wo
  obtain ⟨f1, f2, f3, f4, f5, f6, f7, f8⟩ := parse_fields h hp
  obtain ⟨g1, g2, g3, g4, g5, g6, g7, g8⟩ := parse_fields wo hp'
  have hcs := sg.certSize_eq h
  have hca := sg.certAddr_eq h
  have hl := sg.layout_eq h
  have k1 := h.dd_soh; have k2 := h.soh_n
  refine ⟨p', hp', bytes_of_parse wo (by rw [hcs]; exact n6) hp', ?_, ?_, ?_, ?_, ?_, ?_⟩
  · rw [hs, sg.digest h, hashStream_of_parse h hp]
  · rw [g8, hca, hcs, n3, sg.tab, hct, f8]
    simp only [sigEntry, List.append_assoc]
  · rw [g1, hca]
  · rw [g2, hcs]
  · rw [g5, hl, f5]; exact sg.pre
  · rw [g7, g4, hl, hcs, n5, pad8_eq_zero n4, f7, f4,
        slice_split o (i := (layout b).dd + 8) (k := b.length - certSize b) (by omega)
          (Nat.le_add_right _ _) (by have := sg.len; omega), sg.mid, sg.padz]
    simp [zeros]

/-- what `AppendSignature` writes depends only on these components of its receiver -/
theorem appendSignature_bytes_congr (q q' : Parsed) (s : Bytes) (h1 : q'.ddVA = q.ddVA)
    (h2 : q'.ddSize = q.ddSize) (hv : q.ddVA ≠ 0) (hs : q.ddSize ≠ 0) (hf : q'.first = q.first)
    (hl : q'.last ++ zeros q'.padding = q.last ++ zeros q.padding)
    (ht : q'.certTable = q.certTable) :
    (q'.appendSignature s).bytes = (q.appendSignature s).bytes := by
  unfold Parsed.appendSignature Parsed.bytes
  simp only []
  rw [if_pos ⟨by rw [h1]; exact hv, by rw [h2]; exact hs⟩, if_pos ⟨hv, hs⟩]
  simp only [h1, h2, hf, ht]
  have : ∀ (a d l z c : Bytes), a ++ d ++ l ++ z ++ c = a ++ (d ++ ((l ++ z) ++ c)) := by
    intros; simp only [List.append_assoc]
  rw [this, this, hl]

/-! ### `Signatures()` against the strict walker -/

theorem signaturesAux_short (f : Nat) {t : Bytes} (h : t.length ≤ 8) : signaturesAux f t = .ok [] := by
  cases f with
  | zero => rfl
  | succ f => unfold signaturesAux; rw [if_pos h]

theorem signaturesAux_succ_inv {f : Nat} {t : Bytes} {ws : List WinCert}
    (h : signaturesAux (f+1) t = .ok ws) (h8 : 8 < t.length) :
    ∃ w rest ws0, readWinCert t = .ok (w, rest) ∧
      signaturesAux f (rest.drop (pad8 w.length)) = .ok ws0 ∧ ws = w :: ws0 := by
  unfold signaturesAux at h
  rw [if_neg (by omega)] at h
  split at h
  · rename_i w rest hr
    split at h
    · rename_i ws0 h0
      cases h
      exact ⟨w, rest, ws0, hr, h0, rfl⟩
    · cases h
    · cases h
    · cases h
  · cases h
  · cases h
  · cases h

theorem signaturesAux_succ_intro {f : Nat} {t : Bytes} {w : WinCert} {rest : Bytes}
    {ws0 : List WinCert} (h8 : 8 < t.length) (hr : readWinCert t = .ok (w, rest))
    (h0 : signaturesAux f (rest.drop (pad8 w.length)) = .ok ws0) :
    signaturesAux (f+1) t = .ok (w :: ws0) := by
  unfold signaturesAux
  rw [if_neg (by omega), hr]
  simp only [h0]

theorem readWinCert_append {t : Bytes} {w : WinCert} {rest : Bytes}
    (h : readWinCert t = .ok (w, rest)) (e : Bytes) : readWinCert (t ++ e) = .ok (w, rest ++ e) := by
  obtain ⟨l, rv, ct, r3, rfl, hl, hrv, hct, hrev, h8, hb, rfl, rfl⟩ := readWinCert_ok h
  have := readWinCert_parts l rv ct (r3.take (rd32 l - 8)) (r3.drop (rd32 l - 8) ++ e) hl hrv hct hrev
    (by rw [List.length_take]; omega)
  rw [← List.append_assoc (r3.take _), List.take_append_drop] at this
  simpa only [List.append_assoc] using this

/-- what `ReadWinCertificate` returns, in the walker's terms -/
theorem readWinCert_head {t : Bytes} {w : WinCert} {rest : Bytes}
    (h : readWinCert t = .ok (w, rest)) :
    (⟨w.length, w.rev, w.ctype, w.cert⟩ : CertEntry) = headEntry t ∧
    rest = t.drop (rd32 (t.take 4)) ∧ w.length = rd32 (t.take 4) ∧ w.rev = 0x0200 := by
  obtain ⟨l, rv, ct, r3, rfl, hl, hrv, hct, hrev, h8, hb, rfl, rfl⟩ := readWinCert_ok h
  have t4 : (l ++ (rv ++ (ct ++ r3))).take 4 = l := List.take_left' hl
  have d4 : ((l ++ (rv ++ (ct ++ r3))).drop 4).take 2 = rv := by
    rw [List.drop_left' hl]; exact List.take_left' hrv
  have d6 : ((l ++ (rv ++ (ct ++ r3))).drop 6).take 2 = ct := by
    rw [← List.append_assoc, List.drop_left' (by simp [hl, hrv])]; exact List.take_left' hct
  have e8 : l ++ (rv ++ (ct ++ r3)) = (l ++ (rv ++ ct)) ++ r3 := by simp only [List.append_assoc]
  have l8 : (l ++ (rv ++ ct)).length = 8 := by simp [hl, hrv, hct]
  have tk : ((l ++ (rv ++ (ct ++ r3))).take (rd32 l)).drop 8 = r3.take (rd32 l - 8) := by
    rw [e8, List.take_append, l8, List.take_of_length_le (by omega), List.drop_left' l8]
  have dr : (l ++ (rv ++ (ct ++ r3))).drop (rd32 l) = r3.drop (rd32 l - 8) := by
    rw [e8, List.drop_append, l8, List.drop_of_length_le (by omega), List.nil_append]
  unfold headEntry
  rw [t4, d4, d6, tk, dr]
  exact ⟨rfl, rfl, rfl, hrev⟩

/-- `Signatures()` on a strictly walkable table whose entries all have a body, followed by more
    entries: the old list followed by the list of the rest -/
theorem signatures_append : ∀ (f : Nat) (t : Bytes) (es : List CertEntry),
    walkTable f t = some es → (∀ x ∈ es, 8 < x.length) →
    ∀ (f1 : Nat) (ws : List WinCert), signaturesAux f1 t = .ok ws → es.length ≤ f1 →
    ∀ (e : Bytes) (wsE : List WinCert), (∀ f', 1 ≤ f' → signaturesAux f' e = .ok wsE) →
    ∀ f2, 1 ≤ f2 → signaturesAux (f1 + f2) (t ++ e) = .ok (ws ++ wsE) := by
  intro f
  induction f with
  | zero =>
    intro t es h _ f1 ws hs _ e wsE hE f2 hf2
    unfold walkTable at h
    split at h
    · rename_i he
      have : t = [] := by simpa using he
      subst this
      rw [signaturesAux_short f1 (by simp)] at hs
      cases hs
      simpa using hE (f1 + f2) (by omega)
    · cases h
  | succ f ih =>
    intro t es h hbody f1 ws hs hf1 e wsE hE f2 hf2
    by_cases hne : t = []
    · subst hne
      rw [signaturesAux_short f1 (by simp)] at hs
      cases hs
      simpa using hE (f1 + f2) (by omega)
    · obtain ⟨h8, hl, hfit, es0, h0, rfl⟩ := walkTable_succ_inv h hne
      have hb := hbody (headEntry t) List.mem_cons_self
      have hlen : 8 < rd32 (t.take 4) := hb
      have hspan : headSpan t = rd32 (t.take 4) + pad8 (rd32 (t.take 4)) := rfl
      obtain ⟨f1', rfl⟩ : ∃ k, f1 = k + 1 := ⟨f1 - 1, by simp at hf1; omega⟩
      obtain ⟨w, rest, ws0, hr, hs0, rfl⟩ := signaturesAux_succ_inv hs (by omega)
      obtain ⟨_, hrest, hwl, _⟩ := readWinCert_head hr
      have hdrop : rest.drop (pad8 w.length) = t.drop (headSpan t) := by
        rw [hrest, hwl, List.drop_drop, hspan]
      rw [hdrop] at hs0
      have := ih _ _ h0 (fun x hx => hbody x (List.mem_cons_of_mem _ hx)) f1' ws0 hs0
        (by simp at hf1; omega) e wsE hE f2 hf2
      rw [show f1' + 1 + f2 = (f1' + f2) + 1 by omega]
      refine signaturesAux_succ_intro (by simp; omega) (readWinCert_append hr e) ?_
      have hd2 : (rest ++ e).drop (pad8 w.length) = t.drop (headSpan t) ++ e := by
        rw [List.drop_append_of_le_length (by rw [hrest, hwl, List.length_drop]; omega), hdrop]
      rw [hd2]
      exact this

theorem readWinCert_sigEntry (sig : Bytes) (h32 : 8 + sig.length < 2^32) :
    readWinCert (sigEntry sig) =
      .ok (⟨8 + sig.length, 0x0200, 2, sig⟩, zeros (pad8 (8 + sig.length))) :=
  readWinCert_enc sig (zeros (pad8 (8 + sig.length))) 2 (by omega) (by omega)

theorem signaturesAux_sigEntry (sig : Bytes) (h32 : 8 + sig.length < 2^32) (hne : sig ≠ [])
    (f : Nat) (hf : 1 ≤ f) :
    signaturesAux f (sigEntry sig) = .ok [⟨8 + sig.length, 0x0200, 2, sig⟩] := by
  obtain ⟨f', rfl⟩ : ∃ k, f = k + 1 := ⟨f - 1, by omega⟩
  have hpos : 0 < sig.length := List.length_pos_iff.mpr hne
  refine signaturesAux_succ_intro (by rw [sigEntry_length]; omega) (readWinCert_sigEntry sig h32) ?_
  exact signaturesAux_short _ (by simp)

/-- `Signatures()` after `AppendSignature`: the old list followed by the new entry -/
theorem signatures_appendSignature {b : Bytes} (h : WF b) {p : Parsed}
    (hp : parse b (factsOf b) = .ok p) (sig : Bytes) (h32 : 8 + sig.length < 2^32)
    (hfit : b.length + 8 + sig.length + 16 < 2^32) (hne : sig ≠ [])
    {es : List CertEntry} (he : certEntries b = some es) (hbody : ∀ x ∈ es, 8 < x.length)
    {ws : List WinCert} (hs : p.signatures = .ok ws) :
    (p.appendSignature sig).signatures = .ok (ws ++ [⟨8 + sig.length, 0x0200, 2, sig⟩]) := by
  obtain ⟨_, _, _, _, _, _, _, f8⟩ := parse_fields h hp
  have hw := certEntries_walk h he
  have hlen := walkTable_length _ _ _ hw
  have hE := sigEntry_length sig
  unfold Parsed.signatures at hs ⊢
  rw [appendSignature_eq h hp sig h32 hfit]
  simp only []
  have e : p.certTable ++ writeWinCert ⟨8 + sig.length, 0x0200, 2, sig⟩ ++
      zeros (pad8 (8 + sig.length)) = p.certTable ++ sigEntry sig := by
    simp only [sigEntry, List.append_assoc]
  rw [e, List.length_append]
  rw [f8] at hs ⊢
  exact signatures_append _ _ _ hw hbody _ _ hs (by omega) _ _
    (signaturesAux_sigEntry sig h32 hne) _ (by omega)

theorem newVA_ne_zero {b : Bytes} (h : WF b) : newVA b ≠ 0 := by
  have := newVA_eq h; have := h.dd_soh; have := h.soh_n; have := (layout b).dd_ge
  omega

/-- signing the re-parsed serialised image writes the same file as signing the in-memory value again -/
theorem sign_again {b : Bytes} (h : WF b) {p : Parsed} (hp : parse b (factsOf b) = .ok p)
    (sig : Bytes) (h32 : 8 + sig.length < 2^32) (hfit : b.length + 8 + sig.length + 16 < 2^32)
    {p' : Parsed} (hct : p'.certTable = (p.appendSignature sig).certTable)
    (hva : p'.ddVA = newVA b) (hsz : p'.ddSize = newSize b sig) (hf : p'.first = p.first)
    (hl : p'.last ++ zeros p'.padding = p.last ++ zeros p.padding) (sig2 : Bytes) :
    (p'.appendSignature sig2).bytes = ((p.appendSignature sig).appendSignature sig2).bytes := by
  have hap := appendSignature_eq h hp sig h32 hfit
  have hE := sigEntry_length sig
  have hs := newSize_eq b sig
  apply appendSignature_bytes_congr
  · rw [hva, hap]
  · rw [hsz, hap]
  · rw [hap]; exact newVA_ne_zero h
  · rw [hap]; show newSize b sig ≠ 0; omega
  · rw [hf, hap]
  · rw [hl, hap]
  · exact hct

/-! ### C02: `PECOFFBinary.Verify` -/
open GoUefi.Der

/-- `split` the outermost `match` of a parser hypothesis and discharge the failing branch -/
local macro "step " h:ident : tactic =>
  `(tactic| (split at $h:ident <;> try (simp at $h:ident; done)))

/-- whatever verdict `Authenticode.Verify` returns, the checks before the PKCS#7 verification passed -/
theorem Auth.verify_ok {C : Crypto} {a : Auth} {c : Cert} {stream : Bytes} {v : Bool}
    (h : a.verify C c stream = .ok v) :
    a.alg = oidSha256 ∧ a.digest.length = 32 ∧ a.digest = C.sha256 stream ∧
    a.pkcs.verify C c = .ok v := by
  unfold Auth.verify at h
  split at h
  · cases h
  · rename_i h1
    split at h
    · cases h
    · rename_i h2
      split at h
      · cases h
      · rename_i h3
        refine ⟨by simpa using h1, by simpa using h2, ?_, h⟩
        have : C.sha256 stream = a.digest := by simpa using h3
        exact this.symm

/-- success of the loop: some entry parses and verifies -/
theorem verifySigs_ok_true {C : Crypto} {ok : Bytes → Bool} {c : Cert} {stream : Bytes} :
    ∀ {ws : List WinCert}, verifySigs C ok c stream ws = .ok true →
    ∃ w ∈ ws, ∃ a, parseAuthenticode ok w.cert = some a ∧ a.verify C c stream = .ok true := by
  intro ws
  induction ws with
  | nil => intro h; cases h
  | cons w ws ih =>
    intro h
    unfold verifySigs at h
    split at h
    · cases h
    · rename_i a ha
      split at h
      · rename_i hv
        exact ⟨w, List.mem_cons_self, a, ha, hv⟩
      · obtain ⟨w', hw', a', ha', hv'⟩ := ih h
        exact ⟨w', List.mem_cons_of_mem _ hw', a', ha', hv'⟩
      · cases h
      · cases h
      · cases h

/-- success of the loop: the first entry parses and passes the digest check (an entry that fails
    it ends the loop with an error) -/
theorem verifySigs_head {C : Crypto} {ok : Bytes → Bool} {c : Cert} {stream : Bytes}
    {w : WinCert} {ws : List WinCert} (h : verifySigs C ok c stream (w :: ws) = .ok true) :
    ∃ a v, parseAuthenticode ok w.cert = some a ∧ a.verify C c stream = .ok v := by
  unfold verifySigs at h
  split at h
  · cases h
  · rename_i a ha
    split at h
    · rename_i hv; exact ⟨a, true, ha, hv⟩
    · rename_i hv; exact ⟨a, false, ha, hv⟩
    · cases h
    · cases h
    · cases h

theorem verify_inv {C : Crypto} {ok : Bytes → Bool} {p : Parsed} {c : Cert}
    (h : p.verify C ok c = .ok true) :
    ∃ w ws, p.signatures = .ok (w :: ws) ∧
      verifySigs C ok c (hashStream p) (w :: ws) = .ok true := by
  unfold Parsed.verify at h
  split at h
  · cases h
  · rename_i ws hne hs
    cases ws with
    | nil => exact absurd rfl hne
    | cons w ws => exact ⟨w, ws, hs, h⟩
  · cases h
  · cases h
  · cases h

theorem signatures_congr {p p' : Parsed} (h : p'.certTable = p.certTable) :
    p'.signatures = p.signatures := by
  unfold Parsed.signatures; rw [h]

/-- (digest algorithm, digest) of the DigestInfo inside the content of a SignedData whose content
    type is SpcIndirectDataContent — the reads `ParseAuthenticode` performs on `PKCS7.Content` -/
def digestOfContent (content : Bytes) : Option (List Nat × Bytes) :=
  match read tSEQ content with
  | none => none
  | some (der, _) =>
    match read tSEQ der with
    | none => none
    | some (_, der1) =>
      match read tSEQ der1 with
      | none => none
      | some (di, _) =>
        match parseAlg di with
        | none => none
        | some (alg, di1) =>
          match read tOCT di1 with
          | none => none
          | some (digest, _) => some (alg, digest)

theorem parseAuthenticode_inv {ok : Bytes → Bool} {blob : Bytes} {a : Auth}
    (h : parseAuthenticode ok blob = some a) :
    parseP7 ok blob = some a.pkcs ∧ a.pkcs.oid = oidSpcIndirectData ∧
    ∃ der r0 spc der1 di r1 di1 r2, read tSEQ a.pkcs.content = some (der, r0) ∧
      read tSEQ der = some (spc, der1) ∧ read tSEQ der1 = some (di, r1) ∧
      parseAlg di = some (a.alg, di1) ∧ read tOCT di1 = some (a.digest, r2) := by
  unfold parseAuthenticode at h
  step h
  rename_i p hp
  split at h
  · cases h
  · rename_i hoid
    step h
    rename_i der r0 h1
    step h
    rename_i spc der1 h2
    step h
    rename_i dtype spc1 h3
    split at h
    · cases h
    · step h
      step h
      rename_i di r1 h5
      step h
      rename_i alg di1 h6
      step h
      rename_i digest r2 h7
      simp at h
      subst h
      exact ⟨hp, by simpa using hoid, der, r0, spc, der1, di, r1, di1, r2, h1, h2, h5, h6, h7⟩

/-- the digest and its algorithm are determined by the signed content -/
theorem parseAuthenticode_digest_in_content {ok : Bytes → Bool} {blob : Bytes} {a : Auth}
    (h : parseAuthenticode ok blob = some a) :
    digestOfContent a.pkcs.content = some (a.alg, a.digest) := by
  obtain ⟨_, _, der, r0, spc, der1, di, r1, di1, r2, h1, h2, h3, h4, h5⟩ := parseAuthenticode_inv h
  simp [digestOfContent, h1, h2, h3, h4, h5]

theorem parseAlg_inv' {s : Bytes} {o : List Nat} {rest : Bytes} (h : parseAlg s = some (o, rest)) :
    ∃ b r, read tSEQ s = some (b, rest) ∧ readOID b = some (o, r) := by
  unfold parseAlg at h
  step h
  rename_i b rest' h1
  step h
  rename_i o' r h2
  split at h
  · simp at h; obtain ⟨rfl, rfl⟩ := h; exact ⟨b, r, h1, h2⟩
  · step h
    simp at h; obtain ⟨rfl, rfl⟩ := h; exact ⟨b, r, h1, h2⟩

/-- … and they are what the specification reads from the content's value octets -/
theorem parseAuthenticode_spcDigest {ok : Bytes → Bool} {blob : Bytes} {a : Auth}
    (h : parseAuthenticode ok blob = some a) :
    ∃ der r0, readAny a.pkcs.content = some (tSEQ, der, r0) ∧
      Spec.spcDigest der = some (a.alg, a.digest) := by
  obtain ⟨_, _, der, r0, spc, der1, di, r1, di1, r2, h1, h2, h3, h4, h5⟩ := parseAuthenticode_inv h
  obtain ⟨ab, ar, h6, h7⟩ := parseAlg_inv' h4
  refine ⟨der, r0, read_readAny h1, ?_⟩
  simp [Spec.spcDigest, h2, h3, h6, h7, h5]

/-- the whole chain of commitments behind a successful `PECOFFBinary.Verify` -/
theorem verify_chain {C : Crypto} {ok : Bytes → Bool} {p : Parsed} {c : Cert}
    (hv : p.verify C ok c = .ok true) :
    ∃ ws w a, p.signatures = .ok ws ∧ w ∈ ws ∧ parseAuthenticode ok w.cert = some a ∧
      a.alg = oidSha256 ∧ a.digest.length = 32 ∧ a.digest = C.sha256 (hashStream p) ∧
      a.pkcs.verify C c = .ok true ∧
      ∃ s ∈ a.pkcs.signers, s.issuer = c.rawIssuer ∧ s.serial = c.serial ∧
        ∃ att body, s.attrs = some att ∧ att.raw = some (addASN1 tSET body) ∧
          (∃ pre post, w.cert = pre ++ addASN1 tCtx0 body ++ post) ∧
          C.rsaVerify c.pub (addASN1 tSET body) s.sig = true ∧
          ∃ v r, readAny a.pkcs.content = some (tSEQ, v, r) ∧ C.sha256 v = att.md ∧
            Spec.spcDigest v = some (a.alg, a.digest) := by
  obtain ⟨w0, ws0, hs, hl⟩ := verify_inv hv
  obtain ⟨w, hw, a, ha, hav⟩ := verifySigs_ok_true hl
  obtain ⟨g1, g2, g3, g4⟩ := Auth.verify_ok hav
  obtain ⟨hp7, _, _⟩ := parseAuthenticode_inv ha
  obtain ⟨der, r0, hra, hspc⟩ := parseAuthenticode_spcDigest ha
  refine ⟨_, w, a, hs, hw, ha, g1, g2, g3, g4, ?_⟩
  -- the PKCS#7 layer (C04)
  unfold P7.verify at g4
  rw [verifySigners_eq_find] at g4
  cases hf : a.pkcs.signers.find? (fun s => s.isCertificate c) with
  | none => simp [hf] at g4
  | some s =>
    simp only [hf] at g4
    have hmem := List.mem_of_find?_eq_some hf
    have hcert : s.isCertificate c = true := by simpa using List.find?_some hf
    obtain ⟨hi, hser⟩ := isCertificate_iff.mp hcert
    obtain ⟨att, hat, ⟨sigdata, hd, hrsa⟩, hdig⟩ := Signer.verify_ok_true_iff.mp g4
    obtain ⟨body, hraw, ⟨pre, post, hsub⟩, _⟩ := parseP7_attrs hp7 hmem hat
    have hsd : sigdata = addASN1 tSET body := by
      rcases hd with h | ⟨h, _⟩
      · rw [hraw] at h; simp at h; exact h.symm
      · rw [hraw] at h; simp at h
    subst hsd
    have hne : a.pkcs.content ≠ [] := by
      intro e; rw [e] at hra; simp [readAny] at hra
    obtain ⟨t, v, r, hr, hmd⟩ := hdig hne
    rw [hra] at hr
    simp only [Option.some.injEq, Prod.mk.injEq] at hr
    obtain ⟨_, rfl, rfl⟩ := hr
    exact ⟨s, hmem, hi, hser, att, body, hat, hraw, ⟨pre, post, hsub⟩, hrsa, der, r0, hra, hmd, hspc⟩

/-- two values with the same certificate table that both verify: the first table entry embeds the
    digest of both hash streams -/
theorem same_table_same_digest {C : Crypto} {ok : Bytes → Bool} {p p' : Parsed} {c c' : Cert}
    (htab : p'.certTable = p.certTable) (hv : p.verify C ok c = .ok true)
    (hv' : p'.verify C ok c' = .ok true) :
    ∃ w ws a, p.signatures = .ok (w :: ws) ∧ parseAuthenticode ok w.cert = some a ∧
      a.digest = C.sha256 (hashStream p) ∧ a.digest = C.sha256 (hashStream p') := by
  obtain ⟨w, ws, hs, hl⟩ := verify_inv hv
  obtain ⟨w', ws', hs', hl'⟩ := verify_inv hv'
  rw [signatures_congr htab, hs] at hs'
  cases hs'
  obtain ⟨a, v, ha, hav⟩ := verifySigs_head hl
  obtain ⟨a', v', ha', hav'⟩ := verifySigs_head hl'
  rw [ha] at ha'
  cases ha'
  exact ⟨w, ws, a, hs, ha, (Auth.verify_ok hav).2.2.1, (Auth.verify_ok hav').2.2.1⟩

/-! ### C02: relation to `Spec.authenticodeVerify` -/

/-- every signature `Signatures()` lists is an entry of the strict walk, with revision 2.0 -/
theorem signatures_sub_entries : ∀ (f : Nat) (t : Bytes) (es : List CertEntry),
    walkTable f t = some es → ∀ (f1 : Nat) (ws : List WinCert), signaturesAux f1 t = .ok ws →
    ∀ w ∈ ws, (⟨w.length, w.rev, w.ctype, w.cert⟩ : CertEntry) ∈ es ∧ w.rev = 0x0200 := by
  intro f
  induction f with
  | zero =>
    intro t es h f1 ws hs w hw
    unfold walkTable at h
    split at h
    · rename_i he
      have : t = [] := by simpa using he
      subst this
      rw [signaturesAux_short f1 (by simp)] at hs
      cases hs; cases hw
    · cases h
  | succ f ih =>
    intro t es h f1 ws hs w hw
    by_cases h8 : t.length ≤ 8
    · rw [signaturesAux_short f1 h8] at hs
      cases hs; cases hw
    · have hne : t ≠ [] := by intro e; subst e; simp at h8
      obtain ⟨_, hl, hfit, es0, h0, rfl⟩ := walkTable_succ_inv h hne
      cases f1 with
      | zero => cases hs; cases hw
      | succ f1 =>
        obtain ⟨w0, rest, ws0, hr, hs0, rfl⟩ := signaturesAux_succ_inv hs (by omega)
        obtain ⟨hent, hrest, hwl, hrev⟩ := readWinCert_head hr
        have hdrop : rest.drop (pad8 w0.length) = t.drop (headSpan t) := by
          rw [hrest, hwl, List.drop_drop]; rfl
        rw [hdrop] at hs0
        rcases List.mem_cons.mp hw with rfl | hw'
        · exact ⟨by rw [hent]; exact List.mem_cons_self, hrev⟩
        · obtain ⟨k1, k2⟩ := ih _ _ h0 f1 ws0 hs0 w hw'
          exact ⟨List.mem_cons_of_mem _ k1, k2⟩

theorem contentOf_eq (blob : Bytes) :
    Spec.contentOf blob = (do
      let (outer, _) ← read tSEQ blob
      let sdBody ← specBody outer
      let (_, r1) ← readBigInt sdBody
      let (_, r2) ← read tSET r1
      let (eci, _) ← read tSEQ r2
      let (oid, e1) ← readOID eci
      let (c, _) ← read tCtx0 e1
      let (_, v, _) ← readAny c
      pure (oid, v)) := rfl

/-- the specification's (eContentType, content value octets) of a blob the implementation parsed -/
theorem contentOf_of_parseP7 {ok : Bytes → Bool} {blob : Bytes} {p : P7}
    (h : parseP7 ok blob = some p) {t : UInt8} {v r0 : Bytes}
    (hc : readAny p.content = some (t, v, r0)) : Spec.contentOf blob = some (p.oid, v) := by
  obtain ⟨r3, r4, sis, z, hh, _, _, _⟩ := parseP7_inv h
  obtain ⟨chk, x, inner, sd, y, ver, r1, dig, r2, o, z', h1, hin, h2, h3, h4, _, h6⟩ :=
    parseHead_inv hh
  obtain ⟨eci, e1, c, k1, k2, k3, k4⟩ := parseContentInfo_inv h6
  have hA := specBody_of_parseHead h1 hin h2
  have h3' := readBigInt_of_readInt64 h3
  rcases readOptional_inv k3 with ⟨rfl, _, _⟩ | ⟨cc, rfl, _, hr, _⟩
  · simp only [Option.getD_none] at k4
    rw [k4] at hc
    simp [readAny] at hc
  · simp only [Option.getD_some] at k4
    rw [k4] at hc
    rw [contentOf_eq]
    simp [h1, hA, h3', h4, k1, k2, hr, hc]

/-- what the implementation accepts, the specification accepts — for a digest function that never
    returns the empty string, on an image whose table walks strictly (the specification, like
    `Verify`, does not constrain wCertificateType) -/
theorem authenticodeVerify_of_verify {C : Crypto} {ok : Bytes → Bool} {b : Bytes} (h : WF b)
    {p : Parsed} (hp : parse b (factsOf b) = .ok p) {c : Cert} {es : List CertEntry}
    (he : certEntries b = some es) (hsha : ∀ x, C.sha256 x ≠ [])
    (hv : p.verify C ok c = .ok true) : Spec.authenticodeVerify C b c = true := by
  obtain ⟨ws, w, a, hs, hw, ha, g1, _, g3, g4, _⟩ := verify_chain hv
  obtain ⟨hp7, hoid, _⟩ := parseAuthenticode_inv ha
  obtain ⟨der, r0, hra, hspc⟩ := parseAuthenticode_spcDigest ha
  obtain ⟨_, _, _, _, _, _, _, f8⟩ := parse_fields h hp
  unfold Parsed.signatures at hs
  rw [f8] at hs
  obtain ⟨hmem, hrev⟩ := signatures_sub_entries _ _ _ (certEntries_walk h he) _ _ hs w hw
  have hcms := cmsVerify_of_verify hsha hp7 g4
  have hco := contentOf_of_parseP7 hp7 hra
  have hstream := hashStream_of_parse h hp
  unfold Spec.authenticodeVerify
  rw [he]
  refine List.any_eq_true.mpr ⟨_, hmem, ?_⟩
  unfold Spec.entryAccepts
  have e1 : (oidSpcIndirectData == Spec.oidSpcIndirectData) = true := by decide
  have e2 : (oidSha256 == Spec.oidSha256) = true := by decide
  simp only [hrev, hcms, hco, hspc, hoid, g1, g3, hstream, e1, e2]
  simp

end PeSign

/-! ### concrete values for the non-vacuity examples of C03 / C02 -/
namespace PeSignEx
open GoUefi.Spec.PE GoUefi.Impl GoUefi.PeExample

/-- what `Parse` returns (a dummy when it fails) -/
def parsed (b : Bytes) : Parsed :=
  match parse b (factsOf b) with
  | .ok p => p
  | _ => ⟨0, 0, [], 0, 0, [], [], [], [], false⟩

theorem parse_img64 : parse img64 (factsOf img64) = .ok (parsed img64) := by decide +kernel
theorem parse_img64s : parse img64s (factsOf img64s) = .ok (parsed img64s) := by decide +kernel

/-- a 3-byte "signature": the entry takes 11 + 5 bytes -/
def sig3 : Bytes := [0xde, 0xad, 0xbe]

/-- a signed image whose only table entry has an empty body (dwLength = 8) -/
def img8 : Bytes := mkImg true 0 (zeros 8) (le32 8 ++ le16 0x0200 ++ le16 2)
theorem wf_img8 : WF img8 := (wfCheck_iff _).mp (by decide +kernel)
theorem parse_img8 : parse img8 (factsOf img8) = .ok (parsed img8) := by decide +kernel


/-! #### a really signed image, under toy cryptography -/

/-- toy cryptography: the digest is the reversed message cut / zero-filled to 32 bytes (so it sees
    the *end* of the message); a signature is valid iff it is the key's modulus byte followed by
    the signed bytes -/
def toy32 : Crypto := ⟨fun x => (x.reverse ++ zeros 32).take 32, fun k m s => s == k.n.toUInt8 :: m⟩
def allOk : Bytes → Bool := fun _ => true
def issuer : Bytes := Der.addASN1 Der.tSEQ []
def cert : Cert := ⟨issuer, 5, ⟨7, 3⟩⟩
/-- another certificate with the same issuer and serial but another key -/
def certOtherKey : Cert := ⟨issuer, 5, ⟨8, 3⟩⟩
/-- "250101000000Z" -/
def time : Bytes := [0x32, 0x35, 0x30, 0x31, 0x30, 0x31, 0x30, 0x30, 0x30, 0x30, 0x30, 0x30, 0x5a]

/-- the SpcIndirectDataContent for `img64` -/
def content0 : Bytes := spcIndirectData (toy32.sha256 (hashStream (parsed img64)))
def attrsB : Bytes :=
  (attrsBody { contentType := some oidSpcIndirectData, md := toy32.sha256 content0, time := some time }).getD []
/-- the Authenticode signature of `img64` by `cert`, as `SignPKCS7` writes it -/
def blob : Bytes :=
  (signPKCS7 oidSpcIndirectData content0 [] issuer 5 time (toy32.sha256 content0)
    (7 :: Der.addASN1 Der.tSET attrsB)).getD []

/-- `img64` signed -/
def imgSigned : Bytes := ((parsed img64).appendSignature blob).bytes
/-- the signature of `img64` transplanted onto `img64'` (which differs in a covered byte) -/
def imgSigned' : Bytes := ((parsed img64').appendSignature blob).bytes
/-- `img64`, padded, with the same signature in an entry of certificate type 0x0EF1 -/
def imgEf : Bytes :=
  mkImg true 0 ([1, 2, 3, 4, 5] ++ zeros 3)
    (writeWinCert ⟨8 + blob.length, 0x0200, 0x0EF1, blob⟩ ++ zeros (pad8 (8 + blob.length)))

theorem wf_imgSigned : WF imgSigned := (wfCheck_iff _).mp (by decide +kernel)
theorem wf_imgSigned' : WF imgSigned' := (wfCheck_iff _).mp (by decide +kernel)
theorem wf_imgEf : WF imgEf := (wfCheck_iff _).mp (by decide +kernel)
theorem parse_imgSigned : parse imgSigned (factsOf imgSigned) = .ok (parsed imgSigned) := by
  decide +kernel
theorem parse_imgSigned' : parse imgSigned' (factsOf imgSigned') = .ok (parsed imgSigned') := by
  decide +kernel
theorem parse_imgEf : parse imgEf (factsOf imgEf) = .ok (parsed imgEf) := by decide +kernel
theorem verify_imgSigned : (parsed imgSigned).verify toy32 allOk cert = .ok true := by decide +kernel

end PeSignEx
end GoUefi
