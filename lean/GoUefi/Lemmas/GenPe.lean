import GoUefi.Gen
import GoUefi.Properties.C01g
import GoUefi.Lemmas.GenAuthDesc
import GoUefi.Lemmas.PeSign
/-!
  The translated signature-table half of `authenticode.PECOFFBinary` (authenticode/checksum.go:
  `AppendSignature`, `Signatures`, `signatureBytes`, `Sign`, `Verify`, `Bytes`, `Open`) of `GoUefi/Gen.lean`
  against the Impl model (`GoUefi/Model/Pe.lean`, `Model/Authenticode.lean`).  Used by `Properties/C03g.lean`.
-/
namespace GoUefi.GenPe
open GoUefi GoUefi.Gen GoUefi.GenCodec GoUefi.GenAuthDesc

/-! ### `uint32(x)` of an `int` -/

theorem toNat_ofInt (i : Int) : (UInt32.ofInt i).toNat = (i % 4294967296).toNat := by
  have h1 : (0 : Int) ≤ i % 4294967296 := Int.emod_nonneg _ (by omega)
  have h2 : i % 4294967296 < 4294967296 := Int.emod_lt_of_pos _ (by omega)
  unfold UInt32.ofInt
  rw [UInt32.toNat_ofNat']
  have : ((2 : Int) ^ 32) = 4294967296 := by decide
  rw [this]
  omega

theorem ofInt_natCast (n : Nat) : UInt32.ofInt (n : Int) = UInt32.ofNat n := by
  apply UInt32.toNat_inj.mp
  rw [toNat_ofInt, UInt32.toNat_ofNat']
  omega

/-- `uint32(SizeofWINCertificate + len(sig))` -/
theorem sigLen_toNat (sig : List UInt8) :
    (UInt32.ofInt (8 + (sig.length : Int))).toNat = (8 + sig.length) % 2 ^ 32 := by
  rw [toNat_ofInt]; omega

theorem sigLen_ofNat (sig : List UInt8) :
    UInt32.ofInt (8 + (sig.length : Int)) = UInt32.ofNat (8 + sig.length) := by
  have : (8 + (sig.length : Int)) = ((8 + sig.length : Nat) : Int) := by omega
  rw [this, ofInt_natCast]

/-! ### `AppendSignature` -/

/-- the whole effect of the translated `AppendSignature`, in `uint32` arithmetic, for every receiver and every
    signature: one equation -/
theorem append_eq (p : authenticode.PECOFFBinary) (sig : List UInt8) :
    let L : UInt32 := UInt32.ofInt (8 + (sig.length : Int))
    let padn := pad8 L.toNat
    let dd' : pe.DataDirectory :=
      if p.Datadir.VirtualAddress ≠ 0 ∧ p.Datadir.Size ≠ 0 then
        ⟨p.Datadir.VirtualAddress, p.Datadir.Size + L + UInt32.ofNat padn⟩
      else ⟨UInt32.ofInt p.length, L + UInt32.ofNat padn⟩
    p.AppendSignature sig =
      ({ p with Datadir := dd',
                certTable := p.certTable ++ Impl.writeWinCert ⟨L.toNat, 0x0200, 2, sig⟩ ++ zeros padn,
                optDataDir := ⟨le32 dd'.VirtualAddress.toNat ++ le32 dd'.Size.toNat⟩ }, none) := by
  intro L padn dd'
  have hL : L.toNat < 2 ^ 62 := Nat.lt_of_lt_of_le L.toNat_lt (by decide)
  have hpad := C01.C01g_padding_model L.toNat hL
  unfold authenticode.PECOFFBinary.AppendSignature
  simp only [lenI_eq]
  rw [hpad]
  simp only [writeWinCert_tie, aWC, ofInt_natCast, authenticode.sectionReaderFromBytes,
    encLE_pe_DataDirectory, encLE32_eq, List.nil_append, Option.isSome_none, Bool.false_eq_true, if_false]
  by_cases hc : p.Datadir.VirtualAddress ≠ 0 ∧ p.Datadir.Size ≠ 0
  · have hb : (p.Datadir.VirtualAddress != 0 && p.Datadir.Size != 0) = true := by simp [hc.1, hc.2]
    simp only [hb, if_true, dd', if_pos hc]
    rfl
  · have hb : ¬ ((p.Datadir.VirtualAddress != 0 && p.Datadir.Size != 0) = true) := by
      intro h; apply hc; simpa using h
    simp only [hb, dd', if_neg hc]
    rfl

/-! ### the walk of `Signatures()` -/

/-- the loop of `Signatures()` started with an empty result list -/
abbrev walk (fuel : Nat) (t : List UInt8) := authenticode.PECOFFBinary.Signatures.loop1 fuel [] t

/-- prefix the list of a completed walk -/
def shift (acc : List signature.WINCertificate) :
    Loop (List signature.WINCertificate × GoErr) (List signature.WINCertificate × List UInt8) →
    Loop (List signature.WINCertificate × GoErr) (List signature.WINCertificate × List UInt8)
  | Loop.ret r => Loop.ret r
  | Loop.done m => Loop.done (acc ++ m.1, m.2)

theorem shift_shift (a b : List signature.WINCertificate) (x) : shift a (shift b x) = shift (a ++ b) x := by
  cases x with
  | ret r => rfl
  | done m => simp [shift, List.append_assoc]

theorem shift_nil (x) : shift [] x = x := by
  cases x with
  | ret r => rfl
  | done m => simp [shift]

/-- `reader.Read(make([]byte, k))` skips `k` bytes (fewer when fewer are left) -/
theorem rdrRead_skip (k : Nat) (f : List UInt8) : (rdrRead (List.replicate k (0 : UInt8)) f).2.1 = f.drop k := by
  cases f with
  | nil => simp [rdrRead]
  | cons a f => simp [rdrRead]

theorem padding_size (L : UInt32) : (authenticode.PaddingBytes (L.toNat : Int) 8).2.toNat = pad8 L.toNat := by
  have hL : L.toNat < 2 ^ 62 := Nat.lt_of_lt_of_le L.toNat_lt (by decide)
  rw [C01.C01g_padding_model L.toNat hL]
  exact Int.toNat_natCast _

theorem loop_zero (acc : List signature.WINCertificate) (t : List UInt8) :
    authenticode.PECOFFBinary.Signatures.loop1 0 acc t = Loop.ret ([], some "go2lean:out-of-fuel") := rfl

/-- at most 8 bytes left: the loop ends -/
theorem loop_short (f : Nat) (acc : List signature.WINCertificate) {t : List UInt8} (h : t.length ≤ 8) :
    authenticode.PECOFFBinary.Signatures.loop1 (f + 1) acc t = Loop.done (acc, t) := by
  unfold authenticode.PECOFFBinary.Signatures.loop1
  have : ¬ ((t.length : Int) > 8) := by omega
  simp only [lenI_eq, this, decide_false, Bool.false_eq_true, if_false]

/-- more than 8 bytes left and `ReadWinCertificate` fails: its error, wrapped, and an empty list -/
theorem loop_err (f : Nat) (acc : List signature.WINCertificate) {t rest : List UInt8}
    {w : signature.WINCertificate} {e : String} (h : 8 < t.length)
    (hr : signature.ReadWinCertificate t = (rest, w, some e)) :
    authenticode.PECOFFBinary.Signatures.loop1 (f + 1) acc t = Loop.ret ([], goWrap (some e)) := by
  unfold authenticode.PECOFFBinary.Signatures.loop1
  have : ((t.length : Int) > 8) := by omega
  simp only [lenI_eq, this, decide_true, if_true, hr, Option.isSome_some]

/-- more than 8 bytes left and `ReadWinCertificate` succeeds: the entry is listed, `pad8 dwLength` bytes are
    skipped, the loop goes on behind them -/
theorem loop_ok (f : Nat) (acc : List signature.WINCertificate) {t rest : List UInt8}
    {w : signature.WINCertificate} (h : 8 < t.length)
    (hr : signature.ReadWinCertificate t = (rest, w, none)) :
    authenticode.PECOFFBinary.Signatures.loop1 (f + 1) acc t =
      authenticode.PECOFFBinary.Signatures.loop1 f (acc ++ [w]) (rest.drop (pad8 w.Length.toNat)) := by
  conv => lhs; unfold authenticode.PECOFFBinary.Signatures.loop1
  have : ((t.length : Int) > 8) := by omega
  simp only [lenI_eq, this, decide_true, if_true, hr, Option.isSome_none, Bool.false_eq_true, if_false,
    rdrRead_skip, padding_size]

/-- the result list is only ever appended to -/
theorem loop_shift : ∀ (f : Nat) (acc : List signature.WINCertificate) (t : List UInt8),
    authenticode.PECOFFBinary.Signatures.loop1 f acc t = shift acc (walk f t) := by
  intro f
  induction f with
  | zero => intro acc t; rfl
  | succ f ih =>
    intro acc t
    by_cases h : t.length ≤ 8
    · rw [walk, loop_short f acc h, loop_short f [] h]; simp [shift]
    · have h8 : 8 < t.length := by omega
      rcases hr : signature.ReadWinCertificate t with ⟨rest, w, e⟩
      cases e with
      | some e => rw [walk, loop_err f acc h8 hr, loop_err f [] h8 hr]; rfl
      | none =>
        rw [walk, loop_ok f acc h8 hr, loop_ok f [] h8 hr, ih, ih ([] ++ [w]), shift_shift]
        simp

/-- a `return` inside the loop: an empty list and an error -/
theorem walk_ret_shape : ∀ (f : Nat) (t : List UInt8) (r : List signature.WINCertificate × GoErr),
    walk f t = Loop.ret r → ∃ e, r = ([], some e) := by
  intro f
  induction f with
  | zero => intro t r h; rw [walk, loop_zero] at h; cases h; exact ⟨_, rfl⟩
  | succ f ih =>
    intro t r h
    by_cases hs : t.length ≤ 8
    · rw [walk, loop_short f [] hs] at h; cases h
    · rcases hr : signature.ReadWinCertificate t with ⟨rest, w, e⟩
      cases e with
      | some e =>
        rw [walk, loop_err f [] (by omega) hr] at h
        cases h
        exact ⟨_, rfl⟩
      | none =>
        rw [walk, loop_ok f [] (by omega) hr, loop_shift] at h
        cases hw : walk f (rest.drop (pad8 w.Length.toNat)) with
        | ret r' =>
          rw [hw] at h
          simp only [shift, Loop.ret.injEq] at h
          subst h
          exact ih _ _ hw
        | done m => rw [hw] at h; simp [shift] at h

/-- what a successful `ReadWinCertificate` consumed: at least the 8 header bytes, exactly `dwLength` bytes -/
theorem read_ok_rest {t rest : List UInt8} {w : signature.WINCertificate}
    (hr : signature.ReadWinCertificate t = (rest, w, none)) :
    Impl.readWinCert t = .ok (aWC w, rest) ∧ 8 ≤ w.Length.toNat ∧ w.Length.toNat ≤ t.length ∧
      rest = t.drop w.Length.toNat ∧ w.Certificate.length + 8 = w.Length.toNat := by
  have h := readWinCert_tie t
  cases hm : Impl.readWinCert t with
  | ok q =>
    obtain ⟨mw, mrest⟩ := q
    rw [hm] at h
    obtain ⟨gw', hg, ha⟩ := h
    rw [hr] at hg
    cases hg
    obtain ⟨l, rv, ct, r3, rfl, hl, hrv, hct, _, h8, hb, hw, rfl⟩ := Impl.readWinCert_ok hm
    have hlen : w.Length.toNat = rd32 l := by
      have := congrArg Impl.WinCert.length (ha.trans hw); simpa [aWC] using this
    have hcert : w.Certificate = r3.take (rd32 l - 8) := by
      have := congrArg Impl.WinCert.cert (ha.trans hw); simpa [aWC] using this
    have e8 : l ++ (rv ++ (ct ++ r3)) = (l ++ (rv ++ ct)) ++ r3 := by simp only [List.append_assoc]
    have l8 : (l ++ (rv ++ ct)).length = 8 := by simp [hl, hrv, hct]
    have dr : (l ++ (rv ++ (ct ++ r3))).drop (rd32 l) = r3.drop (rd32 l - 8) := by
      rw [e8, List.drop_append, l8, List.drop_of_length_le (by omega), List.nil_append]
    have tl : (l ++ (rv ++ (ct ++ r3))).length = 8 + r3.length := by
      simp only [List.length_append, hl, hrv, hct]; omega
    refine ⟨by rw [ha], by omega, by rw [tl]; omega, ?_, ?_⟩
    · rw [hlen, dr]
    · rw [hcert, hlen, List.length_take]; omega
  | err => rw [hm] at h; obtain ⟨_, _, e, he⟩ := h; rw [hr] at he; cases he
  | panic => rw [hm] at h; obtain ⟨_, _, e, he⟩ := h; rw [hr] at he; cases he
  | exit => rw [hm] at h; obtain ⟨_, _, e, he⟩ := h; rw [hr] at he; cases he

theorem read_err_model {t rest : List UInt8} {w : signature.WINCertificate} {e : String}
    (hr : signature.ReadWinCertificate t = (rest, w, some e)) : Impl.readWinCert t = .err := by
  have h := readWinCert_tie t
  cases hm : Impl.readWinCert t with
  | ok q =>
    obtain ⟨mw, mrest⟩ := q
    rw [hm] at h
    obtain ⟨gw', hg, _⟩ := h
    rw [hr] at hg
    cases hg
  | err => rfl
  | panic => exact absurd hm (readWinCert_returns t).1
  | exit => exact absurd hm (readWinCert_returns t).2

/-- the error of a failed walk is the wrapped error of `ReadWinCertificate`, never the out-of-fuel value -/
theorem goWrap_ne_fuel (e : String) : goWrap (some e) ≠ some "go2lean:out-of-fuel" := by
  simp only [goWrap, Option.map_some]
  intro h
  have h' := Option.some.inj h
  split at h'
  · rename_i hs; rw [h'] at hs; revert hs; decide +kernel
  · have : ("%w:" ++ e).toList = "go2lean:out-of-fuel".toList := by rw [h']
    rw [String.toList_append] at this
    revert this; simp

/-- **refinement**: with enough fuel on both sides the translated loop computes what the model's walker
    (`Impl.signaturesAux`) computes: the same entries (through `aWC`), at most 8 bytes left over; an error exactly
    when the model reports one, with an empty list; never out of fuel -/
theorem walk_model : ∀ (f m : Nat) (t : List UInt8), t.length < f → t.length ≤ m →
    match Impl.signaturesAux m t with
    | .ok ws => ∃ gws rest, walk f t = Loop.done (gws, rest) ∧ gws.map aWC = ws ∧ rest.length ≤ 8
    | _ => ∃ t' r w e, signature.ReadWinCertificate t' = (r, w, some e) ∧
        walk f t = Loop.ret ([], goWrap (some e)) := by
  intro f
  induction f with
  | zero => intro m t h; omega
  | succ f ih =>
    intro m t hf hm
    by_cases h : t.length ≤ 8
    · rw [PeSign.signaturesAux_short m h]
      exact ⟨[], t, loop_short f [] h, rfl, h⟩
    · have h8 : 8 < t.length := by omega
      obtain ⟨m', rfl⟩ : ∃ k, m = k + 1 := ⟨m - 1, by omega⟩
      rcases hr : signature.ReadWinCertificate t with ⟨rest, w, e⟩
      cases e with
      | some e =>
        have hme := read_err_model hr
        unfold Impl.signaturesAux
        rw [if_neg (by omega), hme]
        exact ⟨t, rest, w, e, hr, loop_err f [] h8 hr⟩
      | none =>
        obtain ⟨hmod, hL8, hLt, hrest, _⟩ := read_ok_rest hr
        have hlen : (rest.drop (pad8 w.Length.toNat)).length ≤ t.length - 8 := by
          rw [List.length_drop, hrest, List.length_drop]; omega
        have hstep := ih m' (rest.drop (pad8 w.Length.toNat)) (by omega) (by omega)
        unfold Impl.signaturesAux
        rw [if_neg (by omega), hmod]
        simp only
        have ew : (aWC w).length = w.Length.toNat := rfl
        rw [ew]
        rw [walk, loop_ok f [] h8 hr, loop_shift]
        cases hs : Impl.signaturesAux m' (rest.drop (pad8 w.Length.toNat)) with
        | ok ws =>
          rw [hs] at hstep
          obtain ⟨gws, r, hw, hmap, hr8⟩ := hstep
          refine ⟨w :: gws, r, ?_, ?_, hr8⟩
          · rw [hw]; simp [shift]
          · simp [hmap]
        | err =>
          rw [hs] at hstep
          obtain ⟨t', r, w', e, hre, hw⟩ := hstep
          exact ⟨t', r, w', e, hre, by rw [hw]; rfl⟩
        | panic =>
          rw [hs] at hstep
          obtain ⟨t', r, w', e, hre, hw⟩ := hstep
          exact ⟨t', r, w', e, hre, by rw [hw]; rfl⟩
        | exit =>
          rw [hs] at hstep
          obtain ⟨t', r, w', e, hre, hw⟩ := hstep
          exact ⟨t', r, w', e, hre, by rw [hw]; rfl⟩

/-! ### tables that the walk consumes exactly -/

/-- the walk of `Signatures()` lists `ws` for the table `t` and consumes it to its last byte: every entry is read by
    `ReadWinCertificate` while more than 8 bytes are left, and is followed by its complete padding to 8 -/
inductive WalksTo : List UInt8 → List signature.WINCertificate → Prop
  | nil : WalksTo [] []
  | cons {t rest : List UInt8} {w : signature.WINCertificate} {ws : List signature.WINCertificate} :
      8 < t.length → signature.ReadWinCertificate t = (rest, w, none) → pad8 w.Length.toNat ≤ rest.length →
      WalksTo (rest.drop (pad8 w.Length.toNat)) ws → WalksTo t (w :: ws)

theorem WalksTo.walk {t : List UInt8} {ws : List signature.WINCertificate} (h : WalksTo t ws) :
    ∀ f, ws.length < f → walk f t = Loop.done (ws, []) := by
  induction h with
  | nil => intro f hf; obtain ⟨f', rfl⟩ : ∃ k, f = k + 1 := ⟨f - 1, by omega⟩; exact loop_short f' [] (by simp)
  | cons h8 hr _ _ ih =>
    intro f hf
    obtain ⟨f', rfl⟩ : ∃ k, f = k + 1 := ⟨f - 1, by omega⟩
    rw [GenPe.walk, loop_ok f' [] h8 hr, loop_shift, ih f' (by simp at hf; omega)]
    simp [shift]

/-- reading an entry in front of more bytes -/
theorem read_append {t rest : List UInt8} {w : signature.WINCertificate}
    (hr : signature.ReadWinCertificate t = (rest, w, none)) (e : List UInt8) :
    signature.ReadWinCertificate (t ++ e) = (rest ++ e, w, none) := by
  obtain ⟨hm, _, _, _, _⟩ := read_ok_rest hr
  have hm' := PeSign.readWinCert_append hm e
  have h := readWinCert_tie (t ++ e)
  rw [hm'] at h
  obtain ⟨gw', hg, ha⟩ := h
  rw [hg]
  have hw : gw' = w := by
    have h0 := readWinCert_tie t
    rw [hm] at h0
    obtain ⟨gw0, hg0, _⟩ := h0
    rw [hr] at hg0
    cases hg0
    cases gw' with
    | mk a b c d =>
      cases w with
      | mk a' b' c' d' =>
        simp only [aWC, Impl.WinCert.mk.injEq] at ha
        obtain ⟨h1, h2, h3, h4⟩ := ha
        rw [UInt32.toNat_inj.mp h1, UInt16.toNat_inj.mp h2, UInt16.toNat_inj.mp h3, h4]
  rw [hw]

theorem WalksTo.append {t : List UInt8} {ws : List signature.WINCertificate} (h : WalksTo t ws)
    {e : List UInt8} {ws' : List signature.WINCertificate} (he : WalksTo e ws') : WalksTo (t ++ e) (ws ++ ws') := by
  induction h with
  | nil => simpa using he
  | cons h8 hr hp _ ih =>
    rename_i t rest w ws
    refine WalksTo.cons (by simp; omega) (read_append hr e) (by simp; omega) ?_
    rw [List.drop_append_of_le_length hp]
    exact ih

/-- the entry that `AppendSignature` writes for a non-empty signature of less than 2^32 - 8 bytes -/
theorem walksTo_entry (sig : List UInt8) (hne : sig ≠ []) (h32 : 8 + sig.length < 2 ^ 32) :
    WalksTo (Impl.writeWinCert ⟨8 + sig.length, 0x0200, 2, sig⟩ ++ zeros (pad8 (8 + sig.length)))
      [⟨UInt32.ofNat (8 + sig.length), 0x0200, 2, sig⟩] := by
  have hpos : 0 < sig.length := List.length_pos_iff.mpr hne
  have hm := PeSign.readWinCert_sigEntry sig h32
  unfold PeSign.sigEntry at hm
  have h := readWinCert_tie (Impl.writeWinCert ⟨8 + sig.length, 0x0200, 2, sig⟩ ++ zeros (pad8 (8 + sig.length)))
  rw [hm] at h
  obtain ⟨gw', hg, ha⟩ := h
  have hL : (UInt32.ofNat (8 + sig.length)).toNat = 8 + sig.length := by
    rw [UInt32.toNat_ofNat']; exact Nat.mod_eq_of_lt h32
  have hw : gw' = ⟨UInt32.ofNat (8 + sig.length), 0x0200, 2, sig⟩ := by
    cases gw' with
    | mk a b c d =>
      simp only [aWC, Impl.WinCert.mk.injEq] at ha
      obtain ⟨h1, h2, h3, h4⟩ := ha
      have e1 : a = UInt32.ofNat (8 + sig.length) := UInt32.toNat_inj.mp (by rw [h1, hL])
      have e2 : b = 0x0200 := UInt16.toNat_inj.mp (by rw [h2]; rfl)
      have e3 : c = 2 := UInt16.toNat_inj.mp (by rw [h3]; rfl)
      rw [e1, e2, e3, h4]
  rw [hw] at hg
  refine WalksTo.cons ?_ hg ?_ ?_
  · simp [Impl.writeWinCert, le32, le16, zeros]; omega
  · simp only [hL]; simp [zeros]
  · simp only [hL]
    have : (zeros (pad8 (8 + sig.length))).drop (pad8 (8 + sig.length)) = [] := by simp [zeros]
    rw [this]
    exact WalksTo.nil

/-- a completed walk that leaves nothing over, on a table whose length is a multiple of 8, is an exact walk (every
    padding was there in full) -/
theorem walksTo_of_walk : ∀ (f : Nat) (t : List UInt8) (ws : List signature.WINCertificate),
    walk f t = Loop.done (ws, []) → t.length % 8 = 0 → WalksTo t ws := by
  intro f
  induction f with
  | zero => intro t ws h; cases h
  | succ f ih =>
    intro t ws h h8m
    by_cases hs : t.length ≤ 8
    · rw [GenPe.walk, loop_short f [] hs] at h
      cases h
      exact WalksTo.nil
    · have h8 : 8 < t.length := by omega
      rcases hr : signature.ReadWinCertificate t with ⟨rest, w, e⟩
      cases e with
      | some e => rw [GenPe.walk, loop_err f [] h8 hr] at h; cases h
      | none =>
        rw [GenPe.walk, loop_ok f [] h8 hr, loop_shift] at h
        obtain ⟨_, hL8, hLt, hrest, _⟩ := read_ok_rest hr
        have hrl : rest.length = t.length - w.Length.toNat := by rw [hrest, List.length_drop]
        cases hw : GenPe.walk f (rest.drop (pad8 w.Length.toNat)) with
        | ret r => rw [hw] at h; cases h
        | done m =>
          obtain ⟨ws0, r0⟩ := m
          rw [hw] at h
          simp only [shift, List.nil_append, Loop.done.injEq, Prod.mk.injEq] at h
          obtain ⟨rfl, rfl⟩ := h
          by_cases hp : pad8 w.Length.toNat ≤ rest.length
          · refine WalksTo.cons h8 hr hp (ih _ _ hw ?_)
            rw [List.length_drop, hrl]
            unfold pad8 at hp ⊢
            omega
          · -- the padding of the last entry is cut short: the table is not a multiple of 8 bytes long
            exfalso
            unfold pad8 at hp
            omega

end GoUefi.GenPe
