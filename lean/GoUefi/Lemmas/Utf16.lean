import GoUefi.Model.Utf16
import GoUefi.Lemmas.Bytes
namespace GoUefi

theorem char_bounds (c : Char) : c.toNat < 0xD800 ∨ (0xDFFF < c.toNat ∧ c.toNat < 0x110000) := by
  have h := c.valid
  unfold UInt32.isValidChar Nat.isValidChar at h
  exact h

theorem utf16dec_encChar_append (c : Char) (rest : List Nat) :
    utf16dec (encChar c ++ rest) = c :: utf16dec rest := by
  have hb := char_bounds c
  unfold encChar
  split
  · rename_i h
    cases rest with
    | nil =>
      simp only [List.singleton_append, utf16dec]
      have : ¬ (0xD800 ≤ c.toNat ∧ c.toNat < 0xE000) := by omega
      simp [this, Char.ofNat_toNat]
    | cons v rest =>
      simp only [List.singleton_append, utf16dec]
      have h2 : ¬ (0xD800 ≤ c.toNat ∧ c.toNat < 0xE000) := by omega
      simp [h2, Char.ofNat_toNat]
  · rename_i h
    simp only [List.cons_append, List.nil_append, utf16dec]
    have hc : c.toNat < 0x110000 := by omega
    have h1 : 0xD800 ≤ 0xD800 + (c.toNat - 0x10000) / 1024 ∧ 0xD800 + (c.toNat - 0x10000) / 1024 < 0xE000 := by omega
    have h2 : 0xDC00 ≤ 0xDC00 + (c.toNat - 0x10000) % 1024 ∧ 0xDC00 + (c.toNat - 0x10000) % 1024 < 0xE000 := by omega
    have h3 : 0xD800 + (c.toNat - 0x10000) / 1024 < 0xDC00 := by omega
    rw [if_pos h1, if_pos h2, if_pos h3]
    have : 0x10000 + (0xD800 + (c.toNat - 0x10000) / 1024 - 0xD800) * 1024 +
        (0xDC00 + (c.toNat - 0x10000) % 1024 - 0xDC00) = c.toNat := by omega
    rw [this, Char.ofNat_toNat]

theorem utf16dec_enc_append (s : List Char) (rest : List Nat) :
    utf16dec (utf16enc s ++ rest) = s ++ utf16dec rest := by
  induction s with
  | nil => simp [utf16enc]
  | cons c cs ih =>
    simp only [utf16enc, List.flatMap_cons, List.append_assoc] at *
    rw [utf16dec_encChar_append, ih]; rfl

theorem encChar_lt (c : Char) : ∀ u ∈ encChar c, u < 65536 := by
  have hb := char_bounds c
  unfold encChar
  split <;> (intro u hu; simp at hu; omega)

theorem utf16enc_lt (s : List Char) : ∀ u ∈ utf16enc s, u < 65536 := by
  intro u hu
  simp only [utf16enc, List.mem_flatMap] at hu
  obtain ⟨c, _, h⟩ := hu
  exact encChar_lt c u h

theorem bytesToUnits_le16 (u : Nat) (h : u < 65536) (r : Bytes) :
    bytesToUnits (le16 u ++ r) = (u :: (bytesToUnits r).1, (bytesToUnits r).2) := by
  simp only [le16, List.cons_append, List.nil_append, bytesToUnits]
  rw [toUInt8_toNat_of_lt _ (by omega), toUInt8_toNat_of_lt _ (by omega)]
  have : u % 256 + 256 * (u / 256 % 256) = u := by omega
  rw [this]

theorem bytesToUnits_units (us : List Nat) (h : ∀ u ∈ us, u < 65536) (r : Bytes) :
    bytesToUnits (unitsToBytes us ++ r) = (us ++ (bytesToUnits r).1, (bytesToUnits r).2) := by
  induction us with
  | nil => simp [unitsToBytes]
  | cons u us ih =>
    simp only [unitsToBytes, List.flatMap_cons, List.append_assoc] at *
    rw [bytesToUnits_le16 u (h u (by simp))]
    rw [ih (fun x hx => h x (by simp [hx]))]
    simp

theorem dropWhile_nul_of_free (s : List Char) (h : ∀ c ∈ s, c ≠ '\x00') :
    s.dropWhile (· == '\x00') = s := by
  cases s with
  | nil => rfl
  | cons c cs =>
    have : (c == '\x00') = false := by simpa using h c (by simp)
    simp [List.dropWhile, this]

theorem trimNul_append_nul (s : List Char) (h : ∀ c ∈ s, c ≠ '\x00') :
    trimNul (s ++ ['\x00']) = s := by
  unfold trimNul
  cases s with
  | nil => simp [List.dropWhile]
  | cons c cs =>
    have hc : c ≠ '\x00' := h c (by simp)
    have h1 : ((c :: cs) ++ ['\x00']).dropWhile (· == '\x00') = (c :: cs) ++ ['\x00'] := by
      simp [hc]
    rw [h1]
    have h2 : ((c :: cs) ++ ['\x00']).reverse = '\x00' :: (c :: cs).reverse := by simp
    rw [h2]
    have h3 : ('\x00' :: (c :: cs).reverse).dropWhile (· == '\x00') = (c :: cs).reverse.dropWhile (· == '\x00') := by
      simp [List.dropWhile]
    rw [h3, dropWhile_nul_of_free _ (by intro x hx; exact h x (List.mem_reverse.mp hx))]
    simp

theorem decode_marshal (s : List Char) : decodeUtf16Bytes (marshalUtf16 s) = s ++ ['\x00'] := by
  unfold decodeUtf16Bytes marshalUtf16
  rw [bytesToUnits_units _ (utf16enc_lt s)]
  simp only [bytesToUnits]
  have : (0:UInt8).toNat + 256 * (0:UInt8).toNat = 0 := by decide
  simp only [this, List.append_nil, if_false, Bool.false_eq_true]
  rw [utf16dec_enc_append]
  simp [utf16dec]

theorem parseUtf16_marshal (s : List Char) (h : ∀ c ∈ s, c ≠ '\x00') :
    parseUtf16 (marshalUtf16 s) = .ok s := by
  unfold parseUtf16
  simp only [decode_marshal, List.getLast?_append, List.getLast?_singleton, Option.some_or]
  simp [trimNul_append_nul s h]

end GoUefi

namespace GoUefi

theorem encChar_pos (c : Char) (hc : c ≠ '\x00') : ∀ u ∈ encChar c, 0 < u := by
  have hne : c.toNat ≠ 0 := by
    intro h
    apply hc
    have : c = Char.ofNat c.toNat := (Char.ofNat_toNat c).symm
    rw [this, h]
  unfold encChar
  split <;> (intro u hu; simp at hu; omega)

theorem utf16enc_pos (s : List Char) (h : ∀ c ∈ s, c ≠ '\x00') : ∀ u ∈ utf16enc s, 0 < u := by
  intro u hu
  simp only [utf16enc, List.mem_flatMap] at hu
  obtain ⟨c, hc, hu⟩ := hu
  exact encChar_pos c (h c hc) u hu

theorem readNullString_le16 (u : Nat) (h0 : 0 < u) (h : u < 65536) (r : Bytes) :
    readNullString (le16 u ++ r) = (le16 u ++ (readNullString r).1, (readNullString r).2) := by
  simp only [le16, List.cons_append, List.nil_append, readNullString]
  have hne : ¬ (((u % 256).toUInt8 == 0 && (u / 256 % 256).toUInt8 == 0) = true) := by
    intro hh
    simp only [Bool.and_eq_true, beq_iff_eq] at hh
    have h1 := congrArg UInt8.toNat hh.1
    have h2 := congrArg UInt8.toNat hh.2
    rw [toUInt8_toNat_of_lt _ (by omega)] at h1 h2
    simp at h1 h2
    omega
  simp [hne]

theorem readNullString_units (us : List Nat) (h0 : ∀ u ∈ us, 0 < u) (h : ∀ u ∈ us, u < 65536)
    (tail : Bytes) :
    readNullString (unitsToBytes us ++ ([0, 0] ++ tail)) = (unitsToBytes us ++ [0, 0], tail) := by
  induction us with
  | nil => simp [unitsToBytes, readNullString]
  | cons u us ih =>
    simp only [unitsToBytes, List.flatMap_cons, List.append_assoc] at *
    rw [readNullString_le16 u (h0 u (by simp)) (h u (by simp))]
    rw [ih (fun x hx => h0 x (by simp [hx])) (fun x hx => h x (by simp [hx]))]

theorem efistring_marshal (s : List Char) (h : ∀ c ∈ s, c ≠ '\x00') (tail : Bytes) :
    efistringUnmarshal (marshalUtf16 s ++ tail) = .ok s := by
  unfold efistringUnmarshal
  have : marshalUtf16 s ++ tail = unitsToBytes (utf16enc s) ++ ([0, 0] ++ tail) := by
    simp [marshalUtf16]
  rw [this, readNullString_units _ (utf16enc_pos s h) (utf16enc_lt s)]
  exact parseUtf16_marshal s h

end GoUefi
