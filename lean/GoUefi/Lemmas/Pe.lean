import GoUefi.Lemmas.Bytes
import GoUefi.Model.Pe
/-!
  Helper lemmas for property C01 (Authenticode PE hash input).
  Spec: `GoUefi/Spec/Pe.lean`; model of the Go code: `GoUefi/Model/Pe.lean`.
-/
namespace GoUefi
/- generic byte-string lemmas live in `GoUefi.PeAux` so that they cannot clash with other files -/
namespace PeAux

/-! ### slices and positional agreement -/

/-- agreement on a range follows from equal slices -/
theorem agree_of_slice_eq {a b : Bytes} {i j p : Nat} (h : slice a i j = slice b i j)
    (hp : i ≤ p) (hpj : p < j) : a[p]? = b[p]? := by
  have h1 := slice_getElem? a i j (p - i) (by omega)
  have h2 := slice_getElem? b i j (p - i) (by omega)
  have : i + (p - i) = p := by omega
  rw [this] at h1 h2
  rw [← h1, ← h2, h]

/-- equal slices follow from agreement on the range -/
theorem slice_congr {a b : Bytes} {i j : Nat} (h : ∀ p, i ≤ p → p < j → a[p]? = b[p]?) :
    slice a i j = slice b i j := by
  apply List.ext_getElem?
  intro k
  by_cases hk : i + k < j
  · rw [slice_getElem? a i j k hk, slice_getElem? b i j k hk]
    exact h _ (by omega) hk
  · have la : (slice a i j).length ≤ k := by simp; omega
    have lb : (slice b i j).length ≤ k := by simp; omega
    rw [List.getElem?_eq_none la, List.getElem?_eq_none lb]

/-- smaller slices of equal slices are equal -/
theorem slice_sub {a b : Bytes} {i j i' j' : Nat} (h : slice a i j = slice b i j)
    (h1 : i ≤ i') (h2 : j' ≤ j) : slice a i' j' = slice b i' j' :=
  slice_congr fun _ hp hpj => agree_of_slice_eq h (by omega) (by omega)

theorem byteAt_congr {a b : Bytes} {o} (h : a[o]? = b[o]?) : byteAt a o = byteAt b o := by
  simp [byteAt, h]

theorem le32At_agree {a b : Bytes} {o : Nat} (h : ∀ p, o ≤ p → p < o + 4 → a[p]? = b[p]?) :
    le32At a o = le32At b o := by
  simp only [le32At]
  rw [byteAt_congr (h o (by omega) (by omega)), byteAt_congr (h (o+1) (by omega) (by omega)),
      byteAt_congr (h (o+2) (by omega) (by omega)), byteAt_congr (h (o+3) (by omega) (by omega))]

theorem le16At_agree {a b : Bytes} {o : Nat} (h : ∀ p, o ≤ p → p < o + 2 → a[p]? = b[p]?) :
    le16At a o = le16At b o := by
  simp only [le16At]
  rw [byteAt_congr (h o (by omega) (by omega)), byteAt_congr (h (o+1) (by omega) (by omega))]

theorem le32At_congr {a b : Bytes} {i j o : Nat} (h : slice a i j = slice b i j)
    (h1 : i ≤ o) (h2 : o + 4 ≤ j) : le32At a o = le32At b o :=
  le32At_agree fun _ hp hpj => agree_of_slice_eq h (by omega) (by omega)

theorem le16At_congr {a b : Bytes} {i j o : Nat} (h : slice a i j = slice b i j)
    (h1 : i ≤ o) (h2 : o + 2 ≤ j) : le16At a o = le16At b o :=
  le16At_agree fun _ hp hpj => agree_of_slice_eq h (by omega) (by omega)

theorem flatten_map_inj {α} (l : List α) (f g : α → Bytes)
    (hlen : ∀ x ∈ l, (f x).length = (g x).length) (r1 r2 : Bytes)
    (h : (l.map f).flatten ++ r1 = (l.map g).flatten ++ r2) :
    (∀ x ∈ l, f x = g x) ∧ r1 = r2 := by
  induction l with
  | nil => simpa using h
  | cons x xs ih =>
    simp only [List.map_cons, List.flatten_cons, List.append_assoc] at h
    have hx := hlen x (by simp)
    obtain ⟨h1, h2⟩ := List.append_inj h hx
    obtain ⟨h3, h4⟩ := ih (fun y hy => hlen y (by simp [hy])) h2
    exact ⟨by intro y hy; rcases List.mem_cons.mp hy with rfl | hy; exact h1; exact h3 y hy, h4⟩

theorem take_slice0 (b : Bytes) (k j : Nat) (h : k ≤ j) : (slice b 0 j).take k = slice b 0 k := by
  simp [slice, List.take_take, Nat.min_eq_left h]

theorem slice0_of_append_eq {a b : Bytes} {ja jb k : Nat} {ra rb : Bytes}
    (h : slice a 0 ja ++ ra = slice b 0 jb ++ rb)
    (ha : k ≤ ja) (hb : k ≤ jb) (la : k ≤ a.length) (lb : k ≤ b.length) :
    slice a 0 k = slice b 0 k := by
  have := congrArg (List.take k) h
  rw [List.take_append_of_le_length (by simp; omega), List.take_append_of_le_length (by simp; omega),
      take_slice0 _ _ _ ha, take_slice0 _ _ _ hb] at this
  exact this

/-! ### zero padding -/

theorem getElem?_zeros (k i : Nat) : (zeros k)[i]?.getD 0 = 0 := by
  unfold zeros
  by_cases h : i < k
  · simp [h]
  · simp [h]

/-- reading a byte (with the out-of-range default 0) does not see zero padding -/
theorem byteAt_append_zeros (b : Bytes) (k o : Nat) : byteAt (b ++ zeros k) o = byteAt b o := by
  unfold byteAt
  by_cases h : o < b.length
  · rw [List.getElem?_append_left h]
  · rw [List.getElem?_append_right (by omega), getElem?_zeros, List.getElem?_eq_none (by omega)]
    rfl

theorem le16At_append_zeros (b : Bytes) (k o : Nat) : le16At (b ++ zeros k) o = le16At b o := by
  simp only [le16At, byteAt_append_zeros]

theorem le32At_append_zeros (b : Bytes) (k o : Nat) : le32At (b ++ zeros k) o = le32At b o := by
  simp only [le32At, byteAt_append_zeros]

/-- a slice that ends inside `b` does not see what is appended -/
theorem slice_append_left (b z : Bytes) (i j : Nat) (h : j ≤ b.length) :
    slice (b ++ z) i j = slice b i j := by
  unfold slice
  rw [List.take_append_of_le_length h]

/-- a slice from inside `b` to the end of `b ++ z` -/
theorem slice_append_full (b z : Bytes) (i : Nat) (h : i ≤ b.length) :
    slice (b ++ z) i (b.length + z.length) = slice b i b.length ++ z := by
  unfold slice
  rw [List.take_of_length_le (by simp), List.take_of_length_le (Nat.le_refl _),
      List.drop_append_of_le_length h]

theorem pad8_eq_zero {n : Nat} (h : n % 8 = 0) : pad8 n = 0 := by
  unfold pad8; omega

theorem flatten_filter_ne_nil (ps : List Bytes) : (ps.filter (· ≠ [])).flatten = ps.flatten := by
  induction ps with
  | nil => rfl
  | cons p ps ih =>
    by_cases hp : p = []
    · subst hp; simpa using ih
    · rw [List.filter_cons_of_pos (by simpa using hp), List.flatten_cons, List.flatten_cons, ih]

end PeAux
open PeAux

namespace Impl

/-! ### the positional multi-reader -/

/-- the positional reader returns exactly the requested window of the concatenation -/
theorem multiReadAt_eq (ps : List Bytes) : ∀ (off len : Nat), off + len ≤ ps.flatten.length →
    multiReadAt ps off len = ((ps.flatten.drop off).take len, false) := by
  induction ps with
  | nil =>
    intro off len h
    have : len = 0 := by simp at h; omega
    subst this
    simp [multiReadAt]
  | cons p ps ih =>
    intro off len h
    simp only [List.flatten_cons, List.length_append] at h
    unfold multiReadAt
    by_cases hl : len = 0
    · simp [hl]
    · rw [if_neg hl]
      by_cases hpo : p.length ≤ off
      · rw [if_pos hpo, ih _ _ (by omega)]
        simp only [List.flatten_cons]
        rw [List.drop_append, List.drop_of_length_le hpo, List.nil_append]
      · rw [if_neg hpo]
        simp only [List.flatten_cons]
        have hdrop : (p ++ ps.flatten).drop off = p.drop off ++ ps.flatten :=
          List.drop_append_of_le_length (by omega)
        by_cases hg : ((p.drop off).take len).length = len
        · simp only [hg, if_true]
          rw [hdrop, List.take_append_of_le_length]
          simp at hg; simp; omega
        · simp only [hg, if_false]
          have hlen : ((p.drop off).take len).length = p.length - off := by
            simp at hg ⊢; omega
          rw [hlen, ih 0 _ (by omega)]
          simp only [List.drop_zero]
          have ht : (p.drop off).take len = p.drop off :=
            List.take_of_length_le (by simp; simp at hlen; omega)
          rw [ht, hdrop, List.take_append, ht, List.length_drop]

theorem sum_length_eq_flatten (ps : List Bytes) : (ps.map List.length).sum = ps.flatten.length := by
  rw [List.length_flatten]

/-- sequential copying with any positive buffer size, started at `off` with enough fuel -/
theorem copyAll_eq (ps : List Bytes) (chunk : Nat) (hc : 0 < chunk) :
    ∀ (fuel off : Nat), ps.flatten.length < fuel + off →
      copyAll ps chunk fuel off = ps.flatten.drop off := by
  intro fuel
  induction fuel with
  | zero =>
    intro off h
    rw [List.drop_of_length_le (by omega)]
    rfl
  | succ fuel ih =>
    intro off h
    unfold copyAll
    rw [sum_length_eq_flatten]
    by_cases ho : off ≥ ps.flatten.length
    · rw [if_pos ho, List.drop_of_length_le ho]
    · rw [if_neg ho]
      have hw : off + min chunk (ps.flatten.length - off) ≤ ps.flatten.length := by omega
      simp only []
      rw [multiReadAt_eq ps _ _ hw]
      simp only []
      have hlen : ((ps.flatten.drop off).take (min chunk (ps.flatten.length - off))).length =
          min chunk (ps.flatten.length - off) := by
        simp
      have hne : ((ps.flatten.drop off).take (min chunk (ps.flatten.length - off))).isEmpty = false := by
        rw [List.isEmpty_eq_false_iff]
        intro e
        have h0 : ((ps.flatten.drop off).take (min chunk (ps.flatten.length - off))).length = 0 := by
          rw [e]; rfl
        omega
      rw [hne, hlen, ih _ (by omega)]
      simp only [Bool.false_eq_true, if_false]
      rw [← List.drop_drop, List.take_append_drop]

end Impl

namespace Spec.PE

theorem secEntry_append_zeros (b : Bytes) (k tab : Nat) :
    secEntry (b ++ zeros k) tab = secEntry b tab := by
  funext i
  simp only [secEntry, le32At_append_zeros]

theorem layout_append_zeros (b : Bytes) (k : Nat) : layout (b ++ zeros k) = layout b := by
  unfold layout
  simp only [le32At_append_zeros, le16At_append_zeros, secEntry_append_zeros]

theorem layout_padded (b : Bytes) : layout (padded b) = layout b := layout_append_zeros b _

theorem certSize_padded (b : Bytes) : certSize (padded b) = certSize b := by
  unfold certSize
  rw [layout_padded]
  exact le32At_append_zeros b _ _

theorem certAddr_padded (b : Bytes) : certAddr (padded b) = certAddr b := by
  unfold certAddr
  rw [layout_padded]
  exact le32At_append_zeros b _ _

theorem padded_length (b : Bytes) : (padded b).length = b.length + pad8 b.length := by
  simp [padded]

theorem Layout.ck_eq (l : Layout) : l.ck = l.L + 88 := rfl
theorem Layout.dd_ge (l : Layout) : l.L + 152 ≤ l.dd := by
  unfold Layout.dd; split <;> omega
theorem Layout.dd_le (l : Layout) : l.dd ≤ l.L + 168 := by
  unfold Layout.dd; split <;> omega
theorem Layout.ck_dd (l : Layout) : l.ck + 4 ≤ l.dd := by
  have := l.dd_ge; have := l.ck_eq; omega
theorem Layout.soh_le_sum (l : Layout) : l.soh ≤ l.sum := by
  unfold Layout.sum; omega
theorem Layout.secTab_eq (l : Layout) : l.secTab = l.L + 24 + l.optSize := rfl

theorem WF.dd_soh {b : Bytes} (h : WF b) : (layout b).dd + 8 ≤ (layout b).soh := by
  have := h.dirs_fit; have := h.tab_soh; omega

theorem WF.soh_len {b : Bytes} (h : WF b) : (layout b).soh ≤ b.length := by
  have := h.soh_n; omega

theorem WF.len_ge {b : Bytes} (h : WF b) : 160 ≤ b.length := by
  have := h.dd_soh; have := h.soh_len; have := (layout b).dd_ge; omega

theorem WF.padded_eq {b : Bytes} (h : WF b) (hc : certSize b ≠ 0) : padded b = b := by
  rcases h.aligned with h0 | ⟨h8, _, _⟩
  · exact absurd h0 hc
  · unfold padded; rw [pad8_eq_zero h8]; simp [zeros]

/-- the last range of the hash input of the padded image: the data after the sections up to the
    certificate table, then the padding -/
theorem WF.tail_padded {b : Bytes} (h : WF b) (i : Nat) (hi : i ≤ b.length - certSize b) :
    slice (padded b) i ((padded b).length - certSize b) =
      slice b i (b.length - certSize b) ++ zeros (pad8 b.length) := by
  by_cases hc : certSize b = 0
  · rw [hc, padded_length]
    simp only [Nat.sub_zero]
    rw [hc] at hi
    have := slice_append_full b (zeros (pad8 b.length)) i (by omega)
    rw [zeros_length] at this
    exact this
  · rw [h.padded_eq hc]
    rcases h.aligned with h0 | ⟨h8, _, _⟩
    · exact absurd h0 hc
    · rw [pad8_eq_zero h8]; simp [zeros]


theorem slice_padded (b : Bytes) (i j : Nat) (h : j ≤ b.length) : slice (padded b) i j = slice b i j :=
  slice_append_left b _ i j h

/-- the specification's hash input of the padded image, expressed on the image itself -/
theorem WF.authInputPadded_eq {b : Bytes} (h : WF b) :
    authInputPadded b =
      slice b 0 (layout b).ck ++ (slice b ((layout b).ck + 4) (layout b).dd ++
        (slice b ((layout b).dd + 8) (layout b).soh ++
          (((layout b).hashed.map fun s => slice b s.1 (s.1 + s.2)).flatten ++
            (slice b (layout b).sum (b.length - certSize b) ++ zeros (pad8 b.length))))) := by
  have h1 := h.dd_soh; have h2 := h.soh_len; have h3 := (layout b).ck_dd
  unfold authInputPadded authInput
  simp only []
  rw [layout_padded, certSize_padded, h.tail_padded _ h.sum_le,
      slice_padded b _ _ (by omega), slice_padded b _ _ (by omega), slice_padded b _ _ (by omega)]
  have hm : ((layout b).hashed.map fun s => slice (padded b) s.1 (s.1 + s.2)) =
      ((layout b).hashed.map fun s => slice b s.1 (s.1 + s.2)) := by
    apply List.map_congr_left
    intro s hs
    have := (h.secs_in s hs).2
    exact slice_padded b _ _ (by omega)
  rw [hm]

end Spec.PE

namespace Impl
open Spec.PE

theorem ddOffset_factsOf (b : Bytes) : ddOffset (factsOf b) = (layout b).dd := by
  unfold ddOffset factsOf Layout.dd
  by_cases hp : (layout b).plus = true <;> simp [hp]

theorem hashedSecs_factsOf (b : Bytes) : hashedSecs (factsOf b) = (layout b).hashed := rfl

/-- what `Parse` returns on a well-formed image -/
theorem parse_wf {b : Bytes} (h : WF b) :
    ∃ p, parse b (factsOf b) = .ok p ∧ p.regular = true ∧
      p.parts = [rangePart b 0 (layout b).ck, rangePart b ((layout b).ck + 4) (layout b).dd,
                 rangePart b ((layout b).dd + 8) (layout b).soh] ++
        ((layout b).hashed.map fun s => (⟨s.2, slice b s.1 (s.1 + s.2)⟩ : Part)) ++
        [⟨b.length - certSize b - (layout b).sum + pad8 b.length,
          slice b (layout b).sum (b.length - certSize b) ++ zeros (pad8 b.length)⟩] := by
  have h1 := h.dd_soh; have h2 := h.soh_len; have h3 := (layout b).ck_dd
  have h4 := h.sum_le; have h5 := h.c_le; have h6 := h.len_ge; have h7 := (layout b).soh_le_sum
  unfold parse
  simp only [ddOffset_factsOf, hashedSecs_factsOf]
  have e1 : (factsOf b).soh = (layout b).soh := rfl
  have e2 : (factsOf b).ddSize = certSize b := rfl
  have e3 : (factsOf b).lfanew + 24 + 64 = (layout b).ck := rfl
  have e4 : (layout b).soh + ((layout b).hashed.map (·.2)).sum = (layout b).sum := rfl
  have e8 : (factsOf b).ddVA = certAddr b := rfl
  rw [e1, e2, e3, e4, e8]
  have hal := h.aligned
  rw [if_neg (by omega), if_neg (by omega), if_neg (by omega), if_neg (by omega)]
  have e5 : (layout b).sum + (b.length - (layout b).sum) = b.length := by omega
  have e6 : (layout b).sum + (b.length - (layout b).sum - certSize b) = b.length - certSize b := by omega
  have e7 : b.length - (layout b).sum - certSize b = b.length - certSize b - (layout b).sum := by omega
  rw [e5, e6, e7]
  refine ⟨_, rfl, ?_, rfl⟩
  simp only [decide_eq_true_eq]
  omega

theorem hashStream_eq (p : Parsed) : hashStream p = (p.parts.map (·.data)).flatten := by
  unfold hashStream multiParts
  exact flatten_filter_ne_nil _

/-- item 2: the stream the implementation digests is the specification's hash input -/
theorem impl_eq_spec {b : Bytes} (h : WF b) :
    ∃ p, parse b (factsOf b) = .ok p ∧ p.regular = true ∧ (∀ q ∈ p.parts, q.full = true) ∧
      hashStream p = authInputPadded b := by
  obtain ⟨p, hp, hr, hparts⟩ := parse_wf h
  have h1 := h.dd_soh; have h2 := h.soh_len; have h3 := (layout b).ck_dd
  have h4 := h.sum_le; have h5 := h.c_le; have h7 := (layout b).soh_le_sum
  refine ⟨p, hp, hr, ?_, ?_⟩
  · intro q hq
    rw [hparts] at hq
    simp only [List.mem_append, List.mem_cons, List.mem_map, List.not_mem_nil, or_false] at hq
    unfold Part.full
    rcases hq with (((rfl | rfl | rfl)) | ⟨s, hs, rfl⟩) | rfl
    · simp [rangePart]; omega
    · simp [rangePart]; omega
    · simp [rangePart]; omega
    · have := h.secs_in s hs
      simp; omega
    · simp
  · rw [hashStream_eq, hparts, h.authInputPadded_eq]
    simp [rangePart, List.map_map, Function.comp_def]

end Impl

namespace Spec.PE

theorem any_range_iff (l : List (Nat × Nat)) (p : Nat) :
    (l.any fun s => decide (s.1 ≤ p ∧ p < s.1 + s.2)) = true ↔ ∃ s ∈ l, s.1 ≤ p ∧ p < s.1 + s.2 := by
  simp [List.any_eq_true]

theorem WF.covered_lt {b : Bytes} (h : WF b) {p : Nat} (hc : Covered b p) :
    p < b.length - certSize b := by
  have h1 := h.dd_soh; have h2 := h.soh_n; have h3 := (layout b).ck_dd
  unfold Covered at hc
  simp only [] at hc
  rcases hc with hc | ⟨_, hc⟩ | ⟨_, hc⟩ | ⟨s, hs, _, hc⟩ | ⟨_, hc⟩
  · omega
  · omega
  · omega
  · have := (h.secs_in s hs).2; omega
  · omega

theorem WF.covered_not_excluded {b : Bytes} (h : WF b) {p : Nat} (hc : Covered b p) :
    ¬ Excluded b p := by
  have h0 := h.covered_lt hc
  have h1 := h.dd_soh; have h2 := h.soh_n; have h3 := (layout b).ck_dd
  have h7 := (layout b).soh_le_sum
  unfold Covered at hc
  unfold Excluded
  simp only [] at hc ⊢
  rcases hc with hc | ⟨hc1, hc⟩ | ⟨hc1, hc⟩ | ⟨s, hs, hc1, hc⟩ | ⟨hc1, hc⟩
  · omega
  · omega
  · omega
  · have := (h.secs_in s hs).1; omega
  · omega

theorem classify_excluded_iff (b : Bytes) (p : Nat) (hp : p < b.length) :
    classify b p = .excluded ↔ Excluded b p := by
  unfold classify Excluded
  simp only []
  rw [if_neg (by omega)]
  split
  · rename_i hc
    constructor
    · intro _; rcases hc with hc | hc | hc
      · exact Or.inl hc
      · exact Or.inr (Or.inl hc)
      · exact Or.inr (Or.inr ⟨hc, hp⟩)
    · intro _; rfl
  · rename_i hc
    constructor
    · intro hh; split at hh <;> cases hh
    · intro hh; exfalso; apply hc
      rcases hh with hh | hh | hh
      · exact Or.inl hh
      · exact Or.inr (Or.inl hh)
      · exact Or.inr (Or.inr hh.1)

theorem classify_covered_iff' (b : Bytes) (p : Nat) (hp : p < b.length) :
    classify b p = .covered ↔ ¬ Excluded b p ∧ Covered b p := by
  have hx := classify_excluded_iff b p hp
  constructor
  · intro hh
    refine ⟨fun he => ?_, ?_⟩
    · rw [hx.mpr he] at hh; cases hh
    · unfold classify at hh
      simp only [] at hh
      rw [if_neg (by omega)] at hh
      split at hh
      · cases hh
      · split at hh
        · rename_i hc
          rw [any_range_iff] at hc
          exact hc
        · cases hh
  · intro ⟨hne, hc⟩
    have hne' : ¬ classify b p = .excluded := fun e => hne (hx.mp e)
    unfold classify at hne' ⊢
    simp only [] at hne' ⊢
    rw [if_neg (by omega)] at hne' ⊢
    split
    · rename_i he; rw [if_pos he] at hne'; exact absurd rfl hne'
    · rw [if_pos]
      rw [any_range_iff]
      exact hc

theorem classify_gap (b : Bytes) (p : Nat) (hp : p < b.length) (hg : classify b p = .gap) :
    ¬ Covered b p ∧ ¬ Excluded b p := by
  have hx := classify_excluded_iff b p hp
  have hc := classify_covered_iff' b p hp
  constructor
  · intro hcov
    by_cases he : Excluded b p
    · rw [hx.mpr he] at hg; cases hg
    · rw [hc.mpr ⟨he, hcov⟩] at hg; cases hg
  · intro he
    rw [hx.mpr he] at hg; cases hg

end Spec.PE

namespace Spec.PE

theorem wfCheck_iff (b : Bytes) : wfCheck b = true ↔ WF b := by
  have eL : le32At b 0x3c = (layout b).L := rfl
  have eO : le16At b ((layout b).L + 20) = (layout b).optSize := rfl
  have eN : le16At b ((layout b).L + 6) = (layout b).nsec := rfl
  have eS : le32At b ((layout b).L + 24 + 60) = (layout b).soh := rfl
  unfold wfCheck
  simp only []
  rw [eL, eO, eN, eS]
  constructor
  · intro hh
    split at hh
    · cases hh
    · simp only [Bool.and_eq_true, Bool.or_eq_true, beq_iff_eq, decide_eq_true_eq,
        List.all_eq_true] at hh
      obtain ⟨⟨⟨⟨⟨⟨⟨⟨⟨⟨⟨⟨m1, m2⟩, g1⟩, g2⟩, g3⟩, g4⟩, g5⟩, g6⟩, g7⟩, g8⟩, g9⟩, g10⟩, g11⟩ := hh
      exact ⟨⟨m1, m2⟩, g1, g2, g3, g4, g5, g6, g7, g8, g9, g10, by
        rcases g11 with g | ⟨⟨g, g'⟩, g''⟩
        · exact Or.inl g
        · exact Or.inr ⟨g, g', g''⟩⟩
  · intro w
    have t1 := w.tab_soh
    have t2 := w.soh_n
    rw [Layout.secTab_eq] at t1
    rw [if_neg (by omega)]
    simp only [Bool.and_eq_true, Bool.or_eq_true, beq_iff_eq, decide_eq_true_eq,
        List.all_eq_true]
    refine ⟨⟨⟨⟨⟨⟨⟨⟨⟨⟨⟨w.mz, w.pesig⟩, w.magic⟩, w.ndirs⟩, w.dirs_fit⟩, w.tab_soh⟩, w.soh_n⟩, w.c_le⟩,
      w.secs_in⟩, w.sum_le⟩, w.disjoint⟩, ?_⟩
    rcases w.aligned with g | ⟨g, g', g''⟩
    · exact Or.inl g
    · exact Or.inr ⟨⟨g, g'⟩, g''⟩

end Spec.PE


namespace Spec.PE

/-- the clauses of `WF` that the injectivity argument uses; they survive zero padding -/
structure WF0 (b : Bytes) : Prop where
  dirs_fit : (layout b).dd + 8 ≤ (layout b).secTab
  tab_soh : (layout b).secTab + 40 * (layout b).nsec ≤ (layout b).soh
  soh_n : (layout b).soh ≤ b.length - certSize b
  c_le : certSize b ≤ b.length
  secs_in : ∀ s ∈ (layout b).hashed, (layout b).soh ≤ s.1 ∧ s.1 + s.2 ≤ b.length - certSize b
  sum_le : (layout b).sum ≤ b.length - certSize b

theorem WF.padded_wf0 {b : Bytes} (h : WF b) : WF0 (padded b) := by
  have hl := layout_padded b
  have hc := certSize_padded b
  have hn := padded_length b
  refine ⟨?_, ?_, ?_, ?_, ?_, ?_⟩
  · rw [hl]; exact h.dirs_fit
  · rw [hl]; exact h.tab_soh
  · rw [hl, hc, hn]; have := h.soh_n; omega
  · rw [hc, hn]; have := h.c_le; omega
  · rw [hl, hc, hn]; intro s hs; have := h.secs_in s hs; omega
  · rw [hl, hc, hn]; have := h.sum_le; omega

theorem Layout.ext' : ∀ x y : Layout, x.L = y.L → x.plus = y.plus → x.nsec = y.nsec →
    x.optSize = y.optSize → x.soh = y.soh → x.ndirs = y.ndirs → x.secs = y.secs → x = y := by
  intro x y; cases x; cases y; simp; intros; simp_all

/-- equal hash inputs of two equally long images force the same layout, the same certificate
    table size, and agreement on every covered byte -/
theorem covered_agree0 (a b : Bytes) (wa : WF0 a) (wb : WF0 b) (hn : a.length = b.length)
    (h : authInput a = authInput b) :
    layout a = layout b ∧ certSize a = certSize b ∧ ∀ p, Covered a p → a[p]? = b[p]? := by
  unfold authInput at h
  simp only [] at h
  have ddA : (layout a).dd = (layout a).L + 24 + (if (layout a).plus then 144 else 128) := rfl
  have ddB : (layout b).dd = (layout b).L + 24 + (if (layout b).plus then 144 else 128) := rfl
  have ckA : (layout a).ck = (layout a).L + 88 := rfl
  have ckB : (layout b).ck = (layout b).L + 88 := rfl
  have tabA : (layout a).secTab = (layout a).L + 24 + (layout a).optSize := rfl
  have tabB : (layout b).secTab = (layout b).L + 24 + (layout b).optSize := rfl
  have lenA : (layout a).soh ≤ a.length := by have := wa.soh_n; omega
  have lenB : (layout b).soh ≤ b.length := by have := wb.soh_n; omega
  have ddltA := (layout a).dd_ge
  have ddltB := (layout b).dd_ge
  have h1A := wa.dirs_fit; have h2A := wa.tab_soh
  have h1B := wb.dirs_fit; have h2B := wb.tab_soh
  -- Step 1: first 0x40 bytes agree, hence e_lfanew
  have s40 : slice a 0 0x40 = slice b 0 0x40 :=
    slice0_of_append_eq h (by omega) (by omega) (by omega) (by omega)
  have hL : (layout a).L = (layout b).L := by
    show le32At a 0x3c = le32At b 0x3c
    exact le32At_congr s40 (by omega) (by omega)
  -- Step 2: the first range
  have hck : (layout a).ck = (layout b).ck := by rw [ckA, ckB, hL]
  rw [hck] at h
  obtain ⟨r1, h⟩ := List.append_inj h (by simp; omega)
  have hplus : (layout a).plus = (layout b).plus := by
    show (le16At a ((layout a).L + 24) == 0x20b) = (le16At b ((layout b).L + 24) == 0x20b)
    rw [hL, le16At_congr r1 (by omega) (by omega)]
  have hopt : (layout a).optSize = (layout b).optSize := by
    show le16At a ((layout a).L + 20) = le16At b ((layout b).L + 20)
    rw [hL]; exact le16At_congr r1 (by omega) (by omega)
  have hnsec : (layout a).nsec = (layout b).nsec := by
    show le16At a ((layout a).L + 6) = le16At b ((layout b).L + 6)
    rw [hL]; exact le16At_congr r1 (by omega) (by omega)
  have hsoh : (layout a).soh = (layout b).soh := by
    show le32At a ((layout a).L + 24 + 60) = le32At b ((layout b).L + 24 + 60)
    rw [hL]; exact le32At_congr r1 (by omega) (by omega)
  have hdd : (layout a).dd = (layout b).dd := by rw [ddA, ddB, hL, hplus]
  have htab : (layout a).secTab = (layout b).secTab := by rw [tabA, tabB, hL, hopt]
  -- Step 3: second range (contains NumberOfRvaAndSizes)
  rw [hdd] at h
  obtain ⟨r2, h⟩ := List.append_inj h (by simp; omega)
  have hnd : (layout a).ndirs = (layout b).ndirs := by
    show le32At a ((layout a).L + 24 + (if (layout a).plus then 108 else 92)) =
         le32At b ((layout b).L + 24 + (if (layout b).plus then 108 else 92))
    rw [hL, hplus]
    rw [ddB] at r2
    split
    · rename_i hp; rw [if_pos hp] at r2; exact le32At_congr r2 (by omega) (by omega)
    · rename_i hp; rw [if_neg hp] at r2; exact le32At_congr r2 (by omega) (by omega)
  -- Step 4: third range (contains the section table)
  rw [hsoh] at h
  obtain ⟨r3, h⟩ := List.append_inj h (by simp; omega)
  have hsecs : (layout a).secs = (layout b).secs := by
    show (List.range (layout a).nsec).map (secEntry a ((layout a).L + 24 + (layout a).optSize)) =
         (List.range (layout b).nsec).map (secEntry b ((layout b).L + 24 + (layout b).optSize))
    rw [hnsec, hL, hopt]
    apply List.map_congr_left
    intro i hi
    have hi' : i < (layout b).nsec := List.mem_range.mp hi
    have tb : (layout b).L + 24 + (layout b).optSize = (layout b).secTab := rfl
    have e1 : (layout b).dd + 8 ≤ (layout b).secTab + 40 * i + 16 := by omega
    have e2 : (layout b).secTab + 40 * i + 24 ≤ (layout b).soh := by omega
    simp only [secEntry, tb]
    rw [le32At_congr r3 (by omega) (by omega), le32At_congr r3 (by omega) (by omega)]
  have hlay : layout a = layout b := Layout.ext' _ _ hL hplus hnsec hopt hsoh hnd hsecs
  -- Step 5: sections and tail
  have hcA := wa.c_le; have hcB := wb.c_le
  rw [hlay] at h
  have secsA := wa.secs_in; rw [hlay] at secsA
  obtain ⟨hs, htail⟩ := flatten_map_inj (layout b).hashed _ _ (by
      intro s hs
      have := secsA s hs; have := wb.secs_in s hs
      simp; omega) _ _ h
  have sumA := wa.sum_le; rw [hlay] at sumA
  have sumB := wb.sum_le
  have hc : certSize a = certSize b := by
    have := congrArg List.length htail
    simp only [slice_length] at this
    rw [hn] at this hcA sumA
    omega
  refine ⟨hlay, hc, ?_⟩
  rw [hn, hc] at htail
  intro p hp
  unfold Covered at hp
  simp only [] at hp
  rw [hlay, hn, hc] at hp
  rcases hp with hp | ⟨hp1, hp2⟩ | ⟨hp1, hp2⟩ | ⟨s, hs', hp1, hp2⟩ | ⟨hp1, hp2⟩
  · exact agree_of_slice_eq r1 (by omega) hp
  · exact agree_of_slice_eq r2 hp1 hp2
  · exact agree_of_slice_eq r3 hp1 hp2
  · exact agree_of_slice_eq (hs s hs') hp1 hp2
  · exact agree_of_slice_eq htail hp1 hp2

end Spec.PE


namespace Spec.PE

theorem getElem?_padded (b : Bytes) (p : Nat) (hp : p < b.length) : (padded b)[p]? = b[p]? :=
  List.getElem?_append_left hp

theorem covered_padded {b : Bytes} {p : Nat} (hc : Covered b p) :
    Covered (padded b) p := by
  unfold Covered at hc ⊢
  simp only [] at hc ⊢
  rw [layout_padded, certSize_padded, padded_length]
  rcases hc with hc | hc | hc | hc | ⟨hc1, hc2⟩
  · exact Or.inl hc
  · exact Or.inr (Or.inl hc)
  · exact Or.inr (Or.inr (Or.inl hc))
  · exact Or.inr (Or.inr (Or.inr (Or.inl hc)))
  · exact Or.inr (Or.inr (Or.inr (Or.inr ⟨hc1, by omega⟩)))

/-- item 4 in positive form: equal hash inputs force agreement on every covered byte -/
theorem covered_agree (a b : Bytes) (wa : WF a) (wb : WF b) (hn : a.length = b.length)
    (h : authInputPadded a = authInputPadded b) :
    layout a = layout b ∧ certSize a = certSize b ∧ ∀ p, Covered a p → a[p]? = b[p]? := by
  have hn' : (padded a).length = (padded b).length := by rw [padded_length, padded_length, hn]
  obtain ⟨hl, hc, hag⟩ := covered_agree0 (padded a) (padded b) wa.padded_wf0 wb.padded_wf0 hn' h
  rw [layout_padded, layout_padded] at hl
  rw [certSize_padded, certSize_padded] at hc
  refine ⟨hl, hc, ?_⟩
  intro p hp
  have h1 := wa.covered_lt hp
  have := hag p (covered_padded hp)
  rw [getElem?_padded a p (by omega), getElem?_padded b p (by omega)] at this
  exact this


/-- item 5: images that differ only in CheckSum and inside the certificate table have the same
    hash input -/
theorem excluded_irrelevant (a b : Bytes) (wa : WF a) (wb : WF b) (hn : a.length = b.length)
    (h : ∀ p, a[p]? ≠ b[p]? → ((layout a).ck ≤ p ∧ p < (layout a).ck + 4) ∨
      (a.length - certSize a ≤ p ∧ p < a.length))
    (hdir : certSize a = certSize b) : authInputPadded a = authInputPadded b := by
  have hag : ∀ p, ¬((layout a).ck ≤ p ∧ p < (layout a).ck + 4) → p < a.length - certSize a →
      a[p]? = b[p]? := by
    intro p h1 h2
    by_cases e : a[p]? = b[p]?
    · exact e
    · rcases h p e with x | x
      · exact absurd x h1
      · omega
  have ckA : (layout a).ck = (layout a).L + 88 := rfl
  have ddA := (layout a).dd_ge
  have ddA' := (layout a).dd_le
  have d1 := wa.dirs_fit; have d2 := wa.tab_soh; have d3 := wa.soh_n
  have tabA : (layout a).secTab = (layout a).L + 24 + (layout a).optSize := rfl
  have hL : (layout a).L = (layout b).L := by
    show le32At a 0x3c = le32At b 0x3c
    exact le32At_agree fun p _ _ => hag p (by omega) (by omega)
  have hplus : (layout a).plus = (layout b).plus := by
    show (le16At a ((layout a).L + 24) == 0x20b) = (le16At b ((layout b).L + 24) == 0x20b)
    rw [← hL, le16At_agree fun p _ _ => hag p (by omega) (by omega)]
  have hopt : (layout a).optSize = (layout b).optSize := by
    show le16At a ((layout a).L + 20) = le16At b ((layout b).L + 20)
    rw [← hL]; exact le16At_agree fun p _ _ => hag p (by omega) (by omega)
  have hnsec : (layout a).nsec = (layout b).nsec := by
    show le16At a ((layout a).L + 6) = le16At b ((layout b).L + 6)
    rw [← hL]; exact le16At_agree fun p _ _ => hag p (by omega) (by omega)
  have hsoh : (layout a).soh = (layout b).soh := by
    show le32At a ((layout a).L + 24 + 60) = le32At b ((layout b).L + 24 + 60)
    rw [← hL]; exact le32At_agree fun p _ _ => hag p (by omega) (by omega)
  have hnd : (layout a).ndirs = (layout b).ndirs := by
    show le32At a ((layout a).L + 24 + (if (layout a).plus then 108 else 92)) =
         le32At b ((layout b).L + 24 + (if (layout b).plus then 108 else 92))
    rw [← hL, ← hplus]
    split
    · exact le32At_agree fun p _ _ => hag p (by omega) (by omega)
    · exact le32At_agree fun p _ _ => hag p (by omega) (by omega)
  have hsecs : (layout a).secs = (layout b).secs := by
    show (List.range (layout a).nsec).map (secEntry a ((layout a).L + 24 + (layout a).optSize)) =
         (List.range (layout b).nsec).map (secEntry b ((layout b).L + 24 + (layout b).optSize))
    rw [← hnsec, ← hL, ← hopt]
    apply List.map_congr_left
    intro i hi
    have hi' : i < (layout a).nsec := List.mem_range.mp hi
    simp only [secEntry]
    rw [le32At_agree fun p _ _ => hag p (by omega) (by omega),
        le32At_agree fun p _ _ => hag p (by omega) (by omega)]
  have hlay : layout a = layout b := Layout.ext' _ _ hL hplus hnsec hopt hsoh hnd hsecs
  rw [wa.authInputPadded_eq, wb.authInputPadded_eq, ← hlay, ← hdir, ← hn]
  have d4 := (layout a).soh_le_sum
  have r1 : slice a 0 (layout a).ck = slice b 0 (layout a).ck :=
    slice_congr fun p _ _ => hag p (by omega) (by omega)
  have r2 : slice a ((layout a).ck + 4) (layout a).dd = slice b ((layout a).ck + 4) (layout a).dd :=
    slice_congr fun p _ _ => hag p (by omega) (by omega)
  have r3 : slice a ((layout a).dd + 8) (layout a).soh = slice b ((layout a).dd + 8) (layout a).soh :=
    slice_congr fun p _ _ => hag p (by omega) (by omega)
  have r4 : ((layout a).hashed.map fun s => slice a s.1 (s.1 + s.2)) =
      ((layout a).hashed.map fun s => slice b s.1 (s.1 + s.2)) := by
    apply List.map_congr_left
    intro s hs
    have := wa.secs_in s hs
    exact slice_congr fun p _ _ => hag p (by omega) (by omega)
  have r5 : slice a (layout a).sum (a.length - certSize a) =
      slice b (layout a).sum (a.length - certSize a) :=
    slice_congr fun p _ _ => hag p (by omega) (by omega)
  rw [r1, r2, r3, r4, r5]

end Spec.PE

namespace Impl
open Spec.PE

/-- whatever `Parse` returned on a well-formed image digests the specification's hash input -/
theorem hashStream_of_parse {b : Bytes} (h : WF b) {p : Parsed}
    (hp : parse b (factsOf b) = .ok p) : hashStream p = authInputPadded b := by
  obtain ⟨q, hq, _, _, hs⟩ := impl_eq_spec h
  rw [hq] at hp
  cases hp
  exact hs

end Impl

/-! ### small concrete images (non-vacuity of the C01 hypotheses) -/
namespace PeExample

/-- a 40-byte section header with the given PointerToRawData and SizeOfRawData -/
def secHdr (ptr size : Nat) : Bytes :=
  [0x2e, 0x74, 0x65, 0x78, 0x74, 0, 0, 0] ++ le32 size ++ le32 0x1000 ++ le32 size ++ le32 ptr ++ zeros 16

/-- a small image: DOS header with e_lfanew = 0x40; COFF header with 2 sections; optional header
    (PE32+ when `plus`, else PE32) with CheckSum `ck` and 5 data directories; two section headers
    whose order is the opposite of their file order (the first header points to the second raw
    block); 16 + 8 bytes of raw data; `trail` after the last section; the certificate table `cert` -/
def mkImg (plus : Bool) (ck : Nat) (trail cert : Bytes) : Bytes :=
  let optSize := if plus then 152 else 136
  let soh := 88 + optSize + 80
  [0x4d, 0x5a] ++ zeros 58 ++ le32 0x40 ++
  [0x50, 0x45, 0, 0] ++ le16 (if plus then 0x8664 else 0x14c) ++ le16 2 ++ zeros 12 ++
    le16 optSize ++ le16 0x22 ++
  le16 (if plus then 0x20b else 0x10b) ++ zeros 58 ++ le32 soh ++ le32 ck ++
    zeros (if plus then 40 else 24) ++ le32 5 ++ zeros 32 ++
    (if cert.isEmpty then zeros 8 else le32 (soh + 24 + trail.length) ++ le32 cert.length) ++
  secHdr (soh + 16) 8 ++ secHdr soh 16 ++
  List.replicate 16 0xaa ++ List.replicate 8 0xbb ++ trail ++ cert

/-- unsigned PE32+ image, 349 bytes (≡ 5 mod 8), 5 trailing bytes -/
def img64 : Bytes := mkImg true 0 [1, 2, 3, 4, 5] []
/-- the same with the last trailing (covered) byte changed -/
def img64' : Bytes := mkImg true 0 [1, 2, 3, 4, 6] []
/-- unsigned PE32 twin, 333 bytes (≡ 5 mod 8) -/
def img32 : Bytes := mkImg false 0 [1, 2, 3, 4, 5] []
/-- signed PE32+ image, 368 bytes: certificate table of 16 bytes at offset 352 -/
def img64s : Bytes :=
  mkImg true 0x1234 (zeros 8) (le32 16 ++ le16 0x0200 ++ le16 2 ++ [1, 2, 3, 4, 5, 6, 7, 8])
/-- the same with another CheckSum and other certificate bytes -/
def img64s' : Bytes :=
  mkImg true 0x9999 (zeros 8) (le32 16 ++ le16 0x0200 ++ le16 2 ++ [8, 7, 6, 5, 4, 3, 2, 1])


open Spec.PE

theorem wf_img64 : WF img64 := (wfCheck_iff _).mp (by decide +kernel)
theorem wf_img64' : WF img64' := (wfCheck_iff _).mp (by decide +kernel)
theorem wf_img32 : WF img32 := (wfCheck_iff _).mp (by decide +kernel)
theorem wf_img64s : WF img64s := (wfCheck_iff _).mp (by decide +kernel)
theorem wf_img64s' : WF img64s' := (wfCheck_iff _).mp (by decide +kernel)

theorem img64s_facts :
    slice img64s 0 152 = slice img64s' 0 152 ∧ slice img64s 156 352 = slice img64s' 156 352 ∧
    (layout img64s).ck = 152 ∧ img64s.length = 368 ∧ img64s'.length = 368 ∧
    certSize img64s = 16 := by
  decide +kernel

/-- `img64s` and `img64s'` differ only inside CheckSum and inside the certificate table -/
theorem img64s_diff : ∀ p, img64s[p]? ≠ img64s'[p]? →
    ((layout img64s).ck ≤ p ∧ p < (layout img64s).ck + 4) ∨
    (img64s.length - certSize img64s ≤ p ∧ p < img64s.length) := by
  obtain ⟨s1, s2, hck, hl, hl', hc⟩ := img64s_facts
  intro p hne
  rw [hck, hl, hc]
  by_cases h1 : p < 152
  · exact absurd (agree_of_slice_eq s1 (Nat.zero_le _) h1) hne
  · by_cases h2 : 156 ≤ p ∧ p < 352
    · exact absurd (agree_of_slice_eq s2 h2.1 h2.2) hne
    · by_cases h3 : p < 368
      · omega
      · exfalso; apply hne
        rw [List.getElem?_eq_none (by omega), List.getElem?_eq_none (by omega)]

end PeExample
end GoUefi
