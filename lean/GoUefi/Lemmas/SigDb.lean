import GoUefi.Lemmas.Bytes
import GoUefi.Spec.SigDb
import GoUefi.Model.SigDb
/-
  Helper lemmas for the signature-database properties C07 / C08 / C09.
  Part 1: the specification codec (`GoUefi.Spec`) is a bijection on well-formed values.
  Part 2: the reader model (`GoUefi.Impl.readDb`) against its encoder.
  Part 3: bridge Spec <-> Impl.
  Part 4: database operations (C09).
-/
namespace GoUefi

/-! ## generic list facts -/

theorem take_append_drop_add (bs : Bytes) (n m : Nat) :
    (bs.drop n).take m ++ bs.drop (n + m) = bs.drop n := by
  rw [← List.drop_drop]; exact List.take_append_drop m (bs.drop n)

/-! ## Part 1: Spec codec -/

/-- `Spec.SList.WF` plus "the SignatureSize field fits its 32 bits".  `WF` alone bounds only
    `listSize`, which says nothing about `size` when the list has no entries. -/
def Spec.SList.WF32 (l : Spec.SList) : Prop := l.WF ∧ l.size < 2^32

theorem Spec.flatten_enc_length {size : Nat} (ss : List Spec.SData)
    (h : ∀ s ∈ ss, s.owner.length = 16 ∧ s.data.length + 16 = size) :
    ((ss.map Spec.encSData).flatten).length = ss.length * size := by
  induction ss with
  | nil => simp
  | cons s ss ih =>
    have hs := h s (by simp)
    have := ih (fun x hx => h x (by simp [hx]))
    simp only [List.map_cons, List.flatten_cons, List.length_append, List.length_cons, this,
      Spec.encSData, Nat.succ_mul]
    omega

theorem Spec.splitSigs_enc {size : Nat} (ss : List Spec.SData) (rest : Bytes)
    (h : ∀ s ∈ ss, s.owner.length = 16 ∧ s.data.length + 16 = size) :
    Spec.splitSigs size ss.length ((ss.map Spec.encSData).flatten ++ rest) = ss := by
  induction ss with
  | nil => simp [Spec.splitSigs]
  | cons s ss ih =>
    obtain ⟨ho, hd⟩ := h s (by simp)
    have ih' := ih (fun x hx => h x (by simp [hx]))
    simp only [List.map_cons, List.flatten_cons, List.length_cons, Spec.splitSigs, Spec.encSData,
      List.append_assoc]
    have e1 : (s.owner ++ (s.data ++ ((ss.map Spec.encSData).flatten ++ rest))).take 16 = s.owner :=
      List.take_left' ho
    have e2 : (s.owner ++ (s.data ++ ((ss.map Spec.encSData).flatten ++ rest))).take size
        = s.owner ++ s.data := by
      rw [← List.append_assoc]; exact List.take_left' (by simp; omega)
    have e3 : (s.owner ++ (s.data ++ ((ss.map Spec.encSData).flatten ++ rest))).drop size
        = (ss.map Spec.encSData).flatten ++ rest := by
      rw [← List.append_assoc]; exact List.drop_left' (by simp; omega)
    rw [e1, e2, e3, List.drop_left' ho, ih']

theorem Spec.splitSigs_ok {size : Nat} (hs : 16 ≤ size) (k : Nat) (bs : Bytes)
    (hl : k * size ≤ bs.length) :
    ((Spec.splitSigs size k bs).map Spec.encSData).flatten = bs.take (k * size) ∧
    (Spec.splitSigs size k bs).length = k ∧
    ∀ s ∈ Spec.splitSigs size k bs, s.owner.length = 16 ∧ s.data.length + 16 = size := by
  induction k generalizing bs with
  | zero => simp [Spec.splitSigs]
  | succ k ih =>
    have hk : (k + 1) * size = size + k * size := by rw [Nat.succ_mul]; omega
    have hl' : k * size ≤ (bs.drop size).length := by simp; omega
    obtain ⟨i1, i2, i3⟩ := ih (bs.drop size) hl'
    simp only [Spec.splitSigs, List.map_cons, List.flatten_cons, List.length_cons, i1, i2,
      List.mem_cons, true_and]
    refine ⟨?_, ?_⟩
    · rw [hk, List.take_add]
      congr 1
      simp only [Spec.encSData]
      have : bs.take 16 = (bs.take size).take 16 := by
        rw [List.take_take]; congr 1; omega
      rw [this]; exact List.take_append_drop 16 _
    · intro s hs'
      rcases hs' with rfl | hs'
      · simp; omega
      · exact i3 s hs'

theorem Spec.encList_length (l : Spec.SList)
    (h : ∀ s ∈ l.sigs, s.owner.length = 16 ∧ s.data.length + 16 = l.size) :
    (Spec.encList l).length = l.type.length + 12 + l.hdr.length + l.sigs.length * l.size := by
  simp [Spec.encList, Spec.flatten_enc_length l.sigs h]; omega

theorem Spec.decodeList_ok {bs : Bytes} {l : Spec.SList} {rest : Bytes}
    (h : Spec.decodeList bs = some (l, rest)) : bs = Spec.encList l ++ rest ∧ l.WF32 := by
  simp only [Spec.decodeList] at h
  split at h
  · simp at h
  rename_i c0
  split at h
  · simp at h
  rename_i c1
  split at h
  · simp at h
  rename_i c2
  split at h
  · simp at h
  rename_i c3
  split at h
  · simp at h
  rename_i c4
  simp only [Option.some.injEq, Prod.mk.injEq] at h
  obtain ⟨rfl, rfl⟩ := h
  generalize hL : rd32 ((bs.drop 16).take 4) = L at *
  generalize hH : rd32 ((bs.drop 20).take 4) = H at *
  generalize hS : rd32 ((bs.drop 24).take 4) = S at *
  have c3' : (L - 28 - H) % S = 0 := by simpa using c3
  have hk : (L - 28 - H) / S * S = L - 28 - H := Nat.div_mul_cancel (Nat.dvd_of_mod_eq_zero c3')
  generalize hK : (L - 28 - H) / S = k at *
  have hsplit := Spec.splitSigs_ok (size := S) (by omega) k (bs.drop (28 + H)) (by simp; omega)
  obtain ⟨s1, s2, s3⟩ := hsplit
  have hhdr : ((bs.drop 28).take H).length = H := by simp; omega
  have hls : Spec.SList.listSize ⟨bs.take 16, (bs.drop 28).take H, S,
      Spec.splitSigs S k (bs.drop (28 + H))⟩ = L := by
    simp only [Spec.SList.listSize, hhdr, s2]; omega
  refine ⟨?_, ⟨?_, ?_, ?_, s3⟩, ?_⟩
  · simp only [Spec.encList, hls, hhdr, s1]
    have e1 : le32 L = (bs.drop 16).take 4 := by rw [← hL]; exact le32_rd32 _ (by simp; omega)
    have e2 : le32 H = (bs.drop 20).take 4 := by rw [← hH]; exact le32_rd32 _ (by simp; omega)
    have e3 : le32 S = (bs.drop 24).take 4 := by rw [← hS]; exact le32_rd32 _ (by simp; omega)
    have hLe : L = 28 + H + k * S := by omega
    rw [e1, e2, e3]
    simp only [List.append_assoc]
    rw [hLe, take_append_drop_add, take_append_drop_add bs 28 H,
      take_append_drop_add bs 24 4, take_append_drop_add bs 20 4, take_append_drop_add bs 16 4]
    exact (List.take_append_drop 16 bs).symm
  · simp; omega
  · show 16 ≤ S
    omega
  · rw [hls, ← hL]; exact rd32_lt _
  · show S < 2^32
    rw [← hS]; exact rd32_lt _

/-- the decoder applied to a byte string whose 28-byte header is given field by field -/
theorem Spec.decodeList_fields (ty a b c r4 : Bytes) (hty : ty.length = 16) (ha : a.length = 4)
    (hb : b.length = 4) (hc : c.length = 4)
    (h1 : 16 ≤ rd32 c) (h2 : 28 + rd32 b ≤ rd32 a) (h3 : (rd32 a - 28 - rd32 b) % rd32 c = 0)
    (h4 : rd32 a ≤ 28 + r4.length) :
    Spec.decodeList (ty ++ (a ++ (b ++ (c ++ r4)))) =
      some (⟨ty, r4.take (rd32 b), rd32 c,
              Spec.splitSigs (rd32 c) ((rd32 a - 28 - rd32 b) / rd32 c) (r4.drop (rd32 b))⟩,
            r4.drop (rd32 a - 28)) := by
  have e0 : (ty ++ (a ++ (b ++ (c ++ r4)))).length = 28 + r4.length := by simp; omega
  have d16 : (ty ++ (a ++ (b ++ (c ++ r4)))).drop 16 = a ++ (b ++ (c ++ r4)) := List.drop_left' hty
  have d20 : (ty ++ (a ++ (b ++ (c ++ r4)))).drop 20 = b ++ (c ++ r4) := by
    rw [← List.append_assoc]; exact List.drop_left' (by simp; omega)
  have d24 : (ty ++ (a ++ (b ++ (c ++ r4)))).drop 24 = c ++ r4 := by
    rw [← List.append_assoc, ← List.append_assoc]; exact List.drop_left' (by simp; omega)
  have d28 : (ty ++ (a ++ (b ++ (c ++ r4)))).drop 28 = r4 := by
    rw [← List.append_assoc, ← List.append_assoc, ← List.append_assoc]
    exact List.drop_left' (by simp; omega)
  have t16 : (ty ++ (a ++ (b ++ (c ++ r4)))).take 16 = ty := List.take_left' hty
  have dH : (ty ++ (a ++ (b ++ (c ++ r4)))).drop (28 + rd32 b) = r4.drop (rd32 b) := by
    rw [← List.drop_drop, d28]
  have dL : (ty ++ (a ++ (b ++ (c ++ r4)))).drop (rd32 a) = r4.drop (rd32 a - 28) := by
    have e : rd32 a = 28 + (rd32 a - 28) := by omega
    calc (ty ++ (a ++ (b ++ (c ++ r4)))).drop (rd32 a)
        = (ty ++ (a ++ (b ++ (c ++ r4)))).drop (28 + (rd32 a - 28)) := by rw [← e]
      _ = r4.drop (rd32 a - 28) := by rw [← List.drop_drop, d28]
  simp only [Spec.decodeList, e0, d16, d20, d24, d28, t16, dH, dL, List.take_left' ha,
    List.take_left' hb, List.take_left' hc]
  rw [if_neg (by omega), if_neg (by omega), if_neg (by omega), if_neg (by simp [h3]),
    if_neg (by omega)]

theorem Spec.decodeList_enc {l : Spec.SList} (rest : Bytes) (h : l.WF32) :
    Spec.decodeList (Spec.encList l ++ rest) = some (l, rest) := by
  obtain ⟨⟨hty, hsz, hls, hs⟩, hsz32⟩ := h
  have hflat := Spec.flatten_enc_length l.sigs hs
  have hh32 : l.hdr.length < 2^32 := by unfold Spec.SList.listSize at hls; omega
  have hdiv : (l.listSize - 28 - l.hdr.length) / l.size = l.sigs.length := by
    have : l.listSize - 28 - l.hdr.length = l.sigs.length * l.size := by
      unfold Spec.SList.listSize; omega
    rw [this]; exact Nat.mul_div_cancel _ (by omega)
  have hmod : (l.listSize - 28 - l.hdr.length) % l.size = 0 := by
    have : l.listSize - 28 - l.hdr.length = l.sigs.length * l.size := by
      unfold Spec.SList.listSize; omega
    rw [this]; exact Nat.mul_mod_left _ _
  have key := Spec.decodeList_fields l.type (le32 l.listSize) (le32 l.hdr.length) (le32 l.size)
    (l.hdr ++ ((l.sigs.map Spec.encSData).flatten ++ rest)) hty rfl rfl rfl
  rw [rd32_le32 _ hls, rd32_le32 _ hh32, rd32_le32 _ hsz32] at key
  have key' := key hsz (by unfold Spec.SList.listSize; omega) hmod
    (by simp [hflat]; unfold Spec.SList.listSize; omega)
  have e : Spec.encList l ++ rest = l.type ++ (le32 l.listSize ++ (le32 l.hdr.length ++
      (le32 l.size ++ (l.hdr ++ ((l.sigs.map Spec.encSData).flatten ++ rest))))) := by
    simp [Spec.encList, List.append_assoc]
  rw [e, key', hdiv, List.take_left' rfl, List.drop_left' rfl, Spec.splitSigs_enc l.sigs rest hs]
  have : l.listSize - 28 = l.hdr.length + ((l.sigs.map Spec.encSData).flatten).length := by
    rw [hflat]; unfold Spec.SList.listSize; omega
  rw [this, ← List.drop_drop, List.drop_left' rfl, List.drop_left' rfl]

theorem Spec.encList_length_ge (l : Spec.SList) (h : l.type.length = 16) :
    28 ≤ (Spec.encList l).length := by
  simp [Spec.encList]; omega

theorem Spec.encDb_cons (l : Spec.SList) (ls : List Spec.SList) :
    Spec.encDb (l :: ls) = Spec.encList l ++ Spec.encDb ls := by
  simp [Spec.encDb]

theorem Spec.encDb_append (xs ys : List Spec.SList) :
    Spec.encDb (xs ++ ys) = Spec.encDb xs ++ Spec.encDb ys := by
  simp [Spec.encDb]

theorem Spec.decodeDbAux_ok {fuel : Nat} {bs : Bytes} {ls : List Spec.SList}
    (h : Spec.decodeDbAux fuel bs = some ls) : Spec.encDb ls = bs ∧ ∀ l ∈ ls, l.WF32 := by
  induction fuel generalizing bs ls with
  | zero =>
    simp only [Spec.decodeDbAux] at h
    split at h
    · rename_i he
      simp only [Option.some.injEq] at h; subst h
      simp only [List.isEmpty_iff] at he; subst he
      simp [Spec.encDb]
    · simp at h
  | succ fuel ih =>
    simp only [Spec.decodeDbAux] at h
    split at h
    · rename_i he
      simp only [Option.some.injEq] at h; subst h
      simp only [List.isEmpty_iff] at he; subst he
      simp [Spec.encDb]
    · split at h
      · simp at h
      · rename_i l rest h1
        split at h
        · simp at h
        · rename_i ls' h2
          simp only [Option.some.injEq] at h; subst h
          obtain ⟨e1, w1⟩ := Spec.decodeList_ok h1
          obtain ⟨e2, w2⟩ := ih h2
          refine ⟨by rw [Spec.encDb_cons, e2, ← e1], ?_⟩
          intro x hx
          rcases List.mem_cons.mp hx with rfl | hx
          · exact w1
          · exact w2 x hx

theorem Spec.decodeDbAux_enc (ls : List Spec.SList) (h : ∀ l ∈ ls, l.WF32) (fuel : Nat)
    (hf : (Spec.encDb ls).length ≤ fuel) : Spec.decodeDbAux fuel (Spec.encDb ls) = some ls := by
  induction ls generalizing fuel with
  | nil => cases fuel <;> simp [Spec.decodeDbAux, Spec.encDb]
  | cons l ls ih =>
    have hl := h l (by simp)
    have h28 := Spec.encList_length_ge l hl.1.1
    rw [Spec.encDb_cons] at hf ⊢
    have hne : (Spec.encList l ++ Spec.encDb ls).isEmpty = false := by
      cases hh : Spec.encList l ++ Spec.encDb ls with
      | nil => rw [hh] at hf; simp at hh; rw [hh.1] at h28; simp at h28
      | cons _ _ => rfl
    cases fuel with
    | zero => rw [List.length_append] at hf; omega
    | succ fuel =>
      simp only [Spec.decodeDbAux, hne, Bool.false_eq_true, if_false, Spec.decodeList_enc _ hl]
      rw [ih (fun x hx => h x (by simp [hx])) fuel (by rw [List.length_append] at hf; omega)]

/-! ## Part 2: the reader model against its encoder -/

/-- shape of a list value in canonical form (no header, consistent size fields, 16-byte type and
    owners, all records of the list's size) -/
def Impl.SList.Canon (l : Impl.SList) : Prop :=
  l.type.length = 16 ∧ l.hdrSize = 0 ∧ l.hdr = [] ∧ 16 ≤ l.size ∧
  l.listSize = 28 + l.sigs.length * l.size ∧
  (∀ s ∈ l.sigs, s.owner.length = 16 ∧ s.data.length + 16 = l.size)

/-- what the reader accepts: canonical, fields fit 32 bits, type handled -/
def Impl.SList.Wire (l : Impl.SList) : Prop :=
  l.Canon ∧ l.listSize < 2^32 ∧ l.size < 2^32 ∧ Impl.handled l.type 0 l.size = true

theorem readN_eof {n : Nat} {bs : Bytes} (h : readN n bs = .error .eof) : bs = [] := by
  unfold readN at h
  split at h
  · simp at h
  · split at h
    · assumption
    · split at h <;> simp at h

theorem readN_len {n : Nat} (x rest : Bytes) (h : x.length = n) : readN n (x ++ rest) = .ok (x, rest) := by
  subst h; exact readN_append x rest

theorem Impl.guidSha256_ne_guidX509 : Impl.guidSha256 ≠ Impl.guidX509 := by decide
theorem Impl.guidExternal_ne_guidX509 : Impl.guidExternal ≠ Impl.guidX509 := by decide
theorem Impl.guidExternal_ne_guidSha256 : Impl.guidExternal ≠ Impl.guidSha256 := by decide

theorem Impl.handled_hdr {ty : Bytes} {h s : Nat} (hh : Impl.handled ty h s = true) : h = 0 := by
  unfold Impl.handled at hh
  split at hh
  · simpa using hh
  · split at hh
    · simp at hh; exact hh.1
    · split at hh
      · simp at hh; exact hh.1
      · simp at hh

theorem Impl.handled_sha {s : Nat} (hh : Impl.handled Impl.guidSha256 0 s = true) : s = 48 := by
  unfold Impl.handled at hh
  rw [if_neg Impl.guidSha256_ne_guidX509, if_pos rfl] at hh
  simpa using hh

theorem Impl.readSig_ok {size : Nat} {bs : Bytes} {s : Impl.SData} {rest : Bytes} (hs : 16 ≤ size)
    (h : Impl.readSig size bs = .ok (s, rest)) :
    bs = Impl.encSData s ++ rest ∧ s.owner.length = 16 ∧ s.data.length + 16 = size := by
  unfold Impl.readSig at h
  split at h
  · simp at h
  · rename_i owner r1 h1
    split at h
    · simp at h
    · rename_i data r2 h2
      simp only [Except.ok.injEq, Prod.mk.injEq] at h
      obtain ⟨rfl, rfl⟩ := h
      obtain ⟨e1, l1⟩ := readN_ok h1
      obtain ⟨e2, l2⟩ := readN_ok h2
      exact ⟨by simp [Impl.encSData, e1, e2], l1, by simp [l2]; omega⟩

theorem Impl.readSig_enc {size : Nat} (s : Impl.SData) (rest : Bytes)
    (ho : s.owner.length = 16) (hd : s.data.length + 16 = size) :
    Impl.readSig size (Impl.encSData s ++ rest) = .ok (s, rest) := by
  have e1 : readN 16 (s.owner ++ (s.data ++ rest)) = .ok (s.owner, s.data ++ rest) :=
    readN_len _ _ ho
  have e2 : readN (size - 16) (s.data ++ rest) = .ok (s.data, rest) := readN_len _ _ (by omega)
  simp only [Impl.readSig, Impl.encSData, List.append_assoc, e1, e2]

theorem Impl.readSigs_ok {k size : Nat} {bs : Bytes} {ss : List Impl.SData} {rest : Bytes}
    (hs : 16 ≤ size) (h : Impl.readSigs size k bs = .ok (ss, rest)) :
    bs = (ss.map Impl.encSData).flatten ++ rest ∧ ss.length = k ∧
    ∀ s ∈ ss, s.owner.length = 16 ∧ s.data.length + 16 = size := by
  induction k generalizing bs ss with
  | zero =>
    simp only [Impl.readSigs, Except.ok.injEq, Prod.mk.injEq] at h
    obtain ⟨rfl, rfl⟩ := h; simp
  | succ k ih =>
    simp only [Impl.readSigs] at h
    split at h
    · simp at h
    · rename_i s r h1
      split at h
      · simp at h
      · rename_i ss' r' h2
        simp only [Except.ok.injEq, Prod.mk.injEq] at h
        obtain ⟨rfl, rfl⟩ := h
        obtain ⟨e1, w1⟩ := Impl.readSig_ok hs h1
        obtain ⟨e2, l2, w2⟩ := ih h2
        refine ⟨by simp [e1, e2, List.append_assoc], by simp [l2], ?_⟩
        intro x hx
        rcases List.mem_cons.mp hx with rfl | hx
        · exact w1
        · exact w2 x hx

theorem Impl.readSigs_enc {size : Nat} (ss : List Impl.SData) (rest : Bytes)
    (h : ∀ s ∈ ss, s.owner.length = 16 ∧ s.data.length + 16 = size) :
    Impl.readSigs size ss.length ((ss.map Impl.encSData).flatten ++ rest) = .ok (ss, rest) := by
  induction ss with
  | nil => simp [Impl.readSigs]
  | cons s ss ih =>
    obtain ⟨ho, hd⟩ := h s (by simp)
    have ih' := ih (fun x hx => h x (by simp [hx]))
    simp only [List.map_cons, List.flatten_cons, List.length_cons, Impl.readSigs, List.append_assoc,
      Impl.readSig_enc s _ ho hd, ih']

theorem Impl.flatten_enc_length {size : Nat} (ss : List Impl.SData)
    (h : ∀ s ∈ ss, s.owner.length = 16 ∧ s.data.length + 16 = size) :
    ((ss.map Impl.encSData).flatten).length = ss.length * size := by
  induction ss with
  | nil => simp
  | cons s ss ih =>
    have hs := h s (by simp)
    have := ih (fun x hx => h x (by simp [hx]))
    simp only [List.map_cons, List.flatten_cons, List.length_append, List.length_cons, this,
      Impl.encSData, Nat.succ_mul]
    omega

theorem Impl.readHeader_eof {bs : Bytes} (h : Impl.readHeader bs = .error .eof) : bs = [] := by
  unfold Impl.readHeader at h
  split at h
  · rename_i e h1
    simp only [Except.error.injEq] at h; subst h
    exact readN_eof h1
  · split at h
    · simp at h
    · split at h
      · simp at h
      · split at h <;> simp at h

theorem Impl.readHeader_ok {bs ty : Bytes} {L H S : Nat} {r4 : Bytes}
    (h : Impl.readHeader bs = .ok ((ty, L, H, S), r4)) :
    ∃ a b c : Bytes, bs = ty ++ (a ++ (b ++ (c ++ r4))) ∧ ty.length = 16 ∧ a.length = 4 ∧
      b.length = 4 ∧ c.length = 4 ∧ L = rd32 a ∧ H = rd32 b ∧ S = rd32 c := by
  unfold Impl.readHeader at h
  split at h
  · simp at h
  rename_i ty' r1 h1
  split at h
  · simp at h
  rename_i a r2 h2
  split at h
  · simp at h
  rename_i b r3 h3
  split at h
  · simp at h
  rename_i c r4' h4
  simp only [Except.ok.injEq, Prod.mk.injEq] at h
  obtain ⟨⟨rfl, rfl, rfl, rfl⟩, rfl⟩ := h
  obtain ⟨e1, l1⟩ := readN_ok h1
  obtain ⟨e2, l2⟩ := readN_ok h2
  obtain ⟨e3, l3⟩ := readN_ok h3
  obtain ⟨e4, l4⟩ := readN_ok h4
  exact ⟨a, b, c, by rw [e1, e2, e3, e4], l1, l2, l3, l4, rfl, rfl, rfl⟩

theorem Impl.readHeader_enc (ty a b c r4 : Bytes) (hty : ty.length = 16) (ha : a.length = 4)
    (hb : b.length = 4) (hc : c.length = 4) :
    Impl.readHeader (ty ++ (a ++ (b ++ (c ++ r4)))) = .ok ((ty, rd32 a, rd32 b, rd32 c), r4) := by
  simp only [Impl.readHeader, readN_len ty _ hty, readN_len a _ ha, readN_len b _ hb,
    readN_len c _ hc]

theorem Impl.readList_nil : Impl.readList [] = .cleanEof := by
  simp [Impl.readList, Impl.readHeader, readN]

theorem Impl.readList_cleanEof {bs : Bytes} (h : Impl.readList bs = .cleanEof) : bs = [] := by
  unfold Impl.readList at h
  split at h
  · rename_i he; exact Impl.readHeader_eof he
  · simp at h
  · split at h
    · simp at h
    · split at h
      · simp at h
      · split at h <;> simp at h

theorem Impl.encList_length_ge (l : Impl.SList) (h : l.type.length = 16) :
    28 ≤ (Impl.encList l).length := by
  simp [Impl.encList]; omega

theorem Impl.readList_ok {bs : Bytes} {l : Impl.SList} {rest : Bytes}
    (h : Impl.readList bs = .ok l rest) : bs = Impl.encList l ++ rest ∧ l.Wire := by
  unfold Impl.readList at h
  split at h
  · simp at h
  · simp at h
  rename_i ty L H S r4 hh
  split at h
  · simp at h
  rename_i hc
  split at h
  · simp at h
  rename_i hhd
  split at h
  · simp at h
  rename_i ss rest' h5
  simp only [Impl.LRes.ok.injEq] at h
  obtain ⟨rfl, rfl⟩ := h
  obtain ⟨a, b, c, e, lty, la, lb, lc, rfl, rfl, rfl⟩ := Impl.readHeader_ok hh
  have hhd' : Impl.handled ty (rd32 b) (rd32 c) = true := by simpa using hhd
  have hH : rd32 b = 0 := Impl.handled_hdr hhd'
  have hc' : 16 ≤ rd32 c ∧ 28 + rd32 b ≤ rd32 a ∧ (rd32 a - 28 - rd32 b) % rd32 c = 0 := by
    simp only [not_or, Nat.not_lt, Decidable.not_not] at hc; exact hc
  obtain ⟨c1, c2, c3⟩ := hc'
  obtain ⟨e5, l5, w5⟩ := Impl.readSigs_ok c1 h5
  have hmod : (rd32 a - 28) % rd32 c = 0 := by rw [hH] at c3; simpa using c3
  have hmul := Nat.div_mul_cancel (Nat.dvd_of_mod_eq_zero hmod)
  refine ⟨?_, ⟨lty, hH, rfl, c1, ?_, w5⟩, rd32_lt _, rd32_lt _, ?_⟩
  · simp only [Impl.encList, e, e5, le32_rd32 _ la, le32_rd32 _ lb, le32_rd32 _ lc,
      List.append_assoc, List.nil_append]
  · show rd32 a = 28 + ss.length * rd32 c
    rw [l5]; omega
  · show Impl.handled ty 0 (rd32 c) = true
    rw [← hH]; exact hhd'

theorem Impl.readList_enc {l : Impl.SList} (rest : Bytes) (h : l.Wire) :
    Impl.readList (Impl.encList l ++ rest) = .ok l rest := by
  obtain ⟨ty, LS, HS, S, hdr, sigs⟩ := l
  obtain ⟨⟨hty, hHS, hhdr, hS, hLS, hs⟩, b1, b2, hh⟩ := h
  simp only at hty hHS hhdr hS hLS hs b1 b2 hh
  subst hHS hhdr
  have e : Impl.encList ⟨ty, LS, 0, S, [], sigs⟩ ++ rest =
      ty ++ (le32 LS ++ (le32 0 ++ (le32 S ++ ((sigs.map Impl.encSData).flatten ++ rest)))) := by
    simp [Impl.encList, List.append_assoc]
  have hk : (LS - 28) / S = sigs.length := by
    rw [hLS, Nat.add_sub_cancel_left]; exact Nat.mul_div_cancel _ (by omega)
  have hm : (LS - 28 - 0) % S = 0 := by
    rw [hLS, Nat.sub_zero, Nat.add_sub_cancel_left]; exact Nat.mul_mod_left _ _
  have r0 : rd32 (le32 0) = 0 := rd32_le32 0 (by omega)
  have hhdr := Impl.readHeader_enc ty (le32 LS) (le32 0) (le32 S)
    ((sigs.map Impl.encSData).flatten ++ rest) hty rfl rfl rfl
  rw [rd32_le32 _ b1, rd32_le32 _ b2, r0] at hhdr
  rw [e]
  simp only [Impl.readList, hhdr]
  rw [if_neg (by rw [hm]; omega)]
  simp only [hh, Bool.not_true, Bool.false_eq_true, if_false, hk, Impl.readSigs_enc sigs rest hs]

theorem Impl.encDb_cons (l : Impl.SList) (ls : Impl.Db) :
    Impl.encDb (l :: ls) = Impl.encList l ++ Impl.encDb ls := by
  simp [Impl.encDb]

theorem Impl.readDbAux_ok {fuel : Nat} {bs : Bytes} {db : Impl.Db}
    (h : Impl.readDbAux fuel bs = some db) : bs = Impl.encDb db ∧ ∀ l ∈ db, l.Wire := by
  induction fuel generalizing bs db with
  | zero => simp [Impl.readDbAux] at h
  | succ fuel ih =>
    simp only [Impl.readDbAux] at h
    split at h
    · rename_i he
      simp only [Option.some.injEq] at h; subst h
      exact ⟨by rw [Impl.readList_cleanEof he]; rfl, by simp⟩
    · simp at h
    · rename_i l rest h1
      split at h
      · simp at h
      · rename_i ls h2
        simp only [Option.some.injEq] at h; subst h
        obtain ⟨e1, w1⟩ := Impl.readList_ok h1
        obtain ⟨e2, w2⟩ := ih h2
        refine ⟨by rw [Impl.encDb_cons, ← e2, ← e1], ?_⟩
        intro x hx
        rcases List.mem_cons.mp hx with rfl | hx
        · exact w1
        · exact w2 x hx

theorem Impl.readDbAux_enc (db : Impl.Db) (h : ∀ l ∈ db, l.Wire) (fuel : Nat)
    (hf : db.length < fuel) : Impl.readDbAux fuel (Impl.encDb db) = some db := by
  induction db generalizing fuel with
  | nil =>
    cases fuel with
    | zero => omega
    | succ fuel => simp [Impl.readDbAux, Impl.encDb, Impl.readList_nil]
  | cons l ls ih =>
    cases fuel with
    | zero => omega
    | succ fuel =>
      simp only [Impl.readDbAux, Impl.encDb_cons, Impl.readList_enc _ (h l (by simp))]
      rw [ih (fun x hx => h x (by simp [hx])) fuel (by simp at hf; omega)]

theorem Impl.encDb_length_ge (db : Impl.Db) (h : ∀ l ∈ db, l.type.length = 16) :
    db.length ≤ (Impl.encDb db).length := by
  induction db with
  | nil => simp
  | cons l ls ih =>
    have := Impl.encList_length_ge l (h l (by simp))
    have := ih (fun x hx => h x (by simp [hx]))
    rw [Impl.encDb_cons, List.length_append, List.length_cons]; omega

theorem Impl.readDb_ok {bs : Bytes} {db : Impl.Db} (h : Impl.readDb bs = some db) :
    bs = Impl.encDb db ∧ ∀ l ∈ db, l.Wire := Impl.readDbAux_ok h

theorem Impl.readDb_enc (db : Impl.Db) (h : ∀ l ∈ db, l.Wire) :
    Impl.readDb (Impl.encDb db) = some db := by
  unfold Impl.readDb
  apply Impl.readDbAux_enc db h
  have := Impl.encDb_length_ge db (fun l hl => (h l hl).1.1)
  omega

/-! ## Part 3: bridge between the reader model and the specification codec -/

/-- the specification-level value of a list held by the implementation (size fields dropped) -/
def Impl.SList.toSpec (l : Impl.SList) : Spec.SList :=
  ⟨l.type, l.hdr, l.size, l.sigs.map fun s => ⟨s.owner, s.data⟩⟩

/-- the implementation-level value the specification prescribes (size fields derived) -/
def Impl.ofSpec (l : Spec.SList) : Impl.SList :=
  ⟨l.type, l.listSize, l.hdr.length, l.size, l.hdr, l.sigs.map fun s => ⟨s.owner, s.data⟩⟩

theorem Impl.toSpec_ofSpec (l : Spec.SList) : (Impl.ofSpec l).toSpec = l := by
  obtain ⟨ty, hdr, size, sigs⟩ := l
  simp [Impl.ofSpec, Impl.SList.toSpec, List.map_map, Function.comp_def]

theorem Impl.map_toSpec_ofSpec (ls : List Spec.SList) :
    (ls.map Impl.ofSpec).map Impl.SList.toSpec = ls := by
  induction ls with
  | nil => rfl
  | cons l ls ih => simp only [List.map_cons, Impl.toSpec_ofSpec, ih]

theorem Impl.encSigs_ofSpec (ss : List Spec.SData) :
    ((ss.map fun s => (⟨s.owner, s.data⟩ : Impl.SData)).map Impl.encSData).flatten
      = (ss.map Spec.encSData).flatten := by
  induction ss with
  | nil => rfl
  | cons s ss ih => simp only [List.map_cons, List.flatten_cons, ih, Impl.encSData, Spec.encSData]

theorem Impl.encSigs_toSpec (ss : List Impl.SData) :
    ((ss.map fun s => (⟨s.owner, s.data⟩ : Spec.SData)).map Spec.encSData).flatten
      = (ss.map Impl.encSData).flatten := by
  induction ss with
  | nil => rfl
  | cons s ss ih => simp only [List.map_cons, List.flatten_cons, ih, Impl.encSData, Spec.encSData]

theorem Impl.encList_ofSpec (l : Spec.SList) : Impl.encList (Impl.ofSpec l) = Spec.encList l := by
  simp only [Impl.encList, Impl.ofSpec, Spec.encList, Impl.encSigs_ofSpec]

theorem Impl.encDb_ofSpec (ls : List Spec.SList) :
    Impl.encDb (ls.map Impl.ofSpec) = Spec.encDb ls := by
  induction ls with
  | nil => rfl
  | cons l ls ih => rw [List.map_cons, Impl.encDb_cons, Spec.encDb_cons, ih, Impl.encList_ofSpec]

theorem Impl.encList_toSpec {l : Impl.SList} (h : l.Canon) :
    Spec.encList l.toSpec = Impl.encList l := by
  obtain ⟨_, hH, hhdr, _, hLS, _⟩ := h
  simp only [Spec.encList, Impl.SList.toSpec, Impl.encList, Spec.SList.listSize,
    Impl.encSigs_toSpec, List.length_map, hhdr, hH, hLS, List.length_nil, Nat.add_zero]

theorem Impl.encDb_toSpec {db : Impl.Db} (h : ∀ l ∈ db, l.Canon) :
    Spec.encDb (db.map Impl.SList.toSpec) = Impl.encDb db := by
  induction db with
  | nil => rfl
  | cons l ls ih =>
    rw [List.map_cons, Impl.encDb_cons, Spec.encDb_cons, ih (fun x hx => h x (by simp [hx])),
      Impl.encList_toSpec (h l (by simp))]

theorem Impl.toSpec_wf32 {l : Impl.SList} (h : l.Canon) (b1 : l.listSize < 2^32)
    (b2 : l.size < 2^32) : l.toSpec.WF32 := by
  obtain ⟨hty, hH, hhdr, hS, hLS, hs⟩ := h
  refine ⟨⟨hty, hS, ?_, ?_⟩, b2⟩
  · simp only [Spec.SList.listSize, Impl.SList.toSpec, List.length_map, hhdr, List.length_nil]
    omega
  · intro s hs'
    simp only [Impl.SList.toSpec, List.mem_map] at hs'
    obtain ⟨x, hx, rfl⟩ := hs'
    exact hs x hx

theorem Impl.ofSpec_wire {l : Spec.SList} (h : l.WF32)
    (hh : Impl.handled l.type l.hdr.length l.size = true) : (Impl.ofSpec l).Wire := by
  obtain ⟨⟨hty, hS, hLS, hs⟩, b2⟩ := h
  have h0 : l.hdr.length = 0 := Impl.handled_hdr hh
  have hnil : l.hdr = [] := List.eq_nil_of_length_eq_zero h0
  refine ⟨⟨hty, h0, hnil, hS, ?_, ?_⟩, hLS, b2, ?_⟩
  · simp only [Impl.ofSpec, Spec.SList.listSize, List.length_map, h0, Nat.add_zero]
  · intro s hs'
    simp only [Impl.ofSpec, List.mem_map] at hs'
    obtain ⟨x, hx, rfl⟩ := hs'
    exact hs x hx
  · rw [← h0]; exact hh

theorem Spec.decodeDb_ok {bs : Bytes} {ls : List Spec.SList} (h : Spec.decodeDb bs = some ls) :
    Spec.encDb ls = bs ∧ ∀ l ∈ ls, l.WF32 := Spec.decodeDbAux_ok h

theorem Spec.decodeDb_enc (ls : List Spec.SList) (h : ∀ l ∈ ls, l.WF32) :
    Spec.decodeDb (Spec.encDb ls) = some ls :=
  Spec.decodeDbAux_enc ls h _ (Nat.le_refl _)

/-- a successful read is exactly what the specification's decoder yields -/
theorem Impl.readDb_decodeDb {bs : Bytes} {db : Impl.Db} (h : Impl.readDb bs = some db) :
    Spec.decodeDb bs = some (db.map Impl.SList.toSpec) := by
  obtain ⟨e, w⟩ := Impl.readDb_ok h
  rw [e, ← Impl.encDb_toSpec (fun l hl => (w l hl).1)]
  apply Spec.decodeDb_enc
  intro l hl
  simp only [List.mem_map] at hl
  obtain ⟨x, hx, rfl⟩ := hl
  exact Impl.toSpec_wf32 (w x hx).1 (w x hx).2.1 (w x hx).2.2.1

/-- on streams of handled list types the reader agrees with the specification's decoder -/
theorem Impl.decodeDb_readDb {bs : Bytes} {ls : List Spec.SList} (h : Spec.decodeDb bs = some ls)
    (hh : ∀ l ∈ ls, Impl.handled l.type l.hdr.length l.size = true) :
    Impl.readDb bs = some (ls.map Impl.ofSpec) := by
  obtain ⟨e, w⟩ := Spec.decodeDb_ok h
  rw [← e, ← Impl.encDb_ofSpec]
  apply Impl.readDb_enc
  intro l hl
  simp only [List.mem_map] at hl
  obtain ⟨x, hx, rfl⟩ := hl
  exact Impl.ofSpec_wire (w x hx) (hh x hx)

/-- two well-formed list sequences, one of whose encodings is a prefix of the other's, are
    themselves in the prefix relation (the encoding is prefix-free list by list) -/
theorem Spec.encDb_prefix (ms ls : List Spec.SList) (q : Bytes) (hm : ∀ l ∈ ms, l.WF32)
    (hl : ∀ l ∈ ls, l.WF32) (h : Spec.encDb ms ++ q = Spec.encDb ls) :
    ms = ls.take ms.length ∧ q = Spec.encDb (ls.drop ms.length) := by
  induction ms generalizing ls with
  | nil => simpa [Spec.encDb] using h
  | cons m ms ih =>
    have hmw := hm m (by simp)
    cases ls with
    | nil =>
      have h28 := Spec.encList_length_ge m hmw.1.1
      have := congrArg List.length h
      rw [Spec.encDb_cons] at this
      simp only [List.length_append, Spec.encDb, List.map_nil, List.flatten_nil,
        List.length_nil] at this
      omega
    | cons l ls =>
      have hlw := hl l (by simp)
      rw [Spec.encDb_cons, Spec.encDb_cons, List.append_assoc] at h
      have d1 := Spec.decodeList_enc (Spec.encDb ms ++ q) hmw
      have d2 := Spec.decodeList_enc (Spec.encDb ls) hlw
      rw [h, d2] at d1
      simp only [Option.some.injEq, Prod.mk.injEq] at d1
      obtain ⟨rfl, e⟩ := d1
      obtain ⟨i1, i2⟩ := ih ls (fun x hx => hm x (by simp [hx])) (fun x hx => hl x (by simp [hx])) e.symm
      exact ⟨by simp only [List.length_cons, List.take_succ_cons]; rw [← i1],
             by simpa using i2⟩

/-! ## Part 4: database operations (C09) -/

/-- representation invariant of one list: canonical form (`Canon`) and no duplicate entry -/
def Impl.SList.Inv (l : Impl.SList) : Prop :=
  l.type.length = 16 ∧ l.hdrSize = 0 ∧ l.hdr = [] ∧ 16 ≤ l.size ∧
  l.listSize = 28 + l.sigs.length * l.size ∧
  (∀ s ∈ l.sigs, s.owner.length = 16 ∧ s.data.length + 16 = l.size) ∧ l.sigs.Nodup

def Impl.Db.Inv (db : Impl.Db) : Prop := ∀ l ∈ db, l.Inv

theorem Impl.SList.Inv.canon {l : Impl.SList} (h : l.Inv) : l.Canon :=
  ⟨h.1, h.2.1, h.2.2.1, h.2.2.2.1, h.2.2.2.2.1, h.2.2.2.2.2.1⟩

theorem Impl.SList.inv_of_canon {l : Impl.SList} (h : l.Canon) (hnd : l.sigs.Nodup) : l.Inv :=
  ⟨h.1, h.2.1, h.2.2.1, h.2.2.2.1, h.2.2.2.2.1, h.2.2.2.2.2, hnd⟩

theorem Impl.Db.inv_cons {l : Impl.SList} {ls : Impl.Db} :
    Impl.Db.Inv (l :: ls) ↔ l.Inv ∧ Impl.Db.Inv ls := by
  simp [Impl.Db.Inv]

/-- PEM normalisation is idempotent (decoding the DER it produced changes nothing) -/
def Impl.Env.Idem (E : Impl.Env) : Prop := ∀ t d, E.norm t (E.norm t d) = E.norm t d

/-- it is whenever the output of the PEM decoder is never itself PEM -/
theorem Impl.Env.idem_of_pem (E : Impl.Env)
    (h : ∀ d x, E.pemDecode d = some x → E.pemDecode x = none) : E.Idem := by
  intro t d
  by_cases ht : t = Impl.guidX509
  · cases hp : E.pemDecode d with
    | none => simp [Impl.Env.norm, ht, hp]
    | some x => simp [Impl.Env.norm, ht, hp, h d x hp]
  · simp [Impl.Env.norm, ht]

theorem Impl.schemes_length : ∀ t ∈ Impl.schemes, t.length = 16 := by decide

/-! ### abstraction -/

theorem Impl.abs_nil : Impl.abs [] = [] := rfl

theorem Impl.abs_cons (l : Impl.SList) (ls : Impl.Db) :
    Impl.abs (l :: ls) = (l.sigs.map fun s => (l.type, s.owner, s.data)) ++ Impl.abs ls := by
  simp [Impl.abs]

theorem Impl.abs_append (a b : Impl.Db) : Impl.abs (a ++ b) = Impl.abs a ++ Impl.abs b := by
  simp [Impl.abs]

theorem Impl.SList.has_iff (l : Impl.SList) (o d : Bytes) :
    l.has o d = true ↔ (⟨o, d⟩ : Impl.SData) ∈ l.sigs := by
  simp [Impl.SList.has]

theorem Impl.mem_abs_cons {l : Impl.SList} {ls : Impl.Db} {t o d : Bytes} :
    (t, o, d) ∈ Impl.abs (l :: ls) ↔
      (l.type = t ∧ (⟨o, d⟩ : Impl.SData) ∈ l.sigs) ∨ (t, o, d) ∈ Impl.abs ls := by
  rw [Impl.abs_cons, List.mem_append, List.mem_map]
  constructor
  · rintro (⟨s, hs, h⟩ | h)
    · simp only [Prod.mk.injEq] at h
      obtain ⟨rfl, rfl, rfl⟩ := h
      exact Or.inl ⟨rfl, hs⟩
    · exact Or.inr h
  · rintro (⟨rfl, hs⟩ | h)
    · exact Or.inl ⟨⟨o, d⟩, hs, rfl⟩
    · exact Or.inr h

theorem Impl.has_iff (db : Impl.Db) (t o d : Bytes) :
    db.has t o d = true ↔ (t, o, d) ∈ Impl.abs db := by
  induction db with
  | nil => simp [Impl.Db.has, Impl.abs]
  | cons l ls ih =>
    rw [Impl.mem_abs_cons, ← ih]
    simp [Impl.Db.has, Impl.SList.has]

theorem Impl.hasAll_iff (db : Impl.Db) (t : Bytes) (sigs : List Impl.SData) :
    db.hasAll t sigs = true ↔ ∀ s ∈ sigs, (t, s.owner, s.data) ∈ Impl.abs db := by
  simp only [Impl.Db.hasAll, List.all_eq_true, Impl.has_iff]

/-! ### append -/

theorem Impl.appendBytes_ok {E : Impl.Env} {l l' : Impl.SList} {o d : Bytes}
    (h : l.appendBytes E o d = .ok l') :
    (⟨o, E.norm l.type d⟩ : Impl.SData) ∉ l.sigs ∧
    ¬(l.type = Impl.guidSha256 ∧ (E.norm l.type d).length ≠ 32) ∧
    (l.sigs = [] ∨ (E.norm l.type d).length + 16 = l.size) ∧
    l' = { l with sigs := l.sigs ++ [⟨o, E.norm l.type d⟩],
                  size := (E.norm l.type d).length + 16,
                  listSize := l.listSize + ((E.norm l.type d).length + 16) } := by
  simp only [Impl.SList.appendBytes] at h
  split at h
  · simp at h
  rename_i h1
  split at h
  · simp at h
  rename_i h2
  split at h
  · simp at h
  split at h
  · simp at h
  rename_i h3
  simp only [Except.ok.injEq] at h
  refine ⟨?_, h2, ?_, h.symm⟩
  · rw [← Impl.SList.has_iff]; exact h1
  · by_cases hn : l.sigs = []
    · exact Or.inl hn
    · right
      apply Decidable.byContradiction
      intro hne
      exact h3 ⟨hn, hne⟩

theorem Impl.appendBytes_error {E : Impl.Env} {l : Impl.SList} {o d : Bytes} {e : Impl.AErr}
    (h : l.appendBytes E o d = .error e) :
    (⟨o, E.norm l.type d⟩ : Impl.SData) ∈ l.sigs ∨
    (l.type = Impl.guidSha256 ∧ (E.norm l.type d).length ≠ 32) ∨
    (l.type = Impl.guidExternal ∧ (E.norm l.type d).length ≠ 1) ∨
    (l.sigs ≠ [] ∧ (E.norm l.type d).length + 16 ≠ l.size) := by
  simp only [Impl.SList.appendBytes] at h
  split at h
  · rename_i h1; exact Or.inl ((Impl.SList.has_iff l o _).mp h1)
  split at h
  · rename_i h2; exact Or.inr (Or.inl h2)
  split at h
  · rename_i h2; exact Or.inr (Or.inr (Or.inl h2))
  split at h
  · rename_i h3; exact Or.inr (Or.inr (Or.inr h3))
  · simp at h

theorem Impl.appendBytes_sha_error {E : Impl.Env} {l : Impl.SList} {o d : Bytes}
    (ht : l.type = Impl.guidSha256) (hl : (E.norm l.type d).length ≠ 32) :
    ∃ e, l.appendBytes E o d = .error e := by
  simp only [Impl.SList.appendBytes]
  split
  · exact ⟨_, rfl⟩
  · rw [if_pos ⟨ht, hl⟩]; exact ⟨_, rfl⟩

/-- F37 repair: an externally-managed entry that is not one byte is refused by the list -/
theorem Impl.appendBytes_ext_error {E : Impl.Env} {l : Impl.SList} {o d : Bytes}
    (ht : l.type = Impl.guidExternal) (hl : (E.norm l.type d).length ≠ 1) :
    ∃ e, l.appendBytes E o d = .error e := by
  simp only [Impl.SList.appendBytes]
  split
  · exact ⟨_, rfl⟩
  · split
    · exact ⟨_, rfl⟩
    · rw [if_pos ⟨ht, hl⟩]; exact ⟨_, rfl⟩

/-- what a successful `AppendBytes` lets in has the size the specification fixes for its type -/
theorem Impl.appendBytes_ok_sized {E : Impl.Env} {l l' : Impl.SList} {o d : Bytes}
    (h : l.appendBytes E o d = .ok l') :
    (l.type = Impl.guidSha256 → (E.norm l.type d).length = 32) ∧
    (l.type = Impl.guidExternal → (E.norm l.type d).length = 1) := by
  constructor
  · intro ht
    apply Decidable.byContradiction
    intro hl
    obtain ⟨e, he⟩ := Impl.appendBytes_sha_error (E := E) (o := o) ht hl
    rw [he] at h; nomatch h
  · intro ht
    apply Decidable.byContradiction
    intro hl
    obtain ⟨e, he⟩ := Impl.appendBytes_ext_error (E := E) (o := o) ht hl
    rw [he] at h; nomatch h

theorem Impl.appendBytes_inv {E : Impl.Env} {l l' : Impl.SList} {o d : Bytes}
    (hty : l.type.length = 16) (hH : l.hdrSize = 0) (hhdr : l.hdr = [])
    (hLS : l.listSize = 28 + l.sigs.length * l.size)
    (hs : ∀ s ∈ l.sigs, s.owner.length = 16 ∧ s.data.length + 16 = l.size)
    (hnd : l.sigs.Nodup) (ho : o.length = 16)
    (h : l.appendBytes E o d = .ok l') : l'.Inv := by
  obtain ⟨hnew, _, h3, e⟩ := Impl.appendBytes_ok h
  clear h
  generalize E.norm l.type d = d' at *
  subst e
  refine ⟨hty, hH, hhdr, ?_, ?_, ?_, ?_⟩
  · show 16 ≤ d'.length + 16
    omega
  · show l.listSize + (d'.length + 16) =
      28 + (l.sigs ++ [(⟨o, d'⟩ : Impl.SData)]).length * (d'.length + 16)
    rw [List.length_append, List.length_singleton, Nat.succ_mul, hLS]
    rcases h3 with h3 | h3
    · rw [h3]; simp
    · rw [h3]; omega
  · intro s hs'
    show s.owner.length = 16 ∧ s.data.length + 16 = d'.length + 16
    have hs'' : s ∈ l.sigs ++ [(⟨o, d'⟩ : Impl.SData)] := hs'
    rcases List.mem_append.mp hs'' with hm | hm
    · rcases h3 with h3 | h3
      · rw [h3] at hm; simp at hm
      · rw [h3]; exact hs s hm
    · simp only [List.mem_singleton] at hm
      subst hm; exact ⟨ho, rfl⟩
  · show (l.sigs ++ [(⟨o, d'⟩ : Impl.SData)]).Nodup
    rw [List.nodup_append]
    refine ⟨hnd, by simp, ?_⟩
    intro a ha b hb hab
    simp only [List.mem_singleton] at hb
    subst hb; subst hab
    exact hnew ha

theorem Impl.appendInto_abs {E : Impl.Env} {t o d : Bytes} {db db' : Impl.Db}
    (h : Impl.appendInto E t o d db = .ok db') :
    ∃ pre post, Impl.abs db = pre ++ post ∧ Impl.abs db' = pre ++ (t, o, E.norm t d) :: post := by
  induction db generalizing db' with
  | nil =>
    simp only [Impl.appendInto] at h
    split at h
    · rename_i l' h1
      simp only [Except.ok.injEq] at h; subst h
      obtain ⟨_, _, _, rfl⟩ := Impl.appendBytes_ok h1
      exact ⟨[], [], rfl, by simp [Impl.abs, Impl.newList]⟩
    · simp at h
  | cons l ls ih =>
    simp only [Impl.appendInto] at h
    split at h
    · rename_i hc
      split at h
      · rename_i l' h1
        simp only [Except.ok.injEq] at h; subst h
        obtain ⟨_, _, _, rfl⟩ := Impl.appendBytes_ok h1
        refine ⟨l.sigs.map (fun s => (l.type, s.owner, s.data)), Impl.abs ls, Impl.abs_cons l ls, ?_⟩
        rw [Impl.abs_cons]
        simp [hc.1]
      · simp at h
    · split at h
      · rename_i ls' h1
        simp only [Except.ok.injEq] at h; subst h
        obtain ⟨pre, post, e1, e2⟩ := ih h1
        refine ⟨l.sigs.map (fun s => (l.type, s.owner, s.data)) ++ pre, post, ?_, ?_⟩
        · rw [Impl.abs_cons, e1, List.append_assoc]
        · rw [Impl.abs_cons, e2, List.append_assoc]
      · simp at h

/-- since the F27 repair the list-level duplicate check looks at what is stored, so no idempotence
    hypothesis (`E.norm t d = d`) is needed any more -/
theorem Impl.appendInto_inv {E : Impl.Env} {t o d : Bytes} {db db' : Impl.Db}
    (hinv : Impl.Db.Inv db) (ho : o.length = 16) (ht : t.length = 16)
    (h : Impl.appendInto E t o d db = .ok db') : Impl.Db.Inv db' := by
  induction db generalizing db' with
  | nil =>
    simp only [Impl.appendInto] at h
    split at h
    · rename_i l' h1
      simp only [Except.ok.injEq] at h; subst h
      intro x hx
      simp only [List.mem_singleton] at hx; subst hx
      exact Impl.appendBytes_inv (l := Impl.newList t) ht rfl rfl (by simp [Impl.newList])
        (by simp [Impl.newList]) (by simp [Impl.newList]) ho h1
    · simp at h
  | cons l ls ih =>
    obtain ⟨hl, hls⟩ := Impl.Db.inv_cons.mp hinv
    simp only [Impl.appendInto] at h
    split at h
    · rename_i hc
      split at h
      · rename_i l' h1
        simp only [Except.ok.injEq] at h; subst h
        obtain ⟨hty, hH, hhdr, _, hLS, hs, hnd⟩ := hl
        exact Impl.Db.inv_cons.mpr ⟨Impl.appendBytes_inv hty hH hhdr hLS hs hnd ho h1, hls⟩
      · simp at h
    · split at h
      · rename_i ls' h1
        simp only [Except.ok.injEq] at h; subst h
        exact Impl.Db.inv_cons.mpr ⟨hl, ih hls h1⟩
      · simp at h

theorem Impl.appendInto_error {E : Impl.Env} {t o d : Bytes} {db : Impl.Db} {e : Impl.AErr}
    (hd : E.norm t d = d) (h : Impl.appendInto E t o d db = .error e) :
    (t, o, d) ∈ Impl.abs db ∨ (t = Impl.guidSha256 ∧ d.length ≠ 32) ∨
      (t = Impl.guidExternal ∧ d.length ≠ 1) := by
  induction db with
  | nil =>
    simp only [Impl.appendInto] at h
    split at h
    · simp at h
    · rename_i e' h1
      rcases Impl.appendBytes_error h1 with h2 | h2 | h2 | h2
      · simp [Impl.newList] at h2
      · right; left
        have h2' : t = Impl.guidSha256 ∧ (E.norm t d).length ≠ 32 := h2
        rw [hd] at h2'; exact h2'
      · right; right
        have h2' : t = Impl.guidExternal ∧ (E.norm t d).length ≠ 1 := h2
        rw [hd] at h2'; exact h2'
      · simp [Impl.newList] at h2
  | cons l ls ih =>
    simp only [Impl.appendInto] at h
    split at h
    · rename_i hc
      split at h
      · simp at h
      · rename_i e' h1
        rcases Impl.appendBytes_error h1 with h2 | h2 | h2 | h2
        · rw [hc.1, hd] at h2; exact Or.inl (Impl.mem_abs_cons.mpr (Or.inl ⟨hc.1, h2⟩))
        · rw [hc.1, hd] at h2; exact Or.inr (Or.inl h2)
        · rw [hc.1, hd] at h2; exact Or.inr (Or.inr h2)
        · rw [hc.1, hd] at h2; exact absurd hc.2.symm h2.2
    · split at h
      · simp at h
      · rename_i e' h1
        simp only [Except.error.injEq] at h; subst h
        rcases ih h1 with h2 | h2
        · exact Or.inl (Impl.mem_abs_cons.mpr (Or.inr h2))
        · exact Or.inr h2

theorem Impl.appendInto_sha_error {E : Impl.Env} {t o d : Bytes} (db : Impl.Db)
    (hd : E.norm t d = d) (ht : t = Impl.guidSha256) (hl : d.length ≠ 32) :
    ∃ e, Impl.appendInto E t o d db = .error e := by
  induction db with
  | nil =>
    obtain ⟨e, he⟩ := Impl.appendBytes_sha_error (E := E) (l := Impl.newList t) (o := o) (d := d) ht
      (by show (E.norm t d).length ≠ 32; rw [hd]; exact hl)
    simp only [Impl.appendInto, he]; exact ⟨e, rfl⟩
  | cons l ls ih =>
    simp only [Impl.appendInto]
    split
    · rename_i hc
      obtain ⟨e, he⟩ := Impl.appendBytes_sha_error (E := E) (l := l) (o := o) (d := d)
        (hc.1.trans ht) (by rw [hc.1, hd]; exact hl)
      rw [he]; exact ⟨e, rfl⟩
    · obtain ⟨e, he⟩ := ih
      rw [he]; exact ⟨e, rfl⟩

/-- F37 repair: whatever lists are present, externally-managed data that is not one byte is refused -/
theorem Impl.appendInto_ext_error {E : Impl.Env} {t o d : Bytes} (db : Impl.Db)
    (hd : E.norm t d = d) (ht : t = Impl.guidExternal) (hl : d.length ≠ 1) :
    ∃ e, Impl.appendInto E t o d db = .error e := by
  induction db with
  | nil =>
    obtain ⟨e, he⟩ := Impl.appendBytes_ext_error (E := E) (l := Impl.newList t) (o := o) (d := d) ht
      (by show (E.norm t d).length ≠ 1; rw [hd]; exact hl)
    simp only [Impl.appendInto, he]; exact ⟨e, rfl⟩
  | cons l ls ih =>
    simp only [Impl.appendInto]
    split
    · rename_i hc
      obtain ⟨e, he⟩ := Impl.appendBytes_ext_error (E := E) (l := l) (o := o) (d := d)
        (hc.1.trans ht) (by rw [hc.1, hd]; exact hl)
      rw [he]; exact ⟨e, rfl⟩
    · obtain ⟨e, he⟩ := ih
      rw [he]; exact ⟨e, rfl⟩

theorem Impl.Db.append_ok {E : Impl.Env} {db db' : Impl.Db} {t o d : Bytes}
    (h : db.append E t o d = .ok db') :
    t ∈ Impl.schemes ∧ (t, o, E.norm t d) ∉ Impl.abs db ∧
      Impl.appendInto E t o (E.norm t d) db = .ok db' := by
  unfold Impl.Db.append at h
  split at h
  · simp at h
  rename_i h1
  split at h
  · simp at h
  rename_i h2
  refine ⟨by simpa using h1, ?_, h⟩
  rw [← Impl.has_iff]; exact h2

theorem Impl.Db.append_error_iff {E : Impl.Env} {db : Impl.Db} {t o d : Bytes}
    (hidem : E.norm t (E.norm t d) = E.norm t d) :
    (∃ e, db.append E t o d = .error e) ↔
      (t ∉ Impl.schemes ∨ (t, o, E.norm t d) ∈ Impl.abs db ∨
        (t = Impl.guidSha256 ∧ (E.norm t d).length ≠ 32) ∨
        (t = Impl.guidExternal ∧ (E.norm t d).length ≠ 1)) := by
  unfold Impl.Db.append
  by_cases h1 : t ∈ Impl.schemes
  · have h1' : (!Impl.schemes.contains t) = false := by simpa using h1
    rw [h1']
    by_cases h2 : (t, o, E.norm t d) ∈ Impl.abs db
    · have h2' := (Impl.has_iff db t o (E.norm t d)).mpr h2
      rw [h2']
      exact ⟨fun _ => Or.inr (Or.inl h2), fun _ => ⟨_, rfl⟩⟩
    · have h2' : db.has t o (E.norm t d) = false := by
        cases hh : db.has t o (E.norm t d) with
        | false => rfl
        | true => exact absurd ((Impl.has_iff _ _ _ _).mp hh) h2
      rw [h2']
      simp only [Bool.false_eq_true, if_false]
      constructor
      · rintro ⟨e, he⟩
        rcases Impl.appendInto_error hidem he with h3 | h3
        · exact absurd h3 h2
        · exact Or.inr (Or.inr h3)
      · rintro (h3 | h3 | h3 | h3)
        · exact absurd h1 h3
        · exact absurd h3 h2
        · exact Impl.appendInto_sha_error db hidem h3.1 h3.2
        · exact Impl.appendInto_ext_error db hidem h3.1 h3.2
  · have h1' : (!Impl.schemes.contains t) = true := by simpa using h1
    rw [h1']
    exact ⟨fun _ => Or.inl h1, fun _ => ⟨_, rfl⟩⟩

/-! ### remove -/

theorem Impl.erase_inv {l : Impl.SList} {o d : Bytes} (hl : l.Inv)
    (hmem : (⟨o, d⟩ : Impl.SData) ∈ l.sigs) (hlen : l.sigs.length ≠ 1) :
    Impl.SList.Inv { l with sigs := l.sigs.erase ⟨o, d⟩, listSize := l.listSize - l.size } ∧
      l.sigs.erase ⟨o, d⟩ ≠ [] := by
  obtain ⟨hty, hH, hhdr, hS, hLS, hs, hnd⟩ := hl
  have hpos := List.length_pos_of_mem hmem
  obtain ⟨k, hk⟩ : ∃ k, l.sigs.length = k + 1 := ⟨l.sigs.length - 1, by omega⟩
  have hel : (l.sigs.erase ⟨o, d⟩).length = k := by
    rw [List.length_erase_of_mem hmem, hk]; rfl
  refine ⟨⟨hty, hH, hhdr, hS, ?_, ?_, hnd.erase _⟩, ?_⟩
  · show l.listSize - l.size = 28 + (l.sigs.erase ⟨o, d⟩).length * l.size
    rw [hel, hLS, hk, Nat.succ_mul]; omega
  · intro s hs'
    exact hs s (List.mem_of_mem_erase hs')
  · intro hnil
    rw [hnil] at hel
    simp at hel
    omega

theorem Impl.removeFrom_ok {t o d : Bytes} {db db' : Impl.Db} {b : Bool}
    (hinv : Impl.Db.Inv db) (h : Impl.removeFrom t o d db b = .ok db') :
    Impl.Db.Inv db' ∧
    (∃ pre post, Impl.abs db = pre ++ (t, o, d) :: post ∧ Impl.abs db' = pre ++ post) ∧
    ∀ l ∈ db', l.sigs = [] → l ∈ db := by
  induction db generalizing b db' with
  | nil => simp [Impl.removeFrom] at h
  | cons l ls ih =>
    obtain ⟨hl, hls⟩ := Impl.Db.inv_cons.mp hinv
    simp only [Impl.removeFrom] at h
    split at h
    · rename_i hc
      split at h
      · rename_i hhas
        have hmem : (⟨o, d⟩ : Impl.SData) ∈ l.sigs := (Impl.SList.has_iff l o d).mp hhas
        split at h
        · rename_i hlen
          simp only [Except.ok.injEq] at h; subst h
          have hone : l.sigs = [⟨o, d⟩] := by
            cases hsg : l.sigs with
            | nil => rw [hsg] at hmem; simp at hmem
            | cons x xs =>
              rw [hsg] at hlen hmem
              simp only [List.length_cons, Nat.add_eq_right, List.length_eq_zero_iff] at hlen
              subst hlen
              simp only [List.mem_singleton] at hmem
              rw [hmem]
          refine ⟨hls, ⟨[], Impl.abs ls, ?_, rfl⟩, fun x hx _ => List.mem_cons_of_mem _ hx⟩
          rw [Impl.abs_cons, hone, hc.1]; rfl
        · rename_i hlen
          simp only [Except.ok.injEq] at h; subst h
          obtain ⟨hinv', hne⟩ := Impl.erase_inv hl hmem hlen
          obtain ⟨a, b', _, hsplit, herase⟩ := List.exists_erase_eq hmem
          refine ⟨Impl.Db.inv_cons.mpr ⟨hinv', hls⟩,
            ⟨a.map (fun s => (l.type, s.owner, s.data)),
             b'.map (fun s => (l.type, s.owner, s.data)) ++ Impl.abs ls, ?_, ?_⟩, ?_⟩
          · rw [Impl.abs_cons, hsplit, ← hc.1]; simp
          · rw [Impl.abs_cons]
            simp only [herase, List.map_append, List.append_assoc]
          · intro x hx hxe
            rcases List.mem_cons.mp hx with rfl | hx
            · exact absurd hxe hne
            · exact List.mem_cons_of_mem _ hx
      · split at h
        · rename_i ls' h1
          simp only [Except.ok.injEq] at h; subst h
          obtain ⟨i1, ⟨pre, post, e1, e2⟩, i3⟩ := ih hls h1
          refine ⟨Impl.Db.inv_cons.mpr ⟨hl, i1⟩,
            ⟨l.sigs.map (fun s => (l.type, s.owner, s.data)) ++ pre, post, ?_, ?_⟩, ?_⟩
          · rw [Impl.abs_cons, e1, List.append_assoc]
          · rw [Impl.abs_cons, e2, List.append_assoc]
          · intro x hx hxe
            rcases List.mem_cons.mp hx with rfl | hx
            · exact List.mem_cons_self
            · exact List.mem_cons_of_mem _ (i3 x hx hxe)
        · simp at h
    · split at h
      · rename_i ls' h1
        simp only [Except.ok.injEq] at h; subst h
        obtain ⟨i1, ⟨pre, post, e1, e2⟩, i3⟩ := ih hls h1
        refine ⟨Impl.Db.inv_cons.mpr ⟨hl, i1⟩,
          ⟨l.sigs.map (fun s => (l.type, s.owner, s.data)) ++ pre, post, ?_, ?_⟩, ?_⟩
        · rw [Impl.abs_cons, e1, List.append_assoc]
        · rw [Impl.abs_cons, e2, List.append_assoc]
        · intro x hx hxe
          rcases List.mem_cons.mp hx with rfl | hx
          · exact List.mem_cons_self
          · exact List.mem_cons_of_mem _ (i3 x hx hxe)
      · simp at h

theorem Impl.removeFrom_of_mem {t o d : Bytes} {db : Impl.Db} (b : Bool)
    (hinv : Impl.Db.Inv db) (hm : (t, o, d) ∈ Impl.abs db) :
    ∃ db', Impl.removeFrom t o d db b = .ok db' := by
  induction db generalizing b with
  | nil => simp [Impl.abs] at hm
  | cons l ls ih =>
    obtain ⟨hl, hls⟩ := Impl.Db.inv_cons.mp hinv
    rw [Impl.mem_abs_cons] at hm
    simp only [Impl.removeFrom]
    by_cases hc : l.type = t ∧ l.size = d.length + 16
    · rw [if_pos hc]
      by_cases hh : l.has o d = true
      · rw [if_pos hh]
        split <;> exact ⟨_, rfl⟩
      · rw [if_neg hh]
        rcases hm with hm | hm
        · exact absurd ((Impl.SList.has_iff l o d).mpr hm.2) hh
        · obtain ⟨ls', h'⟩ := ih true hls hm
          rw [h']; exact ⟨_, rfl⟩
    · rw [if_neg hc]
      rcases hm with hm | hm
      · have := (hl.2.2.2.2.2.1 _ hm.2).2
        exact absurd ⟨hm.1, this.symm⟩ hc
      · obtain ⟨ls', h'⟩ := ih b hls hm
        rw [h']; exact ⟨_, rfl⟩

/-! ### reachability -/

theorem Impl.readDb_inv {bs : Bytes} {db : Impl.Db} (h : Impl.readDb bs = some db)
    (hnd : ∀ l ∈ db, l.sigs.Nodup) : Impl.Db.Inv db := fun l hl =>
  Impl.SList.inv_of_canon ((Impl.readDb_ok h).2 l hl).1 (hnd l hl)

theorem Impl.appendList_inv {db : Impl.Db} {l : Impl.SList} (hdb : Impl.Db.Inv db) (hl : l.Inv) :
    Impl.Db.Inv (db.appendList l) := by
  intro x hx
  simp only [Impl.Db.appendList, List.mem_append, List.mem_singleton] at hx
  rcases hx with hx | rfl
  · exact hdb x hx
  · exact hl

/-- `Append` keeps the invariant, idempotent normalisation or not (F27 repair) -/
theorem Impl.Db.append_inv_raw {E : Impl.Env} {db db' : Impl.Db} {t o d : Bytes}
    (hinv : Impl.Db.Inv db) (ho : o.length = 16) (h : db.append E t o d = .ok db') :
    Impl.Db.Inv db' := by
  obtain ⟨hs, _, hi⟩ := Impl.Db.append_ok h
  exact Impl.appendInto_inv hinv ho (Impl.schemes_length t hs) hi

/-- (the idempotence hypothesis is kept for the callers; it is no longer used) -/
theorem Impl.Db.append_inv {E : Impl.Env} {db db' : Impl.Db} {t o d : Bytes}
    (hinv : Impl.Db.Inv db) (ho : o.length = 16)
    (_hidem : E.norm t (E.norm t d) = E.norm t d) (h : db.append E t o d = .ok db') :
    Impl.Db.Inv db' :=
  Impl.Db.append_inv_raw hinv ho h

/-- the databases a client can build: start empty or from a decoded duplicate-free stream, then
    append / remove entries or append whole well-formed lists -/
inductive Impl.Reachable (E : Impl.Env) : Impl.Db → Prop
  | empty : Impl.Reachable E []
  | decoded {bs : Bytes} {db : Impl.Db} :
      Impl.readDb bs = some db → (∀ l ∈ db, l.sigs.Nodup) → Impl.Reachable E db
  | append {db db' : Impl.Db} {t o d : Bytes} :
      Impl.Reachable E db → o.length = 16 → db.append E t o d = .ok db' → Impl.Reachable E db'
  | remove {db db' : Impl.Db} {t o d : Bytes} :
      Impl.Reachable E db → db.remove t o d = .ok db' → Impl.Reachable E db'
  | appendList {db : Impl.Db} {l : Impl.SList} :
      Impl.Reachable E db → l.Inv → Impl.Reachable E (db.appendList l)

/-- every reachable database satisfies the invariant — for every normalisation function -/
theorem Impl.Reachable.inv_raw {E : Impl.Env} {db : Impl.Db}
    (h : Impl.Reachable E db) : Impl.Db.Inv db := by
  induction h with
  | empty => intro l hl; simp at hl
  | decoded hr hnd => exact Impl.readDb_inv hr hnd
  | append _ ho ha ih => exact Impl.Db.append_inv_raw ih ho ha
  | remove _ hr ih => exact (Impl.removeFrom_ok ih hr).1
  | appendList _ hl ih => exact Impl.appendList_inv ih hl

theorem Impl.Reachable.inv {E : Impl.Env} (hidem : E.Idem) {db : Impl.Db}
    (h : Impl.Reachable E db) : Impl.Db.Inv db := by
  induction h with
  | empty => intro l hl; simp at hl
  | decoded hr hnd => exact Impl.readDb_inv hr hnd
  | append _ ho ha ih => exact Impl.Db.append_inv ih ho (hidem _ _) ha
  | remove _ hr ih => exact (Impl.removeFrom_ok ih hr).1
  | appendList _ hl ih => exact Impl.appendList_inv ih hl

/-- under `Inv`, a 32-bit `listSize` bounds `size` too, except for a list without entries -/
theorem Impl.SList.Inv.size_lt {l : Impl.SList} (h : l.Inv) (b1 : l.listSize < 2^32)
    (b2 : l.sigs = [] → l.size < 2^32) : l.size < 2^32 := by
  have hLS := h.2.2.2.2.1
  cases hsg : l.sigs with
  | nil => exact b2 hsg
  | cons x xs =>
    rw [hsg, List.length_cons, Nat.succ_mul] at hLS
    omega

/-! ### the per-type size rule (F37) and the databases built through the library's own operations -/

/-- the list types `ReadSignatureList` decodes -/
def Impl.HandledType (t : Bytes) : Prop :=
  t = Impl.guidX509 ∨ t = Impl.guidSha256 ∨ t = Impl.guidExternal

/-- the list's signature size is the one the specification fixes for its type (SHA-256: 16+32,
    externally managed: 16+1; none for X.509), and a list *without entries* carries a size field that
    fits the wire (a decoded one does; `Append`, `Remove` and a list built through `AppendBytes` never
    hold such a list) -/
def Impl.SList.Sized (l : Impl.SList) : Prop :=
  (l.type = Impl.guidSha256 → l.size = 48) ∧ (l.type = Impl.guidExternal → l.size = 17) ∧
  (l.sigs = [] → l.size < 2^32)

def Impl.Db.Sized (db : Impl.Db) : Prop := ∀ l ∈ db, l.Sized

theorem Impl.handled_ext {s : Nat} (hh : Impl.handled Impl.guidExternal 0 s = true) : s = 17 := by
  unfold Impl.handled at hh
  rw [if_neg Impl.guidExternal_ne_guidX509, if_neg Impl.guidExternal_ne_guidSha256, if_pos rfl] at hh
  simpa using hh

theorem Impl.handled_type {ty : Bytes} {h s : Nat} (hh : Impl.handled ty h s = true) :
    Impl.HandledType ty := by
  unfold Impl.handled at hh
  split at hh
  · rename_i h1; exact Or.inl h1
  · split at hh
    · rename_i h2; exact Or.inr (Or.inl h2)
    · split at hh
      · rename_i h3; exact Or.inr (Or.inr h3)
      · simp at hh

/-- what the decoder returns obeys the size rule -/
theorem Impl.SList.Wire.sized {l : Impl.SList} (h : l.Wire) : l.Sized := by
  obtain ⟨_, _, hs, hh⟩ := h
  refine ⟨fun ht => ?_, fun ht => ?_, fun _ => hs⟩
  · rw [ht] at hh; exact Impl.handled_sha hh
  · rw [ht] at hh; exact Impl.handled_ext hh

/-- a list of a handled type that obeys the size rule passes the per-type switch of the decoder -/
theorem Impl.SList.Sized.handled {l : Impl.SList} (h : l.Sized) (ht : Impl.HandledType l.type) :
    Impl.handled l.type 0 l.size = true := by
  unfold Impl.handled
  rcases ht with ht | ht | ht
  · rw [if_pos ht]; simp
  · have hs := h.1 ht
    rw [ht, if_neg Impl.guidSha256_ne_guidX509, if_pos rfl, hs]; simp
  · have hs := h.2.1 ht
    rw [ht, if_neg Impl.guidExternal_ne_guidX509, if_neg Impl.guidExternal_ne_guidSha256, if_pos rfl, hs]
    simp

/-- F37 repair: whatever list it started from, the result of a successful `AppendBytes` obeys the
    size rule (before the repair an externally-managed list of any size could be built) -/
theorem Impl.appendBytes_sized {E : Impl.Env} {l l' : Impl.SList} {o d : Bytes}
    (h : l.appendBytes E o d = .ok l') : l'.Sized := by
  obtain ⟨h1, h2⟩ := Impl.appendBytes_ok_sized h
  obtain ⟨_, _, _, e⟩ := Impl.appendBytes_ok h
  subst e
  refine ⟨fun ht => ?_, fun ht => ?_, fun hn => ?_⟩
  · show (E.norm l.type d).length + 16 = 48
    rw [h1 ht]
  · show (E.norm l.type d).length + 16 = 17
    rw [h2 ht]
  · have hn' : l.sigs ++ [(⟨o, E.norm l.type d⟩ : Impl.SData)] = [] := hn
    simp at hn'

theorem Impl.appendBytes_type {E : Impl.Env} {l l' : Impl.SList} {o d : Bytes}
    (h : l.appendBytes E o d = .ok l') : l'.type = l.type := by
  obtain ⟨_, _, _, e⟩ := Impl.appendBytes_ok h
  rw [e]

theorem Impl.appendInto_sized {E : Impl.Env} {t o d : Bytes} {db db' : Impl.Db}
    (hs : Impl.Db.Sized db) (h : Impl.appendInto E t o d db = .ok db') : Impl.Db.Sized db' := by
  induction db generalizing db' with
  | nil =>
    simp only [Impl.appendInto] at h
    split at h
    · rename_i l' h1
      simp only [Except.ok.injEq] at h; subst h
      intro x hx
      simp only [List.mem_singleton] at hx; subst hx
      exact Impl.appendBytes_sized h1
    · simp at h
  | cons l ls ih =>
    have hl : l.Sized := hs l (by simp)
    have hls : Impl.Db.Sized ls := fun x hx => hs x (by simp [hx])
    simp only [Impl.appendInto] at h
    split at h
    · split at h
      · rename_i l' h1
        simp only [Except.ok.injEq] at h; subst h
        intro x hx
        rcases List.mem_cons.mp hx with rfl | hx
        · exact Impl.appendBytes_sized h1
        · exact hls x hx
      · simp at h
    · split at h
      · rename_i ls' h1
        simp only [Except.ok.injEq] at h; subst h
        intro x hx
        rcases List.mem_cons.mp hx with rfl | hx
        · exact hl
        · exact ih hls h1 x hx
      · simp at h

/-- `Append` adds no list of another type than the one appended -/
theorem Impl.appendInto_types {P : Bytes → Prop} {E : Impl.Env} {t o d : Bytes} {db db' : Impl.Db}
    (hp : ∀ l ∈ db, P l.type) (ht : P t) (h : Impl.appendInto E t o d db = .ok db') :
    ∀ l ∈ db', P l.type := by
  induction db generalizing db' with
  | nil =>
    simp only [Impl.appendInto] at h
    split at h
    · rename_i l' h1
      simp only [Except.ok.injEq] at h; subst h
      intro x hx
      simp only [List.mem_singleton] at hx; subst hx
      rw [Impl.appendBytes_type h1]; exact ht
    · simp at h
  | cons l ls ih =>
    simp only [Impl.appendInto] at h
    split at h
    · split at h
      · rename_i l' h1
        simp only [Except.ok.injEq] at h; subst h
        intro x hx
        rcases List.mem_cons.mp hx with rfl | hx
        · rw [Impl.appendBytes_type h1]; exact hp l (by simp)
        · exact hp x (by simp [hx])
      · simp at h
    · split at h
      · rename_i ls' h1
        simp only [Except.ok.injEq] at h; subst h
        intro x hx
        rcases List.mem_cons.mp hx with rfl | hx
        · exact hp _ (by simp)
        · exact ih (fun y hy => hp y (by simp [hy])) h1 x hx
      · simp at h

/-- the lists of the result of `Remove` are lists of the argument, one of them possibly with one
    entry less (and then still not empty: `Impl.erase_inv`) -/
theorem Impl.removeFrom_mem {t o d : Bytes} {db db' : Impl.Db} {b : Bool}
    (h : Impl.removeFrom t o d db b = .ok db') :
    ∀ x ∈ db', x ∈ db ∨ ∃ l ∈ db, (⟨o, d⟩ : Impl.SData) ∈ l.sigs ∧ l.sigs.length ≠ 1 ∧
      x = { l with sigs := l.sigs.erase ⟨o, d⟩, listSize := l.listSize - l.size } := by
  induction db generalizing b db' with
  | nil => simp [Impl.removeFrom] at h
  | cons l ls ih =>
    simp only [Impl.removeFrom] at h
    split at h
    · split at h
      · rename_i hhas
        have hmem : (⟨o, d⟩ : Impl.SData) ∈ l.sigs := (Impl.SList.has_iff l o d).mp hhas
        split at h
        · simp only [Except.ok.injEq] at h; subst h
          exact fun x hx => Or.inl (List.mem_cons_of_mem _ hx)
        · rename_i hlen
          simp only [Except.ok.injEq] at h; subst h
          intro x hx
          rcases List.mem_cons.mp hx with rfl | hx
          · exact Or.inr ⟨l, by simp, hmem, hlen, rfl⟩
          · exact Or.inl (List.mem_cons_of_mem _ hx)
      · split at h
        · rename_i ls' h1
          simp only [Except.ok.injEq] at h; subst h
          intro x hx
          rcases List.mem_cons.mp hx with rfl | hx
          · exact Or.inl (by simp)
          · rcases ih h1 x hx with h2 | ⟨y, hy, h2⟩
            · exact Or.inl (List.mem_cons_of_mem _ h2)
            · exact Or.inr ⟨y, List.mem_cons_of_mem _ hy, h2⟩
        · simp at h
    · split at h
      · rename_i ls' h1
        simp only [Except.ok.injEq] at h; subst h
        intro x hx
        rcases List.mem_cons.mp hx with rfl | hx
        · exact Or.inl (by simp)
        · rcases ih h1 x hx with h2 | ⟨y, hy, h2⟩
          · exact Or.inl (List.mem_cons_of_mem _ h2)
          · exact Or.inr ⟨y, List.mem_cons_of_mem _ hy, h2⟩
      · simp at h

theorem Impl.removeFrom_sized {t o d : Bytes} {db db' : Impl.Db} {b : Bool}
    (hinv : Impl.Db.Inv db) (hs : Impl.Db.Sized db) (h : Impl.removeFrom t o d db b = .ok db') :
    Impl.Db.Sized db' := by
  intro x hx
  rcases Impl.removeFrom_mem h x hx with h1 | ⟨l, hl, hmem, hlen, rfl⟩
  · exact hs x h1
  · obtain ⟨s1, s2, _⟩ := hs l hl
    exact ⟨s1, s2, fun hn => absurd hn (Impl.erase_inv (hinv l hl) hmem hlen).2⟩

theorem Impl.removeFrom_types {P : Bytes → Prop} {t o d : Bytes} {db db' : Impl.Db} {b : Bool}
    (hp : ∀ l ∈ db, P l.type) (h : Impl.removeFrom t o d db b = .ok db') : ∀ l ∈ db', P l.type := by
  intro x hx
  rcases Impl.removeFrom_mem h x hx with h1 | ⟨l, hl, _, _, rfl⟩
  · exact hp x h1
  · exact hp l hl

/-- a list built through the library's list-level API: `NewSignatureList` followed by at least one
    successful `AppendBytes` (16-byte owners).  A list nothing was appended to is NOT among them: it
    has signature size 0 (known finding F20). -/
inductive Impl.ListBuilt (E : Impl.Env) : Impl.SList → Prop
  | first {t o d : Bytes} {l : Impl.SList} : t.length = 16 → o.length = 16 →
      (Impl.newList t).appendBytes E o d = .ok l → Impl.ListBuilt E l
  | next {l l' : Impl.SList} {o d : Bytes} : Impl.ListBuilt E l → o.length = 16 →
      l.appendBytes E o d = .ok l' → Impl.ListBuilt E l'

theorem Impl.ListBuilt.inv {E : Impl.Env} {l : Impl.SList} (h : Impl.ListBuilt E l) : l.Inv := by
  induction h with
  | first ht ho ha =>
    exact Impl.appendBytes_inv (l := Impl.newList _) ht rfl rfl (by simp [Impl.newList])
      (by simp [Impl.newList]) (by simp [Impl.newList]) ho ha
  | next _ ho ha ih =>
    obtain ⟨hty, hH, hhdr, _, hLS, hs, hnd⟩ := ih
    exact Impl.appendBytes_inv hty hH hhdr hLS hs hnd ho ha

theorem Impl.ListBuilt.sized {E : Impl.Env} {l : Impl.SList} (h : Impl.ListBuilt E l) : l.Sized := by
  cases h with
  | first _ _ ha => exact Impl.appendBytes_sized ha
  | next _ _ ha => exact Impl.appendBytes_sized ha

/-- the databases built through the library's own operations over the signature types `T`: the
    empty one or a decoded duplicate-free one, then `Append` of a type in `T` (16-byte owner),
    `Remove`, and `AppendList` of a list of a type in `T` that was itself built through
    `NewSignatureList` / `AppendBytes` -/
inductive Impl.BuiltOver (E : Impl.Env) (T : Bytes → Prop) : Impl.Db → Prop
  | empty : Impl.BuiltOver E T []
  | decoded {bs : Bytes} {db : Impl.Db} :
      Impl.readDb bs = some db → (∀ l ∈ db, l.sigs.Nodup) → (∀ l ∈ db, T l.type) →
      Impl.BuiltOver E T db
  | append {db db' : Impl.Db} {t o d : Bytes} :
      Impl.BuiltOver E T db → o.length = 16 → T t → db.append E t o d = .ok db' →
      Impl.BuiltOver E T db'
  | remove {db db' : Impl.Db} {t o d : Bytes} :
      Impl.BuiltOver E T db → db.remove t o d = .ok db' → Impl.BuiltOver E T db'
  | appendList {db : Impl.Db} {l : Impl.SList} :
      Impl.BuiltOver E T db → Impl.ListBuilt E l → T l.type → Impl.BuiltOver E T (db.appendList l)

/-- they are among the reachable ones of C09 … -/
theorem Impl.BuiltOver.reachable {E : Impl.Env} {T : Bytes → Prop} {db : Impl.Db}
    (h : Impl.BuiltOver E T db) : Impl.Reachable E db := by
  induction h with
  | empty => exact .empty
  | decoded hr hnd _ => exact .decoded hr hnd
  | append _ ho _ ha ih => exact .append ih ho ha
  | remove _ hr ih => exact .remove ih hr
  | appendList _ hl _ ih => exact .appendList ih hl.inv

/-- … every list of them obeys the size rule of its type … -/
theorem Impl.BuiltOver.sized {E : Impl.Env} {T : Bytes → Prop} {db : Impl.Db}
    (h : Impl.BuiltOver E T db) : Impl.Db.Sized db := by
  induction h with
  | empty => intro l hl; simp at hl
  | decoded hr _ _ => exact fun l hl => ((Impl.readDb_ok hr).2 l hl).sized
  | append _ _ _ ha ih => exact Impl.appendInto_sized ih (Impl.Db.append_ok ha).2.2
  | remove hb hr ih => exact Impl.removeFrom_sized hb.reachable.inv_raw ih hr
  | appendList _ hl _ ih =>
    intro x hx
    simp only [Impl.Db.appendList, List.mem_append, List.mem_singleton] at hx
    rcases hx with hx | rfl
    · exact ih x hx
    · exact hl.sized

/-- … and is of a type in `T` -/
theorem Impl.BuiltOver.types {E : Impl.Env} {T : Bytes → Prop} {db : Impl.Db}
    (h : Impl.BuiltOver E T db) : ∀ l ∈ db, T l.type := by
  induction h with
  | empty => intro l hl; simp at hl
  | decoded _ _ ht => exact ht
  | append _ _ ht ha ih => exact Impl.appendInto_types ih ht (Impl.Db.append_ok ha).2.2
  | remove _ hr ih => exact Impl.removeFrom_types ih hr
  | appendList _ _ ht ih =>
    intro x hx
    simp only [Impl.Db.appendList, List.mem_append, List.mem_singleton] at hx
    rcases hx with hx | rfl
    · exact ih x hx
    · exact ht

/-- a database that obeys the invariant and the size rule and whose `ListSize` fields fit 32 bits
    is exactly what the decoder accepts -/
theorem Impl.Db.wire_of_sized {db : Impl.Db} (hinv : Impl.Db.Inv db) (hs : Impl.Db.Sized db)
    (ht : ∀ l ∈ db, Impl.HandledType l.type) (h32 : ∀ l ∈ db, l.listSize < 2^32) :
    ∀ l ∈ db, l.Wire := fun l hl =>
  ⟨(hinv l hl).canon, h32 l hl, (hinv l hl).size_lt (h32 l hl) (hs l hl).2.2,
   (hs l hl).handled (ht l hl)⟩

/-! ## concrete values for the non-vacuity examples in the property files -/
namespace Ex

def owner1 : Bytes := List.replicate 16 0x11
def owner2 : Bytes := List.replicate 16 0x22
/-- one SHA-256 entry -/
def shaList : Impl.SList := ⟨Impl.guidSha256, 76, 0, 48, [], [⟨owner1, List.replicate 32 0xAA⟩]⟩
/-- two (tiny) X.509 entries of equal size -/
def x509List : Impl.SList :=
  ⟨Impl.guidX509, 68, 0, 20, [], [⟨owner1, [1, 2, 3, 4]⟩, ⟨owner2, [5, 6, 7, 8]⟩]⟩
def db : Impl.Db := [shaList, x509List]
/-- the wire form of `db`: 144 bytes -/
def bytes : Bytes := Impl.encDb db
/-- no input is PEM -/
def env : Impl.Env := ⟨fun _ => none⟩
/-- exactly one input is PEM -/
def pemEnv : Impl.Env := ⟨fun d => if d = [0x2d] then some [0x30, 0x03, 0x02, 0x01] else none⟩

/-- `Except` has no `DecidableEq` in core; the examples compare results of operations by `decide` -/
scoped instance instDecEqExcept {ε α : Type} [DecidableEq ε] [DecidableEq α] :
    DecidableEq (Except ε α)
  | .ok a, .ok b =>
    if h : a = b then isTrue (by rw [h]) else isFalse (fun e => h (Except.ok.inj e))
  | .error a, .error b =>
    if h : a = b then isTrue (by rw [h]) else isFalse (fun e => h (Except.error.inj e))
  | .ok _, .error _ => isFalse (fun e => nomatch e)
  | .error _, .ok _ => isFalse (fun e => nomatch e)

theorem env_idem : env.Idem := Impl.Env.idem_of_pem env (fun _ _ h => by simp [env] at h)

theorem pemEnv_idem : pemEnv.Idem := by
  apply Impl.Env.idem_of_pem
  intro d x h
  simp only [pemEnv] at h ⊢
  split at h
  · simp only [Option.some.injEq] at h; subst h; decide
  · simp at h

end Ex

end GoUefi
