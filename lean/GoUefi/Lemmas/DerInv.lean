import GoUefi.Model.Der
import GoUefi.Lemmas.Bytes
/-!
  *Inversion* lemmas about the cryptobyte-style reader of `GoUefi/Model/Der.lean`: whenever the
  reader succeeds, the bytes it consumed are exactly the canonical (DER-minimal) encoding that the
  builder `addASN1` would have produced for the values it returned.  In particular re-encoding the
  header of an accepted element reproduces the transmitted header byte for byte.

  Also: every component the reader returns is a contiguous sub-slice (`Sub`) of its input.

  (The round trips in the other direction, `reader (enc x ++ rest) = some (x, rest)`, live in
  `GoUefi/Lemmas/Der.lean`; this file does not depend on it, helper facts that exist in both files
  are `private` here.)
-/
namespace GoUefi.Der
open GoUefi

/-! ### big-endian helpers -/

private theorem beBytes_length' (k n : Nat) : (beBytes k n).length = k := by
  induction k with
  | zero => rfl
  | succ k ih => simp [beBytes, ih]

private theorem beVal_lt' (b : Bytes) : beVal b < 256^b.length := by
  induction b with
  | nil => simp [beVal]
  | cons x xs ih =>
    simp only [beVal, List.length_cons, Nat.pow_succ]
    have hx := x.toNat_lt
    have : x.toNat * 256^xs.length ≤ 255 * 256^xs.length := Nat.mul_le_mul_right _ (by omega)
    omega

/-- the `k` low-order bytes do not see multiples of `256^k` -/
theorem beBytes_add_mul (k a m : Nat) : beBytes k (a * 256^k + m) = beBytes k m := by
  induction k generalizing a with
  | zero => rfl
  | succ k ih =>
    have hpos : 0 < 256^k := Nat.pow_pos (by decide)
    have e : a * 256^(k+1) + m = (a * 256) * 256^k + m := by
      rw [Nat.pow_succ, Nat.mul_assoc, Nat.mul_comm (256^k) 256]
    simp only [beBytes]
    rw [e, ih (a * 256)]
    congr 2
    rw [Nat.add_comm, Nat.add_mul_div_right _ _ hpos, Nat.add_mul_mod_self_right]

/-- big-endian encoding inverts big-endian decoding -/
theorem beBytes_beVal (b : Bytes) : beBytes b.length (beVal b) = b := by
  induction b with
  | nil => rfl
  | cons x xs ih =>
    have hpos : 0 < 256^xs.length := Nat.pow_pos (by decide)
    have hlt := beVal_lt' xs
    simp only [List.length_cons, beBytes, beVal]
    rw [beBytes_add_mul, ih]
    congr 1
    rw [Nat.add_comm, Nat.add_mul_div_right _ _ hpos, Nat.div_eq_of_lt hlt, Nat.zero_add,
      Nat.mod_eq_of_lt x.toNat_lt, toNat_toUInt8]

/-- the number of length octets the builder chooses is the only one the reader accepts -/
theorem nbytes_eq_of_bounds {n k : Nat} (h1 : 1 ≤ k) (h4 : k ≤ 4) (hlt : n < 256^k)
    (hne : n / 256^(k-1) ≠ 0) : nbytes n = k := by
  have hk : k = 1 ∨ k = 2 ∨ k = 3 ∨ k = 4 := by omega
  unfold nbytes
  rcases hk with rfl | rfl | rfl | rfl
  · have : n < 256 := by simpa using hlt
    simp [this]
  · have h2 : (256:Nat)^2 = 65536 := by decide
    have h1' : (256:Nat)^(2-1) = 256 := by decide
    rw [h2] at hlt; rw [h1'] at hne
    have : ¬ n < 256 := by omega
    simp [this, hlt]
  · have h3 : (256:Nat)^3 = 16777216 := by decide
    have h2 : (256:Nat)^(3-1) = 65536 := by decide
    rw [h3] at hlt; rw [h2] at hne
    have a : ¬ n < 256 := by omega
    have b : ¬ n < 65536 := by omega
    simp [a, b, hlt]
  · have h3 : (256:Nat)^(4-1) = 16777216 := by decide
    rw [h3] at hne
    have a : ¬ n < 256 := by omega
    have b : ¬ n < 65536 := by omega
    have c : ¬ n < 16777216 := by omega
    simp [a, b, c]

private theorem nbytes_mono {m n : Nat} (h : m ≤ n) : nbytes m ≤ nbytes n := by
  unfold nbytes
  repeat' split
  all_goals omega

theorem encLen_length_mono {m n : Nat} (h : m ≤ n) : (encLen m).length ≤ (encLen n).length := by
  have := nbytes_mono h
  unfold encLen
  split <;> split <;> simp [beBytes_length'] <;> omega

/-- the encoding determines tag and body -/
theorem addASN1_inj {t t' : UInt8} {b1 b2 : Bytes} (h : addASN1 t b1 = addASN1 t' b2) :
    t = t' ∧ b1 = b2 := by
  unfold addASN1 at h
  simp only [List.cons_append, List.cons.injEq] at h
  obtain ⟨ht, hb⟩ := h
  refine ⟨ht, ?_⟩
  have hlen := congrArg List.length hb
  simp only [List.length_append] at hlen
  have hl : b1.length = b2.length := by
    rcases Nat.lt_trichotomy b1.length b2.length with hlt | heq | hgt
    · have := encLen_length_mono (Nat.le_of_lt hlt); omega
    · exact heq
    · have := encLen_length_mono (Nat.le_of_lt hgt); omega
  exact (List.append_inj hb (by rw [hl])).2

/-! ### header inversion -/

/-- The length reader accepts only the canonical DER length octets: what it consumed is exactly
    what the builder writes for the length it returned. -/
theorem readLen_inv {s : Bytes} {n : Nat} {tl : Bytes} (h : readLen s = some (n, tl)) :
    s = encLen n ++ tl ∧ n < 2^32 := by
  unfold readLen at h
  split at h
  · simp at h
  · rename_i lenByte rest
    split at h
    · rename_i hlt
      simp at h
      obtain ⟨rfl, rfl⟩ := h
      refine ⟨?_, by omega⟩
      simp [encLen, hlt]
    · rename_i hge
      simp only [] at h
      split at h
      · simp at h
      · rename_i hc
        split at h
        · simp at h
        · rename_i h128
          split at h
          · simp at h
          · rename_i hlead
            simp at h
            obtain ⟨rfl, rfl⟩ := h
            simp only [Bool.or_eq_true, beq_iff_eq, decide_eq_true_eq, not_or, Nat.not_lt] at hc
            obtain ⟨⟨hk0, hk4⟩, hlen⟩ := hc
            have hb := lenByte.toNat_lt
            have htl : (rest.take (lenByte.toNat - 128)).length = lenByte.toNat - 128 := by
              rw [List.length_take]; omega
            have hvlt := beVal_lt' (rest.take (lenByte.toNat - 128))
            rw [htl] at hvlt
            have hne : beVal (rest.take (lenByte.toNat - 128)) / 256^(lenByte.toNat - 128 - 1) ≠ 0 := by
              simpa using hlead
            have hnb := nbytes_eq_of_bounds (by omega) hk4 hvlt hne
            have hbe := beBytes_beVal (rest.take (lenByte.toNat - 128))
            rw [htl] at hbe
            refine ⟨?_, ?_⟩
            · have h128' : ¬ beVal (rest.take (lenByte.toNat - 128)) < 128 := h128
              have e8 : (0x80 + (lenByte.toNat - 128)).toUInt8 = lenByte := by
                have : 0x80 + (lenByte.toNat - 128) = lenByte.toNat := by omega
                rw [this, toNat_toUInt8]
              simp only [encLen, h128', if_false, hnb, hbe, e8, List.cons_append,
                List.take_append_drop]
            · have : (256:Nat)^(lenByte.toNat - 128) ≤ 256^4 := Nat.pow_le_pow_right (by decide) hk4
              have e : (256:Nat)^4 = 4294967296 := by rfl
              omega

/-- `ReadAnyASN1` accepts only canonically encoded elements: the input is the builder's encoding
    of the returned tag and body, followed by the returned rest. -/
theorem readAny_inv {s : Bytes} {t : UInt8} {body rest : Bytes}
    (h : readAny s = some (t, body, rest)) :
    s = addASN1 t body ++ rest ∧ body.length < 2^32 ∧ t.toNat % 32 ≠ 31 := by
  unfold readAny at h
  split at h
  · simp at h
  · rename_i tag s'
    split at h
    · simp at h
    · split at h
      · simp at h
      · rename_i htag
        split at h
        · simp at h
        · rename_i n tl hl
          split at h
          · simp at h
          · rename_i hlen
            simp at h
            obtain ⟨rfl, rfl, rfl⟩ := h
            obtain ⟨hs, hn⟩ := readLen_inv hl
            have hbl : (tl.take n).length = n := by rw [List.length_take]; omega
            refine ⟨?_, by omega, by simpa using htag⟩
            simp only [addASN1, hbl, List.cons_append, List.append_assoc, List.take_append_drop]
            rw [hs]

theorem read_inv {t : UInt8} {s body rest : Bytes} (h : read t s = some (body, rest)) :
    s = addASN1 t body ++ rest ∧ body.length < 2^32 ∧ t.toNat % 32 ≠ 31 := by
  unfold read at h
  split at h
  · rename_i tag b r ha
    split at h
    · rename_i ht
      simp at h
      obtain ⟨rfl, rfl⟩ := h
      have : tag = t := by simpa using ht
      subst this
      exact readAny_inv ha
    · simp at h
  · simp at h

theorem read_readAny {t : UInt8} {s body rest : Bytes} (h : read t s = some (body, rest)) :
    readAny s = some (t, body, rest) := by
  unfold read at h
  split at h
  · rename_i tag b r ha
    split at h
    · rename_i ht
      simp at h
      obtain ⟨rfl, rfl⟩ := h
      have : tag = t := by simpa using ht
      subst this
      exact ha
    · simp at h
  · simp at h

theorem read_of_readAny {t : UInt8} {s body rest : Bytes} (h : readAny s = some (t, body, rest)) :
    read t s = some (body, rest) := by
  simp [read, h]

/-- `ReadASN1Element` returns the canonical encoding of the element it consumed -/
theorem readElement_inv {t : UInt8} {s el rest : Bytes} (h : readElement t s = some (el, rest)) :
    ∃ body, el = addASN1 t body ∧ s = el ++ rest ∧ read t s = some (body, rest) := by
  unfold readElement at h
  split at h
  · rename_i body r hr
    simp at h
    obtain ⟨rfl, rfl⟩ := h
    obtain ⟨hs, _, _⟩ := read_inv hr
    refine ⟨body, ?_, ?_, hr⟩
    · rw [hs]; simp
    · conv => lhs; rw [← List.take_append_drop (s.length - r.length) s]
      congr 1
      rw [hs]; simp
  · simp at h

theorem readElement_of_read {t : UInt8} {s body rest : Bytes} (h : read t s = some (body, rest)) :
    readElement t s = some (addASN1 t body, rest) := by
  obtain ⟨hs, _, _⟩ := read_inv h
  simp only [readElement, h]
  rw [hs]; simp

theorem peek_of_read {t : UInt8} {s body rest : Bytes} (h : read t s = some (body, rest)) :
    peek t s = true := by
  obtain ⟨hs, _, _⟩ := read_inv h
  rw [hs]; simp [peek, addASN1]

/-- two different tags cannot both be at the head of the input -/
theorem peek_ne_of_read {t t' : UInt8} {s body rest : Bytes} (h : read t s = some (body, rest))
    (hne : t ≠ t') : peek t' s = false := by
  obtain ⟨hs, _, _⟩ := read_inv h
  rw [hs]; simp [peek, addASN1, hne]

/-- OPTIONAL element: either absent (nothing consumed, the input does not start with the tag) or
    present and canonically encoded -/
theorem readOptional_inv {t : UInt8} {s : Bytes} {ob : Option Bytes} {rest : Bytes}
    (h : readOptional t s = some (ob, rest)) :
    (ob = none ∧ rest = s ∧ peek t s = false) ∨
    (∃ body, ob = some body ∧ peek t s = true ∧ read t s = some (body, rest) ∧
      s = addASN1 t body ++ rest) := by
  unfold readOptional at h
  split at h
  · rename_i hp
    cases hr : read t s with
    | none => simp [hr] at h
    | some p =>
      obtain ⟨b, r⟩ := p
      simp [hr] at h
      obtain ⟨rfl, rfl⟩ := h
      exact Or.inr ⟨b, rfl, hp, rfl, (read_inv hr).1⟩
  · rename_i hp
    simp at h
    obtain ⟨rfl, rfl⟩ := h
    exact Or.inl ⟨rfl, rfl, by simpa using hp⟩

theorem readInt64_read {s : Bytes} {v : Int} {rest : Bytes} (h : readInt64 s = some (v, rest)) :
    ∃ b, read tINT s = some (b, rest) ∧ checkInt b = true ∧ v = signedVal b := by
  unfold readInt64 at h
  split at h
  · rename_i b r hr
    split at h
    · simp at h
    · rename_i hc
      simp at h
      obtain ⟨rfl, rfl⟩ := h
      simp at hc
      exact ⟨b, hr, hc.1, rfl⟩
  · simp at h

theorem readBigInt_read {s : Bytes} {v : Int} {rest : Bytes} (h : readBigInt s = some (v, rest)) :
    ∃ b, read tINT s = some (b, rest) ∧ checkInt b = true ∧ v = signedVal b := by
  unfold readBigInt at h
  split at h
  · rename_i b r hr
    split at h
    · simp at h
    · rename_i hc
      simp at h
      obtain ⟨rfl, rfl⟩ := h
      simp at hc
      exact ⟨b, hr, hc, rfl⟩
  · simp at h

/-- an INTEGER that fits `int64` is also accepted, with the same value, as a big integer -/
theorem readBigInt_of_readInt64 {s : Bytes} {v : Int} {rest : Bytes}
    (h : readInt64 s = some (v, rest)) : readBigInt s = some (v, rest) := by
  obtain ⟨b, hr, hc, rfl⟩ := readInt64_read h
  simp [readBigInt, hr, hc]

theorem readOID_read {s : Bytes} {o : List Nat} {rest : Bytes} (h : readOID s = some (o, rest)) :
    ∃ b, read tOID s = some (b, rest) := by
  unfold readOID at h
  split at h
  · rename_i b r hr
    split at h
    · simp at h
    · split at h
      · simp at h
      · rename_i v tl hb
        cases ho : oidRest tl.length tl [] with
        | none => simp [ho] at h
        | some r' =>
          simp [ho] at h
          exact ⟨b, by rw [hr, h.2]⟩
  · simp at h

/-! ### contiguous sub-slices -/

/-- `x` occurs in `b` as a contiguous run of bytes -/
def Sub (x b : Bytes) : Prop := ∃ pre post, b = pre ++ x ++ post

theorem Sub.refl (b : Bytes) : Sub b b := ⟨[], [], by simp⟩

theorem Sub.nil (b : Bytes) : Sub [] b := ⟨[], b, by simp⟩

theorem Sub.trans {x y z : Bytes} (h1 : Sub x y) (h2 : Sub y z) : Sub x z := by
  obtain ⟨p1, q1, rfl⟩ := h1
  obtain ⟨p2, q2, rfl⟩ := h2
  exact ⟨p2 ++ p1, q1 ++ q2, by simp [List.append_assoc]⟩

theorem Sub.of_eq {x b pre post : Bytes} (h : b = pre ++ x ++ post) : Sub x b := ⟨pre, post, h⟩

theorem Sub.append_left (p : Bytes) (x : Bytes) : Sub x (p ++ x) := ⟨p, [], by simp⟩

theorem Sub.append_right (x q : Bytes) : Sub x (x ++ q) := ⟨[], q, by simp⟩

theorem Sub.length_le {x b : Bytes} (h : Sub x b) : x.length ≤ b.length := by
  obtain ⟨p, q, rfl⟩ := h
  simp; omega

/-- the body of an element is a sub-slice of the element -/
theorem Sub.body (t : UInt8) (body : Bytes) : Sub body (addASN1 t body) :=
  ⟨t :: encLen body.length, [], by simp [addASN1]⟩

/-- body and rest returned by `ReadAnyASN1` are sub-slices of the input; so is the whole element -/
theorem readAny_sub {s : Bytes} {t : UInt8} {body rest : Bytes}
    (h : readAny s = some (t, body, rest)) :
    Sub body s ∧ Sub rest s ∧ Sub (addASN1 t body) s := by
  obtain ⟨hs, _, _⟩ := readAny_inv h
  refine ⟨?_, ?_, ?_⟩
  · exact (Sub.body t body).trans ⟨[], rest, by simp [hs]⟩
  · exact ⟨addASN1 t body, [], by simp [hs]⟩
  · exact ⟨[], rest, by simp [hs]⟩

theorem read_sub {t : UInt8} {s body rest : Bytes} (h : read t s = some (body, rest)) :
    Sub body s ∧ Sub rest s ∧ Sub (addASN1 t body) s :=
  readAny_sub (read_readAny h)

/-- the explicit form asked for: `∃ pre post, s = pre ++ body ++ post` -/
theorem readAny_body_slice {s : Bytes} {t : UInt8} {body rest : Bytes}
    (h : readAny s = some (t, body, rest)) : ∃ pre post, s = pre ++ body ++ post :=
  (readAny_sub h).1

theorem readAny_rest_slice {s : Bytes} {t : UInt8} {body rest : Bytes}
    (h : readAny s = some (t, body, rest)) : ∃ pre post, s = pre ++ rest ++ post :=
  (readAny_sub h).2.1

theorem read_body_slice {t : UInt8} {s body rest : Bytes} (h : read t s = some (body, rest)) :
    ∃ pre post, s = pre ++ body ++ post :=
  (read_sub h).1

theorem read_rest_slice {t : UInt8} {s body rest : Bytes} (h : read t s = some (body, rest)) :
    ∃ pre post, s = pre ++ rest ++ post :=
  (read_sub h).2.1

theorem readElement_sub {t : UInt8} {s el rest : Bytes} (h : readElement t s = some (el, rest)) :
    Sub el s ∧ Sub rest s := by
  obtain ⟨body, rfl, _, hr⟩ := readElement_inv h
  exact ⟨(read_sub hr).2.2, (read_sub hr).2.1⟩

theorem readOptional_sub {t : UInt8} {s : Bytes} {ob : Option Bytes} {rest : Bytes}
    (h : readOptional t s = some (ob, rest)) :
    Sub rest s ∧ ∀ body, ob = some body → Sub body s ∧ Sub (addASN1 t body) s := by
  rcases readOptional_inv h with ⟨rfl, rfl, _⟩ | ⟨body, rfl, _, hr, _⟩
  · exact ⟨Sub.refl _, by intro _ h; cases h⟩
  · refine ⟨(read_sub hr).2.1, ?_⟩
    intro b hb
    cases hb
    exact ⟨(read_sub hr).1, (read_sub hr).2.2⟩

theorem readOptional_getD_sub {t : UInt8} {s : Bytes} {ob : Option Bytes} {rest : Bytes}
    (h : readOptional t s = some (ob, rest)) : Sub (ob.getD []) s := by
  cases ob with
  | none => exact Sub.nil _
  | some b => exact ((readOptional_sub h).2 b rfl).1

theorem readInt64_sub {s : Bytes} {v : Int} {rest : Bytes} (h : readInt64 s = some (v, rest)) :
    Sub rest s := by
  obtain ⟨b, hr, _⟩ := readInt64_read h
  exact (read_sub hr).2.1

theorem readBigInt_sub {s : Bytes} {v : Int} {rest : Bytes} (h : readBigInt s = some (v, rest)) :
    Sub rest s := by
  obtain ⟨b, hr, _⟩ := readBigInt_read h
  exact (read_sub hr).2.1

theorem readOID_sub {s : Bytes} {o : List Nat} {rest : Bytes} (h : readOID s = some (o, rest)) :
    Sub rest s := by
  obtain ⟨b, hr⟩ := readOID_read h
  exact (read_sub hr).2.1

end GoUefi.Der
