import GoUefi.Model.Der
import GoUefi.Lemmas.Bytes
/-!
  Round trips between the DER builder and the cryptobyte-style reader of `GoUefi/Model/Der.lean`.
  Every reader lemma is stated as a rewriting equation `reader (enc x ++ rest) = some (x, rest)`
  (plus an `_nil` variant without `rest`) so that it can be used with `rw` / `simp only`.
-/
namespace GoUefi.Der
open GoUefi

/-! ### big-endian helpers -/

@[simp] theorem beBytes_length (k n : Nat) : (beBytes k n).length = k := by
  induction k with
  | zero => rfl
  | succ k ih => simp [beBytes, ih]

theorem beVal_beBytes_mod (k n : Nat) : beVal (beBytes k n) = n % 256^k := by
  induction k with
  | zero => simp [beBytes, beVal, Nat.mod_one]
  | succ k ih =>
    simp only [beBytes, beVal, beBytes_length, ih]
    rw [toUInt8_toNat_of_lt _ (Nat.mod_lt _ (by decide)), Nat.mod_pow_succ]
    rw [Nat.mul_comm, Nat.add_comm]

theorem beVal_beBytes (k n : Nat) (h : n < 256^k) : beVal (beBytes k n) = n := by
  rw [beVal_beBytes_mod, Nat.mod_eq_of_lt h]

theorem beVal_append (a b : Bytes) : beVal (a ++ b) = beVal a * 256^b.length + beVal b := by
  induction a with
  | nil => simp [beVal]
  | cons x xs ih =>
    simp only [List.cons_append, beVal, ih, List.length_append, Nat.pow_add]
    rw [Nat.add_mul, Nat.mul_assoc, Nat.add_assoc]

theorem beVal_lt (b : Bytes) : beVal b < 256^b.length := by
  induction b with
  | nil => simp [beVal]
  | cons x xs ih =>
    simp only [beVal, List.length_cons, Nat.pow_succ]
    have hx := x.toNat_lt
    have : x.toNat * 256^xs.length ≤ 255 * 256^xs.length := Nat.mul_le_mul_right _ (by omega)
    omega

/-! ### lengths -/

theorem nbytes_bounds (n : Nat) (h128 : 128 ≤ n) (h : n < 2^32) :
    1 ≤ nbytes n ∧ nbytes n ≤ 4 ∧ n < 256^(nbytes n) ∧ n / 256^(nbytes n - 1) ≠ 0 := by
  unfold nbytes
  split
  · refine ⟨by omega, by omega, by simpa using ‹n < 256›, ?_⟩; simp; omega
  · split
    · refine ⟨by omega, by omega, by simpa using ‹n < 65536›, ?_⟩
      show n / 256 ^ 1 ≠ 0; simp; omega
    · split
      · refine ⟨by omega, by omega, by simpa using ‹n < 16777216›, ?_⟩
        show n / 256 ^ 2 ≠ 0
        have : (256:Nat)^2 = 65536 := by decide
        rw [this]; omega
      · refine ⟨by omega, by omega, by (have : (256:Nat)^4 = 2^32 := by decide); omega, ?_⟩
        show n / 256 ^ 3 ≠ 0
        have : (256:Nat)^3 = 16777216 := by decide
        rw [this]; omega

theorem nbytes_le (n : Nat) : 1 ≤ nbytes n ∧ nbytes n ≤ 4 := by
  unfold nbytes; split
  · omega
  · split
    · omega
    · split <;> omega

theorem encLen_length (n : Nat) : (encLen n).length = if n < 128 then 1 else 1 + nbytes n := by
  unfold encLen; split <;> simp <;> omega

theorem encLen_length_pos (n : Nat) : 1 ≤ (encLen n).length := by
  rw [encLen_length]; split <;> omega

theorem encLen_length_le (n : Nat) : (encLen n).length ≤ 5 := by
  rw [encLen_length]; have := nbytes_le n; split <;> omega

theorem encLen_ne_nil (n : Nat) : encLen n ≠ [] := by
  intro h; have := encLen_length_pos n; rw [h] at this; simp at this

theorem addASN1_length (t : UInt8) (b : Bytes) :
    (addASN1 t b).length = 1 + (encLen b.length).length + b.length := by
  simp [addASN1]; omega

theorem addASN1_length_le (t : UInt8) (b : Bytes) : (addASN1 t b).length ≤ b.length + 6 := by
  rw [addASN1_length]; have := encLen_length_le b.length; omega

theorem addASN1_length_ge (t : UInt8) (b : Bytes) : b.length + 2 ≤ (addASN1 t b).length := by
  rw [addASN1_length]; have := encLen_length_pos b.length; omega

theorem addASN1_ne_nil (t : UInt8) (b : Bytes) : addASN1 t b ≠ [] := by
  simp [addASN1]

theorem addASN1_append_isEmpty (t : UInt8) (b rest : Bytes) : (addASN1 t b ++ rest).isEmpty = false := by
  simp [addASN1]

/-- the body of an element is shorter than the element -/
theorem addASN1_body_lt {t : UInt8} {b : Bytes} {N : Nat} (h : (addASN1 t b).length < N) : b.length < N := by
  have := addASN1_length_ge t b; omega

/-! ### TLV round trip -/

theorem readLen_encLen (n : Nat) (h : n < 2^32) (rest : Bytes) :
    readLen (encLen n ++ rest) = some (n, rest) := by
  unfold encLen
  split
  · rename_i hn
    simp [readLen, toUInt8_toNat_of_lt n (by omega), hn]
  · rename_i hn
    have hb := nbytes_bounds n (by omega) h
    obtain ⟨h1, h4, hlt, hne⟩ := hb
    have hk : (128 + nbytes n).toUInt8.toNat = 128 + nbytes n := toUInt8_toNat_of_lt _ (by omega)
    simp only [List.cons_append, readLen, hk]
    have : ¬ (128 + nbytes n < 128) := by omega
    simp only [this, if_false, Nat.add_sub_cancel_left]
    have e1 : (List.take (nbytes n) (beBytes (nbytes n) n ++ rest)) = beBytes (nbytes n) n := by
      simp
    have e2 : (List.drop (nbytes n) (beBytes (nbytes n) n ++ rest)) = rest := by
      simp
    simp [e1, e2, beVal_beBytes _ _ hlt, hne]
    omega

/-- `ReadAnyASN1` inverts `AddASN1` for every low-tag-number tag and body below 2^32 bytes -/
theorem readAny_addASN1 (tag : UInt8) (body rest : Bytes)
    (ht : tag.toNat % 32 ≠ 31) (hb : body.length < 2^32) :
    readAny (addASN1 tag body ++ rest) = some (tag, body, rest) := by
  have hne : (encLen body.length ++ (body ++ rest)).isEmpty = false := by
    have := encLen_ne_nil body.length
    cases h : encLen body.length with
    | nil => exact absurd h this
    | cons x xs => rfl
  simp [addASN1, readAny, ht, List.append_assoc, readLen_encLen _ hb, hne]

theorem readAny_addASN1_nil (tag : UInt8) (body : Bytes)
    (ht : tag.toNat % 32 ≠ 31) (hb : body.length < 2^32) :
    readAny (addASN1 tag body) = some (tag, body, []) := by
  simpa using readAny_addASN1 tag body [] ht hb

theorem read_addASN1 (t : UInt8) (body rest : Bytes)
    (ht : t.toNat % 32 ≠ 31) (hb : body.length < 2^32) :
    read t (addASN1 t body ++ rest) = some (body, rest) := by
  simp [read, readAny_addASN1 t body rest ht hb]

theorem read_addASN1_nil (t : UInt8) (body : Bytes)
    (ht : t.toNat % 32 ≠ 31) (hb : body.length < 2^32) :
    read t (addASN1 t body) = some (body, []) := by
  simpa using read_addASN1 t body [] ht hb

/-- an element with another tag is refused by `read t` -/
theorem read_addASN1_ne (t t' : UInt8) (body rest : Bytes) (hne : t' ≠ t)
    (ht : t'.toNat % 32 ≠ 31) (hb : body.length < 2^32) :
    read t (addASN1 t' body ++ rest) = none := by
  simp [read, readAny_addASN1 t' body rest ht hb, hne]

theorem readElement_addASN1 (t : UInt8) (body rest : Bytes)
    (ht : t.toNat % 32 ≠ 31) (hb : body.length < 2^32) :
    readElement t (addASN1 t body ++ rest) = some (addASN1 t body, rest) := by
  simp [readElement, read_addASN1 t body rest ht hb]

theorem readElement_addASN1_nil (t : UInt8) (body : Bytes)
    (ht : t.toNat % 32 ≠ 31) (hb : body.length < 2^32) :
    readElement t (addASN1 t body) = some (addASN1 t body, []) := by
  simpa using readElement_addASN1 t body [] ht hb

@[simp] theorem peek_addASN1 (t t' : UInt8) (body rest : Bytes) :
    peek t (addASN1 t' body ++ rest) = (t' == t) := by
  simp [peek, addASN1]

@[simp] theorem peek_addASN1_nil (t t' : UInt8) (body : Bytes) :
    peek t (addASN1 t' body) = (t' == t) := by
  simp [peek, addASN1]

@[simp] theorem peek_nil (t : UInt8) : peek t [] = false := rfl

/-- OPTIONAL element present -/
theorem readOptional_addASN1 (t : UInt8) (body rest : Bytes)
    (ht : t.toNat % 32 ≠ 31) (hb : body.length < 2^32) :
    readOptional t (addASN1 t body ++ rest) = some (some body, rest) := by
  simp [readOptional, read_addASN1 t body rest ht hb]

theorem readOptional_addASN1_nil (t : UInt8) (body : Bytes)
    (ht : t.toNat % 32 ≠ 31) (hb : body.length < 2^32) :
    readOptional t (addASN1 t body) = some (some body, []) := by
  simpa using readOptional_addASN1 t body [] ht hb

/-- OPTIONAL element absent: the input does not start with the tag `t` -/
theorem readOptional_absent (t : UInt8) (s : Bytes) (h : peek t s = false) :
    readOptional t s = some (none, s) := by
  simp [readOptional, h]

theorem readOptional_nil (t : UInt8) : readOptional t [] = some (none, []) := rfl

/-- OPTIONAL element absent because the next element carries another tag -/
theorem readOptional_addASN1_ne (t t' : UInt8) (body rest : Bytes) (hne : t' ≠ t) :
    readOptional t (addASN1 t' body ++ rest) = some (none, addASN1 t' body ++ rest) := by
  apply readOptional_absent; simp [hne]

/-! ### NULL and OCTET STRING -/

theorem read_addNULL (rest : Bytes) : read tNULL (addNULL ++ rest) = some ([], rest) :=
  read_addASN1 tNULL [] rest (by decide) (by decide)

theorem read_addNULL_nil : read tNULL addNULL = some ([], []) := by decide

theorem read_addOctets (b rest : Bytes) (hb : b.length < 2^32) :
    read tOCT (addOctets b ++ rest) = some (b, rest) :=
  read_addASN1 tOCT b rest (by decide) hb

theorem read_addOctets_nil (b : Bytes) (hb : b.length < 2^32) :
    read tOCT (addOctets b) = some (b, []) :=
  read_addASN1_nil tOCT b (by decide) hb

end GoUefi.Der
