import GoUefi.Model.Der
import GoUefi.Lemmas.Bytes
/-!
  Round trips between the DER builder and the cryptobyte-style reader of `GoUefi/Model/Der.lean`.
  Every reader lemma is stated as a rewriting equation `reader (enc x ++ rest) = some (x, rest)`
  (plus an `_nil` variant without `rest`) so that it can be used with `rw` / `simp only`.
-/
namespace GoUefi.Der
open GoUefi

/-! ### big-endian helpers -/

@[simp] theorem beBytes_length (k n : Nat) : (beBytes k n).length = k := by
  induction k with
  | zero => rfl
  | succ k ih => simp [beBytes, ih]

theorem beVal_beBytes_mod (k n : Nat) : beVal (beBytes k n) = n % 256^k := by
  induction k with
  | zero => simp [beBytes, beVal, Nat.mod_one]
  | succ k ih =>
    simp only [beBytes, beVal, beBytes_length, ih]
    rw [toUInt8_toNat_of_lt _ (Nat.mod_lt _ (by decide)), Nat.mod_pow_succ]
    rw [Nat.mul_comm, Nat.add_comm]

theorem beVal_beBytes (k n : Nat) (h : n < 256^k) : beVal (beBytes k n) = n := by
  rw [beVal_beBytes_mod, Nat.mod_eq_of_lt h]

theorem beVal_append (a b : Bytes) : beVal (a ++ b) = beVal a * 256^b.length + beVal b := by
  induction a with
  | nil => simp [beVal]
  | cons x xs ih =>
    simp only [List.cons_append, beVal, ih, List.length_append, Nat.pow_add]
    rw [Nat.add_mul, Nat.mul_assoc, Nat.add_assoc]

theorem beVal_lt (b : Bytes) : beVal b < 256^b.length := by
  induction b with
  | nil => simp [beVal]
  | cons x xs ih =>
    simp only [beVal, List.length_cons, Nat.pow_succ]
    have hx := x.toNat_lt
    have : x.toNat * 256^xs.length ≤ 255 * 256^xs.length := Nat.mul_le_mul_right _ (by omega)
    omega

/-! ### lengths -/

theorem nbytes_bounds (n : Nat) (h128 : 128 ≤ n) (h : n < 2^32) :
    1 ≤ nbytes n ∧ nbytes n ≤ 4 ∧ n < 256^(nbytes n) ∧ n / 256^(nbytes n - 1) ≠ 0 := by
  unfold nbytes
  split
  · refine ⟨by omega, by omega, by simpa using ‹n < 256›, ?_⟩; simp; omega
  · split
    · refine ⟨by omega, by omega, by simpa using ‹n < 65536›, ?_⟩
      show n / 256 ^ 1 ≠ 0; simp; omega
    · split
      · refine ⟨by omega, by omega, by simpa using ‹n < 16777216›, ?_⟩
        show n / 256 ^ 2 ≠ 0
        have : (256:Nat)^2 = 65536 := by decide
        rw [this]; omega
      · refine ⟨by omega, by omega, by (have : (256:Nat)^4 = 2^32 := by decide); omega, ?_⟩
        show n / 256 ^ 3 ≠ 0
        have : (256:Nat)^3 = 16777216 := by decide
        rw [this]; omega

theorem nbytes_le (n : Nat) : 1 ≤ nbytes n ∧ nbytes n ≤ 4 := by
  unfold nbytes; split
  · omega
  · split
    · omega
    · split <;> omega

theorem encLen_length (n : Nat) : (encLen n).length = if n < 128 then 1 else 1 + nbytes n := by
  unfold encLen; split <;> simp <;> omega

theorem encLen_length_pos (n : Nat) : 1 ≤ (encLen n).length := by
  rw [encLen_length]; split <;> omega

theorem encLen_length_le (n : Nat) : (encLen n).length ≤ 5 := by
  rw [encLen_length]; have := nbytes_le n; split <;> omega

theorem encLen_ne_nil (n : Nat) : encLen n ≠ [] := by
  intro h; have := encLen_length_pos n; rw [h] at this; simp at this

theorem addASN1_length (t : UInt8) (b : Bytes) :
    (addASN1 t b).length = 1 + (encLen b.length).length + b.length := by
  simp [addASN1]; omega

theorem addASN1_length_le (t : UInt8) (b : Bytes) : (addASN1 t b).length ≤ b.length + 6 := by
  rw [addASN1_length]; have := encLen_length_le b.length; omega

theorem addASN1_length_ge (t : UInt8) (b : Bytes) : b.length + 2 ≤ (addASN1 t b).length := by
  rw [addASN1_length]; have := encLen_length_pos b.length; omega

theorem addASN1_ne_nil (t : UInt8) (b : Bytes) : addASN1 t b ≠ [] := by
  simp [addASN1]

theorem addASN1_append_isEmpty (t : UInt8) (b rest : Bytes) : (addASN1 t b ++ rest).isEmpty = false := by
  simp [addASN1]

/-- the body of an element is shorter than the element -/
theorem addASN1_body_lt {t : UInt8} {b : Bytes} {N : Nat} (h : (addASN1 t b).length < N) : b.length < N := by
  have := addASN1_length_ge t b; omega

/-! ### TLV round trip -/

theorem readLen_encLen (n : Nat) (h : n < 2^32) (rest : Bytes) :
    readLen (encLen n ++ rest) = some (n, rest) := by
  unfold encLen
  split
  · rename_i hn
    simp [readLen, toUInt8_toNat_of_lt n (by omega), hn]
  · rename_i hn
    have hb := nbytes_bounds n (by omega) h
    obtain ⟨h1, h4, hlt, hne⟩ := hb
    have hk : (128 + nbytes n).toUInt8.toNat = 128 + nbytes n := toUInt8_toNat_of_lt _ (by omega)
    simp only [List.cons_append, readLen, hk]
    have : ¬ (128 + nbytes n < 128) := by omega
    simp only [this, if_false, Nat.add_sub_cancel_left]
    have e1 : (List.take (nbytes n) (beBytes (nbytes n) n ++ rest)) = beBytes (nbytes n) n := by
      simp
    have e2 : (List.drop (nbytes n) (beBytes (nbytes n) n ++ rest)) = rest := by
      simp
    simp [e1, e2, beVal_beBytes _ _ hlt, hne]
    omega

/-- `ReadAnyASN1` inverts `AddASN1` for every low-tag-number tag and body below 2^32 bytes -/
theorem readAny_addASN1 (tag : UInt8) (body rest : Bytes)
    (ht : tag.toNat % 32 ≠ 31) (hb : body.length < 2^32) :
    readAny (addASN1 tag body ++ rest) = some (tag, body, rest) := by
  have hne : (encLen body.length ++ (body ++ rest)).isEmpty = false := by
    have := encLen_ne_nil body.length
    cases h : encLen body.length with
    | nil => exact absurd h this
    | cons x xs => rfl
  simp [addASN1, readAny, ht, List.append_assoc, readLen_encLen _ hb, hne]

theorem readAny_addASN1_nil (tag : UInt8) (body : Bytes)
    (ht : tag.toNat % 32 ≠ 31) (hb : body.length < 2^32) :
    readAny (addASN1 tag body) = some (tag, body, []) := by
  simpa using readAny_addASN1 tag body [] ht hb

theorem read_addASN1 (t : UInt8) (body rest : Bytes)
    (ht : t.toNat % 32 ≠ 31) (hb : body.length < 2^32) :
    read t (addASN1 t body ++ rest) = some (body, rest) := by
  simp [read, readAny_addASN1 t body rest ht hb]

theorem read_addASN1_nil (t : UInt8) (body : Bytes)
    (ht : t.toNat % 32 ≠ 31) (hb : body.length < 2^32) :
    read t (addASN1 t body) = some (body, []) := by
  simpa using read_addASN1 t body [] ht hb

/-- an element with another tag is refused by `read t` -/
theorem read_addASN1_ne (t t' : UInt8) (body rest : Bytes) (hne : t' ≠ t)
    (ht : t'.toNat % 32 ≠ 31) (hb : body.length < 2^32) :
    read t (addASN1 t' body ++ rest) = none := by
  simp [read, readAny_addASN1 t' body rest ht hb, hne]

theorem readElement_addASN1 (t : UInt8) (body rest : Bytes)
    (ht : t.toNat % 32 ≠ 31) (hb : body.length < 2^32) :
    readElement t (addASN1 t body ++ rest) = some (addASN1 t body, rest) := by
  simp [readElement, read_addASN1 t body rest ht hb]

theorem readElement_addASN1_nil (t : UInt8) (body : Bytes)
    (ht : t.toNat % 32 ≠ 31) (hb : body.length < 2^32) :
    readElement t (addASN1 t body) = some (addASN1 t body, []) := by
  simpa using readElement_addASN1 t body [] ht hb

@[simp] theorem peek_addASN1 (t t' : UInt8) (body rest : Bytes) :
    peek t (addASN1 t' body ++ rest) = (t' == t) := by
  simp [peek, addASN1]

@[simp] theorem peek_addASN1_nil (t t' : UInt8) (body : Bytes) :
    peek t (addASN1 t' body) = (t' == t) := by
  simp [peek, addASN1]

@[simp] theorem peek_nil (t : UInt8) : peek t [] = false := rfl

/-- OPTIONAL element present -/
theorem readOptional_addASN1 (t : UInt8) (body rest : Bytes)
    (ht : t.toNat % 32 ≠ 31) (hb : body.length < 2^32) :
    readOptional t (addASN1 t body ++ rest) = some (some body, rest) := by
  simp [readOptional, read_addASN1 t body rest ht hb]

theorem readOptional_addASN1_nil (t : UInt8) (body : Bytes)
    (ht : t.toNat % 32 ≠ 31) (hb : body.length < 2^32) :
    readOptional t (addASN1 t body) = some (some body, []) := by
  simpa using readOptional_addASN1 t body [] ht hb

/-- OPTIONAL element absent: the input does not start with the tag `t` -/
theorem readOptional_absent (t : UInt8) (s : Bytes) (h : peek t s = false) :
    readOptional t s = some (none, s) := by
  simp [readOptional, h]

theorem readOptional_nil (t : UInt8) : readOptional t [] = some (none, []) := rfl

/-- OPTIONAL element absent because the next element carries another tag -/
theorem readOptional_addASN1_ne (t t' : UInt8) (body rest : Bytes) (hne : t' ≠ t) :
    readOptional t (addASN1 t' body ++ rest) = some (none, addASN1 t' body ++ rest) := by
  apply readOptional_absent; simp [hne]

/-! ### NULL and OCTET STRING -/

theorem read_addNULL (rest : Bytes) : read tNULL (addNULL ++ rest) = some ([], rest) :=
  read_addASN1 tNULL [] rest (by decide) (by decide)

theorem read_addNULL_nil : read tNULL addNULL = some ([], []) := by decide

theorem read_addOctets (b rest : Bytes) (hb : b.length < 2^32) :
    read tOCT (addOctets b ++ rest) = some (b, rest) :=
  read_addASN1 tOCT b rest (by decide) hb

theorem read_addOctets_nil (b : Bytes) (hb : b.length < 2^32) :
    read tOCT (addOctets b) = some (b, []) :=
  read_addASN1_nil tOCT b (by decide) hb

/-! ### INTEGER -/

theorem natBytesAux_spec (f : Nat) : ∀ (n : Nat) (acc : Bytes), n ≤ f →
    ∃ l, natBytesAux f n acc = l ++ acc ∧ beVal l = n ∧ (∀ b tl, l = b :: tl → b ≠ 0) := by
  induction f with
  | zero =>
    intro n acc h
    exact ⟨[], by simp [natBytesAux], by simp [beVal]; omega, by intro b tl h; cases h⟩
  | succ f ih =>
    intro n acc h
    by_cases hn : n = 0
    · subst hn
      exact ⟨[], by simp [natBytesAux], by simp [beVal], by intro b tl h; cases h⟩
    · obtain ⟨l, hl, hv, hh⟩ := ih (n / 256) ((n % 256).toUInt8 :: acc) (by omega)
      have hm : (n % 256).toUInt8.toNat = n % 256 := toUInt8_toNat_of_lt _ (Nat.mod_lt n (by decide))
      refine ⟨l ++ [(n % 256).toUInt8], ?_, ?_, ?_⟩
      · simp [natBytesAux, hn, hl]
      · rw [beVal_append, hv]; simp [beVal, hm]; omega
      · intro b tl hbt
        cases l with
        | nil =>
          simp at hbt; obtain ⟨rfl, _⟩ := hbt
          have h0 : n / 256 = 0 := by simpa [beVal] using hv.symm
          intro hz
          have := congrArg UInt8.toNat hz
          rw [hm] at this
          simp at this; omega
        | cons x xs =>
          simp at hbt; exact hbt.1 ▸ hh x xs rfl

/-- `natBytes n` is a big-endian representation of `n` … -/
theorem beVal_natBytes (n : Nat) : beVal (natBytes n) = n := by
  unfold natBytes
  split
  · subst_vars; simp [beVal]
  · obtain ⟨l, hl, hv, _⟩ := natBytesAux_spec (n + 1) n [] (by omega)
    rw [hl]; simpa using hv

theorem natBytes_ne_nil (n : Nat) : natBytes n ≠ [] := by
  unfold natBytes
  split
  · simp
  · rename_i hn
    obtain ⟨l, hl, hv, _⟩ := natBytesAux_spec (n + 1) n [] (by omega)
    rw [hl]; intro h
    simp at h; subst h; simp [beVal] at hv; omega

theorem natBytes_zero : natBytes 0 = [0] := rfl

/-- … and the minimal one: no leading zero byte unless `n = 0` (where it is the single byte 0) -/
theorem natBytes_head_ne_zero (n : Nat) (hn : n ≠ 0) (b : UInt8) (tl : Bytes)
    (h : natBytes n = b :: tl) : b ≠ 0 := by
  unfold natBytes at h
  rw [if_neg hn] at h
  obtain ⟨l, hl, _, hh⟩ := natBytesAux_spec (n + 1) n [] (by omega)
  rw [hl] at h; simp at h
  exact hh b tl h

/-- a leading byte `b` bounds the value from below -/
theorem beVal_cons_ge (b : UInt8) (tl : Bytes) : b.toNat * 256^tl.length ≤ beVal (b :: tl) := by
  simp [beVal]

theorem natBytes_length_le (n k : Nat) (hk : 0 < k) (h : n < 256^k) : (natBytes n).length ≤ k := by
  by_cases hn : n = 0
  · subst hn; simp [natBytes_zero]; omega
  · cases hb : natBytes n with
    | nil => simp; 
    | cons b tl =>
      have hb0 := natBytes_head_ne_zero n hn b tl hb
      have hge := beVal_cons_ge b tl
      rw [← hb, beVal_natBytes] at hge
      have hb1 : 1 ≤ b.toNat := by
        rcases Nat.eq_zero_or_pos b.toNat with h0 | h0
        · exact absurd (UInt8.toNat_inj.mp (by simpa using h0)) hb0
        · exact h0
      have h1 : 256^tl.length ≤ n := Nat.le_trans (Nat.le_mul_of_pos_left _ hb1) hge
      have h2 : 256^tl.length < 256^k := Nat.lt_of_le_of_lt h1 h
      have h3 : tl.length < k := (Nat.pow_lt_pow_iff_right (by decide)).mp h2
      simp; omega

/-- content octets written by `addUInt` -/
def uintBody (n : Nat) : Bytes :=
  if ((natBytes n).headD 0).toNat ≥ 128 then 0 :: natBytes n else natBytes n

theorem addUInt_eq (n : Nat) : addUInt n = addASN1 tINT (uintBody n) := rfl

theorem uintBody_length_le (n : Nat) : (uintBody n).length ≤ (natBytes n).length + 1 := by
  unfold uintBody; split <;> simp

theorem uintBody_of_ge {n : Nat} {b0 : UInt8} {tl : Bytes} (hb : natBytes n = b0 :: tl)
    (h : b0.toNat ≥ 128) : uintBody n = 0 :: b0 :: tl := by
  unfold uintBody; rw [hb]; exact if_pos h

theorem uintBody_of_lt {n : Nat} {b0 : UInt8} {tl : Bytes} (hb : natBytes n = b0 :: tl)
    (h : ¬ b0.toNat ≥ 128) : uintBody n = b0 :: tl := by
  unfold uintBody; rw [hb]; exact if_neg h

theorem checkInt_uintBody (n : Nat) : checkInt (uintBody n) = true := by
  cases hb : natBytes n with
  | nil => exact absurd hb (natBytes_ne_nil n)
  | cons b0 tl =>
    by_cases h128 : b0.toNat ≥ 128
    · rw [uintBody_of_ge hb h128]
      simp [checkInt]; omega
    · rw [uintBody_of_lt hb h128]
      cases tl with
      | nil => rfl
      | cons b1 tl' =>
        have hn : n ≠ 0 := by
          intro h0; subst h0; rw [natBytes_zero] at hb; simp at hb
        have hb0 := natBytes_head_ne_zero n hn b0 _ hb
        have hff : b0 ≠ 255 := by intro h; subst h; simp at h128
        simp [checkInt, hb0, hff]

theorem signedVal_cons_lt (b : UInt8) (tl : Bytes) (h : ¬ b.toNat ≥ 128) :
    signedVal (b :: tl) = (beVal (b :: tl) : Int) := by
  unfold signedVal; exact if_neg h

theorem signedVal_uintBody (n : Nat) : signedVal (uintBody n) = (n : Int) := by
  cases hb : natBytes n with
  | nil => exact absurd hb (natBytes_ne_nil n)
  | cons b0 tl =>
    have hv : beVal (b0 :: tl) = n := by rw [← hb, beVal_natBytes]
    by_cases h128 : b0.toNat ≥ 128
    · rw [uintBody_of_ge hb h128]
      have e : beVal (0 :: b0 :: tl) = beVal (b0 :: tl) := by simp [beVal]
      rw [signedVal_cons_lt _ _ (by decide), e, hv]
    · rw [uintBody_of_lt hb h128, signedVal_cons_lt _ _ h128, hv]

/-- `ReadASN1Integer(&big.Int)` inverts the INTEGER builder (hypothesis on the content octets) -/
theorem readBigInt_addUInt_of_body (n : Nat) (rest : Bytes) (h : (uintBody n).length < 2^32) :
    readBigInt (addUInt n ++ rest) = some ((n : Int), rest) := by
  rw [addUInt_eq]
  simp [readBigInt, read_addASN1 tINT (uintBody n) rest (by decide) h,
    checkInt_uintBody, signedVal_uintBody]

theorem readBigInt_addUInt_of_body_nil (n : Nat) (h : (uintBody n).length < 2^32) :
    readBigInt (addUInt n) = some ((n : Int), []) := by
  simpa using readBigInt_addUInt_of_body n [] h

/-- `ReadASN1Integer(&big.Int)` inverts the INTEGER builder for every practical value -/
theorem readBigInt_addUInt (n : Nat) (rest : Bytes) (h : (natBytes n).length + 1 < 2^32) :
    readBigInt (addUInt n ++ rest) = some ((n : Int), rest) := by
  have hl := uintBody_length_le n
  exact readBigInt_addUInt_of_body n rest (by omega)

theorem readBigInt_addUInt_nil (n : Nat) (h : (natBytes n).length + 1 < 2^32) :
    readBigInt (addUInt n) = some ((n : Int), []) := by
  simpa using readBigInt_addUInt n [] h

theorem uintBody_length_le_8 (n : Nat) (h : n < 2^63) : (uintBody n).length ≤ 8 := by
  have h8 : (natBytes n).length ≤ 8 := natBytes_length_le n 8 (by decide) (by
    have : (2:Nat)^63 < 256^8 := by decide
    omega)
  cases hb : natBytes n with
  | nil => exact absurd hb (natBytes_ne_nil n)
  | cons b0 tl =>
    rw [hb] at h8
    by_cases h128 : b0.toNat ≥ 128
    · rw [uintBody_of_ge hb h128]
      simp at h8 ⊢
      -- 8 bytes with the top bit set would be at least 2^63
      by_cases h7 : tl.length = 7
      · have hge := beVal_cons_ge b0 tl
        rw [← hb, beVal_natBytes, h7] at hge
        have : (256:Nat)^7 = 2^56 := by decide
        rw [this] at hge
        have : 128 * 2^56 ≤ b0.toNat * 2^56 := Nat.mul_le_mul_right _ h128
        omega
      · omega
    · rw [uintBody_of_lt hb h128]; exact h8

/-- `ReadASN1Integer(&int64)` inverts the INTEGER builder below 2^63 -/
theorem readInt64_addUInt (n : Nat) (rest : Bytes) (h : n < 2^63) :
    readInt64 (addUInt n ++ rest) = some ((n : Int), rest) := by
  have hl := uintBody_length_le_8 n h
  rw [addUInt_eq]
  have h8 : ¬ (uintBody n).length > 8 := by omega
  simp [readInt64, read_addASN1 tINT (uintBody n) rest (by decide) (by omega),
    checkInt_uintBody, signedVal_uintBody, h8]

theorem readInt64_addUInt_nil (n : Nat) (h : n < 2^63) :
    readInt64 (addUInt n) = some ((n : Int), []) := by
  simpa using readInt64_addUInt n [] h

/-! ### base-128 arcs -/

/-- value of a run of base-128 digits continuing from `ret` (what `readBase128Int` accumulates) -/
def val128 (ret : Nat) (l : Bytes) : Nat := l.foldl (fun r b => r * 128 + b.toNat % 128) ret

theorem val128_cons (ret : Nat) (b : UInt8) (l : Bytes) :
    val128 ret (b :: l) = val128 (ret * 128 + b.toNat % 128) l := rfl

theorem val128_append_singleton (ret : Nat) (l : Bytes) (b : UInt8) :
    val128 ret (l ++ [b]) = val128 ret l * 128 + b.toNat % 128 := by
  simp [val128, List.foldl_append]

theorem le_val128 (l : Bytes) : ∀ ret, ret ≤ val128 ret l := by
  induction l with
  | nil => intro ret; exact Nat.le_refl _
  | cons b l ih =>
    intro ret
    rw [val128_cons]
    exact Nat.le_trans (by omega) (ih _)

/-- the continuation bytes written by `base128Aux`: all have the top bit set, they encode `m`
    minimally (no leading 0x80) and take at most `k` bytes when `m < 128^k` -/
theorem base128Aux_spec (f : Nat) : ∀ (m : Nat) (acc : Bytes), m ≤ f →
    ∃ l, base128Aux f m acc = l ++ acc ∧ (∀ b ∈ l, 128 ≤ b.toNat) ∧ val128 0 l = m ∧
      (∀ b tl, l = b :: tl → b ≠ 0x80) ∧ (∀ k, m < 128^k → l.length ≤ k) := by
  induction f with
  | zero =>
    intro m acc h
    exact ⟨[], by simp [base128Aux], by simp, (by simp [val128]; omega), (by intro b tl h; cases h),
      by simp⟩
  | succ f ih =>
    intro m acc h
    by_cases hm : m = 0
    · subst hm
      exact ⟨[], by simp [base128Aux], by simp, by simp [val128], (by intro b tl h; cases h), by simp⟩
    · obtain ⟨x, hxe⟩ : ∃ x, x = (128 + m % 128).toUInt8 := ⟨_, rfl⟩
      have hx : x.toNat = 128 + m % 128 := by rw [hxe]; exact toUInt8_toNat_of_lt _ (by omega)
      obtain ⟨l, hl, hall, hv, hh, hlen⟩ := ih (m / 128) (x :: acc) (by omega)
      refine ⟨l ++ [x], ?_, ?_, ?_, ?_, ?_⟩
      · simp only [base128Aux, if_neg hm]
        rw [← hxe, hl]; simp
      · intro b hb
        rcases List.mem_append.mp hb with hb | hb
        · exact hall b hb
        · simp at hb; subst hb; rw [hx]; omega
      · rw [val128_append_singleton, hv, hx]; omega
      · intro b tl hbt
        cases l with
        | nil =>
          simp at hbt; obtain ⟨rfl, _⟩ := hbt
          have h0 : m / 128 = 0 := by simpa [val128] using hv.symm
          intro hz
          have := congrArg UInt8.toNat hz
          rw [hx] at this
          simp at this; omega
        | cons y ys =>
          simp at hbt; exact hbt.1 ▸ hh y ys rfl
      · intro k hk
        cases k with
        | zero => simp at hk; omega
        | succ k =>
          have : m / 128 < 128^k := by
            rw [Nat.pow_succ] at hk
            exact Nat.div_lt_of_lt_mul (by rw [Nat.mul_comm]; exact hk)
          have := hlen k this
          simp; omega

/-- the reader on continuation bytes followed by a final byte -/
theorem readBase128Aux_run (last : UInt8) (rest : Bytes) (hlast : last.toNat < 128) :
    ∀ (l : Bytes) (i ret : Nat), (∀ b ∈ l, 128 ≤ b.toNat) → i + l.length ≤ 4 →
      val128 ret l < 2^24 → (i = 0 → ∀ b tl, l = b :: tl → b ≠ 0x80) →
      readBase128Aux i ret (l ++ last :: rest) = some (val128 ret l * 128 + last.toNat, rest) := by
  intro l
  induction l with
  | nil =>
    intro i ret _ hi hv _
    have h5 : (i == 5) = false := by simp; omega
    have hr : ¬ ret ≥ 2^24 := by simp [val128] at hv; omega
    have hl : (last == 0x80) = false := by
      simp; intro h; subst h; simp at hlast
    have hmod : last.toNat % 128 = last.toNat := Nat.mod_eq_of_lt hlast
    simp only [List.nil_append, readBase128Aux, h5, hl, Bool.and_false, hmod]
    simp [hr, hlast, val128]
  | cons b l ih =>
    intro i ret hall hi hv hhead
    have hb : 128 ≤ b.toNat := hall b (by simp)
    have h5 : (i == 5) = false := by simp; simp at hi; omega
    have hle := le_val128 (b :: l) ret
    have hr : ¬ ret ≥ 2^24 := by omega
    have hz : (i == 0 && b == 0x80) = false := by
      by_cases hi0 : i = 0
      · have := hhead hi0 b l rfl
        simp [this]
      · simp [hi0]
    have hnb : ¬ b.toNat < 128 := by omega
    simp only [List.cons_append, readBase128Aux, h5, hz]
    simp only [hr, hnb, if_false, Bool.false_eq_true]
    rw [ih (i+1) (ret * 128 + b.toNat % 128) (fun x hx => hall x (by simp [hx]))
      (by simp at hi; omega) (by rw [val128_cons] at hv; exact hv) (by intro h; omega)]
    rw [val128_cons]

theorem base128_ne_nil (n : Nat) : base128 n ≠ [] := by
  unfold base128
  obtain ⟨l, hl, _⟩ := base128Aux_spec (n + 1) (n / 128) [(n % 128).toUInt8] (by omega)
  rw [hl]; simp

/-- an arc below 2^31 takes at most 5 bytes -/
theorem base128_length_le (n : Nat) (h : n < 2^31) : (base128 n).length ≤ 5 := by
  unfold base128
  obtain ⟨l, hl, _, _, _, hlen⟩ := base128Aux_spec (n + 1) (n / 128) [(n % 128).toUInt8] (by omega)
  have : (128:Nat)^4 = 2^28 := by decide
  have := hlen 4 (by omega)
  rw [hl]; simp; omega

/-- `readBase128Int` inverts the builder's base-128 arc for every arc below 2^31 -/
theorem readBase128_base128 (n : Nat) (rest : Bytes) (h : n < 2^31) :
    readBase128 (base128 n ++ rest) = some (n, rest) := by
  unfold base128 readBase128
  obtain ⟨l, hl, hall, hv, hh, hlen⟩ :=
    base128Aux_spec (n + 1) (n / 128) [(n % 128).toUInt8] (by omega)
  have hx : (n % 128).toUInt8.toNat = n % 128 := toUInt8_toNat_of_lt _ (by omega)
  have h4 : l.length ≤ 4 := hlen 4 (by
    have : (128:Nat)^4 = 2^28 := by decide
    omega)
  rw [hl, List.append_assoc, List.singleton_append,
    readBase128Aux_run _ rest (by rw [hx]; omega) l 0 0 hall (by omega) (by rw [hv]; omega)
      (fun _ => hh)]
  rw [hv, hx]
  congr 2; omega

theorem readBase128_base128_nil (n : Nat) (h : n < 2^31) :
    readBase128 (base128 n) = some (n, []) := by
  simpa using readBase128_base128 n [] h

/-! ### OBJECT IDENTIFIER -/

theorem oidRest_flatten : ∀ (arcs : List Nat) (fuel : Nat) (acc : List Nat),
    (∀ x ∈ arcs, x < 2^31) → (arcs.map base128).flatten.length ≤ fuel →
    oidRest fuel (arcs.map base128).flatten acc = some (acc.reverse ++ arcs) := by
  intro arcs
  induction arcs with
  | nil => intro fuel acc _ _; cases fuel <;> simp [oidRest]
  | cons x xs ih =>
    intro fuel acc hall hlen
    have hx : x < 2^31 := hall x (by simp)
    have hne := base128_ne_nil x
    have hpos : 1 ≤ (base128 x).length := by
      cases hb : base128 x with
      | nil => exact absurd hb hne
      | cons _ _ => simp
    simp only [List.map_cons, List.flatten_cons, List.length_append] at hlen ⊢
    cases fuel with
    | zero => omega
    | succ f =>
      have hemp : (base128 x ++ (xs.map base128).flatten).isEmpty = false := by
        cases hb : base128 x with
        | nil => exact absurd hb hne
        | cons _ _ => rfl
      simp only [oidRest, hemp, readBase128_base128 x _ hx]
      rw [ih f (x :: acc) (fun y hy => hall y (by simp [hy])) (by omega)]
      simp

/-- decidable side condition of the OID round trip: valid first two arcs, `40·a+b` and every
    further arc below 2^31 (the reader's limit) -/
def oidArcsOk : List Nat → Bool
  | a :: b :: r => validOID (a :: b :: r) && decide (40 * a + b < 2^31) && r.all (fun x => decide (x < 2^31))
  | _ => false

/-- content octets of an OBJECT IDENTIFIER -/
def oidBody (a b : Nat) (r : List Nat) : Bytes := base128 (40 * a + b) ++ (r.map base128).flatten

theorem addOID_eq (a b : Nat) (r : List Nat) (hv : validOID (a :: b :: r) = true) :
    addOID (a :: b :: r) = some (addASN1 tOID (oidBody a b r)) := by
  simp [addOID, hv, oidBody]

/-- `ReadASN1ObjectIdentifier` inverts `AddASN1ObjectIdentifier` -/
theorem readOID_addOID (a b : Nat) (r : List Nat) (rest : Bytes)
    (hv : validOID (a :: b :: r) = true) (hab : 40 * a + b < 2^31) (hr : ∀ x ∈ r, x < 2^31)
    (hlen : (oidBody a b r).length < 2^32) :
    readOID ((addOID (a :: b :: r)).getD [] ++ rest) = some (a :: b :: r, rest) := by
  rw [addOID_eq a b r hv]
  have hne : (oidBody a b r).isEmpty = false := by
    unfold oidBody
    cases hb : base128 (40 * a + b) with
    | nil => exact absurd hb (base128_ne_nil _)
    | cons _ _ => rfl
  simp only [Option.getD_some, readOID, read_addASN1 tOID _ rest (by decide) hlen, hne]
  unfold oidBody
  simp only [readBase128_base128 _ _ hab]
  rw [oidRest_flatten r _ [] hr (Nat.le_refl _)]
  simp only [validOID, Bool.and_eq_true, decide_eq_true_eq] at hv
  obtain ⟨ha, hb⟩ := hv
  by_cases h80 : 40 * a + b < 80
  · have h1 : (40 * a + b) / 40 = a := by omega
    have h2 : (40 * a + b) % 40 = b := by omega
    simp [h80, h1, h2]
  · have h1 : a = 2 := by omega
    subst h1
    have h2 : 40 * 2 + b - 80 = b := by omega
    simp [h80, h2]

/-- packaged form for an arbitrary arc list -/
theorem readOID_addOID_of_ok (o : List Nat) (enc rest : Bytes) (hok : oidArcsOk o = true)
    (henc : addOID o = some enc) (hlen : enc.length < 2^32) :
    readOID (enc ++ rest) = some (o, rest) := by
  match o, hok with
  | a :: b :: r, hok =>
    simp only [oidArcsOk, Bool.and_eq_true, decide_eq_true_eq, List.all_eq_true] at hok
    obtain ⟨⟨hv, hab⟩, hr⟩ := hok
    have e := addOID_eq a b r hv
    rw [e] at henc
    have henc' : addASN1 tOID (oidBody a b r) = enc := by simpa using henc
    have hl : (oidBody a b r).length < 2^32 := addASN1_body_lt (by rw [henc']; exact hlen)
    have := readOID_addOID a b r rest hv hab hr hl
    rw [e] at this
    simpa [henc'] using this

theorem validOID_of_oidArcsOk {o : List Nat} (h : oidArcsOk o = true) : validOID o = true := by
  match o, h with
  | a :: b :: r, h =>
    simp only [oidArcsOk, Bool.and_eq_true] at h
    exact h.1.1

/-- a valid OID is written as one OBJECT IDENTIFIER element -/
theorem addOID_of_valid {o : List Nat} (h : validOID o = true) :
    ∃ body, addOID o = some (addASN1 tOID body) := by
  match o, h with
  | a :: b :: r, h => exact ⟨_, addOID_eq a b r h⟩

/-- the same for `(addOID o).getD []` (what `BytesOrPanic` yields for a valid OID) -/
theorem readOID_addOID_getD (o : List Nat) (rest : Bytes) (hok : oidArcsOk o = true)
    (hlen : ((addOID o).getD []).length < 2^32) :
    readOID ((addOID o).getD [] ++ rest) = some (o, rest) := by
  obtain ⟨body, hb⟩ := addOID_of_valid (validOID_of_oidArcsOk hok)
  rw [hb] at hlen ⊢
  exact readOID_addOID_of_ok o _ rest hok hb hlen

/-! ### UTCTime -/

theorem zoneOk_length {z : Bytes} (h : zoneOk z = true) : z.length ≤ 5 := by
  unfold zoneOk at h
  split at h
  · simp
  · simp
  · cases h

/-- every text `ReadASN1UTCTime` accepts has at most 17 bytes -/
theorem parseUTC_length {t c : Bytes} (h : parseUTC t = some c) : t.length ≤ 17 := by
  unfold parseUTC at h
  split at h
  · split at h
    · split at h
      · split at h
        · split at h
          · rename_i hc
            simp only [Bool.and_eq_true] at hc
            have := zoneOk_length hc.2
            simp only [List.length_cons]; omega
          · cases h
        · split at h
          · rename_i hc
            simp only [Bool.and_eq_true] at hc
            have := zoneOk_length hc.2
            simp only [List.length_cons] at this ⊢; omega
          · cases h
      · split at h
        · rename_i hc
          simp only [Bool.and_eq_true] at hc
          have := zoneOk_length hc.2
          simp only [List.length_cons]; omega
        · cases h
    · cases h
  · cases h

end GoUefi.Der
