import GoUefi.Base
/- codec round trips and slice lemmas shared by the property proofs -/
namespace GoUefi

theorem toUInt8_toNat_of_lt (m : Nat) (h : m < 256) : m.toUInt8.toNat = m := by
  simp [Nat.toUInt8, UInt8.toNat, UInt8.ofNat]; omega

@[simp] theorem le16_length (n : Nat) : (le16 n).length = 2 := rfl
@[simp] theorem le32_length (n : Nat) : (le32 n).length = 4 := rfl
@[simp] theorem be16_length (n : Nat) : (be16 n).length = 2 := rfl
@[simp] theorem be32_length (n : Nat) : (be32 n).length = 4 := rfl
@[simp] theorem zeros_length (k : Nat) : (zeros k).length = k := by simp [zeros]

theorem rd32_le32 (n : Nat) (h : n < 2^32) : rd32 (le32 n) = n := by
  simp only [le32, rd32]
  rw [toUInt8_toNat_of_lt _ (by omega), toUInt8_toNat_of_lt _ (by omega),
      toUInt8_toNat_of_lt _ (by omega), toUInt8_toNat_of_lt _ (by omega)]
  omega

theorem rd16_le16 (n : Nat) (h : n < 2^16) : rd16 (le16 n) = n := by
  simp only [le16, rd16]
  rw [toUInt8_toNat_of_lt _ (by omega), toUInt8_toNat_of_lt _ (by omega)]
  omega

theorem rdBe32_be32 (n : Nat) (h : n < 2^32) : rdBe32 (be32 n) = n := by
  simp only [be32, rdBe32]
  rw [toUInt8_toNat_of_lt _ (by omega), toUInt8_toNat_of_lt _ (by omega),
      toUInt8_toNat_of_lt _ (by omega), toUInt8_toNat_of_lt _ (by omega)]
  omega

theorem rdBe16_be16 (n : Nat) (h : n < 2^16) : rdBe16 (be16 n) = n := by
  simp only [be16, rdBe16]
  rw [toUInt8_toNat_of_lt _ (by omega), toUInt8_toNat_of_lt _ (by omega)]
  omega

theorem toNat_toUInt8 (a : UInt8) : a.toNat.toUInt8 = a := by
  simp [Nat.toUInt8]

theorem le32_rd32 (b : Bytes) (h : b.length = 4) : le32 (rd32 b) = b := by
  match b, h with
  | [a, b, c, d], _ =>
    simp only [le32, rd32]
    have ha := a.toNat_lt; have hb := b.toNat_lt; have hc := c.toNat_lt; have hd := d.toNat_lt
    have e1 : (a.toNat + 256 * b.toNat + 65536 * c.toNat + 16777216 * d.toNat) % 256 = a.toNat := by omega
    have e2 : (a.toNat + 256 * b.toNat + 65536 * c.toNat + 16777216 * d.toNat) / 256 % 256 = b.toNat := by omega
    have e3 : (a.toNat + 256 * b.toNat + 65536 * c.toNat + 16777216 * d.toNat) / 65536 % 256 = c.toNat := by omega
    have e4 : (a.toNat + 256 * b.toNat + 65536 * c.toNat + 16777216 * d.toNat) / 16777216 % 256 = d.toNat := by omega
    rw [e1, e2, e3, e4]
    simp [Nat.toUInt8]

theorem le16_rd16 (b : Bytes) (h : b.length = 2) : le16 (rd16 b) = b := by
  match b, h with
  | [a, b], _ =>
    simp only [le16, rd16]
    have ha := a.toNat_lt; have hb := b.toNat_lt
    have e1 : (a.toNat + 256 * b.toNat) % 256 = a.toNat := by omega
    have e2 : (a.toNat + 256 * b.toNat) / 256 % 256 = b.toNat := by omega
    rw [e1, e2]
    simp [Nat.toUInt8]

theorem be32_rdBe32 (b : Bytes) (h : b.length = 4) : be32 (rdBe32 b) = b := by
  match b, h with
  | [a, b, c, d], _ =>
    simp only [be32, rdBe32]
    have ha := a.toNat_lt; have hb := b.toNat_lt; have hc := c.toNat_lt; have hd := d.toNat_lt
    have e1 : (16777216 * a.toNat + 65536 * b.toNat + 256 * c.toNat + d.toNat) % 256 = d.toNat := by omega
    have e2 : (16777216 * a.toNat + 65536 * b.toNat + 256 * c.toNat + d.toNat) / 256 % 256 = c.toNat := by omega
    have e3 : (16777216 * a.toNat + 65536 * b.toNat + 256 * c.toNat + d.toNat) / 65536 % 256 = b.toNat := by omega
    have e4 : (16777216 * a.toNat + 65536 * b.toNat + 256 * c.toNat + d.toNat) / 16777216 % 256 = a.toNat := by omega
    rw [e1, e2, e3, e4]
    simp [Nat.toUInt8]

theorem be16_rdBe16 (b : Bytes) (h : b.length = 2) : be16 (rdBe16 b) = b := by
  match b, h with
  | [a, b], _ =>
    simp only [be16, rdBe16]
    have ha := a.toNat_lt; have hb := b.toNat_lt
    have e1 : (256 * a.toNat + b.toNat) % 256 = b.toNat := by omega
    have e2 : (256 * a.toNat + b.toNat) / 256 % 256 = a.toNat := by omega
    rw [e1, e2]
    simp [Nat.toUInt8]

theorem rd32_lt (b : Bytes) : rd32 b < 2^32 := by
  unfold rd32
  split
  · rename_i a b c d
    have ha := a.toNat_lt; have hb := b.toNat_lt; have hc := c.toNat_lt; have hd := d.toNat_lt
    omega
  · omega

theorem rd16_lt (b : Bytes) : rd16 b < 2^16 := by
  unfold rd16
  split
  · rename_i a b
    have ha := a.toNat_lt; have hb := b.toNat_lt
    omega
  · omega

theorem rdBe32_lt (b : Bytes) : rdBe32 b < 2^32 := by
  unfold rdBe32
  split
  · rename_i a b c d
    have ha := a.toNat_lt; have hb := b.toNat_lt; have hc := c.toNat_lt; have hd := d.toNat_lt
    omega
  · omega

theorem rdBe16_lt (b : Bytes) : rdBe16 b < 2^16 := by
  unfold rdBe16
  split
  · rename_i a b
    have ha := a.toNat_lt; have hb := b.toNat_lt
    omega
  · omega

theorem readN_ok {n bs x rest} (h : readN n bs = .ok (x, rest)) : bs = x ++ rest ∧ x.length = n := by
  unfold readN at h
  split at h
  · simp at h; obtain ⟨rfl, rfl⟩ := h; simp [*]
  · split at h
    · simp at h
    · split at h
      · simp at h
      · simp at h; obtain ⟨rfl, rfl⟩ := h
        exact ⟨by simp, by simp; omega⟩

theorem readN_append (x rest : Bytes) : readN x.length (x ++ rest) = .ok (x, rest) := by
  unfold readN
  by_cases h : x.length = 0
  · have : x = [] := List.eq_nil_of_length_eq_zero h
    subst this; simp
  · have hx : x ≠ [] := by intro e; subst e; simp at h
    simp [h, hx]

@[simp] theorem slice_length (b : Bytes) (i j : Nat) : (slice b i j).length = min j b.length - i := by
  simp [slice]

theorem slice_getElem? (b : Bytes) (i j k : Nat) (h : i + k < j) :
    (slice b i j)[k]? = b[i + k]? := by
  simp [slice, List.getElem?_drop, h]

end GoUefi
