import GoUefi.Model.Store
import GoUefi.Lemmas.SigDb
import GoUefi.Lemmas.AuthDesc
/-
  Helper definitions and lemmas for C12: the in-memory test store behaves as one register per
  variable.  Association-list facts for `Store.get` / `Store.put`, "a database encoding is not an
  authentication descriptor", histories of operations and their last written value.
-/
namespace GoUefi.Impl

/-! ## the association list -/

theorem Store.get_put_same (s : Store) (v : String) (b : Bytes) : (s.put v b).get v = some b := by
  simp [Store.get, Store.put]

theorem Store.find_filter_ne (s : Store) {v w : String} (h : w ≠ v) :
    (s.filter (·.1 != w)).find? (·.1 == v) = s.find? (·.1 == v) := by
  induction s with
  | nil => rfl
  | cons x xs ih =>
    by_cases hx : x.1 = v
    · have hxw : (x.1 != w) = true := by
        rw [hx]; simp only [bne_iff_ne, ne_eq]; exact fun e => h e.symm
      simp only [List.filter_cons, hxw, if_true]
      simp [hx]
    · by_cases hxw : (x.1 != w) = true
      · simp only [List.filter_cons, hxw, if_true]
        simp [hx, ih]
      · simp only [List.filter_cons, hxw, Bool.false_eq_true, if_false]
        simp [hx, ih]

theorem Store.get_put_ne (s : Store) {v w : String} (h : w ≠ v) (b : Bytes) :
    (s.put w b).get v = s.get v := by
  unfold Store.get Store.put
  rw [List.find?_cons_of_neg (by simpa using h), Store.find_filter_ne s h]

/-! ## a database encoding never parses as an authentication descriptor -/

/-- bytes 20–21 (where a descriptor carries wRevision = 0x0200) are zero: not a descriptor -/
theorem readAuth_zero_rev (ty a rest : Bytes) (hty : ty.length = 16) (ha : a.length = 4) :
    readAuth (ty ++ (a ++ (0 :: 0 :: 0 :: 0 :: rest))) = .err := by
  have h2 : readN 2 (0 :: 0 :: 0 :: 0 :: rest) = .ok ([0, 0], 0 :: 0 :: rest) :=
    readN_len [0, 0] (0 :: 0 :: rest) rfl
  have h3 : readN 2 (0 :: 0 :: rest) = .ok ([0, 0], rest) := readN_len [0, 0] rest rfl
  have hrd : rd16 [0, 0] ≠ winCertRevision := by decide
  unfold readAuth
  rw [readN_len ty _ hty]
  simp only [readWinCertGuid, readWinCert]
  rw [readN_len a _ ha]
  simp only [h2, h3, hrd, ne_eq, not_false_eq_true, if_true]

theorem readAuth_nil : readAuth [] = .err := by decide

theorem readAuth_of_readDb {b : Bytes} {db : Db} (h : readDb b = some db) : readAuth b = .err := by
  obtain ⟨e, w⟩ := readDb_ok h
  subst e
  cases db with
  | nil => exact readAuth_nil
  | cons l ls =>
    obtain ⟨⟨hty, hH, _⟩, _⟩ := w l (by simp)
    have hz : le32 0 = [0, 0, 0, 0] := by decide
    rw [encDb_cons, encList, hH, hz]
    simp only [List.append_assoc, List.cons_append, List.nil_append]
    exact readAuth_zero_rev l.type (le32 l.listSize) _ hty (le32_length _)

theorem encDb_of_readDb {b : Bytes} {db : Db} (h : readDb b = some db) : encDb db = b :=
  (readDb_ok h).1.symm

/-- a decodable database is stored as it is, under every variable name -/
theorem storedValue_of_readDb (v : String) {b : Bytes} {db : Db} (h : readDb b = some db) :
    storedValue v b = b := by
  unfold storedValue
  rw [readAuth_of_readDb h]
  simp

theorem storedValue_plain {v : String} (hv : isSecureBootVar v = false) (b : Bytes) :
    storedValue v b = b := by
  simp [storedValue, hv]

/-- a signed update of a secure-boot variable is stored as its payload, descriptor removed -/
theorem storedValue_signed {v : String} (hv : isSecureBootVar v = true) {desc payload : Bytes}
    {d : AuthDesc} (ha : readAuth (desc ++ payload) = .ok (d, payload)) :
    storedValue v (desc ++ payload) = payload := by
  unfold storedValue
  rw [if_pos hv, ha]

/-- reading a variable that holds `b`, when `b` is acceptable for that variable -/
theorem Store.read_of_get {s : Store} {v : String} {b : Bytes} (hg : s.get v = some b)
    (hb : isSecureBootVar v = true → ∃ db, readDb b = some db) : s.read v = .ok b := by
  unfold Store.read
  rw [hg]
  by_cases hv : isSecureBootVar v = true
  · obtain ⟨db, hdb⟩ := hb hv
    simp only [hv, if_true, hdb, encDb_of_readDb hdb]
  · simp only [hv, Bool.false_eq_true, if_false]

theorem Store.read_congr {s t : Store} {v : String} (h : s.get v = t.get v) : s.read v = t.read v := by
  unfold Store.read; rw [h]

/-! ## operations and histories -/

/-- an operation on the store: plain `WriteVar`, `WriteSignedUpdate`, or a typed read -/
inductive Op where
  | write (v : String) (b : Bytes)
  | signed (v : String) (desc payload : Bytes)
  | read (v : String)
deriving DecidableEq, Repr

/-- reads leave the store unchanged -/
def step (s : Store) : Op → Store
  | .write v b => s.writeVar v b
  | .signed v desc payload => s.writeSigned v desc payload
  | .read _ => s

/-- the variable an operation writes -/
def Op.target : Op → Option String
  | .write v _ => some v
  | .signed v _ _ => some v
  | .read _ => none

/-- the value argument of a write: `b`, resp. `payload` -/
def Op.value : Op → Bytes
  | .write _ b => b
  | .signed _ _ payload => payload
  | .read _ => []

/-- the bytes the store keeps for a write -/
def Op.stored : Op → Bytes
  | .write v b => storedValue v b
  | .signed v desc payload => storedValue v (desc ++ payload)
  | .read _ => []

/-- the most recent write / signed operation on `v` (histories are oldest first) -/
def lastWrite : List Op → String → Option Op
  | [], _ => none
  | op :: ops, v =>
    match lastWrite ops v with
    | some o => some o
    | none => if op.target = some v then some op else none

/-- the value argument of the most recent write to `v` -/
def lastValue (ops : List Op) (v : String) : Option Bytes := (lastWrite ops v).map Op.value

/-- what the library hands to the store (and nothing more):
    * a value written to PK/KEK/db/dbx is the encoding of a decodable database;
    * a signed update goes to a secure-boot variable, its bytes parse as descriptor ‖ payload with
      exactly `payload` left over (C06 / C10), and the payload is a decodable database;
    * no condition on other variables, none on reads. -/
def Op.WF : Op → Prop
  | .write v b => isSecureBootVar v = true → ∃ db, readDb b = some db
  | .signed v desc payload =>
    isSecureBootVar v = true ∧ (∃ d, readAuth (desc ++ payload) = .ok (d, payload)) ∧
    ∃ db, readDb payload = some db
  | .read _ => True

/-- a well-formed history: every operation is well formed (no condition on the initial store) -/
def History.WF (ops : List Op) : Prop := ∀ op ∈ ops, op.WF

theorem lastWrite_append (ops : List Op) (op : Op) (v : String) :
    lastWrite (ops ++ [op]) v = if op.target = some v then some op else lastWrite ops v := by
  induction ops with
  | nil => simp [lastWrite]
  | cons o os ih =>
    simp only [List.cons_append, lastWrite, ih]
    by_cases h : op.target = some v
    · simp [h]
    · simp [h]

theorem lastWrite_mem {ops : List Op} {v : String} {op : Op} (h : lastWrite ops v = some op) :
    op ∈ ops ∧ op.target = some v := by
  induction ops with
  | nil => simp [lastWrite] at h
  | cons o os ih =>
    simp only [lastWrite] at h
    cases hl : lastWrite os v with
    | some o' =>
      rw [hl] at h
      simp only [Option.some.injEq] at h
      subst h
      exact ⟨List.mem_cons_of_mem _ (ih hl).1, (ih hl).2⟩
    | none =>
      rw [hl] at h
      simp only at h
      split at h
      · rename_i ht
        simp only [Option.some.injEq] at h
        subst h
        exact ⟨List.mem_cons_self, ht⟩
      · nomatch h

theorem lastWrite_eq_none_iff (ops : List Op) (v : String) :
    lastWrite ops v = none ↔ ∀ op ∈ ops, op.target ≠ some v := by
  induction ops with
  | nil => simp [lastWrite]
  | cons o os ih =>
    simp only [lastWrite, List.mem_cons, forall_eq_or_imp]
    cases hl : lastWrite os v with
    | some o' =>
      simp only [reduceCtorEq, false_iff, not_and]
      intro _ hall
      exact absurd hl (by rw [ih.2 hall]; simp)
    | none =>
      simp only [ite_eq_right_iff, reduceCtorEq, imp_false]
      exact ⟨fun h => ⟨h, ih.1 hl⟩, fun h => h.1⟩

theorem lastValue_eq_none_iff (ops : List Op) (v : String) :
    lastValue ops v = none ↔ ∀ op ∈ ops, op.target ≠ some v := by
  rw [lastValue, Option.map_eq_none_iff, lastWrite_eq_none_iff]

/-- one step, seen from variable `v` -/
theorem step_get (s : Store) (op : Op) (v : String) :
    (step s op).get v = if op.target = some v then some op.stored else s.get v := by
  cases op with
  | write w b =>
    simp only [step, Store.writeVar, Op.target, Option.some.injEq, Op.stored]
    by_cases h : w = v
    · subst h; simp [Store.get_put_same]
    · simp [h, Store.get_put_ne s h]
  | signed w d p =>
    simp only [step, Store.writeSigned, Op.target, Option.some.injEq, Op.stored]
    by_cases h : w = v
    · subst h; simp [Store.get_put_same]
    · simp [h, Store.get_put_ne s h]
  | read w => simp [step, Op.target]

/-- a whole history, seen from variable `v`: the store keeps what the last write to `v` stored -/
theorem foldl_get (ops : List Op) (s : Store) (v : String) :
    (ops.foldl step s).get v =
      match lastWrite ops v with
      | some op => some op.stored
      | none => s.get v := by
  induction ops generalizing s with
  | nil => rfl
  | cons o os ih =>
    rw [List.foldl_cons, ih, lastWrite]
    cases lastWrite os v with
    | some o' => rfl
    | none =>
      simp only [step_get]
      by_cases h : o.target = some v <;> simp [h]

/-- a well-formed write to `v` stores exactly its value argument, and that value is readable -/
theorem Op.WF.stored_eq {op : Op} (h : op.WF) {v : String} (ht : op.target = some v) :
    op.stored = op.value ∧ (isSecureBootVar v = true → ∃ db, readDb op.value = some db) := by
  cases op with
  | write w b =>
    simp only [Op.target, Option.some.injEq] at ht
    subst ht
    simp only [Op.stored, Op.value]
    refine ⟨?_, h⟩
    by_cases hv : isSecureBootVar w = true
    · obtain ⟨db, hdb⟩ := h hv
      exact storedValue_of_readDb w hdb
    · exact storedValue_plain (by simpa using hv) b
  | signed w d p =>
    simp only [Op.target, Option.some.injEq] at ht
    subst ht
    obtain ⟨hv, ⟨a, ha⟩, ⟨db, hdb⟩⟩ := h
    exact ⟨storedValue_signed hv ha, fun _ => ⟨db, hdb⟩⟩
  | read w => simp [Op.target] at ht

/-- the register property with the weakest hypothesis: only the last write to `v` has to be well
    formed (earlier operations, and operations on other variables, may be arbitrary) -/
theorem read_foldl_of_lastWrite {ops : List Op} {s : Store} {v : String} {op : Op}
    (hl : lastWrite ops v = some op) (hwf : op.WF) : (ops.foldl step s).read v = .ok op.value := by
  obtain ⟨hst, hdec⟩ := hwf.stored_eq (lastWrite_mem hl).2
  apply Store.read_of_get _ hdec
  rw [foldl_get, hl]
  simp only [hst]

theorem read_foldl_of_none {ops : List Op} {s : Store} {v : String}
    (hl : lastWrite ops v = none) : (ops.foldl step s).read v = s.read v := by
  apply Store.read_congr
  rw [foldl_get, hl]

end GoUefi.Impl
