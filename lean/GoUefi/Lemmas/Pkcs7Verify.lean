import GoUefi.Model.Pkcs7
import GoUefi.Spec.Cms
import GoUefi.Lemmas.DerInv
/-!
  Lemmas about `PKCS7.Verify` (`GoUefi/Model/Pkcs7.lean`) for the properties C04 and C16:

  * an exact characterisation of every outcome of `Signer.verify` / `verifySigners`;
  * inversion of the parser (`parseAttr` … `parseP7`): which reader calls succeeded on which
    slices, that parsed attributes always carry `raw`, and that `raw` is the transmitted `[0]`
    element with its tag byte replaced;
  * the relation to the independent specification `Spec.cmsVerify`.
-/
namespace GoUefi.Impl
open GoUefi GoUefi.Der

/-- `split` the outermost `match` of a parser hypothesis and discharge the failing branch -/
local macro "step " h:ident : tactic =>
  `(tactic| (split at $h:ident <;> try (simp at $h:ident; done)))

/-! ### `Signer.verify` -/

/-- the messageDigest check of `signerinfo.verify` -/
def mdOkB (C : Crypto) (content : Bytes) (a : Attrs) : Bool :=
  if content.length > 0 then
    match readAny content with
    | some (_, val, _) => C.sha256 val == a.md
    | none => false
  else true

/-- the bytes the signature is verified over -/
def sigData (a : Attrs) : Outcome Bytes :=
  match a.raw with | some r => Outcome.ok r | none => a.marshal

theorem Signer.verify_def (C : Crypto) (s : Signer) (c : Cert) (content : Bytes) :
    s.verify C c content =
      match s.attrs with
      | none => .err
      | some a =>
        if !mdOkB C content a then .err else
        match sigData a with
        | .ok sigdata => if C.rsaVerify c.pub sigdata s.sig then .ok true else .err
        | .err => .err
        | .panic => .panic
        | .exit => .exit := rfl

theorem mdOkB_iff {C : Crypto} {content : Bytes} {a : Attrs} :
    mdOkB C content a = true ↔
      (content ≠ [] → ∃ t v r, readAny content = some (t, v, r) ∧ C.sha256 v = a.md) := by
  unfold mdOkB
  cases content with
  | nil => simp
  | cons x xs =>
    simp only [List.length_cons, Nat.zero_lt_succ, gt_iff_lt, if_true, ne_eq, reduceCtorEq,
      not_false_eq_true, forall_const]
    cases readAny (x :: xs) with
    | none => simp
    | some p =>
      obtain ⟨t, v, r⟩ := p
      simp only [Option.some.injEq, Prod.mk.injEq, beq_iff_eq]
      constructor
      · intro h; exact ⟨t, v, r, ⟨rfl, rfl, rfl⟩, h⟩
      · rintro ⟨_, _, _, ⟨rfl, rfl, rfl⟩, h⟩; exact h

theorem sigData_ok_iff {a : Attrs} {d : Bytes} :
    sigData a = .ok d ↔ (a.raw = some d ∨ (a.raw = none ∧ a.marshal = .ok d)) := by
  unfold sigData
  cases a.raw with
  | none => simp
  | some r => simp

theorem marshal_cases (a : Attrs) :
    (∃ b, attrsBody a = some b ∧ a.marshal = .ok (addASN1 tSET b)) ∨
    (attrsBody a = none ∧ a.marshal = .panic) := by
  unfold Attrs.marshal
  cases attrsBody a with
  | none => exact Or.inr ⟨rfl, rfl⟩
  | some b => exact Or.inl ⟨b, rfl, rfl⟩

theorem sigData_cases (a : Attrs) :
    (∃ d, sigData a = .ok d) ∨ (sigData a = .panic ∧ a.raw = none ∧ attrsBody a = none) := by
  unfold sigData
  cases hr : a.raw with
  | some r => exact Or.inl ⟨r, rfl⟩
  | none =>
    rcases marshal_cases a with ⟨b, _, hm⟩ | ⟨hb, hm⟩
    · exact Or.inl ⟨_, hm⟩
    · exact Or.inr ⟨hm, rfl, hb⟩

/-- `signerinfo.verify` answers `true` exactly when the signer carries signed attributes, the RSA
    signature over them (as transmitted, or re-encoded when constructed locally) is valid, and the
    messageDigest attribute matches the encapsulated content. -/
theorem Signer.verify_ok_true_iff {C : Crypto} {s : Signer} {c : Cert} {content : Bytes} :
    s.verify C c content = .ok true ↔
      ∃ a, s.attrs = some a ∧
        (∃ sigdata, (a.raw = some sigdata ∨ (a.raw = none ∧ a.marshal = .ok sigdata)) ∧
          C.rsaVerify c.pub sigdata s.sig = true) ∧
        (content ≠ [] → ∃ t v r, readAny content = some (t, v, r) ∧ C.sha256 v = a.md) := by
  rw [Signer.verify_def]
  cases hs : s.attrs with
  | none => simp
  | some a =>
    simp only [Option.some.injEq, exists_eq_left']
    rw [← mdOkB_iff]
    cases hm : mdOkB C content a with
    | false => simp
    | true =>
      simp only [Bool.not_true, Bool.false_eq_true, if_false, and_true]
      constructor
      · intro h
        rcases sigData_cases a with ⟨d, hd⟩ | ⟨hp, _, _⟩
        · rw [hd] at h
          simp only [] at h
          refine ⟨d, sigData_ok_iff.mp hd, ?_⟩
          cases hv : C.rsaVerify c.pub d s.sig with
          | true => rfl
          | false => simp [hv] at h
        · rw [hp] at h; simp at h
      · rintro ⟨d, hd, hv⟩
        rw [sigData_ok_iff.mpr hd]
        simp [hv]

theorem Signer.verify_ne_ok_false (C : Crypto) (s : Signer) (c : Cert) (content : Bytes) :
    s.verify C c content ≠ .ok false := by
  rw [Signer.verify_def]
  cases s.attrs with
  | none => simp
  | some a =>
    simp only []
    cases mdOkB C content a with
    | false => simp
    | true =>
      rcases sigData_cases a with ⟨d, hd⟩ | ⟨hp, _, _⟩
      · rw [hd]
        simp only [Bool.not_true, Bool.false_eq_true, if_false]
        split <;> simp
      · rw [hp]; simp

theorem Signer.verify_ne_exit (C : Crypto) (s : Signer) (c : Cert) (content : Bytes) :
    s.verify C c content ≠ .exit := by
  rw [Signer.verify_def]
  cases s.attrs with
  | none => simp
  | some a =>
    simp only []
    cases mdOkB C content a with
    | false => simp
    | true =>
      rcases sigData_cases a with ⟨d, hd⟩ | ⟨hp, _, _⟩
      · rw [hd]
        simp only [Bool.not_true, Bool.false_eq_true, if_false]
        split <;> simp
      · rw [hp]; simp

/-- the only way to panic: locally constructed attributes (no `raw`) with an invalid OID -/
theorem Signer.verify_panic {C : Crypto} {s : Signer} {c : Cert} {content : Bytes}
    (h : s.verify C c content = .panic) :
    ∃ a, s.attrs = some a ∧ a.raw = none ∧ attrsBody a = none := by
  rw [Signer.verify_def] at h
  cases hs : s.attrs with
  | none => simp [hs] at h
  | some a =>
    refine ⟨a, rfl, ?_⟩
    simp only [hs] at h
    cases hm : mdOkB C content a with
    | false => simp [hm] at h
    | true =>
      rcases sigData_cases a with ⟨d, hd⟩ | ⟨_, h1, h2⟩
      · rw [hd, hm] at h
        cases hv : C.rsaVerify c.pub d s.sig <;> simp [hv] at h
      · exact ⟨h1, h2⟩

theorem Signer.verify_no_attrs {C : Crypto} {s : Signer} {c : Cert} {content : Bytes}
    (h : s.attrs = none) : s.verify C c content = .err := by
  rw [Signer.verify_def, h]

theorem Signer.verify_bad_digest {C : Crypto} {s : Signer} {c : Cert} {content : Bytes} {a : Attrs}
    (ha : s.attrs = some a) (hne : content ≠ [])
    (hbad : ∀ t v r, readAny content = some (t, v, r) → C.sha256 v ≠ a.md) :
    s.verify C c content = .err := by
  rw [Signer.verify_def, ha]
  have : mdOkB C content a = false := by
    cases hm : mdOkB C content a with
    | false => rfl
    | true =>
      obtain ⟨t, v, r, h1, h2⟩ := mdOkB_iff.mp hm hne
      exact absurd h2 (hbad t v r h1)
  simp [this]

theorem Signer.verify_bad_signature {C : Crypto} {s : Signer} {c : Cert} {content : Bytes}
    {a : Attrs} {sigdata : Bytes} (ha : s.attrs = some a)
    (hd : a.raw = some sigdata ∨ (a.raw = none ∧ a.marshal = .ok sigdata))
    (hbad : C.rsaVerify c.pub sigdata s.sig = false) :
    s.verify C c content = .err := by
  rw [Signer.verify_def, ha]
  simp only []
  cases mdOkB C content a with
  | false => simp
  | true => simp [sigData_ok_iff.mpr hd, hbad]

/-- the verdict of a signer depends on its attributes only through `raw` and `md`
    (when `raw` is present, which is always the case after parsing) -/
theorem Signer.verify_congr {C : Crypto} {s s' : Signer} {c : Cert} {content : Bytes}
    {a a' : Attrs} {r : Bytes} (ha : s.attrs = some a) (ha' : s'.attrs = some a')
    (hr : a.raw = some r) (hr' : a'.raw = some r) (hmd : a'.md = a.md) (hsig : s'.sig = s.sig) :
    s'.verify C c content = s.verify C c content := by
  rw [Signer.verify_def, Signer.verify_def, ha, ha']
  have h1 : mdOkB C content a' = mdOkB C content a := by simp [mdOkB, hmd]
  have h2 : sigData a' = sigData a := by simp [sigData, hr, hr']
  simp only [h1, h2, hsig]

/-! ### `verifySigners` -/

/-- `PKCS7.Verify`: the first signer naming the certificate decides, alone -/
theorem verifySigners_eq_find (C : Crypto) (c : Cert) (content : Bytes) (ss : List Signer) :
    verifySigners C c content ss =
      match ss.find? (fun s => s.isCertificate c) with
      | none => .ok false
      | some s => s.verify C c content := by
  induction ss with
  | nil => rfl
  | cons s ss ih =>
    simp only [verifySigners, List.find?_cons]
    cases hs : s.isCertificate c with
    | true => simp
    | false => simp [ih]

theorem isCertificate_iff {s : Signer} {c : Cert} :
    s.isCertificate c = true ↔ s.issuer = c.rawIssuer ∧ s.serial = c.serial := by
  simp [Signer.isCertificate]

theorem find_none_iff {c : Cert} {ss : List Signer} :
    ss.find? (fun s => s.isCertificate c) = none ↔ ∀ s ∈ ss, s.isCertificate c = false := by
  simp

theorem verifySigners_ok_false_iff {C : Crypto} {c : Cert} {content : Bytes} {ss : List Signer} :
    verifySigners C c content ss = .ok false ↔ ∀ s ∈ ss, s.isCertificate c = false := by
  rw [verifySigners_eq_find, ← find_none_iff]
  cases hf : ss.find? (fun s => s.isCertificate c) with
  | none => simp
  | some s => simp [Signer.verify_ne_ok_false]

/-! ### inversion of the parser -/

theorem parseAlg_inv {s : Bytes} {o : List Nat} {rest : Bytes} (h : parseAlg s = some (o, rest)) :
    ∃ b, read tSEQ s = some (b, rest) := by
  unfold parseAlg at h
  step h
  rename_i b rest' h1
  refine ⟨b, ?_⟩
  step h
  split at h
  · simp at h; rw [h1, h.2]
  · step h
    simp at h; rw [h1, h.2]

/-- one turn of the attribute loop: which reads succeeded, and what changed in the record -/
theorem parseAttr_inv {s : Bytes} {a a' : Attrs} {rest : Bytes}
    (h : parseAttr s a = some (a', rest)) :
    ∃ el oid r1 set r1', read tSEQ s = some (el, rest) ∧ readOID el = some (oid, r1) ∧
      read tSET r1 = some (set, r1') ∧ a'.raw = a.raw ∧
      (if oid == oidMessageDigest then ∃ d r, read tOCT set = some (d, r) ∧ a'.md = d
       else a'.md = a.md) := by
  unfold parseAttr at h
  step h
  rename_i el rest' h1
  step h
  rename_i oid r1 h2
  step h
  rename_i set r1' h3
  refine ⟨el, oid, r1, set, r1', ?_⟩
  split at h
  · rename_i hmd
    step h
    rename_i d r h4
    simp at h
    obtain ⟨rfl, rfl⟩ := h
    exact ⟨h1, h2, h3, rfl, by simp [hmd, h4]⟩
  · rename_i hmd
    split at h
    · step h
      simp at h
      obtain ⟨rfl, rfl⟩ := h
      exact ⟨h1, h2, h3, rfl, by simp [hmd]⟩
    · split at h
      · step h
        step h
        simp at h
        obtain ⟨rfl, rfl⟩ := h
        exact ⟨h1, h2, h3, rfl, by simp [hmd]⟩
      · simp at h
        obtain ⟨rfl, rfl⟩ := h
        exact ⟨h1, h2, h3, rfl, by simp [hmd]⟩

theorem attrLoop_raw {f : Nat} {s : Bytes} {a0 a : Attrs} (h : attrLoop f s a0 = some a) :
    a.raw = a0.raw := by
  induction f generalizing s a0 with
  | zero =>
    unfold attrLoop at h
    split at h
    · simp at h; rw [h]
    · simp at h
  | succ f ih =>
    unfold attrLoop at h
    split at h
    · simp at h; rw [h]
    · step h
      rename_i a' rest hp
      obtain ⟨_, _, _, _, _, _, _, _, hraw, _⟩ := parseAttr_inv hp
      rw [ih h, hraw]

theorem parseAttrs_inv {s : Bytes} {oa : Option Attrs} {rest : Bytes}
    (h : parseAttrs s = some (oa, rest)) :
    (oa = none ∧ rest = s ∧ peek tCtx0 s = false) ∨
    (∃ body a, oa = some a ∧ peek tCtx0 s = true ∧ read tCtx0 s = some (body, rest) ∧
      s = addASN1 tCtx0 body ++ rest ∧
      attrLoop body.length body { raw := some (addASN1 tSET body) } = some a ∧
      a.raw = some (addASN1 tSET body)) := by
  unfold parseAttrs at h
  split at h
  · simp at h
  · rename_i rest' ho
    simp at h
    obtain ⟨rfl, rfl⟩ := h
    rcases readOptional_inv ho with ⟨_, h2, h3⟩ | ⟨_, h1, _⟩
    · exact Or.inl ⟨rfl, h2, h3⟩
    · cases h1
  · rename_i b rest' ho
    step h
    rename_i a hl
    simp at h
    obtain ⟨rfl, rfl⟩ := h
    rcases readOptional_inv ho with ⟨h1, _⟩ | ⟨body, h1, hp, hr, hs⟩
    · cases h1
    · cases h1
      exact Or.inr ⟨b, a, rfl, hp, hr, hs, hl, attrLoop_raw hl⟩

theorem parseSigner_inv {s : Bytes} {x : Signer} {rest : Bytes}
    (h : parseSigner s = some (x, rest)) :
    ∃ si r1 ias r2 i1 i2 r3 r4 r5 r6 o1 o2,
      read tSEQ s = some (si, rest) ∧ readInt64 si = some (x.version, r1) ∧
      read tSEQ r1 = some (ias, r2) ∧ readElement tSEQ ias = some (x.issuer, i1) ∧
      readBigInt i1 = some (x.serial, i2) ∧ parseAlg r2 = some (o1, r3) ∧
      parseAttrs r3 = some (x.attrs, r4) ∧ parseAlg r4 = some (o2, r5) ∧
      read tOCT r5 = some (x.sig, r6) := by
  unfold parseSigner at h
  step h
  rename_i si rest' h1
  step h
  rename_i ver r1 h2
  step h
  rename_i ias r2 h3
  step h
  rename_i issuer i1 h4
  step h
  rename_i serial i2 h5
  step h
  rename_i o1 r3 h6
  step h
  rename_i attrs r4 h7
  step h
  rename_i o2 r5 h8
  step h
  rename_i sig r6 h9
  simp at h
  obtain ⟨rfl, rfl⟩ := h
  exact ⟨si, r1, ias, r2, i1, i2, r3, r4, r5, r6, o1, o2, h1, h2, h3, h4, h5, h6, h7, h8, h9⟩

/-- every signer returned by the loop was parsed from a sub-slice of the loop's input -/
theorem signerLoop_mem {f : Nat} {s : Bytes} {xs : List Signer} (h : signerLoop f s = some xs)
    {x : Signer} (hx : x ∈ xs) : ∃ s' rest, Sub s' s ∧ parseSigner s' = some (x, rest) := by
  induction f generalizing s xs with
  | zero =>
    unfold signerLoop at h
    split at h
    · simp at h; subst h; cases hx
    · simp at h
  | succ f ih =>
    unfold signerLoop at h
    split at h
    · simp at h; subst h; cases hx
    · step h
      rename_i y rest hp
      step h
      rename_i ys hl
      simp at h
      subst h
      rcases List.mem_cons.mp hx with rfl | hmem
      · exact ⟨s, rest, Sub.refl _, hp⟩
      · obtain ⟨s', rest', hsub, hp'⟩ := ih hl hmem
        obtain ⟨si, _, _, _, _, _, _, _, _, _, _, _, h1, _⟩ := parseSigner_inv hp
        exact ⟨s', rest', hsub.trans (read_sub h1).2.1, hp'⟩

theorem parseContentInfo_inv {s : Bytes} {oid : List Nat} {content rest : Bytes}
    (h : parseContentInfo s = some (oid, content, rest)) :
    ∃ b r1 c, read tSEQ s = some (b, rest) ∧ readOID b = some (oid, r1) ∧
      readOptional tCtx0 r1 = some (c, []) ∧ content = c.getD [] := by
  unfold parseContentInfo at h
  step h
  rename_i b rest' h1
  step h
  rename_i oid' r1 h2
  step h
  rename_i c r2 h3
  split at h
  · rename_i he
    simp at h
    obtain ⟨rfl, rfl, rfl⟩ := h
    have : r2 = [] := by simpa using he
    subst this
    exact ⟨b, r1, c, h1, h2, h3, rfl⟩
  · simp at h

theorem parseContentInfo_sub {s : Bytes} {oid : List Nat} {content rest : Bytes}
    (h : parseContentInfo s = some (oid, content, rest)) : Sub content s ∧ Sub rest s := by
  obtain ⟨b, r1, c, h1, h2, h3, rfl⟩ := parseContentInfo_inv h
  exact ⟨((readOptional_getD_sub h3).trans (readOID_sub h2)).trans (read_sub h1).1, (read_sub h1).2.1⟩

theorem parseHead_inv {b : Bytes} {oid : List Nat} {content r3 : Bytes}
    (h : parseHead b = some (oid, content, r3)) :
    ∃ chk x inner sd y v r1 dig r2 o z,
      read tSEQ b = some (chk, x) ∧
      ((peek tOID chk = true ∧ ∃ oid' r, parseContentInfo b = some (oid', inner, r)) ∨
       (peek tOID chk = false ∧ inner = b)) ∧
      read tSEQ inner = some (sd, y) ∧ readInt64 sd = some (v, r1) ∧
      read tSET r1 = some (dig, r2) ∧ parseAlg dig = some (o, z) ∧
      parseContentInfo r2 = some (oid, content, r3) := by
  unfold parseHead at h
  step h
  rename_i chk x h1
  simp only [] at h
  step h
  rename_i inner hin
  step h
  rename_i sd y h2
  step h
  rename_i v r1 h3
  step h
  rename_i dig r2 h4
  step h
  rename_i oz h5
  step h
  rename_i oid' content' r3' h6
  simp at h
  obtain ⟨rfl, rfl, rfl⟩ := h
  refine ⟨chk, x, inner, sd, y, v, r1, dig, r2, oz.1, oz.2, h1, ?_, h2, h3, h4, h5, h6⟩
  split at hin
  · rename_i hp
    cases hc : parseContentInfo b with
    | none => simp [hc] at hin
    | some p =>
      obtain ⟨o', i', r'⟩ := p
      simp [hc] at hin
      subst hin
      exact Or.inl ⟨hp, o', r', rfl⟩
  · rename_i hp
    simp at hin
    exact Or.inr ⟨by simpa using hp, hin.symm⟩

theorem parseHead_sub {b : Bytes} {oid : List Nat} {content r3 : Bytes}
    (h : parseHead b = some (oid, content, r3)) : Sub content b ∧ Sub r3 b := by
  obtain ⟨chk, x, inner, sd, y, v, r1, dig, r2, o, z, h1, hin, h2, h3, h4, h5, h6⟩ :=
    parseHead_inv h
  have hinner : Sub inner b := by
    rcases hin with ⟨_, o', r', hc⟩ | ⟨_, rfl⟩
    · exact (parseContentInfo_sub hc).1
    · exact Sub.refl _
  have hr2 : Sub r2 b :=
    (((read_sub h4).2.1.trans (readInt64_sub h3)).trans (read_sub h2).1).trans hinner
  exact ⟨(parseContentInfo_sub h6).1.trans hr2, (parseContentInfo_sub h6).2.trans hr2⟩

theorem parseP7_inv {ok : Bytes → Bool} {b : Bytes} {p : P7} (h : parseP7 ok b = some p) :
    ∃ r3 r4 sis z, parseHead b = some (p.oid, p.content, r3) ∧
      readOptional tCtx0 r3 = some (p.certs, r4) ∧ read tSET r4 = some (sis, z) ∧
      signerLoop sis.length sis = some p.signers := by
  unfold parseP7 at h
  step h
  rename_i oid content r3 h1
  step h
  rename_i certs r4 h2
  step h
  step h
  rename_i sis z h3
  step h
  rename_i signers h4
  simp at h
  subst h
  exact ⟨r3, r4, sis, z, h1, h2, h3, h4⟩

/-- every parsed signer comes from a sub-slice of the blob -/
theorem parseP7_signer {ok : Bytes → Bool} {b : Bytes} {p : P7} (h : parseP7 ok b = some p)
    {x : Signer} (hx : x ∈ p.signers) :
    ∃ s' rest, Sub s' b ∧ parseSigner s' = some (x, rest) := by
  obtain ⟨r3, r4, sis, z, h1, h2, h3, h4⟩ := parseP7_inv h
  obtain ⟨s', rest, hsub, hp⟩ := signerLoop_mem h4 hx
  refine ⟨s', rest, ?_, hp⟩
  exact ((hsub.trans (read_sub h3).1).trans (readOptional_sub h2).1).trans (parseHead_sub h1).2

/-- the signed attributes of a parsed signer: `raw` is the transmitted `[0]` element, which occurs
    in the signer's bytes, with the tag byte replaced by SET -/
theorem parseSigner_attrs {s : Bytes} {x : Signer} {rest : Bytes}
    (h : parseSigner s = some (x, rest)) {a : Attrs} (ha : x.attrs = some a) :
    ∃ body, a.raw = some (addASN1 tSET body) ∧ Sub (addASN1 tCtx0 body) s ∧
      attrLoop body.length body { raw := some (addASN1 tSET body) } = some a := by
  obtain ⟨si, r1, ias, r2, i1, i2, r3, r4, r5, r6, o1, o2, h1, h2, h3, h4, h5, h6, h7, h8, h9⟩ :=
    parseSigner_inv h
  rw [ha] at h7
  rcases parseAttrs_inv h7 with ⟨hn, _⟩ | ⟨body, a', hs, _, hr, _, hl, hraw⟩
  · cases hn
  · cases hs
    refine ⟨body, hraw, ?_, hl⟩
    obtain ⟨_, hr2⟩ := parseAlg_inv h6
    exact ((((read_sub hr).2.2.trans (read_sub hr2).2.1).trans (read_sub h3).2.1).trans
      (readInt64_sub h2)).trans (read_sub h1).1

theorem parseP7_attrs {ok : Bytes → Bool} {b : Bytes} {p : P7} (h : parseP7 ok b = some p)
    {x : Signer} (hx : x ∈ p.signers) {a : Attrs} (ha : x.attrs = some a) :
    ∃ body, a.raw = some (addASN1 tSET body) ∧ Sub (addASN1 tCtx0 body) b ∧
      attrLoop body.length body { raw := some (addASN1 tSET body) } = some a := by
  obtain ⟨s', rest, hsub, hp⟩ := parseP7_signer h hx
  obtain ⟨body, h1, h2, h3⟩ := parseSigner_attrs hp ha
  exact ⟨body, h1, h2.trans hsub, h3⟩

/-- parsed signers never make `Verify` panic or exit -/
theorem verifySigners_parsed_total {C : Crypto} {c : Cert} {content : Bytes} {ss : List Signer}
    (hraw : ∀ s ∈ ss, ∀ a, s.attrs = some a → a.raw ≠ none) :
    verifySigners C c content ss ≠ .panic ∧ verifySigners C c content ss ≠ .exit := by
  rw [verifySigners_eq_find]
  cases hf : ss.find? (fun s => s.isCertificate c) with
  | none => simp
  | some s =>
    refine ⟨?_, Signer.verify_ne_exit C s c content⟩
    intro hp
    obtain ⟨a, ha, hr, _⟩ := Signer.verify_panic hp
    exact hraw s (List.mem_of_find?_eq_some hf) a ha hr

/-! ### relation to the specification `Spec.cmsVerify` -/

theorem skipAny_of_read {t : UInt8} {s b r : Bytes} (h : read t s = some (b, r)) :
    Spec.skipAny s = some r := by
  simp [Spec.skipAny, read_readAny h]

/-- `Spec.findMD` finds the messageDigest value the attribute loop stored (the last one), or
    nothing when the loop left the default empty value -/
theorem findMD_of_attrLoop {f : Nat} {s : Bytes} {a0 a : Attrs} {acc : Option Bytes}
    (h : attrLoop f s a0 = some a) (hacc : acc = some a0.md ∨ (acc = none ∧ a0.md = [])) :
    ∃ m, Spec.findMD f s acc = some m ∧ (m = some a.md ∨ (m = none ∧ a.md = [])) := by
  induction f generalizing s a0 acc with
  | zero =>
    unfold attrLoop at h
    unfold Spec.findMD
    split at h
    · rename_i he
      simp at h; subst h
      exact ⟨acc, by simp [he], hacc⟩
    · simp at h
  | succ f ih =>
    unfold attrLoop at h
    unfold Spec.findMD
    split at h
    · rename_i he
      simp at h; subst h
      exact ⟨acc, by simp [he], hacc⟩
    · rename_i he
      step h
      rename_i a' rest hp
      obtain ⟨el, oid, r1, set, r1', h1, h2, h3, _, hmd⟩ := parseAttr_inv hp
      simp only [he, h1, h2, h3]
      have e : Spec.oidMessageDigest = oidMessageDigest := rfl
      rw [e]
      split at hmd
      · rename_i ho
        obtain ⟨d, r, h4, hd⟩ := hmd
        simp only [ho, if_true, h4]
        exact ih h (Or.inl (by rw [hd]))
      · rename_i ho
        simp only [ho]
        exact ih h (by rw [hmd]; exact hacc)

/-- how a signer parsed by the implementation relates to the same signer parsed by the spec -/
def SignerRel (x : Signer) (y : Spec.SpecSigner) : Prop :=
  y.issuer = x.issuer ∧ y.serial = x.serial ∧ y.sig = x.sig ∧
  match x.attrs with
  | none => y.attrsElem = none
  | some a => ∃ body, y.attrsElem = some (addASN1 tCtx0 body) ∧ y.attrsBody = body ∧
      a.raw = some (addASN1 tSET body) ∧
      attrLoop body.length body { raw := some (addASN1 tSET body) } = some a

theorem parseSpecSigner_of_parseSigner {s : Bytes} {x : Signer} {rest : Bytes}
    (h : parseSigner s = some (x, rest)) :
    ∃ y, Spec.parseSpecSigner s = some (y, rest) ∧ SignerRel x y := by
  obtain ⟨si, r1, ias, r2, i1, i2, r3, r4, r5, r6, o1, o2, h1, h2, h3, h4, h5, h6, h7, h8, h9⟩ :=
    parseSigner_inv h
  have h2' := readBigInt_of_readInt64 h2
  obtain ⟨_, h6'⟩ := parseAlg_inv h6
  obtain ⟨_, h8'⟩ := parseAlg_inv h8
  have k6 := skipAny_of_read h6'
  have k8 := skipAny_of_read h8'
  rcases parseAttrs_inv h7 with ⟨hn, rfl, hpk⟩ | ⟨body, a, hs, hpk, hr, _, hl, hraw⟩
  · refine ⟨⟨x.issuer, x.serial, none, [], x.sig⟩, ?_, ?_⟩
    · simp [Spec.parseSpecSigner, h1, h2', h3, h4, h5, k6, hpk, k8, h9]
    · simp [SignerRel, hn]
  · refine ⟨⟨x.issuer, x.serial, some (addASN1 tCtx0 body), body, x.sig⟩, ?_, ?_⟩
    · simp [Spec.parseSpecSigner, h1, h2', h3, h4, h5, k6, hpk, readElement_of_read hr, hr, k8, h9]
    · simp only [SignerRel, hs, true_and]
      exact ⟨body, rfl, rfl, hraw, hl⟩

theorem specSigners_of_signerLoop {f : Nat} {s : Bytes} {xs : List Signer}
    (h : signerLoop f s = some xs) :
    ∃ ys, Spec.specSigners f s = some ys ∧ ∀ x ∈ xs, ∃ y ∈ ys, SignerRel x y := by
  induction f generalizing s xs with
  | zero =>
    unfold signerLoop at h
    unfold Spec.specSigners
    split at h
    · rename_i he
      simp at h; subst h
      exact ⟨[], by simp [he], by intro x hx; cases hx⟩
    · simp at h
  | succ f ih =>
    unfold signerLoop at h
    unfold Spec.specSigners
    split at h
    · rename_i he
      simp at h; subst h
      exact ⟨[], by simp [he], by intro x hx; cases hx⟩
    · rename_i he
      step h
      rename_i x rest hp
      step h
      rename_i xs' hl
      simp at h; subst h
      obtain ⟨y, hy, hrel⟩ := parseSpecSigner_of_parseSigner hp
      obtain ⟨ys, hys, hall⟩ := ih hl
      refine ⟨y :: ys, by simp [he, hy, hys], ?_⟩
      intro x' hx'
      rcases List.mem_cons.mp hx' with rfl | hm
      · exact ⟨y, List.mem_cons_self, hrel⟩
      · obtain ⟨y', hy', hr'⟩ := hall x' hm
        exact ⟨y', List.mem_cons_of_mem _ hy', hr'⟩

/-! `Spec.parseSignedData` cut into its stages (same `do` blocks as in `GoUefi/Spec/Cms.lean`;
    `parseSignedData_eq` is by `rfl`) -/

/-- body of the SignedData, with or without the outer ContentInfo -/
def specBody (outer : Bytes) : Option Bytes :=
  if peek tOID outer then do
    let (_, r) ← readOID outer
    let (c, _) ← read tCtx0 r
    let (sd, _) ← read tSEQ c
    pure sd
  else pure outer

/-- the encapsulated content's value octets, given what follows the eContentType -/
def specContent (e1 : Bytes) : Option (Option Bytes) :=
  if e1.isEmpty then pure none else do
    let (c, e2) ← read tCtx0 e1
    if !e2.isEmpty then none
    else if c.isEmpty then pure none
    else do
      let (_, v, _) ← readAny c
      pure (some v)

def specSkipCerts (r3 : Bytes) : Option Bytes := if peek tCtx0 r3 then Spec.skipAny r3 else some r3
def specSkipCrls (r4 : Bytes) : Option Bytes := if peek 0xa1 r4 then Spec.skipAny r4 else some r4

theorem parseSignedData_eq (blob : Bytes) :
    Spec.parseSignedData blob = (do
      let (outer, _) ← read tSEQ blob
      let sdBody ← specBody outer
      let (_, r1) ← readBigInt sdBody
      let (_, r2) ← read tSET r1
      let (eci, r3) ← read tSEQ r2
      let (_, e1) ← readOID eci
      let content ← specContent e1
      let r4 ← specSkipCerts r3
      let r5 ← specSkipCrls r4
      let (sis, _) ← read tSET r5
      let signers ← Spec.specSigners sis.length sis
      pure (content, signers)) := rfl

/-- the content value octets the specification extracts -/
def contentVal (content : Bytes) : Option Bytes :=
  if content.isEmpty then none else (readAny content).map fun x => x.2.1

theorem read_nil (t : UInt8) : read t [] = none := rfl

theorem specBody_of_parseHead {b chk x inner sd y : Bytes} (h1 : read tSEQ b = some (chk, x))
    (hin : (peek tOID chk = true ∧ ∃ oid' r, parseContentInfo b = some (oid', inner, r)) ∨
       (peek tOID chk = false ∧ inner = b))
    (h2 : read tSEQ inner = some (sd, y)) : specBody chk = some sd := by
  unfold specBody
  rcases hin with ⟨hp, oid', r, hci⟩ | ⟨hp, rfl⟩
  · obtain ⟨b', r1', c, k1, k2, k3, rfl⟩ := parseContentInfo_inv hci
    rw [h1] at k1
    simp at k1
    obtain ⟨rfl, rfl⟩ := k1
    rcases readOptional_inv k3 with ⟨rfl, _, _⟩ | ⟨cc, rfl, _, hr, _⟩
    · simp [read_nil] at h2
    · simp at h2
      simp [hp, k2, hr, h2]
  · rw [h1] at h2
    simp at h2
    obtain ⟨rfl, rfl⟩ := h2
    simp [hp]

theorem specContent_of_parseContentInfo {e1 : Bytes} {c : Option Bytes}
    (h : readOptional tCtx0 e1 = some (c, []))
    (hc : c.getD [] ≠ [] → ∃ t v r, readAny (c.getD []) = some (t, v, r)) :
    specContent e1 = some (contentVal (c.getD [])) := by
  unfold specContent
  rcases readOptional_inv h with ⟨rfl, he, _⟩ | ⟨cc, rfl, _, hr, hs⟩
  · subst he
    simp [contentVal]
  · have hne : e1.isEmpty = false := by rw [hs]; simp [addASN1]
    simp only [Option.getD_some] at hc ⊢
    cases cc with
    | nil => simp [hne, hr, contentVal]
    | cons c0 cs =>
      obtain ⟨t, v, r, hv⟩ := hc (by simp)
      simp [hne, hr, contentVal, hv]

theorem specSkipCerts_of_readOptional {r3 r4 : Bytes} {certs : Option Bytes}
    (h : readOptional tCtx0 r3 = some (certs, r4)) : specSkipCerts r3 = some r4 := by
  unfold specSkipCerts
  rcases readOptional_inv h with ⟨_, rfl, hp⟩ | ⟨_, _, hp, hr, _⟩
  · simp [hp]
  · simp [hp, skipAny_of_read hr]

theorem specSkipCrls_of_read {r4 sis z : Bytes} (h : read tSET r4 = some (sis, z)) :
    specSkipCrls r4 = some r4 := by
  unfold specSkipCrls
  have : peek 0xa1 r4 = false := peek_ne_of_read h (by decide)
  simp [this]

theorem parseSignedData_of_parseP7 {ok : Bytes → Bool} {b : Bytes} {p : P7}
    (h : parseP7 ok b = some p)
    (hc : p.content ≠ [] → ∃ t v r, readAny p.content = some (t, v, r)) :
    ∃ ys, Spec.parseSignedData b = some (contentVal p.content, ys) ∧
      ∀ x ∈ p.signers, ∃ y ∈ ys, SignerRel x y := by
  obtain ⟨r3, r4, sis, z, hh, hcerts, hsis, hloop⟩ := parseP7_inv h
  obtain ⟨chk, x, inner, sd, y, v, r1, dig, r2, o, z', h1, hin, h2, h3, h4, h5, h6⟩ :=
    parseHead_inv hh
  obtain ⟨ys, hys, hall⟩ := specSigners_of_signerLoop hloop
  refine ⟨ys, ?_, hall⟩
  obtain ⟨eci, e1, c, k1, k2, k3, k4⟩ := parseContentInfo_inv h6
  rw [k4] at hc
  have hA := specBody_of_parseHead h1 hin h2
  have hB := specContent_of_parseContentInfo k3 hc
  rw [← k4] at hB
  have hC := specSkipCerts_of_readOptional hcerts
  have hD := specSkipCrls_of_read hsis
  have h3' := readBigInt_of_readInt64 h3
  rw [parseSignedData_eq]
  simp [h1, hA, h3', h4, k1, k2, hB, hC, hD, hsis, hys]

theorem retag (body : Bytes) : (0x31 : UInt8) :: (addASN1 tCtx0 body).drop 1 = addASN1 tSET body := by
  simp [addASN1, tSET]

/-- a signer the implementation accepts is accepted by the specification's `signerAccepts`
    (`hsha`: a digest is never the empty string, see `C04_refines_spec_partial`) -/
theorem signerAccepts_of_verify {C : Crypto} {c : Cert} {content : Bytes} {s : Signer}
    {y : Spec.SpecSigner} (hsha : ∀ x, C.sha256 x ≠ []) (hrel : SignerRel s y)
    (hcert : s.isCertificate c = true) (hv : s.verify C c content = .ok true) :
    Spec.signerAccepts C c (contentVal content) y = true := by
  obtain ⟨a, ha, ⟨sigdata, hd, hrsa⟩, hdig⟩ := Signer.verify_ok_true_iff.mp hv
  obtain ⟨hi, hs⟩ := isCertificate_iff.mp hcert
  obtain ⟨yi, ysr, ye, yb, ysig⟩ := y
  unfold SignerRel at hrel
  simp only [ha] at hrel
  obtain ⟨rfl, rfl, rfl, body, rfl, rfl, hraw, hl⟩ := hrel
  have hsd : sigdata = addASN1 tSET yb := by
    rcases hd with h | ⟨h, _⟩
    · rw [hraw] at h; simp at h; exact h.symm
    · rw [hraw] at h; simp at h
  subst hsd
  unfold Spec.signerAccepts
  simp only [hi, hs, BEq.rfl, Bool.and_self, Bool.true_and, retag, hrsa]
  unfold contentVal
  cases hcn : content with
  | nil => simp
  | cons c0 cs =>
    obtain ⟨t, v, r, hr, hmd⟩ := hdig (by simp [hcn])
    rw [hcn] at hr
    simp only [List.isEmpty_cons, Bool.false_eq_true, if_false, hr, Option.map_some]
    obtain ⟨m, hm, hcase⟩ := findMD_of_attrLoop (acc := none) hl (Or.inr ⟨rfl, rfl⟩)
    rcases hcase with rfl | ⟨_, hnil⟩
    · simp [hm, hmd]
    · exact absurd (hmd.trans hnil) (hsha v)

/-- what the implementation accepts, the specification accepts — for a digest function that
    never returns the empty string -/
theorem cmsVerify_of_verify {C : Crypto} {ok : Bytes → Bool} {b : Bytes} {p : P7} {c : Cert}
    (hsha : ∀ x, C.sha256 x ≠ []) (h : parseP7 ok b = some p) (hv : p.verify C c = .ok true) :
    Spec.cmsVerify C b c none = true := by
  unfold P7.verify at hv
  rw [verifySigners_eq_find] at hv
  cases hf : p.signers.find? (fun s => s.isCertificate c) with
  | none => simp [hf] at hv
  | some s =>
    simp only [hf] at hv
    have hmem := List.mem_of_find?_eq_some hf
    have hcert : s.isCertificate c = true := by simpa using List.find?_some hf
    obtain ⟨_, _, _, hdig⟩ := Signer.verify_ok_true_iff.mp hv
    have hc : p.content ≠ [] → ∃ t v r, readAny p.content = some (t, v, r) := by
      intro hne
      obtain ⟨t, v, r, hr, _⟩ := hdig hne
      exact ⟨t, v, r, hr⟩
    obtain ⟨ys, hys, hall⟩ := parseSignedData_of_parseP7 h hc
    obtain ⟨y, hy, hrel⟩ := hall s hmem
    have hacc := signerAccepts_of_verify hsha hrel hcert hv
    unfold Spec.cmsVerify
    simp only [hys]
    cases hcv : contentVal p.content with
    | none =>
      rw [hcv] at hacc
      exact List.any_eq_true.mpr ⟨y, hy, hacc⟩
    | some v =>
      rw [hcv] at hacc
      exact List.any_eq_true.mpr ⟨y, hy, hacc⟩

/-! ### C16: canonical attribute bodies -/

/-- The body of the transmitted signed attributes is *canonical* for the parsed values `a`: it is
    exactly the layout `Attributes.Marshal` writes for them, the encodings
    `attrSeq contentType, [attrSeq signingTime], attrSeq messageDigest, other attributes`
    sorted into DER SET OF order (`sortEnc`, F19) and concatenated,
    with all OIDs valid (`attrsBody a = some body`).  For values obtained from `attrLoop` the time
    text satisfies `parseUTC t = some t'` with `t'` the stored text, and every other attribute
    is stored as (oid, SET contents) — see `attrsBody`. -/
def Canon (a : Attrs) (body : Bytes) : Prop := attrsBody a = some body

instance (a : Attrs) (body : Bytes) : Decidable (Canon a body) :=
  inferInstanceAs (Decidable (attrsBody a = some body))

theorem marshal_of_canon {a : Attrs} {body : Bytes} (hc : Canon a body) :
    a.marshal = .ok (addASN1 tSET body) := by
  unfold Canon at hc
  simp [Attrs.marshal, hc]

/-- for attributes whose `raw` is the re-tagged `body`: the body is canonical exactly when
    `Marshal` reproduces `raw` -/
theorem canon_iff_marshal_eq_raw {a : Attrs} {body : Bytes}
    (hraw : a.raw = some (addASN1 tSET body)) :
    Canon a body ↔ ∃ r, a.raw = some r ∧ a.marshal = .ok r := by
  constructor
  · intro hc
    exact ⟨_, hraw, marshal_of_canon hc⟩
  · rintro ⟨r, hr, hm⟩
    rw [hraw] at hr
    simp at hr
    subst hr
    rcases marshal_cases a with ⟨b', hb, hm'⟩ | ⟨_, hm'⟩
    · rw [hm'] at hm
      simp at hm
      have := (addASN1_inj hm).2
      subst this
      exact hb
    · rw [hm'] at hm; simp at hm

end GoUefi.Impl

/-! ### concrete values for the non-vacuity examples of C04 / C16 -/
namespace GoUefi.P7Ex
open GoUefi GoUefi.Der GoUefi.Impl

/-- toy cryptography: the digest is the message, a signature is valid iff it equals the message -/
def toy : Crypto := ⟨id, fun _ m s => s == m⟩
/-- a degenerate digest that is always empty (counterexample for `C04_refines_spec`) -/
def nilC : Crypto := ⟨fun _ => [], fun _ m s => s == m⟩

def issuer : Bytes := addASN1 tSEQ []
def cert : Cert := ⟨issuer, 5, ⟨0, 0⟩⟩
def otherCert : Cert := ⟨issuer, 6, ⟨0, 0⟩⟩
/-- "250101000000Z" -/
def time : Bytes := [0x32, 0x35, 0x30, 0x31, 0x30, 0x31, 0x30, 0x30, 0x30, 0x30, 0x30, 0x30, 0x5a]
def oid : List Nat := [1, 3, 6, 1, 4, 1, 311, 2, 1, 4]
def content : Bytes := [1, 2, 3]

/-- a SignedData around `content` with one signer (issuer `issuer`, serial 5), the given body of
    signed attributes (`none`: no `[0]` field) and signature octets -/
def mkBlob (ab : Option Bytes) (sig : Bytes) : Bytes :=
  let eci := oidOr oid ++ addASN1 tCtx0 (addASN1 tSEQ content)
  let signer := addASN1 tSEQ (
      addUInt 1 ++ addASN1 tSEQ (issuer ++ addUInt 5) ++ algSha256 ++
      (match ab with | some ab => addASN1 tCtx0 ab | none => []) ++
      addASN1 tSEQ (oidOr oidRsa ++ addNULL) ++ addOctets sig)
  let sd := addASN1 tSEQ (addUInt 1 ++ addASN1 tSET algSha256 ++ addASN1 tSEQ eci ++
      addASN1 tCtx0 [] ++ addASN1 tSET signer)
  addASN1 tSEQ (oidOr oidSignedData ++ addASN1 tCtx0 sd)

/-- canonical attributes (what `SignPKCS7` writes) -/
def attrs : Attrs := { contentType := some oid, md := content, time := some time }
def body : Bytes := (attrsBody attrs).getD []
def blob : Bytes := mkBlob (some body) (addASN1 tSET body)

/-- contentType before messageDigest, no signing time: accepted by the parser, not what `Marshal`
    writes (not the DER SET OF order: the messageDigest attribute is the shorter encoding and
    sorts first) -/
def bodyReordered : Bytes :=
  attrSeq oidContentType (oidOr oid) ++ attrSeq oidMessageDigest (addOctets content)
def blobReordered : Bytes := mkBlob (some bodyReordered) (addASN1 tSET bodyReordered)
/-- the values parsed from `bodyReordered` (without `raw`) -/
def attrsReordered : Attrs := { contentType := some oid, md := content }

/-- no messageDigest attribute at all -/
def bodyNoMd : Bytes := attrSeq oidContentType (oidOr oid)
def blobNoMd : Bytes := mkBlob (some bodyNoMd) (addASN1 tSET bodyNoMd)

/-- messageDigest does not match the content -/
def bodyBadMd : Bytes :=
  (attrsBody { contentType := some oid, md := [9], time := some time }).getD []
def blobBadMd : Bytes := mkBlob (some bodyBadMd) (addASN1 tSET bodyBadMd)

def blobBadSig : Bytes := mkBlob (some body) [0]
def blobNoAttrs : Bytes := mkBlob none [0]

def allOk : Bytes → Bool := fun _ => true

/-- parse and verify in one go -/
def run (C : Crypto) (b : Bytes) (c : Cert) : Option (Outcome Bool) :=
  (parseP7 allOk b).map fun p => p.verify C c

end GoUefi.P7Ex
