import GoUefi.Gen
import GoUefi.Lemmas.GenAuthDesc
import GoUefi.Lemmas.GenCodec
/-!
  Lemmas about the translated `signature.SignEFIVariable` (efi/signature/varsign.go) and about the
  translated descriptor codec in the direction "encode, then decode" (the other direction is
  `GenAuthDesc.decode_encode_tie`).  Used by `Properties/C06g.lean`.
-/
namespace GoUefi.GenVarSign
open GoUefi GoUefi.Gen GoUefi.GenCodec GoUefi.GenAuthDesc

/-! ### the name loop -/

/-- `for _, n := range []byte(v.Name) { s = append(s, n, 0x00) }` -/
theorem loop1_eq (X : signature.Externals) (l s : List UInt8) :
    signature.SignEFIVariable.loop1 X l s = Loop.done (s ++ l.flatMap fun b => [b, 0]) := by
  induction l generalizing s with
  | nil => rw [signature.SignEFIVariable.loop1, List.flatMap_nil, List.append_nil]
  | cons a l ih =>
    rw [signature.SignEFIVariable.loop1, ih, List.flatMap_cons, List.append_assoc]

/-! ### the struct codecs: decoding what was encoded -/

theorem encLE_time_length (t : util.EFITime) : (encLE_util_EFITime t).length = 16 := rfl

theorem encLE_guid_length (g : util.EFIGUID) (h : g.Data4.length = 8) :
    (encLE_util_EFIGUID g).length = 16 := by
  show (encLE32 g.Data1 ++ encLE16 g.Data2 ++ encLE16 g.Data3 ++ decBytes g.Data4).length = 16
  simp only [List.length_append, decBytes, h]
  rfl

theorem decU8_encU8 (v : UInt8) : decU8 (encU8 v) = v := rfl

theorem decLEi16_encLEi16 (v : Int16) : decLEi16 (encLEi16 v) = v := by
  unfold decLEi16 encLEi16
  rw [decLE16_encLE16, Int16.toInt16_toUInt16]

/-- `binary.Read` of the 16 bytes that `binary.Write` emits for an EFI_TIME gives the value back -/
theorem decLE_encLE_time (t : util.EFITime) : decLE_util_EFITime (encLE_util_EFITime t) = t := by
  obtain ⟨y, mo, d, h, mi, s, p1, n, tz, dl, p2⟩ := t
  have e16 := decLE16_encLE16 y
  have e32 := decLE32_encLE32 n
  have ei := decLEi16_encLEi16 tz
  unfold encLEi16 at ei
  unfold encLE16 at e16 ei
  unfold encLE32 at e32
  simp only [encLE_util_EFITime, decLE_util_EFITime, encLE16, encLE32, encLEi16, encU8, List.cons_append,
    List.nil_append, List.drop_succ_cons, List.drop_zero, List.take_succ_cons, List.take_zero, e16, e32, ei]
  rfl

/-- the same for a GUID value (its `[8]uint8` field is a list in the translation: of length 8) -/
theorem decLE_encLE_guid (g : util.EFIGUID) (h8 : g.Data4.length = 8) :
    decLE_util_EFIGUID (encLE_util_EFIGUID g) = g := by
  obtain ⟨d1, d2, d3, d4⟩ := g
  have e1 := decLE32_encLE32 d1
  have e2 := decLE16_encLE16 d2
  have e3 := decLE16_encLE16 d3
  unfold encLE32 at e1
  unfold encLE16 at e2 e3
  have e4 : d4.take 8 = d4 := List.take_of_length_le (by simp only at h8; omega)
  simp only [encLE_util_EFIGUID, decLE_util_EFIGUID, encLE16, encLE32, decBytes, List.cons_append,
    List.nil_append, List.drop_succ_cons, List.drop_zero, List.take_succ_cons, List.take_zero, e1, e2, e3, e4]

/-! ### the abstraction of `GenAuthDesc` is injective on descriptors with 8-byte `Data4` -/

theorem gwG_inj (g g' : util.EFIGUID) (h : g.Data4.length = 8) (h' : g'.Data4.length = 8)
    (e : gwG g = gwG g') : g = g' := by
  have e' : encLE_util_EFIGUID g = encLE_util_EFIGUID g' := e
  rw [← decLE_encLE_guid g h, ← decLE_encLE_guid g' h', e']

theorem aAuth_inj (a a' : signature.EFIVariableAuthentication2)
    (h : a.AuthInfo.CertType.Data4.length = 8) (h' : a'.AuthInfo.CertType.Data4.length = 8)
    (e : aAuth a = aAuth a') : a = a' := by
  obtain ⟨t, ⟨⟨l, r, c, cert⟩, g, data⟩⟩ := a
  obtain ⟨t', ⟨⟨l', r', c', cert'⟩, g', data'⟩⟩ := a'
  simp only [aAuth, aWCG, aWC, Impl.AuthDesc.mk.injEq, Impl.WinCertGuid.mk.injEq, Impl.WinCert.mk.injEq] at e
  obtain ⟨et, ⟨el, er, ec, ecert⟩, eg, edata⟩ := e
  have ht : t = t' := by rw [← decLE_encLE_time t, ← decLE_encLE_time t', et]
  have hl : l = l' := UInt32.toNat_inj.mp el
  have hr : r = r' := UInt16.toNat_inj.mp er
  have hc : c = c' := UInt16.toNat_inj.mp ec
  have hg : g = g' := gwG_inj g g' h h' eg
  subst ht hl hr hc hg ecert edata
  rfl

/-! ### encode, then decode -/

/-- what the library's reader accepts and its writer reproduces: revision 0x0200, certificate type
    0x0EF1, no bytes kept in the embedded header, `dwLength` = 24 + the length of the certificate data
    (no wrap-around), a GUID with its 8 trailing bytes -/
def WFDesc (a : signature.EFIVariableAuthentication2) : Prop :=
  a.AuthInfo.Header.Revision = 0x0200 ∧ a.AuthInfo.Header.CertType = 0x0EF1 ∧
  a.AuthInfo.Header.Certificate = [] ∧ a.AuthInfo.Header.Length.toNat = 24 + a.AuthInfo.CertData.length ∧
  a.AuthInfo.CertType.Data4.length = 8

theorem aAuth_wf (a : signature.EFIVariableAuthentication2) (h : WFDesc a) : (aAuth a).WF := by
  obtain ⟨hr, hc, hcert, hlen, h8⟩ := h
  refine ⟨encLE_time_length a.Time, encLE_guid_length _ h8, hcert, hlen, a.AuthInfo.Header.Length.toNat_lt, ?_, ?_⟩
  · show a.AuthInfo.Header.Revision.toNat = Impl.winCertRevision
    rw [hr]; rfl
  · show a.AuthInfo.Header.CertType.toNat = Impl.winCertTypeEfiGuid
    rw [hc]; rfl

/-- the translated reader applied to what the translated writer emitted for a well-formed descriptor,
    followed by anything: the descriptor comes back, what followed is left in the reader -/
theorem read_marshal (a : signature.EFIVariableAuthentication2) (rest : List UInt8) (h : WFDesc a) :
    signature.ReadEFIVariableAuthencation2 (a.Marshal [] ++ rest) = (rest, a, none) := by
  have key : ∀ f : List UInt8, Impl.readAuth f = .ok (aAuth a, rest) →
      ∃ ga, signature.ReadEFIVariableAuthencation2 f = (rest, ga, none) ∧ aAuth ga = aAuth a ∧
        ga.AuthInfo.CertType.Data4.length = 8 := by
    intro f hf
    have ht := readAuth_tie f
    rw [hf] at ht
    exact ht
  have hm : a.Marshal [] = Impl.writeAuth (aAuth a) := by rw [marshal_tie, List.nil_append]
  rw [hm]
  obtain ⟨ga, hg, ha, h8⟩ := key _ (readAuth_writeAuth (aAuth a) rest (aAuth_wf a h))
  rw [hg, aAuth_inj ga a h8 h.2.2.2.2 ha]

end GoUefi.GenVarSign
