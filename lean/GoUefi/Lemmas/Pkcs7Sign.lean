import GoUefi.Model.Pkcs7
import GoUefi.Spec.Cms
import GoUefi.Lemmas.Der
import GoUefi.Lemmas.SortEnc
/-!
  Layer-by-layer lemmas for C05: what `SignPKCS7` writes is read back by `ParsePKCS7`
  (`GoUefi/Model/Pkcs7.lean`), verifies, and is accepted by `Spec.cmsVerify`.
-/
namespace GoUefi.Impl
open GoUefi GoUefi.Der

/-- length side goals: every piece of an element is shorter than the element.
    `der_len h` closes `piece.length < 2^32` from `h : whole.length < 2^32`. -/
macro "der_len " h:ident : tactic =>
  `(tactic| (have hh := $h
             simp only [List.length_append, addASN1_length, addOctets, addUInt_eq, List.length_nil,
               List.length_cons] at hh ⊢
             omega))

/-! ### OIDs -/

theorem oidOr_eq {o : List Nat} (h : validOID o = true) : ∃ body, oidOr o = addASN1 tOID body := by
  obtain ⟨body, hb⟩ := addOID_of_valid h
  exact ⟨body, by simp [oidOr, hb]⟩

theorem readOID_oidOr (o : List Nat) (rest : Bytes) (hok : oidArcsOk o = true)
    (hlen : (oidOr o).length < 2^32) : readOID (oidOr o ++ rest) = some (o, rest) := by
  obtain ⟨body, hb⟩ := addOID_of_valid (validOID_of_oidArcsOk hok)
  have e : oidOr o = addASN1 tOID body := by simp [oidOr, hb]
  rw [e] at hlen ⊢
  exact readOID_addOID_of_ok o _ rest hok hb hlen

theorem readOID_oidOr_nil (o : List Nat) (hok : oidArcsOk o = true)
    (hlen : (oidOr o).length < 2^32) : readOID (oidOr o) = some (o, []) := by
  simpa using readOID_oidOr o [] hok hlen

theorem peek_oidOr (t : UInt8) (o : List Nat) (rest : Bytes) (h : validOID o = true) :
    peek t (oidOr o ++ rest) = (tOID == t) := by
  obtain ⟨body, hb⟩ := oidOr_eq h
  rw [hb, peek_addASN1]

theorem oidOr_append_isEmpty (o : List Nat) (rest : Bytes) (h : validOID o = true) :
    (oidOr o ++ rest).isEmpty = false := by
  obtain ⟨body, hb⟩ := oidOr_eq h
  rw [hb, addASN1_append_isEmpty]

/-! ### AlgorithmIdentifier -/

/-- `ParseAlgorithmIdentifier` on SEQUENCE { oid, NULL } -/
theorem parseAlg_null (o : List Nat) (rest : Bytes) (hok : oidArcsOk o = true)
    (hlen : (addASN1 tSEQ (oidOr o ++ addNULL)).length < 2^32) :
    parseAlg (addASN1 tSEQ (oidOr o ++ addNULL) ++ rest) = some (o, rest) := by
  have h1 : (oidOr o ++ addNULL).length < 2^32 := addASN1_body_lt hlen
  have h2 : (oidOr o).length < 2^32 := by simp at h1; omega
  simp only [parseAlg, read_addASN1 tSEQ _ rest (by decide) h1, readOID_oidOr o _ hok h2,
    read_addNULL_nil]
  rfl

theorem parseAlg_null_nil (o : List Nat) (hok : oidArcsOk o = true)
    (hlen : (addASN1 tSEQ (oidOr o ++ addNULL)).length < 2^32) :
    parseAlg (addASN1 tSEQ (oidOr o ++ addNULL)) = some (o, []) := by
  simpa using parseAlg_null o [] hok hlen

theorem parseAlg_algSha256 (rest : Bytes) : parseAlg (algSha256 ++ rest) = some (oidSha256, rest) :=
  parseAlg_null oidSha256 rest (by decide) (by decide)

theorem parseAlg_algSha256_nil : parseAlg algSha256 = some (oidSha256, []) := by
  simpa using parseAlg_algSha256 []

theorem parseAlg_rsa (rest : Bytes) :
    parseAlg (addASN1 tSEQ (oidOr oidRsa ++ addNULL) ++ rest) = some (oidRsa, rest) :=
  parseAlg_null oidRsa rest (by decide) (by decide)

/-! ### signed attributes -/

theorem attrSeq_append_isEmpty (ty : List Nat) (v rest : Bytes) :
    (attrSeq ty v ++ rest).isEmpty = false := addASN1_append_isEmpty _ _ _

theorem parseAttr_contentType (o : List Nat) (rest : Bytes) (a : Attrs) (hok : oidArcsOk o = true)
    (hlen : (attrSeq oidContentType (oidOr o)).length < 2^32) :
    parseAttr (attrSeq oidContentType (oidOr o) ++ rest) a =
      some ({ a with contentType := some o }, rest) := by
  unfold attrSeq at hlen
  have h1 : (oidOr oidContentType ++ addASN1 tSET (oidOr o)).length < 2^32 := addASN1_body_lt hlen
  have h2 : (oidOr o).length < 2^32 := by der_len h1
  simp only [parseAttr, attrSeq, read_addASN1 tSEQ _ rest (by decide) h1,
    readOID_oidOr oidContentType _ (by decide) (by decide),
    read_addASN1_nil tSET _ (by decide) h2,
    show (oidContentType == oidMessageDigest) = false from by decide,
    show (oidContentType == oidContentType) = true from by decide,
    readOID_oidOr_nil o hok h2]
  rfl

theorem parseAttr_signingTime (t : Bytes) (rest : Bytes) (a : Attrs) (ht : parseUTC t = some t)
    (hlen : (attrSeq oidSigningTime (addASN1 tUTC t)).length < 2^32) :
    parseAttr (attrSeq oidSigningTime (addASN1 tUTC t) ++ rest) a =
      some ({ a with time := some t }, rest) := by
  unfold attrSeq at hlen
  have h1 : (oidOr oidSigningTime ++ addASN1 tSET (addASN1 tUTC t)).length < 2^32 :=
    addASN1_body_lt hlen
  have h2 : (addASN1 tUTC t).length < 2^32 := by der_len h1
  have h3 : t.length < 2^32 := addASN1_body_lt h2
  simp only [parseAttr, attrSeq, read_addASN1 tSEQ _ rest (by decide) h1,
    readOID_oidOr oidSigningTime _ (by decide) (by decide),
    read_addASN1_nil tSET _ (by decide) h2,
    show (oidSigningTime == oidMessageDigest) = false from by decide,
    show (oidSigningTime == oidContentType) = false from by decide,
    show (oidSigningTime == oidSigningTime) = true from by decide,
    read_addASN1_nil tUTC _ (by decide) h3, ht]
  rfl

theorem parseAttr_messageDigest (d : Bytes) (rest : Bytes) (a : Attrs)
    (hlen : (attrSeq oidMessageDigest (addOctets d)).length < 2^32) :
    parseAttr (attrSeq oidMessageDigest (addOctets d) ++ rest) a =
      some ({ a with md := d }, rest) := by
  unfold attrSeq at hlen
  have h1 : (oidOr oidMessageDigest ++ addASN1 tSET (addOctets d)).length < 2^32 :=
    addASN1_body_lt hlen
  have h2 : (addOctets d).length < 2^32 := by
    have hh := h1; simp only [List.length_append, addASN1_length] at hh; omega
  have h3 : d.length < 2^32 := addASN1_body_lt h2
  simp only [parseAttr, attrSeq, read_addASN1 tSEQ _ rest (by decide) h1,
    readOID_oidOr oidMessageDigest _ (by decide) (by decide),
    read_addASN1_nil tSET _ (by decide) h2,
    show (oidMessageDigest == oidMessageDigest) = true from by decide,
    read_addOctets_nil d h3]
  rfl

theorem attrLoop_nil (f : Nat) (a : Attrs) : attrLoop f [] a = some a := by
  cases f <;> rfl

theorem attrLoop_step {f : Nat} {s rest : Bytes} {a a' : Attrs} (hf : 0 < f)
    (hs : s.isEmpty = false) (h : parseAttr s a = some (a', rest)) :
    attrLoop f s a = attrLoop (f - 1) rest a' := by
  cases f with
  | zero => omega
  | succ f => simp [attrLoop, hs, h]

/-- three turns of the attribute loop over three concatenated elements -/
theorem attrLoop_three {e1 e2 e3 : Bytes} {g1 g2 g3 : Attrs → Attrs} (a : Attrs) (f : Nat)
    (hf : 3 ≤ f)
    (n1 : ∀ r, (e1 ++ r).isEmpty = false) (n2 : ∀ r, (e2 ++ r).isEmpty = false)
    (n3 : ∀ r, (e3 ++ r).isEmpty = false)
    (h1 : ∀ r a, parseAttr (e1 ++ r) a = some (g1 a, r))
    (h2 : ∀ r a, parseAttr (e2 ++ r) a = some (g2 a, r))
    (h3 : ∀ r a, parseAttr (e3 ++ r) a = some (g3 a, r)) :
    attrLoop f (e1 ++ e2 ++ e3) a = some (g3 (g2 (g1 a))) := by
  have e : e1 ++ e2 ++ e3 = e1 ++ (e2 ++ (e3 ++ [])) := by simp
  rw [e, attrLoop_step (by omega) (n1 _) (h1 _ _), attrLoop_step (by omega) (n2 _) (h2 _ _),
    attrLoop_step (by omega) (n3 _) (h3 _ _), attrLoop_nil]

/-- the three attributes `SignPKCS7` signs, in the order `Attributes.Marshal` writes them: the
    DER SET OF order, i.e. sorted by their encodings (F19) -/
def signedAttrsBody (oid : List Nat) (time md : Bytes) : Bytes :=
  (sortEnc [attrSeq oidContentType (oidOr oid), attrSeq oidSigningTime (addASN1 tUTC time),
    attrSeq oidMessageDigest (addOctets md)]).flatten

/-- whichever order the sort produced, the body is the concatenation of the three attributes in
    one of the six orders -/
theorem signedAttrsBody_cases (oid : List Nat) (time md : Bytes) :
    let ct := attrSeq oidContentType (oidOr oid)
    let st := attrSeq oidSigningTime (addASN1 tUTC time)
    let dg := attrSeq oidMessageDigest (addOctets md)
    signedAttrsBody oid time md = ct ++ st ++ dg ∨ signedAttrsBody oid time md = ct ++ dg ++ st ∨
    signedAttrsBody oid time md = st ++ ct ++ dg ∨ signedAttrsBody oid time md = st ++ dg ++ ct ∨
    signedAttrsBody oid time md = dg ++ ct ++ st ∨ signedAttrsBody oid time md = dg ++ st ++ ct := by
  intro ct st dg
  unfold signedAttrsBody
  rcases sortEnc_three ct st dg with h | h | h | h | h | h <;> rw [h] <;> simp

theorem signedAttrsBody_length (oid : List Nat) (time md : Bytes) :
    (signedAttrsBody oid time md).length =
      (attrSeq oidContentType (oidOr oid)).length +
      (attrSeq oidSigningTime (addASN1 tUTC time)).length +
      (attrSeq oidMessageDigest (addOctets md)).length := by
  rcases signedAttrsBody_cases oid time md with h | h | h | h | h | h <;> rw [h] <;>
    simp only [List.length_append] <;> omega

theorem signedAttrsBody_length_ge (oid : List Nat) (time md : Bytes) :
    3 ≤ (signedAttrsBody oid time md).length := by
  rw [signedAttrsBody_length]
  unfold attrSeq
  have := addASN1_length_ge tSEQ (oidOr oidContentType ++ addASN1 tSET (oidOr oid))
  have := addASN1_length_ge tSEQ (oidOr oidSigningTime ++ addASN1 tSET (addASN1 tUTC time))
  omega

theorem attrsBody_signed (oid : List Nat) (time md : Bytes) (hv : validOID oid = true) :
    attrsBody { contentType := some oid, md := md, time := some time } =
      some (signedAttrsBody oid time md) := by
  simp [attrsBody, hv, signedAttrsBody]

theorem attrsBody_signed_inv {oid : List Nat} {time md ab : Bytes}
    (h : attrsBody { contentType := some oid, md := md, time := some time } = some ab) :
    validOID oid = true ∧ ab = signedAttrsBody oid time md := by
  by_cases hv : validOID oid = true
  · rw [attrsBody_signed oid time md hv] at h
    exact ⟨hv, by simpa using h.symm⟩
  · simp [attrsBody, hv] at h

theorem attrLoop_signed (oid : List Nat) (time md : Bytes) (a : Attrs) (f : Nat) (hf : 3 ≤ f)
    (hok : oidArcsOk oid = true) (ht : parseUTC time = some time)
    (hlen : (signedAttrsBody oid time md).length < 2^32) :
    attrLoop f (signedAttrsBody oid time md) a =
      some { a with contentType := some oid, time := some time, md := md } := by
  rw [signedAttrsBody_length] at hlen
  have h1 : (attrSeq oidContentType (oidOr oid)).length < 2^32 := by omega
  have h2 : (attrSeq oidSigningTime (addASN1 tUTC time)).length < 2^32 := by omega
  have h3 : (attrSeq oidMessageDigest (addOctets md)).length < 2^32 := by omega
  have n1 := attrSeq_append_isEmpty oidContentType (oidOr oid)
  have n2 := attrSeq_append_isEmpty oidSigningTime (addASN1 tUTC time)
  have n3 := attrSeq_append_isEmpty oidMessageDigest (addOctets md)
  have p1 := fun r a => parseAttr_contentType oid r a hok h1
  have p2 := fun r a => parseAttr_signingTime time r a ht h2
  have p3 := fun r a => parseAttr_messageDigest md r a h3
  rcases signedAttrsBody_cases oid time md with h | h | h | h | h | h <;> rw [h]
  · exact attrLoop_three a f hf n1 n2 n3 p1 p2 p3
  · exact attrLoop_three a f hf n1 n3 n2 p1 p3 p2
  · exact attrLoop_three a f hf n2 n1 n3 p2 p1 p3
  · exact attrLoop_three a f hf n2 n3 n1 p2 p3 p1
  · exact attrLoop_three a f hf n3 n1 n2 p3 p1 p2
  · exact attrLoop_three a f hf n3 n2 n1 p3 p2 p1

/-- `parseAttributes` recovers the three signed attributes and keeps the transmitted bytes -/
theorem parseAttrs_signed (oid : List Nat) (time md rest : Bytes)
    (hok : oidArcsOk oid = true) (ht : parseUTC time = some time)
    (hlen : (signedAttrsBody oid time md).length < 2^32) :
    parseAttrs (addASN1 tCtx0 (signedAttrsBody oid time md) ++ rest) =
      some (some { contentType := some oid, md := md, time := some time, other := [],
                   raw := some (addASN1 tSET (signedAttrsBody oid time md)) }, rest) := by
  have h3 : 3 ≤ (signedAttrsBody oid time md).length := signedAttrsBody_length_ge oid time md
  simp only [parseAttrs, readOptional_addASN1 tCtx0 _ rest (by decide) hlen,
    attrLoop_signed oid time md _ _ h3 hok ht hlen]

/-! ### SignerInfo -/

/-- body of the SignerInfo SEQUENCE written by `SignPKCS7` -/
def signerBody (issuerRaw : Bytes) (serial : Nat) (ab sig : Bytes) : Bytes :=
  addUInt 1 ++ addASN1 tSEQ (issuerRaw ++ addUInt serial) ++ algSha256 ++ addASN1 tCtx0 ab ++
    addASN1 tSEQ (oidOr oidRsa ++ addNULL) ++ addOctets sig

theorem parseSigner_signer (ibody : Bytes) (serial : Nat) (ab sig rest : Bytes) (A : Option Attrs)
    (hA : ∀ r, parseAttrs (addASN1 tCtx0 ab ++ r) = some (A, r))
    (hlen : (signerBody (addASN1 tSEQ ibody) serial ab sig).length < 2^32) :
    parseSigner (addASN1 tSEQ (signerBody (addASN1 tSEQ ibody) serial ab sig) ++ rest) =
      some ((⟨1, addASN1 tSEQ ibody, serial, A, sig⟩ : Signer), rest) := by
  simp only [signerBody, List.append_assoc] at hlen ⊢
  have h1 : (addASN1 tSEQ ibody ++ addUInt serial).length < 2^32 := by der_len hlen
  have h2 : ibody.length < 2^32 := by der_len hlen
  have h3 : (uintBody serial).length < 2^32 := by der_len hlen
  have h4 : sig.length < 2^32 := by der_len hlen
  simp only [parseSigner, read_addASN1 tSEQ _ rest (by decide) hlen,
    readInt64_addUInt 1 _ (by decide), read_addASN1 tSEQ _ _ (by decide) h1,
    readElement_addASN1 tSEQ ibody _ (by decide) h2, readBigInt_addUInt_of_body_nil serial h3,
    parseAlg_algSha256, hA, parseAlg_rsa, read_addOctets_nil sig h4]
  rfl

theorem signerLoop_one {f : Nat} {s : Bytes} {x : Signer} (hf : 0 < f) (hs : s.isEmpty = false)
    (h : parseSigner s = some (x, [])) : signerLoop f s = some [x] := by
  cases f with
  | zero => omega
  | succ f =>
    simp only [signerLoop, hs, h]
    cases f <;> rfl

/-! ### ContentInfo -/

theorem parseContentInfo_absent (oid : List Nat) (rest : Bytes) (hok : oidArcsOk oid = true)
    (hlen : (oidOr oid).length < 2^32) :
    parseContentInfo (addASN1 tSEQ (oidOr oid) ++ rest) = some (oid, [], rest) := by
  simp only [parseContentInfo, read_addASN1 tSEQ _ rest (by decide) hlen,
    readOID_oidOr_nil oid hok hlen, readOptional_nil]
  rfl

theorem parseContentInfo_present (oid : List Nat) (c rest : Bytes) (hok : oidArcsOk oid = true)
    (hlen : (oidOr oid ++ addASN1 tCtx0 c).length < 2^32) :
    parseContentInfo (addASN1 tSEQ (oidOr oid ++ addASN1 tCtx0 c) ++ rest) = some (oid, c, rest) := by
  have h1 : (oidOr oid).length < 2^32 := by der_len hlen
  have h2 : c.length < 2^32 := by der_len hlen
  simp only [parseContentInfo, read_addASN1 tSEQ _ rest (by decide) hlen,
    readOID_oidOr oid _ hok h1, readOptional_addASN1_nil tCtx0 c (by decide) h2]
  rfl

theorem parseContentInfo_present_nil (oid : List Nat) (c : Bytes) (hok : oidArcsOk oid = true)
    (hlen : (oidOr oid ++ addASN1 tCtx0 c).length < 2^32) :
    parseContentInfo (addASN1 tSEQ (oidOr oid ++ addASN1 tCtx0 c)) = some (oid, c, []) := by
  simpa using parseContentInfo_present oid c [] hok hlen

/-- whether `SignPKCS7` encapsulates the content -/
def attached (oid : List Nat) (content : Bytes) : Bool := content.length > 0 && oid != oidData

/-- body of the encapContentInfo SEQUENCE written by `SignPKCS7` -/
def eciBody (oid : List Nat) (content : Bytes) : Bytes :=
  oidOr oid ++ (if attached oid content then addASN1 tCtx0 (addASN1 tSEQ content) else [])

/-- the `Content` field `ParsePKCS7` stores for it -/
def eciContent (oid : List Nat) (content : Bytes) : Bytes :=
  if attached oid content then addASN1 tSEQ content else []

theorem parseContentInfo_eci (oid : List Nat) (content rest : Bytes) (hok : oidArcsOk oid = true)
    (hlen : (eciBody oid content).length < 2^32) :
    parseContentInfo (addASN1 tSEQ (eciBody oid content) ++ rest) =
      some (oid, eciContent oid content, rest) := by
  unfold eciBody at hlen
  unfold eciBody eciContent
  cases h : attached oid content with
  | true =>
    simp only [h, if_true] at hlen ⊢
    exact parseContentInfo_present oid _ rest hok hlen
  | false =>
    simp only [h, Bool.false_eq_true, if_false, List.append_nil] at hlen ⊢
    exact parseContentInfo_absent oid rest hok hlen

/-! ### SignedData -/

/-- body of the SignedData SEQUENCE: version, digestAlgorithms, encapContentInfo, then `tail`
    (certificates and signerInfos) -/
def sdBody (oid : List Nat) (content tail : Bytes) : Bytes :=
  addUInt 1 ++ addASN1 tSET algSha256 ++ addASN1 tSEQ (eciBody oid content) ++ tail

/-- the outer ContentInfo -/
def outerBody (sd : Bytes) : Bytes := oidOr oidSignedData ++ addASN1 tCtx0 (addASN1 tSEQ sd)

theorem parseHead_blob (oid : List Nat) (content tail : Bytes) (hok : oidArcsOk oid = true)
    (hlen : (outerBody (sdBody oid content tail)).length < 2^32) :
    parseHead (addASN1 tSEQ (outerBody (sdBody oid content tail))) =
      some (oid, eciContent oid content, tail) := by
  have h0 : (addASN1 tSEQ (sdBody oid content tail)).length < 2^32 := by
    unfold outerBody at hlen; der_len hlen
  have h1 : (sdBody oid content tail).length < 2^32 := addASN1_body_lt h0
  have h2 : (eciBody oid content).length < 2^32 := by
    unfold sdBody at h1; der_len h1
  have h3 : algSha256.length < 2^32 := by decide
  have hpeek : peek tOID (outerBody (sdBody oid content tail)) = true := by
    unfold outerBody; rw [peek_oidOr _ _ _ (by decide)]; decide
  have hci : parseContentInfo (addASN1 tSEQ (outerBody (sdBody oid content tail))) =
      some (oidSignedData, addASN1 tSEQ (sdBody oid content tail), []) := by
    unfold outerBody at hlen ⊢
    exact parseContentInfo_present_nil oidSignedData _ (by decide) hlen
  simp only [parseHead, read_addASN1_nil tSEQ _ (by decide) hlen, hpeek, if_true, hci, Option.map_some,
    read_addASN1_nil tSEQ _ (by decide) h1]
  simp only [sdBody, List.append_assoc, readInt64_addUInt 1 _ (by decide),
    read_addASN1 tSET algSha256 _ (by decide) h3, parseAlg_algSha256_nil,
    parseContentInfo_eci oid content tail hok h2]

/-- everything `SignPKCS7` writes, as a function of the signed-attribute body -/
def signedBlob (oid : List Nat) (content certRaw issuerRaw : Bytes) (serial : Nat)
    (ab sig : Bytes) : Bytes :=
  addASN1 tSEQ (outerBody (sdBody oid content
    (addASN1 tCtx0 certRaw ++ addASN1 tSET (addASN1 tSEQ (signerBody issuerRaw serial ab sig)))))

theorem signPKCS7_eq (oid : List Nat) (content certRaw issuerRaw : Bytes) (serial : Nat)
    (time md sig : Bytes) :
    signPKCS7 oid content certRaw issuerRaw serial time md sig =
      (attrsBody { contentType := some oid, md := md, time := some time }).map
        (fun ab => signedBlob oid content certRaw issuerRaw serial ab sig) := by
  unfold signPKCS7
  cases attrsBody { contentType := some oid, md := md, time := some time } with
  | none => rfl
  | some ab =>
    simp only [Option.map_some, signedBlob, outerBody, sdBody, eciBody, attached, signerBody,
      List.append_assoc]
    congr 1

theorem parseP7_blob (certsOk : Bytes → Bool) (oid : List Nat) (content certRaw ibody : Bytes)
    (serial : Nat) (ab sig : Bytes) (A : Option Attrs)
    (hok : oidArcsOk oid = true) (hc : certsOk certRaw = true)
    (hA : ∀ r, parseAttrs (addASN1 tCtx0 ab ++ r) = some (A, r))
    (hlen : (signedBlob oid content certRaw (addASN1 tSEQ ibody) serial ab sig).length < 2^32) :
    parseP7 certsOk (signedBlob oid content certRaw (addASN1 tSEQ ibody) serial ab sig) =
      some (⟨oid, eciContent oid content, some certRaw,
        [⟨1, addASN1 tSEQ ibody, serial, A, sig⟩]⟩ : P7) := by
  unfold signedBlob at hlen ⊢
  have h0 := addASN1_body_lt hlen
  have h1 : certRaw.length < 2^32 := by
    have hh := h0; unfold outerBody sdBody at hh; der_len hh
  have h2 : (addASN1 tSEQ (signerBody (addASN1 tSEQ ibody) serial ab sig)).length < 2^32 := by
    have hh := h0; unfold outerBody sdBody at hh; der_len hh
  have h3 := addASN1_body_lt h2
  have hps := parseSigner_signer ibody serial ab sig [] A hA h3
  rw [List.append_nil] at hps
  have hloop := signerLoop_one (f := (addASN1 tSEQ (signerBody (addASN1 tSEQ ibody) serial ab sig)).length)
    (by have := addASN1_length_ge tSEQ (signerBody (addASN1 tSEQ ibody) serial ab sig); omega)
    (by simpa using addASN1_append_isEmpty tSEQ (signerBody (addASN1 tSEQ ibody) serial ab sig) []) hps
  simp only [parseP7, parseHead_blob oid content _ hok h0,
    readOptional_addASN1 tCtx0 certRaw _ (by decide) h1, Option.getD_some, hc,
    read_addASN1_nil tSET _ (by decide) h2, hloop]
  rfl

/-! ### inputs of `SignPKCS7` and their well-formedness -/

/-- arguments of `signPKCS7` -/
structure SignInputs where
  oid : List Nat
  content : Bytes
  certRaw : Bytes
  issuerRaw : Bytes
  serial : Nat
  time : Bytes
  md : Bytes
  sig : Bytes

/-- Hypotheses of C05. The bound 2^24 on each variable-length input keeps every nested DER length
    below 2^32 (the builder's and the reader's limit): the whole output is then shorter than
    10·2^24 + 500 bytes. The signing time needs no bound: an accepted UTCTime has at most 17 bytes. -/
structure SignInputs.WF (x : SignInputs) (certsOk : Bytes → Bool) : Prop where
  /-- `validOID oid`, `40·a+b < 2^31` and every further arc `< 2^31` -/
  oidOk : oidArcsOk x.oid = true
  oidLen : (oidOr x.oid).length < 2^24
  contentLen : x.content.length < 2^24
  certLen : x.certRaw.length < 2^24
  issuerLen : x.issuerRaw.length < 2^24
  /-- the serial number has fewer than 2^24 bytes -/
  serialLen : (natBytes x.serial).length < 2^24
  mdLen : x.md.length < 2^24
  sigLen : x.sig.length < 2^24
  /-- the issuer is one SEQUENCE element (an X.501 Name) -/
  issuerSeq : ∃ body, x.issuerRaw = addASN1 tSEQ body
  /-- the UTCTime text re-serialises to itself (it carries seconds) -/
  timeOk : parseUTC x.time = some x.time
  /-- `x509.ParseCertificates` accepts the certificate -/
  certsOk : certsOk x.certRaw = true

/-- the signed-attribute body of these inputs -/
def SignInputs.attrs (x : SignInputs) : Bytes := signedAttrsBody x.oid x.time x.md

/-- the bytes `SignPKCS7` produces for these inputs (when the content-type OID is valid) -/
def SignInputs.blob (x : SignInputs) : Bytes :=
  signedBlob x.oid x.content x.certRaw x.issuerRaw x.serial x.attrs x.sig

theorem signedAttrsBody_length_le (x : SignInputs) (certsOk : Bytes → Bool) (h : x.WF certsOk) :
    x.attrs.length ≤ 3 * 2^24 + 100 := by
  have ht := parseUTC_length h.timeOk
  have hA1 : (attrSeq oidContentType (oidOr x.oid)).length ≤ 2^24 + 23 := by
    unfold attrSeq
    have h1 := addASN1_length_le tSEQ (oidOr oidContentType ++ addASN1 tSET (oidOr x.oid))
    have h2 := addASN1_length_le tSET (oidOr x.oid)
    have h3 : (oidOr oidContentType).length = 11 := by decide
    have h4 := h.oidLen
    simp only [List.length_append] at h1
    omega
  have hA2 : (attrSeq oidSigningTime (addASN1 tUTC x.time)).length ≤ 60 := by
    unfold attrSeq
    have h1 := addASN1_length_le tSEQ (oidOr oidSigningTime ++ addASN1 tSET (addASN1 tUTC x.time))
    have h2 := addASN1_length_le tSET (addASN1 tUTC x.time)
    have h2' := addASN1_length_le tUTC x.time
    have h3 : (oidOr oidSigningTime).length = 11 := by decide
    simp only [List.length_append] at h1
    omega
  have hA3 : (attrSeq oidMessageDigest (addOctets x.md)).length ≤ 2^24 + 29 := by
    unfold attrSeq addOctets
    have h1 := addASN1_length_le tSEQ (oidOr oidMessageDigest ++ addASN1 tSET (addASN1 tOCT x.md))
    have h2 := addASN1_length_le tSET (addASN1 tOCT x.md)
    have h2' := addASN1_length_le tOCT x.md
    have h3 : (oidOr oidMessageDigest).length = 11 := by decide
    have h4 := h.mdLen
    simp only [List.length_append] at h1
    omega
  unfold SignInputs.attrs
  rw [signedAttrsBody_length]
  omega

theorem signerBody_length_le (x : SignInputs) (certsOk : Bytes → Bool) (h : x.WF certsOk) :
    (signerBody x.issuerRaw x.serial x.attrs x.sig).length ≤ 6 * 2^24 + 200 := by
  have hab := signedAttrsBody_length_le x certsOk h
  have h1 : (addUInt 1).length = 3 := by decide
  have h2 : algSha256.length = 15 := by decide
  have h3 : (addASN1 tSEQ (oidOr oidRsa ++ addNULL)).length = 15 := by decide
  have h4 := addASN1_length_le tOCT x.sig
  have h5 := addASN1_length_le tCtx0 x.attrs
  have h6 := addASN1_length_le tSEQ (x.issuerRaw ++ addUInt x.serial)
  have h7 := addASN1_length_le tINT (uintBody x.serial)
  have h8 := uintBody_length_le x.serial
  have h9 := h.issuerLen
  have h10 := h.serialLen
  have h11 := h.sigLen
  rw [← addUInt_eq] at h7
  unfold signerBody addOctets
  simp only [List.length_append] at h6 ⊢
  omega

theorem blob_length_lt (x : SignInputs) (certsOk : Bytes → Bool) (h : x.WF certsOk) :
    x.blob.length < 2^32 := by
  have hsb := signerBody_length_le x certsOk h
  have h1 : (addUInt 1).length = 3 := by decide
  have h2 : (addASN1 tSET algSha256).length = 17 := by decide
  have h3 : (oidOr oidSignedData).length = 11 := by decide
  have hs1 := addASN1_length_le tSEQ (signerBody x.issuerRaw x.serial x.attrs x.sig)
  have hs2 := addASN1_length_le tSET (addASN1 tSEQ (signerBody x.issuerRaw x.serial x.attrs x.sig))
  have hc := addASN1_length_le tCtx0 x.certRaw
  have he : (eciBody x.oid x.content).length ≤ 2 * 2^24 + 12 := by
    unfold eciBody
    have e1 := addASN1_length_le tCtx0 (addASN1 tSEQ x.content)
    have e2 := addASN1_length_le tSEQ x.content
    have e3 := h.oidLen
    have e4 := h.contentLen
    split <;> simp only [List.length_append, List.length_nil] <;> omega
  have he' := addASN1_length_le tSEQ (eciBody x.oid x.content)
  have hcl := h.certLen
  have hsd : (sdBody x.oid x.content (addASN1 tCtx0 x.certRaw ++
      addASN1 tSET (addASN1 tSEQ (signerBody x.issuerRaw x.serial x.attrs x.sig)))).length
      ≤ 9 * 2^24 + 300 := by
    unfold sdBody
    simp only [List.length_append]
    omega
  have hsd1 := addASN1_length_le tSEQ (sdBody x.oid x.content (addASN1 tCtx0 x.certRaw ++
      addASN1 tSET (addASN1 tSEQ (signerBody x.issuerRaw x.serial x.attrs x.sig))))
  have hsd2 := addASN1_length_le tCtx0 (addASN1 tSEQ (sdBody x.oid x.content (addASN1 tCtx0 x.certRaw ++
      addASN1 tSET (addASN1 tSEQ (signerBody x.issuerRaw x.serial x.attrs x.sig)))))
  have hout := addASN1_length_le tSEQ (outerBody (sdBody x.oid x.content (addASN1 tCtx0 x.certRaw ++
      addASN1 tSET (addASN1 tSEQ (signerBody x.issuerRaw x.serial x.attrs x.sig)))))
  unfold SignInputs.blob signedBlob
  unfold outerBody at hout ⊢
  simp only [List.length_append] at hout
  omega

/-- `signPKCS7` succeeds exactly with `x.blob` -/
theorem signPKCS7_blob (x : SignInputs) (hv : validOID x.oid = true) :
    signPKCS7 x.oid x.content x.certRaw x.issuerRaw x.serial x.time x.md x.sig = some x.blob := by
  rw [signPKCS7_eq, attrsBody_signed _ _ _ hv]; rfl

/-- the value `ParsePKCS7` returns for `x.blob` -/
def SignInputs.parsed (x : SignInputs) : P7 :=
  ⟨x.oid, eciContent x.oid x.content, some x.certRaw,
    [⟨1, x.issuerRaw, x.serial,
      some { contentType := some x.oid, md := x.md, time := some x.time, other := [],
             raw := some (addASN1 tSET x.attrs) }, x.sig⟩]⟩

theorem parseP7_blob_wf (x : SignInputs) (certsOk : Bytes → Bool) (h : x.WF certsOk) :
    parseP7 certsOk x.blob = some x.parsed := by
  have hlen := blob_length_lt x certsOk h
  obtain ⟨ibody, hi⟩ := h.issuerSeq
  unfold SignInputs.blob SignInputs.parsed at *
  rw [hi] at hlen ⊢
  have hal : (signedAttrsBody x.oid x.time x.md).length < 2^32 := by
    have := signedAttrsBody_length_le x certsOk h
    unfold SignInputs.attrs at this; omega
  exact parseP7_blob certsOk x.oid x.content x.certRaw ibody x.serial x.attrs x.sig _ h.oidOk h.certsOk
    (fun r => parseAttrs_signed x.oid x.time x.md r h.oidOk h.timeOk hal) hlen

/-! ### verification of the parsed value -/

theorem verify_parsed (C : Crypto) (c : Cert) (x : SignInputs)
    (hi : c.rawIssuer = x.issuerRaw) (hs : c.serial = (x.serial : Int))
    (hcl : x.content.length < 2^32)
    (hsig : C.rsaVerify c.pub (addASN1 tSET x.attrs) x.sig = true)
    (hmd : x.md = C.sha256 x.content) :
    x.parsed.verify C c = .ok true := by
  have hcert : (x.issuerRaw == c.rawIssuer && (x.serial : Int) == c.serial) = true := by
    simp [hi, hs]
  unfold SignInputs.parsed P7.verify
  simp only [verifySigners, Signer.isCertificate, hcert, if_true, Signer.verify, hsig]
  unfold eciContent
  cases attached x.oid x.content with
  | true =>
    have hpos : (addASN1 tSEQ x.content).length > 0 := by
      have := addASN1_length_ge tSEQ x.content; omega
    simp only [if_true, hpos, readAny_addASN1_nil tSEQ x.content (by decide) hcl, hmd]
    simp
  | false => simp

/-! ### the specification's walk over the same bytes -/

theorem skipAny_addASN1 (t : UInt8) (body rest : Bytes)
    (ht : t.toNat % 32 ≠ 31) (hb : body.length < 2^32) :
    Spec.skipAny (addASN1 t body ++ rest) = some rest := by
  simp [Spec.skipAny, readAny_addASN1 t body rest ht hb]

theorem parseSpecSigner_signer (ibody : Bytes) (serial : Nat) (ab sig rest : Bytes)
    (hlen : (signerBody (addASN1 tSEQ ibody) serial ab sig).length < 2^32) :
    Spec.parseSpecSigner (addASN1 tSEQ (signerBody (addASN1 tSEQ ibody) serial ab sig) ++ rest) =
      some ((⟨addASN1 tSEQ ibody, serial, some (addASN1 tCtx0 ab), ab, sig⟩ : Spec.SpecSigner), rest) := by
  simp only [signerBody, algSha256, List.append_assoc] at hlen ⊢
  have h1 : (addASN1 tSEQ ibody ++ addUInt serial).length < 2^32 := by der_len hlen
  have h2 : ibody.length < 2^32 := by der_len hlen
  have h3 : (uintBody serial).length < 2^32 := by der_len hlen
  have h4 : sig.length < 2^32 := by der_len hlen
  have h5 : ab.length < 2^32 := by der_len hlen
  simp only [Spec.parseSpecSigner, read_addASN1 tSEQ _ rest (by decide) hlen,
    Option.bind_eq_bind, Option.bind_some, Option.pure_def,
    readBigInt_addUInt 1 _ (by decide), read_addASN1 tSEQ _ _ (by decide) h1,
    readElement_addASN1 tSEQ ibody _ (by decide) h2, readBigInt_addUInt_of_body_nil serial h3,
    skipAny_addASN1 tSEQ (oidOr oidSha256 ++ addNULL) _ (by decide) (by decide),
    peek_addASN1, beq_self_eq_true, if_true,
    readElement_addASN1 tCtx0 ab _ (by decide) h5, read_addASN1 tCtx0 ab _ (by decide) h5,
    skipAny_addASN1 tSEQ (oidOr oidRsa ++ addNULL) _ (by decide) (by decide),
    read_addOctets_nil sig h4]

theorem addASN1_isEmpty (t : UInt8) (b : Bytes) : (addASN1 t b).isEmpty = false := by
  simp [addASN1]

theorem findMD_nil (f : Nat) (acc : Option Bytes) : Spec.findMD f [] acc = some acc := by
  cases f <;> rfl

/-- an attribute of another type leaves the accumulator unchanged -/
theorem findMD_other {f : Nat} (ty : List Nat) (v rest : Bytes) (acc : Option Bytes) (hf : 0 < f)
    (hty : oidArcsOk ty = true) (hne : (ty == Spec.oidMessageDigest) = false)
    (hlen : (attrSeq ty v).length < 2^32) :
    Spec.findMD f (attrSeq ty v ++ rest) acc = Spec.findMD (f - 1) rest acc := by
  unfold attrSeq at hlen
  have h1 : (oidOr ty ++ addASN1 tSET v).length < 2^32 := addASN1_body_lt hlen
  have h2 : (oidOr ty).length < 2^32 := by der_len h1
  have h3 : v.length < 2^32 := by der_len h1
  cases f with
  | zero => omega
  | succ f =>
    simp only [Spec.findMD, attrSeq, addASN1_append_isEmpty, read_addASN1 tSEQ _ rest (by decide) h1,
      readOID_oidOr ty _ hty h2, read_addASN1_nil tSET v (by decide) h3, hne]
    rfl

theorem findMD_md {f : Nat} (d rest : Bytes) (acc : Option Bytes) (hf : 0 < f)
    (hlen : (attrSeq oidMessageDigest (addOctets d)).length < 2^32) :
    Spec.findMD f (attrSeq oidMessageDigest (addOctets d) ++ rest) acc =
      Spec.findMD (f - 1) rest (some d) := by
  unfold attrSeq at hlen
  have h1 : (oidOr oidMessageDigest ++ addASN1 tSET (addOctets d)).length < 2^32 :=
    addASN1_body_lt hlen
  have h2 : (addOctets d).length < 2^32 := by
    have hh := h1; simp only [List.length_append, addASN1_length] at hh; omega
  have h3 : d.length < 2^32 := addASN1_body_lt h2
  cases f with
  | zero => omega
  | succ f =>
    simp only [Spec.findMD, attrSeq, addASN1_append_isEmpty, read_addASN1 tSEQ _ rest (by decide) h1,
      readOID_oidOr oidMessageDigest _ (by decide) (by decide),
      read_addASN1_nil tSET _ (by decide) h2,
      show (oidMessageDigest == Spec.oidMessageDigest) = true from by decide,
      read_addOctets_nil d h3]
    rfl

/-- three turns of the specification's messageDigest search over three concatenated elements -/
theorem findMD_three {e1 e2 e3 : Bytes} {g1 g2 g3 : Option Bytes → Option Bytes}
    (acc : Option Bytes) (f : Nat) (hf : 3 ≤ f)
    (h1 : ∀ f r acc, 0 < f → Spec.findMD f (e1 ++ r) acc = Spec.findMD (f - 1) r (g1 acc))
    (h2 : ∀ f r acc, 0 < f → Spec.findMD f (e2 ++ r) acc = Spec.findMD (f - 1) r (g2 acc))
    (h3 : ∀ f r acc, 0 < f → Spec.findMD f (e3 ++ r) acc = Spec.findMD (f - 1) r (g3 acc)) :
    Spec.findMD f (e1 ++ e2 ++ e3) acc = some (g3 (g2 (g1 acc))) := by
  have e : e1 ++ e2 ++ e3 = e1 ++ (e2 ++ (e3 ++ [])) := by simp
  rw [e, h1 _ _ _ (by omega), h2 _ _ _ (by omega), h3 _ _ _ (by omega), findMD_nil]

theorem findMD_signed (oid : List Nat) (time md : Bytes)
    (hlen : (signedAttrsBody oid time md).length < 2^32) :
    Spec.findMD (signedAttrsBody oid time md).length (signedAttrsBody oid time md) none =
      some (some md) := by
  have hf : 3 ≤ (signedAttrsBody oid time md).length := signedAttrsBody_length_ge oid time md
  generalize (signedAttrsBody oid time md).length = f at hf
  rw [signedAttrsBody_length] at hlen
  have h1 : (attrSeq oidContentType (oidOr oid)).length < 2^32 := by omega
  have h2 : (attrSeq oidSigningTime (addASN1 tUTC time)).length < 2^32 := by omega
  have h3 : (attrSeq oidMessageDigest (addOctets md)).length < 2^32 := by omega
  have p1 : ∀ f r acc, 0 < f → Spec.findMD f (attrSeq oidContentType (oidOr oid) ++ r) acc =
      Spec.findMD (f - 1) r (id acc) :=
    fun f r acc hf => findMD_other oidContentType _ r acc hf (by decide) (by decide) h1
  have p2 : ∀ f r acc, 0 < f → Spec.findMD f (attrSeq oidSigningTime (addASN1 tUTC time) ++ r) acc =
      Spec.findMD (f - 1) r (id acc) :=
    fun f r acc hf => findMD_other oidSigningTime _ r acc hf (by decide) (by decide) h2
  have p3 : ∀ f r acc, 0 < f → Spec.findMD f (attrSeq oidMessageDigest (addOctets md) ++ r) acc =
      Spec.findMD (f - 1) r ((fun _ => some md) acc) :=
    fun f r acc hf => findMD_md md r acc hf h3
  rcases signedAttrsBody_cases oid time md with h | h | h | h | h | h <;> rw [h]
  · exact findMD_three none f hf p1 p2 p3
  · exact findMD_three none f hf p1 p3 p2
  · exact findMD_three none f hf p2 p1 p3
  · exact findMD_three none f hf p2 p3 p1
  · exact findMD_three none f hf p3 p1 p2
  · exact findMD_three none f hf p3 p2 p1

theorem specSigners_one {f : Nat} {s : Bytes} {x : Spec.SpecSigner} (hf : 0 < f)
    (hs : s.isEmpty = false) (h : Spec.parseSpecSigner s = some (x, [])) :
    Spec.specSigners f s = some [x] := by
  cases f with
  | zero => omega
  | succ f =>
    simp only [Spec.specSigners, hs, h]
    cases f <;> rfl

/-- the RFC-style walk over what `SignPKCS7` wrote: the encapsulated content (if any) and the
    single SignerInfo -/
theorem parseSignedData_blob (oid : List Nat) (content certRaw ibody : Bytes)
    (serial : Nat) (ab sig : Bytes) (hok : oidArcsOk oid = true)
    (hlen : (signedBlob oid content certRaw (addASN1 tSEQ ibody) serial ab sig).length < 2^32) :
    Spec.parseSignedData (signedBlob oid content certRaw (addASN1 tSEQ ibody) serial ab sig) =
      some (if attached oid content then some content else none,
        [(⟨addASN1 tSEQ ibody, serial, some (addASN1 tCtx0 ab), ab, sig⟩ : Spec.SpecSigner)]) := by
  unfold signedBlob at hlen ⊢
  have h0 := addASN1_body_lt hlen
  have hsd0 : (addASN1 tSEQ (sdBody oid content (addASN1 tCtx0 certRaw ++
      addASN1 tSET (addASN1 tSEQ (signerBody (addASN1 tSEQ ibody) serial ab sig))))).length < 2^32 := by
    have hh := h0; unfold outerBody at hh; der_len hh
  have hsd1 := addASN1_body_lt hsd0
  have h1 : certRaw.length < 2^32 := by
    have hh := hsd1; unfold sdBody at hh; der_len hh
  have h2 : (addASN1 tSEQ (signerBody (addASN1 tSEQ ibody) serial ab sig)).length < 2^32 := by
    have hh := hsd1; unfold sdBody at hh; der_len hh
  have h3 := addASN1_body_lt h2
  have he : (eciBody oid content).length < 2^32 := by
    have hh := hsd1; unfold sdBody at hh; der_len hh
  have hps := parseSpecSigner_signer ibody serial ab sig [] h3
  rw [List.append_nil] at hps
  have hloop := specSigners_one (f := (addASN1 tSEQ (signerBody (addASN1 tSEQ ibody) serial ab sig)).length)
    (by have := addASN1_length_ge tSEQ (signerBody (addASN1 tSEQ ibody) serial ab sig); omega)
    (by simpa using addASN1_append_isEmpty tSEQ (signerBody (addASN1 tSEQ ibody) serial ab sig) []) hps
  have hpeek : peek tOID (outerBody (sdBody oid content (addASN1 tCtx0 certRaw ++
      addASN1 tSET (addASN1 tSEQ (signerBody (addASN1 tSEQ ibody) serial ab sig))))) = true := by
    unfold outerBody; rw [peek_oidOr _ _ _ (by decide)]; decide
  simp only [Spec.parseSignedData, Option.bind_eq_bind, Option.bind_some, Option.pure_def,
    read_addASN1_nil tSEQ _ (by decide) h0, hpeek, if_true]
  have hA : (algSha256).length < 2^32 := by decide
  have hoid : (oidOr oid).length < 2^32 := by
    have hh := he; unfold eciBody at hh; der_len hh
  simp only [outerBody, readOID_oidOr oidSignedData _ (by decide) (by decide),
    read_addASN1_nil tCtx0 _ (by decide) hsd0, read_addASN1_nil tSEQ _ (by decide) hsd1,
    Option.bind_some]
  simp only [sdBody, List.append_assoc, readBigInt_addUInt 1 _ (by decide), Option.bind_some,
    read_addASN1 tSET algSha256 _ (by decide) hA,
    read_addASN1 tSEQ (eciBody oid content) _ (by decide) he,
    peek_addASN1, skipAny_addASN1 tCtx0 certRaw _ (by decide) h1, beq_self_eq_true, if_true]
  unfold eciBody at he ⊢
  cases h : attached oid content with
  | true =>
    simp only [h, if_true] at he ⊢
    have hc1 : (addASN1 tSEQ content).length < 2^32 := by der_len he
    have hc2 := addASN1_body_lt hc1
    simp only [readOID_oidOr oid _ hok hoid, Option.bind_some, addASN1_isEmpty,
      Bool.false_eq_true, if_false, read_addASN1_nil tCtx0 _ (by decide) hc1, List.isEmpty_nil,
      Bool.not_true, readAny_addASN1_nil tSEQ content (by decide) hc2, peek_addASN1_nil,
      show (tSET == (161 : UInt8)) = false from by decide, read_addASN1_nil tSET _ (by decide) h2, hloop]
  | false =>
    simp only [h, Bool.false_eq_true, if_false, List.append_nil] at he ⊢
    simp only [readOID_oidOr_nil oid hok hoid, Option.bind_some, List.isEmpty_nil, if_true,
      Bool.false_eq_true, if_false, peek_addASN1_nil,
      show (tSET == (161 : UInt8)) = false from by decide, read_addASN1_nil tSET _ (by decide) h2, hloop]

theorem addASN1_retag (ab : Bytes) : (0x31 : UInt8) :: (addASN1 tCtx0 ab).drop 1 = addASN1 tSET ab := rfl

/-- the specification accepts `x.blob` for the certificate that signed it; `detached` is only
    consulted when nothing is encapsulated -/
theorem cmsVerify_blob (C : Crypto) (c : Cert) (x : SignInputs) (certsOk : Bytes → Bool)
    (h : x.WF certsOk) (hi : c.rawIssuer = x.issuerRaw) (hs : c.serial = (x.serial : Int))
    (hsig : C.rsaVerify c.pub (addASN1 tSET x.attrs) x.sig = true)
    (hmd : x.md = C.sha256 x.content) :
    Spec.cmsVerify C x.blob c (if attached x.oid x.content then none else some x.content) = true := by
  have hlen := blob_length_lt x certsOk h
  obtain ⟨ibody, hib⟩ := h.issuerSeq
  have hal : (signedAttrsBody x.oid x.time x.md).length < 2^32 := by
    have := signedAttrsBody_length_le x certsOk h
    unfold SignInputs.attrs at this; omega
  have hfind := findMD_signed x.oid x.time x.md hal
  unfold SignInputs.blob at hlen ⊢
  unfold SignInputs.attrs at hlen hsig ⊢
  rw [hib] at hlen hi ⊢
  have hcert : (addASN1 tSEQ ibody == c.rawIssuer && (x.serial : Int) == c.serial) = true := by
    simp [hi, hs]
  simp only [Spec.cmsVerify, parseSignedData_blob x.oid x.content x.certRaw ibody x.serial _ x.sig
    h.oidOk hlen, List.any_cons, List.any_nil, Bool.or_false, Spec.signerAccepts, hcert,
    Bool.true_and, addASN1_retag, hsig]
  cases attached x.oid x.content with
  | true => simp only [if_true, hfind]; simp [hmd]
  | false => simp only [Bool.false_eq_true, if_false, hfind]; simp [hmd]

/-! ### where the signed attributes sit in the output -/

theorem suffix_addASN1 {t : UInt8} {body X : Bytes} (h : ∃ p, body = p ++ X) :
    ∃ p, addASN1 t body = p ++ X := by
  obtain ⟨p, hp⟩ := h
  exact ⟨t :: encLen body.length ++ p, by simp [addASN1, hp]⟩

theorem suffix_append_left {a b X : Bytes} (h : ∃ p, b = p ++ X) : ∃ p, a ++ b = p ++ X := by
  obtain ⟨p, hp⟩ := h
  exact ⟨a ++ p, by simp [hp]⟩

/-- the output ends with the `[0]` element holding `ab`, the signature algorithm and the signature -/
theorem signedBlob_suffix (oid : List Nat) (content certRaw issuerRaw : Bytes) (serial : Nat)
    (ab sig : Bytes) :
    ∃ pre, signedBlob oid content certRaw issuerRaw serial ab sig =
      pre ++ (addASN1 tCtx0 ab ++ (addASN1 tSEQ (oidOr oidRsa ++ addNULL) ++ addOctets sig)) := by
  unfold signedBlob outerBody sdBody signerBody
  simp only [List.append_assoc]
  apply suffix_addASN1; apply suffix_append_left; apply suffix_addASN1; apply suffix_addASN1
  apply suffix_append_left; apply suffix_append_left; apply suffix_append_left
  apply suffix_append_left; apply suffix_addASN1; apply suffix_addASN1
  apply suffix_append_left; apply suffix_append_left; apply suffix_append_left
  exact ⟨[], rfl⟩

/-! ### concrete inputs for the non-vacuity examples of C05 -/

/-- SPC_INDIRECT_DATA content type, 3 content bytes, a one-element issuer, UTCTime "260929203000Z" -/
def SignInputs.sample : SignInputs :=
  { oid := [1, 3, 6, 1, 4, 1, 311, 2, 1, 4], content := [1, 2, 3], certRaw := [0x30, 0],
    issuerRaw := [0x30, 0], serial := 0x1234,
    time := [0x32, 0x36, 0x30, 0x39, 0x32, 0x39, 0x32, 0x30, 0x33, 0x30, 0x30, 0x30, 0x5a],
    md := [9, 9], sig := [7] }

/-- detached variant: content type id-data -/
def SignInputs.sampleData : SignInputs := { SignInputs.sample with oid := oidData }

end GoUefi.Impl
