import GoUefi.Model.Boot
import GoUefi.Lemmas.Utf16
import GoUefi.Lemmas.Guid
/- helper lemmas for C18: boot-order names, load options / device-path nodes, text forms -/
namespace GoUefi

/-- upper-case hexadecimal digit characters -/
def isUpperHex (c : Char) : Prop := ('0' ≤ c ∧ c ≤ '9') ∨ ('A' ≤ c ∧ c ≤ 'F')

instance isUpperHex.dec (c : Char) : Decidable (isUpperHex c) := by unfold isUpperHex; exact inferInstance

theorem hexDigitU_facts : ∀ k : Fin 16, isUpperHex (hexDigitU k.val) := by decide

theorem hexDigitU_inj_fin : ∀ a b : Fin 16, hexDigitU a.val = hexDigitU b.val → a = b := by decide

theorem hexDigitU_upper (k : Nat) (h : k < 16) : isUpperHex (hexDigitU k) := hexDigitU_facts ⟨k, h⟩

theorem hexDigitU_inj (a b : Nat) (ha : a < 16) (hb : b < 16) (h : hexDigitU a = hexDigitU b) : a = b :=
  congrArg Fin.val (hexDigitU_inj_fin ⟨a, ha⟩ ⟨b, hb⟩ h)

theorem hex4U_inj (n m : Nat) (hn : n < 65536) (hm : m < 65536) (h : hex4U n = hex4U m) : n = m := by
  simp only [hex4U, List.cons.injEq, and_true] at h
  obtain ⟨h1, h2, h3, h4⟩ := h
  have e1 := hexDigitU_inj _ _ (by omega) (by omega) h1
  have e2 := hexDigitU_inj _ _ (by omega) (by omega) h2
  have e3 := hexDigitU_inj _ _ (by omega) (by omega) h3
  have e4 := hexDigitU_inj _ _ (by omega) (by omega) h4
  omega

theorem bootOrder_le16 (n : Nat) (h : n < 65536) (r : Bytes) :
    Impl.bootOrder (le16 n ++ r) = Spec.fwBootName n :: Impl.bootOrder r := by
  simp only [le16, List.cons_append, List.nil_append, Impl.bootOrder, Spec.fwBootName]
  rw [toUInt8_toNat_of_lt _ (by omega), toUInt8_toNat_of_lt _ (by omega)]
  have : n % 256 + 256 * (n / 256 % 256) = n := by omega
  rw [this]

theorem bootOrder_flatMap (ns : List Nat) (h : ∀ n ∈ ns, n < 65536) :
    Impl.bootOrder (ns.flatMap le16) = ns.map Spec.fwBootName := by
  induction ns with
  | nil => simp [Impl.bootOrder]
  | cons n ns ih =>
    rw [List.flatMap_cons, bootOrder_le16 n (h n (by simp)), ih (fun x hx => h x (by simp [hx]))]
    rfl

/-! ### every BootOrder value, odd lengths included (F35 repair) -/

/-- the decoder's names are the firmware names of the complete entries, whatever the length -/
theorem bootOrder_entries : ∀ bs : Bytes, Impl.bootOrder bs = (Spec.entriesLE bs).map Spec.fwBootName
  | [] => rfl
  | [_] => rfl
  | a :: b :: r => by
    rw [Impl.bootOrder, Spec.entriesLE, List.map_cons, bootOrder_entries r]; rfl

theorem entriesLE_length : ∀ bs : Bytes, (Spec.entriesLE bs).length = bs.length / 2
  | [] => rfl
  | [_] => by simp [Spec.entriesLE]
  | _ :: _ :: r => by
    rw [Spec.entriesLE, List.length_cons, entriesLE_length r]
    simp only [List.length_cons]; omega

theorem entriesLE_lt : ∀ (bs : Bytes), ∀ n ∈ Spec.entriesLE bs, n < 65536
  | [], n, h => by simp [Spec.entriesLE] at h
  | [_], n, h => by simp [Spec.entriesLE] at h
  | a :: b :: r, n, h => by
    have ha := UInt8.toNat_lt a
    have hb := UInt8.toNat_lt b
    simp only [Spec.entriesLE, List.mem_cons] at h
    rcases h with rfl | h
    · omega
    · exact entriesLE_lt r n h

/-- the `k`-th entry is the little-endian 16-bit value at byte offset `2 * k` -/
theorem entriesLE_get : ∀ (bs : Bytes) (k : Nat), k < bs.length / 2 →
    (Spec.entriesLE bs)[k]? = some (le16At bs (2 * k))
  | [], k, h => by simp at h
  | [_], k, h => by simp only [List.length_cons, List.length_nil] at h; omega
  | a :: b :: r, 0, _ => rfl
  | a :: b :: r, k + 1, h => by
    have h' : k < r.length / 2 := by simp only [List.length_cons] at h; omega
    have e1 : 2 * (k + 1) = (2 * k) + 1 + 1 := by omega
    rw [Spec.entriesLE, List.getElem?_cons_succ, entriesLE_get r k h', e1]
    simp only [le16At, byteAt, List.getElem?_cons_succ]

/-- the entries, position by position: `⌊len/2⌋` little-endian 16-bit values -/
theorem entriesLE_eq_range (bs : Bytes) :
    Spec.entriesLE bs = (List.range (bs.length / 2)).map (fun k => le16At bs (2 * k)) := by
  apply List.ext_getElem?
  intro k
  by_cases hk : k < bs.length / 2
  · rw [entriesLE_get bs k hk, List.getElem?_map, List.getElem?_range hk]; rfl
  · rw [List.getElem?_eq_none (by rw [entriesLE_length]; omega),
      List.getElem?_eq_none (by rw [List.length_map, List.length_range]; omega)]

/-- the entries of an encoded list of 16-bit numbers are these numbers -/
theorem entriesLE_flatMap (ns : List Nat) (h : ∀ n ∈ ns, n < 65536) :
    Spec.entriesLE (ns.flatMap le16) = ns := by
  induction ns with
  | nil => rfl
  | cons n ns ih =>
    have hn := h n (by simp)
    rw [List.flatMap_cons]
    simp only [le16, List.cons_append, List.nil_append, Spec.entriesLE]
    rw [toUInt8_toNat_of_lt _ (by omega), toUInt8_toNat_of_lt _ (by omega), ih (fun x hx => h x (by simp [hx]))]
    have : n % 256 + 256 * (n / 256 % 256) = n := by omega
    rw [this]

/-- a single byte behind complete entries is no entry -/
theorem entriesLE_append_single : ∀ (xs : Bytes) (a : UInt8), xs.length % 2 = 0 →
    Spec.entriesLE (xs ++ [a]) = Spec.entriesLE xs
  | [], _, _ => rfl
  | [_], _, h => by simp at h
  | x :: y :: r, a, h => by
    have h' : r.length % 2 = 0 := by simp only [List.length_cons] at h; omega
    rw [List.cons_append, List.cons_append, Spec.entriesLE, entriesLE_append_single r a h', Spec.entriesLE]

/-- a single byte behind complete entries adds no name -/
theorem bootOrder_append_single (xs : Bytes) (a : UInt8) (h : xs.length % 2 = 0) :
    Impl.bootOrder (xs ++ [a]) = Impl.bootOrder xs := by
  rw [bootOrder_entries, bootOrder_entries, entriesLE_append_single xs a h]

/-- a 4-byte device-path node header with the given type and subtype -/
def hdrIs (h : Bytes) (ty sub : UInt8) : Prop := h.length = 4 ∧ h.take 2 = [ty, sub]

instance hdrIs.dec (h : Bytes) (ty sub : UInt8) : Decidable (hdrIs h ty sub) := by unfold hdrIs; exact inferInstance

theorem hdrIs_shape {h : Bytes} {ty sub : UInt8} (hh : hdrIs h ty sub) : ∃ c d, h = [ty, sub, c, d] := by
  obtain ⟨hl, ht⟩ := hh
  match h, hl with
  | [a, b, c, d], _ =>
    simp only [List.take_succ_cons, List.take_zero, List.cons.injEq, and_true] at ht
    obtain ⟨rfl, rfl⟩ := ht
    exact ⟨c, d, rfl⟩

theorem readN_exact {n : Nat} (x rest : Bytes) (h : x.length = n) :
    readN n (x ++ rest) = .ok (x, rest) := by
  subst h; exact readN_append x rest

namespace Impl

def Node.WF : Node → Prop
  | .pci h fn dev => hdrIs h 1 1 ∧ fn < 256 ∧ dev < 256
  | .acpi h hid uid => hdrIs h 2 1 ∧ hid.length = 4 ∧ uid.length = 4
  | .hd h part start size sig fmt st =>
    hdrIs h 4 1 ∧ part < 2^32 ∧ start.length = 8 ∧ size.length = 8 ∧ sig.length = 16 ∧ fmt < 256 ∧ st < 256
  | .file h p => hdrIs h 4 4 ∧ ∀ c ∈ p, c ≠ '\x00'
  | .fwfile h name => hdrIs h 4 6 ∧ name.length = 16
  | .usb h port iface => hdrIs h 3 5 ∧ port < 256 ∧ iface < 256
  | .vendor _ _ => False
  | .generic _ => False

instance Node.decWF : (n : Node) → Decidable n.WF
  | .pci .. => by unfold Node.WF; exact inferInstance
  | .acpi .. => by unfold Node.WF; exact inferInstance
  | .hd .. => by unfold Node.WF; exact inferInstance
  | .file .. => by unfold Node.WF; exact inferInstance
  | .fwfile .. => by unfold Node.WF; exact inferInstance
  | .usb .. => by unfold Node.WF; exact inferInstance
  | .vendor _ _ => by unfold Node.WF; exact inferInstance
  | .generic _ => by unfold Node.WF; exact inferInstance

def LoadOption.WF (lo : LoadOption) : Prop :=
  lo.attrs < 2^32 ∧ lo.pathLen < 2^16 ∧ (∀ c ∈ lo.desc, c ≠ '\x00') ∧ ∀ n ∈ lo.nodes, n.WF

instance LoadOption.decWF (lo : LoadOption) : Decidable lo.WF := by unfold LoadOption.WF; exact inferInstance

theorem parseNode_end (rest : Bytes) : parseNode (Spec.endNode ++ rest) = .ok none := by
  unfold parseNode
  rw [readN_exact (n := 4) Spec.endNode rest rfl]
  simp [byteAt, Spec.endNode]

theorem parseNode_pci (c d : UInt8) (fn dev : Nat) (hf : fn < 256) (hd : dev < 256) (rest : Bytes) :
    parseNode ([1, 1, c, d] ++ [fn.toUInt8, dev.toUInt8] ++ rest) =
      .ok (some (.pci [1, 1, c, d] fn dev, rest)) := by
  unfold parseNode
  rw [List.append_assoc, readN_exact (n := 4) [1, 1, c, d] _ rfl]
  simp only [byteAt]
  rw [readN_exact (n := 2) [fn.toUInt8, dev.toUInt8] rest rfl]
  simp [toUInt8_toNat_of_lt _ hf, toUInt8_toNat_of_lt _ hd]


theorem byteAt_append_right (a b : Bytes) (k : Nat) (h : a.length ≤ k) :
    byteAt (a ++ b) k = byteAt b (k - a.length) := by
  simp [byteAt, List.getElem?_append_right h]

theorem readNullString_marshal (s : List Char) (h : ∀ c ∈ s, c ≠ '\x00') (tail : Bytes) :
    readNullString (marshalUtf16 s ++ tail) = (marshalUtf16 s, tail) := by
  have : marshalUtf16 s ++ tail = unitsToBytes (utf16enc s) ++ ([0, 0] ++ tail) := by
    simp [marshalUtf16]
  rw [this, readNullString_units _ (utf16enc_pos s h) (utf16enc_lt s)]
  rfl

theorem parseNode_acpi (c d : UInt8) (hid uid : Bytes) (hh : hid.length = 4) (hu : uid.length = 4)
    (rest : Bytes) :
    parseNode ([2, 1, c, d] ++ hid ++ uid ++ rest) = .ok (some (.acpi [2, 1, c, d] hid uid, rest)) := by
  unfold parseNode
  rw [List.append_assoc, List.append_assoc, readN_exact (n := 4) [2, 1, c, d] _ rfl]
  simp only [byteAt]
  rw [← List.append_assoc, readN_exact (n := 8) (hid ++ uid) rest (by simp [hh, hu])]
  simp [List.take_left' hh, List.drop_left' hh]

theorem parseNode_hd (c d : UInt8) (part : Nat) (start size sig : Bytes) (fmt st : Nat)
    (hp : part < 2^32) (hs : start.length = 8) (hz : size.length = 8) (hg : sig.length = 16)
    (hf : fmt < 256) (ht : st < 256) (rest : Bytes) :
    parseNode ([4, 1, c, d] ++ le32 part ++ start ++ size ++ sig ++ [fmt.toUInt8, st.toUInt8] ++ rest) =
      .ok (some (.hd [4, 1, c, d] part start size sig fmt st, rest)) := by
  have hx : (le32 part ++ (start ++ (size ++ (sig ++ [fmt.toUInt8, st.toUInt8])))).length = 38 := by
    simp [hs, hz, hg]
  have e1 : (le32 part ++ (start ++ (size ++ (sig ++ [fmt.toUInt8, st.toUInt8])))).take 4 = le32 part :=
    List.take_left' rfl
  have e2 : ((le32 part ++ (start ++ (size ++ (sig ++ [fmt.toUInt8, st.toUInt8])))).drop 4).take 8 = start := by
    rw [List.drop_left' (i := 4) rfl]; exact List.take_left' hs
  have e3 : ((le32 part ++ (start ++ (size ++ (sig ++ [fmt.toUInt8, st.toUInt8])))).drop 12).take 8 = size := by
    rw [← List.append_assoc, List.drop_left' (by simp [hs])]; exact List.take_left' hz
  have e4 : ((le32 part ++ (start ++ (size ++ (sig ++ [fmt.toUInt8, st.toUInt8])))).drop 20).take 16 = sig := by
    rw [← List.append_assoc, ← List.append_assoc, List.drop_left' (by simp [hs, hz])]
    exact List.take_left' hg
  have e5 : byteAt (le32 part ++ (start ++ (size ++ (sig ++ [fmt.toUInt8, st.toUInt8])))) 36 = fmt := by
    rw [← List.append_assoc, ← List.append_assoc, ← List.append_assoc,
      byteAt_append_right _ _ _ (by simp [hs, hz, hg])]
    simp [hs, hz, hg, byteAt, toUInt8_toNat_of_lt _ hf]
  have e6 : byteAt (le32 part ++ (start ++ (size ++ (sig ++ [fmt.toUInt8, st.toUInt8])))) 37 = st := by
    rw [← List.append_assoc, ← List.append_assoc, ← List.append_assoc,
      byteAt_append_right _ _ _ (by simp [hs, hz, hg])]
    simp [hs, hz, hg, byteAt, toUInt8_toNat_of_lt _ ht]
  have hin : [4, 1, c, d] ++ le32 part ++ start ++ size ++ sig ++ [fmt.toUInt8, st.toUInt8] ++ rest =
      [4, 1, c, d] ++ ((le32 part ++ (start ++ (size ++ (sig ++ [fmt.toUInt8, st.toUInt8])))) ++ rest) := by
    simp only [List.append_assoc]
  rw [hin]
  unfold parseNode
  rw [readN_exact (n := 4) [4, 1, c, d] _ rfl]
  have b0 : byteAt [4, 1, c, d] 0 = 4 := rfl
  have b1 : byteAt [4, 1, c, d] 1 = 1 := rfl
  simp only [b0, b1, ↓reduceIte]
  rw [readN_exact (n := 38) _ rest hx]
  simp only [e1, e2, e3, e4, e5, e6, rd32_le32 _ hp]
  simp

theorem parseNode_file (c d : UInt8) (p : List Char) (hp : ∀ x ∈ p, x ≠ '\x00') (rest : Bytes) :
    parseNode ([4, 4, c, d] ++ marshalUtf16 p ++ rest) = .ok (some (.file [4, 4, c, d] p, rest)) := by
  unfold parseNode
  rw [List.append_assoc, readN_exact (n := 4) [4, 4, c, d] _ rfl]
  simp only [byteAt]
  rw [readNullString_marshal p hp rest]
  simp [parseUtf16_marshal p hp]

theorem parseNode_fwfile (c d : UInt8) (name : Bytes) (hn : name.length = 16) (rest : Bytes) :
    parseNode ([4, 6, c, d] ++ name ++ rest) = .ok (some (.fwfile [4, 6, c, d] name, rest)) := by
  unfold parseNode
  rw [List.append_assoc, readN_exact (n := 4) [4, 6, c, d] _ rfl]
  simp only [byteAt]
  rw [readN_exact (n := 16) name rest hn]
  simp

theorem parseNode_usb (c d : UInt8) (port iface : Nat) (hf : port < 256) (hd : iface < 256) (rest : Bytes) :
    parseNode ([3, 5, c, d] ++ [port.toUInt8, iface.toUInt8] ++ rest) =
      .ok (some (.usb [3, 5, c, d] port iface, rest)) := by
  unfold parseNode
  rw [List.append_assoc, readN_exact (n := 4) [3, 5, c, d] _ rfl]
  simp only [byteAt]
  rw [readN_exact (n := 2) [port.toUInt8, iface.toUInt8] rest rfl]
  simp [toUInt8_toNat_of_lt _ hf, toUInt8_toNat_of_lt _ hd]

/-- per-node round trip: the reader recovers a well-formed node from its encoding and leaves the
    bytes that follow untouched -/
theorem parseNode_encNode (n : Node) (h : n.WF) (rest : Bytes) :
    parseNode (Spec.encNode n ++ rest) = .ok (some (n, rest)) := by
  cases n with
  | pci hdr fn dev =>
    obtain ⟨hh, hf, hd⟩ := h
    obtain ⟨c, d, rfl⟩ := hdrIs_shape hh
    exact parseNode_pci c d fn dev hf hd rest
  | acpi hdr hid uid =>
    obtain ⟨hh, h1, h2⟩ := h
    obtain ⟨c, d, rfl⟩ := hdrIs_shape hh
    exact parseNode_acpi c d hid uid h1 h2 rest
  | hd hdr part start size sig fmt st =>
    obtain ⟨hh, h1, h2, h3, h4, h5, h6⟩ := h
    obtain ⟨c, d, rfl⟩ := hdrIs_shape hh
    exact parseNode_hd c d part start size sig fmt st h1 h2 h3 h4 h5 h6 rest
  | file hdr p =>
    obtain ⟨hh, h1⟩ := h
    obtain ⟨c, d, rfl⟩ := hdrIs_shape hh
    exact parseNode_file c d p h1 rest
  | fwfile hdr name =>
    obtain ⟨hh, h1⟩ := h
    obtain ⟨c, d, rfl⟩ := hdrIs_shape hh
    exact parseNode_fwfile c d name h1 rest
  | usb hdr port iface =>
    obtain ⟨hh, h1, h2⟩ := h
    obtain ⟨c, d, rfl⟩ := hdrIs_shape hh
    exact parseNode_usb c d port iface h1 h2 rest
  | vendor hdr g => exact absurd h (by simp [Node.WF])
  | generic hdr => exact absurd h (by simp [Node.WF])

/-- every encoded well-formed node is at least its 4 header bytes long -/
theorem encNode_length_ge (n : Node) (h : n.WF) : 4 ≤ (Spec.encNode n).length := by
  cases n with
  | vendor hdr g => exact absurd h (by simp [Node.WF])
  | generic hdr => exact absurd h (by simp [Node.WF])
  | pci hdr fn dev => have := h.1.1; simp [Spec.encNode]; omega
  | acpi hdr hid uid => have := h.1.1; simp [Spec.encNode]; omega
  | hd hdr part start size sig fmt st => have := h.1.1; simp [Spec.encNode]; omega
  | file hdr p => have := h.1.1; simp [Spec.encNode]; omega
  | fwfile hdr name => have := h.1.1; simp [Spec.encNode]; omega
  | usb hdr port iface => have := h.1.1; simp [Spec.encNode]; omega

theorem encNodes_length_ge (ns : List Node) (h : ∀ n ∈ ns, n.WF) :
    4 * ns.length ≤ ((ns.map Spec.encNode).flatten).length := by
  induction ns with
  | nil => simp
  | cons n ns ih =>
    have h1 := encNode_length_ge n (h n (by simp))
    have h2 := ih (fun x hx => h x (by simp [hx]))
    simp only [List.map_cons, List.flatten_cons, List.length_append, List.length_cons]
    omega

/-- the device-path loop returns the encoded nodes and stops at the end node, given enough fuel -/
theorem parseDevicePath_enc (ns : List Node) (h : ∀ n ∈ ns, n.WF) (trailing : Bytes) (fuel : Nat)
    (hf : ns.length < fuel) :
    parseDevicePath fuel ((ns.map Spec.encNode).flatten ++ Spec.endNode ++ trailing) = .ok ns := by
  induction ns generalizing fuel with
  | nil =>
    cases fuel with
    | zero => omega
    | succ f =>
      simp only [List.map_nil, List.flatten_nil, List.nil_append, parseDevicePath]
      rw [parseNode_end]
  | cons n ns ih =>
    cases fuel with
    | zero => omega
    | succ f =>
      simp only [List.map_cons, List.flatten_cons, List.append_assoc, parseDevicePath]
      rw [parseNode_encNode n (h n (by simp))]
      simp only
      have := ih (fun x hx => h x (by simp [hx])) f (by simp only [List.length_cons] at hf; omega)
      rw [List.append_assoc] at this
      rw [this]

theorem loadOptionUnmarshal_enc (lo : LoadOption) (h : lo.WF) (trailing : Bytes) :
    loadOptionUnmarshal (Spec.encodeLoadOption lo ++ trailing) = .ok lo := by
  obtain ⟨ha, hl, hd, hn⟩ := h
  have hin : Spec.encodeLoadOption lo ++ trailing =
      le32 lo.attrs ++ (le16 lo.pathLen ++ (marshalUtf16 lo.desc ++
        ((lo.nodes.map Spec.encNode).flatten ++ Spec.endNode ++ trailing))) := by
    simp only [Spec.encodeLoadOption, List.append_assoc]
  rw [hin]
  unfold loadOptionUnmarshal
  rw [readN_exact (n := 4) (le32 lo.attrs) _ rfl]
  simp only
  rw [readN_exact (n := 2) (le16 lo.pathLen) _ rfl]
  simp only
  rw [readNullString_marshal lo.desc hd]
  simp only
  rw [parseUtf16_marshal lo.desc hd]
  simp only
  have hlen := encNodes_length_ge lo.nodes hn
  rw [parseDevicePath_enc lo.nodes hn trailing _ (by simp only [List.length_append]; omega)]
  simp only [rd32_le32 _ ha, rd16_le16 _ hl]

end Impl

/-! ### text forms -/

theorem natHex_length_le (n : Nat) (h : n < 2^32) : (Impl.natHex n).length ≤ 8 := by
  unfold Impl.natHex
  rw [Nat.length_toDigits_le_iff (by omega) (by omega)]
  exact h

theorem pad8Hex_length (n : Nat) (h : n < 2^32) : (Impl.pad8Hex n).length = 8 := by
  have := natHex_length_le n h
  simp only [Impl.pad8Hex, List.length_append, List.length_replicate]
  omega

theorem toDigits16_lower (n : Nat) : ∀ c ∈ Nat.toDigits 16 n, isLowerHex c = true := by
  induction n using Nat.strongRecOn with
  | _ n ih =>
    rw [Nat.toDigits_eq_if (by omega)]
    split
    · rename_i hlt
      intro c hc
      simp only [List.mem_singleton] at hc
      subst hc
      exact (hexDigit_spec n hlt).2.2.1
    · rename_i hge
      intro c hc
      simp only [List.mem_append, List.mem_singleton] at hc
      rcases hc with hc | rfl
      · exact ih (n / 16) (by omega) c hc
      · exact (hexDigit_spec (n % 16) (by omega)).2.2.1

theorem pad8Hex_lower (n : Nat) : ∀ c ∈ Impl.pad8Hex n, isLowerHex c = true := by
  intro c hc
  simp only [Impl.pad8Hex, Impl.natHex, List.mem_append, List.mem_replicate] at hc
  rcases hc with ⟨_, rfl⟩ | hc
  · decide
  · exact toDigits16_lower n c hc

theorem guidOfWire_wf (sig : Bytes) (h : sig.length = 16) : (guidOfWire sig).WF :=
  ⟨rd32_lt _, rd16_lt _, rd16_lt _, by simp [guidOfWire]; omega⟩

theorem guidWire_guidOfWire (bs : Bytes) (h : bs.length = 16) : guidWire (guidOfWire bs) = bs := by
  simp only [guidOfWire, guidWire]
  rw [le32_rd32 _ (by simp; omega), le16_rd16 _ (by simp; omega), le16_rd16 _ (by simp; omega)]
  rw [List.take_of_length_le (l := bs.drop 8) (by simp; omega)]
  have : bs.drop 6 = (bs.drop 6).take 2 ++ bs.drop 8 := by
    have := (List.take_append_drop 2 (bs.drop 6)).symm
    simpa [List.drop_drop] using this
  have h2 : bs.drop 4 = (bs.drop 4).take 2 ++ bs.drop 6 := by
    have := (List.take_append_drop 2 (bs.drop 4)).symm
    simpa [List.drop_drop] using this
  rw [List.append_assoc, List.append_assoc, ← this, ← h2, List.take_append_drop]

theorem hdText_gpt (part : Nat) (start size sig : Bytes) :
    Impl.hdText part start size sig 2 =
      "HD(".toList ++ Nat.toDigits 10 part ++ ",GPT,".toList ++ (guidOfWire sig).format ++
        ",0x".toList ++ Impl.natHex (rd64 start) ++ ",0x".toList ++ Impl.natHex (rd64 size) ++ [')'] := by
  simp [Impl.hdText]

theorem hdText_mbr (part : Nat) (start size sig : Bytes) :
    Impl.hdText part start size sig 1 =
      "HD(".toList ++ Nat.toDigits 10 part ++ ",MBR,0x".toList ++ Impl.pad8Hex (rd32 (sig.take 4)) ++
        ",0x".toList ++ Impl.natHex (rd64 start) ++ ",0x".toList ++ Impl.natHex (rd64 size) ++ [')'] := by
  simp [Impl.hdText]

end GoUefi
