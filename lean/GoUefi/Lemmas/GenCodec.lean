import GoUefi.Gen
import GoUefi.Lemmas.Bytes
import GoUefi.Lemmas.Guid
/-!
  Bridge lemmas between the support definitions of the generated file (`GoUefi/GenPrelude.lean`:
  `readBytes`, `decLE16/32`, `decBE16/32`, `encLE16/32`, `encBE16/32`, …) and the hand-written base
  (`GoUefi/Base.lean`: `readN`, `rd16/32`, `rdBe16/32`, `le16/32`, `be16/32`).
  Used by `Properties/C10g.lean` and `Properties/C17g.lean`.
-/
namespace GoUefi.GenCodec
open GoUefi GoUefi.Gen

/-! ### `readBytes` vs `readN` -/

theorem readBytes_of_readN_ok {n : Nat} {f x r : List UInt8} (h : readN n f = .ok (x, r)) :
    readBytes n f = (x, r, none) := by
  unfold readN at h
  unfold readBytes
  split at h
  · rename_i h0
    simp only [Except.ok.injEq, Prod.mk.injEq] at h
    rw [if_pos h0, ← h.1, ← h.2]
  · rename_i h0
    split at h
    · simp at h
    · rename_i h1
      split at h
      · simp at h
      · rename_i h2
        simp only [Except.ok.injEq, Prod.mk.injEq] at h
        rw [if_neg h0, if_neg h1, if_neg h2, ← h.1, ← h.2]

theorem readBytes_of_readN_err {n : Nat} {f : List UInt8} {e : RErr} (h : readN n f = .error e) :
    ∃ s, readBytes n f = ([], [], some s) := by
  unfold readN at h
  unfold readBytes
  split at h
  · simp at h
  · rename_i h0
    split at h
    · rename_i h1
      exact ⟨"io.EOF", by rw [if_neg h0, if_pos h1]⟩
    · rename_i h1
      split at h
      · rename_i h2
        exact ⟨"io.ErrUnexpectedEOF", by rw [if_neg h0, if_neg h1, if_pos h2]⟩
      · simp at h

/-- a read of at least one byte from a reader that holds fewer: an error (EOF / UnexpectedEOF) -/
theorem readBytes_short {n : Nat} {f : List UInt8} (h : f.length < n) :
    ∃ s, readBytes n f = ([], [], some s) := by
  unfold readBytes
  rw [if_neg (by omega)]
  by_cases h1 : f = []
  · exact ⟨_, by rw [if_pos h1]⟩
  · exact ⟨_, by rw [if_neg h1, if_pos h]⟩

theorem readBytes_ge {n : Nat} {f : List UInt8} (h : n ≤ f.length) (hn : 0 < n) :
    readBytes n f = (f.take n, f.drop n, none) := by
  unfold readBytes
  have h1 : f ≠ [] := by intro e; subst e; simp at h; omega
  rw [if_neg (by omega), if_neg h1, if_neg (by omega)]

/-- reading exactly what is left (also when nothing is left: `readBytes 0 _` succeeds) -/
theorem readBytes_all (f : List UInt8) : readBytes f.length f = (f, [], none) := by
  unfold readBytes
  by_cases h : f.length = 0
  · have : f = [] := List.eq_nil_of_length_eq_zero h
    subst this; rfl
  · have h1 : f ≠ [] := by intro e; subst e; simp at h
    rw [if_neg h, if_neg h1, if_neg (by omega), List.take_length, List.drop_length]

/-! ### integers -/

theorem encLE32_eq (v : UInt32) : encLE32 v = le32 v.toNat := rfl
theorem encLE16_eq (v : UInt16) : encLE16 v = le16 v.toNat := rfl
theorem encBE32_eq (v : UInt32) : encBE32 v = be32 v.toNat := rfl
theorem encBE16_eq (v : UInt16) : encBE16 v = be16 v.toNat := rfl

theorem decLE32_toNat (b : List UInt8) (h : b.length = 4) : (decLE32 b).toNat = rd32 b := by
  match b, h with
  | [a, b, c, d], _ =>
    have ha := a.toNat_lt; have hb := b.toNat_lt; have hc := c.toNat_lt; have hd := d.toNat_lt
    simp only [decLE32, rd32, List.getD_cons_zero, List.getD_cons_succ]
    rw [UInt32.toNat_ofNat_of_lt' (by simp only [UInt32.size]; omega)]

theorem decLE16_toNat (b : List UInt8) (h : b.length = 2) : (decLE16 b).toNat = rd16 b := by
  match b, h with
  | [a, b], _ =>
    have ha := a.toNat_lt; have hb := b.toNat_lt
    simp only [decLE16, rd16, List.getD_cons_zero, List.getD_cons_succ]
    rw [UInt16.toNat_ofNat_of_lt' (by simp only [UInt16.size]; omega)]

theorem decBE32_toNat (b : List UInt8) (h : b.length = 4) : (decBE32 b).toNat = rdBe32 b := by
  match b, h with
  | [a, b, c, d], _ =>
    have ha := a.toNat_lt; have hb := b.toNat_lt; have hc := c.toNat_lt; have hd := d.toNat_lt
    simp only [decBE32, rdBe32, List.getD_cons_zero, List.getD_cons_succ]
    rw [UInt32.toNat_ofNat_of_lt' (by simp only [UInt32.size]; omega)]

theorem decBE16_toNat (b : List UInt8) (h : b.length = 2) : (decBE16 b).toNat = rdBe16 b := by
  match b, h with
  | [a, b], _ =>
    have ha := a.toNat_lt; have hb := b.toNat_lt
    simp only [decBE16, rdBe16, List.getD_cons_zero, List.getD_cons_succ]
    rw [UInt16.toNat_ofNat_of_lt' (by simp only [UInt16.size]; omega)]

theorem encLE32_decLE32 (b : List UInt8) (h : b.length = 4) : encLE32 (decLE32 b) = b := by
  rw [encLE32_eq, decLE32_toNat b h, le32_rd32 b h]
theorem encLE16_decLE16 (b : List UInt8) (h : b.length = 2) : encLE16 (decLE16 b) = b := by
  rw [encLE16_eq, decLE16_toNat b h, le16_rd16 b h]
theorem encBE32_decBE32 (b : List UInt8) (h : b.length = 4) : encBE32 (decBE32 b) = b := by
  rw [encBE32_eq, decBE32_toNat b h, be32_rdBe32 b h]
theorem encBE16_decBE16 (b : List UInt8) (h : b.length = 2) : encBE16 (decBE16 b) = b := by
  rw [encBE16_eq, decBE16_toNat b h, be16_rdBe16 b h]
theorem encLEi16_decLEi16 (b : List UInt8) (h : b.length = 2) : encLEi16 (decLEi16 b) = b := by
  unfold encLEi16 decLEi16
  rw [UInt16.toUInt16_toInt16, encLE16_decLE16 b h]

theorem decLE32_encLE32 (v : UInt32) : decLE32 (encLE32 v) = v := by
  apply UInt32.toNat_inj.mp
  rw [decLE32_toNat _ rfl, encLE32_eq, rd32_le32 _ v.toNat_lt]
theorem decLE16_encLE16 (v : UInt16) : decLE16 (encLE16 v) = v := by
  apply UInt16.toNat_inj.mp
  rw [decLE16_toNat _ rfl, encLE16_eq, rd16_le16 _ v.toNat_lt]
theorem decBE32_encBE32 (v : UInt32) : decBE32 (encBE32 v) = v := by
  apply UInt32.toNat_inj.mp
  rw [decBE32_toNat _ rfl, encBE32_eq, rdBe32_be32 _ v.toNat_lt]
theorem decBE16_encBE16 (v : UInt16) : decBE16 (encBE16 v) = v := by
  apply UInt16.toNat_inj.mp
  rw [decBE16_toNat _ rfl, encBE16_eq, rdBe16_be16 _ v.toNat_lt]

theorem encU8_decU8 (b : List UInt8) (h : b.length = 1) : encU8 (decU8 b) = b := by
  match b, h with
  | [a], _ => rfl

/-! ### cutting a 16-byte string into 4 + 2 + 2 + 8 -/

theorem cut16 (b : List UInt8) :
    b.take 4 ++ (b.drop 4).take 2 ++ (b.drop 6).take 2 ++ b.drop 8 = b := by
  have h6 : b.drop 6 = (b.drop 6).take 2 ++ b.drop 8 := by
    have := (List.take_append_drop 2 (b.drop 6)).symm
    simpa [List.drop_drop] using this
  have h4 : b.drop 4 = (b.drop 4).take 2 ++ b.drop 6 := by
    have := (List.take_append_drop 2 (b.drop 4)).symm
    simpa [List.drop_drop] using this
  rw [List.append_assoc, List.append_assoc, ← h6, ← h4, List.take_append_drop]

/-! ### the GUID struct codecs -/

/-- `binary.Write(LE)` of a GUID value is the model's wire form -/
theorem encLE_guid_eq (g : util.EFIGUID) :
    encLE_util_EFIGUID g = guidWire ⟨g.Data1.toNat, g.Data2.toNat, g.Data3.toNat, g.Data4⟩ := rfl

/-- decoding 16 bytes as a GUID (LE) and encoding the value gives the 16 bytes back -/
theorem encLE_decLE_guid (b : List UInt8) (h : b.length = 16) :
    encLE_util_EFIGUID (decLE_util_EFIGUID b) = b := by
  unfold encLE_util_EFIGUID decLE_util_EFIGUID decBytes
  simp only [List.drop_zero]
  rw [encLE32_decLE32 _ (by simp; omega), encLE16_decLE16 _ (by simp; omega),
    encLE16_decLE16 _ (by simp; omega), List.take_of_length_le (l := b.drop 8) (by simp; omega)]
  exact cut16 b

theorem decLE_guid_data4_length (b : List UInt8) (h : b.length = 16) :
    (decLE_util_EFIGUID b).Data4.length = 8 := by
  simp [decLE_util_EFIGUID, decBytes]; omega

/-- `binary.Read(BE)` of 16 bytes is the model's `bytesToGuid` -/
theorem decBE_guid_eq (b : List UInt8) (h : 16 ≤ b.length) :
    (⟨(decBE_util_EFIGUID (b.take 16)).Data1.toNat, (decBE_util_EFIGUID (b.take 16)).Data2.toNat,
      (decBE_util_EFIGUID (b.take 16)).Data3.toNat, (decBE_util_EFIGUID (b.take 16)).Data4⟩ : Guid) =
      bytesToGuid b := by
  unfold bytesToGuid
  rw [if_neg (by omega)]
  unfold decBE_util_EFIGUID decBytes
  simp only [List.drop_zero]
  rw [decBE32_toNat _ (by simp; omega), decBE16_toNat _ (by simp; omega),
    decBE16_toNat _ (by simp; omega)]
  simp only [List.take_take, List.drop_take]
  simp

end GoUefi.GenCodec
