import GoUefi.Gen
import GoUefi.Lemmas.AuthDesc
import GoUefi.Lemmas.GenCodec
/-!
  The translated WIN_CERTIFICATE / AUTHENTICATION_2 readers and writers of `GoUefi/Gen.lean`
  (efi/signature/varsign.go) against the Impl model (`GoUefi/Model/AuthDesc.lean`).
  Used by `Properties/C10g.lean`; the abstraction functions `aWC`, `aWCG`, `aAuth`, `gwG` are the
  same (by `rfl`) as `absWC`, `absWCG`, `absAuth`, `gwG` defined there.
-/
namespace GoUefi.GenAuthDesc
open GoUefi GoUefi.Gen GoUefi.GenCodec

def gwG (g : util.EFIGUID) : Bytes := guidWire ⟨g.Data1.toNat, g.Data2.toNat, g.Data3.toNat, g.Data4⟩
def aWC (w : signature.WINCertificate) : Impl.WinCert :=
  ⟨w.Length.toNat, w.Revision.toNat, w.CertType.toNat, w.Certificate⟩
def aWCG (w : signature.WinCertificateUEFIGUID) : Impl.WinCertGuid :=
  ⟨aWC w.Header, gwG w.CertType, w.CertData⟩
def aAuth (a : signature.EFIVariableAuthentication2) : Impl.AuthDesc :=
  ⟨encLE_util_EFITime a.Time, aWCG a.AuthInfo⟩

theorem err_of_isSome {α β : Type} {x : α × β × GoErr} (h : x.2.2.isSome = true) :
    ∃ a b e, x = (a, b, some e) := by
  obtain ⟨a, b, e⟩ := x
  cases e with
  | none => simp at h
  | some e => exact ⟨a, b, e, rfl⟩

theorem goWrap_isSome (s : String) : (goWrap (some s)).isSome = true := rfl

theorem readWinCert_tie (f : List UInt8) :
    match Impl.readWinCert f with
    | .ok (w, rest) => ∃ gw', signature.ReadWinCertificate f = (rest, gw', none) ∧ aWC gw' = w
    | _ => ∃ f' gw' e, signature.ReadWinCertificate f = (f', gw', some e) := by
  unfold Impl.readWinCert
  cases h1 : readN 4 f with
  | error e =>
    obtain ⟨s, hs⟩ := readBytes_of_readN_err h1
    simp only
    apply err_of_isSome
    simp [signature.ReadWinCertificate, hs, goWrap]
  | ok p =>
    obtain ⟨l, r1⟩ := p
    have b1 := readBytes_of_readN_ok h1
    have hl := (readN_ok h1).2
    simp only
    cases h2 : readN 2 r1 with
    | error e =>
      obtain ⟨s, hs⟩ := readBytes_of_readN_err h2
      simp only
      apply err_of_isSome
      simp [signature.ReadWinCertificate, b1, hs, goWrap]
    | ok p =>
      obtain ⟨rv, r2⟩ := p
      have b2 := readBytes_of_readN_ok h2
      have hrv := (readN_ok h2).2
      simp only
      cases h3 : readN 2 r2 with
      | error e =>
        obtain ⟨s, hs⟩ := readBytes_of_readN_err h3
        simp only
        apply err_of_isSome
        simp [signature.ReadWinCertificate, b1, b2, hs, goWrap]
      | ok p =>
        obtain ⟨ct, r3⟩ := p
        have b3 := readBytes_of_readN_ok h3
        have hct := (readN_ok h3).2
        simp only
        have eL := decLE32_toNat l hl
        have eR := decLE16_toNat rv hrv
        have eC := decLE16_toNat ct hct
        by_cases c1 : rd16 rv ≠ Impl.winCertRevision
        · rw [if_pos c1]
          simp only
          have : decLE16 rv ≠ 512 := by
            intro e; apply c1; rw [← eR, e]; rfl
          apply err_of_isSome
          simp [signature.ReadWinCertificate, b1, b2, b3, goWrap, signature.WIN_CERTIFICATE_REVISION, this]
        · rw [if_neg c1]
          have c1' : decLE16 rv = 512 := by
            apply UInt16.toNat_inj.mp; rw [eR]; exact Decidable.not_not.mp c1
          by_cases c2 : rd32 l < 8
          · rw [if_pos c2]
            simp only
            have : decLE32 l < 8 := by rw [UInt32.lt_iff_toNat_lt, eL]; exact c2
            apply err_of_isSome
            simp [signature.ReadWinCertificate, b1, b2, b3, goWrap, signature.WIN_CERTIFICATE_REVISION, c1', this]
          · rw [if_neg c2]
            have c2' : ¬ decLE32 l < 8 := by rw [UInt32.lt_iff_toNat_lt, eL]; exact c2
            have ek : (decLE32 l - 8).toNat = rd32 l - 8 := by
              rw [UInt32.toNat_sub_of_le _ _ (UInt32.not_lt.mp c2'), eL]; rfl
            by_cases c3 : r3.length < rd32 l - 8
            · rw [if_pos c3]
              simp only
              have hne : ¬ ((min (rd32 l - 8) r3.length : Nat) : Int) = ((rd32 l - 8 : Nat) : Int) := by omega
              apply err_of_isSome
              simp [signature.ReadWinCertificate, b1, b2, b3, goWrap, signature.WIN_CERTIFICATE_REVISION, c1', c2', ek, readUpTo, hne]
            · rw [if_neg c3]
              simp only
              refine ⟨⟨decLE32 l, decLE16 rv, decLE16 ct, r3.take (rd32 l - 8)⟩, ?_, ?_⟩
              · simp [signature.ReadWinCertificate, b1, b2, b3, goWrap, signature.WIN_CERTIFICATE_REVISION, c1', c2', ek, readUpTo]
                omega
              · simp only [aWC, eL, eR, eC]

theorem time_roundtrip (b : List UInt8) (h : b.length = 16) :
    encLE_util_EFITime (decLE_util_EFITime b) = b := by
  match b, h with
  | [a0, a1, a2, a3, a4, a5, a6, a7, a8, a9, a10, a11, a12, a13, a14, a15], _ =>
    simp only [encLE_util_EFITime, decLE_util_EFITime, List.drop_succ_cons, List.drop_zero,
      List.take_succ_cons, List.take_zero]
    rw [encLE16_decLE16 _ rfl, encLE32_decLE32 _ rfl, encLEi16_decLEi16 _ rfl]
    rfl

theorem readWinCert_returns (f : List UInt8) :
    Impl.readWinCert f ≠ .panic ∧ Impl.readWinCert f ≠ .exit := by
  unfold Impl.readWinCert
  constructor <;> (repeat' split) <;> simp

theorem readWinCertGuid_returns (f : List UInt8) :
    Impl.readWinCertGuid f ≠ .panic ∧ Impl.readWinCertGuid f ≠ .exit := by
  have h := readWinCert_returns f
  unfold Impl.readWinCertGuid
  constructor <;> (repeat' split) <;> simp_all

theorem readAuth_returns (f : List UInt8) :
    Impl.readAuth f ≠ .panic ∧ Impl.readAuth f ≠ .exit := by
  unfold Impl.readAuth
  cases readN 16 f with
  | error e => simp
  | ok p =>
    have h := readWinCertGuid_returns p.2
    simp only
    constructor <;> (repeat' split) <;> simp_all

theorem readWinCertGuid_tie (f : List UInt8) :
    match Impl.readWinCertGuid f with
    | .ok (w, rest) => ∃ gw', signature.ReadWinCertificateUEFIGUID f = (rest, gw', none) ∧ aWCG gw' = w ∧
        gw'.CertType.Data4.length = 8
    | _ => ∃ f' gw' e, signature.ReadWinCertificateUEFIGUID f = (f', gw', some e) := by
  have h := readWinCert_tie f
  unfold Impl.readWinCertGuid
  cases hw : Impl.readWinCert f with
  | ok p =>
    obtain ⟨w, rest⟩ := p
    rw [hw] at h
    simp only at h ⊢
    obtain ⟨gw, hg, ha⟩ := h
    subst ha
    by_cases c0 : (aWC gw).cert.length < 16
    · rw [if_pos c0]
      have c : gw.Certificate.length < 16 := c0
      simp only
      obtain ⟨s, hs⟩ := readBytes_short (n := 16) (f := gw.Certificate) c
      apply err_of_isSome
      simp [signature.ReadWinCertificateUEFIGUID, hg, hs, goWrap]
    · rw [if_neg c0]
      have c : ¬ gw.Certificate.length < 16 := c0
      simp only
      have hr := readBytes_ge (n := 16) (f := gw.Certificate) (by omega) (by omega)
      have h16 : (gw.Certificate.take 16).length = 16 := by
        rw [List.length_take]; omega
      have hall : readBytes (gw.Certificate.length - 16) (gw.Certificate.drop 16) =
          (gw.Certificate.drop 16, [], none) := by
        have := readBytes_all (gw.Certificate.drop 16)
        rwa [List.length_drop] at this
      have e : gwG (decLE_util_EFIGUID (gw.Certificate.take 16)) = gw.Certificate.take 16 :=
        encLE_decLE_guid _ h16
      refine ⟨⟨{ gw with Certificate := [] }, decLE_util_EFIGUID (gw.Certificate.take 16),
        gw.Certificate.drop 16⟩, ?_, ?_, ?_⟩
      · simp [signature.ReadWinCertificateUEFIGUID, hg, hr, hall]
      · simp only [aWCG, e]; rfl
      · exact decLE_guid_data4_length _ h16
  | err =>
    rw [hw] at h
    simp only at h ⊢
    obtain ⟨f', gw', e, he⟩ := h
    apply err_of_isSome
    simp [signature.ReadWinCertificateUEFIGUID, he, goWrap]
  | panic => exact absurd hw (readWinCert_returns f).1
  | exit => exact absurd hw (readWinCert_returns f).2

theorem readAuth_tie (f : List UInt8) :
    match Impl.readAuth f with
    | .ok (d, rest) => ∃ ga, signature.ReadEFIVariableAuthencation2 f = (rest, ga, none) ∧ aAuth ga = d ∧
        ga.AuthInfo.CertType.Data4.length = 8
    | _ => ∃ f' ga e, signature.ReadEFIVariableAuthencation2 f = (f', ga, some e) := by
  unfold Impl.readAuth
  cases h1 : readN 16 f with
  | error e =>
    obtain ⟨s, hs⟩ := readBytes_of_readN_err h1
    simp only
    apply err_of_isSome
    simp [signature.ReadEFIVariableAuthencation2, hs, goWrap]
  | ok p =>
    obtain ⟨t, r1⟩ := p
    have b1 := readBytes_of_readN_ok h1
    have ht := (readN_ok h1).2
    simp only
    have h := readWinCertGuid_tie r1
    cases hw : Impl.readWinCertGuid r1 with
    | ok p =>
      obtain ⟨a, rest⟩ := p
      rw [hw] at h
      simp only at h ⊢
      obtain ⟨gw, hg, ha, h8⟩ := h
      have eC : gw.Header.CertType.toNat = a.hdr.ctype := by rw [← ha]; rfl
      by_cases c : a.hdr.ctype ≠ Impl.winCertTypeEfiGuid
      · rw [if_pos c]
        simp only
        have : gw.Header.CertType ≠ 3825 := by
          intro e; apply c; rw [← eC, e]; rfl
        apply err_of_isSome
        simp [signature.ReadEFIVariableAuthencation2, b1, hg, goWrap, signature.WIN_CERT_TYPE_EFI_GUID, this]
      · rw [if_neg c]
        simp only
        have c' : gw.Header.CertType = 3825 := by
          apply UInt16.toNat_inj.mp; rw [eC]; exact Decidable.not_not.mp c
        refine ⟨⟨decLE_util_EFITime t, gw⟩, ?_, ?_, h8⟩
        · simp [signature.ReadEFIVariableAuthencation2, b1, hg, signature.WIN_CERT_TYPE_EFI_GUID, c']
        · simp only [aAuth, ha, time_roundtrip t ht]
    | err =>
      rw [hw] at h
      simp only at h ⊢
      obtain ⟨f', gw', e, he⟩ := h
      apply err_of_isSome
      simp [signature.ReadEFIVariableAuthencation2, b1, he, goWrap]
    | panic => exact absurd hw (readWinCertGuid_returns r1).1
    | exit => exact absurd hw (readWinCertGuid_returns r1).2

/-! ### writers -/

theorem writeWinCert_tie (b : List UInt8) (w : signature.WINCertificate) :
    signature.WriteWinCertificate b w = b ++ Impl.writeWinCert (aWC w) := by
  simp only [signature.WriteWinCertificate, Impl.writeWinCert, aWC, decBytes, encLE32_eq, encLE16_eq,
    List.append_assoc]

theorem writeWinCertGuid_tie (b : List UInt8) (w : signature.WinCertificateUEFIGUID) :
    signature.WriteWinCertificateUEFIGUID b w = b ++ Impl.writeWinCertGuid (aWCG w) := by
  simp only [signature.WriteWinCertificateUEFIGUID, writeWinCert_tie, Impl.writeWinCertGuid, aWCG, gwG,
    decBytes, encLE_guid_eq, List.append_assoc]

theorem writeAuth_tie (b : List UInt8) (a : signature.EFIVariableAuthentication2) :
    signature.WriteEFIVariableAuthencation2 b a = b ++ Impl.writeAuth (aAuth a) := by
  simp only [signature.WriteEFIVariableAuthencation2, writeWinCertGuid_tie, Impl.writeAuth, aAuth,
    List.append_assoc]

theorem marshal_tie (b : List UInt8) (a : signature.EFIVariableAuthentication2) :
    a.Marshal b = b ++ Impl.writeAuth (aAuth a) := writeAuth_tie b a

/-! ### consequences -/

theorem unmarshal_tie (e : signature.EFIVariableAuthentication2) (b : List UInt8) :
    match Impl.readAuth b with
    | .ok (d, rest) => ∃ ga, e.Unmarshal b = (ga, rest, none) ∧ aAuth ga = d
    | _ => ∃ b' err, e.Unmarshal b = (e, b', some err) := by
  have h := readAuth_tie b
  cases hw : Impl.readAuth b with
  | ok p =>
    obtain ⟨d, rest⟩ := p
    rw [hw] at h
    simp only at h ⊢
    obtain ⟨ga, hg, ha, _⟩ := h
    exact ⟨ga, by simp [signature.EFIVariableAuthentication2.Unmarshal, hg], ha⟩
  | err =>
    rw [hw] at h
    simp only at h ⊢
    obtain ⟨f', ga, err, he⟩ := h
    exact ⟨f', err, by simp [signature.EFIVariableAuthentication2.Unmarshal, he]⟩
  | panic => exact absurd hw (readAuth_returns b).1
  | exit => exact absurd hw (readAuth_returns b).2

theorem decode_encode_tie (f rest : List UInt8) (ga : signature.EFIVariableAuthentication2)
    (h : signature.ReadEFIVariableAuthencation2 f = (rest, ga, none)) :
    ga.Marshal [] ++ rest = f := by
  have ht := readAuth_tie f
  cases hw : Impl.readAuth f with
  | ok p =>
    obtain ⟨d, rest'⟩ := p
    rw [hw] at ht
    simp only at ht
    obtain ⟨ga', hg, ha, _⟩ := ht
    rw [h] at hg
    simp only [Prod.mk.injEq, and_true] at hg
    obtain ⟨rfl, rfl⟩ := hg
    rw [marshal_tie, List.nil_append, ha]
    exact writeAuth_readAuth hw
  | err =>
    rw [hw] at ht
    simp only at ht
    obtain ⟨f', ga', err, he⟩ := ht
    rw [h] at he
    simp at he
  | panic => exact absurd hw (readAuth_returns f).1
  | exit => exact absurd hw (readAuth_returns f).2

end GoUefi.GenAuthDesc
