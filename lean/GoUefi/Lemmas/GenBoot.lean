import GoUefi.Gen
import GoUefi.Model.Boot
import GoUefi.Lemmas.GenFmt
/-!
# The translated `bootorder.Unmarshal` loop, one turn at a time

Lemmas for `Properties/C18g.lean`.
-/
namespace GoUefi.GenBoot
open GoUefi GoUefi.Gen

/-- the names that `bootorder.Unmarshal` appends for the buffer content `bs`, written with the prelude's `fmtHex`
    (what `fmt.Sprintf("Boot%04X", val)` is translated to): one per complete little-endian pair, and one for a
    trailing single byte, which `b.Read(sec)` leaves in `sec[0]` next to the zero of the fresh `sec[1]` -/
def bootNames : List UInt8 → List String
  | a :: b :: r => ("Boot" ++ fmtHex true 4 (a.toNat + 256 * b.toNat)) :: bootNames r
  | [a] => ["Boot" ++ fmtHex true 4 a.toNat]
  | [] => []

theorem lenI_cons_ne_zero {α : Type} (a : α) (r : List α) : (lenI (a :: r) != (0 : Int)) = true := by
  rw [lenI_eq, List.length_cons]
  simp only [bne_iff_ne, ne_eq]
  omega

theorem lenI_nil_ne_zero {α : Type} : (lenI ([] : List α) != (0 : Int)) = false := by
  rw [lenI_eq, List.length_nil]; rfl

/-- `b.Read(sec)` with two or more bytes left: both bytes of `sec` are overwritten -/
theorem bufRead_two (a c : UInt8) (r : List UInt8) (x y : UInt8) :
    bufRead [x, y] (a :: c :: r) = ([a, c], r, 2, none) := by
  have hm : min 2 (r.length + 1 + 1) = 2 := by omega
  simp only [bufRead, List.length_cons, List.length_nil, Nat.zero_add, Nat.reduceAdd, hm, List.take_succ_cons,
    List.take_zero, List.drop_succ_cons, List.drop_nil, List.append_nil, List.drop_zero]
  rfl

/-- `b.Read(sec)` with a single byte left: `sec[0]` is that byte, `sec[1]` keeps its value; no error -/
theorem bufRead_one (a : UInt8) (x y : UInt8) : bufRead [x, y] [a] = ([a, y], [], 1, none) := rfl

theorem be16_val (a c : UInt8) : (decBE16 [c, a]).toNat = a.toNat + 256 * c.toNat := by
  have ha := UInt8.toNat_lt a
  have hc := UInt8.toNat_lt c
  unfold decBE16
  simp only [List.getD_cons_zero, List.getD_cons_succ, UInt16.toNat_ofNat']
  omega

/-- nothing left: the loop ends -/
theorem loop_nil (fuel : Nat) (bo : efivarfs.bootorder) (i : Int) :
    efivarfs.bootorder.Unmarshal.loop1 (fuel + 1) bo [] i = Loop.done (bo, [], i) := by
  rw [efivarfs.bootorder.Unmarshal.loop1, lenI_nil_ne_zero]
  rfl

/-- one turn on a complete pair -/
theorem loop_pair (fuel : Nat) (bo : efivarfs.bootorder) (a c : UInt8) (r : List UInt8) (i : Int) :
    efivarfs.bootorder.Unmarshal.loop1 (fuel + 1) bo (a :: c :: r) i =
      efivarfs.bootorder.Unmarshal.loop1 fuel (bo ++ ["Boot" ++ fmtHex true 4 (a.toNat + 256 * c.toNat)]) r (i + 2) := by
  rw [efivarfs.bootorder.Unmarshal.loop1, lenI_cons_ne_zero, if_pos rfl]
  have hsec : List.replicate ((2 : Int)).toNat (0 : UInt8) = [0, 0] := rfl
  simp only [hsec, bufRead_two, List.getD_cons_zero, List.getD_cons_succ, be16_val]

/-- one turn on a trailing single byte: it is the low byte of a last entry whose high byte is zero -/
theorem loop_single (fuel : Nat) (bo : efivarfs.bootorder) (a : UInt8) (i : Int) :
    efivarfs.bootorder.Unmarshal.loop1 (fuel + 1) bo [a] i =
      efivarfs.bootorder.Unmarshal.loop1 fuel (bo ++ ["Boot" ++ fmtHex true 4 a.toNat]) [] (i + 2) := by
  rw [efivarfs.bootorder.Unmarshal.loop1, lenI_cons_ne_zero, if_pos rfl]
  have hsec : List.replicate ((2 : Int)).toNat (0 : UInt8) = [0, 0] := rfl
  have hz : a.toNat + 256 * (0 : UInt8).toNat = a.toNat := by
    have : (0 : UInt8).toNat = 0 := rfl
    omega
  simp only [hsec, bufRead_one, List.getD_cons_zero, List.getD_cons_succ, be16_val, hz]

/-- the whole loop: with `⌈len/2⌉ + 1` units of fuel or more it completes (never the out-of-fuel value), the
    buffer is empty afterwards and exactly `bootNames bs` has been appended -/
theorem loop_eq : ∀ (bs : List UInt8) (fuel : Nat) (bo : efivarfs.bootorder) (i : Int),
    (bs.length + 1) / 2 + 1 ≤ fuel →
    ∃ i', efivarfs.bootorder.Unmarshal.loop1 fuel bo bs i = Loop.done (bo ++ bootNames bs, [], i')
  | [], fuel, bo, i, h => by
    obtain ⟨f, rfl⟩ : ∃ f, fuel = f + 1 := ⟨fuel - 1, by omega⟩
    exact ⟨i, by rw [loop_nil, bootNames, List.append_nil]⟩
  | [a], fuel, bo, i, h => by
    obtain ⟨f, rfl⟩ : ∃ f, fuel = f + 2 := ⟨fuel - 2, by simp only [List.length_cons, List.length_nil] at h; omega⟩
    exact ⟨i + 2, by rw [loop_single, loop_nil, bootNames]⟩
  | a :: c :: r, fuel, bo, i, h => by
    obtain ⟨f, rfl⟩ : ∃ f, fuel = f + 1 := ⟨fuel - 1, by omega⟩
    have hf : (r.length + 1) / 2 + 1 ≤ f := by simp only [List.length_cons] at h; omega
    obtain ⟨i', hi'⟩ := loop_eq r f (bo ++ ["Boot" ++ fmtHex true 4 (a.toNat + 256 * c.toNat)]) (i + 2) hf
    exact ⟨i', by rw [loop_pair, hi', bootNames, List.append_assoc, List.singleton_append]⟩

theorem bootNames_length : ∀ bs : List UInt8, (bootNames bs).length = (bs.length + 1) / 2
  | [] => rfl
  | [_] => by simp [bootNames]
  | _ :: _ :: r => by
    rw [bootNames, List.length_cons, bootNames_length r]
    simp only [List.length_cons]; omega

/-- the names are the model's (`Impl.bootOrder` of Model/Boot.lean), as strings -/
theorem bootNames_model : ∀ bs : List UInt8, bootNames bs = (Impl.bootOrder bs).map String.ofList
  | [] => rfl
  | [a] => by
    have ha := UInt8.toNat_lt a
    rw [bootNames, Impl.bootOrder, List.map_cons, List.map_nil, GenFmt.boot_name _ (by omega)]; rfl
  | a :: c :: r => by
    have ha := UInt8.toNat_lt a
    have hc := UInt8.toNat_lt c
    rw [bootNames, Impl.bootOrder, List.map_cons, bootNames_model r, GenFmt.boot_name _ (by omega)]; rfl

/-- a trailing single byte behind complete pairs -/
theorem bootNames_append_single : ∀ (xs : List UInt8) (a : UInt8), xs.length % 2 = 0 →
    bootNames (xs ++ [a]) = bootNames xs ++ ["Boot" ++ fmtHex true 4 a.toNat]
  | [], a, _ => rfl
  | [_], a, h => by simp at h
  | x :: y :: r, a, h => by
    have h' : r.length % 2 = 0 := by simp only [List.length_cons] at h; omega
    rw [List.cons_append, List.cons_append, bootNames, bootNames_append_single r a h', bootNames, List.cons_append]

/-- the `k`-th name comes from the `k`-th complete pair -/
theorem bootNames_get : ∀ (bs : List UInt8) (k : Nat), 2 * k + 1 < bs.length →
    (bootNames bs)[k]? = some ("Boot" ++ fmtHex true 4 ((bs.getD (2 * k) 0).toNat + 256 * (bs.getD (2 * k + 1) 0).toNat))
  | [], k, h => by simp at h
  | [_], k, h => by simp only [List.length_cons, List.length_nil] at h; omega
  | a :: c :: r, 0, _ => rfl
  | a :: c :: r, k + 1, h => by
    have h' : 2 * k + 1 < r.length := by simp only [List.length_cons] at h; omega
    have e1 : 2 * (k + 1) = (2 * k) + 1 + 1 := by omega
    have e2 : 2 * (k + 1) + 1 = (2 * k + 1) + 1 + 1 := by omega
    rw [bootNames, List.getElem?_cons_succ, bootNames_get r k h', e2, e1]
    simp only [List.getD_cons_succ]

end GoUefi.GenBoot
