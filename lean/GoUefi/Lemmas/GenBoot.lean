import GoUefi.Gen
import GoUefi.Model.Boot
import GoUefi.Lemmas.GenFmt
/-!
# The translated `bootorder.Unmarshal` loop, one turn at a time

Lemmas for `Properties/C18g.lean`.
-/
namespace GoUefi.GenBoot
open GoUefi GoUefi.Gen

/-- the names that `bootorder.Unmarshal` appends for the buffer content `bs`, written with the prelude's `fmtHex`
    (what `fmt.Sprintf("Boot%04X", val)` is translated to): one per complete little-endian pair and no other — the
    loop runs while `b.Len() >= 2`, so a trailing single byte is not read (F35 repair) -/
def bootNames : List UInt8 → List String
  | a :: b :: r => ("Boot" ++ fmtHex true 4 (a.toNat + 256 * b.toNat)) :: bootNames r
  | [_] => []
  | [] => []

/-- what `bootorder.Unmarshal` leaves in the buffer: the bytes behind the `⌊len/2⌋` complete pairs -/
def rest (bs : List UInt8) : List UInt8 := bs.drop (2 * (bs.length / 2))

theorem lenI_ge_two {α : Type} (a c : α) (r : List α) : decide (lenI (a :: c :: r) ≥ (2 : Int)) = true := by
  rw [lenI_eq, List.length_cons, List.length_cons]
  simp only [decide_eq_true_eq]
  omega

theorem lenI_lt_two {α : Type} (bs : List α) (h : bs.length < 2) : decide (lenI bs ≥ (2 : Int)) = false := by
  rw [lenI_eq]
  simp only [decide_eq_false_iff_not]
  omega

/-- `b.Read(sec)` with two or more bytes left: both bytes of `sec` are overwritten -/
theorem bufRead_two (a c : UInt8) (r : List UInt8) (x y : UInt8) :
    bufRead [x, y] (a :: c :: r) = ([a, c], r, 2, none) := by
  have hm : min 2 (r.length + 1 + 1) = 2 := by omega
  simp only [bufRead, List.length_cons, List.length_nil, Nat.zero_add, Nat.reduceAdd, hm, List.take_succ_cons,
    List.take_zero, List.drop_succ_cons, List.drop_nil, List.append_nil, List.drop_zero]
  rfl

theorem be16_val (a c : UInt8) : (decBE16 [c, a]).toNat = a.toNat + 256 * c.toNat := by
  have ha := UInt8.toNat_lt a
  have hc := UInt8.toNat_lt c
  unfold decBE16
  simp only [List.getD_cons_zero, List.getD_cons_succ, UInt16.toNat_ofNat']
  omega

/-- fewer than two bytes left (none, or a trailing single byte): the loop ends and the buffer is not touched -/
theorem loop_stop (fuel : Nat) (bo : efivarfs.bootorder) (bs : List UInt8) (i : Int) (h : bs.length < 2) :
    efivarfs.bootorder.Unmarshal.loop1 (fuel + 1) bo bs i = Loop.done (bo, bs, i) := by
  rw [efivarfs.bootorder.Unmarshal.loop1, lenI_lt_two bs h]
  rfl

/-- one turn on a complete pair -/
theorem loop_pair (fuel : Nat) (bo : efivarfs.bootorder) (a c : UInt8) (r : List UInt8) (i : Int) :
    efivarfs.bootorder.Unmarshal.loop1 (fuel + 1) bo (a :: c :: r) i =
      efivarfs.bootorder.Unmarshal.loop1 fuel (bo ++ ["Boot" ++ fmtHex true 4 (a.toNat + 256 * c.toNat)]) r (i + 2) := by
  rw [efivarfs.bootorder.Unmarshal.loop1, lenI_ge_two, if_pos rfl]
  have hsec : List.replicate ((2 : Int)).toNat (0 : UInt8) = [0, 0] := rfl
  simp only [hsec, bufRead_two, List.getD_cons_zero, List.getD_cons_succ, be16_val]

theorem rest_cons_cons (a c : UInt8) (r : List UInt8) : rest (a :: c :: r) = rest r := by
  have e : 2 * ((a :: c :: r).length / 2) = 2 * (r.length / 2) + 1 + 1 := by
    simp only [List.length_cons]; omega
  rw [rest, e, List.drop_succ_cons, List.drop_succ_cons, rest]

/-- the whole loop: with `⌊len/2⌋ + 1` units of fuel or more it completes (never the out-of-fuel value), exactly
    `bootNames bs` has been appended and the buffer holds `rest bs` -/
theorem loop_eq : ∀ (bs : List UInt8) (fuel : Nat) (bo : efivarfs.bootorder) (i : Int),
    bs.length / 2 + 1 ≤ fuel →
    ∃ i', efivarfs.bootorder.Unmarshal.loop1 fuel bo bs i = Loop.done (bo ++ bootNames bs, rest bs, i')
  | [], fuel, bo, i, h => by
    obtain ⟨f, rfl⟩ : ∃ f, fuel = f + 1 := ⟨fuel - 1, by omega⟩
    exact ⟨i, by rw [loop_stop _ _ _ _ (by simp), bootNames, List.append_nil]; rfl⟩
  | [a], fuel, bo, i, h => by
    obtain ⟨f, rfl⟩ : ∃ f, fuel = f + 1 := ⟨fuel - 1, by omega⟩
    have hr : rest [a] = [a] := by simp [rest]
    exact ⟨i, by rw [loop_stop _ _ _ _ (by simp), bootNames, List.append_nil, hr]⟩
  | a :: c :: r, fuel, bo, i, h => by
    obtain ⟨f, rfl⟩ : ∃ f, fuel = f + 1 := ⟨fuel - 1, by omega⟩
    have hf : r.length / 2 + 1 ≤ f := by simp only [List.length_cons] at h; omega
    obtain ⟨i', hi'⟩ := loop_eq r f (bo ++ ["Boot" ++ fmtHex true 4 (a.toNat + 256 * c.toNat)]) (i + 2) hf
    exact ⟨i', by rw [loop_pair, hi', bootNames, rest_cons_cons, List.append_assoc, List.singleton_append]⟩

theorem bootNames_length : ∀ bs : List UInt8, (bootNames bs).length = bs.length / 2
  | [] => rfl
  | [_] => by simp [bootNames]
  | _ :: _ :: r => by
    rw [bootNames, List.length_cons, bootNames_length r]
    simp only [List.length_cons]; omega

/-- the names are the model's (`Impl.bootOrder` of Model/Boot.lean), as strings -/
theorem bootNames_model : ∀ bs : List UInt8, bootNames bs = (Impl.bootOrder bs).map String.ofList
  | [] => rfl
  | [_] => rfl
  | a :: c :: r => by
    have ha := UInt8.toNat_lt a
    have hc := UInt8.toNat_lt c
    rw [bootNames, Impl.bootOrder, List.map_cons, bootNames_model r, GenFmt.boot_name _ (by omega)]; rfl

/-- a trailing single byte behind complete pairs adds no name -/
theorem bootNames_append_single : ∀ (xs : List UInt8) (a : UInt8), xs.length % 2 = 0 →
    bootNames (xs ++ [a]) = bootNames xs
  | [], a, _ => rfl
  | [_], a, h => by simp at h
  | x :: y :: r, a, h => by
    have h' : r.length % 2 = 0 := by simp only [List.length_cons] at h; omega
    rw [List.cons_append, List.cons_append, bootNames, bootNames_append_single r a h', bootNames]

/-- the rest is empty or a single byte -/
theorem rest_length (bs : List UInt8) : (rest bs).length = bs.length % 2 := by
  rw [rest, List.length_drop]; omega

/-- an even length leaves nothing -/
theorem rest_even (bs : List UInt8) (h : bs.length % 2 = 0) : rest bs = [] :=
  List.eq_nil_of_length_eq_zero (by rw [rest_length, h])

/-- a trailing single byte behind complete pairs is what is left -/
theorem rest_append_single (xs : List UInt8) (a : UInt8) (h : xs.length % 2 = 0) : rest (xs ++ [a]) = [a] := by
  have e : 2 * ((xs ++ [a]).length / 2) = xs.length := by
    rw [List.length_append, List.length_singleton]; omega
  rw [rest, e, List.drop_left]

/-- the `k`-th name comes from the `k`-th complete pair -/
theorem bootNames_get : ∀ (bs : List UInt8) (k : Nat), 2 * k + 1 < bs.length →
    (bootNames bs)[k]? = some ("Boot" ++ fmtHex true 4 ((bs.getD (2 * k) 0).toNat + 256 * (bs.getD (2 * k + 1) 0).toNat))
  | [], k, h => by simp at h
  | [_], k, h => by simp only [List.length_cons, List.length_nil] at h; omega
  | a :: c :: r, 0, _ => rfl
  | a :: c :: r, k + 1, h => by
    have h' : 2 * k + 1 < r.length := by simp only [List.length_cons] at h; omega
    have e1 : 2 * (k + 1) = (2 * k) + 1 + 1 := by omega
    have e2 : 2 * (k + 1) + 1 = (2 * k + 1) + 1 + 1 := by omega
    rw [bootNames, List.getElem?_cons_succ, bootNames_get r k h', e2, e1]
    simp only [List.getD_cons_succ]

end GoUefi.GenBoot
