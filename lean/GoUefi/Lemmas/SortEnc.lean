import GoUefi.Model.Pkcs7
/-!
  `sortEnc` (`GoUefi/Model/Pkcs7.lean`, the stable sort of the attribute encodings in
  `Attributes.Marshal`, F19) returns a permutation of its input in non-decreasing `bytes.Compare`
  order.  `bytesLt a b` is `bytes.Compare a b < 0`; "`a ≤ b`" is written `bytesLt b a = false`.
-/
namespace GoUefi.Impl
open GoUefi

/-! ### `bytesLt` is a strict total order -/

theorem bytesLt_irrefl (a : Bytes) : bytesLt a a = false := by
  induction a with
  | nil => rfl
  | cons x xs ih =>
    have hx : ¬ x < x := by simp
    simp [bytesLt, hx, ih]

theorem bytesLt_cons (x y : UInt8) (xs ys : Bytes) :
    bytesLt (x :: xs) (y :: ys) = (decide (x < y) || (!decide (y < x) && bytesLt xs ys)) := by
  by_cases h1 : x < y <;> by_cases h2 : y < x <;> simp [bytesLt, h1, h2]

/-- asymmetry: `a < b` excludes `b < a` -/
theorem bytesLt_asymm {a b : Bytes} (h : bytesLt a b = true) : bytesLt b a = false := by
  induction a generalizing b with
  | nil => cases b <;> simp [bytesLt] at h ⊢
  | cons x xs ih =>
    cases b with
    | nil => simp [bytesLt] at h
    | cons y ys =>
      rw [bytesLt_cons] at h ⊢
      simp only [Bool.or_eq_true, Bool.and_eq_true, Bool.not_eq_true', decide_eq_true_eq,
        decide_eq_false_iff_not, Bool.or_eq_false_iff, Bool.and_eq_false_imp] at h ⊢
      simp only [UInt8.lt_iff_toNat_lt] at h ⊢
      rcases h with h | ⟨h1, h2⟩
      · exact ⟨by omega, fun h' => by omega⟩
      · exact ⟨h1, fun _ => ih h2⟩

/-- transitivity of `≤`: `a ≤ b` and `b ≤ c` give `a ≤ c` -/
theorem bytesLe_trans {a b c : Bytes} (hab : bytesLt b a = false) (hbc : bytesLt c b = false) :
    bytesLt c a = false := by
  induction a generalizing b c with
  | nil =>
    cases c with
    | nil => rfl
    | cons z zs => simp [bytesLt]
  | cons x xs ih =>
    cases b with
    | nil => simp [bytesLt] at hab
    | cons y ys =>
      cases c with
      | nil => simp [bytesLt] at hbc
      | cons z zs =>
        rw [bytesLt_cons] at hab hbc ⊢
        simp only [Bool.or_eq_false_iff, decide_eq_false_iff_not, Bool.and_eq_false_imp,
          Bool.not_eq_true', UInt8.lt_iff_toNat_lt] at hab hbc ⊢
        obtain ⟨h1, h2⟩ := hab
        obtain ⟨h3, h4⟩ := hbc
        refine ⟨by omega, fun h5 => ?_⟩
        have e1 : ¬ x.toNat < y.toNat := by omega
        have e2 : ¬ y.toNat < z.toNat := by omega
        exact ih (h2 e1) (h4 e2)

/-- totality: `a ≤ b` or `b ≤ a` -/
theorem bytesLe_total (a b : Bytes) : bytesLt b a = false ∨ bytesLt a b = false := by
  cases h : bytesLt b a with
  | false => exact Or.inl rfl
  | true => exact Or.inr (bytesLt_asymm h)

/-! ### insertion sort -/

theorem insertEnc_perm (e : Bytes) (l : List Bytes) : (insertEnc e l).Perm (e :: l) := by
  induction l with
  | nil => exact List.Perm.refl _
  | cons x xs ih =>
    unfold insertEnc
    split
    · exact (List.Perm.cons x ih).trans (List.Perm.swap e x xs)
    · exact List.Perm.refl _

theorem sortEnc_cons (e : Bytes) (l : List Bytes) : sortEnc (e :: l) = insertEnc e (sortEnc l) := rfl

/-- the result of `sortEnc` is a rearrangement of its input: nothing added, dropped or duplicated -/
theorem sortEnc_perm (l : List Bytes) : (sortEnc l).Perm l := by
  induction l with
  | nil => exact List.Perm.refl _
  | cons x xs ih =>
    rw [sortEnc_cons]
    exact (insertEnc_perm x _).trans (List.Perm.cons x ih)

theorem insertEnc_sorted (e : Bytes) (l : List Bytes)
    (h : l.Pairwise (fun a b => bytesLt b a = false)) :
    (insertEnc e l).Pairwise (fun a b => bytesLt b a = false) := by
  induction l with
  | nil => simp [insertEnc]
  | cons x xs ih =>
    rw [List.pairwise_cons] at h
    unfold insertEnc
    split
    · next hlt =>
      rw [List.pairwise_cons]
      refine ⟨fun y hy => ?_, ih h.2⟩
      rcases List.mem_cons.mp ((insertEnc_perm e xs).mem_iff.mp hy) with rfl | hy'
      · exact bytesLt_asymm hlt
      · exact h.1 y hy'
    · next hge =>
      have hge' : bytesLt x e = false := by simpa using hge
      rw [List.pairwise_cons]
      refine ⟨fun y hy => ?_, List.pairwise_cons.mpr h⟩
      rcases List.mem_cons.mp hy with rfl | hy'
      · exact hge'
      · exact bytesLe_trans hge' (h.1 y hy')

/-- the result of `sortEnc` is in non-decreasing `bytes.Compare` order -/
theorem sortEnc_sorted (l : List Bytes) : (sortEnc l).Pairwise (fun a b => bytesLt b a = false) := by
  induction l with
  | nil => exact List.Pairwise.nil
  | cons x xs ih =>
    rw [sortEnc_cons]
    exact insertEnc_sorted x _ ih

/-- the six possible results for three elements -/
theorem sortEnc_three (a b c : Bytes) :
    sortEnc [a, b, c] = [a, b, c] ∨ sortEnc [a, b, c] = [a, c, b] ∨ sortEnc [a, b, c] = [b, a, c] ∨
    sortEnc [a, b, c] = [b, c, a] ∨ sortEnc [a, b, c] = [c, a, b] ∨ sortEnc [a, b, c] = [c, b, a] := by
  simp only [sortEnc, List.foldr_cons, List.foldr_nil, insertEnc]
  by_cases h1 : bytesLt c b = true <;> by_cases h2 : bytesLt b a = true <;>
    by_cases h3 : bytesLt c a = true <;> simp [insertEnc, h1, h2, h3]

end GoUefi.Impl
