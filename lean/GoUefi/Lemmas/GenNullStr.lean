import GoUefi.Gen
import GoUefi.Model.Utf16
/-!
# The translated `util.ReadNullString` loop, one turn at a time

Lemmas for `Properties/C17g.lean` / `C18g.lean`.
-/
namespace GoUefi.GenNullStr
open GoUefi GoUefi.Gen

theorem block_eq : List.replicate ((2 : Int)).toNat (0 : UInt8) = [0, 0] := rfl

/-- `io.ReadFull(f, block)` with nothing left: nothing read (`io.EOF`) -/
theorem readFull_nil (x y : UInt8) : readFull [x, y] [] = ([x, y], [], 0, some "io.EOF") := rfl

/-- … with one byte left: it is in `block[0]`, `n = 1` (`io.ErrUnexpectedEOF`) -/
theorem readFull_one (a x y : UInt8) : readFull [x, y] [a] = ([a, y], [], 1, some "io.ErrUnexpectedEOF") := rfl

/-- … with two or more bytes left: the block is filled, `n = 2`, no error -/
theorem readFull_two (a c : UInt8) (r : List UInt8) (x y : UInt8) :
    readFull [x, y] (a :: c :: r) = ([a, c], r, 2, none) := by
  have hlt : ¬ (r.length + 1 + 1 < 2) := by omega
  simp only [readFull, List.isEmpty_cons, Bool.false_eq_true, if_false, List.length_cons, List.length_nil,
    Nat.zero_add, Nat.reduceAdd, hlt, List.take_succ_cons, List.take_zero, List.drop_succ_cons, List.drop_zero]
  rfl

theorem pair_beq_zero (a c : UInt8) : (([a, c] : List UInt8) == [0, 0]) = (a == 0 && c == 0) := by
  by_cases ha : a = 0 <;> by_cases hc : c = 0 <;> simp [ha, hc]

/-- nothing left: the loop ends without adding anything -/
theorem loop_nil (fuel : Nat) (ret : List UInt8) :
    util.ReadNullString.loop1 (fuel + 1) [] ret = Loop.done ([], ret) := by
  rw [util.ReadNullString.loop1]
  simp only [block_eq, readFull_nil]
  rfl

/-- a single byte left: it is appended as it is (F32: not padded into a terminator) and the loop ends -/
theorem loop_single (fuel : Nat) (a : UInt8) (ret : List UInt8) :
    util.ReadNullString.loop1 (fuel + 1) [a] ret = Loop.done ([], ret ++ [a]) := by
  rw [util.ReadNullString.loop1]
  simp only [block_eq, readFull_one]
  rfl

/-- a complete code unit: appended; the loop ends when it is `00 00` and goes on otherwise -/
theorem loop_pair (fuel : Nat) (a c : UInt8) (r ret : List UInt8) :
    util.ReadNullString.loop1 (fuel + 1) (a :: c :: r) ret =
      if (a == 0 && c == 0) then Loop.done (r, ret ++ [a, c])
      else util.ReadNullString.loop1 fuel r (ret ++ [a, c]) := by
  rw [util.ReadNullString.loop1]
  simp only [block_eq, readFull_two, pair_beq_zero]
  rfl

/-- the whole loop, for any fuel ≥ `len/2 + 1`: it completes, having appended the model's string part and left
    the model's rest in the reader -/
theorem loop_eq : ∀ (bs : List UInt8) (fuel : Nat) (ret : List UInt8), bs.length / 2 + 1 ≤ fuel →
    util.ReadNullString.loop1 fuel bs ret = Loop.done ((readNullString bs).2, ret ++ (readNullString bs).1)
  | [], fuel, ret, h => by
    obtain ⟨f, rfl⟩ : ∃ f, fuel = f + 1 := ⟨fuel - 1, by omega⟩
    rw [loop_nil, readNullString, List.append_nil]
  | [a], fuel, ret, h => by
    obtain ⟨f, rfl⟩ : ∃ f, fuel = f + 1 := ⟨fuel - 1, by omega⟩
    rw [loop_single, readNullString]
  | a :: c :: r, fuel, ret, h => by
    obtain ⟨f, rfl⟩ : ∃ f, fuel = f + 1 := ⟨fuel - 1, by omega⟩
    have hf : r.length / 2 + 1 ≤ f := by simp only [List.length_cons] at h; omega
    rw [loop_pair, readNullString]
    by_cases hz : (a == 0 && c == 0) = true
    · rw [if_pos hz, if_pos hz]
      have ha : a = 0 := by simp only [Bool.and_eq_true, beq_iff_eq] at hz; exact hz.1
      have hc : c = 0 := by simp only [Bool.and_eq_true, beq_iff_eq] at hz; exact hz.2
      rw [ha, hc]
    · rw [if_neg hz, if_neg hz, loop_eq r f (ret ++ [a, c]) hf]
      simp only [List.append_assoc, List.cons_append, List.nil_append]

end GoUefi.GenNullStr
