import GoUefi.GenPrelude
import GoUefi.Model.Boot
/-!
# Facts about the prelude functions behind `fmt.Sprintf` (`fmtHex`) and `&^` (`intAndNot`)

Used by `Properties/C18g.lean` (boot names) and `Properties/C01g.lean` (padding).
-/
namespace GoUefi.GenFmt
open GoUefi GoUefi.Gen

/-! ### `%04X` -/

theorem toUpper_digitChar (d : Nat) (h : d < 16) : Char.toUpper (Nat.digitChar d) = hexDigitU d := by
  have : ∀ k : Fin 16, Char.toUpper (Nat.digitChar k.val) = hexDigitU k.val := by decide
  exact this ⟨d, h⟩

theorem hexDigitU_zero : hexDigitU 0 = '0' := by decide

/-- the hexadecimal digits of a number below 16^4, by the number of digits -/
theorem toDigits16_cases (n : Nat) (h : n < 65536) :
    Nat.toDigits 16 n =
      if n < 16 then [Nat.digitChar n]
      else if n < 256 then [Nat.digitChar (n / 16), Nat.digitChar (n % 16)]
      else if n < 4096 then [Nat.digitChar (n / 256), Nat.digitChar (n / 16 % 16), Nat.digitChar (n % 16)]
      else [Nat.digitChar (n / 4096), Nat.digitChar (n / 256 % 16), Nat.digitChar (n / 16 % 16), Nat.digitChar (n % 16)] := by
  by_cases h1 : n < 16
  · rw [if_pos h1, Nat.toDigits_of_lt_base h1]
  · rw [if_neg h1, Nat.toDigits_of_base_le (by omega) (by omega)]
    by_cases h2 : n < 256
    · rw [if_pos h2, Nat.toDigits_of_lt_base (by omega)]; rfl
    · rw [if_neg h2, Nat.toDigits_of_base_le (by omega) (by omega)]
      by_cases h3 : n < 4096
      · rw [if_pos h3, Nat.toDigits_of_lt_base (by omega)]
        have e1 : n / 16 / 16 = n / 256 := by omega
        rw [e1]; rfl
      · rw [if_neg h3, Nat.toDigits_of_base_le (by omega) (by omega), Nat.toDigits_of_lt_base (by omega)]
        have e1 : n / 16 / 16 / 16 = n / 4096 := by omega
        have e2 : n / 16 / 16 % 16 = n / 256 % 16 := by omega
        rw [e1, e2]; rfl

/-- `%04X` of a 16-bit value is exactly four upper-case hexadecimal digits: the model's `hex4U` -/
theorem fmtHex_upper4 (n : Nat) (h : n < 65536) : fmtHex true 4 n = String.ofList (hex4U n) := by
  unfold fmtHex hexDigits
  rw [if_pos rfl, toDigits16_cases n h]
  congr 1
  unfold hex4U
  by_cases h1 : n < 16
  · rw [if_pos h1]
    have a1 : n / 4096 % 16 = 0 := by omega
    have a2 : n / 256 % 16 = 0 := by omega
    have a3 : n / 16 % 16 = 0 := by omega
    have a4 : n % 16 = n := by omega
    rw [a1, a2, a3, a4, hexDigitU_zero]
    simp only [List.map_cons, List.map_nil, List.length_cons, List.length_nil]
    rw [toUpper_digitChar n h1]; rfl
  · rw [if_neg h1]
    by_cases h2 : n < 256
    · rw [if_pos h2]
      have a1 : n / 4096 % 16 = 0 := by omega
      have a2 : n / 256 % 16 = 0 := by omega
      have a3 : n / 16 % 16 = n / 16 := by omega
      rw [a1, a2, a3, hexDigitU_zero]
      simp only [List.map_cons, List.map_nil, List.length_cons, List.length_nil]
      rw [toUpper_digitChar _ (by omega), toUpper_digitChar _ (by omega)]; rfl
    · rw [if_neg h2]
      by_cases h3 : n < 4096
      · rw [if_pos h3]
        have a1 : n / 4096 % 16 = 0 := by omega
        have a2 : n / 256 % 16 = n / 256 := by omega
        rw [a1, a2, hexDigitU_zero]
        simp only [List.map_cons, List.map_nil, List.length_cons, List.length_nil]
        rw [toUpper_digitChar _ (by omega), toUpper_digitChar _ (by omega), toUpper_digitChar _ (by omega)]; rfl
      · rw [if_neg h3]
        have a1 : n / 4096 % 16 = n / 4096 := by omega
        rw [a1]
        simp only [List.map_cons, List.map_nil, List.length_cons, List.length_nil]
        rw [toUpper_digitChar _ (by omega), toUpper_digitChar _ (by omega), toUpper_digitChar _ (by omega),
          toUpper_digitChar _ (by omega)]; rfl

/-- "Boot" ++ `%04X`: the firmware's name of a boot option (`Spec.fwBootName`) -/
theorem boot_name (n : Nat) (h : n < 65536) :
    "Boot" ++ fmtHex true 4 n = String.ofList (Spec.fwBootName n) := by
  rw [fmtHex_upper4 n h]
  unfold Spec.fwBootName
  rw [String.ofList_append, String.ofList_toList]

/-! ### `&^` with a mask `2^k - 1` (rounding down to a multiple of `2^k`) -/

theorem and_not_mask (X k : Nat) (hk : k ≤ 64) (hX : X < 2 ^ 64) :
    X &&& (2 ^ 64 - 1 - (2 ^ k - 1)) = 2 ^ k * (X / 2 ^ k) := by
  have hpow : 2 ^ k ≤ 2 ^ 64 := Nat.pow_le_pow_right (by omega) hk
  have hpos : 0 < 2 ^ k := Nat.two_pow_pos k
  have hm : 2 ^ k - 1 < 2 ^ 64 := by omega
  have e : 2 ^ 64 - 1 - (2 ^ k - 1) = 2 ^ 64 - ((2 ^ k - 1) + 1) := by omega
  rw [e]
  apply Nat.eq_of_testBit_eq
  intro i
  rw [Nat.testBit_and, Nat.testBit_two_pow_sub_succ hm, Nat.testBit_two_pow_sub_one, Nat.testBit_two_pow_mul,
    Nat.testBit_div_two_pow]
  by_cases hik : i < k
  · have h1 : decide (i < k) = true := decide_eq_true hik
    have h2 : decide (i ≥ k) = false := decide_eq_false (by omega)
    rw [h1, h2]; simp
  · have h1 : decide (i < k) = false := decide_eq_false hik
    have h2 : decide (i ≥ k) = true := decide_eq_true (by omega)
    have e2 : i - k + k = i := by omega
    rw [h1, h2, e2]
    by_cases hi : i < 64
    · have h3 : decide (i < 64) = true := decide_eq_true hi
      rw [h3]; simp
    · have hXi : X.testBit i = false :=
        Nat.testBit_lt_two_pow (Nat.lt_of_lt_of_le hX (Nat.pow_le_pow_right (by omega) (by omega)))
      rw [hXi]; simp

/-- `x &^ (2^k - 1)` on Go's `int`, for a non-negative `x`: `x` rounded down to a multiple of `2^k` -/
theorem intAndNot_mask_nat (X k : Nat) (hX : X < 2 ^ 63) (hk : k ≤ 63) :
    intAndNot (X : Int) ((2 ^ k - 1 : Nat) : Int) = ((2 ^ k * (X / 2 ^ k) : Nat) : Int) := by
  have hpow : 2 ^ k ≤ 2 ^ 63 := Nat.pow_le_pow_right (by omega) hk
  have hpos : 0 < 2 ^ k := Nat.two_pow_pos k
  have hX64 : X < 2 ^ 64 := by omega
  have hm64 : 2 ^ k - 1 < 2 ^ 64 := by omega
  have hval : (BitVec.ofNat 64 X &&& ~~~ BitVec.ofNat 64 (2 ^ k - 1)).toNat = 2 ^ k * (X / 2 ^ k) := by
    rw [BitVec.toNat_and, BitVec.toNat_not, BitVec.toNat_ofNat, BitVec.toNat_ofNat, Nat.mod_eq_of_lt hX64,
      Nat.mod_eq_of_lt hm64, and_not_mask X k (by omega) hX64]
  have hle : 2 ^ k * (X / 2 ^ k) ≤ X := Nat.mul_div_le X (2 ^ k)
  unfold intAndNot
  rw [BitVec.ofInt_natCast, BitVec.ofInt_natCast, BitVec.toInt_eq_toNat_of_lt (by rw [hval]; omega), hval]

/-- rounding up to a multiple of `P`: the distance is `(P - n % P) % P` -/
theorem roundUp_sub (n P : Nat) (hP : 0 < P) : P * ((n + P - 1) / P) = n + (P - n % P) % P := by
  have hdm : P * (n / P) + n % P = n := Nat.div_add_mod n P
  have hr : n % P < P := Nat.mod_lt n hP
  have e1 : n + P - 1 = n % P + P - 1 + P * (n / P) := by omega
  rw [e1, Nat.add_mul_div_left _ _ hP]
  by_cases h0 : n % P = 0
  · have e2 : (n % P + P - 1) / P = 0 := Nat.div_eq_of_lt (by omega)
    have e3 : (P - n % P) % P = 0 := by rw [h0, Nat.sub_zero, Nat.mod_self]
    rw [e2, e3, Nat.zero_add]; omega
  · have e2 : (n % P + P - 1) / P = 1 := by
      have e : n % P + P - 1 = (n % P - 1) + 1 * P := by omega
      rw [e, Nat.add_mul_div_right _ _ hP, Nat.div_eq_of_lt (by omega)]
    have e3 : (P - n % P) % P = P - n % P := Nat.mod_eq_of_lt (by omega)
    rw [e2, e3, Nat.mul_add, Nat.mul_one]; omega

end GoUefi.GenFmt
