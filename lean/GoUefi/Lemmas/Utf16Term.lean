import GoUefi.Lemmas.Utf16
/- C17 addendum: `parseUtf16` succeeds only on input that ends with an aligned NUL terminator -/
namespace GoUefi

theorem toNat_ofNat_valid (n : Nat) (hv : n.isValidChar) : (Char.ofNat n).toNat = n := by
  unfold Char.ofNat
  rw [dif_pos hv]
  simp [Char.ofNatAux, Char.toNat]

theorem charOfNat_ne_nul (n : Nat) (h0 : n ≠ 0) (hv : n.isValidChar) : Char.ofNat n ≠ '\x00' := by
  intro h
  have h1 := congrArg Char.toNat h
  rw [toNat_ofNat_valid n hv] at h1
  exact h0 h1

theorem fffd_ne_nul : Char.ofNat 0xFFFD ≠ '\x00' := by decide

theorem utf16dec_eq_nil {us : List Nat} (h : utf16dec us = []) : us = [] := by
  match us with
  | [] => rfl
  | [u] => simp [utf16dec] at h
  | u :: v :: rest =>
    unfold utf16dec at h
    split at h
    · split at h <;> simp at h
    · simp at h

theorem getLast?_cons_ne_nil {α} (a : α) (l : List α) (h : l ≠ []) :
    (a :: l).getLast? = l.getLast? := by
  cases l with
  | nil => exact absurd rfl h
  | cons b l => simp [List.getLast?_cons_cons]

/-- the last decoded character is NUL only if the last code unit is 0 -/
theorem utf16dec_last_nul (us : List Nat) (hlt : ∀ u ∈ us, u < 65536)
    (h : (utf16dec us).getLast? = some '\x00') : us.getLast? = some 0 := by
  induction us using utf16dec.induct with
  | case1 => simp [utf16dec] at h
  | case2 u =>
    have hu := hlt u (by simp)
    simp only [utf16dec, List.getLast?_singleton, Option.some.injEq] at h
    split at h
    · exact absurd h fffd_ne_nul
    · rename_i hs
      by_cases h0 : u = 0
      · simp [h0]
      · exact absurd h (charOfNat_ne_nul u h0 (by unfold Nat.isValidChar; omega))
  | case3 u v rest hs hl ih =>
    -- surrogate followed by a low surrogate: two units are consumed
    have hlt' : ∀ x ∈ rest, x < 65536 := fun x hx => hlt x (by simp [hx])
    unfold utf16dec at h
    rw [if_pos hs, if_pos hl] at h
    by_cases hr : rest = []
    · subst hr
      simp only [utf16dec, List.getLast?_singleton, Option.some.injEq] at h
      split at h
      · rename_i hu
        exact absurd h (charOfNat_ne_nul _ (by omega) (by unfold Nat.isValidChar; omega))
      · exact absurd h fffd_ne_nul
    · have hne : utf16dec rest ≠ [] := fun e => hr (utf16dec_eq_nil e)
      rw [getLast?_cons_ne_nil _ _ hne] at h
      have := ih hlt' h
      rw [getLast?_cons_ne_nil _ _ (by simp), getLast?_cons_ne_nil _ _ hr]
      exact this
  | case4 u v rest hs hl ih =>
    have hlt' : ∀ x ∈ v :: rest, x < 65536 := fun x hx => hlt x (by simp [hx])
    unfold utf16dec at h
    rw [if_pos hs, if_neg hl] at h
    have hne : utf16dec (v :: rest) ≠ [] := fun e => by simpa using utf16dec_eq_nil e
    rw [getLast?_cons_ne_nil _ _ hne] at h
    rw [getLast?_cons_ne_nil _ _ (by simp)]
    exact ih hlt' h
  | case5 u v rest hs ih =>
    have hlt' : ∀ x ∈ v :: rest, x < 65536 := fun x hx => hlt x (by simp [hx])
    unfold utf16dec at h
    rw [if_neg hs] at h
    have hne : utf16dec (v :: rest) ≠ [] := fun e => by simpa using utf16dec_eq_nil e
    rw [getLast?_cons_ne_nil _ _ hne] at h
    rw [getLast?_cons_ne_nil _ _ (by simp)]
    exact ih hlt' h

theorem bytesToUnits_lt (bs : Bytes) : ∀ u ∈ (bytesToUnits bs).1, u < 65536 := by
  induction bs using bytesToUnits.induct with
  | case1 a b r us o hr ih =>
    intro u hu
    simp only [bytesToUnits, List.mem_cons] at hu
    rcases hu with rfl | hu
    · have := a.toNat_lt; have := b.toNat_lt; omega
    · exact ih u hu
  | case2 a => simp [bytesToUnits]
  | case3 => simp [bytesToUnits]

theorem bytesToUnits_nil_even {bs : Bytes} (h1 : (bytesToUnits bs).1 = [])
    (h2 : (bytesToUnits bs).2 = false) : bs = [] := by
  match bs with
  | [] => rfl
  | [a] => simp [bytesToUnits] at h2
  | a :: b :: r => simp [bytesToUnits] at h1

theorem uint8_eq_zero_of_toNat (a : UInt8) (h : a.toNat = 0) : a = 0 := by
  have := toNat_toUInt8 a
  rw [h] at this
  exact this.symm

/-- an even-length byte string whose last code unit is 0 ends with an aligned 00 00 -/
theorem bytesToUnits_last_zero (bs : Bytes) (hodd : (bytesToUnits bs).2 = false)
    (h : (bytesToUnits bs).1.getLast? = some 0) :
    ∃ p, bs = p ++ [0, 0] ∧ p.length % 2 = 0 := by
  induction bs using bytesToUnits.induct with
  | case1 a b r us o _ ih =>
    simp only [bytesToUnits] at hodd h
    by_cases hr : (bytesToUnits r).1 = []
    · have := bytesToUnits_nil_even hr hodd
      subst this
      simp only [bytesToUnits, List.getLast?_singleton, Option.some.injEq] at h
      have ha : a = 0 := uint8_eq_zero_of_toNat a (by omega)
      have hb : b = 0 := uint8_eq_zero_of_toNat b (by omega)
      subst ha; subst hb
      exact ⟨[], rfl, rfl⟩
    · rw [getLast?_cons_ne_nil _ _ hr] at h
      obtain ⟨p, hp, hl⟩ := ih hodd h
      refine ⟨a :: b :: p, by rw [hp]; rfl, ?_⟩
      simp only [List.length_cons]; omega
  | case2 a => simp [bytesToUnits] at hodd
  | case3 => simp [bytesToUnits] at h

theorem parseUtf16_ok_last {bs : Bytes} (h : parseUtf16 bs ≠ .err) :
    (decodeUtf16Bytes bs).getLast? = some '\x00' := by
  unfold parseUtf16 at h
  simp only at h
  split at h
  · exact absurd rfl h
  · rename_i c hc
    split at h
    · exact absurd rfl h
    · rename_i hne
      rw [hc, Decidable.not_not.mp hne]

/-- a successful (more precisely: non-error) `parseUtf16` needs an aligned terminator -/
theorem parseUtf16_terminated {bs : Bytes} (h : parseUtf16 bs ≠ .err) :
    ∃ p, bs = p ++ [0, 0] ∧ p.length % 2 = 0 := by
  have hl := parseUtf16_ok_last h
  unfold decodeUtf16Bytes at hl
  simp only at hl
  cases hodd : (bytesToUnits bs).2 with
  | true =>
    rw [hodd] at hl
    simp only [if_true, List.getLast?_append, List.getLast?_singleton, Option.some_or,
      Option.some.injEq] at hl
    exact absurd hl fffd_ne_nul
  | false =>
    rw [hodd] at hl
    simp only [Bool.false_eq_true, if_false, List.append_nil] at hl
    exact bytesToUnits_last_zero bs hodd (utf16dec_last_nul _ (bytesToUnits_lt bs) hl)

theorem parseUtf16_no_terminator (bs : Bytes)
    (h : ¬ (∃ p, bs = p ++ [0, 0] ∧ p.length % 2 = 0)) : parseUtf16 bs = .err :=
  Decidable.byContradiction fun hne => h (parseUtf16_terminated hne)

end GoUefi
