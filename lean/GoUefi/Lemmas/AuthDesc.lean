import GoUefi.Model.AuthDesc
import GoUefi.Lemmas.Bytes
/- helper lemmas for C10: WIN_CERTIFICATE / EFI_VARIABLE_AUTHENTICATION_2 readers and writers -/
namespace GoUefi

theorem readN_append' {n : Nat} (x rest : Bytes) (h : x.length = n) :
    readN n (x ++ rest) = .ok (x, rest) := by
  subst h; exact readN_append x rest

instance Spec.Auth.decWF (a : Spec.Auth) : Decidable a.WF := by unfold Spec.Auth.WF; exact inferInstance

namespace Impl

/-- everything a successful `readWinCert` tells about its input -/
theorem readWinCert_ok {bs : Bytes} {w : WinCert} {rest : Bytes}
    (h : readWinCert bs = .ok (w, rest)) :
    ∃ l rv ct r3 : Bytes, bs = l ++ (rv ++ (ct ++ r3)) ∧ l.length = 4 ∧ rv.length = 2 ∧ ct.length = 2 ∧
      rd16 rv = winCertRevision ∧ 8 ≤ rd32 l ∧ rd32 l - 8 ≤ r3.length ∧
      w = ⟨rd32 l, rd16 rv, rd16 ct, r3.take (rd32 l - 8)⟩ ∧ rest = r3.drop (rd32 l - 8) := by
  unfold readWinCert at h
  split at h
  · simp at h
  · rename_i l r1 h1
    split at h
    · simp at h
    · rename_i rv r2 h2
      split at h
      · simp at h
      · rename_i ct r3 h3
        split at h
        · simp at h
        · rename_i hrev
          split at h
          · simp at h
          · rename_i hlen
            split at h
            · simp at h
            · rename_i hbody
              obtain ⟨e1, l1⟩ := readN_ok h1
              obtain ⟨e2, l2⟩ := readN_ok h2
              obtain ⟨e3, l3⟩ := readN_ok h3
              simp only [Outcome.ok.injEq, Prod.mk.injEq] at h
              obtain ⟨hw, hr⟩ := h
              refine ⟨l, rv, ct, r3, ?_, l1, l2, l3, ?_, by omega, by omega, hw.symm, hr.symm⟩
              · rw [e1, e2, e3]
              · exact Decidable.not_not.mp hrev

/-- the reader on a header followed by a body of the declared size -/
theorem readWinCert_parts (l rv ct body rest : Bytes) (hl : l.length = 4) (hrv : rv.length = 2)
    (hct : ct.length = 2) (hrev : rd16 rv = winCertRevision) (hlen : rd32 l = 8 + body.length) :
    readWinCert (l ++ (rv ++ (ct ++ (body ++ rest)))) =
      .ok (⟨rd32 l, rd16 rv, rd16 ct, body⟩, rest) := by
  unfold readWinCert
  rw [readN_append' l _ hl]
  simp only
  rw [readN_append' rv _ hrv]
  simp only
  rw [readN_append' ct _ hct]
  simp only
  have hk : rd32 l - 8 = body.length := by omega
  rw [if_neg (by simp [hrev]), if_neg (by omega), if_neg (by simp [hk])]
  rw [hk, List.take_left' rfl, List.drop_left' rfl]

theorem readWinCert_enc (body rest : Bytes) (ctype : Nat) (h : body.length + 8 < 2^32)
    (hc : ctype < 2^16) :
    readWinCert (le32 (8 + body.length) ++ le16 0x0200 ++ le16 ctype ++ body ++ rest) =
      .ok (⟨8 + body.length, 0x0200, ctype, body⟩, rest) := by
  have hl : rd32 (le32 (8 + body.length)) = 8 + body.length := rd32_le32 _ (by omega)
  have hr : rd16 (le16 0x0200) = 0x0200 := rd16_le16 _ (by omega)
  have := readWinCert_parts (le32 (8 + body.length)) (le16 0x0200) (le16 ctype) body rest rfl rfl rfl
    hr hl
  rw [hl, hr, rd16_le16 _ hc] at this
  simpa only [List.append_assoc] using this

theorem writeWinCert_readWinCert {bs : Bytes} {w : WinCert} {rest : Bytes}
    (h : readWinCert bs = .ok (w, rest)) : writeWinCert w ++ rest = bs := by
  obtain ⟨l, rv, ct, r3, rfl, hl, hrv, hct, _, _, _, rfl, rfl⟩ := readWinCert_ok h
  simp only [writeWinCert]
  rw [le32_rd32 l hl, le16_rd16 rv hrv, le16_rd16 ct hct]
  simp only [List.append_assoc, List.take_append_drop]

/-- everything a successful `readWinCertGuid` tells -/
theorem readWinCertGuid_ok {bs : Bytes} {g : WinCertGuid} {rest : Bytes}
    (h : readWinCertGuid bs = .ok (g, rest)) :
    ∃ w : WinCert, readWinCert bs = .ok (w, rest) ∧ 16 ≤ w.cert.length ∧
      g = ⟨{ w with cert := [] }, w.cert.take 16, w.cert.drop 16⟩ := by
  unfold readWinCertGuid at h
  split at h
  · rename_i w r hw
    split at h
    · simp at h
    · rename_i hlen
      simp only [Outcome.ok.injEq, Prod.mk.injEq] at h
      obtain ⟨hg, hr⟩ := h
      subst hr
      exact ⟨w, hw, by omega, hg.symm⟩
  · simp at h
  · simp at h
  · simp at h

/-- everything a successful `readAuth` tells -/
theorem readAuth_ok {bs : Bytes} {d : AuthDesc} {rest : Bytes}
    (h : readAuth bs = .ok (d, rest)) :
    ∃ t r1 : Bytes, bs = t ++ r1 ∧ t.length = 16 ∧ d.time = t ∧
      readWinCertGuid r1 = .ok (d.auth, rest) ∧ d.auth.hdr.ctype = winCertTypeEfiGuid := by
  unfold readAuth at h
  split at h
  · simp at h
  · rename_i t r1 h1
    obtain ⟨e1, l1⟩ := readN_ok h1
    split at h
    · rename_i a r ha
      split at h
      · simp at h
      · rename_i hct
        simp only [Outcome.ok.injEq, Prod.mk.injEq] at h
        obtain ⟨hd, hr⟩ := h
        subst hd; subst hr
        exact ⟨t, r1, e1, l1, rfl, ha, Decidable.not_not.mp hct⟩
    · simp at h
    · simp at h
    · simp at h

/-- the flat shape of a successfully decoded descriptor -/
theorem readAuth_shape {bs : Bytes} {d : AuthDesc} {rest : Bytes}
    (h : readAuth bs = .ok (d, rest)) :
    ∃ t l rv ct r3 : Bytes, bs = t ++ (l ++ (rv ++ (ct ++ r3))) ∧ t.length = 16 ∧ l.length = 4 ∧
      rv.length = 2 ∧ ct.length = 2 ∧ rd16 rv = winCertRevision ∧ rd16 ct = winCertTypeEfiGuid ∧
      24 ≤ rd32 l ∧ rd32 l - 8 ≤ r3.length ∧
      d = ⟨t, ⟨⟨rd32 l, rd16 rv, rd16 ct, []⟩, (r3.take (rd32 l - 8)).take 16,
                (r3.take (rd32 l - 8)).drop 16⟩⟩ ∧
      rest = r3.drop (rd32 l - 8) := by
  obtain ⟨t, r1, rfl, ht, hdt, hg, hct⟩ := readAuth_ok h
  obtain ⟨w, hw, hlen, hga⟩ := readWinCertGuid_ok hg
  obtain ⟨l, rv, ct, r3, rfl, hl, hrv, hctl, hrev, h8, hbody, rfl, rfl⟩ := readWinCert_ok hw
  simp only [List.length_take] at hlen
  refine ⟨t, l, rv, ct, r3, rfl, ht, hl, hrv, hctl, hrev, ?_, by omega, hbody, ?_, rfl⟩
  · rw [hga] at hct; exact hct
  · cases d with
    | mk dt da =>
      simp only at hdt hga
      subst hdt; subst hga; rfl

/-- the well-formedness of descriptors that the reader produces and the writer round-trips -/
def AuthDesc.WF (d : AuthDesc) : Prop :=
  d.time.length = 16 ∧ d.auth.certType.length = 16 ∧ d.auth.hdr.cert = [] ∧
  d.auth.hdr.length = 24 + d.auth.data.length ∧ d.auth.hdr.length < 2^32 ∧
  d.auth.hdr.rev = winCertRevision ∧ d.auth.hdr.ctype = winCertTypeEfiGuid

instance AuthDesc.decWF (d : AuthDesc) : Decidable d.WF := by unfold AuthDesc.WF; exact inferInstance

theorem readAuth_wf {bs : Bytes} {d : AuthDesc} {rest : Bytes}
    (h : readAuth bs = .ok (d, rest)) : d.WF := by
  obtain ⟨t, l, rv, ct, r3, _, ht, _, _, _, hrev, hct, h24, hbody, rfl, _⟩ := readAuth_shape h
  refine ⟨ht, ?_, rfl, ?_, rd32_lt l, hrev, hct⟩
  · simp only [List.length_take]; omega
  · simp only [List.length_drop, List.length_take]; omega

end Impl

open Impl in
theorem readAuth_encAuth (a : Spec.Auth) (rest : Bytes) (h : a.WF) (hrev : a.rev = 0x0200)
    (hct : a.ctype = 0x0EF1) :
    readAuth (Spec.encAuth a ++ rest) =
      .ok (⟨a.time, ⟨⟨a.dwLength, a.rev, a.ctype, []⟩, a.guid, a.data⟩⟩, rest) := by
  obtain ⟨ht, hg, hdw, hlt, _, hc⟩ := h
  have hbody : (a.guid ++ a.data).length + 8 < 2^32 := by simp [hg]; omega
  have hw := readWinCert_enc (a.guid ++ a.data) rest a.ctype hbody hc
  have e : 8 + (a.guid ++ a.data).length = a.dwLength := by simp [hg]; omega
  rw [e] at hw
  have hin : Spec.encAuth a ++ rest =
      a.time ++ (le32 a.dwLength ++ le16 0x0200 ++ le16 a.ctype ++ (a.guid ++ a.data) ++ rest) := by
    simp only [Spec.encAuth, hrev, List.append_assoc]
  rw [hin]
  unfold readAuth
  rw [readN_append' a.time _ ht]
  simp only
  unfold readWinCertGuid
  rw [hw]
  simp only
  rw [if_neg (by simp [hg])]
  simp only [List.take_left' hg, List.drop_left' hg]
  rw [if_neg (by simp [hct, winCertTypeEfiGuid])]
  rw [hrev]

open Impl in
theorem writeAuth_readAuth {bs : Bytes} {d : AuthDesc} {rest : Bytes}
    (h : readAuth bs = .ok (d, rest)) : writeAuth d ++ rest = bs := by
  obtain ⟨t, l, rv, ct, r3, rfl, _, hl, hrv, hct, _, _, _, _, rfl, rfl⟩ := readAuth_shape h
  simp only [writeAuth, writeWinCertGuid, writeWinCert]
  rw [le32_rd32 l hl, le16_rd16 rv hrv, le16_rd16 ct hct]
  simp only [List.append_assoc, List.take_append_drop, List.nil_append]

open Impl in
/-- the writer emits exactly the specified layout -/
theorem writeAuth_eq_encAuth (d : AuthDesc) (h : d.auth.hdr.cert = []) :
    writeAuth d = Spec.encAuth ⟨d.time, d.auth.hdr.length, d.auth.hdr.rev, d.auth.hdr.ctype,
      d.auth.certType, d.auth.data⟩ := by
  simp only [writeAuth, writeWinCertGuid, writeWinCert, Spec.encAuth, h, List.append_assoc,
    List.nil_append]

open Impl in
theorem readAuth_writeAuth (d : AuthDesc) (rest : Bytes) (h : d.WF) :
    readAuth (writeAuth d ++ rest) = .ok (d, rest) := by
  obtain ⟨ht, hg, hc, hlen, hlt, hrev, hct⟩ := h
  rw [writeAuth_eq_encAuth d hc]
  have := readAuth_encAuth ⟨d.time, d.auth.hdr.length, d.auth.hdr.rev, d.auth.hdr.ctype,
      d.auth.certType, d.auth.data⟩ rest
      ⟨ht, hg, hlen, hlt, by simp [hrev, winCertRevision], by simp [hct, winCertTypeEfiGuid]⟩ hrev hct
  rw [this]
  cases d with
  | mk t a =>
    cases a with
    | mk hdr cty data =>
      cases hdr with
      | mk l r c cert =>
        simp only at hc
        subst hc; rfl

open Impl in
theorem decodeAuth_readAuth {bs : Bytes} {d : AuthDesc} {rest : Bytes}
    (h : readAuth bs = .ok (d, rest)) :
    Spec.decodeAuth bs = some (⟨d.time, d.auth.hdr.length, d.auth.hdr.rev, d.auth.hdr.ctype,
      d.auth.certType, d.auth.data⟩, rest) := by
  obtain ⟨t, l, rv, ct, r3, rfl, ht, hl, hrv, hct, _, _, h24, hbody, rfl, rfl⟩ := readAuth_shape h
  have e16 : (t ++ (l ++ (rv ++ (ct ++ r3)))).drop 16 = l ++ (rv ++ (ct ++ r3)) := List.drop_left' ht
  have e20 : (t ++ (l ++ (rv ++ (ct ++ r3)))).drop 20 = rv ++ (ct ++ r3) := by
    rw [← List.append_assoc]; exact List.drop_left' (by simp [ht, hl])
  have e22 : (t ++ (l ++ (rv ++ (ct ++ r3)))).drop 22 = ct ++ r3 := by
    rw [← List.append_assoc, ← List.append_assoc]; exact List.drop_left' (by simp [ht, hl, hrv])
  have e24 : (t ++ (l ++ (rv ++ (ct ++ r3)))).drop 24 = r3 := by
    rw [← List.append_assoc, ← List.append_assoc, ← List.append_assoc]
    exact List.drop_left' (by simp [ht, hl, hrv, hct])
  have e40 : (t ++ (l ++ (rv ++ (ct ++ r3)))).drop 40 = r3.drop 16 := by
    rw [show 40 = 24 + 16 from rfl, ← List.drop_drop, e24]
  have eend : (t ++ (l ++ (rv ++ (ct ++ r3)))).drop (16 + rd32 l) = r3.drop (rd32 l - 8) := by
    rw [show 16 + rd32 l = 24 + (rd32 l - 8) by omega, ← List.drop_drop, e24]
  have elen : (t ++ (l ++ (rv ++ (ct ++ r3)))).length = 24 + r3.length := by
    simp [ht, hl, hrv, hct]; omega
  unfold Spec.decodeAuth
  rw [if_neg (by omega)]
  simp only [e16, List.take_left' hl]
  rw [if_neg (by omega), if_neg (by omega)]
  rw [e20, e22, e24, e40, eend, List.take_left' ht, List.take_left' hrv, List.take_left' hct]
  simp only [List.take_take, List.drop_take]
  rw [Nat.min_eq_left (by omega), show rd32 l - 8 - 16 = rd32 l - 24 by omega]

end GoUefi
