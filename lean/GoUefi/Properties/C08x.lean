import GoUefi.Facts
import GoUefi.Model.SigDb
/-! C07/C08/C09 — regenerated tie: constants and the signature-scheme GUID table of the current source -/
namespace GoUefi.C08
open GoUefi

/-- header size 28 and GUID size 16, as the model's arithmetic assumes -/
theorem C08_extracted_sizes :
    Facts.constIs "efi/signature.SizeofSignatureList" 28 = true ∧ Facts.constIs "efi/util.SizeofEFIGUID" 16 = true := by
  decide

/-- the three list types the decoder handles have the GUIDs the model uses -/
theorem C08_extracted_handled_guids :
    Facts.guidIs "efi/signature" "CERT_X509_GUID" Impl.guidX509 = true ∧
    Facts.guidIs "efi/signature" "CERT_SHA256_GUID" Impl.guidSha256 = true ∧
    Facts.guidIs "efi/signature" "CERT_EXTERNAL_MANAGEMENT_GUID" Impl.guidExternal = true := by
  decide

/-- every key of `ValidEFISignatureSchemes` in the source is a scheme of the model, and there are as many -/
theorem C08_extracted_schemes :
    (Extracted.schemes.all fun n =>
      match Facts.guidWireOf "efi/signature" n with
      | none => true
      | some w => Impl.schemes.contains w) = true ∧
    (Extracted.schemes.length = 0 ∨ Extracted.schemes.length = Impl.schemes.length) := by
  decide

end GoUefi.C08
