import GoUefi.Model.Pure
/-!
# C19 — read-only operations are pure, repeatable and schedule-independent

Frame theorems for every read-only method of the model (the state after the call is the state
before), repeatability for arbitrary call sequences, schedule independence for threads whose
atomic steps only read the shared object, and — so that the distinction is not vacuous — the
kernel-checked failure of the same statements for the two realistic regressions (walking the
certificate table with `Next`, a pointer receiver on the signed-update wrapper).
Which buffer methods the Go methods call, and with which receiver kind, is re-extracted from the
source on every run: Properties/C19x.lean.
-/
namespace GoUefi.C19
open GoUefi GoUefi.Impl

/-- Hash, Bytes/Open, Signatures and Verify leave the parsed image (certificate table buffer
    included) exactly as it was -/
theorem C19_frame_image (C : Crypto) (ok : Bytes → Bool) (c : Cert) (s : ImgSt) :
    (s.hash C).1 = s ∧ s.bytesOut.1 = s ∧ s.signatures.1 = s ∧ (s.verify C ok c).1 = s :=
  ⟨rfl, rfl, rfl, rfl⟩

/-- Bytes/Marshal and the membership queries leave the database as it was -/
theorem C19_frame_database (db : Db) (t o d : Bytes) (sigs : List SData) :
    (dbBytes db).1 = db ∧ (dbHas t o d db).1 = db ∧ (dbHasAll t sigs db).1 = db :=
  ⟨rfl, rfl, rfl⟩

/-- Marshal/Bytes of the signed-update value (value receiver) leave it as it was, and return the
    whole unread content -/
theorem C19_frame_update (s : Buffer) : (updMarshal s).1 = s ∧ (updMarshal s).2 = s.bytes :=
  ⟨rfl, rfl⟩

/-- a read-only operation on a state type `St` -/
structure ReadOp (St R : Type) where
  run : St → St × R
  frame : ∀ s, (run s).1 = s

/-- any sequence of read-only operations: every result equals the result on the initial state,
    and the final state is the initial state -/
theorem C19_repeatable {St R : Type} (ops : List (ReadOp St R)) (s : St) :
    (ops.foldl (fun (acc : St × List R) op => ((op.run acc.1).1, acc.2 ++ [(op.run acc.1).2])) (s, [])) =
      (s, ops.map fun op => (op.run s).2) := by
  suffices h : ∀ (pre : List R), ops.foldl (fun (acc : St × List R) op => ((op.run acc.1).1, acc.2 ++ [(op.run acc.1).2])) (s, pre) =
      (s, pre ++ ops.map fun op => (op.run s).2) by simpa using h []
  induction ops with
  | nil => intro pre; simp
  | cons op ops ih =>
    intro pre
    simp only [List.foldl_cons, List.map_cons]
    rw [op.frame s, ih]
    simp

/-- the concrete image methods as `ReadOp`s, so that `C19_repeatable` applies to them -/
def imageOps (C : Crypto) (ok : Bytes → Bool) (c : Cert) : List (ReadOp ImgSt String) := [
  ⟨fun s => (s, toString (repr (s.hash C).2)), fun _ => rfl⟩,
  ⟨fun s => (s, toString (repr s.bytesOut.2)), fun _ => rfl⟩,
  ⟨fun s => (s, toString (repr s.signatures.2)), fun _ => rfl⟩,
  ⟨fun s => (s, toString (repr (s.verify C ok c).2)), fun _ => rfl⟩]

theorem thread_step_pc {S L} (s : S) (t : Thread S L) (h : t.loc = t.inv.runPrefix s t.pc) (hp : t.pc ≤ t.inv.steps.length) :
    (t.step s).loc = (t.step s).inv.runPrefix s (t.step s).pc ∧ (t.step s).pc ≤ (t.step s).inv.steps.length ∧ (t.step s).inv = t.inv := by
  unfold Thread.step
  cases hg : t.inv.steps[t.pc]? with
  | none => simp [h, hp]
  | some f =>
    have hlt : t.pc < t.inv.steps.length := by
      rcases Nat.lt_or_ge t.pc t.inv.steps.length with h1 | h1
      · exact h1
      · rw [List.getElem?_eq_none h1] at hg; cases hg
    refine ⟨?_, by simp; omega, rfl⟩
    simp only [Invocation.runPrefix] at h ⊢
    have : t.inv.steps.take (t.pc + 1) = t.inv.steps.take t.pc ++ [f] := by
      rw [List.take_add_one, hg]; rfl
    rw [this, List.foldl_append, ← h]
    rfl

/-- the invariant every schedule preserves: each thread's local value is the sequential result of
    the steps it has executed so far -/
def Good {S L} (s : S) (ts : List (Thread S L)) : Prop :=
  ∀ t ∈ ts, t.loc = t.inv.runPrefix s t.pc ∧ t.pc ≤ t.inv.steps.length

theorem good_modify {S L} (s : S) (ts : List (Thread S L)) (i : Nat) (h : Good s ts) :
    Good s (ts.modify i (Thread.step s)) ∧ (ts.modify i (Thread.step s)).map (·.inv) = ts.map (·.inv) := by
  induction ts generalizing i with
  | nil => exact ⟨by intro t ht; simp at ht, by simp⟩
  | cons t ts ih =>
    cases i with
    | zero =>
      have ht := h t (by simp)
      obtain ⟨a, b, c⟩ := thread_step_pc s t ht.1 ht.2
      refine ⟨?_, by simp [List.modify, c]⟩
      intro x hx
      simp only [List.modify_zero_cons, List.mem_cons] at hx
      rcases hx with rfl | hx
      · exact ⟨a, b⟩
      · exact h x (by simp [hx])
    | succ i =>
      obtain ⟨g, m⟩ := ih i (fun x hx => h x (by simp [hx]))
      refine ⟨?_, by simp [List.modify_succ_cons, m]⟩
      intro x hx
      simp only [List.modify_succ_cons, List.mem_cons] at hx
      rcases hx with rfl | hx
      · exact h x (by simp)
      · exact g x hx

/-- schedule independence: under EVERY schedule (any interleaving, any length) each invocation's
    local value is what sequential execution of its completed steps gives; in particular every
    invocation that ran to completion holds exactly its sequential result, whatever the other
    threads did in between -/
theorem C19_schedules {S L} (s : S) (is : List (Invocation S L)) (sched : List Nat) :
    ∀ t ∈ runSchedule s (startThreads is) sched,
      t.loc = t.inv.runPrefix s t.pc ∧ (t.pc = t.inv.steps.length → t.loc = t.inv.result s) := by
  have hstart : Good s (startThreads is) := by
    intro t ht
    simp only [startThreads, List.mem_map] at ht
    obtain ⟨i, _, rfl⟩ := ht
    exact ⟨by simp [Invocation.runPrefix], Nat.zero_le _⟩
  have hall : ∀ (ts : List (Thread S L)), Good s ts → Good s (runSchedule s ts sched) := by
    induction sched with
    | nil => intro ts h; exact h
    | cons i sched ih => intro ts h; exact ih _ (good_modify s ts i h).1
  intro t ht
  have := hall _ hstart t ht
  exact ⟨this.1, fun hp => by rw [this.1, hp]; rfl⟩

/-! ### the two realistic regressions really break the statements (so the frame theorems say something) -/

/-- walking the certificate table with a consuming read: the second call sees an empty table -/
theorem C19_consuming_signatures_breaks :
    ∃ s : ImgSt, (s.signaturesConsuming.1 ≠ s) ∧ (s.signaturesConsuming.1.signaturesConsuming.2 ≠ s.signaturesConsuming.2) := by
  refine ⟨⟨⟨0, 0, [], 0, 0, [], [], [], [], true⟩,
    ⟨[16, 0, 0, 0, 0, 2, 2, 0, 1, 2, 3, 4, 5, 6, 7, 8], 0⟩⟩, ?_, ?_⟩ <;> decide

/-- a pointer receiver on the signed-update wrapper: the second Marshal returns nothing -/
theorem C19_pointer_receiver_breaks :
    ∃ s : Buffer, (updMarshalPtr s).1 ≠ s ∧ (updMarshalPtr (updMarshalPtr s).1).2 ≠ (updMarshalPtr s).2 := by
  refine ⟨⟨[1, 2, 3], 0⟩, ?_, ?_⟩ <;> decide

/-! ### non-vacuity -/
example : (updMarshal ⟨[1, 2, 3], 1⟩).2 = [2, 3] ∧ (updMarshal (updMarshal ⟨[1, 2, 3], 1⟩).1).2 = [2, 3] := by decide
example : ∀ t ∈ runSchedule (10 : Nat) (startThreads [⟨0, [fun s l => l + s, fun s l => l * s]⟩, ⟨1, [fun s l => l + 2 * s]⟩]) [1, 0, 0, 5, 1],
    t.pc = t.inv.steps.length := by decide

end GoUefi.C19
