import GoUefi.Lemmas.Utf16Term
/-!
# C17 (addendum) — decoding UTF-16 input that lacks the NUL terminator is an error

Only the property theorem and its non-vacuity examples live here.
Model: `GoUefi/Model/Utf16.lean` (`ParseUtf16Var`); lemmas: `GoUefi/Lemmas/Utf16Term.lean`.
-/
namespace GoUefi.C17
open GoUefi

/-- `ParseUtf16Var` returns an error on every input that does not end with a 2-byte-aligned
    `00 00` terminator — in particular on the empty input and on every odd-length input. -/
theorem C17_no_terminator (bs : Bytes)
    (h : ¬ (∃ p, bs = p ++ [0, 0] ∧ p.length % 2 = 0)) : parseUtf16 bs = .err :=
  parseUtf16_no_terminator bs h

/-! ### non-vacuity: inputs meeting the hypothesis, and the instances named in the statement -/

/-- the empty input has no terminator -/
example : ¬ (∃ p, ([] : Bytes) = p ++ [0, 0] ∧ p.length % 2 = 0) := by
  rintro ⟨p, hp, _⟩
  have := congrArg List.length hp
  simp at this
example : parseUtf16 [] = .err := C17_no_terminator [] (by
  rintro ⟨p, hp, _⟩
  have := congrArg List.length hp
  simp at this)

/-- odd-length input never has an aligned terminator -/
example (bs : Bytes) (hodd : bs.length % 2 = 1) : parseUtf16 bs = .err :=
  C17_no_terminator bs (by
    rintro ⟨p, hp, hl⟩
    have := congrArg List.length hp
    simp at this
    omega)

/-- "h" without terminator; a misaligned 00 00 (68 00 00 | 00 61 ...) does not count -/
example : parseUtf16 [0x68, 0x00] = .err := by decide
example : parseUtf16 [0x00, 0x01, 0x00, 0x00, 0x61] = .err := by decide
/-- and the theorem is not vacuous in the other direction: terminated input is accepted -/
example : parseUtf16 [0x68, 0x00, 0x00, 0x00] = .ok ['h'] := by decide

#print axioms C17_no_terminator

end GoUefi.C17

/-! ## the reader-based decoder: `Efistring.Unmarshal` = `ParseUtf16Var ∘ ReadNullString`

F32: `ReadNullString` used to append the whole 2-byte block even when only one byte had been read,
so that a lone trailing zero byte became a `00 00` terminator and `41 00 00` decoded to "A" without
an error.  After the repair what it returns is a prefix of the input, and the statement below holds. -/
namespace GoUefi.C17
open GoUefi

/-- what `ReadNullString` returns and what it leaves are the input, cut in two -/
theorem C17_readNullString_splits (bs : Bytes) :
    (readNullString bs).1 ++ (readNullString bs).2 = bs := by
  induction bs using readNullString.induct with
  | case1 a b r h =>
    simp only [Bool.and_eq_true, beq_iff_eq] at h
    simp [readNullString, h.1, h.2]
  | case2 a b r h x rest hr ih =>
    simp only [readNullString, h, hr] at *
    simp [ih]
  | case3 a => simp [readNullString]
  | case4 => simp [readNullString]

/-- `Efistring.Unmarshal` returns an error on every input that holds no `00 00` code unit at an even
    offset — whatever its length, in particular when it ends inside a code unit. -/
theorem C17_efistring_no_terminator (bs : Bytes)
    (h : ¬ (∃ p tail, bs = p ++ [0, 0] ++ tail ∧ p.length % 2 = 0)) :
    efistringUnmarshal bs = .err := by
  unfold efistringUnmarshal
  apply Decidable.byContradiction
  intro hne
  obtain ⟨p, hp, hl⟩ := parseUtf16_terminated hne
  refine h ⟨p, (readNullString bs).2, ?_, hl⟩
  rw [← hp]
  exact (C17_readNullString_splits bs).symm

/-- the input of the finding: 'A' followed by a single zero byte -/
example : efistringUnmarshal [0x41, 0x00, 0x00] = .err := by decide
example : efistringUnmarshal [0x00] = .err := by decide
example : efistringUnmarshal [0x41, 0x00, 0x42, 0x00, 0x00] = .err := by decide
/-- terminated input is accepted, and what follows the terminator is not looked at -/
example : efistringUnmarshal [0x41, 0x00, 0x00, 0x00, 0x07] = .ok ['A'] := by decide

#print axioms C17_readNullString_splits
#print axioms C17_efistring_no_terminator

end GoUefi.C17
