import GoUefi.Lemmas.Utf16Term
/-!
# C17 (addendum) — decoding UTF-16 input that lacks the NUL terminator is an error

Only the property theorem and its non-vacuity examples live here.
Model: `GoUefi/Model/Utf16.lean` (`ParseUtf16Var`); lemmas: `GoUefi/Lemmas/Utf16Term.lean`.
-/
namespace GoUefi.C17
open GoUefi

/-- `ParseUtf16Var` returns an error on every input that does not end with a 2-byte-aligned
    `00 00` terminator — in particular on the empty input and on every odd-length input. -/
theorem C17_no_terminator (bs : Bytes)
    (h : ¬ (∃ p, bs = p ++ [0, 0] ∧ p.length % 2 = 0)) : parseUtf16 bs = .err :=
  parseUtf16_no_terminator bs h

/-! ### non-vacuity: inputs meeting the hypothesis, and the instances named in the statement -/

/-- the empty input has no terminator -/
example : ¬ (∃ p, ([] : Bytes) = p ++ [0, 0] ∧ p.length % 2 = 0) := by
  rintro ⟨p, hp, _⟩
  have := congrArg List.length hp
  simp at this
example : parseUtf16 [] = .err := C17_no_terminator [] (by
  rintro ⟨p, hp, _⟩
  have := congrArg List.length hp
  simp at this)

/-- odd-length input never has an aligned terminator -/
example (bs : Bytes) (hodd : bs.length % 2 = 1) : parseUtf16 bs = .err :=
  C17_no_terminator bs (by
    rintro ⟨p, hp, hl⟩
    have := congrArg List.length hp
    simp at this
    omega)

/-- "h" without terminator; a misaligned 00 00 (68 00 00 | 00 61 ...) does not count -/
example : parseUtf16 [0x68, 0x00] = .err := by decide
example : parseUtf16 [0x00, 0x01, 0x00, 0x00, 0x61] = .err := by decide
/-- and the theorem is not vacuous in the other direction: terminated input is accepted -/
example : parseUtf16 [0x68, 0x00, 0x00, 0x00] = .ok ['h'] := by decide

#print axioms C17_no_terminator

end GoUefi.C17
