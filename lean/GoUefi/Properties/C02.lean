import GoUefi.Lemmas.PeSign
import GoUefi.Properties.C01
import GoUefi.Properties.C04
/-!
# C02 — image verification succeeds only for a signature over these bytes

Only the property theorems and their non-vacuity examples live here.
Model of `PECOFFBinary.Verify`, `ParseAuthenticode`, `Authenticode.Verify`:
`GoUefi/Model/Authenticode.lean`; of `Parse` / `Signatures()`: `GoUefi/Model/Pe.lean`; of
`PKCS7.Verify`: `GoUefi/Model/Pkcs7.lean`.  Cryptography is abstract (`GoUefi/Model/Crypto.lean`).
Specification: `GoUefi/Spec/Authenticode.lean`, `GoUefi/Spec/Pe.lean`, `GoUefi/Spec/Cms.lean`.
Helper lemmas, `PeSign.digestOfContent` and the example values: `GoUefi/Lemmas/PeSign.lean`.
-/
namespace GoUefi.C02
open GoUefi GoUefi.Spec.PE GoUefi.Impl GoUefi.PeSign

/-- `Verify` answers `true` only if some entry of the certificate table parses as Authenticode,
    names SHA-256, embeds the SHA-256 of *this* image's hash stream, and its PKCS#7 verifies under
    the certificate. -/
theorem C02_sound {C : Crypto} {certsOk : Bytes → Bool} {p : Parsed} {c : Cert}
    (h : p.verify C certsOk c = .ok true) :
    ∃ w ws', (p.signatures = .ok ws' ∧ w ∈ ws') ∧
      ∃ a, parseAuthenticode certsOk w.cert = some a ∧ a.alg = oidSha256 ∧
        a.digest = C.sha256 (hashStream p) ∧ a.pkcs.verify C c = .ok true := by
  obtain ⟨ws, w, a, hs, hw, ha, g1, _, g3, g4, _⟩ := verify_chain h
  exact ⟨w, ws, ⟨hs, hw⟩, a, ha, g1, g3, g4⟩

/-- The digest and the digest algorithm `ParseAuthenticode` reports are read from — hence
    determined by — the signed content `PKCS7.Content`. -/
theorem C02_digest_in_content {certsOk : Bytes → Bool} {blob : Bytes} {a : Auth}
    (h : parseAuthenticode certsOk blob = some a) :
    digestOfContent a.pkcs.content = some (a.alg, a.digest) :=
  parseAuthenticode_digest_in_content h

/-- The whole chain of commitments (C02_sound + C04_sound + C01_impl_eq_spec).  On a well-formed
    image, `Verify` answers `true` only if some table entry `w` parses as Authenticode `a` such that
    * the DigestInfo inside the signed content names SHA-256 and holds the SHA-256 of the
      *specification's* hash input of the image (`digestOfContent`, and in the specification's own
      reading `Spec.spcDigest` of the content's value octets `v`);
    * some SignerInfo `s` names the certificate (issuer bytes and serial) and carries signed
      attributes; the RSA signature under the certificate's key is valid over those attributes as
      transmitted (the `[0]` element occurring in the entry, re-tagged SET);
    * the messageDigest attribute is the SHA-256 of the content's value octets `v`. -/
theorem C02_chain {C : Crypto} {certsOk : Bytes → Bool} {b : Bytes} (wb : WF b) {p : Parsed}
    (hp : parse b (factsOf b) = .ok p) {c : Cert} (h : p.verify C certsOk c = .ok true) :
    ∃ ws w a, p.signatures = .ok ws ∧ w ∈ ws ∧ parseAuthenticode certsOk w.cert = some a ∧
      digestOfContent a.pkcs.content = some (oidSha256, C.sha256 (authInputPadded b)) ∧
      ∃ s ∈ a.pkcs.signers, s.issuer = c.rawIssuer ∧ s.serial = c.serial ∧
        ∃ att body, s.attrs = some att ∧ att.raw = some (Der.addASN1 Der.tSET body) ∧
          (∃ pre post, w.cert = pre ++ Der.addASN1 Der.tCtx0 body ++ post) ∧
          C.rsaVerify c.pub (Der.addASN1 Der.tSET body) s.sig = true ∧
          ∃ v r, Der.readAny a.pkcs.content = some (Der.tSEQ, v, r) ∧ C.sha256 v = att.md ∧
            Spec.spcDigest v = some (oidSha256, C.sha256 (authInputPadded b)) := by
  obtain ⟨ws, w, a, hs, hw, ha, g1, _, g3, _, s, hmem, hi, hser, att, body, hat, hraw, hsub, hrsa,
    v, r, hra, hmd, hspc⟩ := verify_chain h
  have hd := parseAuthenticode_digest_in_content ha
  rw [g1, g3, hashStream_of_parse wb hp] at hd hspc
  exact ⟨ws, w, a, hs, hw, ha, hd, s, hmem, hi, hser, att, body, hat, hraw, hsub, hrsa, v, r, hra,
    hmd, hspc⟩

/-- Two well-formed, equally long images that differ in a covered byte and both verify (possibly
    under different certificates) while carrying the same certificate table: some entries of that
    table embed the SHA-256 of two *different* hash inputs. -/
theorem C02_covered_byte_change_digests {C : Crypto} {certsOk : Bytes → Bool} {b b' : Bytes}
    (wb : WF b) (wb' : WF b') (hn : b.length = b'.length) {q : Nat} (hq : Covered b q)
    (hd : b[q]? ≠ b'[q]?) {p p' : Parsed} (hp : parse b (factsOf b) = .ok p)
    (hp' : parse b' (factsOf b') = .ok p') (htab : p'.certTable = p.certTable) {c c' : Cert}
    (hv : p.verify C certsOk c = .ok true) (hv' : p'.verify C certsOk c' = .ok true) :
    ∃ ws w w' a a', p.signatures = .ok ws ∧ p'.signatures = .ok ws ∧ w ∈ ws ∧ w' ∈ ws ∧
      parseAuthenticode certsOk w.cert = some a ∧ parseAuthenticode certsOk w'.cert = some a' ∧
      a.digest = C.sha256 (authInputPadded b) ∧ a'.digest = C.sha256 (authInputPadded b') ∧
      authInputPadded b ≠ authInputPadded b' := by
  obtain ⟨ws, w, a, hs, hw, ha, _, _, g3, _⟩ := verify_chain hv
  obtain ⟨ws', w', a', hs', hw', ha', _, _, g3', _⟩ := verify_chain hv'
  have e := signatures_congr htab
  rw [hs, hs'] at e
  cases e
  rw [hashStream_of_parse wb hp] at g3
  rw [hashStream_of_parse wb' hp'] at g3'
  exact ⟨ws, w, w', a, a', hs, hs', hw, hw', ha, ha', g3, g3',
    C01.C01_covered_matters b b' wb wb' hn q hq hd⟩

/-- Two images (any lengths) with the same certificate table that both verify: the first table
    entry embeds one digest, which is the SHA-256 of both hash inputs.  (An entry that fails the
    digest comparison ends the loop of `Verify` with an error, so the first entry always passes
    it; no restriction to single-entry tables is needed.) -/
theorem C02_same_table_same_digest {C : Crypto} {certsOk : Bytes → Bool} {b b' : Bytes}
    (wb : WF b) (wb' : WF b') {p p' : Parsed} (hp : parse b (factsOf b) = .ok p)
    (hp' : parse b' (factsOf b') = .ok p') (htab : p'.certTable = p.certTable) {c c' : Cert}
    (hv : p.verify C certsOk c = .ok true) (hv' : p'.verify C certsOk c' = .ok true) :
    ∃ w ws a, p.signatures = .ok (w :: ws) ∧ parseAuthenticode certsOk w.cert = some a ∧
      a.digest = C.sha256 (authInputPadded b) ∧ a.digest = C.sha256 (authInputPadded b') := by
  obtain ⟨w, ws, a, hs, ha, d1, d2⟩ := same_table_same_digest htab hv hv'
  rw [hashStream_of_parse wb hp] at d1
  rw [hashStream_of_parse wb' hp'] at d2
  exact ⟨w, ws, a, hs, ha, d1, d2⟩

/-- No covered byte can be changed, up to a SHA-256 collision: if a well-formed image verifies, a
    well-formed image of the same length that differs in a covered byte and carries the same
    certificate table (one entry or many) does not verify — under any certificate — unless SHA-256
    collides on the two hash inputs. -/
theorem C02_no_covered_byte_change_upto_collision {C : Crypto} {certsOk : Bytes → Bool}
    {b b' : Bytes} (wb : WF b) (wb' : WF b') (hn : b.length = b'.length) {q : Nat}
    (hq : Covered b q) (hd : b[q]? ≠ b'[q]?) {p p' : Parsed} (hp : parse b (factsOf b) = .ok p)
    (hp' : parse b' (factsOf b') = .ok p') (htab : p'.certTable = p.certTable)
    (hnc : C.sha256 (authInputPadded b) = C.sha256 (authInputPadded b') →
      authInputPadded b = authInputPadded b')
    {c c' : Cert} (hv : p.verify C certsOk c = .ok true) : p'.verify C certsOk c' ≠ .ok true := by
  intro hv'
  obtain ⟨_, _, _, _, _, d1, d2⟩ := C02_same_table_same_digest wb wb' hp hp' htab hv hv'
  exact C01.C01_covered_matters b b' wb wb' hn q hq hd (hnc (d1.symm.trans d2))

/-- No transplant, up to a SHA-256 collision: a certificate table taken from a verifying image does
    not make a different image (of any length) verify — under any certificate — when the hash
    inputs differ, unless SHA-256 collides on them. -/
theorem C02_no_transplant_upto_collision {C : Crypto} {certsOk : Bytes → Bool} {b b' : Bytes}
    (wb : WF b) (wb' : WF b') {p p' : Parsed} (hp : parse b (factsOf b) = .ok p)
    (hp' : parse b' (factsOf b') = .ok p') (htab : p'.certTable = p.certTable)
    (hne : authInputPadded b ≠ authInputPadded b')
    (hnc : C.sha256 (authInputPadded b) = C.sha256 (authInputPadded b') →
      authInputPadded b = authInputPadded b')
    {c c' : Cert} (hv : p.verify C certsOk c = .ok true) : p'.verify C certsOk c' ≠ .ok true := by
  intro hv'
  obtain ⟨_, _, _, _, _, d1, d2⟩ := C02_same_table_same_digest wb wb' hp hp' htab hv hv'
  exact hne (hnc (d1.symm.trans d2))

/-- Success under another certificate `c'` with the issuer and serial of `c` still needs an RSA
    signature that is valid under the key of `c'` over the transmitted signed attributes of a
    signer naming `c`. -/
theorem C02_other_key_needs_valid_sig {C : Crypto} {certsOk : Bytes → Bool} {p : Parsed}
    {c c' : Cert} (hi : c'.rawIssuer = c.rawIssuer) (hs : c'.serial = c.serial)
    (h : p.verify C certsOk c' = .ok true) :
    ∃ ws w a, p.signatures = .ok ws ∧ w ∈ ws ∧ parseAuthenticode certsOk w.cert = some a ∧
      ∃ s ∈ a.pkcs.signers, s.issuer = c.rawIssuer ∧ s.serial = c.serial ∧
        ∃ att body, s.attrs = some att ∧ att.raw = some (Der.addASN1 Der.tSET body) ∧
          C.rsaVerify c'.pub (Der.addASN1 Der.tSET body) s.sig = true := by
  obtain ⟨ws, w, a, hsig, hw, ha, _, _, _, _, s, hmem, hi', hser, att, body, hat, hraw, _, hrsa, _⟩ :=
    verify_chain h
  exact ⟨ws, w, a, hsig, hw, ha, s, hmem, hi'.trans hi, hser.trans hs, att, body, hat, hraw, hrsa⟩

/-- What the implementation accepts, the from-the-documents specification accepts: for a
    well-formed image whose certificate table walks strictly, and a digest function that never returns
    the empty string (true of SHA-256), `Verify = ok true` implies `Spec.authenticodeVerify`. -/
theorem C02_refines_spec {C : Crypto} {certsOk : Bytes → Bool} {b : Bytes} (wb : WF b)
    {p : Parsed} (hp : parse b (factsOf b) = .ok p) {c : Cert} {es : List CertEntry}
    (he : certEntries b = some es) (hsha : ∀ x, C.sha256 x ≠ [])
    (h : p.verify C certsOk c = .ok true) : Spec.authenticodeVerify C b c = true :=
  authenticodeVerify_of_verify wb hp he hsha h

/-- What `WF` assumes about the certificate table, `Parse` enforces (F22 repair): whenever `Parse`
    succeeds on *any* byte string whose directory entry declares a table, that table starts 8-aligned
    and ends exactly at the end of the file — so the unsigned `Size` field cannot be inflated to
    swallow bytes in front of the table while the zero padding stands in for them, and the table
    `Verify` walks is literally the tail of the file.  No well-formedness hypothesis. -/
theorem C02_table_is_tail {img : Bytes} {f : PeFacts} {p : Parsed} (hp : parse img f = .ok p)
    (hs : f.ddSize ≠ 0) :
    f.ddVA % 8 = 0 ∧ f.ddVA + f.ddSize = img.length ∧
      p.certTable = slice img f.ddVA (f.ddVA + f.ddSize) := by
  unfold parse at hp
  split at hp
  · simp at hp
  · simp only at hp
    split at hp
    · simp at hp
    · split at hp
      · simp at hp
      · split at hp
        · simp at hp
        · rename_i hn
          simp only [Outcome.ok.injEq] at hp
          subst hp
          refine ⟨?_, ?_, rfl⟩ <;> omega

/-- The strict reading of the certificate table implies the tolerant one that the correspondence
    oracle judges "success ⇒ specification" by: on a table that walks strictly both see the same
    entries, so `Spec.authenticodeVerify` and `Spec.authenticodeVerifyLenient` agree there. -/
theorem walkPrefix_of_walkTable : ∀ (fuel : Nat) (t : Bytes) (es : List CertEntry),
    walkTable fuel t = some es → Spec.PE.walkPrefix fuel t = es := by
  intro fuel
  induction fuel with
  | zero =>
    intro t es h
    unfold walkTable at h
    split at h
    · cases h; rfl
    · cases h
  | succ fuel ih =>
    intro t es h
    unfold walkTable at h
    unfold Spec.PE.walkPrefix
    split at h
    · rename_i he
      cases h
      have : t.length < 8 := by
        have : t = [] := by simpa using he
        subst this; simp
      rw [if_pos this]
    · split at h
      · cases h
      · rename_i hl
        simp only at h
        split at h
        · cases h
        · rename_i hfit
          rw [if_neg hl]
          simp only
          rw [if_neg (by omega)]
          split at h
          · cases h
          · rename_i es' hrec
            cases h
            rw [ih _ _ hrec]

theorem C02_strict_implies_lenient {C : Crypto} {b : Bytes} {c : Cert} {es : List CertEntry}
    (he : certEntries b = some es) :
    Spec.authenticodeVerifyLenient C b c = Spec.authenticodeVerify C b c := by
  unfold Spec.authenticodeVerifyLenient Spec.authenticodeVerify
  rw [he]
  unfold certEntries at he
  unfold Spec.PE.certEntriesLenient
  simp only at he ⊢
  split at he
  · cases he; rename_i h0; rw [if_pos h0]
  · rename_i h0
    rw [if_neg h0]
    split at he
    · cases he
    · rename_i h1
      rw [if_neg h1, walkPrefix_of_walkTable _ _ _ he]

/-! ### non-vacuity: a really signed image under toy cryptography (`PeSignEx` in Lemmas/PeSign.lean:
    the digest sees the last 32 bytes of the message; a signature is valid iff it is the key's
    modulus byte followed by the signed bytes) -/
section NonVacuity
open GoUefi.PeExample GoUefi.PeSignEx

/-- `imgSigned` = `img64` signed with `blob`, the Authenticode signature `SignPKCS7` writes for the
    SpcIndirectDataContent of `img64`; it is well-formed, parses, and verifies -/
example : WF imgSigned := wf_imgSigned
example : parse imgSigned (factsOf imgSigned) = .ok (parsed imgSigned) := parse_imgSigned
example : (parsed imgSigned).verify toy32 allOk cert = .ok true := verify_imgSigned
example : imgSigned.length = 800 ∧ certAddr imgSigned = 352 ∧ certSize imgSigned = 448 ∧
    blob.length = 434 := by decide +kernel

/-- `C02_sound`, `C02_chain`, `C02_other_key_needs_valid_sig` instantiated -/
example := C02_sound verify_imgSigned
example := C02_chain wf_imgSigned parse_imgSigned verify_imgSigned
example := C02_other_key_needs_valid_sig (c := cert) rfl rfl verify_imgSigned
/-- the embedded digest, evaluated -/
example : (parseAuthenticode allOk blob).map (fun a => (a.alg, a.digest)) =
    some (oidSha256, toy32.sha256 (authInputPadded imgSigned)) := by decide +kernel
example : (parseAuthenticode allOk blob).bind (fun a => digestOfContent a.pkcs.content) =
    some (oidSha256, toy32.sha256 (authInputPadded img64)) := by decide +kernel

/-- the same certificate with another key: the RSA check fails, an error -/
example : (parsed imgSigned).verify toy32 allOk certOtherKey = .err := by decide +kernel

/-- `imgSigned'` carries the same certificate table on an image that differs in the covered byte
    348; `C02_no_covered_byte_change_upto_collision` and `C02_no_transplant_upto_collision` apply
    (the toy digest does not collide on the two hash inputs) … -/
example : (parsed imgSigned').certTable = (parsed imgSigned).certTable := by decide +kernel
example : (parsed imgSigned').verify toy32 allOk cert ≠ .ok true :=
  C02_no_covered_byte_change_upto_collision (q := 348) wf_imgSigned wf_imgSigned' (by decide +kernel)
    (((C01.C01_every_byte_classified imgSigned wf_imgSigned 348 (by decide +kernel)).1).mp
      (by decide +kernel))
    (by decide +kernel) parse_imgSigned parse_imgSigned' (by decide +kernel) (by decide +kernel)
    verify_imgSigned
example : (parsed imgSigned').verify toy32 allOk cert ≠ .ok true :=
  C02_no_transplant_upto_collision wf_imgSigned wf_imgSigned' parse_imgSigned parse_imgSigned'
    (by decide +kernel) (by decide +kernel) (by decide +kernel) verify_imgSigned
/-- … and evaluated: the digest comparison fails, an error -/
example : (parsed imgSigned').verify toy32 allOk cert = .err := by decide +kernel

/-- `C02_refines_spec` applies to `imgSigned` … -/
example : Spec.authenticodeVerify toy32 imgSigned cert = true :=
  C02_refines_spec (es := [⟨8 + blob.length, 0x0200, 2, blob⟩]) wf_imgSigned
    parse_imgSigned (by decide +kernel) (by intro x; simp [toy32, zeros])
    verify_imgSigned
/-- … and to `imgEf`, which carries the same signature in a table entry of wCertificateType 0x0EF1:
    neither the implementation nor the specification looks at that field -/
example : WF imgEf ∧ parse imgEf (factsOf imgEf) = .ok (parsed imgEf) ∧
    certEntries imgEf = some [⟨8 + blob.length, 0x0200, 0x0EF1, blob⟩] ∧
    (parsed imgEf).verify toy32 allOk cert = .ok true ∧
    Spec.authenticodeVerify toy32 imgEf cert = true :=
  ⟨wf_imgEf, parse_imgEf, by decide +kernel, by decide +kernel, by decide +kernel⟩

end NonVacuity

#print axioms C02_sound
#print axioms C02_digest_in_content
#print axioms C02_chain
#print axioms C02_covered_byte_change_digests
#print axioms C02_same_table_same_digest
#print axioms C02_no_covered_byte_change_upto_collision
#print axioms C02_no_transplant_upto_collision
#print axioms C02_other_key_needs_valid_sig
#print axioms C02_refines_spec

end GoUefi.C02
#print axioms GoUefi.C02.C02_table_is_tail
#print axioms GoUefi.C02.C02_strict_implies_lenient
