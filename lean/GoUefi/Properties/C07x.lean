import GoUefi.Properties.C08x
import GoUefi.Spec.SigDb
/-! C07 — regenerated tie (shared with C08): sizes, handled GUIDs, scheme table of the current source -/
namespace GoUefi.C07
open GoUefi

theorem C07_extracted_facts :
    (Facts.constIs "efi/signature.SizeofSignatureList" 28 = true ∧ Facts.constIs "efi/util.SizeofEFIGUID" 16 = true) ∧
    (Facts.guidIs "efi/signature" "CERT_X509_GUID" Impl.guidX509 = true ∧
     Facts.guidIs "efi/signature" "CERT_SHA256_GUID" Impl.guidSha256 = true ∧
     Facts.guidIs "efi/signature" "CERT_EXTERNAL_MANAGEMENT_GUID" Impl.guidExternal = true) ∧
    ((Extracted.schemes.all fun n =>
      match Facts.guidWireOf "efi/signature" n with
      | none => true
      | some w => Impl.schemes.contains w) = true ∧
     (Extracted.schemes.length = 0 ∨ Extracted.schemes.length = Impl.schemes.length)) :=
  ⟨C08.C08_extracted_sizes, C08.C08_extracted_handled_guids, C08.C08_extracted_schemes⟩

end GoUefi.C07

/-! ### Known finding F20, as a theorem about the model

`NewSignatureList` gives a list without signatures `SignatureSize` 0, and `AppendList` stores a list
as it is. The database `[newList t]` is therefore reachable through the library's own operations,
its encoding is 28 bytes with size field 0, and neither the specification nor the library's reader
accepts it: the converse half of C07 fails at exactly this point (and only here: for databases that
satisfy the C09 invariant it is `C07_built_wf_partial` / `C07_reachable_roundtrip`). The harness
replays the same history on the Go code (corpus/C07/f20-empty-list.json). -/
namespace GoUefi.C07
open GoUefi

theorem C07_empty_list_counterexample :
    let db : Impl.Db := Impl.Db.appendList [] (Impl.newList Impl.guidSha256)
    (Impl.encDb db).length = 28 ∧ Spec.decodeDb (Impl.encDb db) = none ∧ Impl.readDb (Impl.encDb db) = none := by
  decide +kernel

theorem C07_empty_x509_list_counterexample :
    let db : Impl.Db := Impl.Db.appendList [] (Impl.newList Impl.guidX509)
    Spec.decodeDb (Impl.encDb db) = none ∧ Impl.readDb (Impl.encDb db) = none := by
  decide +kernel

end GoUefi.C07
