import GoUefi.Properties.C08x
/-! C07 — regenerated tie (shared with C08): sizes, handled GUIDs, scheme table of the current source -/
namespace GoUefi.C07
open GoUefi

theorem C07_extracted_facts :
    (Facts.constIs "efi/signature.SizeofSignatureList" 28 = true ∧ Facts.constIs "efi/util.SizeofEFIGUID" 16 = true) ∧
    (Facts.guidIs "efi/signature" "CERT_X509_GUID" Impl.guidX509 = true ∧
     Facts.guidIs "efi/signature" "CERT_SHA256_GUID" Impl.guidSha256 = true ∧
     Facts.guidIs "efi/signature" "CERT_EXTERNAL_MANAGEMENT_GUID" Impl.guidExternal = true) ∧
    ((Extracted.schemes.all fun n =>
      match Facts.guidWireOf "efi/signature" n with
      | none => true
      | some w => Impl.schemes.contains w) = true ∧
     (Extracted.schemes.length = 0 ∨ Extracted.schemes.length = Impl.schemes.length)) :=
  ⟨C08.C08_extracted_sizes, C08.C08_extracted_handled_guids, C08.C08_extracted_schemes⟩

end GoUefi.C07
