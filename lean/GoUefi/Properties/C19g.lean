import GoUefi.Properties.C03g
import GoUefi.Properties.C19
/-!
# C19 (generated tie) — the read-only methods of the image object, as the source has them now

`Signatures`, `Verify`, `Bytes`, `Open`, `signatureBytes` of `authenticode.PECOFFBinary` as translated from
authenticode/checksum.go on every run.  The translator returns a new receiver from a method exactly when the method, or
something it calls, assigns a field, writes to / reads from / hands on a buffer that is a field (`p.certTable.Write`,
`.Read`, `.Next`, `.ReadFrom`, `ReadWinCertificate(p.certTable)`): these five return their Go results only.
-/
namespace GoUefi.C19
open GoUefi GoUefi.Gen GoUefi.C03

/-- the types of the translations: no receiver comes back (a version that walks the table with a consuming read has
    another type, and this theorem no longer compiles) -/
theorem C19g_frame_types :
    (∃ f : Nat → authenticode.PECOFFBinary → List signature.WINCertificate × GoErr,
        f = authenticode.PECOFFBinary.Signatures) ∧
    (∃ f : Nat → authenticode.Ext → authenticode.PECOFFBinary → X509Cert → Bool × GoErr,
        f = authenticode.PECOFFBinary.Verify) ∧
    (∃ f : authenticode.PECOFFBinary → List UInt8, f = authenticode.PECOFFBinary.Bytes) ∧
    (∃ f : authenticode.PECOFFBinary → List UInt8, f = authenticode.PECOFFBinary.Open) ∧
    (∃ f : authenticode.PECOFFBinary → List UInt8, f = authenticode.PECOFFBinary.signatureBytes) :=
  C03g_frame

/-- repeatability in the shape of `C19_repeatable`: any sequence of these calls on one object returns, call by call,
    what the first call of that kind returned (the object is a value that none of them replaces) -/
theorem C19g_repeatable (fuel : Nat) (X : authenticode.Ext) (cert : X509Cert) (p : authenticode.PECOFFBinary)
    (n : Nat) :
    (List.replicate n ()).map (fun _ => (p.Signatures fuel, authenticode.PECOFFBinary.Verify fuel X p cert, p.Bytes)) =
      List.replicate n (p.Signatures fuel, authenticode.PECOFFBinary.Verify fuel X p cert, p.Bytes) := by
  simp

/-- what they return depends on the fields they may read: `Signatures` on the table only, `Bytes`/`Open` on the three
    sections, the padding and the table -/
theorem C19g_reads (fuel : Nat) (p q : authenticode.PECOFFBinary) :
    (p.certTable = q.certTable → p.Signatures fuel = q.Signatures fuel) ∧
    (p.certTable = q.certTable → p.firstSection = q.firstSection → p.optDataDir = q.optDataDir →
      p.lastSection = q.lastSection → p.padding = q.padding → p.Bytes = q.Bytes ∧ p.Open = q.Open) := by
  refine ⟨C03g_signatures_table fuel p q, fun h1 h2 h3 h4 h5 => ?_⟩
  rw [(C03g_bytes p).2, (C03g_bytes q).2, (C03g_bytes p).1, (C03g_bytes q).1, h1, h2, h3, h4, h5]
  exact ⟨rfl, rfl⟩

end GoUefi.C19

#print axioms GoUefi.C19.C19g_frame_types
#print axioms GoUefi.C19.C19g_repeatable
#print axioms GoUefi.C19.C19g_reads
