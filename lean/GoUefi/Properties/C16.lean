import GoUefi.Lemmas.Pkcs7Verify
/-!
# C16 — re-encoding the parsed signed attributes reproduces the signed bytes for canonical producers

Only the property theorems and their non-vacuity examples live here.
Model: `GoUefi/Model/Pkcs7.lean` (`Attrs.marshal` = Go `Attributes.Marshal`, `attrLoop` = the loop of
`parseAttributes`).  `Impl.Canon a body` (`GoUefi/Lemmas/Pkcs7Verify.lean`) says that `body` is
exactly the layout `Marshal` writes for the values `a`: the encodings of contentType, [signingTime],
messageDigest and the other attributes in DER SET OF order (sorted by `bytes.Compare`, F19), all
OIDs valid — i.e. `attrsBody a = some body`.
It is stated from the parsed side (no OID round trip is needed): the producer is canonical when
its attribute body coincides with the re-encoding of what was parsed from it.

Verification itself never re-encodes parsed attributes (F2): it uses `raw`
(`C04_attrs_as_transmitted`), so producers with another attribute order verify as well
(`C16_verify_independent_of_order`).
-/
namespace GoUefi.C16
open GoUefi GoUefi.Impl

/-- `Attributes.Marshal()` of the values parsed from a canonical attribute body reproduces exactly
    the bytes that were signed (the SET re-tagging of the transmitted body). -/
theorem C16_reencode {fuel : Nat} {body : Bytes} {a : Attrs}
    (_h : attrLoop fuel body { raw := some (Der.addASN1 Der.tSET body) } = some a)
    (hc : Canon a body) : a.marshal = .ok (Der.addASN1 Der.tSET body) :=
  marshal_of_canon hc

/-- The same, with `Canon` unfolded and `raw` made explicit: re-encoding and the transmitted bytes
    coincide, so `Verify` would check the same bytes either way. -/
theorem C16_marshal_eq_raw_of_canonical_body {fuel : Nat} {body : Bytes} {a : Attrs}
    (h : attrLoop fuel body { raw := some (Der.addASN1 Der.tSET body) } = some a)
    (hc : attrsBody a = some body) : ∃ r, a.raw = some r ∧ a.marshal = .ok r :=
  ⟨Der.addASN1 Der.tSET body, by rw [attrLoop_raw h], marshal_of_canon hc⟩

/-- Canonical bodies are exactly those for which re-encoding reproduces the signed bytes: for the
    values parsed from `body`, `Canon` holds iff `Marshal` returns `raw`.  (So verifying over a
    re-encoding — the behaviour before fix F2 — works for canonical producers and only for them.) -/
theorem C16_canonical_iff_marshal_eq_raw {fuel : Nat} {body : Bytes} {a : Attrs}
    (h : attrLoop fuel body { raw := some (Der.addASN1 Der.tSET body) } = some a) :
    Canon a body ↔ ∃ r, a.raw = some r ∧ a.marshal = .ok r :=
  canon_iff_marshal_eq_raw (by rw [attrLoop_raw h])

/-- For every signer of a parsed blob: `raw` is the re-tagged transmitted `[0]` element, it was
    obtained by the attribute loop from that element's body, and when that body is canonical,
    `Marshal` returns `raw`. -/
theorem C16_parsed_reencode {ok : Bytes → Bool} {b : Bytes} {p : P7} (h : parseP7 ok b = some p)
    {s : Signer} (hs : s ∈ p.signers) {a : Attrs} (ha : s.attrs = some a) :
    ∃ body, a.raw = some (Der.addASN1 Der.tSET body) ∧ Der.Sub (Der.addASN1 Der.tCtx0 body) b ∧
      attrLoop body.length body { raw := some (Der.addASN1 Der.tSET body) } = some a ∧
      (Canon a body → a.marshal = .ok (Der.addASN1 Der.tSET body)) := by
  obtain ⟨body, h1, h2, h3⟩ := parseP7_attrs h hs ha
  exact ⟨body, h1, h2, h3, marshal_of_canon⟩

/-- The verdict on a parsed signer depends on its attributes only through `raw` and `md`: any
    signer `s'` with the same signature whose attributes agree with those of `s` on `raw` and `md`
    (whatever their contentType, time, other attributes — i.e. whatever order and extra
    attributes the producer emitted) gets the same verdict.  No re-encoding is involved. -/
theorem C16_verify_independent_of_order {C : Crypto} {ok : Bytes → Bool} {b : Bytes} {p : P7}
    {c : Cert} {content : Bytes} (h : parseP7 ok b = some p) {s : Signer} (hs : s ∈ p.signers)
    {a : Attrs} (ha : s.attrs = some a) {s' : Signer} {a' : Attrs} (ha' : s'.attrs = some a')
    (hraw : a'.raw = a.raw) (hmd : a'.md = a.md) (hsig : s'.sig = s.sig) :
    s'.verify C c content = s.verify C c content := by
  obtain ⟨body, h1, _⟩ := parseP7_attrs h hs ha
  exact Signer.verify_congr ha ha' h1 (hraw.trans h1) hmd hsig

/-- The same for arbitrary (not necessarily parsed) signers whose attributes carry `raw`. -/
theorem C16_verify_depends_on_raw_md {C : Crypto} {c : Cert} {content : Bytes} {s s' : Signer}
    {a a' : Attrs} {r : Bytes} (ha : s.attrs = some a) (ha' : s'.attrs = some a')
    (hr : a.raw = some r) (hr' : a'.raw = some r) (hmd : a'.md = a.md) (hsig : s'.sig = s.sig) :
    s'.verify C c content = s.verify C c content :=
  Signer.verify_congr ha ha' hr hr' hmd hsig

/-- A certificate that no signer names is rejected with a negative answer (not an error). -/
theorem C16_wrong_cert_rejected {C : Crypto} {p : P7} {c : Cert}
    (h : ∀ s ∈ p.signers, s.isCertificate c = false) : p.verify C c = .ok false :=
  verifySigners_ok_false_iff.mpr h

/-! ### non-vacuity (toy cryptography: digest = identity, a signature is valid iff it equals the
    signed bytes) -/
section Examples
open GoUefi.P7Ex

/-- the attribute body `SignPKCS7` writes parses back to the values it was built from … -/
example : attrLoop body.length body { raw := some (Der.addASN1 Der.tSET body) } =
    some { attrs with raw := some (Der.addASN1 Der.tSET body) } := by decide +kernel
/-- … is canonical for them, and `Marshal` reproduces the signed bytes -/
example : Canon { attrs with raw := some (Der.addASN1 Der.tSET body) } body := by decide +kernel
example : ({ attrs with raw := some (Der.addASN1 Der.tSET body) } : Attrs).marshal =
    .ok (Der.addASN1 Der.tSET body) := by decide +kernel
/-- the parsed signer of the sample blob carries exactly these attributes -/
example : (parseP7 allOk blob).map (fun p => p.signers.map (·.attrs)) =
    some [some { attrs with raw := some (Der.addASN1 Der.tSET body) }] := by decide +kernel

/-- A producer that writes contentType before messageDigest (not the DER SET OF order: here the
    messageDigest attribute has the shorter, hence smaller, encoding) and no signing time: the body
    is *not* canonical (`Marshal` of the parsed values differs from the signed bytes) … -/
example : attrLoop bodyReordered.length bodyReordered { raw := some (Der.addASN1 Der.tSET bodyReordered) } =
    some { attrsReordered with raw := some (Der.addASN1 Der.tSET bodyReordered) } := by
  decide +kernel
example : ¬ Canon { attrsReordered with raw := some (Der.addASN1 Der.tSET bodyReordered) }
    bodyReordered := by decide +kernel
example : ({ attrsReordered with raw := some (Der.addASN1 Der.tSET bodyReordered) } : Attrs).marshal ≠
    .ok (Der.addASN1 Der.tSET bodyReordered) := by decide +kernel
/-- the DER-sorted body for the same values (messageDigest first) is the canonical one -/
example : Canon { attrsReordered with raw := some (Der.addASN1 Der.tSET bodyReordered) }
    (attrSeq oidMessageDigest (Der.addOctets content) ++ attrSeq oidContentType (oidOr oid)) := by
  decide +kernel
/-- … and it verifies all the same, under the implementation and under the specification,
    because the signature is checked over the attributes as transmitted -/
example : run toy blobReordered cert = some (.ok true) := by decide +kernel
example : Spec.cmsVerify toy blobReordered cert none = true := by decide +kernel
/-- a certificate nobody names -/
example : run toy blobReordered otherCert = some (.ok false) := by decide +kernel

end Examples

end GoUefi.C16

#print axioms GoUefi.C16.C16_reencode
#print axioms GoUefi.C16.C16_marshal_eq_raw_of_canonical_body
#print axioms GoUefi.C16.C16_canonical_iff_marshal_eq_raw
#print axioms GoUefi.C16.C16_parsed_reencode
#print axioms GoUefi.C16.C16_verify_independent_of_order
#print axioms GoUefi.C16.C16_verify_depends_on_raw_md
#print axioms GoUefi.C16.C16_wrong_cert_rejected

namespace GoUefi.C16
open GoUefi GoUefi.Impl

/-- F30 repair: `Attributes.Marshal` returns for every attribute value whose object identifiers are
    encodable — with or without a content type (parsed attributes may lack it; before the repair the
    builder panicked on the absent identifier).  Parsed attributes only hold identifiers that were
    decoded, hence encodable. -/
theorem C16_marshal_returns (a : Attrs) (hct : ∀ ct, a.contentType = some ct → Der.validOID ct = true)
    (ho : ∀ x ∈ a.other, Der.validOID x.1 = true) : ∃ b, a.marshal = .ok b := by
  unfold Attrs.marshal attrsBody
  have hall : (a.other.all fun x => Der.validOID x.1) = true := by
    rw [List.all_eq_true]; exact ho
  cases hc : a.contentType with
  | none => simp [hall]
  | some ct => simp [hct ct hc, hall]

/-- … in particular without a content type -/
example : (⟨none, [1, 2], none, [], none⟩ : Attrs).marshal ≠ .panic := by decide +kernel

end GoUefi.C16

#print axioms GoUefi.C16.C16_marshal_returns
