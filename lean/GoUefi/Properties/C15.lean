import GoUefi.Lemmas.VarFs
/-!
# C15 — dependency failures surface as errors

Model: `GoUefi/Model/VarFs.lean`.  A run of `writeVar` / `getVar` against an environment
`env : Nat → Call → Res` (the answer to the k-th call) yields the result and the trace; the
theorems quantify over EVERY environment, i.e. over every pattern of failing, short or otherwise
misbehaving filesystem calls.  `Impl.isFault`, `Impl.signedUpdate`, `Impl.signImage` and the
case analysis of the runs are in `GoUefi/Lemmas/VarFs.lean`; only the property theorems and their
non-vacuity examples live here.
-/
namespace GoUefi.C15
open GoUefi GoUefi.Impl

/-! ### writing -/

/-- For every environment whatsoever: if any call of a variable write misbehaved (an error
    return from open / write / close, or a write that was not complete), the write reports an
    error. -/
theorem C15_write_fault_is_error (dir : String) (name : List Char) (g : Guid) (attrs : Nat)
    (value : Bytes) (env : Nat → Call → Res) (res : Outcome Unit) (tr : List (Call × Res))
    (hrun : (writeVar dir name g attrs value).run env 0 = (res, tr))
    (hfault : ∃ e ∈ tr, isFault e = true) : res = .err := by
  rcases writeVar_run_cases dir name g attrs value env with h | ⟨r0, w, cl, hr0, _, _, _, h⟩
  · rw [h] at hrun; exact (Prod.mk.inj hrun).1.symm
  · rw [h] at hrun
    obtain ⟨e1, e2⟩ := Prod.mk.inj hrun
    subst e1 e2
    have hlen : (le32 attrs ++ value).length = 4 + value.length := by simp
    obtain ⟨e, he, hf⟩ := hfault
    simp only [List.mem_cons, List.not_mem_nil, or_false] at he
    apply writeVarFinish_ne_ok
    rcases he with rfl | rfl | rfl
    · simp [isFault, hr0] at hf
    · left
      intro hw
      simp [isFault, hw, hlen] at hf
    · right
      simpa [isFault] using hf

/-- Success means a clean run: the three calls, a complete write of attributes‖value, and neither
    the open nor the close reported an error. -/
theorem C15_write_success_means_clean (dir : String) (name : List Char) (g : Guid) (attrs : Nat)
    (value : Bytes) (env : Nat → Call → Res) (res : Outcome Unit) (tr : List (Call × Res))
    (hrun : (writeVar dir name g attrs value).run env 0 = (res, tr)) (hok : res = .ok ()) :
    ∃ r0 r2, tr = [(.openFile (varPath dir name g) (writeFlags attrs) 0o644, r0),
                   (.write (le32 attrs ++ value), .wrote (4 + value.length)),
                   (.close, r2)] ∧ r0 ≠ .fail ∧ r2 ≠ .fail := by
  subst hok
  rcases writeVar_run_cases dir name g attrs value env with h | ⟨r0, w, cl, hr0, _, _, _, h⟩
  · rw [h] at hrun; nomatch (Prod.mk.inj hrun).1
  · rw [h] at hrun
    obtain ⟨e1, e2⟩ := Prod.mk.inj hrun
    obtain ⟨hw, hc⟩ := writeVarFinish_ok e1
    subst hw e2
    exact ⟨r0, cl, rfl, hr0, hc⟩

/-- "Every environment" subsumes "the k-th call fails, for every k": whichever of the three calls
    of the clean trace (k = 0 open, 1 write, 2 close) is answered with an error, the result is an
    error. -/
theorem C15_fault_patterns (dir : String) (name : List Char) (g : Guid) (attrs : Nat)
    (value : Bytes) (env : Nat → Call → Res) :
    ∀ k c, [Call.openFile (varPath dir name g) (writeFlags attrs) 0o644,
            Call.write (le32 attrs ++ value), Call.close][k]? = some c →
      env k c = .fail → ((writeVar dir name g attrs value).run env 0).1 = .err := by
  intro k c hk hfail
  rcases writeVar_run_cases dir name g attrs value env with h | ⟨r0, w, cl, hr0, e0, ew, ec, h⟩
  · rw [h]
  · rw [h]
    apply writeVarFinish_ne_ok
    match k, hk with
    | 0, hk => cases hk; exact absurd (e0.trans hfail) hr0
    | 1, hk => cases hk; left; rw [ew, hfail]; simp
    | 2, hk => cases hk; right; rw [ec, hfail]

/-! ### reading -/

/-- For every environment and every decoder: if any call of a variable read misbehaved (an error
    return from open / stat / read / close, a stat without a size, a read that did not deliver
    exactly the bytes asked for), the read reports an error — and the decoder's verdict on whatever
    bytes were delivered is not consulted. -/
theorem C15_read_fault_is_error {α} (dir : String) (name : List Char) (g : Guid) (req : Nat)
    (dec : Bytes → Outcome α) (env : Nat → Call → Res) (res : Outcome (Nat × α))
    (tr : List (Call × Res))
    (hrun : (getVar dir name g req dec).run env 0 = (res, tr))
    (hfault : ∃ e ∈ tr, isFault e = true) : res = .err := by
  rcases getVar_run_cases dir name g req dec env with h | ⟨_, _, _, _, _, h⟩ | ⟨_, _, _, _, _, _, h⟩ |
      ⟨r0, sz, ab, v, cl, hr0, hab, _, _, _, _, _, h⟩
  · rw [h] at hrun; exact (Prod.mk.inj hrun).1.symm
  · rw [h] at hrun; exact (Prod.mk.inj hrun).1.symm
  · rw [h] at hrun; exact (Prod.mk.inj hrun).1.symm
  · rw [h] at hrun
    obtain ⟨e1, e2⟩ := Prod.mk.inj hrun
    subst e1 e2
    obtain ⟨e, he, hf⟩ := hfault
    simp only [List.mem_cons, List.not_mem_nil, or_false] at he
    apply getVarFinish_fault
    rcases he with rfl | rfl | rfl | rfl | rfl
    · simp [isFault, hr0] at hf
    · simp [isFault] at hf
    · simp [isFault, hab] at hf
    · left
      intro vb hv
      subst hv
      simpa [isFault] using hf
    · right
      simpa [isFault] using hf

/-- Success returns the attributes and value that the two reads delivered: `ab` (4 bytes) and `vb`
    (file size − 4 bytes) are exactly what the environment handed over, the required attributes are
    a subset of `rd32 ab`, the decoder accepted `vb`, and no call reported an error. -/
theorem C15_read_success_value {α} (dir : String) (name : List Char) (g : Guid) (req : Nat)
    (dec : Bytes → Outcome α) (env : Nat → Call → Res) (a : Nat) (v : α) (tr : List (Call × Res))
    (hrun : (getVar dir name g req dec).run env 0 = (.ok (a, v), tr)) :
    ∃ r0 sz ab vb cl,
      tr = [(.open (varPath dir name g), r0), (.stat, .size sz), (.read 4, .data ab),
            (.read (sz - 4), .data vb), (.close, cl)] ∧
      r0 ≠ .fail ∧ cl ≠ .fail ∧ ab.length = 4 ∧ vb.length = sz - 4 ∧
      attrsSubset req (rd32 ab) = true ∧ a = rd32 ab ∧ dec vb = .ok v := by
  rcases getVar_run_cases dir name g req dec env with h | ⟨_, _, _, _, _, h⟩ | ⟨_, _, _, _, _, _, h⟩ |
      ⟨r0, sz, ab, w, cl, hr0, hab, _, _, _, _, _, h⟩
  · rw [h] at hrun; nomatch (Prod.mk.inj hrun).1
  · rw [h] at hrun; nomatch (Prod.mk.inj hrun).1
  · rw [h] at hrun; nomatch (Prod.mk.inj hrun).1
  · rw [h] at hrun
    obtain ⟨e1, e2⟩ := Prod.mk.inj hrun
    obtain ⟨vb, hv, hvl, hcl, hsub, ha, hdec⟩ := getVarFinish_ok e1
    subst hv e2
    exact ⟨r0, sz, ab, vb, cl, rfl, hr0, hcl, hab, hvl, hsub, ha, hdec⟩

/-! ### signing comes first -/

/-- A failed signer writes nothing: the update is an error with an empty trace (no filesystem
    call at all), whatever the environment; a successful signer hands its bytes to the write. -/
theorem C15_update_atomic (k : Bytes → Prog (Outcome Unit)) (env : Nat → Call → Res) :
    (signedUpdate none k).run env 0 = (.err, []) ∧
    ∀ b, (signedUpdate (some b) k).run env 0 = (k b).run env 0 :=
  ⟨rfl, fun _ => rfl⟩

/-- A failed signing leaves the image object without a new signature (and reports an error); a
    successful one appends exactly the produced signature. -/
theorem C15_sign_atomic (p : Parsed) :
    (signImage none p).2 = p ∧ (signImage none p).1 = .err ∧
    ∀ s, signImage (some s) p = (.ok (), p.appendSignature s) :=
  ⟨rfl, rfl, fun _ => rfl⟩

/-! ### non-vacuity: concrete environments -/

/-- an environment whose write is short by one byte: a fault in the trace, and an error -/
example : (writeVar "d" ['x'] Guid.zero 7 [1, 2]).run
      (fun _ c => match c with | .write b => .wrote (b.length - 1) | _ => .ok) 0 =
    (.err, [(.openFile (varPath "d" ['x'] Guid.zero) 0x41 0o644, .ok),
            (.write [7, 0, 0, 0, 1, 2], .wrote 5), (.close, .ok)]) ∧
    isFault (Call.write [7, 0, 0, 0, 1, 2], Res.wrote 5) = true := by decide
/-- only the close fails -/
example : ((writeVar "d" ['x'] Guid.zero 7 [1, 2]).run
      (fun k c => if k = 2 then .fail else fileEnv none k c) 0).1 = .err := by decide
/-- the healthy environment gives success (hypothesis of `C15_write_success_means_clean`) -/
example : ((writeVar "d" ['x'] Guid.zero 7 [1, 2]).run (fileEnv none) 0).1 = .ok () := by decide
/-- a read whose second read comes back one byte short, with a decoder that would accept -/
example : ((getVar "d" ['x'] Guid.zero 0 (fun b => Outcome.ok b)).run
      (fun k c => if k = 3 then .data [9] else fileEnv (some [7, 0, 0, 0, 1, 2]) k c) 0).1 = .err ∧
    isFault (Call.read 2, Res.data [9]) = true := by decide
/-- a healthy read succeeds (hypothesis of `C15_read_success_value`) -/
example : ((getVar "d" ['x'] Guid.zero 0 (fun b => Outcome.ok b)).run
      (fileEnv (some [7, 0, 0, 0, 1, 2])) 0).1 = .ok (7, [1, 2]) := by decide
/-- clean entries are not faults -/
example : isFault (Call.close, Res.ok) = false ∧ isFault (Call.read 1, Res.data [0]) = false ∧
    isFault (Call.stat, Res.size 3) = false ∧ isFault (Call.write [1], Res.wrote 1) = false := by decide
/-- a failed signer in front of a real write program -/
example : (signedUpdate none (fun b => writeVar "d" ['x'] Guid.zero 0x27 b)).run (fileEnv none) 0 = (.err, []) := rfl

end GoUefi.C15

#print axioms GoUefi.C15.C15_write_fault_is_error
#print axioms GoUefi.C15.C15_write_success_means_clean
#print axioms GoUefi.C15.C15_fault_patterns
#print axioms GoUefi.C15.C15_read_fault_is_error
#print axioms GoUefi.C15.C15_read_success_value
#print axioms GoUefi.C15.C15_update_atomic
#print axioms GoUefi.C15.C15_sign_atomic
