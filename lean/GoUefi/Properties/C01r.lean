import GoUefi.Lemmas.MultiFault
/-!
# C01 (reader part) — the digest does not depend on how a conforming reader reports the end

`PECOFFBinary.Hash` streams the parts through `io.Copy(h, io.NewSectionReader(multi, 0, size))`.
`io.ReaderAt` allows a reader to report `io.EOF` together with a read that delivered everything
asked for (a read that ends exactly at the end of the underlying file).  Before the F21 repair
`multi.ReadAt` returned such an `io.EOF` without the bytes of that read, and `io.Copy` took it for
the end of the stream: the digest of a prefix was returned with no error.

Model: `GoUefi/Model/MultiFault.lean` (`multiReadAtE`, `copyAllE`, `hashInputE`; the code before
the repair as `multiReadAtOld`, `copyAllOld`).  Helper lemmas: `GoUefi/Lemmas/MultiFault.lean`.
Only the property theorems and their non-vacuity examples live here.
-/
namespace GoUefi.C01
open GoUefi GoUefi.Impl

/-- Through ANY reader that delivers the requested bytes, whether or not it reports `io.EOF`
    together with a read (at any read, any number of times), `Hash` digests exactly the
    concatenation of the parts — which `C01_impl_eq_spec` equates with the specification's hash
    input — for every positive buffer size of `io.Copy`. -/
theorem C01_conforming_reader (env : Impl.RdEnv) (hd : env.Delivers) (parts : List Bytes)
    (chunk : Nat) (hc : 0 < chunk) :
    Impl.hashInputE env parts chunk = some (Impl.multiParts parts).flatten := by
  rw [Impl.hashInputE_eq_some_iff,
      Impl.copyAllE_delivers env hd (Impl.multiParts parts) chunk hc _ 0 0 (by omega),
      List.drop_zero]

/-- The same result, stated against the fault-free model of `GoUefi/Model/Pe.lean`: a conforming
    reader is indistinguishable from the ideal one. -/
theorem C01_conforming_reader_eq_pure (env : Impl.RdEnv) (hd : env.Delivers) (parts : List Bytes)
    (chunk : Nat) (hc : 0 < chunk) :
    Impl.hashInputE env parts chunk =
      some (Impl.copyAll (Impl.multiParts parts) chunk
        ((Impl.multiParts parts).flatten.length + 1) 0) := by
  rw [C01_conforming_reader env hd parts chunk hc,
      Impl.copyAll_eq (Impl.multiParts parts) chunk hc _ _ (by omega), List.drop_zero]

/-- A single positional read through a delivering reader: exactly the requested window of the
    concatenation, no error (the counterpart of `C01_multi_readAt`). -/
theorem C01_conforming_readAt (env : Impl.RdEnv) (hd : env.Delivers) (ps : List Bytes)
    (off len k : Nat) (h : off + len ≤ ps.flatten.length) :
    ∃ k', Impl.multiReadAtE env ps off len k = ((ps.flatten.drop off).take len, .none, k') :=
  Impl.multiReadAtE_delivers env hd ps off len k h

/-- The repaired `multi.ReadAt` never passes `io.EOF` on to `io.Copy`, whatever the reader does. -/
theorem C01_readAt_never_eof (env : Impl.RdEnv) (ps : List Bytes) (off len k : Nat) :
    (Impl.multiReadAtE env ps off len k).2.1 ≠ .eof :=
  Impl.multiReadAtE_ne_eof env ps off len k

/-! ### non-vacuity: readers meeting the hypothesis, and evaluated instances -/

/-- the healthy reader delivers -/
example : Impl.envOk.Delivers := Impl.envOk_delivers
/-- a reader that reports `io.EOF` together with its read number 1 delivers -/
example : (Impl.envEofWith 1).Delivers := Impl.envEofWith_delivers 1
/-- … and is inside the `io.ReaderAt` contract -/
example : (Impl.envEofWith 1).Contract := (Impl.envEofWith_delivers 1).contract

/-- `C01_conforming_reader` instantiated … -/
example : Impl.hashInputE (Impl.envEofWith 2) [[1, 2, 3], [], [4, 5], [6]] 2 =
    some (Impl.multiParts [[1, 2, 3], [], [4, 5], [6]]).flatten :=
  C01_conforming_reader _ (Impl.envEofWith_delivers 2) _ 2 (by decide)
/-- … and evaluated by the kernel: the empty part is skipped, `io.EOF` with read 2 changes nothing -/
example : Impl.hashInputE (Impl.envEofWith 2) [[1, 2, 3], [], [4, 5], [6]] 2 =
    some [1, 2, 3, 4, 5, 6] := by decide +kernel
/-- `io.EOF` with whichever read, buffer sizes 1, 2, 4 and 7: always the whole stream -/
example : (List.range 8).all (fun j => [1, 2, 4, 7].all fun chunk =>
    Impl.hashInputE (Impl.envEofWith j) [[1, 2, 3], [], [4, 5], [6]] chunk ==
      some [1, 2, 3, 4, 5, 6]) = true := by decide +kernel
/-- a single read across two part boundaries with `io.EOF` reported by the middle part read -/
example : Impl.multiReadAtE (Impl.envEofWith 1) [[1, 2], [3], [4, 5, 6]] 1 4 0 =
    ([2, 3, 4, 5], .none, 3) := by decide +kernel

/-! ### regression: the code before the F21 repair breaks the statement (kernel-checked) -/

/-- Before F21: the reader reports `io.EOF` together with read 2 (which delivers its byte); the
    old `multi.ReadAt` drops the bytes of that read and returns `io.EOF`, `io.Copy` returns nil,
    and `[1, 2, 3]` — a proper prefix of the stream — is digested without any error. -/
example : Impl.copyAllOld (Impl.envEofWith 2) [[1, 2, 3], [4, 5], [6]] 2 7 0 0 =
    ([1, 2, 3], .none) ∧ [1, 2, 3] ≠ [[1, 2, 3], [4, 5], [6]].flatten := by decide +kernel
/-- the same reader through the repaired code -/
example : Impl.copyAllE (Impl.envEofWith 2) [[1, 2, 3], [4, 5], [6]] 2 7 0 0 =
    ([1, 2, 3, 4, 5, 6], .none) := by decide +kernel
/-- before F21 wherever the `io.EOF` is reported, except with the very last read (number 5), a proper
    prefix is digested, silently -/
example : (List.range 5).all (fun j =>
    let r := Impl.copyAllOld (Impl.envEofWith j) [[1, 2, 3], [4, 5], [6]] 2 7 0 0
    r.2 == .none && r.1.length < 6 && r.1 == [1, 2, 3, 4, 5, 6].take r.1.length) = true := by decide +kernel

#print axioms C01_conforming_reader
#print axioms C01_conforming_reader_eq_pure
#print axioms C01_conforming_readAt
#print axioms C01_readAt_never_eof

end GoUefi.C01
