import GoUefi.Properties.C11g
/-!
# C11 (generated tie, second part) — the attribute word on the wire, and write-then-read

The buffer of a variable write is "the 4-byte little-endian attributes followed by the data"; the
source builds the first half with `Attributes.Bytes` / `Attributes.Unmarshal`
(`efi/attributes/attributes.go`, translated by `tools/go2lean` on every run) and reads it back with
`ParseEfivars` (`C11g_parse_*`).  Stated here, for EVERY attribute word and every data:

* `C11h_attr_bytes` / `C11h_attr_unmarshal`: the encoder writes exactly the four little-endian bytes of
  the word (`Unmarshal` appends them to whatever the buffer holds and touches nothing in front);
* `C11h_attr_bytes_inj`: distinct words have distinct encodings; `C11h_attr_bytes_decode`;
* `C11h_write_then_parse`: a file that starts with `a.Bytes ++ data`, whatever follows, read with the
  declared size `4 + |data|`, gives back exactly `a` and `data` and leaves what follows in the reader —
  the translated encoder and both translated copies of the reader are inverse to each other;
* `C11h_parse_then_write`: conversely whatever a successful `ParseEfivars` returns re-encodes to the
  first `size` bytes of the file.
-/
namespace GoUefi.C11
open GoUefi GoUefi.Gen GoUefi.GenCodec

theorem C11h_attr_unmarshal (a : attributes.Attributes) (b : List UInt8) :
    attributes.Attributes.Unmarshal a b = b ++ le32 a.toNat := rfl

theorem C11h_attr_bytes (a : attributes.Attributes) :
    attributes.Attributes.Bytes a = le32 a.toNat := by
  simp [attributes.Attributes.Bytes, attributes.Attributes.Unmarshal, encLE32_eq]

theorem C11h_attr_bytes_length (a : attributes.Attributes) :
    (attributes.Attributes.Bytes a).length = 4 := by rw [C11h_attr_bytes]; rfl

theorem C11h_attr_bytes_decode (a : attributes.Attributes) :
    decLE32 (attributes.Attributes.Bytes a) = a := by
  rw [C11h_attr_bytes, ← encLE32_eq, decLE32_encLE32]

theorem C11h_attr_bytes_inj (a b : attributes.Attributes) :
    attributes.Attributes.Bytes a = attributes.Attributes.Bytes b ↔ a = b := by
  constructor
  · intro h
    have := congrArg decLE32 h
    rwa [C11h_attr_bytes_decode, C11h_attr_bytes_decode] at this
  · rintro rfl; rfl

/-- write, then read with the declared size: the attribute word and the data come back, and only
    they are consumed -/
theorem C11h_write_then_parse (a : attributes.Attributes) (data tail : List UInt8) :
    attributes.ParseEfivars (attributes.Attributes.Bytes a ++ data ++ tail) (4 + (data.length : Int)) =
      (tail, a, data, none) := by
  have hl := C11h_attr_bytes_length a
  have hsz : (4 + (data.length : Int)).toNat = 4 + data.length := by omega
  rw [C11g_parse_ok _ _ (by omega) (by simp [hsz, hl]), hsz]
  have e1 : (attributes.Attributes.Bytes a ++ data ++ tail).take 4 = attributes.Attributes.Bytes a := by
    rw [List.append_assoc, List.take_append_of_le_length (by omega), List.take_of_length_le (by omega)]
  have e2 : (attributes.Attributes.Bytes a ++ data ++ tail).drop 4 = data ++ tail := by
    rw [List.append_assoc, List.drop_append_of_le_length (by omega), List.drop_of_length_le (by omega)]
    rfl
  have e3 : (attributes.Attributes.Bytes a ++ data ++ tail).drop (4 + data.length) = tail := by
    rw [← List.drop_drop, e2]; simp
  rw [e1, e2, e3, C11h_attr_bytes_decode]
  simp

/-- the second copy of the reader (`fswrapper.FSWrapper.ParseEfivars`) too -/
theorem C11h_write_then_parse_wrapper (t : fswrapper.FSWrapper) (a : attributes.Attributes)
    (data tail : List UInt8) :
    fswrapper.FSWrapper.ParseEfivars t (attributes.Attributes.Bytes a ++ data ++ tail)
      (4 + (data.length : Int)) = (tail, a, data, none) := by
  rw [C11g_parse_twins, C11h_write_then_parse]

/-- read, then write: what a successful read returns re-encodes to the first `size` bytes -/
theorem C11h_parse_then_write (f : List UInt8) (size : Int) (hs : 4 ≤ size) (hf : size.toNat ≤ f.length) :
    attributes.Attributes.Bytes (attributes.ParseEfivars f size).2.1 ++
      (attributes.ParseEfivars f size).2.2.1 = f.take size.toNat := by
  rw [C11g_parse_ok f size hs hf]
  simp only
  rw [C11h_attr_bytes, ← encLE32_eq, encLE32_decLE32 _ (by rw [List.length_take]; omega)]
  have : size.toNat = 4 + (size.toNat - 4) := by omega
  rw [this, List.take_add]
  simp

example : attributes.Attributes.Bytes 0x27 = [0x27, 0, 0, 0] := by decide +kernel
example : attributes.ParseEfivars (attributes.Attributes.Bytes 0x67 ++ [1, 2, 3] ++ [9]) 7 =
    ([9], 0x67, [1, 2, 3], none) := C11h_write_then_parse 0x67 [1, 2, 3] [9]

end GoUefi.C11

#print axioms GoUefi.C11.C11h_attr_unmarshal
#print axioms GoUefi.C11.C11h_attr_bytes
#print axioms GoUefi.C11.C11h_attr_bytes_length
#print axioms GoUefi.C11.C11h_attr_bytes_decode
#print axioms GoUefi.C11.C11h_attr_bytes_inj
#print axioms GoUefi.C11.C11h_write_then_parse
#print axioms GoUefi.C11.C11h_write_then_parse_wrapper
#print axioms GoUefi.C11.C11h_parse_then_write
